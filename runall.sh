#!/bin/sh
# Runs the quick tier (or the tier given as $1) of every claimed check on the current /repo tree (refreshes evidence/*.json).
# IDS="C04 C07" restricts the run to those properties, in that order.
cd "$(dirname "$0")"
rc=0
ids=${IDS:-$(python3 -c "import json;print(' '.join(c['property_id'] for c in json.load(open('MANIFEST.json'))['checks']))")}
for id in $ids; do
  ./check "$id" --tier "${1:-quick}" | tail -3 || rc=1
done
exit $rc
