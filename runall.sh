#!/bin/sh
# Runs the quick tier of every claimed check on the current /repo tree (refreshes evidence/*.json).
cd "$(dirname "$0")"
rc=0
for id in $(python3 -c "import json;print(' '.join(c['property_id'] for c in json.load(open('MANIFEST.json'))['checks']))"); do
  ./check "$id" --tier "${1:-quick}" | tail -3 || rc=1
done
exit $rc
