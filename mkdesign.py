#!/usr/bin/env python3
"""Assembles DESIGN.md from design/head.md (approach, hand-written), the per-property record generated from
propcfg.py / the Props files / KNOWN_FINDINGS.json / seeded/*, design/tail.md (hand-written) and design/appendix.md."""
import json, os, re, subprocess

ROOT = os.path.dirname(os.path.abspath(__file__))
import sys
sys.path.insert(0, ROOT)
import propcfg  # noqa

props = {}
for l in open(os.path.join(ROOT, "properties.jsonl")):
    p = json.loads(l)
    props[p["id"]] = p
known = json.load(open(os.path.join(ROOT, "KNOWN_FINDINGS.json")))["findings"]

MODEL = {
    "C01": "Model/Store.lean (normPoint, collapse, mergeBatch, nodePoints, edgePoints); Lemmas/LWW.lean",
    "C02": "Model/Sync.lean (the pass) on two copies of Model/Store.lean, Model/SyncLoop.lean (the select loop of Run); Lemmas/Sync, SyncExchange, SyncTree (whole subtrees), SyncSend and SyncSendTree (transfer of a subtree missing upstream), StoreRows (what every stored row looks like), SyncLoop",
    "C03": "Model/Store.lean (bump, edgeWrite, edgeInsert, calcHash), Model/Crc32.lean; Lemmas/Hash, StoreBridge, StoreInv, StoreSteps, StoreEdge, StoreNewEdge",
    "C04": "Model/Crash.lean on Model/Store.lean",
    "C05": "Model/Store.lean (edgePoints pre-checks, ancestors); Lemmas/StoreReach.lean",
    "C06": "Model/Rebroadcast.lean on the store model",
    "C07": "Model/Manager.lean (scanHelper on the store model + bookkeeping LTS); Lemmas/Manager.lean",
    "C08": "Model/Feed.lean on Model/Rebroadcast.lean; Lemmas/Feed.lean",
    "C09": "Model/Auth.lean on the store model; Lemmas/Auth.lean",
    "C10": "Model/Config.lean (deep-embedded Encode / Decode / DiffPoints / MergePoints); Lemmas/ConfigRoundtrip*, ConfigField, ConfigDiff, ConfigDiffIdx, ConfigDiffMap",
    "C11": "Model/Config.lean; Lemmas/ConfigTotal.lean",
    "C12": "Model/Proto3.lean, Model/Pb.lean; Lemmas/Pb.lean, Proto3.lean (wire level), PbBytes.lean (message level), Itoa.lean",
    "C13": "Model/Rule.lean (+ Model/Schedule.lean); Lemmas/Rule.lean",
    "C14": "Model/Schedule.lean, Spec/Window.lean; Lemmas/Schedule.lean",
    "C15": "Model/Export.lean on the store model; Lemmas/Export.lean, ExportStore.lean (SendNode of exported nodes on the store model), ExportTree.lean and ExportForest.lean (the exported file is the traversal of its own tree), ExportTime.lean (a file without time stamps), StoreRows.lean (what every stored row looks like: the premises on the exported records hold on every reachable store)",
    "C16": "Model/Cobs.lean; Lemmas/Cobs, CobsReader, CobsStream",
    "C17": "Model/Serial.lean, Model/Crc16.lean; Lemmas/Crc16, Crc16Order, Crc16Detect, Bits, Serial, SubjectSafe",
    "C18": "Model/Modbus.lean, Spec/ModbusSpec.lean; Lemmas/Modbus, ModbusConforms",
    "C19": "Model/ModbusE2E.lean; Lemmas/ModbusFraming, ModbusE2E",
    "C20": "Model/Conc.lean on the store model (reuses the C01/C03/C04 lemmas)",
}


def theorems(pid):
    """(name, first sentence of the docstring) for every theorem in Props/Cxx.lean"""
    src = open(os.path.join(ROOT, "lean", "Siot", "Props", pid + ".lean")).read()
    out = []
    for m in re.finditer(r"(/--((?:(?!-/).)*)-/\s*)?theorem\s+([A-Za-z0-9_']+)", src, re.S):
        doc = (m.group(2) or "").strip().replace("\n", " ")
        doc = re.sub(r"\s+", " ", doc)
        first = re.split(r"(?<=[.])\s(?=[A-Z(])", doc, 1)[0] if doc else ""
        if len(first) > 420:
            first = first[:417] + "..."
        out.append((m.group(3), first))
    return out


def seeded(pid, wave=""):
    d = os.path.join(ROOT, "seeded" + wave, pid)
    if not os.path.isdir(d):
        return None
    meta = {}
    try:
        meta = json.load(open(os.path.join(d, "meta.json")))
    except Exception:
        pass
    res = ""
    try:
        res = open(os.path.join(d, "result.txt")).read()
    except Exception:
        pass
    note = ""
    try:
        note = open(os.path.join(d, "NOTE.md")).read().strip()
    except Exception:
        pass
    return meta, res, note


out = [open(os.path.join(ROOT, "design", "head.md")).read().replace("@@NDEFECTS@@", str(len(known)))]
out.append("## 3. Per property, as built\n")
out.append("Every entry is generated from the files the check itself uses (`propcfg.py`, `lean/Siot/Props/Cxx.lean`, "
           "`KNOWN_FINDINGS.json`, `seeded/Cxx/`), so it cannot drift from them. *Theorems* lists every theorem of the property "
           "file with the first sentence of its docstring; the full statements are in the file. All of them are audited by "
           "`#print axioms` on every run (allowed: `propext`, `Classical.choice`, `Quot.sound`).\n")
for pid in sorted(props):
    p = props[pid]
    cfg = propcfg.PROPS.get(pid, {})
    out.append(f"### {pid} — {p['title']}" + (" (partial)" if cfg.get("partial") else "") + "\n")
    out.append(f"*Model:* {MODEL.get(pid, '')}.\n")
    out.append("*Theorems* (`lean/Siot/Props/" + pid + ".lean`):\n")
    for n, d in theorems(pid):
        out.append(f"- `{n}`" + (f" — {d}" if d else ""))
    out.append("")
    out.append(f"*Correspondence run (tie B):* {cfg.get('rule', '')}\n")
    if cfg.get("extra"):
        out.append("*Extra run-time checks:* " + ", ".join(getattr(f, "__doc__", "").strip() for f in cfg["extra"]) + "\n")
    if cfg.get("modelled"):
        out.append("*Modelled, not verified:*\n")
        for m in cfg["modelled"]:
            out.append(f"- {m}")
        out.append("")
    if cfg.get("trusted"):
        out.append("*Trusted for this property:* " + "; ".join(cfg["trusted"]) + ".\n")
    if cfg.get("partial"):
        out.append(f"*Partial:* {cfg['partial']}\n")
    ks = [k for k in known if k["property"] == pid]
    if ks:
        out.append("*Findings:*\n")
        for k in ks:
            if k["status"] == "open":
                out.append(f"- **open** (`class={k['class']}`): {k['what']}")
            else:
                out.append(f"- {k['what']}")
        out.append("")
    s = seeded(pid)
    if s:
        meta, res, note = s
        verdict = "caught with a failing input" if "VIOLATION" in res and "no-failing-input-found" not in res.split("VIOLATION")[1].split("\n")[0] \
            else ("caught, no failing input found" if "VIOLATION" in res else "NOT caught")
        out.append(f"*Seeded mutation* (`seeded/{pid}/`): {meta.get('summary', '?')} — **{verdict}**."
                   + (f" {note}" if note else "") + "\n")
    for wave, word in (("2", "Second"), ("3", "Third"), ("4", "Fourth"), ("5", "Fifth"), ("6", "Sixth"), ("7", "Seventh")):
        s2 = seeded(pid, wave)
        if s2:
            meta, res, note = s2
            verdict = "caught with a failing input" if "VIOLATION" in res and "no-failing-input-found" not in res.split("VIOLATION")[1].split("\n")[0] \
                else ("caught, no failing input found" if "VIOLATION" in res else "NOT caught")
            out.append(f"*{word} seeded mutation* (`seeded{wave}/{pid}/`, run against a scratch worktree): {meta.get('summary', '?')} — **{verdict}**."
                       + (f" {note}" if note else "") + "\n")

# section 4: findings
out.append("## 4. Defects found in bminer/simpleiot\n")
fixed = [k for k in known if k["status"] == "fixed"]
opn = [k for k in known if k["status"] == "open"]
out.append(f"The checks reproduced **{len(fixed) + len(opn)} genuine defects** on the unchanged tree, each first as a model/implementation "
           f"disagreement or a falsified specification with a concrete replay. **{len(fixed)}** were repaired by minimal unguarded `fix:` commits in "
           f"`/repo` (the existing suite, unedited, stays green); **{len(opn)}** are recorded as open findings (third-party library, protocol or "
           f"hash design, or a repair that is not small) and are reported as `KNOWN-FINDING` lines. The list lives in `KNOWN_FINDINGS.json`; a "
           f"`fixed` entry suppresses nothing.\n")
out.append("| property | status | commit / class | what failed |")
out.append("|---|---|---|---|")
for k in sorted(known, key=lambda k: (k["property"], k["status"])):
    what = k["what"]
    what = re.sub(r"^fixed: property=C\d+ [0-9a-f]+ ", "", what)
    out.append(f"| {k['property']} | {k['status']} | {k.get('commit') or k.get('class')} | {what[:420].replace('|', '/')} |")
out.append("")
# section 6 table: seeded mutations
rows = []
for wave in ("", "2", "3", "4", "5", "6", "7"):
  for pid in sorted(props):
    s6 = seeded(pid, wave)
    if not s6:
        continue
    meta, res, note = s6
    first = [l for l in res.splitlines() if l.startswith("VIOLATION")]
    verdict = "failing input + replay" if first and "no-failing-input-found" not in first[0] else ("obligation broken, no failing input" if first else "missed")
    rows.append(f"| {pid}{' (wave ' + wave + ')' if wave else ''} | {meta.get('summary', '?')[:300].replace('|', '/')} | {verdict} |")
SEEDED_TABLE = "\n".join(["| property | seeded change (by a sub-agent that saw only the property text) | result of `./check` |", "|---|---|---|"] + rows)
out.append(open(os.path.join(ROOT, "design", "tail.md")).read().replace("@@SEEDED_TABLE@@", SEEDED_TABLE))
out.append(open(os.path.join(ROOT, "design", "appendix.md")).read())
open(os.path.join(ROOT, "DESIGN.md"), "w").write("\n".join(out))
print("DESIGN.md:", sum(x.count("\n") + 1 for x in out), "lines")
