#!/bin/sh
# usage: seedtest2.sh Cxx <worktree> [wave]  — confirm a seeded mutation that lives in a scratch git worktree of /repo
# (source change + demo test, uncommitted, with <worktree>/../Cxx.patch.diff and Cxx.meta.json next to it):
# copy patch / meta / demo into seeded<wave>/Cxx/, run the property's quick check with VERIF_REPO=<worktree>
# (the harness is built against the worktree through a -modfile copy of harness/go.mod; /repo is not touched),
# record the outcome in seeded<wave>/Cxx/result.txt, then regenerate lean/Siot/Gen and the harness from /repo.
id=$1; wt=$2; wave=${3:-2}
cd "$(dirname "$0")" || exit 2
d=seeded$wave/$id
mkdir -p $d/demo
cp $wt/../$id.patch.diff $d/patch.diff
cp $wt/../$id.meta.json $d/meta.json
find $wt -name 'mut*_demo_test.go' -exec cp {} $d/demo/ \;
(cd $wt && GOFLAGS=-mod=mod GOPROXY=off GOSUMDB=off go build ./... ) > $d/build.txt 2>&1 || echo "BUILD FAILS" >> $d/build.txt
VERIF_REPO=$wt ./check $id > $d/check.out 2>&1; rc=$?
echo "exit=$rc" > $d/result.txt
grep -E "^(VIOLATION|C[0-9][0-9] tier)" $d/check.out >> $d/result.txt
cat $d/result.txt
# back to the real tree
./check $id > $d/clean.out 2>&1; echo "clean exit=$?" | tee -a $d/result.txt
