package main

import (
	"fmt"
	"math"
	"math/rand"
	"strings"
)

func init() {
	register("C01", &Prop{Gen: c01Gen, Run: storeRun})
	register("C03", &Prop{Gen: c03Gen, Run: storeRun})
}

var c01Types = []string{"", "a", "ab", "0", "tombstone", "value", "description"}
var c01Keys = []string{"", "0", "b", "00", "1"}
var c01Texts = []string{"", "", "x", "a\x00b", "\xff\xfe", "ünï", "longer text"}

func c01Val(r *rand.Rand) float64 {
	return pick(r, []float64{0, math.Copysign(0, -1), 1, -1, 0.5, 1e300, 5e-324, math.Inf(1), math.Inf(-1), float64(1<<53 + 1), float64(r.Intn(100)), r.NormFloat64()})
}

func genSPoint(r *rand.Rand, typ, key string, t int64) string {
	tomb := 0
	if r.Intn(5) == 0 {
		tomb = pick(r, []int{1, 2, 3, -1, 1 << 33})
	}
	origin := ""
	if r.Intn(4) == 0 {
		origin = pick(r, []string{"o1", "rule"})
	}
	var dat []byte
	if r.Intn(6) == 0 {
		dat = []byte{1, 0, 255}
	}
	return fmt.Sprintf("%s,%s,%s,%s,%d,%d,%s,%s", hxs(typ), hxs(key), valStr(c01Val(r)), hxs(pick(r, c01Texts)), t, tomb, hxs(origin), hx(dat))
}

// c01Gen: deliveries of points to one node and one edge, permuted, partitioned, duplicated.
func c01Gen(r *rand.Rand, n int, tier string) []string {
	var out []string
	for i := 0; i < n; i++ {
		// distinct timestamps per identity (identity = type, key with ""->"0")
		type ident struct{ t, k string }
		used := map[ident]map[int64]bool{}
		np := 2 + r.Intn(10)
		var pts []string
		for j := 0; j < np; j++ {
			typ, key := pick(r, c01Types), pick(r, c01Keys)
			nk := key
			if nk == "" {
				nk = "0"
			}
			id := ident{typ, nk}
			if used[id] == nil {
				used[id] = map[int64]bool{}
			}
			t := pick(r, []int64{1, 2, 3, 5, 1000, -1, -5, 1700000000000000000, math.MaxInt64, 1700000000000000001})
			for used[id][t] {
				t = 10 + int64(r.Intn(1000000))
			}
			used[id][t] = true
			pts = append(pts, genSPoint(r, typ, key, t))
		}
		// re-deliveries (exact duplicates)
		for j := 0; j < r.Intn(3); j++ {
			pts = append(pts, pick(r, pts))
		}
		r.Shuffle(len(pts), func(a, b int) { pts[a], pts[b] = pts[b], pts[a] })
		// partition into batches
		var ops []string
		target := pick(r, []string{"node", "edge", "node", "rootnode"})
		// the node needs an edge so that hashes exist
		ops = append(ops, "ep:"+hxs("n1")+":"+hxs("R")+":"+fmt.Sprintf("%s,%s,%d,%s,%d,0,-,-", hxs("nodeType"), "-", 0, hxs("device"), 50))
		k := 0
		for k < len(pts) {
			sz := 1 + r.Intn(4)
			if k+sz > len(pts) {
				sz = len(pts) - k
			}
			b := strings.Join(pts[k:k+sz], "+")
			switch target {
			case "node":
				ops = append(ops, "np:"+hxs("n1")+":"+b)
			case "rootnode":
				ops = append(ops, "np:"+hxs("R")+":"+b)
			default:
				ops = append(ops, "ep:"+hxs("n1")+":"+hxs("R")+":"+b)
			}
			k += sz
		}
		out = append(out, busVariant(i, strings.Join(ops, ";")))
	}
	return out
}

// busVariant: every tenth store case runs over the BUS on a fresh instance instead of on the database directly
// ("B=" prefix): the real p.<id> / p.<id>.<parent> handlers with acknowledgement, and the final content read back
// through nodes.<parent>.<id> requests (client.GetNodes), hashes included — the place the property is observed at.
// Only cases the wire can carry unchanged: tombstone counts within int32, text that is valid UTF-8 (C12's domain).
func busVariant(i int, c string) string {
	if i%10 != 9 || strings.Contains(c, ",8589934592,") || strings.Contains(c, hx([]byte("\xff\xfe"))) {
		return c
	}
	return "B=" + c
}

// c03Gen: DAG histories: nodes created points-first or edge-first, mirrors, diamonds, attaching
// above populated subtrees, delete / undelete, stale and repeated writes.
func c03Gen(r *rand.Rand, n int, tier string) []string {
	var out []string
	for i := 0; i < n; i++ {
		nodes := []string{"R"}
		ids := []string{"a", "b", "c", "d", "e"}
		type edge struct{ up, down string }
		var edges []edge
		var ops []string
		clock := int64(100)
		tick := func() int64 { clock += int64(1 + r.Intn(3)); return clock }
		nt := func() string {
			return fmt.Sprintf("%s,-,0,%s,%d,0,-,-", hxs("nodeType"), hxs(pick(r, []string{"device", "group", "user"})), tick())
		}
		pt := func() string {
			t := tick()
			if r.Intn(6) == 0 {
				t = int64(1 + r.Intn(100)) // stale
			}
			return genSPoint(r, pick(r, []string{"value", "description", "tombstone"}), pick(r, []string{"", "0", "1"}), t)
		}
		steps := 3 + r.Intn(10)
		for s := 0; s < steps; s++ {
			switch k := r.Intn(10); {
			case k < 3: // new node under an existing one (edge first or points first)
				id := pick(r, ids)
				parent := pick(r, nodes)
				if r.Intn(2) == 0 {
					ops = append(ops, "np:"+hxs(id)+":"+pt())
				}
				ops = append(ops, "ep:"+hxs(id)+":"+hxs(parent)+":"+nt()+"+"+fmt.Sprintf("%s,-,0,-,%d,0,-,-", hxs("tombstone"), tick()))
				edges = append(edges, edge{parent, id})
				nodes = append(nodes, id)
			case k < 6: // node points on any node
				ops = append(ops, "np:"+hxs(pick(r, nodes))+":"+pt())
			case k < 8 && len(edges) > 0: // edge points on an existing edge (incl. delete / undelete)
				e := pick(r, edges)
				p := pt()
				if r.Intn(2) == 0 {
					p = fmt.Sprintf("%s,-,%s,-,%d,0,-,-", hxs("tombstone"), valStr(float64(r.Intn(3))), tick())
				}
				ops = append(ops, "ep:"+hxs(e.down)+":"+hxs(e.up)+":"+p)
			case k < 9 && len(nodes) > 2: // mirror: existing node under another parent (may close a diamond or a cycle)
				id := pick(r, nodes[1:])
				parent := pick(r, nodes)
				ops = append(ops, "ep:"+hxs(id)+":"+hxs(parent)+":"+nt())
				if id != parent {
					edges = append(edges, edge{parent, id})
				}
			default: // two points in one batch
				ops = append(ops, "np:"+hxs(pick(r, nodes))+":"+pt()+"+"+pt())
			}
		}
		out = append(out, busVariant(i, strings.Join(ops, ";")))
	}
	return out
}
