package main

import (
	"fmt"
	"io"
	"math/rand"
	"strings"

	"github.com/simpleiot/simpleiot/client"
)

// C16 cases:
//   enc <frameHex>                         -> hex of what CobsWrapper.Write hands to the device
//   dec <bytesHex>                         -> ok:<hex> | err:decode | err:short
//   rd <bufLen> <maxLen> <chunk;chunk;..> <frame,frame,..> <pre> <post>
//        -> results of successive Read calls until the device reports EOF, joined by ';'
//        frames/pre/post are only used by the specification oracle in the model driver:
//        the first `pre` frames lie entirely before any damage, the last `post` frames begin
//        after the first delimiter that follows the damage (undamaged stream: pre = all, post = all).

func init() { register("C16", &Prop{Gen: c16Gen, Run: c16Run}) }

type scriptDev struct {
	chunks [][]byte
	wrote  []byte
}

func (d *scriptDev) Read(b []byte) (int, error) {
	if len(d.chunks) == 0 {
		return 0, io.EOF
	}
	c := d.chunks[0]
	n := copy(b, c)
	if n < len(c) {
		d.chunks[0] = c[n:]
	} else {
		d.chunks = d.chunks[1:]
	}
	return n, nil
}
func (d *scriptDev) Write(b []byte) (int, error) { d.wrote = append(d.wrote, b...); return len(b), nil }
func (d *scriptDev) Close() error                { return nil }

func cobsErr(err error) string {
	switch {
	case err == io.EOF:
		return "err:dev"
	case err == client.ErrCobsDecodeError:
		return "err:decode"
	case err == client.ErrCobsTooMuchData:
		return "err:toomuch"
	case strings.Contains(err.Error(), "Not enough data"):
		return "err:short"
	}
	return "err:other:" + err.Error()
}

func c16Run(c string) string {
	f := strings.Fields(c)
	switch f[0] {
	case "enc":
		d := &scriptDev{}
		cw := client.NewCobsWrapper(d, 1<<20)
		if _, err := cw.Write(unhx(f[1])); err != nil {
			return "err:" + err.Error()
		}
		return hx(d.wrote)
	case "dec":
		out, err := client.VerifCobsDecodeInplace(unhx(f[1]))
		if err != nil {
			return cobsErr(err)
		}
		return "ok:" + hx(out)
	case "rd":
		bufLen, maxLen := int(atoi64(f[1])), int(atoi64(f[2]))
		d := &scriptDev{}
		total := 0
		if f[3] != "-" {
			for _, ch := range strings.Split(f[3], ";") {
				b := unhx(ch)
				if b == nil {
					b = []byte{}
				}
				d.chunks = append(d.chunks, b)
				total += len(b)
			}
		}
		cw := client.NewCobsWrapper(d, maxLen)
		var res []string
		for i := 0; i < total+len(d.chunks)+5; i++ {
			b := make([]byte, bufLen)
			for j := range b {
				b[j] = 0xa5 // stale content of the caller's buffer must never show up
			}
			if i%3 == 1 {
				// the debug level is switched between reads, as the serial client does when a debug point arrives: it is
				// not part of the framing and must not touch what is buffered
				cw.SetDebug(i % 2)
			}
			n, err := cw.Read(b)
			if err != nil {
				res = append(res, cobsErr(err))
				if err == io.EOF {
					break
				}
				continue
			}
			res = append(res, "ok:"+hx(b[:n]))
		}
		return strings.Join(res, ";")
	}
	panic("C16: bad case kind")
}

func c16Frame(r *rand.Rand, small bool) []byte {
	var n int
	switch r.Intn(12) {
	case 0:
		n = 1
	case 1:
		n = 2
	case 2:
		n = 253 + r.Intn(4)
	case 3:
		n = 507 + r.Intn(3)
	case 4:
		n = 0
	default:
		n = 1 + r.Intn(20)
	}
	if small && n > 30 {
		n = 1 + r.Intn(12)
	}
	b := make([]byte, n)
	zeroP := pick(r, []int{0, 0, 3, 10, 2})
	for i := range b {
		if zeroP > 0 && r.Intn(zeroP) == 0 {
			b[i] = 0
		} else {
			b[i] = byte(1 + r.Intn(255))
		}
	}
	// a zero right after a run of exactly 252, 253 or 254 non-zero bytes (block codes 0xfd, 0xfe, and the full block 0xff
	// that dim13/cobs loses), from the start of the frame or right after a leading zero
	if n >= 253 && r.Intn(2) == 0 {
		run := 252 + r.Intn(3)
		start := r.Intn(2)
		if start+run < n {
			if start == 1 {
				b[0] = 0
			}
			for i := start; i < start+run; i++ {
				if b[i] == 0 {
					b[i] = 7
				}
			}
			b[start+run] = 0
		}
	}
	return b
}

func c16Wire(f []byte) []byte {
	d := &scriptDev{}
	cw := client.NewCobsWrapper(d, 1<<20)
	cw.Write(f)
	return d.wrote
}

func c16Chunk(r *rand.Rand, s []byte, bounds []int) [][]byte {
	var cuts []int
	switch r.Intn(5) {
	case 0: // one byte at a time
		for i := 1; i < len(s); i++ {
			cuts = append(cuts, i)
		}
	case 1: // everything at once
	case 2: // near frame boundaries
		for _, b := range bounds {
			c := b + r.Intn(5) - 2
			if c > 0 && c < len(s) {
				cuts = append(cuts, c)
			}
		}
	default:
		p := 1 + r.Intn(12)
		for i := 1; i < len(s); i++ {
			if r.Intn(p) == 0 {
				cuts = append(cuts, i)
			}
		}
	}
	var out [][]byte
	prev := 0
	seen := map[int]bool{}
	for _, c := range cuts {
		if c <= prev || seen[c] {
			continue
		}
		seen[c] = true
		out = append(out, s[prev:c])
		if r.Intn(15) == 0 {
			out = append(out, []byte{}) // an empty device read
		}
		prev = c
	}
	out = append(out, s[prev:])
	return out
}

func c16Gen(r *rand.Rand, n int, tier string) []string {
	var out []string
	for i := 0; i < n; i++ {
		switch k := r.Intn(10); {
		case k == 0:
			out = append(out, "enc "+hx(c16Frame(r, false)))
		case k == 1:
			// decoder on arbitrary / damaged bytes
			b := c16Wire(c16Frame(r, true))
			switch r.Intn(4) {
			case 0:
				b = b[:r.Intn(len(b)+1)]
			case 1:
				if len(b) > 0 {
					b[r.Intn(len(b))] = byte(r.Intn(256))
				}
			case 2:
				b = make([]byte, r.Intn(8))
				for j := range b {
					b[j] = byte(r.Intn(4))
				}
			}
			out = append(out, "dec "+hx(b))
		default:
			nf := 1 + r.Intn(5)
			small := r.Intn(4) != 0
			var frames [][]byte
			var stream []byte
			var bounds []int
			var starts []int // offset of each frame's wire form in the stream
			pre, post := nf, nf
			bufLen, maxLen := 1024, 1024
			if small {
				bufLen = 40 + r.Intn(30)
				maxLen = bufLen
			}
			if r.Intn(8) == 0 {
				maxLen = bufLen - 1 - r.Intn(10)
			}
			for j := 0; j < nf; j++ {
				f := c16Frame(r, small)
				if small && r.Intn(4) == 0 {
					// a frame at the limit of the caller's buffer: the longest that fits, one less, or just too long
					f = make([]byte, maxLen-5+r.Intn(6))
					for k := range f {
						f[k] = byte(1 + r.Intn(255))
						if r.Intn(12) == 0 {
							f[k] = 0
						}
					}
				}
				frames = append(frames, f)
				starts = append(starts, len(stream))
				stream = append(stream, c16Wire(f)...)
				bounds = append(bounds, len(stream))
				if r.Intn(10) == 0 { // idle line: extra delimiters between frames
					stream = append(stream, make([]byte, 1+r.Intn(3))...)
				}
			}
			// single damage event (~25 %)
			if r.Intn(4) == 0 && len(stream) > 0 {
				pos := r.Intn(len(stream))
				dmgEnd := pos + 1
				// frames whose wire form (incl. terminator) ends at or before the damage are "pre"
				pre = 0
				for k := 0; k < nf; k++ {
					if bounds[k] <= pos {
						pre++
					} else {
						break
					}
				}
				switch r.Intn(4) {
				case 0: // flip a byte
					old := stream[pos]
					stream = append([]byte(nil), stream...)
					for stream[pos] == old {
						stream[pos] = byte(r.Intn(256))
					}
				case 1: // drop a byte
					stream = append(append([]byte(nil), stream[:pos]...), stream[pos+1:]...)
					dmgEnd = pos
					for k := range starts {
						if starts[k] > pos {
							starts[k]--
						}
					}
				case 2: // insert bytes
					ins := make([]byte, 1+r.Intn(4))
					for k := range ins {
						ins[k] = byte(r.Intn(256))
					}
					stream = append(append(append([]byte(nil), stream[:pos]...), ins...), stream[pos:]...)
					dmgEnd = pos + len(ins)
					for k := range starts {
						if starts[k] >= pos {
							starts[k] += len(ins)
						}
					}
				case 3: // burst of garbage without delimiter, possibly longer than the limit
					ins := make([]byte, bufLen/2+r.Intn(bufLen))
					for k := range ins {
						ins[k] = byte(1 + r.Intn(255))
					}
					stream = append(append(append([]byte(nil), stream[:pos]...), ins...), stream[pos:]...)
					dmgEnd = pos + len(ins)
					for k := range starts {
						if starts[k] >= pos {
							starts[k] += len(ins)
						}
					}
				}
				// first delimiter at or after the end of the damage
				z := dmgEnd
				for z < len(stream) && stream[z] != 0 {
					z++
				}
				post = 0
				for k := nf - 1; k >= 0; k-- {
					if starts[k] >= z && starts[k] >= dmgEnd {
						post++
					} else {
						break
					}
				}
				if pre+post > nf {
					post = nf - pre
				}
				bounds = append(bounds, pos, dmgEnd)
			}
			var chs []string
			for _, c := range c16Chunk(r, stream, bounds) {
				chs = append(chs, hx(c))
			}
			var fr []string
			for _, f := range frames {
				fr = append(fr, hx(f))
			}
			out = append(out, fmt.Sprintf("rd %d %d %s %s %d %d", bufLen, maxLen, strings.Join(chs, ";"), strings.Join(fr, ","), pre, post))
		}
	}
	return out
}
