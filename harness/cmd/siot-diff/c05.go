package main

import (
	"fmt"
	"math/rand"
	"sort"
	"strings"
	"time"

	"github.com/simpleiot/simpleiot/client"
	"github.com/simpleiot/simpleiot/data"
)

func init() {
	register("C05", &Prop{Gen: c05Gen, Run: c05Run, Done: func() {
		if c06Srv != nil {
			c06Srv.stop()
		}
	}})
}

// c05Run: store-level cases run on a fresh database file (storeRun); cases "B=<setup>|<refusable final write>" run over
// the BUS on an in-process instance with a subscription to up.> (the machinery of C06): the reply of every request and
// everything rebroadcast for the final one are observed, so that a refused write that is rebroadcast anyway, or a handler
// that stops answering, is seen at the place subscribers see it.
// c05MoveRun: "M=<setup>|mv:<id>:<old>:<new>" or "...|mr:<id>:<new>": the setup over the bus, then the REAL client.MoveNode /
// client.MirrorNode (the way the UI and the API move and mirror nodes). Observation:
//
//	<setup results>,<ok|err> ## <subjects rebroadcast for the move> ## <parent=tombstone,... of every edge of the node afterwards>
func c05MoveRun(c string) string {
	if c06Srv == nil {
		c06Init()
	}
	c06Case++
	prefix := fmt.Sprintf("m%d-", c06Case)
	nc := c06Srv.nc
	parts := strings.Split(strings.Fields(c)[0], "|")
	var res []string
	for _, op := range strings.Split(parts[0], ";") {
		res = append(res, c06Exec(nc, prefix, op))
	}
	quiesce := func(tag string) {
		s := prefix + "zz" + tag
		_ = client.SendEdgePoints(nc, s, "R", parseSpts(fmt.Sprintf("%s,-,0,%s,%d,0,-,-", hxs("nodeType"), hxs("device"), 1)), true)
		_ = client.SendNodePoints(nc, s, parseSpts(fmt.Sprintf("%s,-,0,-,%d,0,-,-", hxs("value"), 2)), true)
		deadline := time.Now().Add(8 * time.Second)
		for time.Now().Before(deadline) {
			c06Mu.Lock()
			n := 0
			for _, m := range c06Msgs {
				if m == "up."+s+"."+s+".R" || m == "up."+s+"."+s {
					n++
				}
			}
			c06Mu.Unlock()
			if n >= 2 {
				return
			}
			time.Sleep(200 * time.Microsecond)
		}
	}
	quiesce("a")
	c06Mu.Lock()
	c06Msgs, c06Bodies = nil, nil
	c06Mu.Unlock()
	f := strings.Split(parts[1], ":")
	id := c06ID(prefix, string(unhx(f[1])))
	var err error
	if f[0] == "mv" {
		err = client.MoveNode(nc, id, c06ID(prefix, string(unhx(f[2]))), c06ID(prefix, string(unhx(f[3]))), "")
	} else {
		err = client.MirrorNode(nc, id, c06ID(prefix, string(unhx(f[2]))), "")
	}
	if err != nil {
		res = append(res, "err")
	} else {
		res = append(res, "ok")
	}
	quiesce("b")
	c06Mu.Lock()
	seen := map[string]bool{}
	for _, m := range c06Msgs {
		if !strings.Contains(m, prefix+"zz") {
			seen[strings.ReplaceAll(m, prefix, "")] = true
		}
	}
	c06Msgs, c06Bodies = nil, nil
	c06Mu.Unlock()
	var subs []string
	for k := range seen {
		subs = append(subs, k)
	}
	sort.Strings(subs)
	var edges []string
	if ns, err := client.GetNodes(nc, "all", id, "", true); err == nil {
		for _, n := range ns {
			tp, _ := n.EdgePoints.Find(data.PointTypeTombstone, "")
			edges = append(edges, hxs(strings.ReplaceAll(n.Parent, prefix, ""))+"="+valStr(tp.Value))
		}
	}
	sort.Strings(edges)
	return strings.Join(res, ",") + " ## " + joinListSep(subs, ",") + " ## " + joinListSep(edges, ",")
}

func c05Run(c string) string {
	if strings.HasPrefix(c, "M=") {
		return c05MoveRun(strings.TrimPrefix(c, "M="))
	}
	if strings.HasPrefix(c, "B=") {
		if c06Srv == nil {
			c06Init()
		}
		return c06Run(strings.TrimPrefix(c, "B="))
	}
	return storeRun(c)
}

// c05Gen: build a small graph, then mix refusable writes (self edge, root tombstone, NaN inside an
// otherwise good batch, cycle-closing edges incl. through tombstoned edges, new edge without node
// type) with good follow-up writes.
func c05Gen(r *rand.Rand, n int, tier string) []string {
	var out []string
	for i := 0; i < n; i++ {
		if i%5 == 4 {
			out = append(out, c05BusCase(r))
			continue
		}
		if i%10 == 3 {
			out = append(out, c05MoveCase(r))
			continue
		}
		clock := int64(100)
		tick := func() int64 { clock += int64(1 + r.Intn(3)); return clock }
		nt := func() string { return fmt.Sprintf("%s,-,0,%s,%d,0,-,-", hxs("nodeType"), hxs("device"), tick()) }
		tomb := func(v float64) string { return fmt.Sprintf("%s,-,%s,-,%d,0,-,-", hxs("tombstone"), valStr(v), tick()) }
		val := func(v string) string {
			return fmt.Sprintf("%s,%s,%s,-,%d,0,-,-", hxs("value"), hxs(pick(r, []string{"", "0", "1"})), v, tick())
		}
		var ops []string
		// chain R -> a -> b -> c, plus d under a; sometimes tombstone an inner edge
		chain := []string{"R", "a", "b", "c"}
		for j := 1; j < len(chain); j++ {
			ops = append(ops, "ep:"+hxs(chain[j])+":"+hxs(chain[j-1])+":"+nt()+"+"+tomb(0))
		}
		ops = append(ops, "ep:"+hxs("d")+":"+hxs("a")+":"+nt())
		if r.Intn(2) == 0 {
			ops = append(ops, "ep:"+hxs("b")+":"+hxs("a")+":"+tomb(1))
		}
		for s := 0; s < 2+r.Intn(5); s++ {
			switch r.Intn(10) {
			case 0: // self edge
				x := pick(r, chain)
				ops = append(ops, "ep:"+hxs(x)+":"+hxs(x)+":"+nt())
			case 1: // delete the root
				ops = append(ops, "ep:"+hxs("R")+":"+hxs(pick(r, []string{"", "root"}))+":"+tomb(pick(r, []float64{1, 2, 0.5})))
			case 2: // NaN hidden in a batch of good points (node points); sometimes in a point that is also tombstoned or carries a text
				nan := val("nan")
				switch r.Intn(3) {
				case 0:
					nan = fmt.Sprintf("%s,%s,nan,-,%d,1,-,-", hxs("value"), hxs(pick(r, []string{"", "0", "1"})), tick())
				case 1:
					nan = fmt.Sprintf("%s,%s,nan,%s,%d,0,-,-", hxs("value"), hxs(pick(r, []string{"", "0", "1"})), hxs("fault"), tick())
				}
				ops = append(ops, "np:"+hxs(pick(r, chain))+":"+val("4607182418800017408")+"+"+nan+"+"+val("4611686018427387904"))
			case 3: // NaN in edge points
				nan := val("nan")
				if r.Intn(2) == 0 {
					nan = fmt.Sprintf("%s,-,nan,%s,%d,%d,-,-", hxs("value"), hxs(pick(r, []string{"", "x"})), tick(), r.Intn(2))
				}
				ops = append(ops, "ep:"+hxs("b")+":"+hxs("a")+":"+nan+"+"+tomb(0))
			case 4: // cycle: ancestor placed under a descendant
				pairs := [][2]string{{"a", "c"}, {"a", "b"}, {"R", "c"}, {"b", "c"}, {"a", "d"}, {"R", "d"}}
				p := pick(r, pairs)
				// the way a move / mirror sends it (tombstone 0 and other points next to the node type), or bare
				pts := nt()
				if r.Intn(2) == 0 {
					pts = tomb(0) + "+" + nt()
					if r.Intn(2) == 0 {
						pts += "+" + val("4607182418800017408")
					}
				}
				ops = append(ops, "ep:"+hxs(p[0])+":"+hxs(p[1])+":"+pts)
			case 5: // new edge without node type
				ops = append(ops, "ep:"+hxs(pick(r, []string{"e", "f"}))+":"+hxs(pick(r, chain))+":"+tomb(0)+pick(r, []string{"", "+" + val("4607182418800017408")}))
			case 6: // legal mirror (not a cycle)
				ops = append(ops, "ep:"+hxs("c")+":"+hxs(pick(r, []string{"d", "a", "R"}))+":"+nt())
			case 7: // a cycle that only closes through the NEWER of two parents: x is mirrored under d (legal), then d goes under x
				x := pick(r, []string{"c", "b"})
				ops = append(ops, "ep:"+hxs(x)+":"+hxs("d")+":"+nt()+"+"+tomb(0))
				ops = append(ops, "ep:"+hxs("d")+":"+hxs(x)+":"+pick(r, []string{nt(), tomb(0) + "+" + nt()}))
			default: // good writes after refused ones
				if r.Intn(2) == 0 {
					ops = append(ops, "np:"+hxs(pick(r, chain))+":"+val("4607182418800017408"))
				} else {
					ops = append(ops, "ep:"+hxs("c")+":"+hxs("b")+":"+val("4611686018427387904"))
				}
			}
		}
		out = append(out, strings.Join(ops, ";"))
	}
	return out
}

// c05BusCase: the chain R -> a -> b -> c plus d under a (an inner edge sometimes tombstoned) built over the bus, then ONE
// final write, mostly of a kind that must be refused (cycle through live or deleted edges, self edge, tombstone aimed at
// the root, first edge without node type, NaN anywhere in a node-point or edge-point batch), sometimes a good one.
func c05BusCase(r *rand.Rand) string {
	clock := int64(100)
	tick := func() int64 { clock += 2; return clock }
	nt := func() string { return fmt.Sprintf("%s,-,0,%s,%d,0,-,-", hxs("nodeType"), hxs("device"), tick()) }
	tomb := func(v float64) string { return fmt.Sprintf("%s,-,%s,-,%d,0,-,-", hxs("tombstone"), valStr(v), tick()) }
	val := func(v string) string {
		return fmt.Sprintf("%s,%s,%s,-,%d,0,-,-", hxs("value"), hxs(pick(r, []string{"", "0", "1"})), v, tick())
	}
	chain := []string{"R", "a", "b", "c"}
	var ops []string
	for j := 1; j < len(chain); j++ {
		ops = append(ops, "ep:"+hxs(chain[j])+":"+hxs(chain[j-1])+":"+nt())
	}
	ops = append(ops, "ep:"+hxs("d")+":"+hxs("a")+":"+nt())
	if r.Intn(2) == 0 {
		ops = append(ops, "ep:"+hxs("b")+":"+hxs("a")+":"+tomb(1))
	}
	var final string
	switch r.Intn(8) {
	case 0:
		x := pick(r, chain[1:])
		final = "ep:" + hxs(x) + ":" + hxs(x) + ":" + nt()
	case 1:
		final = "ep:" + hxs("R") + ":" + hxs(pick(r, []string{"", "root"})) + ":" + tomb(pick(r, []float64{1, 3}))
	case 2:
		final = "np:" + hxs(pick(r, chain[1:])) + ":" + val("4607182418800017408") + "+" + val("nan")
	case 3:
		final = "ep:" + hxs("b") + ":" + hxs("a") + ":" + val("nan") + "+" + tomb(0)
	case 4, 5:
		p := pick(r, [][2]string{{"a", "c"}, {"a", "b"}, {"R", "c"}, {"b", "c"}, {"a", "d"}, {"R", "d"}})
		pts := nt()
		if r.Intn(2) == 0 {
			pts = tomb(0) + "+" + nt()
		}
		final = "ep:" + hxs(p[0]) + ":" + hxs(p[1]) + ":" + pts
	case 6:
		final = "ep:" + hxs(pick(r, []string{"e", "f"})) + ":" + hxs(pick(r, chain)) + ":" + tomb(0)
	default:
		final = "ep:" + hxs("c") + ":" + hxs("b") + ":" + val("4611686018427387904")
	}
	return "B=" + strings.Join(ops, ";") + "|" + final
}

// c05MoveCase: the chain R -> a -> b -> c plus d under a, then one move or mirror through the client library: below
// its own descendant or itself (must be refused and change nothing), or somewhere legal.
func c05MoveCase(r *rand.Rand) string {
	clock := int64(100)
	tick := func() int64 { clock += 2; return clock }
	nt := func() string {
		return fmt.Sprintf("%s,-,0,-,%d,0,-,-+%s,-,0,%s,%d,0,-,-", hxs("tombstone"), tick(), hxs("nodeType"), hxs("device"), tick())
	}
	chain := []string{"R", "a", "b", "c"}
	var ops []string
	for j := 1; j < len(chain); j++ {
		ops = append(ops, "ep:"+hxs(chain[j])+":"+hxs(chain[j-1])+":"+nt())
	}
	ops = append(ops, "ep:"+hxs("d")+":"+hxs("a")+":"+nt())
	parent := map[string]string{"a": "R", "b": "a", "c": "b", "d": "a"}
	id := pick(r, []string{"a", "b", "c", "d", "a", "b"})
	to := pick(r, []string{"a", "b", "c", "d", "R"})
	if r.Intn(2) == 0 {
		return "M=" + strings.Join(ops, ";") + "|mv:" + hxs(id) + ":" + hxs(parent[id]) + ":" + hxs(to)
	}
	return "M=" + strings.Join(ops, ";") + "|mr:" + hxs(id) + ":" + hxs(to)
}
