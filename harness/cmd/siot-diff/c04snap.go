package main

import (
	"database/sql"
	"database/sql/driver"
	"fmt"
	"io"
	"os"
	"path/filepath"
	"strings"
	"sync"
	"sync/atomic"

	"github.com/simpleiot/simpleiot/store"
	"modernc.org/sqlite"
)

// C04 snapshot cases "s|<ops>": crash images at EVERY row change instead of at sampled kill times.
// The store file is prepared with the store's own schema plus triggers (AFTER INSERT / UPDATE / DELETE on every table)
// that call the SQL function verif_snap(), registered by this process; the function copies the database file and its
// write-ahead log as they are at that moment — exactly what a process death at that statement would leave on disk
// (SQLite's recovery rules decide what of it counts). Then store.NewSqliteDb initialises the file and the ops run, and
// every image is re-opened with store.NewSqliteDb.
// observation: S ## <d0> ## <k>%%<flags>%%<dump> @@ ...   (one entry per DISTINCT recovered result; k = number of ops
// completed when the image was taken, -1 = during first-time initialisation)

type c04Image struct {
	k    int
	path string
}

var (
	c04SnapOn   int32
	c04SnapMu   sync.Mutex
	c04SnapFile string
	c04SnapK    int
	c04SnapN    int
	c04Images   []c04Image
	c04Schema   []string
)

func init() {
	sqlite.MustRegisterScalarFunction("verif_snap", 0, func(_ *sqlite.FunctionContext, _ []driver.Value) (driver.Value, error) {
		if atomic.LoadInt32(&c04SnapOn) == 1 {
			c04Take()
		}
		return int64(0), nil
	})
}

func copyFile(src, dst string) {
	in, err := os.Open(src)
	if err != nil {
		return
	}
	defer in.Close()
	out, err := os.Create(dst)
	if err != nil {
		return
	}
	defer out.Close()
	_, _ = io.Copy(out, in)
}

func c04Take() {
	c04SnapMu.Lock()
	defer c04SnapMu.Unlock()
	if len(c04Images) >= 400 {
		return
	}
	c04SnapN++
	dst := fmt.Sprintf("%s.img%d", c04SnapFile, c04SnapN)
	copyFile(c04SnapFile, dst)
	copyFile(c04SnapFile+"-wal", dst+"-wal")
	c04Images = append(c04Images, c04Image{c04SnapK, dst})
}

// c04SchemaSQL: the CREATE statements of a store file, read from a file the store created itself
func c04SchemaSQL() []string {
	if c04Schema != nil {
		return c04Schema
	}
	tmpl := filepath.Join(storeDir(), "c04-template.sqlite")
	for _, suf := range []string{"", "-wal", "-shm"} {
		os.Remove(tmpl + suf)
	}
	db, err := store.NewSqliteDb(tmpl, "R")
	if err != nil {
		panic("C04 template: " + err.Error())
	}
	db.Close()
	raw, err := sql.Open("sqlite", tmpl)
	if err != nil {
		panic(err)
	}
	rows, err := raw.Query("SELECT sql FROM sqlite_master WHERE sql IS NOT NULL AND name NOT LIKE 'sqlite_%' ORDER BY type DESC, name")
	if err != nil {
		panic(err)
	}
	for rows.Next() {
		var s string
		_ = rows.Scan(&s)
		c04Schema = append(c04Schema, s)
	}
	rows.Close()
	raw.Close()
	for _, suf := range []string{"", "-wal", "-shm"} {
		os.Remove(tmpl + suf)
	}
	return c04Schema
}

func c04Recover(path string) (flags, dump string) {
	defer func() {
		for _, suf := range []string{"", "-wal", "-shm"} {
			os.Remove(path + suf)
		}
	}()
	db, err := store.NewSqliteDb(path, "R")
	if err != nil {
		return "open=err:" + strings.ReplaceAll(err.Error(), " ", "_") + " root=- key=- post=-", "-"
	}
	defer db.Close()
	dump = storeDump(db)
	key1, _ := c04Key(path)
	rootS, keyS := "changed", "missing"
	if strings.HasPrefix(key1, "R/") {
		rootS = "same"
	}
	if len(key1) > len("R/")+10 {
		keyS = "same"
	}
	post := "ok"
	if err := db.VerifNodePoints("zzpost", parseSpts(fmt.Sprintf("%s,-,0,-,%d,0,-,-", hxs("value"), 5))); err != nil {
		post = "err"
	}
	return "open=ok root=" + rootS + " key=" + keyS + " post=" + post, dump
}

func c04SnapRun(ops string) string {
	file := filepath.Join(storeDir(), fmt.Sprintf("c04s-%d.sqlite", atomic.AddInt64(&c04Seq, 1)))
	rm := func() {
		for _, suf := range []string{"", "-wal", "-shm"} {
			os.Remove(file + suf)
		}
	}
	rm()
	defer rm()
	// schema + triggers
	raw, err := sql.Open("sqlite", file)
	if err != nil {
		return "SETUP " + err.Error()
	}
	for _, s := range c04SchemaSQL() {
		if _, err := raw.Exec(s); err != nil {
			raw.Close()
			return "SETUP " + err.Error()
		}
	}
	for _, t := range []string{"meta", "edges", "node_points", "edge_points"} {
		for _, ev := range []string{"INSERT", "UPDATE", "DELETE"} {
			if _, err := raw.Exec(fmt.Sprintf("CREATE TRIGGER verif_%s_%s AFTER %s ON %s BEGIN SELECT verif_snap(); END", t, ev, ev, t)); err != nil {
				raw.Close()
				return "SETUP " + err.Error()
			}
		}
	}
	raw.Close()
	c04SnapMu.Lock()
	c04SnapFile, c04SnapK, c04SnapN, c04Images = file, -1, 0, nil
	c04SnapMu.Unlock()
	atomic.StoreInt32(&c04SnapOn, 1)
	db, err := store.NewSqliteDb(file, "R")
	if err != nil {
		atomic.StoreInt32(&c04SnapOn, 0)
		return "SETUP open " + err.Error()
	}
	d0 := storeDump(db)
	var acks []string
	for i, op := range strings.Split(ops, ";") {
		c04SnapMu.Lock()
		c04SnapK = i
		c04SnapMu.Unlock()
		p := strings.Split(op, ":")
		var err error
		switch p[0] {
		case "np":
			err = db.VerifNodePoints(string(unhx(p[1])), parseSpts(p[2]))
		case "ep":
			err = db.VerifEdgePoints(string(unhx(p[1])), string(unhx(p[2])), parseSpts(p[3]))
		}
		if err != nil {
			acks = append(acks, "err")
		} else {
			acks = append(acks, "ok")
		}
	}
	atomic.StoreInt32(&c04SnapOn, 0)
	db.Close()
	c04SnapMu.Lock()
	imgs := c04Images
	c04Images = nil
	c04SnapMu.Unlock()
	seen := map[string]bool{}
	var outs []string
	for _, im := range imgs {
		flags, dump := c04Recover(im.path)
		e := fmt.Sprintf("%d%%%%%s%%%%%s", im.k, flags, dump)
		if !seen[e] {
			seen[e] = true
			outs = append(outs, e)
		}
	}
	return fmt.Sprintf("S ## %s ## %s ## %d ## %s", d0, joinListSep(acks, ","), len(imgs), strings.Join(outs, " @@ "))
}
