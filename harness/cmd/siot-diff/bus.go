package main

import (
	"context"
	"fmt"
	"math"
	"net"
	"os"
	"path/filepath"
	"strconv"
	"strings"
	"sync"
	"sync/atomic"
	"syscall"
	"time"

	"github.com/nats-io/nats.go"
	"github.com/simpleiot/simpleiot/client"
	"github.com/simpleiot/simpleiot/data"
	"github.com/simpleiot/simpleiot/server"
)

// In-process SIOT instance (embedded NATS server + store) on free ports, for the bus-level properties.

type busServer struct {
	nc         *nats.Conn // the server's own connection
	root       data.NodeEdge
	opts       server.Options
	stop       func()
	halt       func() // stop without removing the store file
	haltWithin func(time.Duration) bool
	stopped    chan struct{}
	halted     int32 // set before the harness stops the instance itself
}

// busDeaths counts the instances whose Run returned although the harness had not stopped them (a listener that could not
// bind, a server that gave up, ...). A case during which the count changes is run again on fresh instances (main.go): what
// it observed is the death of the instance, not the behaviour under test. A death that repeats is reported as observed.
var busDeaths int64

// Ports. Every harness process claims a window of 400 ports below the kernel's ephemeral range (a lock file in the
// store directory's parent, stale locks of dead processes are taken over) and hands its ports out in rotation, probing each
// by binding it. Kernel-assigned ports (listen on :0, close, bind later) were a race between harness processes running side
// by side: another process could be given the port between the probe and the server's bind; the HTTP listener of the
// instance then failed, the instance shut itself down a few milliseconds after a successful start, and the case under way
// saw "nats: connection closed" (one case in 6000 with three harness processes on the machine).
var portMu sync.Mutex
var portBase, portNext int
var portInit bool

const portWindow = 400

func claimPortWindow() int {
	dir := filepath.Join(os.TempDir(), "siot-verif-ports")
	if st, err := os.Stat("/dev/shm"); err == nil && st.IsDir() {
		dir = "/dev/shm/siot-verif-ports"
	}
	if os.MkdirAll(dir, 0o777) != nil {
		return 0
	}
	const windows = 45 // 12000 .. 29999
	for w := 0; w < 2*windows; w++ {
		idx := (os.Getpid() + w) % windows
		f := filepath.Join(dir, fmt.Sprintf("w%02d", idx))
		fd, err := os.OpenFile(f, os.O_CREATE|os.O_EXCL|os.O_WRONLY, 0o666)
		if err == nil {
			fmt.Fprint(fd, os.Getpid())
			fd.Close()
			return 12000 + idx*portWindow
		}
		b, _ := os.ReadFile(f)
		pid, _ := strconv.Atoi(strings.TrimSpace(string(b)))
		stale := false
		if pid > 0 {
			stale = syscall.Kill(pid, 0) == syscall.ESRCH
		} else if st, err := os.Stat(f); err == nil {
			stale = time.Since(st.ModTime()) > 10*time.Second
		}
		if stale {
			os.Remove(f) // the next round may take it (or another process does: O_EXCL decides)
		}
	}
	return 0
}

func freePort() int { return freePorts(1)[0] }

// freePorts returns n distinct ports that could be bound just now, from this process's own window.
func freePorts(n int) []int {
	portMu.Lock()
	defer portMu.Unlock()
	if !portInit {
		portInit = true
		portBase = claimPortWindow()
	}
	var ps []int
	if portBase != 0 {
		for tries := 0; len(ps) < n && tries < 4*portWindow; tries++ {
			p := portBase + portNext%portWindow
			portNext++
			l, err := net.Listen("tcp", fmt.Sprintf(":%d", p))
			if err != nil {
				continue
			}
			l.Close()
			ps = append(ps, p)
		}
		if len(ps) == n {
			return ps
		}
		ps = nil
	}
	// no window could be claimed: kernel-assigned ports (all listeners are held until every port has been chosen)
	var ls []net.Listener
	for i := 0; i < n; i++ {
		l, err := net.Listen("tcp", "127.0.0.1:0")
		if err != nil {
			panic(err)
		}
		ls = append(ls, l)
		ps = append(ps, l.Addr().(*net.TCPAddr).Port)
	}
	for _, l := range ls {
		l.Close()
	}
	return ps
}

var busSeq int
var busMu sync.Mutex

// busStart starts an instance with root id `id`. `clients` (may be nil) are added before Run.
func busStart(id string, token string, clients func(nc *nats.Conn) []client.RunStop) (*busServer, error) {
	busMu.Lock()
	busSeq++
	n := busSeq
	busMu.Unlock()
	file := filepath.Join(storeDir(), fmt.Sprintf("bus%d.sqlite", n))
	for _, suf := range []string{"", "-wal", "-shm"} {
		os.Remove(file + suf)
	}
	ports := freePorts(4)
	np := ports[0]
	o := server.Options{
		StoreFile:    file,
		NatsPort:     np,
		HTTPPort:     fmt.Sprint(ports[1]),
		NatsHTTPPort: ports[2],
		NatsWSPort:   ports[3],
		NatsServer:   fmt.Sprintf("nats://127.0.0.1:%d", np),
		AuthToken:    token,
		ID:           id,
	}
	return busStartOpts(o, clients)
}

// busStartOpts starts an instance on the given options (ports and store file): used to start an instance again on the
// file and ports of one that was halted ("upstream restarted").
func busStartOpts(o server.Options, clients func(nc *nats.Conn) []client.RunStop) (*busServer, error) {
	file := o.StoreFile
	s, nc, err := server.NewServer(o)
	if err != nil {
		return nil, err
	}
	if clients != nil {
		for _, c := range clients(nc) {
			s.AddClient(c)
		}
	}
	stopped := make(chan struct{})
	b := &busServer{nc: nc, opts: o, stopped: stopped}
	go func() {
		_ = s.Run()
		if atomic.LoadInt32(&b.halted) == 0 {
			atomic.AddInt64(&busDeaths, 1)
		}
		close(stopped)
	}()
	ctx, cancel := context.WithTimeout(context.Background(), 10*time.Second)
	err = s.WaitStart(ctx)
	cancel()
	b.halt = func() {
		atomic.StoreInt32(&b.halted, 1)
		s.Stop(nil)
		select {
		case <-stopped:
		case <-time.After(10 * time.Second):
		}
	}
	b.haltWithin = func(d time.Duration) bool {
		atomic.StoreInt32(&b.halted, 1)
		s.Stop(nil)
		select {
		case <-stopped:
			return true
		case <-time.After(d):
			return false
		}
	}
	b.stop = func() {
		b.halt()
		for _, suf := range []string{"", "-wal", "-shm"} {
			os.Remove(file + suf)
		}
	}
	if err != nil {
		return b, fmt.Errorf("waiting for server start: %v", err)
	}
	nodes, err := client.GetNodes(nc, "root", "all", "", false)
	if err != nil || len(nodes) < 1 {
		return b, fmt.Errorf("no root node: %v", err)
	}
	b.root = nodes[0]
	// the instance writes its application version to the root node shortly after start; wait for it so that no case
	// sees that write (and its rebroadcast) as part of its own history
	for i := 0; i < 400; i++ {
		if _, ok := nodes[0].Points.Find(data.PointTypeVersionApp, ""); ok {
			break
		}
		time.Sleep(5 * time.Millisecond)
		if ns, err := client.GetNodes(nc, "root", "all", "", false); err == nil && len(ns) > 0 {
			nodes = ns
		}
	}
	// the point is visible in the store before its handler has rebroadcast it; a request the store refuses (a NaN
	// value: it changes nothing) is answered by the same handler goroutine, hence after that rebroadcast
	syncPts := data.Points{{Type: "verifSync", Value: math.NaN()}}
	if pb, err := syncPts.ToPb(); err == nil {
		_, _ = nc.Request("p."+b.root.ID, pb, 5*time.Second)
	}
	return b, nil
}

// busConnect opens another client connection to the instance.
func (b *busServer) connect() (*nats.Conn, error) {
	return nats.Connect(b.opts.NatsServer, nats.Token(b.opts.AuthToken), nats.Timeout(5*time.Second))
}
