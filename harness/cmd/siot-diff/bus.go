package main

import (
	"context"
	"fmt"
	"math"
	"net"
	"os"
	"path/filepath"
	"sync"
	"time"

	"github.com/nats-io/nats.go"
	"github.com/simpleiot/simpleiot/client"
	"github.com/simpleiot/simpleiot/data"
	"github.com/simpleiot/simpleiot/server"
)

// In-process SIOT instance (embedded NATS server + store) on free ports, for the bus-level properties.

type busServer struct {
	nc         *nats.Conn // the server's own connection
	root       data.NodeEdge
	opts       server.Options
	stop       func()
	halt       func() // stop without removing the store file
	haltWithin func(time.Duration) bool
	stopped    chan struct{}
}

func freePort() int {
	l, err := net.Listen("tcp", "127.0.0.1:0")
	if err != nil {
		panic(err)
	}
	defer l.Close()
	return l.Addr().(*net.TCPAddr).Port
}

// freePorts returns n distinct free ports (all listeners are held until every port has been chosen).
func freePorts(n int) []int {
	var ls []net.Listener
	var ps []int
	for i := 0; i < n; i++ {
		l, err := net.Listen("tcp", "127.0.0.1:0")
		if err != nil {
			panic(err)
		}
		ls = append(ls, l)
		ps = append(ps, l.Addr().(*net.TCPAddr).Port)
	}
	for _, l := range ls {
		l.Close()
	}
	return ps
}

var busSeq int
var busMu sync.Mutex

// busStart starts an instance with root id `id`. `clients` (may be nil) are added before Run.
func busStart(id string, token string, clients func(nc *nats.Conn) []client.RunStop) (*busServer, error) {
	busMu.Lock()
	busSeq++
	n := busSeq
	busMu.Unlock()
	file := filepath.Join(storeDir(), fmt.Sprintf("bus%d.sqlite", n))
	for _, suf := range []string{"", "-wal", "-shm"} {
		os.Remove(file + suf)
	}
	ports := freePorts(4)
	np := ports[0]
	o := server.Options{
		StoreFile:    file,
		NatsPort:     np,
		HTTPPort:     fmt.Sprint(ports[1]),
		NatsHTTPPort: ports[2],
		NatsWSPort:   ports[3],
		NatsServer:   fmt.Sprintf("nats://127.0.0.1:%d", np),
		AuthToken:    token,
		ID:           id,
	}
	return busStartOpts(o, clients)
}

// busStartOpts starts an instance on the given options (ports and store file): used to start an instance again on the
// file and ports of one that was halted ("upstream restarted").
func busStartOpts(o server.Options, clients func(nc *nats.Conn) []client.RunStop) (*busServer, error) {
	file := o.StoreFile
	s, nc, err := server.NewServer(o)
	if err != nil {
		return nil, err
	}
	if clients != nil {
		for _, c := range clients(nc) {
			s.AddClient(c)
		}
	}
	stopped := make(chan struct{})
	go func() {
		_ = s.Run()
		close(stopped)
	}()
	ctx, cancel := context.WithTimeout(context.Background(), 10*time.Second)
	err = s.WaitStart(ctx)
	cancel()
	b := &busServer{nc: nc, opts: o, stopped: stopped}
	b.halt = func() {
		s.Stop(nil)
		select {
		case <-stopped:
		case <-time.After(10 * time.Second):
		}
	}
	b.haltWithin = func(d time.Duration) bool {
		s.Stop(nil)
		select {
		case <-stopped:
			return true
		case <-time.After(d):
			return false
		}
	}
	b.stop = func() {
		b.halt()
		for _, suf := range []string{"", "-wal", "-shm"} {
			os.Remove(file + suf)
		}
	}
	if err != nil {
		return b, fmt.Errorf("waiting for server start: %v", err)
	}
	nodes, err := client.GetNodes(nc, "root", "all", "", false)
	if err != nil || len(nodes) < 1 {
		return b, fmt.Errorf("no root node: %v", err)
	}
	b.root = nodes[0]
	// the instance writes its application version to the root node shortly after start; wait for it so that no case
	// sees that write (and its rebroadcast) as part of its own history
	for i := 0; i < 400; i++ {
		if _, ok := nodes[0].Points.Find(data.PointTypeVersionApp, ""); ok {
			break
		}
		time.Sleep(5 * time.Millisecond)
		if ns, err := client.GetNodes(nc, "root", "all", "", false); err == nil && len(ns) > 0 {
			nodes = ns
		}
	}
	// the point is visible in the store before its handler has rebroadcast it; a request the store refuses (a NaN
	// value: it changes nothing) is answered by the same handler goroutine, hence after that rebroadcast
	syncPts := data.Points{{Type: "verifSync", Value: math.NaN()}}
	if pb, err := syncPts.ToPb(); err == nil {
		_, _ = nc.Request("p."+b.root.ID, pb, 5*time.Second)
	}
	return b, nil
}

// busConnect opens another client connection to the instance.
func (b *busServer) connect() (*nats.Conn, error) {
	return nats.Connect(b.opts.NatsServer, nats.Token(b.opts.AuthToken), nats.Timeout(5*time.Second))
}
