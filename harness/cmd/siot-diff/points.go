package main

import (
	"fmt"
	"math"
	"math/big"
	"math/rand"
	"strconv"
	"strings"
	"time"

	"github.com/simpleiot/simpleiot/data"
)

// canonical text form of a point used in case lines and observations:
//   typeHex,keyHex,valueBits,textHex,timeNs,tombstone,originHex,dataHex
// NaN values are written as "nan" (the payload of a NaN is not compared).

func valStr(v float64) string {
	if math.IsNaN(v) {
		return "nan"
	}
	return fmt.Sprintf("%d", math.Float64bits(v))
}

func ptStr(p data.Point) string {
	return fmt.Sprintf("%s,%s,%s,%s,%d,%d,%s,%s", hxs(p.Type), hxs(p.Key), valStr(p.Value), hxs(p.Text),
		p.Time.UnixNano(), p.Tombstone, hxs(p.Origin), hx(p.Data))
}

func ptsStr(ps data.Points) string {
	if len(ps) == 0 {
		return "-"
	}
	var s []string
	for _, p := range ps {
		s = append(s, ptStr(p))
	}
	return strings.Join(s, ";")
}

// ptsCaseStr is ptsStr for case lines (inputs): the zero time is written exactly, not as the wrapped UnixNano
func ptsCaseStr(ps data.Points) string {
	if len(ps) == 0 {
		return "-"
	}
	var s []string
	for _, p := range ps {
		x := ptStr(p)
		if p.Time.IsZero() {
			f := strings.Split(x, ",")
			f[4] = zeroTimeNs
			x = strings.Join(f, ",")
		}
		s = append(s, x)
	}
	return strings.Join(s, ";")
}

func parsePt(s string) data.Point {
	f := strings.Split(s, ",")
	if len(f) != 8 {
		panic("bad point in case: " + s)
	}
	var v float64
	if f[2] == "nan" {
		v = math.NaN()
	} else {
		v = math.Float64frombits(atou64(f[2]))
	}
	p := data.Point{Type: string(unhx(f[0])), Key: string(unhx(f[1])), Value: v, Text: string(unhx(f[3])),
		Time: parseTimeNs(f[4]), Tombstone: int(atoi64(f[5])), Origin: string(unhx(f[6])), Data: unhx(f[7])}
	return p
}

// zeroTimeNs: Go's zero time (0001-01-01T00:00:00Z) in nanoseconds since the epoch; it does not fit an int64, the wire
// format (seconds + nanoseconds) carries it
const zeroTimeNs = "-62135596800000000000"

// parseTimeNs reads a time in nanoseconds since the epoch, also beyond the int64 range
func parseTimeNs(s string) time.Time {
	if v, err := strconv.ParseInt(s, 10, 64); err == nil {
		return time.Unix(0, v)
	}
	b, ok := new(big.Int).SetString(s, 10)
	if !ok {
		panic("bad time in case: " + s)
	}
	sec, nsec := new(big.Int).DivMod(b, big.NewInt(1000000000), new(big.Int))
	return time.Unix(sec.Int64(), nsec.Int64())
}

func parsePts(s string) data.Points {
	if s == "-" || s == "" {
		return nil
	}
	var ps data.Points
	for _, x := range strings.Split(s, ";") {
		ps = append(ps, parsePt(x))
	}
	return ps
}

var genTypes = []string{"value", "description", "", "a", "ab", "0", "tombstone", "nodeType", "temp", "日本"}
var genKeys = []string{"", "0", "1", "b", "00", "a", "key", "17"}
var genTexts = []string{"", "", "hello", "a\x00b", "\xff\xfe", "ünï", "null", "x y"}
var genVals = []float64{0, 1, -1, 23.53, 1e10, -2.5e-7, math.MaxFloat32, math.SmallestNonzeroFloat32, 16777217, 0.1, math.Inf(1), math.Inf(-1), 1e300, 4e-320}

func genPoint(r *rand.Rand) data.Point {
	p := data.Point{Type: pick(r, genTypes), Key: pick(r, genKeys), Text: pick(r, genTexts), Value: pick(r, genVals)}
	if r.Intn(3) == 0 {
		p.Value = r.NormFloat64() * math.Pow(10, float64(r.Intn(12)-4))
	}
	switch r.Intn(7) {
	case 6:
		p.Time = time.Time{} // the zero time: legal on the wire, written exactly in the case line (see ptCaseStr)
	case 0:
		p.Time = time.Unix(0, 0)
	case 1:
		p.Time = time.Unix(0, -1)
	case 2:
		p.Time = time.Unix(0, pick(r, []int64{1, 999999999, 1000000000, math.MaxInt64, math.MinInt64 + 1, 1700000000123456789}))
	default:
		p.Time = time.Unix(0, 1600000000000000000+r.Int63n(200000000000000000))
	}
	if r.Intn(4) == 0 {
		p.Tombstone = pick(r, []int{1, 2, 3, -1, 1 << 20, math.MaxInt32, math.MinInt32})
	}
	if r.Intn(4) == 0 {
		p.Origin = pick(r, []string{"x", "rule1", "a-b-c", "\x00"})
	}
	if r.Intn(5) == 0 {
		p.Data = pick(r, [][]byte{{1, 2, 3}, {0}, {0xff, 0, 0xff}})
	}
	return p
}

func genPoints(r *rand.Rand, max int) data.Points {
	n := r.Intn(max + 1)
	var ps data.Points
	for i := 0; i < n; i++ {
		ps = append(ps, genPoint(r))
	}
	return ps
}
