package main

import (
	"fmt"
	"math"
	"math/rand"
	"strings"
	"time"

	"github.com/simpleiot/simpleiot/data"
)

// canonical text form of a point used in case lines and observations:
//   typeHex,keyHex,valueBits,textHex,timeNs,tombstone,originHex,dataHex
// NaN values are written as "nan" (the payload of a NaN is not compared).

func valStr(v float64) string {
	if math.IsNaN(v) {
		return "nan"
	}
	return fmt.Sprintf("%d", math.Float64bits(v))
}

func ptStr(p data.Point) string {
	return fmt.Sprintf("%s,%s,%s,%s,%d,%d,%s,%s", hxs(p.Type), hxs(p.Key), valStr(p.Value), hxs(p.Text),
		p.Time.UnixNano(), p.Tombstone, hxs(p.Origin), hx(p.Data))
}

func ptsStr(ps data.Points) string {
	if len(ps) == 0 {
		return "-"
	}
	var s []string
	for _, p := range ps {
		s = append(s, ptStr(p))
	}
	return strings.Join(s, ";")
}

func parsePt(s string) data.Point {
	f := strings.Split(s, ",")
	if len(f) != 8 {
		panic("bad point in case: " + s)
	}
	var v float64
	if f[2] == "nan" {
		v = math.NaN()
	} else {
		v = math.Float64frombits(atou64(f[2]))
	}
	p := data.Point{Type: string(unhx(f[0])), Key: string(unhx(f[1])), Value: v, Text: string(unhx(f[3])),
		Time: time.Unix(0, atoi64(f[4])), Tombstone: int(atoi64(f[5])), Origin: string(unhx(f[6])), Data: unhx(f[7])}
	return p
}

func parsePts(s string) data.Points {
	if s == "-" || s == "" {
		return nil
	}
	var ps data.Points
	for _, x := range strings.Split(s, ";") {
		ps = append(ps, parsePt(x))
	}
	return ps
}

var genTypes = []string{"value", "description", "", "a", "ab", "0", "tombstone", "nodeType", "temp", "日本"}
var genKeys = []string{"", "0", "1", "b", "00", "a", "key", "17"}
var genTexts = []string{"", "", "hello", "a\x00b", "\xff\xfe", "ünï", "null", "x y"}
var genVals = []float64{0, 1, -1, 23.53, 1e10, -2.5e-7, math.MaxFloat32, math.SmallestNonzeroFloat32, 16777217, 0.1, math.Inf(1), math.Inf(-1), 1e300, 4e-320}

func genPoint(r *rand.Rand) data.Point {
	p := data.Point{Type: pick(r, genTypes), Key: pick(r, genKeys), Text: pick(r, genTexts), Value: pick(r, genVals)}
	if r.Intn(3) == 0 {
		p.Value = r.NormFloat64() * math.Pow(10, float64(r.Intn(12)-4))
	}
	switch r.Intn(6) {
	case 0:
		p.Time = time.Unix(0, 0)
	case 1:
		p.Time = time.Unix(0, -1)
	case 2:
		p.Time = time.Unix(0, pick(r, []int64{1, 999999999, 1000000000, math.MaxInt64, math.MinInt64 + 1, 1700000000123456789}))
	default:
		p.Time = time.Unix(0, 1600000000000000000+r.Int63n(200000000000000000))
	}
	if r.Intn(4) == 0 {
		p.Tombstone = pick(r, []int{1, 2, 3, -1, 1 << 20, math.MaxInt32, math.MinInt32})
	}
	if r.Intn(4) == 0 {
		p.Origin = pick(r, []string{"x", "rule1", "a-b-c", "\x00"})
	}
	if r.Intn(5) == 0 {
		p.Data = pick(r, [][]byte{{1, 2, 3}, {0}, {0xff, 0, 0xff}})
	}
	return p
}

func genPoints(r *rand.Rand, max int) data.Points {
	n := r.Intn(max + 1)
	var ps data.Points
	for i := 0; i < n; i++ {
		ps = append(ps, genPoint(r))
	}
	return ps
}
