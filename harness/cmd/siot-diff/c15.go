package main

import (
	"fmt"
	"math"
	"math/rand"
	"sort"
	"strings"
	"time"

	"github.com/nats-io/nats.go"
	"github.com/simpleiot/simpleiot/client"
	"github.com/simpleiot/simpleiot/data"
)

// C15 case: "<ops>|<export id>|<n|p>|<a|b|r>[|d]" (r: imported at "root" of a fresh instance, replacing its root node): the ops build a tree under a per-case group G on instance A;
// the node is exported with client.ExportNodes (YAML), and imported with client.ImportNodes under a fresh
// group H on instance A or B, with new ids (n) or preserved ids (p).
// observation: "err <kind>" or the imported subtree below H in pre-order,
//   d,id,type,parent[points][edge points] ; ...     (ids renamed #0,#1.. by first appearance when mode n;
//   points as type,key,valueBits,text,tombstone,data sorted; times and origins are not compared)

var c15A, c15B *busServer
var c15Cases int

func init() {
	register("C15", &Prop{Gen: c15Gen, Run: c15Run, Init: c15Start, Done: c15Stop})
}

func c15Start() {
	var err error
	if c15A, err = busStart("R", "", nil); err != nil {
		panic("C15: " + err.Error())
	}
	if c15B, err = busStart("R", "", nil); err != nil {
		panic("C15: " + err.Error())
	}
}

func c15Stop() {
	if c15A != nil {
		c15A.stop()
		c15A = nil
	}
	if c15B != nil {
		c15B.stop()
		c15B = nil
	}
}

func c15PtStr(p data.Point) string {
	return fmt.Sprintf("%s,%s,%s,%s,%d,%s", hxs(p.Type), hxs(p.Key), valStr(p.Value), hxs(p.Text), p.Tombstone, hx(p.Data))
}

type c15Node struct {
	d               int
	id, typ, parent string
	pts, epts       []data.Point
}

func c15Walk(nc *nats.Conn, parent string, d int, out *[]c15Node) error {
	if d > 12 {
		return fmt.Errorf("too deep")
	}
	kids, err := client.GetNodes(nc, parent, "all", "", false)
	if noteTmo(err) != nil {
		return err
	}
	for _, k := range kids {
		*out = append(*out, c15Node{d, k.ID, k.Type, k.Parent, k.Points, k.EdgePoints})
		if err := c15Walk(nc, k.ID, d+1, out); err != nil {
			return err
		}
	}
	return nil
}

func c15Dump(nodes []c15Node, prefix string, rename bool) string {
	names := map[string]string{}
	name := func(id string) string {
		if !rename {
			return hxs(strings.ReplaceAll(id, prefix, ""))
		}
		if id == prefix+"H" || id == "R" {
			return hxs(strings.ReplaceAll(id, prefix, ""))
		}
		if n, ok := names[id]; ok {
			return n
		}
		n := fmt.Sprintf("#%d", len(names))
		names[id] = n
		return n
	}
	var out []string
	for _, n := range nodes {
		sortPts := func(ps []data.Point) []data.Point {
			c := append([]data.Point(nil), ps...)
			sort.SliceStable(c, func(i, j int) bool {
				if c[i].Type != c[j].Type {
					return c[i].Type < c[j].Type
				}
				return c[i].Key < c[j].Key
			})
			return c
		}
		idn := name(n.id)
		par := name(n.parent)
		var ps, es []string
		for _, p := range sortPts(n.pts) {
			s := c15PtStr(p)
			if p.Type == data.PointTypeNodeID && p.Text != "" {
				// a reference: renamed like an id
				f := strings.Split(s, ",")
				if rename {
					f[3] = "@" + name(p.Text)
				} else {
					f[3] = "@" + hxs(strings.ReplaceAll(p.Text, prefix, ""))
				}
				s = strings.Join(f, ",")
			}
			ps = append(ps, s)
		}
		for _, p := range sortPts(n.epts) {
			if p.Type == data.PointTypeTombstone && p.Value == 0 {
				continue // tombstone 0 = not deleted = absent
			}
			es = append(es, c15PtStr(p))
		}
		out = append(out, fmt.Sprintf("%d,%s,%s,%s[%s][%s]", n.d, idn, hxs(n.typ), par, strings.Join(ps, "+"), strings.Join(es, "+")))
	}
	return joinListSep(out, ";")
}

func c15Run(c string) string {
	c15Cases++
	if c15Cases%200 == 0 { // fresh instances; the old ones shut down in the background
		oa, ob := c15A, c15B
		c15Start()
		go oa.stop()
		go ob.stop()
	}
	prefix := fmt.Sprintf("k%d-", c15Cases)
	f := strings.Split(strings.Fields(c)[0], "|")
	ops, expID, mode, where := f[0], string(unhx(f[1])), f[2], f[3]
	delAfterExport := len(f) > 4 && f[4] == "d" // every node below the exported one is deleted before the file is imported again (ids kept)
	saved := c08Srv
	c08Srv = c15A
	defer func() { c08Srv = saved }()
	grp := func(id string) string {
		return "ep:" + hxs(id) + ":" + hxs("R") + ":" + fmt.Sprintf("%s,-,0,%s,%d,0,-,-", hxs("nodeType"), hxs("group"), 50)
	}
	if c08Send(prefix, grp("G")) != "ok" {
		return "SETUP G"
	}
	for _, op := range strings.Split(ops, ";") {
		kind, id, parent, pts := c08Op(prefix, op)
		for i := range pts { // references name nodes of this case
			if pts[i].Type == data.PointTypeNodeID && pts[i].Text != "" {
				pts[i].Text = prefix + pts[i].Text
			}
		}
		var err error
		if kind == "np" {
			err = noteTmo(client.SendNodePoints(c15A.nc, id, pts, true))
		} else {
			err = noteTmo(client.SendEdgePoints(c15A.nc, id, parent, pts, true))
		}
		if err != nil {
			return "SETUP " + op
		}
	}
	target := c15A
	if where == "b" {
		target = c15B
	}
	importAt := prefix + "H"
	if where == "r" {
		// the import target "root": the imported top node REPLACES the root node of a fresh instance (the old root is
		// tombstoned by ImportNodes); observed as the walk from "root", the top's parent shown as H
		fresh, err := busStart("R", "", nil)
		if err != nil {
			return "SETUP fresh instance"
		}
		defer fresh.stop()
		target = fresh
		importAt = "root"
	}
	c08Srv = target
	if where != "r" && c08Send(prefix, grp("H")) != "ok" {
		return "SETUP H"
	}
	y, err := client.ExportNodes(c15A.nc, c06ID(prefix, expID))
	if err != nil {
		return "err export"
	}
	if delAfterExport {
		var below []c15Node
		if err := c15Walk(c15A.nc, c06ID(prefix, expID), 0, &below); err != nil {
			return "SETUP walk"
		}
		for _, b := range below {
			if err := client.SendEdgePoints(c15A.nc, b.id, b.parent, data.Points{{Type: data.PointTypeTombstone, Value: 1, Time: time.Unix(0, 5000)}}, true); err != nil {
				return "SETUP delete"
			}
		}
		// and every point of the exported node itself is deleted (tombstone 1): the import writes them again, newer
		if tops, err := client.GetNodes(c15A.nc, "all", c06ID(prefix, expID), "", false); err == nil && len(tops) > 0 {
			var del data.Points
			for _, p := range tops[0].Points {
				del = append(del, data.Point{Type: p.Type, Key: p.Key, Tombstone: 1, Time: time.Unix(0, 5000)})
			}
			if len(del) > 0 {
				if err := client.SendNodePoints(c15A.nc, c06ID(prefix, expID), del, true); err != nil {
					return "SETUP delete points"
				}
			}
		}
	}
	err = client.ImportNodes(target.nc, importAt, y, "imp", mode == "p")
	retire := func() {
		_ = client.SendEdgePoints(c15A.nc, prefix+"G", "R", data.Points{{Type: data.PointTypeTombstone, Value: 1, Time: time.Now()}}, true)
		if where != "r" {
			_ = client.SendEdgePoints(target.nc, prefix+"H", "R", data.Points{{Type: data.PointTypeTombstone, Value: 1, Time: time.Now()}}, true)
		}
	}
	defer retire()
	if err != nil {
		e := err.Error()
		switch {
		case strings.Contains(e, "parsing YAML"):
			return "err yaml"
		case strings.Contains(e, "does not match parent"), strings.Contains(e, "ID cannot be blank"):
			return "err ids"
		case strings.Contains(e, "did not have any nodes"):
			return "err no nodes"
		case strings.Contains(e, "Error sending node"), strings.Contains(e, "Error sending edge"):
			return "err send"
		}
		return "err other " + strings.ReplaceAll(e, " ", "_")
	}
	var nodes []c15Node
	if err := c15Walk(target.nc, importAt, 0, &nodes); err != nil {
		return "err walk"
	}
	if where == "r" {
		for i := range nodes {
			if nodes[i].d == 0 && nodes[i].parent == "root" {
				nodes[i].parent = prefix + "H"
			}
		}
		// the walk from "root" follows the instance's CURRENT root only; the replaced root must be gone
		// (ImportNodes tombstones it): if it is still there it is shown as one more top-level node
		if old, err := client.GetNodes(target.nc, "all", "R", "", false); err == nil {
			for _, o := range old {
				nodes = append(nodes, c15Node{0, o.ID, o.Type, o.Parent, nil, nil})
			}
		}
	}
	return c15Dump(nodes, prefix, mode == "n")
}

func c15Gen(r *rand.Rand, n int, tier string) []string {
	var out []string
	// plain and YAML-significant texts that must survive; then the texts of the open finding (go-yaml)
	texts := []string{"", "a", "plain text", "with: colon", "#hash", "a #b", "quote\"s", "'single'", "ünï©ødé ✓", " lead", "trail ", "true", "yes", "No",
		"123", "1e3", "1.5", "0x10", "2001-01-01", "{a: b}", "[1,2]", "back\\slash", "*star", "&amp", "!bang", "%pct", "@at", "`tick`", "|", ">", "?", "a: b", "-x", "a - b",
		"- dash", "-", "null", "~", "a\tb", "\t", "a\rb", "line1\nline2", "? q", ".inf", ".NaN",
		"  if x:\n    y", "one\ntwo  ", " lead\nx", "a\n\nb", "x\n", "\nx", "a: b\n# c", "tab\there\nnext"}
	plainTexts := 34
	vals := []float64{0, 1, -1, 0.5, 2.25, 1e6, 2e7, 123456789, 1e15, 1e21, 1e-7, 5e-324, math.MaxFloat64, math.Copysign(0, -1), math.Inf(1), math.Inf(-1)}
	types := []string{"description", "value", "level", "tag", "nodeID", "note"}
	ntypes := []string{"device", "group", "rule", "condition", "variable"}
	for i := 0; i < n; i++ {
		clock := int64(100)
		tick := func() int64 { clock += 2; return clock }
		nt := func(t string) string { return fmt.Sprintf("%s,-,0,%s,%d,0,-,-", hxs("nodeType"), hxs(t), tick()) }
		var ops []string
		ids := []string{"n0"}
		parentOf := map[string]string{"n0": "G"}
		ops = append(ops, "ep:"+hxs("n0")+":"+hxs("G")+":"+nt(pick(r, ntypes)))
		for k := 1; k < 1+r.Intn(6); k++ {
			id := fmt.Sprintf("n%d", k)
			par := pick(r, ids)
			ops = append(ops, "ep:"+hxs(id)+":"+hxs(par)+":"+nt(pick(r, ntypes)))
			ids = append(ids, id)
			parentOf[id] = par
		}
		// a mirror inside the subtree, a deleted child, an outside node for cross references
		if len(ids) > 2 && r.Intn(4) == 0 {
			a, b := ids[len(ids)-1], ids[1]
			if a != b && parentOf[a] != b && parentOf[b] != a {
				ops = append(ops, "ep:"+hxs(a)+":"+hxs(b)+":"+nt("device"))
			}
		}
		ops = append(ops, "ep:"+hxs("out")+":"+hxs("G")+":"+nt("device"))
		if len(ids) > 1 && r.Intn(3) == 0 {
			d := ids[len(ids)-1]
			ops = append(ops, "ep:"+hxs(d)+":"+hxs(parentOf[d])+":"+fmt.Sprintf("%s,-,%s,-,%d,0,-,-", hxs("tombstone"), valStr(1), tick()))
		}
		if len(ids) > 1 && r.Intn(4) == 0 { // deleted then undeleted: an explicit tombstone 0
			d := ids[1]
			ops = append(ops, "ep:"+hxs(d)+":"+hxs(parentOf[d])+":"+fmt.Sprintf("%s,-,%s,-,%d,0,-,-", hxs("tombstone"), valStr(1), tick()))
			ops = append(ops, "ep:"+hxs(d)+":"+hxs(parentOf[d])+":"+fmt.Sprintf("%s,-,%s,-,%d,0,-,-", hxs("tombstone"), valStr(0), tick()))
		}
		hostile := r.Intn(4) == 0 // include the texts of the open go-yaml finding
		for _, id := range ids {
			var pts []string
			for j := 0; j < r.Intn(4); j++ {
				ty := pick(r, types)
				key := pick(r, []string{"", "", "0", "1", "a"})
				txt := pick(r, texts[:plainTexts])
				v := pick(r, vals)
				if hostile {
					txt = pick(r, texts)
				}
				if ty == "nodeID" {
					txt = pick(r, append(append([]string{}, ids...), "out", "", "elsewhere"))
					v = 0
				}
				tomb := 0
				if r.Intn(8) == 0 {
					tomb = 1 + r.Intn(2)
				}
				pts = append(pts, fmt.Sprintf("%s,%s,%s,%s,%d,%d,%s,-", hxs(ty), hxs(key), valStr(v), hxs(txt), tick(), tomb, hxs(pick(r, []string{"", "u1"}))))
			}
			if len(pts) > 0 {
				ops = append(ops, "np:"+hxs(id)+":"+strings.Join(pts, "+"))
			}
			if r.Intn(4) == 0 {
				ops = append(ops, "ep:"+hxs(id)+":"+hxs(parentOf[id])+":"+fmt.Sprintf("%s,%s,%s,%s,%d,0,-,-", hxs("role"), hxs(pick(r, []string{"", "0", "x"})), valStr(pick(r, vals)), hxs(pick(r, texts[:plainTexts])), tick()))
			}
		}
		exp := "n0"
		if len(ids) > 1 && r.Intn(4) == 0 {
			exp = ids[1]
		}
		where := pick(r, []string{"a", "b"})
		if i%8 == 7 {
			where = "r" // import target "root" on a fresh instance
		}
		mode := pick(r, []string{"n", "n", "p"})
		c := strings.Join(ops, ";") + "|" + hxs(exp) + "|" + mode + "|" + where
		if mode == "p" && where == "a" && r.Intn(2) == 0 {
			c += "|d" // restore over a deleted copy: the nodes below the exported one are deleted first
		}
		out = append(out, c)
	}
	return out
}
