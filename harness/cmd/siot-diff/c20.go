package main

import (
	"fmt"
	"math"
	"math/rand"
	"os"
	"runtime"
	"sort"
	"strings"
	"sync"
	"sync/atomic"
	"time"

	"github.com/nats-io/nats.go"
	"github.com/simpleiot/simpleiot/client"
	"github.com/simpleiot/simpleiot/data"
	"github.com/simpleiot/simpleiot/store"
)

// C20 case: "w<W>r<R>n<N>s<seed>": a fresh in-process instance; W writer and R reader goroutines, each with
// its own bus connection, perform N operations each on three nodes (a under G, b under a, c under a and G) while
// a verifier calls admin.storeVerify; then the instance is stopped and its store file is opened again.
// Every operation is stamped with a global logical clock at invocation and at response.
// observation:  H=<event>;<event>..  ## final=<store dump> ## stop=<returned|hang> reopen=<ok|err> stuck=<handlers left behind>
//   W,<inv>,<resp>,<writer>,<node>,<n|e>,<key>,<time>,<ok|err>      acknowledged write of one point (type v / role)
//   R,<inv>,<resp>,<reader>,<node>,<t0>/<t1>/<t2>/<trole>            read: time of the point of each identity, - if absent
//   V,<inv>,<resp>,<ok|err>                                          admin.storeVerify
//   X,<inv>,<resp>,<writer>,<refused|timeout|accepted>               a request the store must refuse (NaN, self edge, cycle)

func init() {
	register("C20", &Prop{Gen: c20Gen, Run: c20Run, Init: func() { caseTimeout = 60 * time.Second }})
}

var c20Seq int

// c20Send is client.SendNodePoints / SendEdgePoints with acknowledgement, except that it waits 8 s for the answer
// instead of 1 s: on a busy machine a slow answer must not be mistaken for a missing one.
func c20Send(nc *nats.Conn, subject string, pts data.Points) error {
	b, err := pts.ToPb()
	if err != nil {
		return err
	}
	msg, err := nc.Request(subject, b, 8*time.Second)
	if err != nil {
		return err
	}
	if len(msg.Data) > 0 {
		return fmt.Errorf("%s", string(msg.Data))
	}
	return nil
}

// c20Direct: "d<W>n<N>s<seed>": the store opened directly (no bus); W goroutines write node and edge points through the
// store's own write functions while the store is closed in the middle: every write must RETURN (done, or refused with an
// error because the store is closed) and the file must open again with consistent content.
func c20Direct(c string) string {
	var W, N int
	var seed int64
	if _, err := fmt.Sscanf(strings.Fields(c)[0], "d%dn%ds%d", &W, &N, &seed); err != nil {
		panic("C20: bad case " + c)
	}
	db, f := newStore()
	defer func() {
		for _, suf := range []string{"", "-wal", "-shm"} {
			os.Remove(f + suf)
		}
	}()
	if err := db.VerifEdgePoints("a", "R", data.Points{{Type: data.PointTypeTombstone, Time: time.Unix(0, 10)}, {Type: data.PointTypeNodeType, Text: "device", Time: time.Unix(0, 11)}}); err != nil {
		return "SETUP " + err.Error()
	}
	var done int64
	var wg sync.WaitGroup
	for w := 0; w < W; w++ {
		wg.Add(1)
		go func(w int) {
			defer wg.Done()
			r := rand.New(rand.NewSource(seed*31 + int64(w)))
			for i := 0; i < N; i++ {
				tm := time.Unix(0, int64(1000+i*8+w))
				if r.Intn(2) == 0 {
					_ = db.VerifNodePoints("a", data.Points{{Type: "v", Key: fmt.Sprint(r.Intn(3)), Value: float64(i), Time: tm}})
				} else {
					_ = db.VerifEdgePoints("a", "R", data.Points{{Type: "role", Value: float64(w), Time: tm}})
				}
				atomic.AddInt64(&done, 1)
			}
		}(w)
	}
	for atomic.LoadInt64(&done) < int64(W*N/3) {
		time.Sleep(50 * time.Microsecond)
	}
	closed := make(chan struct{})
	go func() { db.Close(); close(closed) }()
	res := "returned"
	fin := make(chan struct{})
	go func() { wg.Wait(); close(fin) }()
	select {
	case <-fin:
	case <-time.After(8 * time.Second):
		res = "hang"
	}
	select {
	case <-closed:
	case <-time.After(8 * time.Second):
		res += ",close-hang"
	}
	reopen := "ok"
	if db2, err := store.NewSqliteDb(f, "R"); err != nil {
		reopen = "err"
	} else {
		if err := db2.VerifVerifyHashes(false); err != nil {
			reopen = "verify-err"
		}
		db2.Close()
	}
	return "D writers=" + res + " reopen=" + reopen
}

func c20Run(c string) string {
	if strings.HasPrefix(c, "d") {
		return c20Direct(c)
	}
	var W, R, N int
	var seed int64
	if _, err := fmt.Sscanf(strings.Fields(c)[0], "w%dr%dn%ds%d", &W, &R, &N, &seed); err != nil {
		panic("C20: bad case " + c)
	}
	// "...x": the instance is stopped in the MIDDLE of the load (requests in flight): Stop must still return, every write
	// acknowledged before or during the shutdown must be in the re-opened file, and nothing may be torn
	stopMid := strings.HasSuffix(strings.Fields(c)[0], "x")
	var stopping int32
	var stopAt int64
	srv, err := busStart("R", "", nil)
	if err != nil {
		return "SETUP " + err.Error()
	}
	file := srv.opts.StoreFile
	stopped := false
	defer func() {
		if !stopped {
			srv.stop()
		}
	}()
	nt := func(t string, tm int64) data.Points {
		return data.Points{{Type: data.PointTypeTombstone, Time: time.Unix(0, tm)}, {Type: data.PointTypeNodeType, Text: t, Time: time.Unix(0, tm+1)}}
	}
	type place struct{ id, parent string }
	places := []place{{"a", "G"}, {"b", "a"}, {"c", "a"}}
	for i, e := range []place{{"G", "R"}, {"a", "G"}, {"b", "a"}, {"c", "a"}, {"c", "G"}} {
		if err := client.SendEdgePoints(srv.nc, e.id, e.parent, nt("device", int64(10+i*2)), true); err != nil {
			return "SETUP edge " + e.id
		}
	}
	var clk int64
	tick := func() int64 { return atomic.AddInt64(&clk, 1) }
	var mu sync.Mutex
	var events []string
	add := func(s string) { mu.Lock(); events = append(events, s); mu.Unlock() }
	var wg sync.WaitGroup
	conns := []*nats.Conn{}
	connect := func() *nats.Conn {
		nc, err := srv.connect()
		if err != nil {
			panic(err)
		}
		mu.Lock()
		conns = append(conns, nc)
		mu.Unlock()
		return nc
	}
	for w := 0; w < W; w++ {
		nc := connect()
		wg.Add(1)
		go func(w int) {
			defer wg.Done()
			r := rand.New(rand.NewSource(seed*131 + int64(w)))
			for i := 0; i < N; i++ {
				pl := places[r.Intn(len(places))]
				key := fmt.Sprint(r.Intn(3))
				tm := int64(1000 + (i*16+r.Intn(4))*64 + w) // distinct per writer, roughly increasing, overlapping between writers
				if r.Intn(12) == 0 {
					// a request the store must refuse (C05): under load it must still be ANSWERED, with the error, not left to
					// time out; it changes nothing, so the history oracle is not affected
					inv := tick()
					var err error
					switch r.Intn(3) {
					case 0:
						err = c20Send(nc, "p."+pl.id, data.Points{{Type: "v", Key: key, Value: math.NaN(), Time: time.Unix(0, tm)}})
					case 1:
						err = c20Send(nc, "p."+pl.id+"."+pl.id, data.Points{{Type: data.PointTypeNodeType, Text: "device", Time: time.Unix(0, tm)}})
					default:
						err = c20Send(nc, "p.G.c", data.Points{{Type: data.PointTypeTombstone, Time: time.Unix(0, tm)}, {Type: data.PointTypeNodeType, Text: "device", Time: time.Unix(0, tm)}})
					}
					resp := tick()
					st := "accepted"
					if err != nil {
						st = "refused"
						if strings.Contains(err.Error(), "timeout") {
							st = "timeout"
						}
					}
					if st != "refused" && atomic.LoadInt32(&stopping) == 1 {
						return
					}
					add(fmt.Sprintf("X,%d,%d,%d,%s", inv, resp, w, st))
					continue
				}
				inv := tick()
				var err error
				kind := "n"
				// in the cases that stop the instance under load, half of the writes are edge-point writes: the two write
				// handlers (p.* and p.*.*) are then both busy, and both queue for the single-writer lock, when the stop comes
				if r.Intn(8) == 0 || (stopMid && r.Intn(2) == 0) {
					kind = "e"
					key = "0"
					err = c20Send(nc, "p."+pl.id+"."+pl.parent, data.Points{{Type: "role", Value: float64(w), Time: time.Unix(0, tm)}})
				} else {
					err = c20Send(nc, "p."+pl.id, data.Points{{Type: "v", Key: key, Value: float64(i), Text: fmt.Sprint(w), Time: time.Unix(0, tm)}})
				}
				resp := tick()
				st := "ok"
				if err != nil {
					st = "err:" + strings.NewReplacer(" ", "_", ",", "_", ";", "_", "#", "_").Replace(err.Error())
				}
				add(fmt.Sprintf("W,%d,%d,%d,%s,%s,%s,%d,%s", inv, resp, w, pl.id, kind, key, tm, st))
				if err != nil && atomic.LoadInt32(&stopping) == 1 {
					return // the instance is going down: this writer gives up
				}
			}
		}(w)
	}
	for rd := 0; rd < R; rd++ {
		nc := connect()
		wg.Add(1)
		go func(rd int) {
			defer wg.Done()
			r := rand.New(rand.NewSource(seed*977 + int64(rd)))
			for i := 0; i < N; i++ {
				pl := places[r.Intn(len(places))]
				inv := tick()
				nodes, err := client.GetNodes(nc, pl.parent, pl.id, "", false)
				resp := tick()
				if (err != nil || len(nodes) != 1) && atomic.LoadInt32(&stopping) == 1 {
					return
				}
				if err != nil || len(nodes) != 1 {
					why := fmt.Sprintf("count=%d", len(nodes))
					if err != nil {
						why = strings.NewReplacer(" ", "_", ",", "_", ";", "_").Replace(err.Error())
					}
					add(fmt.Sprintf("R,%d,%d,%d,%s,err:%s", inv, resp, rd, pl.id, why))
					continue
				}
				ts := []string{"-", "-", "-", "-"}
				for _, p := range nodes[0].Points {
					if p.Type == "v" && len(p.Key) == 1 && p.Key[0] >= '0' && p.Key[0] <= '2' {
						ts[p.Key[0]-'0'] = fmt.Sprint(p.Time.UnixNano())
					}
				}
				for _, p := range nodes[0].EdgePoints {
					if p.Type == "role" {
						ts[3] = fmt.Sprint(p.Time.UnixNano())
					}
				}
				add(fmt.Sprintf("R,%d,%d,%d,%s,%s", inv, resp, rd, pl.id, strings.Join(ts, "/")))
			}
		}(rd)
	}
	ncV := connect()
	wg.Add(1)
	go func() {
		defer wg.Done()
		for i := 0; i < 3+N/10; i++ {
			inv := tick()
			err := client.AdminStoreVerify(ncV)
			resp := tick()
			st := "ok"
			if err != nil {
				st = "err"
			}
			if err != nil && atomic.LoadInt32(&stopping) == 1 {
				return
			}
			add(fmt.Sprintf("V,%d,%d,%s", inv, resp, st))
			time.Sleep(time.Millisecond)
		}
	}()
	midStop := make(chan string, 1)
	if stopMid {
		go func() {
			target := (W + R) * N / 3
			for {
				mu.Lock()
				n := len(events)
				mu.Unlock()
				if n >= target {
					break
				}
				time.Sleep(200 * time.Microsecond)
			}
			atomic.StoreInt64(&stopAt, tick())
			atomic.StoreInt32(&stopping, 1)
			res := "hang"
			if srv.haltWithin(20 * time.Second) {
				res = "returned"
			}
			// requests still waiting for an answer would sit out their time-outs (admin.storeVerify: 20 s)
			mu.Lock()
			cs := append([]*nats.Conn(nil), conns...)
			mu.Unlock()
			for _, nc := range cs {
				nc.Close()
			}
			midStop <- res
		}()
	}
	done := make(chan struct{})
	go func() { wg.Wait(); close(done) }()
	select {
	case <-done:
	case <-time.After(25 * time.Second): // about a second on an idle machine; generous, so that a loaded machine is not mistaken for a deadlock
		mu.Lock()
		n := len(events)
		mu.Unlock()
		return fmt.Sprintf("HANG load after %d events", n)
	}
	for _, nc := range conns {
		nc.Close()
	}
	// stop: Server.Run must return, and the file must open again
	stopRes := "returned"
	if stopMid {
		select {
		case stopRes = <-midStop:
		case <-time.After(25 * time.Second):
			stopRes = "hang"
		}
	} else if !srv.haltWithin(20 * time.Second) {
		stopRes = "hang"
	}
	stopped = true
	reopen := "ok"
	final := "-"
	db, err := store.NewSqliteDb(file, "R")
	if err != nil {
		reopen = "err"
	} else {
		// Server.Run can return while the handler of the last request is still inside its transaction (Close does not
		// wait for it); the dump reads three tables one after the other, so take it until it is stable
		final = storeDump(db)
		for i := 0; i < 10; i++ {
			time.Sleep(20 * time.Millisecond)
			again := storeDump(db)
			if again == final {
				break
			}
			final = again
		}
		db.Close()
	}
	for _, suf := range []string{"", "-wal", "-shm"} {
		_ = removeFile(file + suf)
	}
	mu.Lock()
	sort.Slice(events, func(i, j int) bool {
		var a, b int64
		fmt.Sscanf(strings.SplitN(events[i], ",", 3)[1], "%d", &a)
		fmt.Sscanf(strings.SplitN(events[j], ",", 3)[1], "%d", &b)
		return a < b
	})
	h := strings.Join(events, ";")
	mu.Unlock()
	// "stopping the instance terminates it": no request handler of the store may be left behind (a handler that waits
	// for ever on a lock is invisible from outside once the connections are gone)
	stuck := c20StuckHandlers(3 * time.Second)
	if stopMid {
		return "H=" + h + " ## final=" + final + " ## stop=" + stopRes + " reopen=" + reopen + fmt.Sprintf(" stuck=%d stopAt=%d", stuck, atomic.LoadInt64(&stopAt))
	}
	return "H=" + h + " ## final=" + final + " ## stop=" + stopRes + " reopen=" + reopen + fmt.Sprintf(" stuck=%d", stuck)
}

// c20StuckHandlers counts the goroutines that are still inside a request handler or a write of the store, once they
// have had `grace` to finish; handlers left by earlier cases of this process are not counted again.
var c20StuckSeen int

func c20StuckHandlers(grace time.Duration) int {
	count := func() int {
		buf := make([]byte, 1<<24)
		buf = buf[:runtime.Stack(buf, true)]
		n := 0
		for _, g := range strings.Split(string(buf), "\n\n") {
			if strings.Contains(g, "simpleiot/store.(*Store).handle") || strings.Contains(g, "simpleiot/store.(*DbSqlite).nodePoints") ||
				strings.Contains(g, "simpleiot/store.(*DbSqlite).edgePoints") {
				n++
			}
		}
		return n
	}
	deadline := time.Now().Add(grace)
	n := count()
	for n > c20StuckSeen && time.Now().Before(deadline) {
		time.Sleep(20 * time.Millisecond)
		n = count()
	}
	d := n - c20StuckSeen
	if d < 0 {
		d = 0
	}
	c20StuckSeen = n
	return d
}

func srvStopKeep(b *busServer) { b.halt() }

func removeFile(p string) error { return os.Remove(p) }

func c20Gen(r *rand.Rand, n int, tier string) []string {
	var out []string
	for i := 0; i < n; i++ {
		c := fmt.Sprintf("w%dr%dn%ds%d", 1+r.Intn(6), 1+r.Intn(5), 10+r.Intn(50), r.Intn(1000000))
		if i%5 == 4 {
			c += "x" // stopped in the middle of the load
		}
		if i%10 == 7 {
			c = fmt.Sprintf("d%dn%ds%d", 2+r.Intn(5), 20+r.Intn(80), r.Intn(1000000)) // the store closed under direct writes
		}
		out = append(out, c)
	}
	return out
}
