package main

import (
	"fmt"
	"math"
	"math/rand"
	"strings"

	"github.com/nats-io/nats.go"
	"github.com/simpleiot/simpleiot/client"
	"github.com/simpleiot/simpleiot/data"
	"google.golang.org/protobuf/encoding/protowire"
)

// C12 cases:
//   ep <points>        Points.ToPb                      -> <hex> | err
//   en <node>          NodeEdge.ToPb                    -> <hex> | err
//   eN <node+node..>   Nodes.ToPb                       -> <hex> | err
//   dp <hex>           PbDecodePoints                   -> ok <points> | err
//   dn <hex>           PbDecodeNode                     -> ok <node> | err
//   dq <hex>           PbDecodeNodeRequest              -> ok <node> | err
//   dN <hex>           PbDecodeNodes                    -> ok <nodes> | err
//   dQ <hex>           PbDecodeNodesRequest             -> ok <nodes> | err
//   ds <hex>           PbDecodeSerialPoints             -> ok <points> | err
//   hr <hex>           DecodeSerialHrPayload            -> ok <points> | err   (time "now" is not compared)
//   sj <kind> <subjHex> subject parsers np|ep|un|ue with empty data -> ok a,b,.. | err
// node = idHex~typeHex~hash~parentHex~points~edgePoints

func init() { register("C12", &Prop{Gen: c12Gen, Run: c12Run}) }

func nodeStr(n data.NodeEdge) string {
	return fmt.Sprintf("%s~%s~%d~%s~%s~%s", hxs(n.ID), hxs(n.Type), n.Hash, hxs(n.Parent), ptsStr(n.Points), ptsStr(n.EdgePoints))
}

// nodeCaseStr is nodeStr for case lines (inputs), see ptsCaseStr
func nodeCaseStr(n data.NodeEdge) string {
	return fmt.Sprintf("%s~%s~%d~%s~%s~%s", hxs(n.ID), hxs(n.Type), n.Hash, hxs(n.Parent), ptsCaseStr(n.Points), ptsCaseStr(n.EdgePoints))
}

func nodesStr(ns []data.NodeEdge) string {
	if len(ns) == 0 {
		return "-"
	}
	var s []string
	for _, n := range ns {
		s = append(s, nodeStr(n))
	}
	return strings.Join(s, "+")
}

func parseNode(s string) data.NodeEdge {
	f := strings.Split(s, "~")
	if len(f) != 6 {
		panic("bad node in case")
	}
	return data.NodeEdge{ID: string(unhx(f[0])), Type: string(unhx(f[1])), Hash: uint32(atou64(f[2])), Parent: string(unhx(f[3])),
		Points: parsePts(f[4]), EdgePoints: parsePts(f[5])}
}

func parseNodes(s string) data.Nodes {
	if s == "-" {
		return nil
	}
	var ns data.Nodes
	for _, x := range strings.Split(s, "+") {
		ns = append(ns, parseNode(x))
	}
	return ns
}

func c12Run(c string) string {
	f := strings.Fields(c)
	res := func(s string, err error) string {
		if err != nil {
			return "err"
		}
		return "ok " + s
	}
	switch f[0] {
	case "ep":
		ps := parsePts(f[1])
		b, err := ps.ToPb()
		if err != nil {
			return "err"
		}
		return hx(b)
	case "en":
		n := parseNode(f[1])
		b, err := n.ToPb()
		if err != nil {
			return "err"
		}
		return hx(b)
	case "eN":
		ns := parseNodes(f[1])
		b, err := ns.ToPb()
		if err != nil {
			return "err"
		}
		return hx(b)
	case "dp":
		ps, err := data.PbDecodePoints(unhx(f[1]))
		return res(ptsStr(ps), err)
	case "dn":
		n, err := data.PbDecodeNode(unhx(f[1]))
		return res(nodeStr(n), err)
	case "dq":
		n, err := data.PbDecodeNodeRequest(unhx(f[1]))
		return res(nodeStr(n), err)
	case "dN":
		ns, err := data.PbDecodeNodes(unhx(f[1]))
		return res(nodesStr(ns), err)
	case "dQ":
		ns, err := data.PbDecodeNodesRequest(unhx(f[1]))
		return res(nodesStr(ns), err)
	case "ds":
		ps, err := data.PbDecodeSerialPoints(unhx(f[1]))
		return res(ptsStr(ps), err)
	case "hr":
		var ps data.Points
		payload := unhx(f[1])
		err := data.DecodeSerialHrPayload(payload, func(p data.Point) { ps = append(ps, p) })
		if err != nil {
			return "err"
		}
		zeroStart := len(payload) >= 40
		if zeroStart {
			for _, b := range payload[32:40] {
				if b != 0 {
					zeroStart = false
				}
			}
		}
		var s []string
		for _, p := range ps {
			x := ptStr(p)
			if zeroStart { // time.Now() was filled in: do not compare
				g := strings.Split(x, ",")
				g[4] = "now"
				x = strings.Join(g, ",")
			}
			s = append(s, x)
		}
		return "ok " + joinListSep(s, ";")
	case "sj":
		msg := &nats.Msg{Subject: string(unhx(f[2])), Data: nil}
		switch f[1] {
		case "np":
			a, _, err := client.DecodeNodePointsMsg(msg)
			return res(hxs(a), err)
		case "ep":
			a, b, _, err := client.DecodeEdgePointsMsg(msg)
			return res(hxs(a)+","+hxs(b), err)
		case "un":
			a, b, _, err := client.DecodeUpNodePointsMsg(msg)
			return res(hxs(a)+","+hxs(b), err)
		case "ue":
			a, b, cc, _, err := client.DecodeUpEdgePointsMsg(msg)
			return res(hxs(a)+","+hxs(b)+","+hxs(cc), err)
		}
	}
	panic("C12: bad case")
}

func joinListSep(xs []string, sep string) string {
	if len(xs) == 0 {
		return "-"
	}
	return strings.Join(xs, sep)
}

func c12Node(r *rand.Rand) data.NodeEdge {
	n := data.NodeEdge{ID: pick(r, []string{"", "n1", "abc-123", "ünï"}), Type: pick(r, []string{"", "device", "user", "x"}),
		Parent: pick(r, []string{"", "root", "p1"}), Points: genPoints(r, 3), EdgePoints: genPoints(r, 2)}
	n.Hash = pick(r, []uint32{0, 1, 0x7fffffff, 0x80000000, 0xffffffff, r.Uint32()})
	return n
}

// c12Mutate damages a valid encoding in ways a hostile or buggy peer could.
func c12Mutate(r *rand.Rand, b []byte) []byte {
	b = append([]byte(nil), b...)
	for k := 0; k < 1+r.Intn(2); k++ {
		switch r.Intn(10) {
		case 0:
			b = b[:r.Intn(len(b)+1)]
		case 1:
			if len(b) > 0 {
				b[r.Intn(len(b))] ^= byte(1 << uint(r.Intn(8)))
			}
		case 2:
			if len(b) > 0 {
				i := r.Intn(len(b))
				b = append(b[:i], append([]byte{byte(r.Intn(256))}, b[i:]...)...)
			}
		case 3: // unknown varint / fixed / bytes fields
			num := protowire.Number(pick(r, []int{9, 13, 99, 1 << 20, 1<<29 - 1}))
			switch r.Intn(4) {
			case 0:
				b = protowire.AppendVarint(protowire.AppendTag(b, num, protowire.VarintType), r.Uint64())
			case 1:
				b = protowire.AppendFixed64(protowire.AppendTag(b, num, protowire.Fixed64Type), r.Uint64())
			case 2:
				b = protowire.AppendBytes(protowire.AppendTag(b, num, protowire.BytesType), []byte("xyz"))
			case 3:
				b = protowire.AppendFixed32(protowire.AppendTag(b, num, protowire.Fixed32Type), r.Uint32())
			}
		case 4: // a group (skipped), possibly nested / unterminated / mismatched
			num := protowire.Number(10)
			b = protowire.AppendTag(b, num, protowire.StartGroupType)
			b = protowire.AppendVarint(protowire.AppendTag(b, 1, protowire.VarintType), 5)
			if r.Intn(3) == 0 {
				b = protowire.AppendTag(b, 3, protowire.StartGroupType)
				b = protowire.AppendTag(b, 3, protowire.EndGroupType)
			}
			switch r.Intn(4) {
			case 0:
			case 1:
				b = protowire.AppendTag(b, 11, protowire.EndGroupType)
			default:
				b = protowire.AppendTag(b, num, protowire.EndGroupType)
			}
		case 5: // known field number with another wire type
			num := protowire.Number(pick(r, []int{1, 2, 4, 5, 8, 12}))
			b = protowire.AppendVarint(protowire.AppendTag(b, num, protowire.VarintType), uint64(r.Intn(300)))
		case 6: // over-long varint tag / value
			b = append(b, 0x80|byte(2<<3), 0x80, 0x00, byte(r.Intn(3)))
		case 7: // field number 0, too large field number, reserved wire types
			b = append(b, pick(r, [][]byte{{0x00, 0x01}, {0xf8, 0xff, 0xff, 0xff, 0x0f, 0x01}, {0x0e}, {0x0f}, {0x0c}, {0xf8, 0xff, 0xff, 0xff, 0x1f, 0x01}})...)
		case 8: // duplicate the whole thing (repeated / merged fields)
			b = append(b, b...)
		case 9: // 10-byte varints: maximal and overflowing
			b = append(protowire.AppendTag(b, 12, protowire.VarintType), pick(r, [][]byte{
				{0xff, 0xff, 0xff, 0xff, 0xff, 0xff, 0xff, 0xff, 0xff, 0x01},
				{0xff, 0xff, 0xff, 0xff, 0xff, 0xff, 0xff, 0xff, 0xff, 0x02},
				{0x80, 0x80, 0x80, 0x80, 0x80, 0x80, 0x80, 0x80, 0x80, 0x80, 0x01}})...)
		}
	}
	return b
}

func c12Gen(r *rand.Rand, n int, tier string) []string {
	var out []string
	wrapReq := func(node []byte, errStr string, withNode bool) []byte {
		var b []byte
		if withNode {
			b = protowire.AppendBytes(protowire.AppendTag(b, 1, protowire.BytesType), node)
		}
		if errStr != "" {
			b = protowire.AppendString(protowire.AppendTag(b, 2, protowire.BytesType), errStr)
		}
		return b
	}
	for i := 0; i < n; i++ {
		switch k := r.Intn(20); {
		case k < 2:
			ps := genPoints(r, 4)
			if r.Intn(6) == 0 && len(ps) > 0 { // time outside the Timestamp range is not expressible in ns; tombstone beyond int32
				ps[0].Tombstone = pick(r, []int{math.MaxInt32 + 1, math.MinInt32 - 1, 1 << 40})
			}
			out = append(out, "ep "+ptsCaseStr(ps))
		case k < 4:
			out = append(out, "en "+nodeCaseStr(c12Node(r)))
		case k < 5:
			var ns []data.NodeEdge
			for j := 0; j < r.Intn(3); j++ {
				ns = append(ns, c12Node(r))
			}
			out = append(out, "eN "+nodesStr(ns))
		case k < 9: // points decoder: valid, mutated, random
			ps := genPoints(r, 3)
			b, err := ps.ToPb()
			if err != nil {
				b = nil
			}
			switch r.Intn(4) {
			case 0:
			case 3:
				b = make([]byte, r.Intn(12))
				r.Read(b)
			default:
				b = c12Mutate(r, b)
			}
			out = append(out, "dp "+hx(b))
		case k < 14: // node decoders
			nd := c12Node(r)
			b, err := nd.ToPb()
			if err != nil {
				b = nil
			}
			kind := pick(r, []string{"dn", "dq", "dN", "dQ"})
			switch kind {
			case "dq":
				b = wrapReq(b, pick(r, []string{"", "", "", "not found", "boom"}), r.Intn(5) != 0)
			case "dN", "dQ":
				var all []byte
				for j := 0; j < r.Intn(3); j++ {
					all = protowire.AppendBytes(protowire.AppendTag(all, 1, protowire.BytesType), b)
				}
				if kind == "dQ" && r.Intn(4) == 0 {
					all = protowire.AppendString(protowire.AppendTag(all, 2, protowire.BytesType), pick(r, []string{"not found", "x"}))
				}
				b = all
			}
			switch r.Intn(4) {
			case 0, 1:
			case 2:
				b = c12Mutate(r, b)
			default:
				if r.Intn(3) == 0 {
					b = nil
				} else {
					b = c12Mutate(r, c12Mutate(r, b))
				}
			}
			out = append(out, kind+" "+hx(b))
		case k < 16: // serial points decoder
			d, err := client.SerialEncode(1, "", genPoints(r, 3))
			var b []byte
			if err == nil && len(d) >= 19 {
				b = d[17 : len(d)-2]
			}
			if r.Intn(2) == 0 {
				b = c12Mutate(r, b)
			}
			out = append(out, "ds "+hx(b))
		case k < 18: // high-rate payload
			l := pick(r, []int{0, 1, 43, 44, 47, 48, 49, 52, 60, 44 + 4*r.Intn(6) + r.Intn(4)})
			b := make([]byte, l)
			r.Read(b)
			if l >= 32 {
				copy(b[0:16], []byte("temp\x00\x00\x00\x00\x00\x00\x00\x00\x00\x00\x00\x00"))
				copy(b[16:32], make([]byte, 16))
				if r.Intn(2) == 0 {
					copy(b[16:], "k1")
				}
			}
			if l >= 44 {
				switch r.Intn(4) {
				case 0:
					copy(b[32:40], make([]byte, 8))
				case 1:
					copy(b[32:40], []byte{0, 0, 0, 0, 0, 0, 0, 0x10})
				}
				copy(b[40:44], []byte{byte(r.Intn(256)), byte(r.Intn(4)), 0, 0})
			}
			out = append(out, "hr "+hx(b))
		default:
			kind := pick(r, []string{"np", "ep", "un", "ue"})
			subj := pick(r, []string{"", "p", "p.", "p.a", "p.a.b", "up.x.y", "up.x.y.z", "up.x.y.z.w", "..", "...", "a..b", "p.a.b.c.d.e"})
			out = append(out, fmt.Sprintf("sj %s %s", kind, hxs(subj)))
		}
	}
	return out
}
