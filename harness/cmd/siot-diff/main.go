// siot-diff: correspondence harness. Runs the real simpleiot code (built from /repo's
// working tree with -tags verif) on generated or replayed cases and prints one line per
// case: "<case> => <canonical observation>". The Lean driver (siot-model) replays the
// same case on the model and the ./check runner compares.
package main

import (
	"bufio"
	"flag"
	"fmt"
	"io"
	"log"
	"math/rand"
	"os"
	"path/filepath"
	"runtime"
	"runtime/metrics"
	"sort"
	"strconv"
	"strings"
	"sync/atomic"
	"time"
)

// A Prop knows how to generate cases and how to run one case on the implementation.
type Prop struct {
	// Gen returns n case strings (without the property prefix).
	Gen func(r *rand.Rand, n int, tier string) []string
	// Run executes one case on the real code and returns the canonical observation.
	Run func(c string) string
	// Init is called once before Run (optional).
	Init func()
	// Done is called at the end (optional).
	Done func()
}

var props = map[string]*Prop{}

func register(id string, p *Prop) { props[id] = p }

func safeRun1(p *Prop, c string) (obs string) {
	defer func() {
		if r := recover(); r != nil {
			msg := fmt.Sprint(r)
			msg = strings.ReplaceAll(msg, "\n", " ")
			obs = "PANIC " + msg
		}
	}()
	return p.Run(c)
}

// safeRun adds a watchdog: a case that does not return within caseTimeout is reported as HANG
// (its goroutine is abandoned).
func safeRun(p *Prop, c string) string {
	atomic.StoreUint64(&memBase, heapNow())
	ch := make(chan string, 1)
	go func() { ch <- safeRun1(p, c) }()
	select {
	case o := <-ch:
		return o
	case <-time.After(caseTimeout):
		dumpStacks(c)
		atomic.AddInt32(&hangs, 1)
		return "HANG"
	}
}

// dumpStacks writes the stacks of all goroutines next to the store files when a case exceeds its time limit, so that a
// hang can be told apart afterwards (a lock cycle in the code under test, a request waiting for its time-out, a stalled
// machine): VERIF_HANGDIR overrides the directory.
func dumpStacks(c string) {
	dir := os.Getenv("VERIF_HANGDIR")
	if dir == "" {
		dir = os.TempDir()
	}
	buf := make([]byte, 64<<20)
	n := runtime.Stack(buf, true)
	if len(c) > 2000 {
		c = c[:2000]
	}
	f := filepath.Join(dir, fmt.Sprintf("siot-verif-hang-%d-%d.txt", os.Getpid(), time.Now().UnixNano()))
	_ = os.WriteFile(f, append([]byte("case: "+c+"\n\n"), buf[:n]...), 0o644)
	fmt.Fprintln(os.Stderr, "case exceeded its time limit; goroutine stacks in", f)
}

var caseTimeout = 10 * time.Second

// hangs counts the cases that exceeded their time limit. Their goroutines are abandoned and may keep a processor busy
// (a walk that never ends): after maxHangs of them the run stops — the cases answered so far are judged, the hanging ones
// are violations with their replays — instead of sitting out the limit another thousand times.
var hangs int32

const maxHangs = 8

func tooManyHangs() bool {
	if atomic.LoadInt32(&hangs) >= maxHangs {
		fmt.Fprintf(os.Stderr, "%d cases exceeded their time limit: the run stops here\n", maxHangs)
		return true
	}
	return false
}

// runCase runs one case; when an in-process instance died under it without the harness having stopped it (busDeaths), the
// property's instances are started afresh and the case is run again, at most twice: a death that repeats is reported as
// observed. An instance that died between two cases is replaced before the next one starts.
var busDeathsSeen int64

// caseRetry is set when a request of the harness, or a catch-up pass it started, ended in a TIME-OUT (client.SendNodePoints
// waits one second for its acknowledgement; on a machine busy with other work a store write can take longer). Such a case is
// run again on fresh instances like one whose instance ended by itself; a time-out that repeats — a request the code under
// test does not answer — is reported as observed.
var caseRetry int32

func noteTmo(err error) error {
	if err != nil && strings.Contains(err.Error(), "timeout") {
		atomic.StoreInt32(&caseRetry, 1)
	}
	return err
}

func runCase(p *Prop, c string) string {
	restart := func() {
		if p.Done != nil {
			p.Done()
		}
		if p.Init != nil {
			p.Init()
		}
		busDeathsSeen = atomic.LoadInt64(&busDeaths)
	}
	for attempt := 0; ; attempt++ {
		if atomic.LoadInt64(&busDeaths) != busDeathsSeen {
			fmt.Fprintln(os.Stderr, "an instance ended by itself: instances started afresh")
			restart()
		}
		atomic.StoreInt32(&caseRetry, 0)
		obs := safeRun(p, c)
		if (atomic.LoadInt64(&busDeaths) == busDeathsSeen && atomic.LoadInt32(&caseRetry) == 0) || attempt >= 2 {
			return obs
		}
		if atomic.LoadInt64(&busDeaths) != busDeathsSeen {
			fmt.Fprintln(os.Stderr, "an instance ended by itself while a case was running: the case is run again")
		} else {
			fmt.Fprintln(os.Stderr, "a request timed out while a case was running: the case is run again on fresh instances")
			restart()
		}
	}
}

// memWatch ends the process when the code under test allocates without bound: more than 6 GB of live heap gained
// while ONE case runs (VERIF_MEMLIMIT_MB overrides), or 40 GB in all. The run is then localised to the case like any other
// crash, instead of taking the machine down. (A limit on the total alone was a false alarm: a process that runs thousands
// of bus cases legitimately grows by gigabytes.)
var memBase uint64 // live heap when the current case started

func heapNow() uint64 {
	s := []metrics.Sample{{Name: "/memory/classes/heap/objects:bytes"}}
	metrics.Read(s)
	if s[0].Value.Kind() == metrics.KindUint64 {
		return s[0].Value.Uint64()
	}
	return 0
}

func memWatch() {
	perCase := uint64(6 << 30)
	if v, err := strconv.Atoi(os.Getenv("VERIF_MEMLIMIT_MB")); err == nil && v > 0 {
		perCase = uint64(v) << 20
	}
	for {
		time.Sleep(250 * time.Millisecond)
		h := heapNow()
		base := atomic.LoadUint64(&memBase)
		if (h > base && h-base > perCase) || h > 40<<30 {
			fmt.Fprintf(os.Stderr, "memory limit exceeded: %d MB of live heap, %d MB of it gained while running the case\n", h>>20, (h-base)>>20)
			os.Exit(86)
		}
	}
}

func main() {
	if os.Getenv("VERIF_LOG") == "" {
		log.SetOutput(io.Discard) // the code under test logs freely
	}
	go memWatch()
	cleanStoreDirs()
	if len(os.Args) < 3 {
		fmt.Fprintln(os.Stderr, "usage: siot-diff gen|replay <prop> [-seed N] [-n K] [-tier quick|thorough]")
		os.Exit(2)
	}
	if os.Args[1] == "c04-writer" && len(os.Args) >= 4 { // child process of a C04 case
		c04Writer(os.Args[2], os.Args[3])
		return
	}
	mode, id := os.Args[1], os.Args[2]
	fs := flag.NewFlagSet("siot-diff", flag.ExitOnError)
	seed := fs.Int64("seed", 1, "PRNG seed")
	n := fs.Int("n", 1000, "number of cases")
	tier := fs.String("tier", "quick", "tier")
	fs.Parse(os.Args[3:])
	if mode == "list" {
		var ids []string
		for k := range props {
			ids = append(ids, k)
		}
		sort.Strings(ids)
		fmt.Println(strings.Join(ids, " "))
		return
	}
	p, ok := props[id]
	if !ok {
		fmt.Fprintln(os.Stderr, "unknown property", id)
		os.Exit(2)
	}
	w := bufio.NewWriterSize(os.Stdout, 1<<20)
	defer w.Flush()
	defer os.RemoveAll(storeDir()) // runs after Done: the directory of this process goes with it
	if p.Init != nil {
		p.Init()
	}
	if p.Done != nil {
		defer p.Done()
	}
	flushEach := os.Getenv("VERIF_FLUSH") == "1" // crash localisation: every line is written out before the next case starts
	switch mode {
	case "cases": // the generated cases only, not run
		r := rand.New(rand.NewSource(*seed))
		for _, c := range p.Gen(r, *n, *tier) {
			fmt.Fprintf(w, "%s %s\n", id, c)
		}
	case "gen":
		r := rand.New(rand.NewSource(*seed))
		for _, c := range p.Gen(r, *n, *tier) {
			fmt.Fprintf(w, "%s %s => %s\n", id, c, runCase(p, c))
			if flushEach {
				w.Flush()
			}
			if tooManyHangs() {
				break
			}
		}
	case "replay":
		sc := bufio.NewScanner(os.Stdin)
		sc.Buffer(make([]byte, 1<<20), 1<<26)
		for sc.Scan() {
			line := sc.Text()
			if i := strings.Index(line, " => "); i >= 0 {
				line = line[:i]
			}
			line = strings.TrimSpace(line)
			if line == "" || strings.HasPrefix(line, "#") {
				continue
			}
			c := strings.TrimPrefix(line, id+" ")
			fmt.Fprintf(w, "%s %s => %s\n", id, c, runCase(p, c))
			if flushEach {
				w.Flush()
			}
			if tooManyHangs() {
				break
			}
		}
	default:
		fmt.Fprintln(os.Stderr, "unknown mode", mode)
		os.Exit(2)
	}
}
