package main

import (
	"bufio"
	"bytes"
	"database/sql"
	"fmt"
	"math/rand"
	"os"
	"os/exec"
	"path/filepath"
	"strings"
	"sync/atomic"
	"syscall"
	"time"

	"github.com/simpleiot/simpleiot/store"
)

// C04 case: "<kill>|<ops>": a separate writer process (this binary, mode c04-writer) opens the store file and
// executes the ops (store op syntax), acknowledging each on stdout; the parent kills it with SIGKILL
//   d<us>: <us> microseconds after the writer reported "ready" (file initialised beforehand by the parent)
//   i<us>: <us> microseconds after it was started on a file that does not exist yet (death during initialisation)
// and then re-opens the file with store.NewSqliteDb.
// observation: <d0> ## <acks> ## open=<ok|err> root=<same|changed|-> key=<same|changed|-> post=<ok|err> ## <dump>

var c04Seq int64

func init() {
	register("C04", &Prop{Gen: c04Gen, Run: c04Run})
}

// c04Writer is the child process.
func c04Writer(file, ops string) {
	db, err := store.NewSqliteDb(file, "R")
	if err != nil {
		fmt.Println("openerr", err)
		os.Exit(3)
	}
	out := bufio.NewWriter(os.Stdout)
	fmt.Fprintln(out, "ready")
	out.Flush()
	for i, op := range strings.Split(ops, ";") {
		p := strings.Split(op, ":")
		var err error
		switch p[0] {
		case "np":
			err = db.VerifNodePoints(string(unhx(p[1])), parseSpts(p[2]))
		case "ep":
			err = db.VerifEdgePoints(string(unhx(p[1])), string(unhx(p[2])), parseSpts(p[3]))
		}
		r := "ok"
		if err != nil {
			r = "err"
		}
		fmt.Fprintf(out, "ack %d %s\n", i, r)
		out.Flush()
	}
	fmt.Fprintln(out, "done")
	out.Flush()
	time.Sleep(time.Hour)
}

func c04Key(file string) (string, error) {
	db, err := sql.Open("sqlite", file)
	if err != nil {
		return "", err
	}
	defer db.Close()
	var key []byte
	var root string
	err = db.QueryRow("SELECT root_id, jwt_key FROM meta").Scan(&root, &key)
	return root + "/" + hx(key), err
}

func c04Run(c string) string {
	f := strings.SplitN(strings.Fields(c)[0], "|", 2)
	kill, ops := f[0], f[1]
	if kill == "s" {
		return c04SnapRun(ops)
	}
	file := filepath.Join(storeDir(), fmt.Sprintf("c04-%d.sqlite", atomic.AddInt64(&c04Seq, 1)))
	rm := func() {
		for _, suf := range []string{"", "-wal", "-shm"} {
			os.Remove(file + suf)
		}
	}
	rm()
	defer rm()
	us := int(atoi64(kill[1:]))
	d0, key0 := "-", ""
	if kill[0] == 'd' {
		db, err := store.NewSqliteDb(file, "R")
		if err != nil {
			return "SETUP " + err.Error()
		}
		d0 = storeDump(db)
		db.Close()
		key0, _ = c04Key(file)
	}
	cmd := exec.Command(os.Args[0], "c04-writer", file, ops)
	var outBuf bytes.Buffer
	pr, pw, _ := os.Pipe()
	cmd.Stdout = pw
	cmd.Stderr = nil
	if err := cmd.Start(); err != nil {
		return "SPAWN " + err.Error()
	}
	pw.Close()
	lines := make(chan string, 4096)
	go func() {
		sc := bufio.NewScanner(pr)
		sc.Buffer(make([]byte, 1<<16), 1<<22)
		for sc.Scan() {
			lines <- sc.Text()
		}
		close(lines)
	}()
	var got []string
	if kill[0] == 'd' {
		// wait for ready
		deadline := time.After(8 * time.Second)
	wait:
		for {
			select {
			case l, ok := <-lines:
				if !ok {
					break wait
				}
				got = append(got, l)
				if l == "ready" {
					break wait
				}
			case <-deadline:
				break wait
			}
		}
	}
	time.Sleep(time.Duration(us) * time.Microsecond)
	_ = cmd.Process.Signal(syscall.SIGKILL)
	_, _ = cmd.Process.Wait()
	for l := range lines {
		got = append(got, l)
	}
	_ = outBuf
	var acks []string
	for _, l := range got {
		if strings.HasPrefix(l, "ack ") {
			acks = append(acks, strings.Fields(l)[2])
		}
		if strings.HasPrefix(l, "openerr") {
			return "WRITER-OPEN " + l
		}
	}
	// recovery
	db, err := store.NewSqliteDb(file, "R")
	if err != nil {
		return d0 + " ## " + joinListSep(acks, ",") + " ## open=err:" + strings.ReplaceAll(err.Error(), " ", "_") + " root=- key=- post=- ## -"
	}
	defer db.Close()
	dump := storeDump(db)
	key1, _ := c04Key(file)
	rootS, keyS := "-", "-"
	if kill[0] == 'd' {
		rootS, keyS = "same", "same"
		if strings.Split(key0, "/")[0] != strings.Split(key1, "/")[0] {
			rootS = "changed"
		}
		if key0 != key1 {
			keyS = "changed"
		}
	} else {
		if strings.HasPrefix(key1, "R/") {
			rootS = "same"
		} else {
			rootS = "changed"
		}
		if len(key1) > len("R/")+10 {
			keyS = "same"
		} else {
			keyS = "missing"
		}
	}
	post := "ok"
	if err := db.VerifNodePoints("zzpost", parseSpts(fmt.Sprintf("%s,-,0,-,%d,0,-,-", hxs("value"), 5))); err != nil {
		post = "err"
	}
	return d0 + " ## " + joinListSep(acks, ",") + " ## open=ok root=" + rootS + " key=" + keyS + " post=" + post + " ## " + dump
}

func c04Gen(r *rand.Rand, n int, tier string) []string {
	var out []string
	for i := 0; i < n; i++ {
		clock := int64(100)
		tick := func() int64 { clock += 2; return clock }
		nt := func(t string) string {
			return fmt.Sprintf("%s,-,0,-,%d,0,-,-+%s,-,0,%s,%d,0,-,-", hxs("tombstone"), tick(), hxs("nodeType"), hxs(t), tick())
		}
		var ops []string
		// a chain (deep hash propagation), mirrors, then many batches, some large
		depth := 2 + r.Intn(8)
		prev := "R"
		var nodes []string
		for d := 0; d < depth; d++ {
			id := fmt.Sprintf("n%d", d)
			ops = append(ops, "ep:"+hxs(id)+":"+hxs(prev)+":"+nt("device"))
			nodes = append(nodes, id)
			prev = id
		}
		if depth > 3 && r.Intn(2) == 0 {
			ops = append(ops, "ep:"+hxs(nodes[depth-1])+":"+hxs(nodes[0])+":"+nt("device"))
		}
		for b := 0; b < 3+r.Intn(25); b++ {
			target := pick(r, nodes)
			var pts []string
			np := 1 + r.Intn(4)
			if r.Intn(5) == 0 {
				np = 20 + r.Intn(80)
			}
			for j := 0; j < np; j++ {
				pts = append(pts, fmt.Sprintf("%s,%s,%s,%s,%d,0,-,-", hxs(pick(r, []string{"value", "level", "tag"})), hxs(fmt.Sprint(r.Intn(40))),
					valStr(float64(r.Intn(1000))), hxs(pick(r, []string{"", "t"})), tick()))
			}
			if r.Intn(10) == 0 {
				// a batch the store must refuse as a whole (a NaN value — bare, next to a text, or in a tombstoned point): it is
				// answered with an error and leaves nothing in the file
				nan := pick(r, []string{"%s,%s,nan,-,%d,0,-,-", "%s,%s,nan,%s,%d,0,-,-", "%s,%s,nan,-,%d,1,-,-"})
				var x string
				if strings.Count(nan, "%s") == 3 {
					x = fmt.Sprintf(nan, hxs("value"), hxs(fmt.Sprint(r.Intn(40))), hxs("fault"), tick())
				} else {
					x = fmt.Sprintf(nan, hxs("value"), hxs(fmt.Sprint(r.Intn(40))), tick())
				}
				k := r.Intn(len(pts) + 1)
				pts = append(pts[:k], append([]string{x}, pts[k:]...)...)
			}
			if r.Intn(6) == 0 {
				i := r.Intn(len(nodes))
				par := "R"
				if i > 0 {
					par = nodes[i-1]
				}
				ops = append(ops, "ep:"+hxs(nodes[i])+":"+hxs(par)+":"+fmt.Sprintf("%s,-,%s,%s,%d,0,-,-", hxs("role"), valStr(float64(r.Intn(5))), hxs("r"), tick()))
			} else {
				ops = append(ops, "np:"+hxs(target)+":"+strings.Join(pts, "+"))
			}
		}
		if i%8 == 7 {
			// crash images at every row change (first-time initialisation included) instead of one sampled kill time;
			// a shorter history keeps the number of images down
			if len(ops) > depth+6 {
				ops = ops[:depth+6]
			}
			out = append(out, "s|"+strings.Join(ops, ";"))
			continue
		}
		kill := fmt.Sprintf("d%d", r.Intn(1+len(ops)*600)) // a batch takes roughly a millisecond
		if r.Intn(6) == 0 {
			kill = fmt.Sprintf("i%d", r.Intn(1+r.Intn(30000)))
		}
		out = append(out, kill+"|"+strings.Join(ops, ";"))
	}
	return out
}
