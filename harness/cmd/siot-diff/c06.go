package main

import (
	"fmt"
	"math/rand"
	"sort"
	"strings"
	"sync"
	"time"

	"github.com/nats-io/nats.go"
	"github.com/simpleiot/simpleiot/client"
	"github.com/simpleiot/simpleiot/data"
)

// C06 case: "<setup ops>|<final op>" with ops in the store syntax (np:/ep:), executed over the BUS
// (p.<id> / p.<id>.<parent> requests with acknowledgement) on an in-process instance with root "R".
// Node ids other than R / root are made unique per case. Observation:
//   "<op results> ## <sorted subject*count list received on up.> for the final op>"

var c06Srv *busServer
var c06Sub *nats.Conn
var c06Mu sync.Mutex
var c06Msgs []string
var c06Bodies []string
var c06Case int
var c06SentinelLost int

func init() {
	register("C06", &Prop{Gen: c06Gen, Run: c06Run, Init: c06Init, Done: func() {
		if c06Srv != nil {
			c06Srv.stop()
		}
	}})
}

func c06Init() {
	caseTimeout = 45 * time.Second // four sentinel waits of up to 8 s each on a loaded machine
	var err error
	c06Srv, err = busStart("R", "", nil)
	if err != nil {
		panic("C06: " + err.Error())
	}
	c06Sub, err = c06Srv.connect()
	if err != nil {
		panic(err)
	}
	_, err = c06Sub.Subscribe("up.>", func(m *nats.Msg) {
		// payload: the points as sent (canonical strings), compared with the final op's batch
		body := "?"
		if pts, e := data.PbDecodePoints(m.Data); e == nil {
			// once a minute the store reports its own metrics as points of the root node (store.StartMetrics): writes of the
			// instance itself, correctly rebroadcast, but not part of any case
			own := len(pts) > 0
			for _, p := range pts {
				own = own && strings.HasPrefix(p.Type, "metricNats")
			}
			if own {
				return
			}
			var ss []string
			for _, p := range pts {
				ss = append(ss, ptStr(p))
			}
			body = strings.Join(ss, "+")
		}
		c06Mu.Lock()
		c06Msgs = append(c06Msgs, m.Subject)
		c06Bodies = append(c06Bodies, body)
		c06Mu.Unlock()
	})
	if err != nil {
		panic(err)
	}
	c06Sub.Flush()
}

func c06ID(prefix, id string) string {
	if id == "R" || id == "root" || id == "" || id == "none" {
		return id
	}
	return prefix + id
}

func c06Exec(nc *nats.Conn, prefix, op string) string {
	p := strings.Split(op, ":")
	var err error
	switch p[0] {
	case "np":
		err = noteTmo(client.SendNodePoints(nc, c06ID(prefix, string(unhx(p[1]))), parseSpts(p[2]), true))
	case "ep":
		err = noteTmo(client.SendEdgePoints(nc, c06ID(prefix, string(unhx(p[1]))), c06ID(prefix, string(unhx(p[2]))), parseSpts(p[3]), true))
	default:
		panic("C06: bad op")
	}
	if err != nil {
		if strings.Contains(err.Error(), "timeout") {
			return "timeout"
		}
		return "err"
	}
	return "ok"
}

func c06Run(c string) string {
	c06Case++
	prefix := fmt.Sprintf("k%d-", c06Case)
	parts := strings.Split(strings.Fields(c)[0], "|")
	nc := c06Srv.nc
	var res []string
	if parts[0] != "-" {
		for _, op := range strings.Split(parts[0], ";") {
			res = append(res, c06Exec(nc, prefix, op))
		}
	}
	// quiesce: a sentinel write of each kind, wait for its rebroadcast. A sentinel that is never rebroadcast means the
	// rebroadcast itself is broken: the case says so, and later cases stop waiting seconds for it.
	lost := false
	wait := func(subj string) {
		// generous: on a loaded machine a rebroadcast can take seconds; only a rebroadcast that never comes is a finding
		limit := 8 * time.Second
		if c06SentinelLost > 2 {
			limit = 100 * time.Millisecond
		}
		deadline := time.Now().Add(limit)
		missing := true
		defer func() {
			if missing {
				lost = true
				c06SentinelLost++
			}
		}()
		for time.Now().Before(deadline) {
			c06Mu.Lock()
			found := false
			for _, s := range c06Msgs {
				if s == subj {
					found = true
				}
			}
			c06Mu.Unlock()
			if found {
				missing = false
				return
			}
			time.Sleep(200 * time.Microsecond)
		}
	}
	sentinel := func(tag string) {
		s := prefix + "zz" + tag
		_ = client.SendEdgePoints(nc, s, "R", parseSpts(fmt.Sprintf("%s,-,0,%s,%d,0,-,-", hxs("nodeType"), hxs("device"), 1)), true)
		wait("up." + s + "." + s + ".R")
		_ = client.SendNodePoints(nc, s, parseSpts(fmt.Sprintf("%s,-,0,-,%d,0,-,-", hxs("value"), 2)), true)
		wait("up." + s + "." + s)
	}
	sentinel("a")
	c06Mu.Lock()
	c06Msgs = nil
	c06Bodies = nil
	c06Mu.Unlock()
	var sent []string
	{
		f := strings.Split(parts[1], ":")
		for _, p := range parseSpts(f[len(f)-1]) {
			sent = append(sent, ptStr(p))
		}
	}
	want := strings.Join(sent, "+")
	final := c06Exec(nc, prefix, parts[1])
	sentinel("b")
	c06Mu.Lock()
	counts := map[string]int{}
	for i, s := range c06Msgs {
		if strings.Contains(s, prefix+"zz") {
			continue
		}
		k := strings.ReplaceAll(s, prefix, "")
		if c06Bodies[i] != want {
			k += "~payload-differs"
		}
		counts[k]++
	}
	c06Msgs = nil
	c06Bodies = nil
	c06Mu.Unlock()
	var subs []string
	for s, n := range counts {
		subs = append(subs, fmt.Sprintf("%s*%d", s, n))
	}
	sort.Strings(subs)
	res = append(res, final)
	if lost {
		return strings.Join(res, ",") + " ## SENTINEL-NOT-REBROADCAST"
	}
	return strings.Join(res, ",") + " ## " + joinListSep(subs, ",")
}

// c06Gen: chains, mirrors, diamonds, tombstoned edges, detached nodes; the final write is a node-point
// or an edge-point write (incl. delete / undelete and refused writes) somewhere in the shape.
func c06Gen(r *rand.Rand, n int, tier string) []string {
	var out []string
	for i := 0; i < n; i++ {
		clock := int64(100)
		tick := func() int64 { clock += 2; return clock }
		nt := func() string { return fmt.Sprintf("%s,-,0,%s,%d,0,-,-", hxs("nodeType"), hxs("device"), tick()) }
		tomb := func(v float64) string { return fmt.Sprintf("%s,-,%s,-,%d,0,-,-", hxs("tombstone"), valStr(v), tick()) }
		val := func() string {
			return fmt.Sprintf("%s,%s,%s,-,%d,0,-,-", hxs("value"), hxs(pick(r, []string{"", "0", "1"})), valStr(float64(r.Intn(9))), tick())
		}
		nodes := []string{"R"}
		type edge struct{ up, down string }
		var edges []edge
		var ops []string
		ids := []string{"a", "b", "c", "d", "e"}
		if r.Intn(4) == 0 {
			ids = []string{"a", "A", "b", "B", "c"} // ids that differ in letter case only are different nodes
		}
		for s := 0; s < 2+r.Intn(6); s++ {
			switch k := r.Intn(8); {
			case k < 4: // new node (sometimes detached: parent "none")
				id := pick(r, ids)
				parent := pick(r, nodes)
				if r.Intn(8) == 0 {
					parent = "none"
				}
				ops = append(ops, "ep:"+hxs(id)+":"+hxs(parent)+":"+nt())
				edges = append(edges, edge{parent, id})
				if parent != "none" {
					nodes = append(nodes, id)
				} else {
					nodes = append(nodes, id)
				}
			case k < 6 && len(nodes) > 2: // mirror / diamond (cycles are refused)
				id := pick(r, nodes[1:])
				parent := pick(r, nodes)
				ops = append(ops, "ep:"+hxs(id)+":"+hxs(parent)+":"+nt())
				edges = append(edges, edge{parent, id})
			case len(edges) > 0: // tombstone / undelete an edge
				e := pick(r, edges)
				ops = append(ops, "ep:"+hxs(e.down)+":"+hxs(e.up)+":"+tomb(float64(pick(r, []int{0, 1, 1, 2, 3}))))
				if r.Intn(4) == 0 {
					// undone with the SAME time stamp (an undo that carries the time of what it undoes): the later write of
					// two with equal times is the one that is stored
					ops = append(ops, "ep:"+hxs(e.down)+":"+hxs(e.up)+":"+fmt.Sprintf("%s,-,%s,-,%d,0,-,-", hxs("tombstone"), valStr(float64(pick(r, []int{0, 1}))), clock))
				}
			}
		}
		var final string
		target := pick(r, nodes)
		switch r.Intn(6) {
		case 0, 1, 2:
			final = "np:" + hxs(target) + ":" + val()
		case 3:
			if len(edges) > 0 {
				e := pick(r, edges)
				final = "ep:" + hxs(e.down) + ":" + hxs(e.up) + ":" + pick(r, []string{val(), tomb(1), tomb(0)})
			} else {
				final = "np:" + hxs(target) + ":" + val()
			}
		case 4: // refused: NaN or self edge
			if r.Intn(2) == 0 {
				final = "np:" + hxs(target) + ":" + fmt.Sprintf("%s,-,nan,-,%d,0,-,-", hxs("value"), tick())
			} else {
				final = "ep:" + hxs(target) + ":" + hxs(target) + ":" + nt()
			}
		default: // new edge as the observed write
			final = "ep:" + hxs(pick(r, ids)) + ":" + hxs(pick(r, nodes)) + ":" + nt()
		}
		if len(ops) == 0 {
			out = append(out, "-|"+final)
		} else {
			out = append(out, strings.Join(ops, ";")+"|"+final)
		}
	}
	return out
}
