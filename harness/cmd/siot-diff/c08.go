package main

import (
	"fmt"
	"math/rand"
	"sort"
	"strings"
	"time"

	"github.com/simpleiot/simpleiot/client"
	"github.com/simpleiot/simpleiot/data"
)

// C08 case: "<tree ops>|<observed ops>" (store op syntax, ids made unique per case and placed under a
// per-case group). The tree is built first; then a fresh client.Manager[Vdev] is started, the observed
// writes are sent over the bus (acknowledged), a sentinel batch is sent to every client node and awaited
// in the client's log, and the manager is stopped.
// observation: <key>=[<told>|<told>..] fold=<same|differs|n/a> ; ...   (keys sorted)

var c08Srv *busServer
var c08Cases int

func init() {
	register("C08", &Prop{Gen: c08Gen, Run: c08Run, Init: c08Start, Done: c08Stop})
}

func c08Start() {
	var err error
	c08Srv, err = busStart("R", "", nil)
	if err != nil {
		panic("C08: " + err.Error())
	}
}

func c08Stop() {
	if c08Srv != nil {
		c08Srv.stop()
		c08Srv = nil
	}
}

// c08Prefix rewrites ids and origins of one op to the per-case names.
func c08Op(prefix, op string) (kind, id, parent string, pts data.Points) {
	f := strings.Split(op, ":")
	kind = f[0]
	id = c06ID(prefix, string(unhx(f[1])))
	ptsS := f[len(f)-1]
	if kind == "ep" {
		parent = c06ID(prefix, string(unhx(f[2])))
	}
	pts = parseSpts(ptsS)
	for i := range pts {
		if pts[i].Origin != "" {
			pts[i].Origin = prefix + pts[i].Origin
		}
	}
	return
}

func c08Send(prefix, op string) string {
	kind, id, parent, pts := c08Op(prefix, op)
	var err error
	if kind == "np" {
		err = noteTmo(client.SendNodePoints(c08Srv.nc, id, pts, true))
	} else {
		err = noteTmo(client.SendEdgePoints(c08Srv.nc, id, parent, pts, true))
	}
	if err != nil {
		return "err"
	}
	return "ok"
}

func c08Run(c string) string {
	c08Cases++
	if c08Cases%200 == 0 { // a fresh instance; the old one shuts down in the background
		old := c08Srv
		c08Start()
		go old.stop()
	}
	prefix := fmt.Sprintf("k%d-", c08Cases)
	nc := c08Srv.nc
	parts := strings.Split(strings.Fields(c)[0], "|")
	// the per-case group G under R
	if c08Send(prefix, "ep:"+hxs("G")+":"+hxs("R")+":"+fmt.Sprintf("%s,-,0,%s,%d,0,-,-", hxs("nodeType"), hxs("group"), 50)) != "ok" {
		return "SETUP group"
	}
	var clientKeys []string
	for _, op := range strings.Split(parts[0], ";") {
		if c08Send(prefix, op) != "ok" {
			return "SETUP " + op
		}
		kind, id, parent, pts := c08Op(prefix, op)
		if kind == "ep" {
			for _, p := range pts {
				if p.Type == data.PointTypeNodeType && p.Text == "vdev" {
					clientKeys = append(clientKeys, parent+"-"+id)
				}
			}
		}
	}
	log := &vlog{entered: make(chan string, 1), release: make(chan struct{})}
	race := len(parts) == 3
	obsPart := parts[1]
	if race {
		obsPart = parts[2]
		if len(clientKeys) > 0 {
			log.gateKey = clientKeys[0]
		}
	}
	m := client.NewManager(nc, newVClientCtor(log), nil)
	done := make(chan error, 1)
	go func() { done <- m.Run() }()
	raceRes := ""
	if race {
		// a write accepted while the client is being constructed: after the manager has read the node,
		// before it subscribes to the node's changes
		select {
		case <-log.entered:
			raceRes = c08Send(prefix, parts[1])
			close(log.release)
		case <-time.After(8 * time.Second):
			return "NOCONSTRUCT"
		}
	}
	waitFor := func(key, what string, d time.Duration) bool {
		deadline := time.Now().Add(d)
		for time.Now().Before(deadline) {
			for _, e := range log.snapshot() {
				if e.key == key && strings.HasPrefix(e.what, what) {
					return true
				}
			}
			time.Sleep(300 * time.Microsecond)
		}
		return false
	}
	res := ""
	for _, k := range clientKeys {
		if !waitFor(k, "run", 8*time.Second) {
			res = "NOSTART " + strings.ReplaceAll(k, prefix, "")
		}
	}
	var acc []string
	// the manager subscribes to up.<client>.> only after the client has been constructed and started:
	// probe until the subscription is live, so that the observed writes are not sent into that window
	// (the window itself is the subject of the "race" cases)
	if res == "" {
		for _, k := range clientKeys {
			id := k[strings.LastIndex(k, prefix):]
			live := false
			for i := 0; i < 400 && !live; i++ {
				_ = client.SendNodePoints(nc, id, data.Points{{Type: "zzprobe", Text: fmt.Sprint(i), Origin: "zz", Time: time.Unix(0, 60+int64(i))}}, true)
				live = waitFor(k, "P:"+hxs(id)+":"+hxs("zzprobe"), 20*time.Millisecond)
			}
			if !live {
				res = "NOSUBSCRIPTION " + strings.ReplaceAll(k, prefix, "")
			}
		}
	}
	if res == "" {
		if race {
			acc = append(acc, raceRes)
		}
		if obsPart != "-" {
			for _, op := range strings.Split(obsPart, ";") {
				acc = append(acc, c08Send(prefix, op))
			}
		}
		// sentinel to every client node, from a foreign origin
		for _, k := range clientKeys {
			id := k[strings.LastIndex(k, prefix):]
			_ = client.SendNodePoints(nc, id, data.Points{{Type: "zzsent", Text: "s", Origin: "zz", Time: time.Unix(0, 900)}}, true)
		}
		for _, k := range clientKeys {
			if !waitFor(k, "P:"+hxs(k[strings.LastIndex(k, prefix):])+":"+hxs("zzsent"), 8*time.Second) {
				res = "NOSENTINEL " + strings.ReplaceAll(k, prefix, "")
			}
		}
	}
	// fold check before stopping: what the client holds vs what the store holds
	folds := map[string]string{}
	if res == "" {
		log.mu.Lock()
		cls := append([]*vClient(nil), log.clients...)
		log.mu.Unlock()
		for _, cl := range cls {
			i := strings.Index(cl.key, "-"+prefix)
			if i < 0 {
				continue
			}
			parent, id := cl.key[:i], cl.key[i+1:]
			want, err := vStoreCfg(nc, parent, id)
			if err != nil {
				folds[cl.key] = "n/a"
				continue
			}
			if vCfgStr(want) == vCfgStr(cl.config()) {
				folds[cl.key] = "same"
			} else {
				folds[cl.key] = "differs"
			}
		}
	}
	m.Stop(nil)
	select {
	case <-done:
	case <-time.After(12 * time.Second):
		return "HANG manager-stop"
	}
	// retire the case's tree
	_ = client.SendEdgePoints(nc, prefix+"G", "R", data.Points{{Type: data.PointTypeTombstone, Value: 1, Time: time.Unix(0, 1000)}}, true)
	if res != "" {
		return res
	}
	per := map[string][]string{}
	for _, e := range log.snapshot() {
		if !strings.Contains(e.key, prefix) {
			continue // a client of an earlier case's leftovers (should not exist)
		}
		if strings.HasPrefix(e.what, "P:") || strings.HasPrefix(e.what, "E:") {
			if strings.Contains(e.what, hxs("zzsent")) || strings.Contains(e.what, hxs("zzprobe")) {
				continue
			}
			per[e.key] = append(per[e.key], e.what)
		}
	}
	sort.Strings(clientKeys)
	var out []string
	hp := hxs(prefix)
	for _, k := range clientKeys {
		told := strings.ReplaceAll(strings.Join(per[k], "|"), hp, "")
		if told == "" {
			told = "-"
		}
		out = append(out, fmt.Sprintf("%s=[%s] fold=%s", strings.ReplaceAll(k, prefix, ""), told, folds[k]))
	}
	return strings.Join(acc, ",") + " ## " + strings.Join(out, " ; ")
}

func c08Gen(r *rand.Rand, n int, tier string) []string {
	var out []string
	for i := 0; i < n; i++ {
		clock := int64(100)
		// non-decreasing time stamps: 1 step in 8 repeats the previous stamp (a tie between different points)
		tick := func() int64 {
			if r.Intn(8) != 0 {
				clock += 2
			}
			return clock
		}
		nt := func(t string) string { return fmt.Sprintf("%s,-,0,%s,%d,0,-,-", hxs("nodeType"), hxs(t), tick()) }
		var tree []string
		// client node c under G (sometimes under an inner group), children k1 k2 (vchild), grandchild gk,
		// unrelated x, sometimes a second client c2 above or beside, sometimes k1 mirrored under x
		cparent := "G"
		if r.Intn(3) == 0 {
			tree = append(tree, "ep:"+hxs("g")+":"+hxs("G")+":"+nt("group"))
			cparent = "g"
		}
		tree = append(tree, "ep:"+hxs("c")+":"+hxs(cparent)+":"+nt("vdev"))
		nodes := []string{"c"}
		parentOf := map[string]string{"c": cparent}
		for _, k := range []string{"k1", "k2"} {
			if r.Intn(4) > 0 {
				tree = append(tree, "ep:"+hxs(k)+":"+hxs("c")+":"+nt("vchild"))
				nodes = append(nodes, k)
				parentOf[k] = "c"
			}
		}
		if len(nodes) > 1 && r.Intn(2) == 0 {
			tree = append(tree, "ep:"+hxs("gk")+":"+hxs(nodes[1])+":"+nt("device"))
			nodes = append(nodes, "gk")
			parentOf["gk"] = nodes[1]
		}
		tree = append(tree, "ep:"+hxs("x")+":"+hxs("G")+":"+nt("device"))
		others := []string{"x"}
		parentOf["x"] = "G"
		if r.Intn(4) == 0 { // a second client: sibling of c, with c's first child mirrored below it
			tree = append(tree, "ep:"+hxs("c2")+":"+hxs("G")+":"+nt("vdev"))
			parentOf["c2"] = "G"
			others = append(others, "c2")
			if len(nodes) > 1 && r.Intn(2) == 0 {
				tree = append(tree, "ep:"+hxs(nodes[1])+":"+hxs("c2")+":"+nt("vchild"))
			}
		}
		if len(nodes) > 1 && r.Intn(5) == 0 { // diamond: child reachable from c by two paths
			tree = append(tree, "ep:"+hxs("m")+":"+hxs("c")+":"+nt("vchild"))
			tree = append(tree, "ep:"+hxs(nodes[1])+":"+hxs("m")+":"+nt("device"))
		}
		if r.Intn(4) == 0 {
			// a child that was first placed under the unrelated node, then under the client, then deleted at its OLDER place:
			// writes to it still concern the client, through the newer, live edge
			tomb1 := fmt.Sprintf("%s,-,%s,-,%d,0,-,-", hxs("tombstone"), valStr(1), tick())
			tree = append(tree, "ep:"+hxs("k0")+":"+hxs("x")+":"+nt("vchild"), "ep:"+hxs("k0")+":"+hxs("c")+":"+nt("vchild"), "ep:"+hxs("k0")+":"+hxs("x")+":"+tomb1)
			nodes = append(nodes, "k0")
			parentOf["k0"] = "c"
		}
		// initial configuration values (before the client starts)
		if r.Intn(2) == 0 {
			tree = append(tree, "np:"+hxs("c")+":"+fmt.Sprintf("%s,-,0,%s,%d,0,-,-", hxs("description"), hxs("first"), tick()))
		}
		raceW := ""
		if r.Intn(25) == 0 {
			// race case: a foreign write to the client's node while the client is under construction
			raceW = "np:" + hxs("c") + ":" + fmt.Sprintf("%s,-,%s,%s,%d,0,%s,-", hxs("description"), valStr(0), hxs("late"), tick(), hxs("ext"))
		}
		// observed writes
		origins := []string{"", "", "c", "ext", "ext", "u1", "k1", "x", "c2"}
		ptypes := []string{"value", "description", "level", "tag", "other"}
		var obs []string
		for s := 0; s < 1+r.Intn(7); s++ {
			target := pick(r, append(append([]string{}, nodes...), append(others, "c", "c")...))
			origin := pick(r, origins)
			var pts []string
			for j := 0; j < 1+r.Intn(3); j++ {
				ty := pick(r, ptypes)
				key := ""
				switch ty {
				case "level":
					key = pick(r, []string{"0", "1", "2"})
				case "tag":
					key = pick(r, []string{"a", "b", "", "0"}) // "" and "0" name the same map entry
				default:
					key = pick(r, []string{"", "", "0"})
				}
				tomb := 0
				if ty == "tag" && r.Intn(3) == 0 {
					tomb = 1 // a map entry is deleted by a tombstoned point of its key
				}
				pts = append(pts, fmt.Sprintf("%s,%s,%s,%s,%d,%d,%s,-", hxs(ty), hxs(key), valStr(float64(r.Intn(20))), hxs(pick(r, []string{"", "t", "uv"})), tick(), tomb, hxs(origin)))
			}
			if r.Intn(8) == 0 {
				// a batch the store refuses (a not-a-number value somewhere in it): the writer gets an error, nothing is
				// stored, and no client may be told of any point of it
				pts = append(pts, fmt.Sprintf("%s,-,nan,-,%d,0,%s,-", hxs("value"), tick(), hxs(origin)))
				r.Shuffle(len(pts), func(a, b int) { pts[a], pts[b] = pts[b], pts[a] })
			}
			if r.Intn(6) == 0 { // edge points that are not life-cycle points
				par := parentOf[target]
				obs = append(obs, "ep:"+hxs(target)+":"+hxs(par)+":"+fmt.Sprintf("%s,-,0,%s,%d,0,%s,-", hxs("role"), hxs(pick(r, []string{"a", "b"})), tick(), hxs(origin)))
			} else {
				obs = append(obs, "np:"+hxs(target)+":"+strings.Join(pts, "+"))
			}
		}
		if raceW != "" {
			out = append(out, strings.Join(tree, ";")+"|"+raceW+"|"+strings.Join(obs, ";"))
			continue
		}
		out = append(out, strings.Join(tree, ";")+"|"+strings.Join(obs, ";"))
	}
	return out
}
