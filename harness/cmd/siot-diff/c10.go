package main

import (
	"fmt"
	"math"
	"math/rand"
	"reflect"
	"strings"

	"github.com/simpleiot/simpleiot/data"
)

// C10 / C11 cases (types, values and points as described in cfgtypes.go):
//   enc <T> <V>                  Encode                      -> ok <points sorted> | <edge points sorted>   or  err
//   rt  <T> <V>                  Encode, Decode into zero    -> ok <V'> | err <V'> | encerr
//   dec <T> <V> <pts> <epts>     Decode into V               -> ok <V'> | err <V'>
//   mrg <T> <V> <pts>            MergePoints(V.id, pts, &V)  -> ok <V'> | err <V'> | nomatch
//   mre <T> <V> <m|i|p|n|e> <pts>  MergeEdgePoints(id, parent, pts, &V) with matching / foreign / empty id and parent -> as mrg
//   dm  <T> <A> <B>              DiffPoints(A,B), MergePoints onto a copy of A -> <diff sorted> | ok <A'>  (or differr)
//   rtc <T> <V> <kids> <children> Encode V and every child, Decode node + children into zero -> ok <V'> # <ctype>=[<child values>] ...

func init() {
	register("C10", &Prop{Gen: c10Gen, Run: cfgRun})
	register("C11", &Prop{Gen: c11Gen, Run: cfgRun})
}

func cfgRun(c string) string {
	f := strings.Fields(c)
	fields := parseCfgType(f[1])
	t := cfgGoType(f[1], fields)
	switch f[0] {
	case "enc":
		v := buildCfgValue(t, fields, f[2])
		ne, err := data.Encode(v.Interface())
		if err != nil {
			return "err"
		}
		return "ok " + cpsStr(ne.Points, true) + " | " + cpsStr(ne.EdgePoints, true)
	case "rt":
		v := buildCfgValue(t, fields, f[2])
		ne, err := data.Encode(v.Interface())
		if err != nil {
			return "encerr"
		}
		out := reflect.New(t)
		err = data.Decode(data.NodeEdgeChildren{NodeEdge: ne}, cfgTarget(c, out))
		st := "ok "
		if err != nil {
			st = "err "
		}
		return st + cfgValueText(out, fields)
	case "rtc":
		// rtc <T> <V> <kids> <children>: Encode the value; Encode every child (ctypeHex@value, in the given order, with the
		// node type set to ctype; a ctype that is no field of T is a distractor built with the first child type);
		// Decode node + children into the zero value of T extended by the child fields
		kids := parseCfgKids(f[3])
		tk := cfgGoTypeKids(f[1], fields, f[3], kids)
		v := buildCfgValue(tk, fields, f[2])
		ne, err := data.Encode(v.Interface())
		if err != nil {
			return "encerr"
		}
		var children []data.NodeEdgeChildren
		if f[4] != "-" {
			for _, cs := range strings.Split(f[4], ",") {
				p := strings.SplitN(cs, "@", 2)
				ctype := string(unhx(p[0]))
				kid := kids[0]
				for _, k := range kids {
					if k.ctype == ctype {
						kid = k
					}
				}
				cv := buildCfgValue(cfgGoType(kid.desc, kid.fields), kid.fields, p[1])
				cne, err := data.Encode(cv.Interface())
				if err != nil {
					return "encerr"
				}
				cne.Type = ctype
				children = append(children, data.NodeEdgeChildren{NodeEdge: cne})
			}
		}
		out := reflect.New(tk)
		if len(children) >= 2 {
			// the struct is not fresh: the same node was decoded into it before, with the children in another order (the
			// child lists are replaced by every Decode, so this must not show in the result)
			rot := append(append([]data.NodeEdgeChildren(nil), children[1:]...), children[0])
			_ = data.Decode(data.NodeEdgeChildren{NodeEdge: ne, Children: rot}, out.Interface())
		}
		err = data.Decode(data.NodeEdgeChildren{NodeEdge: ne, Children: children}, cfgTarget(c, out))
		st := "ok "
		if err != nil {
			st = "err "
		}
		res := st + cfgValueText(out, fields) + " #"
		for j, k := range kids {
			sl := out.Elem().Field(2 + len(fields) + j)
			var it []string
			for i := 0; i < sl.Len(); i++ {
				it = append(it, cfgValueText(sl.Index(i).Addr(), k.fields))
			}
			res += " " + hxs(k.ctype) + "=[" + strings.Join(it, ",") + "]"
		}
		return res
	case "dec":
		v := buildCfgValue(t, fields, f[2])
		ne := data.NodeEdge{Points: parseCps(f[3]), EdgePoints: parseCps(f[4])}
		err := data.Decode(data.NodeEdgeChildren{NodeEdge: ne}, cfgTarget(c, v))
		st := "ok "
		if err != nil {
			st = "err "
		}
		return st + cfgValueText(v, fields)
	case "mrg":
		v := buildCfgValue(t, fields, f[2])
		id := v.Elem().Field(0).String()
		err := data.MergePoints(id, parseCps(f[3]), cfgTarget(c, v))
		if err != nil && strings.Contains(err.Error(), "no matching struct") {
			return "nomatch"
		}
		st := "ok "
		if err != nil {
			st = "err "
		}
		return st + cfgValueText(v, fields)
	case "mre":
		// MergeEdgePoints(id, parent, pts, &V) with the id / parent of V ("m"), a foreign id ("i"), a foreign parent ("p"),
		// no parent ("n") or an empty id ("e")
		v := buildCfgValue(t, fields, f[2])
		id, parent := v.Elem().Field(0).String(), v.Elem().Field(1).String()
		switch f[3] {
		case "i":
			id += "-other"
		case "p":
			parent += "-other"
		case "n":
			parent = ""
		case "e":
			id = ""
		}
		err := data.MergeEdgePoints(id, parent, parseCps(f[4]), cfgTarget(c, v))
		if err != nil && strings.Contains(err.Error(), "no matching struct") {
			return "nomatch"
		}
		st := "ok "
		if err != nil {
			st = "err "
		}
		return st + cfgValueText(v, fields)
	case "dm":
		a := buildCfgValue(t, fields, f[2])
		b := buildCfgValue(t, fields, f[3])
		pts, err := data.DiffPoints[any](a.Elem().Interface(), b.Elem().Interface())
		if err != nil {
			return "differr"
		}
		a2 := buildCfgValue(t, fields, f[2])
		id := a2.Elem().Field(0).String()
		err = data.MergePoints(id, pts, a2.Interface())
		if err != nil && strings.Contains(err.Error(), "no matching struct") {
			return cpsStr(pts, true) + " | nomatch"
		}
		st := "ok "
		if err != nil {
			st = "err "
		}
		return cpsStr(pts, true) + " | " + st + cfgValueText(a2, fields)
	}
	panic("cfg: bad case")
}

var cfgKinds = []string{"b", "i8", "i16", "i32", "i64", "i", "u8", "u16", "u32", "u64", "u", "f32", "f64", "s"}
var cfgNames = []string{"value", "description", "a", "ab", "rate", "ip", "loc", "x1", "cfg"}
var cfgSubKeys = []string{"k", "min", "max", "name", "on", "v2"}
var cfgMapKeys = []string{"a", "b", "temp1", "hello", "0", "1", "k9", "ünï", "z z"}

func genCfgType(r *rand.Rand) string {
	n := 1 + r.Intn(4)
	used := map[string]bool{}
	var fs []string
	for i := 0; i < n; i++ {
		name := pick(r, cfgNames)
		tag := "p"
		if r.Intn(5) == 0 {
			tag = "e"
		}
		if used[tag+name] {
			continue
		}
		used[tag+name] = true
		k := pick(r, cfgKinds)
		var fty string
		switch r.Intn(9) {
		case 0, 1:
			fty = "S" + k
		case 2:
			fty = "P" + k
		case 3, 4:
			fty = "L" + k
		case 5:
			fty = fmt.Sprintf("A%d_%s", pick(r, []int{0, 1, 2, 3, 5}), k)
		case 6:
			fty = "M" + k
		default:
			m := 1 + r.Intn(3)
			usedK := map[string]bool{}
			var subs []string
			for j := 0; j < m; j++ {
				sk := pick(r, cfgSubKeys)
				if r.Intn(4) == 0 {
					// an inner field WITHOUT a point tag: its key is the camel-cased Go field name ("^" + name)
					name := pick(r, []string{"Count", "MAXValue", "URL", "Xy", "IPAddr"})
					if usedK[data.ToCamelCase(name)] {
						continue
					}
					usedK[data.ToCamelCase(name)] = true
					subs = append(subs, "^"+hxs(name)+"="+pick(r, cfgKinds))
					continue
				}
				if usedK[sk] {
					continue
				}
				usedK[sk] = true
				subs = append(subs, hxs(sk)+"="+pick(r, cfgKinds))
			}
			kind := "T"
			if r.Intn(2) == 0 {
				kind = "Q"
			}
			fty = kind + strings.Join(subs, "+")
		}
		fs = append(fs, fmt.Sprintf("%s:%s:%s", tag, hxs(name), fty))
	}
	return strings.Join(fs, "/")
}

func genScalarText(r *rand.Rand, k string, wide bool) string {
	switch {
	case k == "b":
		return fmt.Sprint(r.Intn(2))
	case k == "s":
		return hxs(pick(r, []string{"", "x", "hello", "a\x00b", "\xff", "ünï", "0"}))
	case k == "f64":
		return fmt.Sprint(math.Float64bits(pick(r, []float64{0, 1, -1, 0.5, 1e300, -2.5e-7, 5e-324, math.MaxFloat64, float64(r.Intn(1000)), r.NormFloat64()})))
	case k == "f32":
		return fmt.Sprint(math.Float32bits(pick(r, []float32{0, 1, -1, 0.5, 3.4e38, 1e-45, float32(r.Intn(1000)), float32(r.NormFloat64())})))
	}
	bits := map[string]uint{"i8": 8, "i16": 16, "i32": 32, "i64": 64, "i": 64, "u8": 8, "u16": 16, "u32": 32, "u64": 64, "u": 64}[k]
	if k[0] == 'u' {
		max := uint64(math.MaxUint64)
		if bits < 64 {
			max = 1<<bits - 1
		}
		c := []uint64{0, 1, 2, 255, max, max / 2, uint64(r.Intn(100000))}
		if bits == 64 {
			c = []uint64{0, 1, 1<<53 - 1, 1<<53 - 2, uint64(r.Intn(100000)), uint64(r.Int63n(1 << 53))}
			if wide {
				c = append(c, 1<<53, 1<<53+1, math.MaxUint64, 1<<63)
			}
		}
		v := pick(r, c)
		if v > max {
			v = max
		}
		return fmt.Sprint(v)
	}
	min, max := int64(-1)<<(bits-1), int64(1)<<(bits-1)-1
	c := []int64{0, 1, -1, 127, -128, max, min, int64(r.Intn(100000)) - 50000}
	if bits == 64 {
		c = []int64{0, 1, -1, 1<<53 - 1, -(1<<53 - 1), int64(r.Intn(100000)) - 50000, r.Int63n(1<<53) - 1<<52}
		if wide {
			c = append(c, 1<<53, -(1 << 53), math.MaxInt64, math.MinInt64)
		}
	}
	v := pick(r, c)
	if v > max {
		v = max
	}
	if v < min {
		v = min
	}
	return fmt.Sprint(v)
}

func genCfgValue(r *rand.Rand, fields []cfgField, wide bool) string {
	parts := []string{hxs(pick(r, []string{"n1", "ID-TC", "x"})), hxs(pick(r, []string{"", "p1"}))}
	for _, f := range fields {
		switch f.kind {
		case 'S':
			parts = append(parts, genScalarText(r, f.k, wide))
		case 'P':
			if r.Intn(3) == 0 {
				parts = append(parts, "~")
			} else {
				parts = append(parts, genScalarText(r, f.k, wide))
			}
		case 'L':
			n := pick(r, []int{0, 0, 1, 2, 3, 5, 9})
			if wide && r.Intn(12) == 0 {
				n = pick(r, []int{999, 1000, 1001})
			}
			var it []string
			for j := 0; j < n; j++ {
				it = append(it, genScalarText(r, f.k, wide))
			}
			parts = append(parts, "L("+strings.Join(it, "+")+")")
		case 'A':
			var it []string
			for j := 0; j < f.n; j++ {
				it = append(it, genScalarText(r, f.k, wide))
			}
			parts = append(parts, "L("+strings.Join(it, "+")+")")
		case 'M':
			n := r.Intn(4)
			used := map[string]bool{}
			var it []string
			for j := 0; j < n; j++ {
				k := pick(r, cfgMapKeys)
				if wide && r.Intn(15) == 0 {
					k = ""
				}
				if used[k] {
					continue
				}
				used[k] = true
				it = append(it, hxs(k)+"="+genScalarText(r, f.k, wide))
			}
			parts = append(parts, "M("+strings.Join(it, "+")+")")
		case 'T', 'Q':
			if f.kind == 'Q' && r.Intn(3) == 0 {
				parts = append(parts, "~")
				continue
			}
			var it []string
			for _, s := range f.sub {
				it = append(it, genScalarText(r, s.k, wide))
			}
			parts = append(parts, "T("+strings.Join(it, "+")+")")
		}
	}
	return strings.Join(parts, "/")
}

func genBigMap(r *rand.Rand, f cfgField, off, n int) string {
	var it []string
	for j := 0; j < n; j++ {
		it = append(it, hxs(fmt.Sprintf("k%d", off+j))+"="+genScalarText(r, f.k, false))
	}
	return "M(" + strings.Join(it, "+") + ")"
}

func genBigSlice(r *rand.Rand, f cfgField, n int) string {
	var it []string
	for j := 0; j < n; j++ {
		it = append(it, genScalarText(r, f.k, false))
	}
	return "L(" + strings.Join(it, "+") + ")"
}

func c10Gen(r *rand.Rand, n int, tier string) []string {
	var out []string
	for i := 0; i < n; i++ {
		T := genCfgType(r)
		fields := parseCfgType(T)
		wide := r.Intn(6) == 0 // separate stream: values outside the supported universe (limits, empty map keys)
		if r.Intn(8) == 0 {
			// child lists: 1-2 child fields with distinct node types, 0-5 children in any order, sometimes one of a type
			// that no field asks for
			ctypes := []string{"condition", "action", "shellyIo"}
			r.Shuffle(len(ctypes), func(a, b int) { ctypes[a], ctypes[b] = ctypes[b], ctypes[a] })
			nk := 1 + r.Intn(2)
			var kdesc []string
			var kfields [][]cfgField
			for j := 0; j < nk; j++ {
				kt := genCfgType(r)
				kdesc = append(kdesc, hxs(ctypes[j])+"@"+kt)
				kfields = append(kfields, parseCfgType(kt))
			}
			var ch []string
			for j := 0; j < r.Intn(6); j++ {
				w := r.Intn(nk)
				ct := ctypes[w]
				if r.Intn(7) == 0 {
					ct, w = "zz", 0
				}
				ch = append(ch, hxs(ct)+"@"+genCfgValue(r, kfields[w], false))
			}
			chs := "-"
			if len(ch) > 0 {
				chs = strings.Join(ch, ",")
			}
			out = append(out, fmt.Sprintf("rtc %s %s %s %s", T, genCfgValue(r, fields, false), strings.Join(kdesc, ";"), chs))
			continue
		}
		switch r.Intn(6) {
		case 0:
			out = append(out, fmt.Sprintf("enc %s %s", T, genCfgValue(r, fields, wide)))
		case 1, 2:
			out = append(out, fmt.Sprintf("rt %s %s", T, genCfgValue(r, fields, wide)))
		default:
			a := genCfgValue(r, fields, false)
			b := genCfgValue(r, fields, false)
			// same id / parent and same edge fields (DiffPoints only compares point fields)
			pa, pb := strings.Split(a, "/"), strings.Split(b, "/")
			pb[0], pb[1] = pa[0], pa[1]
			for j, f := range fields {
				if f.edge || r.Intn(3) == 0 {
					pb[2+j] = pa[2+j]
				}
			}
			if r.Intn(120) == 0 {
				// containers near the documented limit of 1000 elements: a map whose entries are largely replaced
				// (more diff points than entries), a slice that grows or shrinks by hundreds of elements
				for j, f := range fields {
					if f.edge {
						continue
					}
					switch f.kind {
					case 'M':
						na, nb := pick(r, []int{400, 600, 1000}), pick(r, []int{400, 600, 1000})
						off := pick(r, []int{0, 300, 1000})
						pa[2+j] = genBigMap(r, f, 0, na)
						pb[2+j] = genBigMap(r, f, off, nb)
					case 'L':
						pa[2+j] = genBigSlice(r, f, pick(r, []int{0, 3, 700, 1000}))
						pb[2+j] = genBigSlice(r, f, pick(r, []int{0, 3, 700, 1000}))
					}
				}
				a = strings.Join(pa, "/")
			}
			out = append(out, fmt.Sprintf("dm %s %s %s", T, a, strings.Join(pb, "/")))
		}
	}
	return out
}

func genHostilePoints(r *rand.Rand, fields []cfgField, edge bool) string {
	keys := []string{"", "0", "1", "2", "3", "7", "-1", "+3", "007", "1e3", "99999999999999999999", "1000", "1001", "abc", " 1", "k", "min", "a", "temp1", "9223372036854775807", "-0"}
	vals := []float64{0, 1, -1, 2, 0.5, 255, 256, 65535, 65536, -129, 1e10, 1e19, 1e20, -1e19, 9.2233720368547758e18, 1.8446744073709552e19, math.Inf(1), math.Inf(-1), math.NaN(), 5e-324, 3.5e38}
	n := r.Intn(6)
	var ps []string
	for i := 0; i < n; i++ {
		var typ string
		if len(fields) > 0 && r.Intn(5) != 0 {
			f := pick(r, fields)
			typ = f.ptype
			if f.edge != edge && r.Intn(2) == 0 {
				continue
			}
		} else {
			typ = pick(r, []string{"undeclared", "", "zzz"})
		}
		tomb := pick(r, []int{0, 0, 0, 1, 1, 2, 3, -1, -2, 1 << 31})
		p := data.Point{Type: typ, Key: pick(r, keys), Value: pick(r, vals), Text: pick(r, []string{"", "t", "\xff"}), Tombstone: tomb}
		ps = append(ps, cpStr(p))
	}
	if len(ps) == 0 {
		return "-"
	}
	return strings.Join(ps, ";")
}

// cfgTarget: the three forms in which the API takes the struct to fill — a pointer to it, a reflect.Value of it, a
// pointer to such a reflect.Value — chosen by the case text, so that every form is exercised with every kind of case
func cfgTarget(c string, v reflect.Value) interface{} {
	switch len(c) % 3 {
	case 1:
		return v.Elem()
	case 2:
		sv := v.Elem()
		return &sv
	}
	return v.Interface()
}

func c11Gen(r *rand.Rand, n int, tier string) []string {
	var out []string
	for i := 0; i < n; i++ {
		T := genCfgType(r)
		fields := parseCfgType(T)
		v := genCfgValue(r, fields, false)
		if k := r.Intn(8); k < 2 {
			out = append(out, fmt.Sprintf("mrg %s %s %s", T, v, genHostilePoints(r, fields, false)))
		} else if k == 2 {
			out = append(out, fmt.Sprintf("mre %s %s %s %s", T, v, pick(r, []string{"m", "m", "i", "p", "n", "e"}), genHostilePoints(r, fields, true)))
		} else {
			out = append(out, fmt.Sprintf("dec %s %s %s %s", T, v, genHostilePoints(r, fields, false), genHostilePoints(r, fields, true)))
		}
	}
	return out
}
