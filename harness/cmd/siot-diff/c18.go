package main

import (
	"fmt"
	"math/rand"
	"sort"
	"strconv"
	"strings"

	"github.com/simpleiot/simpleiot/modbus"
)

// C18 case: <regs> <fc> <dataHex>
//   regs = "-" | addr:val:v,... with v = n (no validator) | l<N> (value < N) | e (even) | x (reject all)
// observation: "<outcome> | <regs after>"  outcome = N <fc> <dataHex> | E <fc> <code> | T | ERR <msg>

func init() { register("C18", &Prop{Gen: c18Gen, Run: c18Run}) }

type regSpec struct {
	addr, val int
	v         string
}

func parseRegs(s string) []regSpec {
	var out []regSpec
	for _, x := range splitList(s) {
		f := strings.Split(x, ":")
		out = append(out, regSpec{int(atoi64(f[0])), int(atoi64(f[1])), f[2]})
	}
	return out
}

func buildRegs(specs []regSpec) *modbus.Regs {
	regs := &modbus.Regs{}
	// the map is built the way applications build it: some registers one by one, then whole runs of consecutive addresses
	// with one AddReg(start, count) each — runs that overlap registers already there
	addrs := map[int]bool{}
	for _, rs := range specs {
		addrs[rs.addr] = true
	}
	for i, rs := range specs {
		if i%3 == 1 {
			regs.AddReg(rs.addr, 1)
		}
	}
	for _, rs := range specs {
		if !addrs[rs.addr-1] {
			cnt := 1
			for addrs[rs.addr+cnt] {
				cnt++
			}
			regs.AddReg(rs.addr, cnt)
		}
	}
	for _, rs := range specs {
		_ = regs.WriteReg(rs.addr, uint16(rs.val))
	}
	for _, rs := range specs {
		switch {
		case rs.v == "e":
			_ = regs.AddRegValueValidator(rs.addr, func(v uint16) bool { return v%2 == 0 })
		case rs.v == "x":
			_ = regs.AddRegValueValidator(rs.addr, func(v uint16) bool { return false })
		case strings.HasPrefix(rs.v, "l"):
			n := uint16(atoi64(rs.v[1:]))
			_ = regs.AddRegValueValidator(rs.addr, func(v uint16) bool { return v < n })
		}
	}
	return regs
}

func regsStr(regs *modbus.Regs, specs []regSpec) string {
	var out []string
	seen := map[int]bool{}
	for _, rs := range specs {
		if seen[rs.addr] {
			continue
		}
		seen[rs.addr] = true
		v, err := regs.ReadReg(rs.addr)
		if err != nil {
			out = append(out, fmt.Sprintf("%d:?", rs.addr))
		} else {
			out = append(out, fmt.Sprintf("%d:%d", rs.addr, v))
		}
	}
	sort.Slice(out, func(i, j int) bool {
		a, _ := strconv.Atoi(strings.Split(out[i], ":")[0])
		b, _ := strconv.Atoi(strings.Split(out[j], ":")[0])
		return a < b
	})
	return joinList(out)
}

func c18Run(c string) (obs string) {
	f := strings.Fields(c)
	specs := parseRegs(f[0])
	regs := buildRegs(specs)
	pdu := modbus.PDU{FunctionCode: modbus.FunctionCode(atoi64(f[1])), Data: unhx(f[2])}
	if pdu.Data == nil {
		pdu.Data = []byte{}
	}
	defer func() {
		if r := recover(); r != nil {
			obs = "PANIC " + strings.ReplaceAll(fmt.Sprint(r), "\n", " ") + " | " + regsStr(regs, specs)
		}
	}()
	_, resp, err := pdu.ProcessRequest(regs)
	var o string
	switch {
	case err != nil && strings.Contains(err.Error(), "not enough data"):
		o = "T"
	case err != nil:
		o = "ERR " + err.Error()
	case resp.FunctionCode&0x80 != 0 && len(resp.Data) == 1:
		o = fmt.Sprintf("E %d %d", resp.FunctionCode, resp.Data[0])
	default:
		o = fmt.Sprintf("N %d %s", resp.FunctionCode, hx(resp.Data))
	}
	return o + " | " + regsStr(regs, specs)
}

func c18Regs(r *rand.Rand) string {
	var specs []string
	add := func(a, v int, k string) { specs = append(specs, fmt.Sprintf("%d:%d:%s", a, v, k)) }
	val := func() int {
		switch r.Intn(4) {
		case 0:
			return 0
		case 1:
			return 0xffff
		}
		return r.Intn(65536)
	}
	vk := func() string {
		switch r.Intn(8) {
		case 0:
			return "e"
		case 1:
			return "x"
		case 2:
			return "l" + strconv.Itoa(r.Intn(70000)%65536)
		}
		return "n"
	}
	switch r.Intn(7) {
	case 0: // empty
	case 1: // dense from 0
		n := pick(r, []int{1, 8, 16, 125, 126, 130})
		for i := 0; i < n; i++ {
			add(i, val(), "n")
		}
	case 2: // dense, with a gap and validators
		base := r.Intn(50)
		n := 2 + r.Intn(12)
		gap := r.Intn(n)
		for i := 0; i < n; i++ {
			if i == gap && r.Intn(2) == 0 {
				continue
			}
			add(base+i, val(), vk())
		}
	case 3: // top of the address space and bottom (wrap-around detection)
		for _, a := range []int{65533, 65534, 65535, 0, 1, 2} {
			if r.Intn(6) != 0 {
				add(a, val(), "n")
			}
		}
	case 4: // coil registers: coils 0..N live in registers 0..N/16
		n := 1 + r.Intn(130)
		for i := 0; i < n; i++ {
			add(i, val(), "n")
		}
		if r.Intn(3) == 0 {
			specs[r.Intn(len(specs))] = fmt.Sprintf("%d:%d:%s", r.Intn(n), val(), vk())
		}
	case 5: // top coil registers 4090..4095
		for a := 4090; a <= 4095; a++ {
			add(a, val(), "n")
		}
		add(0, val(), "n")
	default: // sparse
		n := 1 + r.Intn(6)
		for i := 0; i < n; i++ {
			add(r.Intn(40), val(), vk())
		}
	}
	return joinList(specs)
}

func be(v int) []byte { return []byte{byte(v >> 8), byte(v)} }

func c18Gen(r *rand.Rand, n int, tier string) []string {
	var out []string
	qty := func(limit int) int {
		return pick(r, []int{0, 1, 2, 7, 8, 9, 15, 16, 17, limit - 1, limit, limit + 1, 2040, 2041, 32767, 32768, 65535, 1 + r.Intn(20), 1 + r.Intn(limit)})
	}
	adr := func() int {
		return pick(r, []int{0, 1, 2, r.Intn(60), r.Intn(60), r.Intn(2100), 65535, 65534, 65530, 65536 - 125, 65536 - 2000, r.Intn(65536)})
	}
	for i := 0; i < n; i++ {
		regs := c18Regs(r)
		var fc int
		var d []byte
		switch r.Intn(12) {
		case 0, 1:
			fc = 1 + r.Intn(2)
			d = append(be(adr()), be(qty(2000))...)
		case 2, 3:
			fc = 3 + r.Intn(2)
			d = append(be(adr()), be(qty(125))...)
		case 4:
			fc = 5
			d = append(be(adr()), be(pick(r, []int{0, 0xff00, 0xff00, 0x00ff, 1, 0xffff, r.Intn(65536)}))...)
		case 5:
			fc = 6
			d = append(be(adr()), be(pick(r, []int{0, 1, 2, 3, 0xffff, r.Intn(65536)}))...)
		case 6:
			fc = 15
			q := qty(1968)
			nb := (q + 7) / 8
			if nb > 300 {
				nb = 300
			}
			bc := nb
			switch r.Intn(6) {
			case 0:
				bc = nb + 1
			case 1:
				nb++
			case 2:
				if nb > 0 {
					nb--
				}
			}
			d = append(append(be(adr()), be(q)...), byte(bc))
			for k := 0; k < nb; k++ {
				d = append(d, byte(r.Intn(256)))
			}
		case 7:
			fc = 16
			q := qty(123)
			nb := q * 2
			if nb > 300 {
				nb = 300
			}
			bc := nb
			switch r.Intn(6) {
			case 0:
				bc = nb + 1
			case 1:
				nb++
			case 2:
				if nb > 0 {
					nb--
				}
			}
			d = append(append(be(adr()), be(q)...), byte(bc))
			for k := 0; k < nb; k++ {
				d = append(d, byte(r.Intn(256)))
			}
		case 8: // any function code, random data
			fc = r.Intn(256)
			d = make([]byte, r.Intn(14))
			r.Read(d)
		case 9: // truncated structured request
			fc = pick(r, []int{1, 2, 3, 4, 5, 6, 15, 16, 22, 23, 24})
			d = make([]byte, r.Intn(8))
			r.Read(d)
		default: // small in-range requests on the map (the common case)
			fc = pick(r, []int{1, 2, 3, 4})
			d = append(be(r.Intn(20)), be(1+r.Intn(12))...)
		}
		out = append(out, fmt.Sprintf("%s %d %s", regs, fc, hx(d)))
	}
	return out
}
