package main

import (
	"fmt"
	"sort"
	"strings"
	"sync"
	"time"

	"github.com/nats-io/nats.go"
	"github.com/simpleiot/simpleiot/client"
	"github.com/simpleiot/simpleiot/data"
)

// An instrumented client type, registered through the public client.NewManager (C07, C08).
// The node type is derived from the Go type name: "vdev"; its children of type "vchild" are part of its
// configuration.

type Vchild struct {
	ID          string  `node:"id"`
	Parent      string  `node:"parent"`
	Description string  `point:"description"`
	Value       float64 `point:"value"`
}

type Vdev struct {
	ID          string            `node:"id"`
	Parent      string            `node:"parent"`
	Description string            `point:"description"`
	Value       float64           `point:"value"`
	Levels      []float64         `point:"level"`
	Tags        map[string]string `point:"tag"`
	Role        string            `edgepoint:"role"`
	Children    []Vchild          `child:"vchild"`
}

// vlog records, in order, every life-cycle event and callback of every instrumented client.
type vlog struct {
	mu      sync.Mutex
	entries []vEntry
	running map[string]int // key -> number of clients currently inside Run
	overlap []string       // keys for which two clients ran at the same time
	seq     int
	clients []*vClient
	// construction gate (C08 race cases): the constructor of the client with this key announces itself
	// on entered and waits for release
	current map[string]*vClient // key -> the client currently inside Run
	gateKey string
	entered chan string
	release chan struct{}
	// clients take this long to leave Run after Stop (C07: the manager must wait for them before it starts a
	// successor for the same placement or returns from its own Run)
	slowStopMs int
}

type vEntry struct {
	key  string // parent-id
	inst int    // instance number of the client (construction order)
	what string
}

func (l *vlog) add(key string, inst int, what string) {
	l.mu.Lock()
	l.entries = append(l.entries, vEntry{key, inst, what})
	l.mu.Unlock()
}

func (l *vlog) snapshot() []vEntry {
	l.mu.Lock()
	defer l.mu.Unlock()
	return append([]vEntry(nil), l.entries...)
}

type vClient struct {
	log    *vlog
	key    string
	inst   int
	mu     sync.Mutex
	cfg    Vdev
	stop   chan struct{}
	once   sync.Once
	slowMs int
}

func vChildrenStr(cfg Vdev) string {
	var ids []string
	for _, c := range cfg.Children {
		ids = append(ids, c.ID)
	}
	sort.Strings(ids)
	return strings.Join(ids, "+")
}

func newVClientCtor(l *vlog) func(nc *nats.Conn, cfg Vdev) client.Client {
	return func(_ *nats.Conn, cfg Vdev) client.Client {
		l.mu.Lock()
		l.seq++
		inst := l.seq
		gate := l.gateKey != "" && l.gateKey == cfg.Parent+"-"+cfg.ID
		if gate {
			l.gateKey = ""
		}
		l.mu.Unlock()
		if gate {
			l.entered <- cfg.Parent + "-" + cfg.ID
			<-l.release
		}
		c := &vClient{log: l, key: cfg.Parent + "-" + cfg.ID, inst: inst, cfg: cfg, stop: make(chan struct{}), slowMs: l.slowStopMs}
		l.mu.Lock()
		l.clients = append(l.clients, c)
		l.mu.Unlock()
		l.add(c.key, inst, fmt.Sprintf("new:%s:%s", hxs(cfg.Description), vChildrenStr(cfg)))
		return c
	}
}

func (c *vClient) Run() error {
	c.log.mu.Lock()
	if c.log.running == nil {
		c.log.running = map[string]int{}
	}
	c.log.running[c.key]++
	if c.log.current == nil {
		c.log.current = map[string]*vClient{}
	}
	c.log.current[c.key] = c
	if c.log.running[c.key] > 1 {
		c.log.overlap = append(c.log.overlap, c.key)
	}
	c.log.mu.Unlock()
	c.log.add(c.key, c.inst, "run")
	<-c.stop
	if c.slowMs > 0 {
		time.Sleep(time.Duration(c.slowMs) * time.Millisecond)
	}
	c.log.mu.Lock()
	c.log.running[c.key]--
	if c.log.current[c.key] == c {
		delete(c.log.current, c.key)
	}
	c.log.mu.Unlock()
	c.log.add(c.key, c.inst, "exit")
	return nil
}

func (c *vClient) Stop(error) { c.once.Do(func() { close(c.stop) }) }

func vPts(pts []data.Point) string {
	var s []string
	for _, p := range pts {
		s = append(s, ptStr(p))
	}
	return joinListSep(s, "+")
}

func (c *vClient) Points(id string, pts []data.Point) {
	c.mu.Lock()
	_ = data.MergePoints(id, pts, &c.cfg)
	c.mu.Unlock()
	c.log.add(c.key, c.inst, "P:"+hxs(id)+":"+vPts(pts))
}

func (c *vClient) EdgePoints(id, parent string, pts []data.Point) {
	c.mu.Lock()
	_ = data.MergeEdgePoints(id, parent, pts, &c.cfg)
	c.mu.Unlock()
	c.log.add(c.key, c.inst, "E:"+hxs(id)+":"+hxs(parent)+":"+vPts(pts))
}

func (c *vClient) config() Vdev {
	c.mu.Lock()
	defer c.mu.Unlock()
	return c.cfg
}

// vCfgStr is a canonical rendering of a configuration (children sorted by id).
func vCfgStr(cfg Vdev) string {
	ch := append([]Vchild(nil), cfg.Children...)
	sort.Slice(ch, func(i, j int) bool { return ch[i].ID < ch[j].ID })
	var cs []string
	for _, c := range ch {
		cs = append(cs, fmt.Sprintf("%s(%q,%v)", c.ID, c.Description, c.Value))
	}
	var tags []string
	for k, v := range cfg.Tags {
		tags = append(tags, k+"="+v)
	}
	sort.Strings(tags)
	return fmt.Sprintf("desc=%q value=%v levels=%v tags=%v role=%q children=%v", cfg.Description, cfg.Value, cfg.Levels, tags, cfg.Role, cs)
}

// vStoreCfg decodes what the store holds for a node (with its children) into the client's configuration type.
func vStoreCfg(nc *nats.Conn, parent, id string) (Vdev, error) {
	var cfg Vdev
	nodes, err := client.GetNodes(nc, parent, id, "", false)
	if err != nil || len(nodes) < 1 {
		return cfg, fmt.Errorf("node not found: %v", err)
	}
	children, err := client.GetNodes(nc, id, "all", "", false)
	if err != nil {
		return cfg, err
	}
	nec := data.NodeEdgeChildren{NodeEdge: nodes[0]}
	for _, c := range children {
		nec.Children = append(nec.Children, data.NodeEdgeChildren{NodeEdge: c})
	}
	err = data.Decode(nec, &cfg)
	return cfg, err
}
