package main

import (
	"fmt"
	"math/rand"
	"sort"
	"strings"
	"time"

	"github.com/nats-io/nats.go"
	"github.com/simpleiot/simpleiot/client"
	"github.com/simpleiot/simpleiot/data"
)

// C02 case: "tok;tok;..." with  a:<op>  (store op on the downstream instance A),  b:<op>  (on the upstream B),
// s  (one catch-up pass of the sync client for the case's group G: client.VerifSyncOnce, no real-time forwarding).
// Everything lives under a per-case group G below A's root device RA (which B holds below its root RB).
// observation:  <op results> ## A=<dump of G's subtree on A> ## B=<dump on B>
//   dump = pre-order, deleted nodes included:  d,id,type,parent[points][edge points]; points as
//   type,key,valueBits,text,T<index of the token during which the time was taken>,tombstone,data sorted by type,key

var c02A, c02B *busServer
var c02Local, c02Remote *nats.Conn
var c02Cases int

func init() {
	register("C02", &Prop{Gen: c02Gen, Run: c02Run, Init: c02Start, Done: c02Stop})
}

func c02Start() {
	var err error
	if c02A, err = busStart("RA", "", nil); err != nil {
		panic("C02: " + err.Error())
	}
	if c02B, err = busStart("RB", "", nil); err != nil {
		panic("C02: " + err.Error())
	}
	if c02Local, err = nats.Connect(c02A.opts.NatsServer, nats.NoEcho(), nats.Timeout(5*time.Second)); err != nil {
		panic(err)
	}
	if c02Remote, err = nats.Connect(c02B.opts.NatsServer, nats.NoEcho(), nats.Timeout(5*time.Second)); err != nil {
		panic(err)
	}
	// make the downstream device known upstream (first catch-up of a fresh link)
	if err := client.VerifSyncOnce(c02A.nc, c02Local, c02Remote, "verif-sync", "root", "RA"); err != nil {
		panic("C02 initial sync: " + err.Error())
	}
}

func c02Stop() {
	for _, c := range []*nats.Conn{c02Local, c02Remote} {
		if c != nil {
			c.Close()
		}
	}
	c02Local, c02Remote = nil, nil
	if c02A != nil {
		c02A.stop()
		c02A = nil
	}
	if c02B != nil {
		c02B.stop()
		c02B = nil
	}
}

func c02ID(prefix, id string) string {
	switch id {
	case "RA", "RB", "root", "", "none":
		return id
	}
	return prefix + id
}

// c02Starts holds the wall-clock start of every token of the running case: a time stamp is reported as
// the index of the token during which it was taken (the model uses logical times with the same order).
var c02Starts []int64

func c02PtStr(p data.Point) string {
	t := fmt.Sprint(p.Time.UnixNano())
	for j := len(c02Starts) - 1; j >= 0; j-- {
		if p.Time.UnixNano() >= c02Starts[j] {
			t = fmt.Sprintf("T%d", j)
			break
		}
	}
	return fmt.Sprintf("%s,%s,%s,%s,%s,%d,%s", hxs(p.Type), hxs(p.Key), valStr(p.Value), hxs(p.Text), t, p.Tombstone, hx(p.Data))
}

func c02Dump(nc *nats.Conn, prefix string) string {
	var out []string
	var walk func(parent, id string, d int)
	seen := 0
	walk = func(parent, id string, d int) {
		seen++
		if d > 10 || seen > 400 {
			return
		}
		nodes, err := client.GetNodes(nc, parent, id, "", true)
		if err != nil {
			out = append(out, "ERR "+strings.ReplaceAll(err.Error(), " ", "_"))
			return
		}
		for _, n := range nodes {
			sp := func(ps data.Points) string {
				c := append(data.Points(nil), ps...)
				sort.SliceStable(c, func(i, j int) bool {
					if c[i].Type != c[j].Type {
						return c[i].Type < c[j].Type
					}
					return c[i].Key < c[j].Key
				})
				var s []string
				for _, p := range c {
					s = append(s, c02PtStr(p))
				}
				return strings.Join(s, "+")
			}
			out = append(out, fmt.Sprintf("%d,%s,%s,%s[%s][%s]", d, hxs(strings.ReplaceAll(n.ID, prefix, "")), hxs(n.Type),
				hxs(strings.ReplaceAll(n.Parent, prefix, "")), sp(n.Points), sp(n.EdgePoints)))
			kids, err := client.GetNodes(nc, n.ID, "all", "", true)
			if err != nil {
				continue
			}
			for _, k := range kids {
				walk(n.ID, k.ID, d+1)
			}
		}
	}
	walk("RA", prefix+"G", 0)
	return joinListSep(out, ";")
}

func c02Run(c string) string {
	c02Cases++
	if c02Cases%150 == 0 {
		oa, ob, ol, or := c02A, c02B, c02Local, c02Remote
		c02Start()
		go func() { ol.Close(); or.Close(); oa.stop(); ob.stop() }()
	}
	prefix := fmt.Sprintf("k%d-", c02Cases)
	c02Starts = nil
	send := func(nc *nats.Conn, op string) string {
		f := strings.Split(op, ":")
		pts := parseSpts(f[len(f)-1])
		for i := range pts { // the points of token j are stamped with the token's start time (+ their index)
			pts[i].Time = time.Unix(0, c02Starts[len(c02Starts)-1]+int64(i))
		}
		var err error
		if f[0] == "np" {
			err = client.SendNodePoints(nc, c02ID(prefix, string(unhx(f[1]))), pts, true)
		} else {
			err = client.SendEdgePoints(nc, c02ID(prefix, string(unhx(f[1]))), c02ID(prefix, string(unhx(f[2]))), pts, true)
		}
		if err != nil {
			return "err"
		}
		return "ok"
	}
	var acc []string
	for _, tok := range strings.Split(strings.Fields(c)[0], ";") {
		now := time.Now().UnixNano()
		if n := len(c02Starts); n > 0 && now <= c02Starts[n-1]+16 {
			now = c02Starts[n-1] + 17
			time.Sleep(time.Microsecond)
		}
		c02Starts = append(c02Starts, now)
		switch {
		case tok == "s":
			err := client.VerifSyncOnce(c02A.nc, c02Local, c02Remote, "verif-sync", "RA", prefix+"G")
			if err != nil {
				acc = append(acc, "serr")
			} else {
				acc = append(acc, "s")
			}
		case strings.HasPrefix(tok, "a:"):
			acc = append(acc, send(c02A.nc, tok[2:]))
		case strings.HasPrefix(tok, "b:"):
			acc = append(acc, send(c02B.nc, tok[2:]))
		default:
			panic("C02: bad token " + tok)
		}
	}
	return strings.Join(acc, ",") + " ## A=" + c02Dump(c02A.nc, prefix) + " ## B=" + c02Dump(c02B.nc, prefix)
}

func c02Gen(r *rand.Rand, n int, tier string) []string {
	var out []string
	for i := 0; i < n; i++ {
		clock := int64(100)
		tick := func() int64 { clock += 2; return clock }
		// a node is created the way client.SendNode does it: a tombstone-0 edge point next to the node type;
		// rarely "bare" (node type only: such an edge has hash 0 and is invisible to the hash comparison)
		nt := func(t string) string {
			if r.Intn(14) == 0 {
				return fmt.Sprintf("%s,-,0,%s,%d,0,-,-", hxs("nodeType"), hxs(t), tick())
			}
			return fmt.Sprintf("%s,-,0,-,%d,0,-,-+%s,-,0,%s,%d,0,-,-", hxs("tombstone"), tick(), hxs("nodeType"), hxs(t), tick())
		}
		tomb := func(v int) string {
			return fmt.Sprintf("%s,-,%s,-,%d,0,-,-", hxs("tombstone"), valStr(float64(v)), tick())
		}
		pt := func() string {
			return fmt.Sprintf("%s,%s,%s,%s,%d,%d,-,-", hxs(pick(r, []string{"value", "description", "level"})), hxs(pick(r, []string{"", "0", "1"})),
				valStr(float64(r.Intn(9))), hxs(pick(r, []string{"", "x", "y"})), tick(), pick(r, []int{0, 0, 0, 0, 0, 1, 2}))
		}
		var toks []string
		parentOf := map[string]string{"G": "RA"}
		nodes := []string{"G"}
		toks = append(toks, "a:ep:"+hxs("G")+":"+hxs("RA")+":"+nt("group"))
		// shared base, built downstream
		for k := 1; k <= 1+r.Intn(4); k++ {
			id := fmt.Sprintf("n%d", k)
			par := pick(r, nodes)
			toks = append(toks, "a:ep:"+hxs(id)+":"+hxs(par)+":"+nt(pick(r, []string{"device", "group", "variable"})))
			parentOf[id] = par
			nodes = append(nodes, id)
			if r.Intn(2) == 0 {
				toks = append(toks, "a:np:"+hxs(id)+":"+pt())
			}
		}
		mirror := false
		if len(nodes) > 3 && r.Intn(5) == 0 { // a node reachable by two paths
			a, b := nodes[len(nodes)-1], nodes[1]
			if a != b && parentOf[a] != b && parentOf[b] != a {
				toks = append(toks, "a:ep:"+hxs(a)+":"+hxs(b)+":"+nt("device"))
				mirror = true
			}
		}
		_ = mirror
		toks = append(toks, "s", "s")
		// divergence while the link is down
		fresh := 0
		for s := 0; s < 1+r.Intn(6); s++ {
			side := pick(r, []string{"a", "b"})
			target := pick(r, nodes)
			switch k := r.Intn(12); {
			case k < 6:
				toks = append(toks, side+":np:"+hxs(target)+":"+pt())
			case k < 7:
				toks = append(toks, side+":ep:"+hxs(target)+":"+hxs(parentOf[target])+":"+fmt.Sprintf("%s,-,%s,%s,%d,0,-,-", hxs("role"), valStr(float64(r.Intn(3))), hxs("r"), tick()))
			case k < 9: // a node created on one side only, sometimes with a child and points
				fresh++
				id := fmt.Sprintf("%s%d", side, fresh)
				toks = append(toks, side+":ep:"+hxs(id)+":"+hxs(target)+":"+nt("device"))
				parentOf[id] = target
				if r.Intn(2) == 0 {
					toks = append(toks, side+":np:"+hxs(id)+":"+pt())
				}
				if r.Intn(3) == 0 {
					toks = append(toks, side+":ep:"+hxs(id+"c")+":"+hxs(id)+":"+nt("variable"))
				}
			case k < 11 && target != "G": // deletion on one side
				toks = append(toks, side+":ep:"+hxs(target)+":"+hxs(parentOf[target])+":"+tomb(1))
			default:
				if target != "G" { // deleted and undeleted, or undelete of something deleted earlier
					toks = append(toks, side+":ep:"+hxs(target)+":"+hxs(parentOf[target])+":"+tomb(pick(r, []int{0, 1})))
				}
			}
			if r.Intn(6) == 0 {
				toks = append(toks, "s") // a pass in the middle of the history
			}
		}
		toks = append(toks, "s", "s", "s")
		out = append(out, strings.Join(toks, ";"))
	}
	return out
}
