package main

import (
	"fmt"
	"math/rand"
	"sort"
	"strings"
	"time"

	"github.com/nats-io/nats.go"
	"github.com/simpleiot/simpleiot/client"
	"github.com/simpleiot/simpleiot/data"
)

// C02 case: "tok;tok;..." with  a:<op>  (store op on the downstream instance A),  b:<op>  (on the upstream B),
// s  (one catch-up pass of the sync client for the case's group G: client.VerifSyncOnce, no real-time forwarding).
// Everything lives under a per-case group G below A's root device RA (which B holds below its root RB).
// observation:  <op results> ## A=<dump of G's subtree on A> ## B=<dump on B>
//   dump = pre-order, deleted nodes included:  d,id,type,parent[points][edge points]; points as
//   type,key,valueBits,text,T<index of the token during which the time was taken>,tombstone,data sorted by type,key

var c02A, c02B *busServer
var c02Local, c02Remote *nats.Conn
var c02Cases int

func init() {
	register("C02", &Prop{Gen: c02Gen, Run: c02Run, Init: c02Start, Done: c02Stop})
}

func c02Start() {
	caseTimeout = 100 * time.Second // the end-to-end cases wait for the real sync client (period 1 s, reconnects)
	var err error
	if c02A, err = busStart("RA", "", nil); err != nil {
		panic("C02: " + err.Error())
	}
	if c02B, err = busStart("RB", "", nil); err != nil {
		panic("C02: " + err.Error())
	}
	if c02Local, err = nats.Connect(c02A.opts.NatsServer, nats.NoEcho(), nats.Timeout(5*time.Second)); err != nil {
		panic(err)
	}
	if c02Remote, err = nats.Connect(c02B.opts.NatsServer, nats.NoEcho(), nats.Timeout(5*time.Second)); err != nil {
		panic(err)
	}
	// make the downstream device known upstream (first catch-up of a fresh link)
	if err := client.VerifSyncOnce(c02A.nc, c02Local, c02Remote, "verif-sync", "root", "RA"); err != nil {
		panic("C02 initial sync: " + err.Error())
	}
}

func c02Stop() {
	for _, c := range []*nats.Conn{c02Local, c02Remote} {
		if c != nil {
			c.Close()
		}
	}
	c02Local, c02Remote = nil, nil
	if c02A != nil {
		c02A.stop()
		c02A = nil
	}
	if c02B != nil {
		c02B.stop()
		c02B = nil
	}
	for _, b := range []*busServer{c02EA, c02EB} {
		if b != nil {
			b.stop()
		}
	}
	c02EA, c02EB = nil, nil
}

func c02ID(prefix, id string) string {
	switch id {
	case "RA", "RB", "root", "", "none":
		return id
	}
	return prefix + id
}

// c02Starts holds the wall-clock start of every token of the running case: a time stamp is reported as
// the index of the token during which it was taken (the model uses logical times with the same order).
var c02Starts []int64

func c02PtStr(p data.Point) string {
	t := fmt.Sprint(p.Time.UnixNano())
	for j := len(c02Starts) - 1; j >= 0; j-- {
		if p.Time.UnixNano() >= c02Starts[j] {
			t = fmt.Sprintf("T%d", j)
			break
		}
	}
	return fmt.Sprintf("%s,%s,%s,%s,%s,%d,%s", hxs(p.Type), hxs(p.Key), valStr(p.Value), hxs(p.Text), t, p.Tombstone, hx(p.Data))
}

func c02Dump(nc *nats.Conn, prefix string) string {
	var out []string
	var walk func(parent, id string, d int)
	seen := 0
	walk = func(parent, id string, d int) {
		seen++
		if d > 10 || seen > 400 {
			return
		}
		nodes, err := client.GetNodes(nc, parent, id, "", true)
		if noteTmo(err) != nil {
			out = append(out, "ERR "+strings.ReplaceAll(err.Error(), " ", "_"))
			return
		}
		for _, n := range nodes {
			sp := func(ps data.Points) string {
				c := append(data.Points(nil), ps...)
				sort.SliceStable(c, func(i, j int) bool {
					if c[i].Type != c[j].Type {
						return c[i].Type < c[j].Type
					}
					return c[i].Key < c[j].Key
				})
				var s []string
				for _, p := range c {
					s = append(s, c02PtStr(p))
				}
				return strings.Join(s, "+")
			}
			out = append(out, fmt.Sprintf("%d,%s,%s,%s[%s][%s]", d, hxs(strings.ReplaceAll(n.ID, prefix, "")), hxs(n.Type),
				hxs(strings.ReplaceAll(n.Parent, prefix, "")), sp(n.Points), sp(n.EdgePoints)))
			kids, err := client.GetNodes(nc, n.ID, "all", "", true)
			if noteTmo(err) != nil {
				continue
			}
			for _, k := range kids {
				walk(n.ID, k.ID, d+1)
			}
		}
	}
	walk("RA", prefix+"G", 0)
	return joinListSep(out, ";")
}

// ---- end-to-end cases "E;tok;..." : the REAL sync client (client.NewSyncClient under a Manager on the downstream
// instance, period 1 s, real-time forwarding, NATS reconnect handling) between a second pair of instances.
//
//	a:<op> / b:<op>  as above;  x  the upstream instance is stopped and started again on the same file and ports;
//	d / e  the sync node is disabled / enabled;  w  wait until both sides show the same subtree (at most 30 s)
var c02EA, c02EB *busServer

func c02EStart() {
	var err error
	if c02EA, err = busStart("RA", "", func(nc *nats.Conn) []client.RunStop {
		return []client.RunStop{client.NewManager(nc, client.NewSyncClient, nil)}
	}); err != nil {
		panic("C02 E: " + err.Error())
	}
	if c02EB, err = busStart("RB", "", nil); err != nil {
		panic("C02 E: " + err.Error())
	}
	now := time.Now()
	// the node's points first, then the edge that makes it exist: the manager constructs the client from a complete
	// configuration (points written between construction and subscription are the open C08 finding)
	_ = client.SendNodePoints(c02EA.nc, "sy1", data.Points{{Type: data.PointTypeDescription, Text: "e2e", Time: now}, {Type: data.PointTypeURI, Text: c02EB.opts.NatsServer, Time: now},
		{Type: data.PointTypePeriod, Value: 1, Time: now}}, true)
	_ = client.SendEdgePoints(c02EA.nc, "sy1", "RA", data.Points{{Type: data.PointTypeTombstone, Value: 0, Time: now}, {Type: data.PointTypeNodeType, Text: data.NodeTypeSync, Time: now}}, true)
	deadline := time.Now().Add(20 * time.Second)
	for time.Now().Before(deadline) {
		if ns, err := client.GetNodes(c02EB.nc, "all", "RA", "", false); err == nil && len(ns) > 0 {
			return
		}
		time.Sleep(50 * time.Millisecond)
	}
	panic("C02 E: the downstream device never appeared upstream")
}

func c02ERun(c string) string {
	if c02EA == nil {
		c02EStart()
	}
	c02Cases++
	prefix := fmt.Sprintf("e%d-", c02Cases)
	c02Starts = nil
	send := func(nc *nats.Conn, op string) string {
		f := strings.Split(op, ":")
		pts := parseSpts(f[len(f)-1])
		for i := range pts {
			pts[i].Time = time.Unix(0, c02Starts[len(c02Starts)-1]+int64(i))
		}
		var err error
		if f[0] == "np" {
			err = noteTmo(client.SendNodePoints(nc, c02ID(prefix, string(unhx(f[1]))), pts, true))
		} else {
			err = noteTmo(client.SendEdgePoints(nc, c02ID(prefix, string(unhx(f[1]))), c02ID(prefix, string(unhx(f[2]))), pts, true))
		}
		if err != nil {
			return "err"
		}
		return "ok"
	}
	dumpOn := func(b *busServer) string {
		saved := c02A
		_ = saved
		return c02Dump(b.nc, prefix)
	}
	var acc []string
	for _, tok := range strings.Split(strings.Fields(c)[0], ";") {
		now := time.Now().UnixNano()
		if n := len(c02Starts); n > 0 && now <= c02Starts[n-1]+16 {
			now = c02Starts[n-1] + 17
			time.Sleep(time.Microsecond)
		}
		c02Starts = append(c02Starts, now)
		switch {
		case tok == "E":
		case tok == "x":
			o := c02EB.opts
			c02EB.halt()
			nb, err := busStartOpts(o, nil)
			if err != nil {
				return "RESTART " + err.Error()
			}
			c02EB = nb
			acc = append(acc, "x")
		case tok == "d" || tok == "e":
			v := 1.0
			if tok == "e" {
				v = 0
			}
			_ = client.SendNodePoints(c02EA.nc, "sy1", data.Points{{Type: data.PointTypeDisabled, Value: v, Time: time.Now()}}, true)
			acc = append(acc, tok)
		case tok == "w":
			deadline := time.Now().Add(30 * time.Second)
			for time.Now().Before(deadline) {
				a, b := strings.Split(dumpOn(c02EA), ";"), strings.Split(dumpOn(c02EB), ";")
				sort.Strings(a)
				sort.Strings(b)
				if strings.Join(a, ";") == strings.Join(b, ";") && !strings.Contains(a[0], "ERR") {
					break
				}
				time.Sleep(200 * time.Millisecond)
			}
			acc = append(acc, "w")
		case strings.HasPrefix(tok, "a:"):
			acc = append(acc, send(c02EA.nc, tok[2:]))
		case strings.HasPrefix(tok, "b:"):
			acc = append(acc, send(c02EB.nc, tok[2:]))
		default:
			panic("C02 E: bad token " + tok)
		}
	}
	return strings.Join(acc, ",") + " ## A=" + dumpOn(c02EA) + " ## B=" + dumpOn(c02EB)
}

func c02Run(c string) string {
	if strings.HasPrefix(c, "E;") {
		return c02ERun(c)
	}
	c02Cases++
	if c02Cases%150 == 0 {
		oa, ob, ol, or := c02A, c02B, c02Local, c02Remote
		c02Start()
		go func() { ol.Close(); or.Close(); oa.stop(); ob.stop() }()
	}
	prefix := fmt.Sprintf("k%d-", c02Cases)
	c02Starts = nil
	send := func(nc *nats.Conn, op string) string {
		f := strings.Split(op, ":")
		pts := parseSpts(f[len(f)-1])
		for i := range pts { // the points of token j are stamped with the token's start time (+ their index)
			pts[i].Time = time.Unix(0, c02Starts[len(c02Starts)-1]+int64(i))
		}
		var err error
		if f[0] == "np" {
			err = noteTmo(client.SendNodePoints(nc, c02ID(prefix, string(unhx(f[1]))), pts, true))
		} else {
			err = noteTmo(client.SendEdgePoints(nc, c02ID(prefix, string(unhx(f[1]))), c02ID(prefix, string(unhx(f[2]))), pts, true))
		}
		if err != nil {
			return "err"
		}
		return "ok"
	}
	var acc []string
	for _, tok := range strings.Split(strings.Fields(c)[0], ";") {
		now := time.Now().UnixNano()
		if n := len(c02Starts); n > 0 && now <= c02Starts[n-1]+16 {
			now = c02Starts[n-1] + 17
			time.Sleep(time.Microsecond)
		}
		c02Starts = append(c02Starts, now)
		switch {
		case tok == "s":
			err := noteTmo(client.VerifSyncOnce(c02A.nc, c02Local, c02Remote, "verif-sync", "RA", prefix+"G"))
			if err != nil {
				acc = append(acc, "serr")
			} else {
				acc = append(acc, "s")
			}
		case strings.HasPrefix(tok, "a:"):
			acc = append(acc, send(c02A.nc, tok[2:]))
		case strings.HasPrefix(tok, "b:"):
			acc = append(acc, send(c02B.nc, tok[2:]))
		default:
			panic("C02: bad token " + tok)
		}
	}
	return strings.Join(acc, ",") + " ## A=" + c02Dump(c02A.nc, prefix) + " ## B=" + c02Dump(c02B.nc, prefix)
}

// c02EGen: an end-to-end history: a shared base built downstream, then writes and node creations on both sides around a
// link interruption (upstream restarted, or the sync node disabled and enabled again), then wait for convergence.
// No deletions, mirrors or bare nodes here (those are the hash-design findings of the pass-level cases).
func c02EGen(r *rand.Rand, kind int) string {
	clock := int64(100)
	tick := func() int64 { clock += 2; return clock }
	nt := func(t string) string {
		return fmt.Sprintf("%s,-,0,-,%d,0,-,-+%s,-,0,%s,%d,0,-,-", hxs("tombstone"), tick(), hxs("nodeType"), hxs(t), tick())
	}
	pt := func() string {
		return fmt.Sprintf("%s,%s,%s,%s,%d,0,-,-", hxs(pick(r, []string{"value", "description", "level"})), hxs(pick(r, []string{"", "1"})),
			valStr(float64(r.Intn(9))), hxs(pick(r, []string{"", "x", "y"})), tick())
	}
	toks := []string{"E", "a:ep:" + hxs("G") + ":" + hxs("RA") + ":" + nt("group")}
	nodes := []string{"G"}
	for k := 1; k <= 1+r.Intn(3); k++ {
		id := fmt.Sprintf("n%d", k)
		toks = append(toks, "a:ep:"+hxs(id)+":"+hxs(pick(r, nodes))+":"+nt("device"), "a:np:"+hxs(id)+":"+pt())
		nodes = append(nodes, id)
	}
	toks = append(toks, "w")
	writes := func(sides []string) {
		fresh := 0
		for s := 0; s < 1+r.Intn(4); s++ {
			side := pick(r, sides)
			if r.Intn(4) == 0 {
				fresh++
				id := fmt.Sprintf("%s%d%d", side, len(toks), fresh)
				toks = append(toks, side+":ep:"+hxs(id)+":"+hxs(pick(r, nodes))+":"+nt("variable"), side+":np:"+hxs(id)+":"+pt())
			} else {
				toks = append(toks, side+":np:"+hxs(pick(r, nodes))+":"+pt())
			}
		}
	}
	switch kind % 3 {
	case 0: // upstream restarted; before the sync client has reconnected: writes downstream, and upstream a new node
		// WITH a child (a sub-tree created upstream arrives one level per catch-up pass, so more than the one pass made
		// on reconnection is needed); then writes on both sides
		toks = append(toks, "x")
		writes([]string{"a"})
		par := pick(r, nodes)
		toks = append(toks, "b:ep:"+hxs("u1")+":"+hxs(par)+":"+nt("device"), "b:ep:"+hxs("u2")+":"+hxs("u1")+":"+nt("variable"), "b:np:"+hxs("u2")+":"+pt())
		writes([]string{"a", "b"})
	case 1: // sync switched off, both sides diverge, switched on again
		toks = append(toks, "d")
		writes([]string{"a", "b"})
		toks = append(toks, "e")
	default: // no interruption: real-time forwarding and the periodic pass
		writes([]string{"a", "b"})
	}
	toks = append(toks, "w")
	return strings.Join(toks, ";")
}

func c02Gen(r *rand.Rand, n int, tier string) []string {
	var out []string
	ne := 3
	if tier == "thorough" {
		ne = 25
	}
	for i := 0; i < n; i++ {
		if i < ne {
			out = append(out, c02EGen(r, i))
			continue
		}
		clock := int64(100)
		tick := func() int64 { clock += 2; return clock }
		// a node is created the way client.SendNode does it: a tombstone-0 edge point next to the node type;
		// rarely "bare" (node type only: such an edge has hash 0 and is invisible to the hash comparison)
		nt := func(t string) string {
			if r.Intn(14) == 0 {
				return fmt.Sprintf("%s,-,0,%s,%d,0,-,-", hxs("nodeType"), hxs(t), tick())
			}
			return fmt.Sprintf("%s,-,0,-,%d,0,-,-+%s,-,0,%s,%d,0,-,-", hxs("tombstone"), tick(), hxs("nodeType"), hxs(t), tick())
		}
		tomb := func(v int) string {
			return fmt.Sprintf("%s,-,%s,-,%d,0,-,-", hxs("tombstone"), valStr(float64(v)), tick())
		}
		pt := func() string {
			return fmt.Sprintf("%s,%s,%s,%s,%d,%d,-,-", hxs(pick(r, []string{"value", "description", "level"})), hxs(pick(r, []string{"", "0", "1"})),
				valStr(float64(r.Intn(9))), hxs(pick(r, []string{"", "x", "y"})), tick(), pick(r, []int{0, 0, 0, 0, 0, 1, 2}))
		}
		var toks []string
		parentOf := map[string]string{"G": "RA"}
		nodes := []string{"G"}
		toks = append(toks, "a:ep:"+hxs("G")+":"+hxs("RA")+":"+nt("group"))
		// shared base, built downstream
		for k := 1; k <= 1+r.Intn(4); k++ {
			id := fmt.Sprintf("n%d", k)
			par := pick(r, nodes)
			toks = append(toks, "a:ep:"+hxs(id)+":"+hxs(par)+":"+nt(pick(r, []string{"device", "group", "variable"})))
			parentOf[id] = par
			nodes = append(nodes, id)
			if r.Intn(2) == 0 {
				toks = append(toks, "a:np:"+hxs(id)+":"+pt())
			}
		}
		mirror := false
		if len(nodes) > 3 && r.Intn(5) == 0 { // a node reachable by two paths
			a, b := nodes[len(nodes)-1], nodes[1]
			if a != b && parentOf[a] != b && parentOf[b] != a {
				toks = append(toks, "a:ep:"+hxs(a)+":"+hxs(b)+":"+nt("device"))
				mirror = true
			}
		}
		_ = mirror
		toks = append(toks, "s", "s")
		// divergence while the link is down
		fresh := 0
		for s := 0; s < 1+r.Intn(6); s++ {
			side := pick(r, []string{"a", "b"})
			target := pick(r, nodes)
			switch k := r.Intn(12); {
			case k < 6:
				if r.Intn(5) == 0 {
					// one batch with two writes of ONE identity, spelled with key "" and with key "0": the newer one counts
					ty := hxs(pick(r, []string{"value", "level"}))
					p1 := fmt.Sprintf("%s,%s,%s,-,%d,0,-,-", ty, "-", valStr(float64(r.Intn(9))), tick())
					p2 := fmt.Sprintf("%s,%s,%s,-,%d,0,-,-", ty, hxs("0"), valStr(float64(10+r.Intn(9))), tick())
					if r.Intn(2) == 0 {
						p1, p2 = p2, p1
					}
					toks = append(toks, side+":np:"+hxs(target)+":"+p1+"+"+p2)
				} else {
					toks = append(toks, side+":np:"+hxs(target)+":"+pt())
				}
			case k < 7:
				toks = append(toks, side+":ep:"+hxs(target)+":"+hxs(parentOf[target])+":"+fmt.Sprintf("%s,-,%s,%s,%d,0,-,-", hxs("role"), valStr(float64(r.Intn(3))), hxs("r"), tick()))
			case k < 9: // a node created on one side only, sometimes with a child and points
				fresh++
				id := fmt.Sprintf("%s%d", side, fresh)
				toks = append(toks, side+":ep:"+hxs(id)+":"+hxs(target)+":"+nt("device"))
				parentOf[id] = target
				if r.Intn(2) == 0 {
					toks = append(toks, side+":np:"+hxs(id)+":"+pt())
				}
				if r.Intn(3) == 0 {
					toks = append(toks, side+":ep:"+hxs(id+"c")+":"+hxs(id)+":"+nt("variable"))
				}
			case k < 11 && target != "G": // deletion on one side
				toks = append(toks, side+":ep:"+hxs(target)+":"+hxs(parentOf[target])+":"+tomb(1))
			default:
				if target != "G" { // deleted and undeleted, or undelete of something deleted earlier
					toks = append(toks, side+":ep:"+hxs(target)+":"+hxs(parentOf[target])+":"+tomb(pick(r, []int{0, 1})))
				}
			}
			if r.Intn(6) == 0 {
				toks = append(toks, "s") // a pass in the middle of the history
			}
		}
		toks = append(toks, "s", "s", "s")
		out = append(out, strings.Join(toks, ";"))
	}
	return out
}
