package main

import (
	"fmt"
	"math"
	"reflect"
	"sort"
	"strconv"
	"strings"

	"github.com/simpleiot/simpleiot/data"
)

// Dynamic configuration types for C10/C11: a type descriptor in the case line is turned into a
// real Go struct type with reflect.StructOf (exported fields F0.., tags point/edgepoint, plus
// ID `node:"id"` and Parent `node:"parent"`), so that data.Encode/Decode/DiffPoints/MergePoints
// run on genuine structs.
//
// type  = field/field/...        field = <p|e>:<ptypeHex>:<fty>
// fty   = S<k> | P<k> | L<k> | A<n>_<k> | M<k> | T<keyHex>=<k>+... | Q<keyHex>=<k>+...
// k     = b i8 i16 i32 i64 i u8 u16 u32 u64 u f32 f64 s
// value = <idHex>/<parentHex>/fv/fv/...
// fv    = sv | ~ (nil pointer) | L(sv+sv) | M(keyHex=sv+..) | T(sv+sv)
// sv    = 0|1 (bool) | decimal (ints) | decimal bits (floats) | hex (string)

// cfgNamedID: a named string type for id / parent fields
type cfgNamedID string

type cfgField struct {
	edge  bool
	ptype string
	kind  byte // S P L A M T Q
	n     int
	k     string
	sub   []cfgSub
}
type cfgSub struct {
	key  string
	k    string
	name string // Go field name of an inner field without a point tag ("" = tagged with key)
}

var scalarTypes = map[string]reflect.Type{
	"b": reflect.TypeOf(false), "i8": reflect.TypeOf(int8(0)), "i16": reflect.TypeOf(int16(0)), "i32": reflect.TypeOf(int32(0)),
	"i64": reflect.TypeOf(int64(0)), "i": reflect.TypeOf(int(0)), "u8": reflect.TypeOf(uint8(0)), "u16": reflect.TypeOf(uint16(0)),
	"u32": reflect.TypeOf(uint32(0)), "u64": reflect.TypeOf(uint64(0)), "u": reflect.TypeOf(uint(0)),
	"f32": reflect.TypeOf(float32(0)), "f64": reflect.TypeOf(float64(0)), "s": reflect.TypeOf(""),
}

func parseCfgType(s string) []cfgField {
	var out []cfgField
	if s == "-" {
		return out
	}
	for _, fs := range strings.Split(s, "/") {
		p := strings.SplitN(fs, ":", 3)
		f := cfgField{edge: p[0] == "e", ptype: string(unhx(p[1])), kind: p[2][0]}
		rest := p[2][1:]
		switch f.kind {
		case 'S', 'P', 'L', 'M':
			f.k = rest
		case 'A':
			q := strings.SplitN(rest, "_", 2)
			f.n = int(atoi64(q[0]))
			f.k = q[1]
		case 'T', 'Q':
			for _, sub := range strings.Split(rest, "+") {
				kv := strings.SplitN(sub, "=", 2)
				if strings.HasPrefix(kv[0], "^") {
					name := string(unhx(kv[0][1:]))
					f.sub = append(f.sub, cfgSub{key: data.ToCamelCase(name), k: kv[1], name: name})
					continue
				}
				f.sub = append(f.sub, cfgSub{key: string(unhx(kv[0])), k: kv[1]})
			}
		}
		out = append(out, f)
	}
	return out
}

var structCache = map[string]reflect.Type{}

func subStructType(sub []cfgSub) reflect.Type {
	var fs []reflect.StructField
	for i, s := range sub {
		if s.name != "" {
			fs = append(fs, reflect.StructField{Name: s.name, Type: scalarTypes[s.k]})
			continue
		}
		fs = append(fs, reflect.StructField{Name: fmt.Sprintf("G%d", i), Type: scalarTypes[s.k],
			Tag: reflect.StructTag(fmt.Sprintf(`point:%q`, s.key))})
	}
	return reflect.StructOf(fs)
}

func cfgGoType(desc string, fields []cfgField) reflect.Type {
	if t, ok := structCache[desc]; ok {
		return t
	}
	// one type descriptor in three declares its id and parent fields with a NAMED string type (type NodeID string), as
	// application code may: everything that reads them must go by kind, not by the exact type
	idT := reflect.TypeOf("")
	if len(desc)%3 == 0 {
		idT = reflect.TypeOf(cfgNamedID(""))
	}
	fs := []reflect.StructField{
		{Name: "ID", Type: idT, Tag: `node:"id"`},
		{Name: "Parent", Type: idT, Tag: `node:"parent"`},
	}
	for i, f := range fields {
		var t reflect.Type
		switch f.kind {
		case 'S':
			t = scalarTypes[f.k]
		case 'P':
			t = reflect.PointerTo(scalarTypes[f.k])
		case 'L':
			t = reflect.SliceOf(scalarTypes[f.k])
		case 'A':
			t = reflect.ArrayOf(f.n, scalarTypes[f.k])
		case 'M':
			t = reflect.MapOf(reflect.TypeOf(""), scalarTypes[f.k])
		case 'T':
			t = subStructType(f.sub)
		case 'Q':
			t = reflect.PointerTo(subStructType(f.sub))
		}
		tag := "point"
		if f.edge {
			tag = "edgepoint"
		}
		fs = append(fs, reflect.StructField{Name: fmt.Sprintf("F%d", i), Type: t, Tag: reflect.StructTag(fmt.Sprintf(`%s:%q`, tag, f.ptype))})
	}
	t := reflect.StructOf(fs)
	structCache[desc] = t
	return t
}

// child fields (C10 rtc cases): kids = <ctypeHex>@<type>;<ctypeHex>@<type>  ('-' = none). The parent struct gets one more
// field per entry, K<j> []<element struct> `child:"<ctype>"`, after the point fields.
type cfgKid struct {
	ctype  string
	desc   string
	fields []cfgField
}

func parseCfgKids(s string) []cfgKid {
	var out []cfgKid
	if s == "-" || s == "" {
		return out
	}
	for _, ks := range strings.Split(s, ";") {
		p := strings.SplitN(ks, "@", 2)
		out = append(out, cfgKid{ctype: string(unhx(p[0])), desc: p[1], fields: parseCfgType(p[1])})
	}
	return out
}

func cfgGoTypeKids(desc string, fields []cfgField, kdesc string, kids []cfgKid) reflect.Type {
	key := desc + "#" + kdesc
	if t, ok := structCache[key]; ok {
		return t
	}
	base := cfgGoType(desc, fields)
	var fs []reflect.StructField
	for i := 0; i < base.NumField(); i++ {
		fs = append(fs, base.Field(i))
	}
	for j, k := range kids {
		fs = append(fs, reflect.StructField{Name: fmt.Sprintf("K%d", j), Type: reflect.SliceOf(cfgGoType(k.desc, k.fields)),
			Tag: reflect.StructTag(fmt.Sprintf(`child:%q`, k.ctype))})
	}
	t := reflect.StructOf(fs)
	structCache[key] = t
	return t
}

func setScalarText(v reflect.Value, k, s string) {
	switch {
	case k == "b":
		v.SetBool(s == "1")
	case k[0] == 'i':
		v.SetInt(atoi64(s))
	case k[0] == 'u':
		v.SetUint(atou64(s))
	case k == "f32":
		v.SetFloat(float64(math.Float32frombits(uint32(atou64(s)))))
	case k == "f64":
		v.SetFloat(math.Float64frombits(atou64(s)))
	case k == "s":
		v.SetString(string(unhx(s)))
	}
}

func scalarText(v reflect.Value, k string) string {
	switch {
	case k == "b":
		if v.Bool() {
			return "1"
		}
		return "0"
	case k[0] == 'i':
		return strconv.FormatInt(v.Int(), 10)
	case k[0] == 'u':
		return strconv.FormatUint(v.Uint(), 10)
	case k == "f32":
		return strconv.FormatUint(uint64(math.Float32bits(float32(v.Float()))), 10)
	case k == "f64":
		return strconv.FormatUint(math.Float64bits(v.Float()), 10)
	default:
		return hxs(v.String())
	}
}

func splitParen(s string) []string { // "X(a+b)" -> [a b]; "X()" -> []
	in := s[2 : len(s)-1]
	if in == "" {
		return nil
	}
	return strings.Split(in, "+")
}

// buildCfgValue creates a new struct value (pointer) of the dynamic type and fills it from text.
func buildCfgValue(t reflect.Type, fields []cfgField, s string) reflect.Value {
	p := reflect.New(t)
	v := p.Elem()
	parts := strings.Split(s, "/")
	v.Field(0).SetString(string(unhx(parts[0])))
	v.Field(1).SetString(string(unhx(parts[1])))
	for i, f := range fields {
		fv := v.Field(2 + i)
		txt := parts[2+i]
		switch f.kind {
		case 'S':
			setScalarText(fv, f.k, txt)
		case 'P':
			if txt != "~" {
				n := reflect.New(fv.Type().Elem())
				setScalarText(n.Elem(), f.k, txt)
				fv.Set(n)
			}
		case 'L':
			items := splitParen(txt)
			if items != nil {
				sl := reflect.MakeSlice(fv.Type(), len(items), len(items))
				for j, it := range items {
					setScalarText(sl.Index(j), f.k, it)
				}
				fv.Set(sl)
			}
		case 'A':
			for j, it := range splitParen(txt) {
				setScalarText(fv.Index(j), f.k, it)
			}
		case 'M':
			items := splitParen(txt)
			if items != nil {
				m := reflect.MakeMap(fv.Type())
				for _, it := range items {
					kv := strings.SplitN(it, "=", 2)
					e := reflect.New(fv.Type().Elem()).Elem()
					setScalarText(e, f.k, kv[1])
					m.SetMapIndex(reflect.ValueOf(string(unhx(kv[0]))), e)
				}
				fv.Set(m)
			}
		case 'T', 'Q':
			if txt == "~" {
				continue
			}
			dst := fv
			if f.kind == 'Q' {
				n := reflect.New(fv.Type().Elem())
				fv.Set(n)
				dst = n.Elem()
			}
			for j, it := range splitParen(txt) {
				setScalarText(dst.Field(j), f.sub[j].k, it)
			}
		}
	}
	return p
}

func cfgValueText(p reflect.Value, fields []cfgField) string {
	v := p.Elem()
	parts := []string{hxs(v.Field(0).String()), hxs(v.Field(1).String())}
	for i, f := range fields {
		fv := v.Field(2 + i)
		switch f.kind {
		case 'S':
			parts = append(parts, scalarText(fv, f.k))
		case 'P':
			if fv.IsNil() {
				parts = append(parts, "~")
			} else {
				parts = append(parts, scalarText(fv.Elem(), f.k))
			}
		case 'L', 'A':
			var it []string
			for j := 0; j < fv.Len(); j++ {
				it = append(it, scalarText(fv.Index(j), f.k))
			}
			parts = append(parts, "L("+strings.Join(it, "+")+")")
		case 'M':
			var it []string
			iter := fv.MapRange()
			for iter.Next() {
				it = append(it, hxs(iter.Key().String())+"="+scalarText(iter.Value(), f.k))
			}
			sort.Strings(it)
			parts = append(parts, "M("+strings.Join(it, "+")+")")
		case 'T', 'Q':
			src := fv
			if f.kind == 'Q' {
				if fv.IsNil() {
					parts = append(parts, "~")
					continue
				}
				src = fv.Elem()
			}
			var it []string
			for j := range f.sub {
				it = append(it, scalarText(src.Field(j), f.sub[j].k))
			}
			parts = append(parts, "T("+strings.Join(it, "+")+")")
		}
	}
	return strings.Join(parts, "/")
}

// short point form used by C10/C11: typeHex,keyHex,valueBits,textHex,tombstone
func cpStr(p data.Point) string {
	return fmt.Sprintf("%s,%s,%s,%s,%d", hxs(p.Type), hxs(p.Key), valStr(p.Value), hxs(p.Text), p.Tombstone)
}

func cpsStr(ps data.Points, sorted bool) string {
	if len(ps) == 0 {
		return "-"
	}
	var s []string
	for _, p := range ps {
		s = append(s, cpStr(p))
	}
	if sorted {
		sort.Strings(s)
	}
	return strings.Join(s, ";")
}

func parseCps(s string) data.Points {
	if s == "-" || s == "" {
		return nil
	}
	var ps data.Points
	for _, x := range strings.Split(s, ";") {
		f := strings.Split(x, ",")
		var v float64
		if f[2] == "nan" {
			v = math.NaN()
		} else {
			v = math.Float64frombits(atou64(f[2]))
		}
		ps = append(ps, data.Point{Type: string(unhx(f[0])), Key: string(unhx(f[1])), Value: v, Text: string(unhx(f[3])), Tombstone: int(atoi64(f[4]))})
	}
	return ps
}
