package main

import (
	"fmt"
	"math/rand"
	"strconv"
	"strings"
	"time"

	"github.com/simpleiot/simpleiot/client"
	"github.com/simpleiot/simpleiot/data"
)

// C14 case: <startHex> <endHex> <weekdays,> <dateHex,> <sec> <nsec> <zoneOffsetSec>
// observation: "ok true" | "ok false" | "err start|end|date|other"

func init() {
	register("C14", &Prop{Gen: c14Gen, Run: c14Run})
}

func c14Run(c string) string {
	f := strings.Fields(c)
	if len(f) == 3 && f[0] == "R=" {
		// a rule with several schedule conditions fed through the real rule client (the C13 machinery): the other place
		// the property is observed at — the active point of schedule conditions
		if c13NS == nil {
			c13Init()
		}
		return c13Run(f[1] + " " + f[2])
	}
	if len(f) != 7 {
		panic("C14: bad case")
	}
	start, end := string(unhx(f[0])), string(unhx(f[1]))
	var wds []time.Weekday
	for _, w := range splitList(f[2]) {
		wds = append(wds, time.Weekday(atoi64(w)))
	}
	var dates []string
	for _, d := range splitList(f[3]) {
		dates = append(dates, string(unhx(d)))
	}
	t := time.Unix(atoi64(f[4]), atoi64(f[5])).In(time.FixedZone("z", int(atoi64(f[6]))))
	b, err := client.VerifScheduleActive(start, end, wds, dates, t)
	if err != nil {
		m := err.Error()
		switch {
		case strings.Contains(m, "invalid start"):
			return "err start"
		case strings.Contains(m, "invalid end"):
			return "err end"
		case strings.Contains(m, "Invalid date"):
			return "err date"
		}
		return "err other"
	}
	return "ok " + strconv.FormatBool(b)
}

func c14HM(r *rand.Rand) (string, int, int) {
	h, m := r.Intn(24), r.Intn(60)
	switch r.Intn(8) {
	case 0:
		h, m = 0, 0
	case 1:
		h, m = 23, 59
	case 2:
		m = 0
	}
	s := fmt.Sprintf("%d:%02d", h, m)
	if r.Intn(2) == 0 {
		s = fmt.Sprintf("%02d:%02d", h, m)
	}
	return s, h, m
}

func c14Gen(r *rand.Rand, n int, tier string) []string {
	var out []string
	junk := []string{"", "", "", "", "x", " ", "1", "12", ":", "ab:cd ", "9:9 ", "\xff", "7"}
	for i := 0; i < n; i++ {
		if i%60 == 59 {
			out = append(out, c14RuleCase(r))
			continue
		}
		start, sh, sm := c14HM(r)
		end, eh, em := c14HM(r)
		switch r.Intn(10) {
		case 0:
			end, eh, em = start, sh, sm // 24 h window
		case 1: // one minute apart, either order
			eh, em = sh, sm+1
			if em == 60 {
				em = 59
			}
			end = fmt.Sprintf("%02d:%02d", eh, em)
			if r.Intn(2) == 0 {
				start, end = end, start
				sh, sm, eh, em = eh, em, sh, sm
			}
		}
		// malformed / unusual strings (separate stream, ~12 %)
		if r.Intn(8) == 0 {
			bad := []string{"", "abc", "7:5", "12", ":30", "24:00", "99:99", "123:45", "1:234", "-1:30", "٣:٠٠", "12:3x", "25:61"}
			if r.Intn(2) == 0 {
				start = pick(r, bad)
			} else {
				end = pick(r, bad)
			}
		}
		if r.Intn(6) == 0 {
			start = pick(r, junk) + start + pick(r, junk)
		}
		if r.Intn(6) == 0 {
			end = pick(r, junk) + end + pick(r, junk)
		}
		// instant: pick a day, then a position relative to the window boundaries
		var day int64
		switch r.Intn(10) {
		case 0:
			day = int64(r.Intn(7)) - 3 // around the epoch (negative times)
		case 1:
			day = pick(r, []int64{11016, 11017, 11381, 11382, 19782, 19783, 19417, 24836, 24837, -1, 106751, -106751, 47482, 2932896, -719528, -719162})
		case 2:
			day = int64(r.Intn(4000000)) - 2000000
		default:
			day = 10957 + int64(r.Intn(20000))
		}
		startSec := int64(sh*3600 + sm*60)
		endSec := int64(eh*3600 + em*60)
		var sec, nsec int64
		switch r.Intn(6) {
		case 0:
			sec = startSec
		case 1:
			sec = endSec
		case 2:
			sec = startSec - 1
			nsec = 999999999
		case 3:
			sec = endSec - 1
			nsec = 999999999
		case 4:
			sec = pick(r, []int64{startSec, endSec}) + int64(r.Intn(3)) - 1
			nsec = pick(r, []int64{0, 1, 999999999, int64(r.Intn(1000000000))})
		default:
			sec = int64(r.Intn(86400))
			nsec = int64(r.Intn(1000000000))
		}
		dayShift := int64(r.Intn(3)) - 1
		if r.Intn(3) != 0 {
			dayShift = 0
		}
		tsec := (day+dayShift)*86400 + sec
		tt := time.Unix(tsec, nsec).UTC()
		// weekdays: mostly relate to the day of t or the day before
		var wds []string
		switch r.Intn(5) {
		case 0, 1:
		case 2:
			wds = append(wds, strconv.Itoa(int(tt.Weekday())))
		case 3:
			wds = append(wds, strconv.Itoa(int(tt.AddDate(0, 0, -1).Weekday())))
		case 4:
			for d := 0; d < 7; d++ {
				if r.Intn(2) == 0 {
					wds = append(wds, strconv.Itoa(d))
				}
			}
			if r.Intn(8) == 0 {
				wds = append(wds, pick(r, []string{"7", "-1", "11"}))
			}
		}
		var dates []string
		if r.Intn(3) == 0 {
			k := 1 + r.Intn(3)
			for j := 0; j < k; j++ {
				d := tt.AddDate(0, 0, r.Intn(4)-2)
				ds := d.Format("2006-01-02")
				if d.Year() < 0 || d.Year() > 9999 {
					ds = "2024-02-29"
				}
				switch r.Intn(12) {
				case 0:
					ds = pick(r, []string{"", "2024-2-29", "24-02-29", "abcd-ef-gh", "2024/02/29", "2024-02-2"})
				case 1:
					ds = "x" + ds + "9"
				case 2:
					ds = pick(r, []string{"2024-02-30", "2023-02-29", "2024-13-01", "0000-00-00", "2024-00-10"})
				}
				dates = append(dates, hxs(ds))
			}
		}
		zone := int64(0)
		if r.Intn(2) == 0 {
			zone = pick(r, []int64{-43200, -18000, 3600, 19800, 50400, 45900, -1, 1})
		}
		out = append(out, fmt.Sprintf("%s %s %s %s %d %d %d", hxs(start), hxs(end), joinList(wds), joinList(dates), tsec, nsec, zone))
	}
	return out
}

// c14RuleCase: a rule made of two or three schedule conditions with different windows and weekday sets (sometimes a
// date), and trigger times aimed at the edges of those windows: every condition's active point must follow ITS OWN
// window and days.
func c14RuleCase(r *rand.Rand) string {
	rule := client.Rule{ID: "rule"}
	var hm []string
	day0 := c13Day0(r)
	for i := 0; i < 2+r.Intn(2); i++ {
		c := client.Condition{ID: fmt.Sprintf("c%d", i), ConditionType: data.PointValueSchedule,
			Start: pick(r, []string{"00:00", "08:30", "23:00", "2:00", "22:45", "12:00"}), End: pick(r, []string{"00:00", "09:00", "01:00", "5:00", "1:15", "17:45"})}
		if r.Intn(4) > 0 {
			for d := 0; d < 7; d++ {
				c.Weekdays = append(c.Weekdays, r.Intn(3) == 0)
			}
		}
		if r.Intn(6) == 0 {
			c.Dates = []string{pick(r, []string{"2023-06-15", "2023-06-16", "2023-06-18"})}
		} else if r.Intn(2) == 0 {
			for k := 0; k < 1+r.Intn(2); k++ {
				c.Dates = append(c.Dates, time.Unix(day0+int64(r.Intn(7))*86400, 0).UTC().Format("2006-01-02"))
			}
		}
		hm = append(hm, c.Start, c.End)
		rule.Conditions = append(rule.Conditions, c)
	}
	var cs []string
	for _, c := range rule.Conditions {
		cs = append(cs, c13CondStr(c))
	}
	rs := hxs(rule.ID) + ",0,-/" + strings.Join(cs, "+") + "/-/-"
	var evs []string
	for e := 0; e < 2+r.Intn(4); e++ {
		var h, m int
		fmt.Sscanf(pick(r, hm), "%d:%d", &h, &m)
		day := day0 + int64(r.Intn(7))*86400 // the first day (2023-06-15, a Thursday, or a day before the end of a month) and the six after it
		off := pick(r, []int64{-1800, -60, -1, 0, 1, 60, 1799, 7200})
		evs = append(evs, fmt.Sprintf("t:%d", (day+int64(h)*3600+int64(m)*60+off)*1e9))
	}
	return "R= " + rs + " " + strings.Join(evs, ";")
}
