package main

import (
	"fmt"
	"math/rand"
	"strings"

	"github.com/kjx98/crc16"
	"github.com/simpleiot/simpleiot/client"
	"github.com/simpleiot/simpleiot/data"
)

// C17 cases:
//   crc <hex>                      -> decimal crc16.ChecksumCCITT
//   rt <seq> <subHex> <points>     -> "<packetHex> <seq> <subHex> <decoded points>" | "encerr" | "<packetHex> decerr:<kind>"
//   dec <hex>                      -> "ok <seq> <subHex> <payloadHex>" | "err short|crc"
//   det <packetHex> <errorHex>     -> SerialDecode(packet XOR error) as in dec

func init() { register("C17", &Prop{Gen: c17Gen, Run: c17Run}) }

func decStr(d []byte) string {
	seq, sub, payload, err := client.SerialDecode(d)
	if err != nil {
		switch {
		case strings.Contains(err.Error(), "Not enough data"):
			return "err short"
		case strings.Contains(err.Error(), "CRC"):
			return "err crc"
		}
		return "err other"
	}
	return fmt.Sprintf("ok %d %s %s", seq, hxs(sub), hx(payload))
}

func c17Run(c string) string {
	f := strings.Fields(c)
	switch f[0] {
	case "crc":
		return fmt.Sprint(crc16.ChecksumCCITT(unhx(f[1])))
	case "rt":
		seq := byte(atoi64(f[1]))
		sub := string(unhx(f[2]))
		pts := parsePts(f[3])
		d, err := client.SerialEncode(seq, sub, pts)
		if err != nil {
			return "encerr"
		}
		seqD, subD, payload, err := client.SerialDecode(d)
		if err != nil {
			return hx(d) + " decerr:" + decStr(d)
		}
		ptsD, err := data.PbDecodeSerialPoints(payload)
		if err != nil {
			return hx(d) + " decerr:payload"
		}
		return fmt.Sprintf("%s %d %s %s", hx(d), seqD, hxs(subD), ptsStr(ptsD))
	case "dec":
		return decStr(unhx(f[1]))
	case "det":
		d := append([]byte(nil), unhx(f[1])...)
		e := unhx(f[2])
		for i := range d {
			if i < len(e) {
				d[i] ^= e[i]
			}
		}
		return decStr(d)
	}
	panic("C17: bad case kind")
}

var c17Subjects = []string{"", "ack", "phr", "p.ab", "p.ab.cd", "p.g", "p.og", "p.log", "p.node1.parent2", "p.0123456789abcd", "log", "test/subject/23", "p.q.r", "logs", "logLevel", "log.a", "login/abc", "lo", "Log", "blog"}

func c17Gen(r *rand.Rand, n int, tier string) []string {
	var out []string
	for i := 0; i < n; i++ {
		switch k := r.Intn(20); {
		case k == 0: // CRC model vs table implementation
			var b []byte
			switch r.Intn(3) {
			case 0:
				b = []byte{byte(i), byte(i >> 8)}[:1+r.Intn(2)]
			default:
				b = make([]byte, r.Intn(40))
				r.Read(b)
			}
			out = append(out, "crc "+hx(b))
		case k <= 4: // round trip
			sub := pick(r, c17Subjects)
			switch r.Intn(12) {
			case 0:
				sub = "0123456789abcdef" // 16 bytes
			case 1:
				sub = "0123456789abcdefg" // too long
			case 2:
				sub = "a\x00b"
			}
			out = append(out, fmt.Sprintf("rt %d %s %s", r.Intn(256), hxs(sub), ptsStr(genPoints(r, 3))))
		case k <= 6: // decoder on arbitrary / truncated bytes
			d, _ := client.SerialEncode(byte(r.Intn(256)), pick(r, c17Subjects), genPoints(r, 2))
			switch r.Intn(4) {
			case 0:
				d = d[:r.Intn(len(d)+1)]
			case 1:
				d = make([]byte, r.Intn(24))
				r.Read(d)
			case 2:
				d = append([]byte{7, 'l', 'o', 'g'}, make([]byte, r.Intn(20))...)
			}
			out = append(out, "dec "+hx(d))
		default: // corruption detection
			sub := pick(r, c17Subjects[:10])
			d, err := client.SerialEncode(byte(r.Intn(256)), sub, genPoints(r, 2))
			for err != nil {
				d, err = client.SerialEncode(byte(r.Intn(256)), sub, genPoints(r, 2))
			}
			e := make([]byte, len(d))
			nbits := len(d) * 8
			setBit := func(k int) { e[k/8] ^= 1 << uint(k%8) } // transmission order: LSB first
			crafted := false
			if len(sub) >= 3 && len(sub) <= 5 && r.Intn(2) == 0 {
				// try to rewrite the subject field into NUL-padded "log" with a short burst
				for a := 0; a <= 2 && !crafted; a++ {
					tgt := make([]byte, 16)
					copy(tgt[a:], "log")
					first, last := -1, -1
					for k := 0; k < 16*8; k++ {
						if (d[1+k/8]^tgt[k/8])&(1<<uint(k%8)) != 0 {
							if first < 0 {
								first = k
							}
							last = k
						}
					}
					if first >= 0 && last-first < 16 {
						for k := 0; k < 16; k++ {
							e[1+k] = d[1+k] ^ tgt[k]
						}
						crafted = true
					}
				}
			}
			switch sel := r.Intn(5); {
			case crafted:
			case sel == 0:
				setBit(r.Intn(nbits))
			case sel == 1:
				setBit(r.Intn(nbits))
				setBit(r.Intn(nbits))
			case sel == 2 || sel == 3: // burst of up to 16 bits, anywhere (biased to the subject field and the trailer)
				l := 1 + r.Intn(16)
				var start int
				switch r.Intn(4) {
				case 0:
					start = 8 + r.Intn(40)
				case 1:
					start = nbits - 16 - r.Intn(16)
				default:
					start = r.Intn(nbits)
				}
				if start < 0 {
					start = 0
				}
				if start+l > nbits {
					start = nbits - l
				}
				if start < 0 {
					start = 0
				}
				setBit(start)
				if l > 1 {
					setBit(start + l - 1)
				}
				for k := start + 1; k < start+l-1; k++ {
					if r.Intn(2) == 0 {
						setBit(k)
					}
				}
			default: // heavier damage (outside the guaranteed classes)
				for k := 0; k < 3+r.Intn(6); k++ {
					setBit(r.Intn(nbits))
				}
			}
			out = append(out, fmt.Sprintf("det %s %s", hx(d), hx(e)))
		}
	}
	return out
}
