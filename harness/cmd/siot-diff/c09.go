package main

import (
	"bytes"
	"database/sql"
	"encoding/base64"
	"encoding/json"
	"fmt"
	"io"
	"math/rand"
	"net/http"
	"net/url"
	"sort"
	"strings"
	"time"

	"github.com/golang-jwt/jwt/v4"
	"github.com/nats-io/nats.go"
	"github.com/simpleiot/simpleiot/client"
	"github.com/simpleiot/simpleiot/data"
)

// C09: one in-process instance (embedded NATS + store + HTTP API) configured with an auth token.
//
//  gate:<tmpl>:<method>:<route>   an HTTP request to a node route with an Authorization header built from
//                                 the template <seg>,<seg>,..  (L<hex> literal bytes, A = the auth token,
//                                 T<kind> = a JWT of that kind); observation "401 t=<n>" (n = bus messages the
//                                 request caused) or "served"
//  login:<ops>|<email>:<pass>     store ops over the bus (ids made unique), then POST /v1/auth;
//                                 observation "denied" or "token list=<id/parent,...>" (GET /v1/nodes with the token)
//  bus:<kind>                     nats.Connect with the right / a wrong / no token: "ok" or "refused"

const c09Token = "s3cr3t-Tok"

var c09Srv *busServer
var c09Mon *nats.Conn
var c09MonSub *nats.Subscription
var c09Key []byte
var c09N, c09Cases int
var c09HTTP = &http.Client{Timeout: 20 * time.Second}

func init() {
	register("C09", &Prop{Gen: c09Gen, Run: c09Run, Init: c09Start, Done: c09Stop})
}

func c09Stop() {
	if c09Mon != nil {
		c09Mon.Close()
		c09Mon = nil
	}
	if c09Srv != nil {
		c09Srv.stop()
		c09Srv = nil
	}
}

func c09Start() {
	var err error
	// the instance runs on a store file that already has its root node but no signing key (a file written by a release
	// before the key column existed, or whose key was cleared): the key has to be made at this start, like on a new file
	first, err := busStart("R", c09Token, nil)
	if err != nil {
		panic("C09: " + err.Error())
	}
	first.halt()
	if db0, e := sql.Open("sqlite", first.opts.StoreFile); e == nil {
		if _, e = db0.Exec("UPDATE meta SET jwt_key = NULL"); e != nil {
			panic("C09: clearing the key: " + e.Error())
		}
		db0.Close()
	} else {
		panic("C09: " + e.Error())
	}
	c09Srv, err = busStartOpts(first.opts, nil)
	if err != nil {
		panic("C09: " + err.Error())
	}
	c09Mon, err = c09Srv.connect()
	if err != nil {
		panic(err)
	}
	c09MonSub, err = c09Mon.SubscribeSync(">")
	if err != nil {
		panic(err)
	}
	_ = c09MonSub.SetPendingLimits(-1, -1)
	c09Mon.Flush()
	// the instance's JWT key, read from its database file
	db, err := sql.Open("sqlite", c09Srv.opts.StoreFile)
	if err != nil {
		panic(err)
	}
	defer db.Close()
	for i := 0; i < 50; i++ {
		err = db.QueryRow("SELECT jwt_key FROM meta").Scan(&c09Key)
		if err == nil && len(c09Key) > 0 {
			break
		}
		time.Sleep(100 * time.Millisecond)
	}
	if err != nil {
		panic(fmt.Sprint("C09: cannot read jwt key: ", err))
	}
	// an EMPTY stored key is not a harness problem but an observation: the cases go on, and a token anybody can make
	// (kind "emptykey": signed with the empty key) must still be refused
	// wait for the HTTP API
	for i := 0; i < 100; i++ {
		resp, e := c09HTTP.Get("http://127.0.0.1:" + c09Srv.opts.HTTPPort + "/v1/nodes")
		if e == nil {
			resp.Body.Close()
			break
		}
		time.Sleep(50 * time.Millisecond)
	}
	c09Cases = 0
}

func c09JWT(kind, uid string) string {
	claims := jwt.StandardClaims{ExpiresAt: time.Now().Add(time.Hour).Unix(), Issuer: "simpleiot", Id: uid}
	sign := func(m jwt.SigningMethod, c jwt.Claims, key interface{}) string {
		s, err := jwt.NewWithClaims(m, c).SignedString(key)
		if err != nil {
			panic(err)
		}
		return s
	}
	switch kind {
	case "valid":
		return sign(jwt.SigningMethodHS256, claims, c09Key)
	case "expired":
		claims.ExpiresAt = time.Now().Add(-time.Minute).Unix()
		return sign(jwt.SigningMethodHS256, claims, c09Key)
	case "otherkey":
		return sign(jwt.SigningMethodHS256, claims, []byte("another key, same length.."))
	case "emptykey":
		return sign(jwt.SigningMethodHS256, claims, []byte{})
	case "hs384":
		return sign(jwt.SigningMethodHS384, claims, c09Key)
	case "hs512":
		return sign(jwt.SigningMethodHS512, claims, c09Key)
	case "none":
		return sign(jwt.SigningMethodNone, claims, jwt.UnsafeAllowNoneSignatureType)
	case "nojti":
		return sign(jwt.SigningMethodHS256, jwt.MapClaims{"exp": time.Now().Add(time.Hour).Unix(), "iss": "simpleiot"}, c09Key)
	case "numjti":
		return sign(jwt.SigningMethodHS256, jwt.MapClaims{"exp": time.Now().Add(time.Hour).Unix(), "jti": 7}, c09Key)
	case "notyet":
		return sign(jwt.SigningMethodHS256, jwt.MapClaims{"exp": time.Now().Add(time.Hour).Unix(), "nbf": time.Now().Add(time.Hour).Unix(), "jti": uid}, c09Key)
	case "tampered": // valid signature over a different payload (user id changed afterwards)
		t := strings.Split(sign(jwt.SigningMethodHS256, claims, c09Key), ".")
		claims.Id = uid + "x"
		other := strings.Split(sign(jwt.SigningMethodHS256, claims, []byte("k")), ".")
		return t[0] + "." + other[1] + "." + t[2]
	case "algswap": // header rewritten to alg none, signature kept
		t := strings.Split(sign(jwt.SigningMethodHS256, claims, c09Key), ".")
		h := base64.RawURLEncoding.EncodeToString([]byte(`{"alg":"none","typ":"JWT"}`))
		return h + "." + t[1] + "." + t[2]
	case "nosig":
		t := strings.Split(sign(jwt.SigningMethodHS256, claims, c09Key), ".")
		return t[0] + "." + t[1] + "."
	case "twoparts":
		t := strings.Split(sign(jwt.SigningMethodHS256, claims, c09Key), ".")
		return t[0] + "." + t[1]
	case "garbage":
		return "abc.def.ghi"
	case "word":
		return "token"
	}
	panic("C09: token kind " + kind)
}

// drain returns the subjects seen by the monitor since the last drain, after making sure that everything
// the API's connection has published so far has been routed.
func c09Drain() []string {
	_ = c09Srv.nc.Flush()
	_ = c09Mon.Flush()
	var out []string
	for {
		m, err := c09MonSub.NextMsg(time.Millisecond)
		if err != nil {
			n, _, _ := c09MonSub.Pending()
			if n == 0 {
				break
			}
			continue
		}
		out = append(out, m.Subject)
	}
	return out
}

func c09Gate(p []string) string {
	c09N++
	uid := fmt.Sprintf("g%dq", c09N)
	var hdr []byte
	for _, seg := range strings.Split(p[1], ",") {
		switch {
		case seg == "-":
		case seg == "A":
			hdr = append(hdr, c09Token...)
		case strings.HasPrefix(seg, "L"):
			hdr = append(hdr, unhx(seg[1:])...)
		case strings.HasPrefix(seg, "T"):
			hdr = append(hdr, c09JWT(seg[1:], uid)...)
		default:
			panic("C09: bad segment " + seg)
		}
	}
	base := "http://127.0.0.1:" + c09Srv.opts.HTTPPort + "/v1/nodes"
	var body io.Reader
	switch p[3] {
	case "list":
	case "node":
		base += "/" + uid
		body = strings.NewReader("all")
	case "points":
		base += "/" + uid + "/points"
		body = strings.NewReader(`[{"type":"value","value":1}]`)
	case "parents":
		base += "/" + uid + "/parents"
		body = strings.NewReader(`{"id":"` + uid + `","oldParent":"R","newParent":"R"}`)
	case "not":
		base += "/" + uid + "/not"
		body = strings.NewReader(`{"subject":"s","message":"` + uid + `"}`)
	case "create":
		body = strings.NewReader(`{"id":"` + uid + `","type":"device","parent":"R","points":[{"type":"description","text":"x"}]}`)
	default:
		panic("C09: route " + p[3])
	}
	req, err := http.NewRequest(p[2], base, body)
	if err != nil {
		return "BADREQ " + err.Error()
	}
	if len(hdr) > 0 {
		req.Header["Authorization"] = []string{string(hdr)}
	}
	c09Drain()
	resp, err := c09HTTP.Do(req)
	if err != nil {
		return "TRANSPORT " + err.Error()
	}
	_, _ = io.Copy(io.Discard, resp.Body)
	resp.Body.Close()
	n := 0
	for _, s := range c09Drain() {
		if strings.Contains(s, uid) {
			n++
		}
	}
	if resp.StatusCode == http.StatusUnauthorized {
		return fmt.Sprintf("401 t=%d", n)
	}
	return "served"
}

func c09Login(p []string) string {
	c09N++
	prefix := fmt.Sprintf("k%d-", c09N)
	parts := strings.Split(p[1], "|")
	if parts[0] != "-" {
		for _, op := range strings.Split(parts[0], ";") {
			f := strings.Split(op, ":")
			// the e-mail of a case is made unique like the ids
			if f[0] == "np" {
				pts := parseSpts(f[2])
				for i := range pts {
					if pts[i].Type == data.PointTypeEmail {
						pts[i].Text = prefix + pts[i].Text
					}
				}
				if err := noteTmo(client.SendNodePoints(c09Srv.nc, c06ID(prefix, string(unhx(f[1]))), pts, true)); err != nil {
					return "SETUP " + err.Error()
				}
			} else {
				_ = c06Exec(c09Srv.nc, prefix, op)
			}
		}
	}
	cred := strings.Split(parts[1], ":")
	form := url.Values{"email": {prefix + string(unhx(cred[0]))}, "password": {string(unhx(cred[1]))}}
	resp, err := c09HTTP.PostForm("http://127.0.0.1:"+c09Srv.opts.HTTPPort+"/v1/auth", form)
	if err != nil {
		return "TRANSPORT " + err.Error()
	}
	b, _ := io.ReadAll(resp.Body)
	resp.Body.Close()
	if resp.StatusCode == http.StatusForbidden {
		return "denied"
	}
	if resp.StatusCode != 200 {
		return fmt.Sprintf("status %d", resp.StatusCode)
	}
	var a data.Auth
	if err := json.Unmarshal(b, &a); err != nil || a.Token == "" {
		return "notoken " + string(bytes.TrimSpace(b))
	}
	req, _ := http.NewRequest("GET", "http://127.0.0.1:"+c09Srv.opts.HTTPPort+"/v1/nodes", nil)
	req.Header.Set("Authorization", "Bearer "+a.Token)
	resp, err = c09HTTP.Do(req)
	if err != nil {
		return "TRANSPORT " + err.Error()
	}
	b, _ = io.ReadAll(resp.Body)
	resp.Body.Close()
	if resp.StatusCode != 200 {
		return fmt.Sprintf("token list-status %d", resp.StatusCode)
	}
	var nodes []data.NodeEdge
	if err := json.Unmarshal(b, &nodes); err != nil {
		return "token list-undecodable"
	}
	var ids []string
	for _, n := range nodes {
		if n.ID == "R" || strings.HasPrefix(n.ID, prefix) {
			ids = append(ids, hxs(strings.TrimPrefix(n.ID, prefix))+"/"+hxs(strings.TrimPrefix(n.Parent, prefix)))
		}
	}
	sort.Strings(ids)
	return "token list=" + joinListSep(ids, ",")
}

func c09Bus(p []string) string {
	opts := []nats.Option{nats.Timeout(3 * time.Second)}
	switch p[1] {
	case "right":
		opts = append(opts, nats.Token(c09Token))
	case "none":
	default:
		opts = append(opts, nats.Token(string(unhx(p[1]))))
	}
	nc, err := nats.Connect(c09Srv.opts.NatsServer, opts...)
	if err != nil {
		return "refused"
	}
	defer nc.Close()
	if _, err := client.GetNodes(nc, "root", "all", "", false); err != nil {
		return "connected-but-unusable"
	}
	return "ok"
}

func c09Run(c string) string {
	c09Cases++
	if c09Cases%150 == 0 { // keep the accumulated tree small; the old instance shuts down in the background
		old, oldMon := c09Srv, c09Mon
		c09Start()
		go func() { oldMon.Close(); old.stop() }()
	}
	f := strings.Fields(c)[0]
	p := strings.Split(f, "/")
	switch p[0] {
	case "gate":
		return c09Gate(p)
	case "login":
		return c09Login(p)
	case "bus":
		return c09Bus(p)
	}
	panic("C09: bad case " + c)
}

func c09Gen(r *rand.Rand, n int, tier string) []string {
	var out []string
	kinds := []string{"valid", "valid", "expired", "otherkey", "emptykey", "hs384", "hs512", "none", "nojti", "numjti", "notyet", "tampered", "algswap",
		"nosig", "twoparts", "garbage", "word"}
	lits := []string{"Bearer", "Bearer", "Bearer", "bearer", "BEARER", "Basic", "Bearer:", "Token", c09Token, c09Token[:5], c09Token + "x", "x"}
	seps := []string{" ", " ", "  ", "\t", " \t ", ""}
	methods := []string{"GET", "POST", "DELETE", "PUT", "PATCH"}
	routes := []string{"list", "node", "points", "parents", "not", "create"}
	for i := 0; i < n; i++ {
		switch k := r.Intn(20); {
		case k < 11: // gate
			var segs []string
			switch r.Intn(9) {
			case 0: // absent
				segs = []string{"-"}
			case 1: // the auth token, possibly decorated
				segs = []string{pick(r, []string{"A", "A", "L" + hxs(" ") + ",A", "A,L" + hxs(" "), "L" + hxs("Bearer ") + ",A", "A,L" + hxs("x"), "L" + hxs(c09Token[:9])})}
			case 2: // a token without scheme
				segs = []string{"T" + pick(r, kinds)}
			case 3: // scheme, separator(s), token, maybe trailing words
				segs = []string{"L" + hxs(pick(r, lits)), "L" + hxs(pick(r, seps)), "T" + pick(r, kinds)}
				if r.Intn(3) == 0 {
					segs = append(segs, "L"+hxs(pick(r, []string{" extra", " ", "x", " " + c09Token})))
				}
			case 4: // leading white space, several fields
				segs = []string{"L" + hxs(pick(r, seps)), "L" + hxs(pick(r, lits)), "L" + hxs(pick(r, seps)), "T" + pick(r, kinds)}
			case 5: // bad token first, a valid one afterwards
				segs = []string{"L" + hxs("Bearer "), "T" + pick(r, kinds), "L" + hxs(" "), "Tvalid"}
			case 6: // valid token first then the scheme (wrong order)
				segs = []string{"Tvalid", "L" + hxs(" Bearer")}
			default:
				segs = []string{"L" + hxs("Bearer "), "T" + pick(r, kinds)}
			}
			for j, s := range segs {
				if s == "L-" {
					segs[j] = "-"
				}
			}
			out = append(out, fmt.Sprintf("gate/%s/%s/%s", strings.Join(segs, ","), pick(r, methods), pick(r, routes)))
		case k < 19: // login
			clock := int64(100)
			tick := func() int64 { clock += 2; return clock }
			nt := func(t string) string { return fmt.Sprintf("%s,-,0,%s,%d,0,-,-", hxs("nodeType"), hxs(t), tick()) }
			tomb := func(v float64) string { return fmt.Sprintf("%s,-,%s,-,%d,0,-,-", hxs("tombstone"), valStr(v), tick()) }
			var ops []string
			groups := []string{"R"}
			type edge struct{ up, down string }
			var uedges []edge
			var gedges []edge
			// groups: chains and mirrors under R (sometimes detached)
			for g := 0; g < 1+r.Intn(3); g++ {
				id := fmt.Sprintf("g%d", g)
				parent := pick(r, groups)
				if r.Intn(10) == 0 {
					parent = "none"
				}
				ops = append(ops, "ep:"+hxs(id)+":"+hxs(parent)+":"+nt("group"))
				gedges = append(gedges, edge{parent, id})
				groups = append(groups, id)
				if r.Intn(4) == 0 { // a device below the group, to be listed
					ops = append(ops, "ep:"+hxs("d"+id)+":"+hxs(id)+":"+nt("device"))
				}
			}
			// the user, in one or several places
			places := 1 + r.Intn(3)
			for u := 0; u < places; u++ {
				parent := pick(r, groups[1:])
				if r.Intn(10) == 0 {
					parent = "R"
				}
				dup := false
				for _, e := range uedges {
					dup = dup || e.up == parent
				}
				if dup {
					continue
				}
				ops = append(ops, "ep:"+hxs("u")+":"+hxs(parent)+":"+nt("user"))
				uedges = append(uedges, edge{parent, "u"})
			}
			email, pass := "e@x", pick(r, []string{"pw", "pw", "Pw", ""})
			ops = append(ops, "np:"+hxs("u")+":"+fmt.Sprintf("%s,-,0,%s,%d,0,-,-+%s,-,0,%s,%d,0,-,-", hxs("email"), hxs(email), tick(), hxs("pass"), hxs(pass), tick()))
			// a second user with other credentials somewhere live
			if r.Intn(3) == 0 {
				ops = append(ops, "ep:"+hxs("v")+":"+hxs("R")+":"+nt("user"))
				ops = append(ops, "np:"+hxs("v")+":"+fmt.Sprintf("%s,-,0,%s,%d,0,-,-+%s,-,0,%s,%d,0,-,-", hxs("email"), hxs("other@x"), tick(), hxs("pass"), hxs("pw2"), tick()))
			}
			// deletions / undeletions of user placements and of groups above
			for d := 0; d < r.Intn(4); d++ {
				if r.Intn(2) == 0 && len(uedges) > 0 {
					e := pick(r, uedges)
					ops = append(ops, "ep:"+hxs(e.down)+":"+hxs(e.up)+":"+tomb(float64(pick(r, []int{1, 1, 1, 0}))))
				} else {
					e := pick(r, gedges)
					ops = append(ops, "ep:"+hxs(e.down)+":"+hxs(e.up)+":"+tomb(float64(pick(r, []int{1, 1, 0}))))
				}
			}
			// move: new placement after deleting (the classic "moved user")
			if r.Intn(3) == 0 && len(uedges) > 0 {
				e := uedges[0]
				ops = append(ops, "ep:"+hxs("u")+":"+hxs(e.up)+":"+tomb(1))
				np := pick(r, groups)
				if np != e.up {
					ops = append(ops, "ep:"+hxs("u")+":"+hxs(np)+":"+nt("user"))
				}
			}
			tryEmail, tryPass := email, pass
			switch r.Intn(8) {
			case 0:
				tryPass = pick(r, []string{"", "PW", "pw ", "pw2"})
			case 1:
				tryEmail = pick(r, []string{"E@x", "e@x ", "", "other@x"})
			}
			out = append(out, "login/"+strings.Join(ops, ";")+"|"+hxs(tryEmail)+":"+hxs(tryPass))
		default:
			out = append(out, "bus/"+pick(r, []string{"right", "none", hxs("wrong"), hxs(c09Token[:9]), hxs(c09Token + " "), hxs(strings.ToUpper(c09Token))}))
		}
	}
	return out
}
