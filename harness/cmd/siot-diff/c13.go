package main

import (
	"fmt"
	"math"
	"math/rand"
	"strings"
	"sync"
	"time"

	natsserver "github.com/nats-io/nats-server/v2/server"
	"github.com/nats-io/nats.go"
	"github.com/simpleiot/simpleiot/client"
	"github.com/simpleiot/simpleiot/data"
)

// C13: the real RuleClient (client.NewRuleClient + Run) on a bare embedded NATS server. Batches are handed
// to the running client through the verif hook (exactly what its up.<parent>.* callback does), schedule
// ticks as trigger batches with explicit times, configuration changes through the public Points callback.
// Everything the rule publishes (p.<node>) is captured, in order, by an observer connection.
//
// case:  <rule> <events>
//   rule   = id,active,error/<cond>+<cond>/<act>+../<actInactive>+..        ("-" = empty list)
//   cond   = id,ctype,nodeID,pointType,pointKey,valueType,operator,valueBits,valueText,start,end,weekdays(0/1 string or -),dates(hex . hex or -),active,error
//   act    = id,action,nodeID,pointType,valueBits,valueText,active,error
//   events = ev;ev;..   b:<node>:<now>:<pt>+<pt>  |  t:<now>  |  cv:<i>:<bits>  |  av:<a|i>:<i>:<bits>
//   pt     = type,key,valueBits,text,timeNs
// observation: <out>+<out>.. ## active,error/<cond active,error>+../<act active,error>+../<...>
//   out    = node,type,valueBits,text,origin

var c13NS *natsserver.Server
var c13Rule, c13Obs *nats.Conn
var c13Mu sync.Mutex
var c13Outs []string
var c13Mark chan string

func init() {
	register("C13", &Prop{Gen: c13Gen, Run: c13Run, Init: c13Init, Done: func() {
		if c13NS != nil {
			c13Rule.Close()
			c13Obs.Close()
			c13NS.Shutdown()
		}
	}})
}

func c13Init() {
	port := freePort()
	var err error
	c13NS, err = natsserver.NewServer(&natsserver.Options{Host: "127.0.0.1", Port: port, NoSigs: true, NoLog: true})
	if err != nil {
		panic(err)
	}
	go c13NS.Start()
	if !c13NS.ReadyForConnections(10 * time.Second) {
		panic("C13: nats server not ready")
	}
	url := fmt.Sprintf("nats://127.0.0.1:%d", port)
	if c13Rule, err = nats.Connect(url); err != nil {
		panic(err)
	}
	if c13Obs, err = nats.Connect(url); err != nil {
		panic(err)
	}
	c13Mark = make(chan string, 16)
	_, err = c13Obs.Subscribe("p.*", func(m *nats.Msg) {
		node := strings.TrimPrefix(m.Subject, "p.")
		if strings.HasPrefix(node, "zzmark") {
			c13Mark <- node
			return
		}
		pts, e := data.PbDecodePoints(m.Data)
		c13Mu.Lock()
		defer c13Mu.Unlock()
		if e != nil {
			c13Outs = append(c13Outs, "undecodable")
			return
		}
		for _, p := range pts {
			txt := p.Text
			if strings.HasPrefix(txt, "Error parsing schedule") {
				txt = "Error parsing schedule"
			}
			c13Outs = append(c13Outs, fmt.Sprintf("%s,%s,%d,%s,%s", hxs(node), hxs(p.Type), math.Float64bits(p.Value), hxs(txt), hxs(p.Origin)))
		}
	})
	if err != nil {
		panic(err)
	}
	c13Obs.Flush()
}

func b01(b bool) string {
	if b {
		return "1"
	}
	return "0"
}

func fbits(s string) float64 { return math.Float64frombits(atou64(s)) }

func c13ParseCond(s string) client.Condition {
	f := strings.Split(s, ",")
	c := client.Condition{ID: string(unhx(f[0])), ConditionType: string(unhx(f[1])), NodeID: string(unhx(f[2])), PointType: string(unhx(f[3])),
		PointKey: string(unhx(f[4])), ValueType: string(unhx(f[5])), Operator: string(unhx(f[6])), Value: fbits(f[7]), ValueText: string(unhx(f[8])),
		Start: string(unhx(f[9])), End: string(unhx(f[10])), Active: f[13] == "1", Error: string(unhx(f[14]))}
	if f[11] != "-" {
		for _, ch := range f[11] {
			c.Weekdays = append(c.Weekdays, ch == '1')
		}
	}
	if f[12] != "-" {
		for _, d := range strings.Split(f[12], ".") {
			c.Dates = append(c.Dates, string(unhx(d)))
		}
	}
	return c
}

func c13ParseAct(s string) client.Action {
	f := strings.Split(s, ",")
	a := client.Action{ID: string(unhx(f[0])), Action: string(unhx(f[1])), NodeID: string(unhx(f[2])), PointType: string(unhx(f[3])),
		Value: fbits(f[4]), ValueText: string(unhx(f[5])), Active: f[6] == "1", Error: string(unhx(f[7]))}
	if len(f) > 8 {
		a.PointFilePath = string(unhx(f[8]))
	}
	return a
}

func c13ParseRule(s string) client.Rule {
	sec := strings.Split(s, "/")
	h := strings.Split(sec[0], ",")
	r := client.Rule{ID: string(unhx(h[0])), Parent: "par", Active: h[1] == "1", Error: string(unhx(h[2]))}
	if sec[1] != "-" {
		for _, c := range strings.Split(sec[1], "+") {
			r.Conditions = append(r.Conditions, c13ParseCond(c))
		}
	}
	if sec[2] != "-" {
		for _, a := range strings.Split(sec[2], "+") {
			r.Actions = append(r.Actions, c13ParseAct(a))
		}
	}
	if sec[3] != "-" {
		for _, a := range strings.Split(sec[3], "+") {
			r.ActionsInactive = append(r.ActionsInactive, c13ParseAct(a))
		}
	}
	return r
}

func c13ParsePts(s string) data.Points {
	if s == "-" {
		return data.Points{}
	}
	var out data.Points
	for _, ps := range strings.Split(s, "+") {
		f := strings.Split(ps, ",")
		out = append(out, data.Point{Type: string(unhx(f[0])), Key: string(unhx(f[1])), Value: fbits(f[2]), Text: string(unhx(f[3])),
			Time: time.Unix(0, atoi64(f[4])).UTC()})
	}
	return out
}

var c13Seq int

func c13Run(c string) string {
	f := strings.Fields(c)
	rule := c13ParseRule(f[0])
	rc := client.NewRuleClient(c13Rule, rule)
	done := make(chan error, 1)
	go func() { done <- rc.Run() }()
	c13Mu.Lock()
	c13Outs = nil
	c13Mu.Unlock()
	for _, ev := range strings.Split(f[1], ";") {
		p := strings.Split(ev, ":")
		switch p[0] {
		case "b":
			client.VerifRuleFeed(rc, string(unhx(p[1])), c13ParsePts(p[3]))
		case "t":
			client.VerifRuleFeed(rc, rule.ID, data.Points{{Type: data.PointTypeTrigger, Time: time.Unix(0, atoi64(p[1])).UTC()}})
		case "cv":
			i := int(atoi64(p[1]))
			rc.Points(rule.Conditions[i].ID, []data.Point{{Type: data.PointTypeValue, Value: fbits(p[2])}})
		case "av":
			i := int(atoi64(p[2]))
			as := rule.Actions
			if p[1] == "i" {
				as = rule.ActionsInactive
			}
			rc.Points(as[i].ID, []data.Point{{Type: data.PointTypeValue, Value: fbits(p[3])}})
		default:
			panic("C13: bad event " + ev)
		}
	}
	rc.Stop(nil)
	select {
	case <-done:
	case <-time.After(8 * time.Second):
		return "HANG run-did-not-return"
	}
	c13Seq++
	mark := fmt.Sprintf("zzmark%d", c13Seq)
	_ = client.SendNodePoint(c13Rule, mark, data.Point{Type: "m"}, false)
	c13Rule.Flush()
	for {
		select {
		case m := <-c13Mark:
			if m != mark {
				continue
			}
		case <-time.After(8 * time.Second):
			return "HANG no-marker"
		}
		break
	}
	c13Mu.Lock()
	outs := append([]string(nil), c13Outs...)
	c13Outs = nil
	c13Mu.Unlock()
	cfg := client.VerifRuleConfig(rc)
	var cs, as, is []string
	for _, c := range cfg.Conditions {
		e := c.Error
		if strings.HasPrefix(e, "Error parsing schedule") {
			e = "Error parsing schedule"
		}
		cs = append(cs, b01(c.Active)+","+hxs(e)+","+fmt.Sprint(math.Float64bits(c.Value)))
	}
	for _, a := range cfg.Actions {
		as = append(as, b01(a.Active)+","+hxs(a.Error)+","+fmt.Sprint(math.Float64bits(a.Value)))
	}
	for _, a := range cfg.ActionsInactive {
		is = append(is, b01(a.Active)+","+hxs(a.Error)+","+fmt.Sprint(math.Float64bits(a.Value)))
	}
	re := cfg.Error
	if strings.HasPrefix(re, "Error parsing schedule") {
		re = "Error parsing schedule"
	}
	return joinListSep(outs, "+") + " ## " + b01(cfg.Active) + "," + hxs(re) + "/" + joinListSep(cs, "+") + "/" + joinListSep(as, "+") + "/" + joinListSep(is, "+")
}

// ---- generator ----

func c13CondStr(c client.Condition) string {
	wd := "-"
	if len(c.Weekdays) > 0 {
		wd = ""
		for _, b := range c.Weekdays {
			wd += b01(b)
		}
	}
	ds := "-"
	if len(c.Dates) > 0 {
		var x []string
		for _, d := range c.Dates {
			x = append(x, hxs(d))
		}
		ds = strings.Join(x, ".")
	}
	return strings.Join([]string{hxs(c.ID), hxs(c.ConditionType), hxs(c.NodeID), hxs(c.PointType), hxs(c.PointKey), hxs(c.ValueType), hxs(c.Operator),
		fmt.Sprint(math.Float64bits(c.Value)), hxs(c.ValueText), hxs(c.Start), hxs(c.End), wd, ds, b01(c.Active), hxs(c.Error)}, ",")
}

func c13ActStr(a client.Action) string {
	f := []string{hxs(a.ID), hxs(a.Action), hxs(a.NodeID), hxs(a.PointType), fmt.Sprint(math.Float64bits(a.Value)), hxs(a.ValueText),
		b01(a.Active), hxs(a.Error)}
	if a.PointFilePath != "" || a.Action == data.PointValuePlayAudio {
		f = append(f, hxs(a.PointFilePath))
	}
	return strings.Join(f, ",")
}

// c13Day0: 00:00 UTC of the first of the four days a case plays in. Half of the cases stay in the middle of June 2023;
// the others cross the end of a 30-day month, of a 31-day month, of February in a leap year, or of a year.
func c13Day0(r *rand.Rand) int64 {
	if r.Intn(2) == 0 {
		return 1686787200 // 2023-06-15, a Thursday
	}
	d := pick(r, []time.Time{time.Date(2023, 6, 29, 0, 0, 0, 0, time.UTC), time.Date(2023, 10, 30, 0, 0, 0, 0, time.UTC),
		time.Date(2024, 2, 27, 0, 0, 0, 0, time.UTC), time.Date(2023, 12, 30, 0, 0, 0, 0, time.UTC), time.Date(2023, 2, 27, 0, 0, 0, 0, time.UTC)})
	return d.Unix()
}

func c13Gen(r *rand.Rand, n int, tier string) []string {
	var out []string
	vals := []float64{0, 1, 2, 5, 5, 10, -1, 0.5, math.Copysign(0, -1), math.Inf(1), math.NaN(), 1e300, 5e-324}
	texts := []string{"", "on", "alarm", "alarm high", "ALARM", "al"}
	nodes := []string{"n1", "n2", "n3"}
	types := []string{"value", "temp", "state"}
	keys := []string{"", "0", "a"}
	ops := []string{">", "<", "=", "!=", "contains", "", "~"}
	for i := 0; i < n; i++ {
		rule := client.Rule{ID: "rule"}
		hasSched := false
		// the four days the case plays in: mid-month, or across the end of a month, of February in a leap year, of a year
		day0 := c13Day0(r)
		nc := r.Intn(4)
		if r.Intn(12) == 0 {
			nc = 0
		}
		for j := 0; j < nc; j++ {
			c := client.Condition{ID: fmt.Sprintf("c%d", j), ConditionType: data.PointValuePointValue, Active: r.Intn(2) == 0}
			switch k := r.Intn(20); {
			case k < 14:
				if r.Intn(3) > 0 {
					c.NodeID = pick(r, nodes)
				}
				if r.Intn(4) > 0 {
					c.PointType = pick(r, types)
				}
				if r.Intn(4) == 0 {
					c.PointKey = pick(r, keys)
				}
				c.ValueType = pick(r, []string{"number", "number", "onOff", "text", "text", "bogus", ""})
				c.Operator = pick(r, ops)
				c.Value = pick(r, vals)
				c.ValueText = pick(r, texts)
			case k < 18:
				hasSched = true
				c.ConditionType = data.PointValueSchedule
				c.Start = pick(r, []string{"00:00", "08:30", "23:00", "12:00", "2:30", "22:45"})
				c.End = pick(r, []string{"00:00", "09:00", "01:00", "12:00", "17:45", "5:00", "1:15"})
				if r.Intn(2) == 0 {
					for d := 0; d < 7; d++ {
						c.Weekdays = append(c.Weekdays, r.Intn(2) == 0)
					}
				}
				if r.Intn(4) == 0 {
					c.Dates = []string{pick(r, []string{"2024-02-29", "2023-06-15", "2023-06-16"})}
				} else if r.Intn(2) == 0 {
					// one or two of the days the case plays in (windows that wrap past midnight then straddle two dates)
					for k := 0; k < 1+r.Intn(2); k++ {
						c.Dates = append(c.Dates, time.Unix(day0+int64(r.Intn(4))*86400, 0).UTC().Format("2006-01-02"))
					}
				}
				if r.Intn(10) == 0 {
					c.Start = "25:xx"
				}
			default:
				c.ConditionType = pick(r, []string{"", "weird"})
			}
			if r.Intn(8) == 0 {
				c.Error = pick(r, []string{"old error", "unknown value type: bogus"})
			}
			rule.Conditions = append(rule.Conditions, c)
		}
		mkActs := func(pfx string) []client.Action {
			var as []client.Action
			for j := 0; j < r.Intn(3); j++ {
				a := client.Action{ID: fmt.Sprintf("%s%d", pfx, j), Action: data.PointValueSetValue, NodeID: pick(r, []string{"t1", "t2", "t1", "", "rule"}),
					PointType: pick(r, []string{"value", "state", "value", ""}), Value: pick(r, vals), ValueText: pick(r, texts), Active: r.Intn(2) == 0}
				if r.Intn(8) == 0 {
					a.Action = pick(r, []string{"", "bogus"})
				}
				if r.Intn(10) == 0 {
					// play-audio action whose file does not exist (an existing file would start an external player):
					// an action error like any other, and the rule goes on
					a.Action = data.PointValuePlayAudio
					a.PointFilePath = pick(r, []string{"/nonexistent/alarm.wav", "", "/nonexistent/b.wav"})
					if r.Intn(3) == 0 {
						a.Error = "open " + a.PointFilePath + ": no such file or directory"
					}
				}
				if r.Intn(8) == 0 {
					a.Error = pick(r, []string{"old error", "Error, node action nodeID must be set"})
				}
				as = append(as, a)
			}
			return as
		}
		rule.Actions = mkActs("a")
		rule.ActionsInactive = mkActs("i")
		rule.Active = r.Intn(2) == 0
		if r.Intn(6) == 0 {
			rule.Error = pick(r, []string{"old error", "unknown value type: bogus"})
		}
		var cs, as, is []string
		for _, c := range rule.Conditions {
			cs = append(cs, c13CondStr(c))
		}
		for _, a := range rule.Actions {
			as = append(as, c13ActStr(a))
		}
		for _, a := range rule.ActionsInactive {
			is = append(is, c13ActStr(a))
		}
		rs := hxs(rule.ID) + "," + b01(rule.Active) + "," + hxs(rule.Error) + "/" + joinListSep(cs, "+") + "/" + joinListSep(as, "+") + "/" + joinListSep(is, "+")
		// events
		base := (day0 + 12800) * 1e9 // 03:33:20 UTC on the first day
		var evs []string
		for e := 0; e < 1+r.Intn(6); e++ {
			now := base + int64(r.Intn(4*86400))*1e9
			if hasSched && r.Intn(2) == 0 {
				// aim at the edges of a schedule window: its start or end time of day, give or take up to half an hour
				var hm []string
				for _, c := range rule.Conditions {
					if c.ConditionType == data.PointValueSchedule {
						hm = append(hm, c.Start, c.End)
					}
				}
				var h, m int
				if _, err := fmt.Sscanf(pick(r, hm), "%d:%d", &h, &m); err == nil {
					day := day0 + int64(r.Intn(4))*86400 // 00:00:00 UTC of the first day or one of the next three
					off := pick(r, []int64{-1800, -900, -60, -1, 0, 1, 60, 900, 1799})
					now = (day + int64(h)*3600 + int64(m)*60 + off) * 1e9
				}
			}
			switch k := r.Intn(12); {
			case k < 8:
				var pts []string
				for j := 0; j < 1+r.Intn(3); j++ {
					ty := pick(r, types)
					if r.Intn(8) == 0 {
						ty = data.PointTypeTrigger
					}
					pts = append(pts, fmt.Sprintf("%s,%s,%d,%s,%d", hxs(ty), hxs(pick(r, keys)), math.Float64bits(pick(r, vals)), hxs(pick(r, texts)), now+int64(j)))
				}
				node := pick(r, append(nodes, "n4", "rule"))
				evs = append(evs, fmt.Sprintf("b:%s:%d:%s", hxs(node), now, strings.Join(pts, "+")))
			case k < 10:
				evs = append(evs, fmt.Sprintf("t:%d", now))
			case k == 10 && !hasSched && len(rule.Conditions) > 0:
				evs = append(evs, fmt.Sprintf("cv:%d:%d", r.Intn(len(rule.Conditions)), math.Float64bits(pick(r, vals))))
			case k == 11 && !hasSched:
				if len(rule.Actions) > 0 && r.Intn(2) == 0 {
					evs = append(evs, fmt.Sprintf("av:a:%d:%d", r.Intn(len(rule.Actions)), math.Float64bits(pick(r, vals))))
				} else if len(rule.ActionsInactive) > 0 {
					evs = append(evs, fmt.Sprintf("av:i:%d:%d", r.Intn(len(rule.ActionsInactive)), math.Float64bits(pick(r, vals))))
				} else {
					evs = append(evs, fmt.Sprintf("t:%d", now))
				}
			default:
				evs = append(evs, fmt.Sprintf("t:%d", now))
			}
		}
		out = append(out, rs+" "+strings.Join(evs, ";"))
	}
	return out
}
