package main

import (
	"encoding/hex"
	"math/rand"
	"strconv"
	"strings"
)

// hx is the transport form of a byte string: lowercase hex, "-" when empty.
func hx(b []byte) string {
	if len(b) == 0 {
		return "-"
	}
	return hex.EncodeToString(b)
}

func hxs(s string) string { return hx([]byte(s)) }

func unhx(s string) []byte {
	if s == "-" {
		return nil
	}
	b, err := hex.DecodeString(s)
	if err != nil {
		panic("bad hex in case: " + s)
	}
	return b
}

func atoi64(s string) int64 {
	v, err := strconv.ParseInt(s, 10, 64)
	if err != nil {
		panic("bad int in case: " + s)
	}
	return v
}

func atou64(s string) uint64 {
	v, err := strconv.ParseUint(s, 10, 64)
	if err != nil {
		panic("bad uint in case: " + s)
	}
	return v
}

// splitList splits a comma list; "-" is the empty list.
func splitList(s string) []string {
	if s == "-" || s == "" {
		return nil
	}
	return strings.Split(s, ",")
}

func joinList(xs []string) string {
	if len(xs) == 0 {
		return "-"
	}
	return strings.Join(xs, ",")
}

func pick[T any](r *rand.Rand, xs []T) T { return xs[r.Intn(len(xs))] }
