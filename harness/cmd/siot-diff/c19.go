package main

import (
	"fmt"
	"math"
	"math/rand"
	"net"
	"strconv"
	"strings"
	"time"

	"github.com/simpleiot/simpleiot/modbus"
)

// C19 cases (fr = rtu | tcp; regs as in C18):
//   rb <fr> <regs> <fc 1|2> <addr> <count>   -> ok <bits as 0/1 string> | err <class>
//   rr <fr> <regs> <fc 3|4> <addr> <count>   -> ok v,v,.. | err <class>
//   ws <fr> <regs> <fc 5|6> <addr> <value>   -> ok | <regs after>   or   err <class> | <regs after>
//   sq <fr> <regs> <rb|rr:fc:addr:count;..>  -> the results of several reads over ONE link, joined by " ; "
//   fr <fr> <frameHex>                       -> transport Decode of raw bytes: ok id fc dataHex | err <class>
//   fq <k> <frameHex>                        -> the same on the CLIENT side of a TCP link after k encoded requests
//   cv <kind> <v,v,..>                       -> conversions: "<regs> | <back>"

func init() { register("C19", &Prop{Gen: c19Gen, Run: c19Run, Init: c19Init}) }

type dlConn struct {
	net.Conn
	d time.Duration
}

func (c *dlConn) Read(p []byte) (int, error) {
	_ = c.Conn.SetReadDeadline(time.Now().Add(c.d))
	return c.Conn.Read(p)
}

func (c *dlConn) Write(p []byte) (int, error) {
	_ = c.Conn.SetWriteDeadline(time.Now().Add(300 * time.Millisecond))
	return c.Conn.Write(p)
}

type mbLink struct {
	regs   *modbus.Regs
	client *modbus.Client
	srv    *modbus.Server
	uid    byte // the unit id the server answers to and the client addresses
}

// c19UID derives the unit id of a case from its text (1..247; no random choice is consumed, so that the generated cases stay
// the ones they were): server and client of a link use the same id, as an application would; an id that is encoded or
// decoded wrongly makes the server ignore the request ("not for this device") and shows up as a time-out
func c19UID(c string) byte {
	h := 0
	for i := 0; i < len(c); i++ {
		h = (h*31 + int(c[i])) % 247
	}
	return byte(1 + h)
}

func c19Init() {}

// c19Link creates a fresh in-memory client/server pair for one framing and one register file.
func c19Link(fr string, regs *modbus.Regs, uid byte) *mbLink {
	a0, b0 := net.Pipe()
	var a, b net.Conn = &dlConn{a0, time.Hour}, &dlConn{b0, 150 * time.Millisecond}
	var ts, tc modbus.Transport
	if fr == "rtu" {
		ts = modbus.NewRTU(a)
		tc = modbus.NewRTU(b)
	} else {
		ts = modbus.NewTCP(a0, 300*time.Millisecond, modbus.TransportServer)
		tc = modbus.NewTCP(b0, 150*time.Millisecond, modbus.TransportClient)
	}
	srv := modbus.NewServer(uid, ts, regs, 0)
	go srv.Listen(func(error) {}, func() {}, func() {})
	return &mbLink{regs: regs, client: modbus.NewClient(tc, 0), srv: srv, uid: uid}
}

func mbErr(err error) string {
	m := err.Error()
	switch {
	case strings.Contains(m, "timeout") || strings.Contains(m, "deadline"):
		return "err timeout"
	case strings.Contains(m, "CRC error"):
		return "err crc"
	case strings.Contains(m, "Transaction id"):
		return "err txid"
	case strings.Contains(m, "wrong byte count"):
		return "err bytecount"
	case strings.Contains(m, "wrong function code") || strings.Contains(m, "invalid function code"):
		return "err fc"
	case strings.Contains(m, "correct response data"):
		return "err echo"
	case strings.Contains(m, "ot enough data") || strings.Contains(m, "short packet"):
		return "err short"
	}
	return "err other:" + m
}

// c19Read performs one read request on an open link and renders the result like the rb / rr cases
func c19Read(l *mbLink, kind string, fc int, a, n uint16) string {
	if kind == "rb" {
		var bits []bool
		var err error
		if fc == 1 {
			bits, err = l.client.ReadCoils(l.uid, a, n)
		} else {
			bits, err = l.client.ReadDiscreteInputs(l.uid, a, n)
		}
		if err != nil {
			return mbErr(err)
		}
		var sb strings.Builder
		for _, b := range bits {
			if b {
				sb.WriteByte('1')
			} else {
				sb.WriteByte('0')
			}
		}
		if sb.Len() == 0 {
			return "ok -"
		}
		return "ok " + sb.String()
	}
	var vs []uint16
	var err error
	if fc == 3 {
		vs, err = l.client.ReadHoldingRegs(l.uid, a, n)
	} else {
		vs, err = l.client.ReadInputRegs(l.uid, a, n)
	}
	if err != nil {
		return mbErr(err)
	}
	var ss []string
	for _, v := range vs {
		ss = append(ss, strconv.Itoa(int(v)))
	}
	return "ok " + joinList(ss)
}

func c19Run(c string) string {
	f := strings.Fields(c)
	switch f[0] {
	case "sq":
		// sq <fr> <regs> <kind:fc:addr:count;...>: several read requests over ONE link (on TCP the transaction id goes up
		// with every request and every answer must echo the one just sent)
		specs := parseRegs(f[2])
		l := c19Link(f[1], buildRegs(specs), c19UID(c))
		defer func() { go l.srv.Close() }()
		var res []string
		for _, rq := range strings.Split(f[3], ";") {
			q := strings.Split(rq, ":")
			res = append(res, c19Read(l, q[0], int(atoi64(q[1])), uint16(atoi64(q[2])), uint16(atoi64(q[3]))))
		}
		return strings.Join(res, " ; ")
	case "rb", "rr", "ws":
		specs := parseRegs(f[2])
		l := c19Link(f[1], buildRegs(specs), c19UID(c))
		defer func() { go l.srv.Close() }()
		fc, a, n := int(atoi64(f[3])), uint16(atoi64(f[4])), uint16(atoi64(f[5]))
		switch f[0] {
		case "rb":
			var bits []bool
			var err error
			if fc == 1 {
				bits, err = l.client.ReadCoils(l.uid, a, n)
			} else {
				bits, err = l.client.ReadDiscreteInputs(l.uid, a, n)
			}
			if err != nil {
				return mbErr(err)
			}
			var sb strings.Builder
			for _, b := range bits {
				if b {
					sb.WriteByte('1')
				} else {
					sb.WriteByte('0')
				}
			}
			if sb.Len() == 0 {
				return "ok -"
			}
			return "ok " + sb.String()
		case "rr":
			var vs []uint16
			var err error
			if fc == 3 {
				vs, err = l.client.ReadHoldingRegs(l.uid, a, n)
			} else {
				vs, err = l.client.ReadInputRegs(l.uid, a, n)
			}
			if err != nil {
				return mbErr(err)
			}
			var ss []string
			for _, v := range vs {
				ss = append(ss, strconv.Itoa(int(v)))
			}
			return "ok " + joinList(ss)
		default:
			var err error
			if fc == 5 {
				err = l.client.WriteSingleCoil(l.uid, a, n != 0)
			} else {
				err = l.client.WriteSingleReg(l.uid, a, n)
			}
			o := "ok"
			if err != nil {
				o = mbErr(err)
			}
			return o + " | " + regsStr(l.regs, specs)
		}
	case "fr":
		var t modbus.Transport
		if f[1] == "rtu" {
			t = modbus.NewRTU(nil)
		} else {
			t = modbus.NewTCP(nil, time.Second, modbus.TransportServer)
		}
		id, pdu, err := t.Decode(unhx(f[2]))
		if err != nil {
			return mbErr(err)
		}
		return fmt.Sprintf("ok %d %d %s", id, pdu.FunctionCode, hx(pdu.Data))
	case "fq":
		// the CLIENT side of TCP.Decode: after k requests were encoded, only the answer carrying transaction id k is accepted
		t := modbus.NewTCP(nil, time.Second, modbus.TransportClient)
		for i := int64(0); i < atoi64(f[1]); i++ {
			_, _ = t.Encode(1, modbus.ReadHoldingRegs(0, 1))
		}
		id, pdu, err := t.Decode(unhx(f[2]))
		if err != nil {
			return mbErr(err)
		}
		return fmt.Sprintf("ok %d %d %s", id, pdu.FunctionCode, hx(pdu.Data))
	case "cv":
		var in []uint32
		for _, x := range splitList(f[2]) {
			in = append(in, uint32(atou64(x)))
		}
		u16s := func(r []uint16) string {
			var ss []string
			for _, v := range r {
				ss = append(ss, strconv.Itoa(int(v)))
			}
			return joinList(ss)
		}
		u32s := func(r []uint32) string {
			var ss []string
			for _, v := range r {
				ss = append(ss, strconv.FormatUint(uint64(v), 10))
			}
			return joinList(ss)
		}
		switch f[1] {
		case "u32":
			r := modbus.Uint32ToRegs(in)
			return u16s(r) + " | " + u32s(modbus.RegsToUint32(r))
		case "u32s":
			r := modbus.Uint32ToRegsSwapRegs(in)
			return u16s(r) + " | " + u32s(modbus.RegsToUint32SwapWords(r))
		case "i32":
			var iv []int32
			for _, v := range in {
				iv = append(iv, int32(v))
			}
			r := modbus.Int32ToRegs(iv)
			back := modbus.RegsToInt32(r)
			var bu []uint32
			for _, v := range back {
				bu = append(bu, uint32(v))
			}
			return u16s(r) + " | " + u32s(bu)
		case "i32s":
			var iv []int32
			for _, v := range in {
				iv = append(iv, int32(v))
			}
			r := modbus.Int32ToRegsSwapWords(iv)
			back := modbus.RegsToInt32SwapWords(r)
			var bu []uint32
			for _, v := range back {
				bu = append(bu, uint32(v))
			}
			return u16s(r) + " | " + u32s(bu)
		case "f32":
			var fv []float32
			for _, v := range in {
				fv = append(fv, math.Float32frombits(v))
			}
			r := modbus.Float32ToRegs(fv)
			back := modbus.RegsToFloat32(r)
			var bu []uint32
			for _, v := range back {
				bu = append(bu, math.Float32bits(v))
			}
			return u16s(r) + " | " + u32s(bu)
		case "f32s":
			var fv []float32
			for _, v := range in {
				fv = append(fv, math.Float32frombits(v))
			}
			r := modbus.Float32ToRegsSwapWords(fv)
			back := modbus.RegsToFloat32SwapWords(r)
			var bu []uint32
			for _, v := range back {
				bu = append(bu, math.Float32bits(v))
			}
			return u16s(r) + " | " + u32s(bu)
		case "i16":
			var r []uint16
			for _, v := range in {
				r = append(r, uint16(v))
			}
			back := modbus.RegsToInt16(r)
			var bu []uint32
			for _, v := range back {
				bu = append(bu, uint32(int32(v)))
			}
			return u16s(r) + " | " + u32s(bu)
		}
	}
	panic("C19: bad case")
}

func c19Gen(r *rand.Rand, n int, tier string) []string {
	var out []string
	frs := []string{"rtu", "tcp"}
	for i := 0; i < n; i++ {
		fr := pick(r, frs)
		if i%25 == 24 {
			// a sequence of reads over one link
			regs := c18Regs(r)
			specs := parseRegs(regs)
			var rq []string
			for j := 0; j < 2+r.Intn(5); j++ {
				base := 0
				if len(specs) > 0 {
					base = pick(r, specs).addr
				}
				if r.Intn(2) == 0 {
					rq = append(rq, fmt.Sprintf("rb:%d:%d:%d", 1+r.Intn(2), (base*16+r.Intn(16))%65536, pick(r, []int{1, 2, 8, 9, 16, 17})))
				} else {
					rq = append(rq, fmt.Sprintf("rr:%d:%d:%d", 3+r.Intn(2), base, pick(r, []int{1, 2, 3, 7})))
				}
			}
			out = append(out, fmt.Sprintf("sq %s %s %s", fr, regs, strings.Join(rq, ";")))
			continue
		}
		switch k := r.Intn(20); {
		case k < 7:
			regs := c18Regs(r)
			specs := parseRegs(regs)
			base := 0
			if len(specs) > 0 {
				base = pick(r, specs).addr
			}
			cnt := pick(r, []int{1, 2, 7, 8, 9, 12, 15, 16, 17, 24, 100, 1 + r.Intn(40), 2000, 2001, 0})
			addr := base*16 + r.Intn(16)
			if r.Intn(4) == 0 {
				addr = r.Intn(65536)
			}
			out = append(out, fmt.Sprintf("rb %s %s %d %d %d", fr, regs, 1+r.Intn(2), addr%65536, cnt))
		case k < 13:
			regs := c18Regs(r)
			specs := parseRegs(regs)
			base := 0
			if len(specs) > 0 {
				base = pick(r, specs).addr
			}
			cnt := pick(r, []int{1, 2, 3, 7, 16, 97, 98, 99, 100, 124, 125, 126, 1 + r.Intn(20), 0})
			if r.Intn(3) == 0 {
				base = 0
			}
			out = append(out, fmt.Sprintf("rr %s %s %d %d %d", fr, regs, 3+r.Intn(2), base, cnt))
		case k < 16:
			regs := c18Regs(r)
			specs := parseRegs(regs)
			base := r.Intn(40)
			if len(specs) > 0 && r.Intn(4) != 0 {
				base = pick(r, specs).addr
			}
			if r.Intn(2) == 0 {
				out = append(out, fmt.Sprintf("ws %s %s 6 %d %d", fr, regs, base, pick(r, []int{0, 1, 2, 3, 65535, r.Intn(65536)})))
			} else {
				out = append(out, fmt.Sprintf("ws %s %s 5 %d %d", fr, regs, (base*16+r.Intn(16))%65536, r.Intn(2)))
			}
		case k < 18: // raw frames into Decode: valid, corrupted, truncated, random
			var fb []byte
			pdu := modbus.ReadHoldingRegs(uint16(r.Intn(100)), uint16(1+r.Intn(10)))
			if fr == "rtu" {
				fb, _ = modbus.NewRTU(nil).Encode(byte(r.Intn(256)), pdu)
			} else {
				fb, _ = modbus.NewTCP(nil, time.Second, modbus.TransportServer).Encode(byte(r.Intn(256)), pdu)
			}
			switch r.Intn(5) {
			case 0:
				fb[r.Intn(len(fb))] ^= byte(1 << uint(r.Intn(8)))
			case 1:
				fb = fb[:r.Intn(len(fb)+1)]
			case 2:
				fb = make([]byte, r.Intn(12))
				r.Read(fb)
			}
			out = append(out, fmt.Sprintf("fr %s %s", fr, hx(fb)))
			if fr == "tcp" && len(fb) >= 2 {
				// the same answer as the client sees it after k requests, with a transaction id at, next to or far from k
				k := 1 + r.Intn(300)
				got := k + pick(r, []int{0, 0, 0, 1, -1, 2, 256, -256, 255, r.Intn(65536)})
				fq := append([]byte(nil), fb...)
				fq[0], fq[1] = byte(got>>8), byte(got)
				out = append(out, fmt.Sprintf("fq %d %s", k, hx(fq)))
			}
		default:
			kind := pick(r, []string{"u32", "u32s", "i32", "i32s", "f32", "f32s", "i16"})
			var vs []string
			for j := 0; j < 1+r.Intn(3); j++ {
				v := pick(r, []uint32{0, 1, 0xffff, 0x10000, 0x7fffffff, 0x80000000, 0xffffffff, 0x3f800000, 0x12345678, r.Uint32()})
				if kind == "i16" {
					v &= 0xffff
				}
				if (kind == "f32" || kind == "f32s") && (v&0x7f800000 == 0x7f800000) && v&0x7fffff != 0 {
					v = 0x40490fdb // avoid NaN payloads (not comparable through float32 values)
				}
				vs = append(vs, strconv.FormatUint(uint64(v), 10))
			}
			out = append(out, fmt.Sprintf("cv %s %s", kind, joinList(vs)))
		}
	}
	return out
}
