package main

import (
	"fmt"
	"math/rand"
	"sort"
	"strings"
	"time"

	"github.com/nats-io/nats.go"
	"github.com/simpleiot/simpleiot/client"
	"github.com/simpleiot/simpleiot/data"
)

// C07 case: a history "op;op;..." of store ops (np:/ep:, ids made unique, everything under a per-case group G)
// and "w" (let the manager settle), executed while a client.Manager[Vdev] with parent type "vparent" runs.
// At the end a scan is forced, the manager is given time to settle, the running clients are recorded, and
// the manager is stopped.
// observation: run=<parent-id>:<n inside Run>:<children>:<cfg same|differs>,.. overlap=<keys|-> stop=<returned|hang> left=<n>

var c07Srv *busServer
var c07Cases int

func init() {
	register("C07", &Prop{Gen: c07Gen, Run: c07Run, Init: func() {
		caseTimeout = 35 * time.Second
		var err error
		c07Srv, err = busStart("R", "", nil)
		if err != nil {
			panic("C07: " + err.Error())
		}
	}, Done: func() {
		if c07Srv != nil {
			c07Srv.stop()
			c07Srv = nil
		}
	}})
}

// c07Expected: the placements that should have a client now, with their vchild children (used only to
// decide how long to wait; the verdict is the model's).
func c07Expected(nc *nats.Conn, root string) map[string]string {
	out := map[string]string{}
	var walk func(id string, depth int)
	walk = func(id string, depth int) {
		if depth > 12 {
			return
		}
		kids, err := client.GetNodes(nc, id, "all", "", false)
		if noteTmo(err) != nil {
			return
		}
		for _, k := range kids {
			switch k.Type {
			case "vdev":
				ch, _ := client.GetNodes(nc, k.ID, "all", "vchild", false)
				var ids []string
				nec := data.NodeEdgeChildren{NodeEdge: k}
				for _, c := range ch {
					ids = append(ids, c.ID)
					nec.Children = append(nec.Children, data.NodeEdgeChildren{NodeEdge: c})
				}
				// a node whose points do not decode into the client's configuration gets no client (only used to
				// decide how long to wait)
				var cfg Vdev
				if data.Decode(nec, &cfg) != nil {
					continue
				}
				sort.Strings(ids)
				out[k.Parent+"-"+k.ID] = strings.Join(ids, "+")
			case "group", "vparent":
				walk(k.ID, depth+1)
			}
		}
	}
	walk(root, 0)
	return out
}

func c07Running(l *vlog) map[string]string {
	l.mu.Lock()
	defer l.mu.Unlock()
	out := map[string]string{}
	for k, n := range l.running {
		if n > 0 {
			ch := "?"
			if c := l.current[k]; c != nil {
				ch = vChildrenStr(c.config())
			}
			out[k] = fmt.Sprintf("%d:%s", n, ch)
		}
	}
	return out
}

func c07Run(c string) string {
	c07Cases++
	if c07Cases%150 == 0 { // a fresh instance; the old one shuts down in the background
		old := c07Srv
		var err error
		c07Srv, err = busStart("R", "", nil)
		if err != nil {
			panic("C07: " + err.Error())
		}
		go old.stop()
	}
	prefix := fmt.Sprintf("k%d-", c07Cases)
	nc := c07Srv.nc
	saved := c08Srv
	c08Srv = c07Srv // c08Send uses the C08 server handle
	defer func() { c08Srv = saved }()
	if c08Send(prefix, "ep:"+hxs("G")+":"+hxs("R")+":"+fmt.Sprintf("%s,-,0,%s,%d,0,-,-", hxs("nodeType"), hxs("group"), 50)) != "ok" {
		return "SETUP group"
	}
	log := &vlog{entered: make(chan string, 1), release: make(chan struct{})}
	if strings.Contains(";"+strings.Fields(c)[0]+";", ";L;") {
		log.slowStopMs = 40 // clients that need a moment to wind down
	}
	m := client.NewManager(nc, newVClientCtor(log), []string{"vparent"})
	done := make(chan error, 1)
	go func() { done <- m.Run() }()
	zs := 0
	probes := 0
	budget := time.Now().Add(18 * time.Second) // all waiting of a case together stays below the per-case watchdog (35 s here, which also covers the 12 s allowed for the stop)
	settle := func(limit time.Duration) {
		if rem := time.Until(budget); rem < limit {
			limit = rem
		}
		// force a scan: a node-type point somewhere below the root
		zs++
		_ = client.SendEdgePoints(nc, fmt.Sprintf("%szs%d", prefix, zs), prefix+"G", data.Points{{Type: data.PointTypeNodeType, Text: "device", Time: time.Unix(0, 70)}}, true)
		deadline := time.Now().Add(limit)
		for time.Now().Before(deadline) {
			want := c07Expected(nc, "R")
			got := c07Running(log)
			ok := len(want) == len(got)
			for k, ch := range want {
				if got[k] != "1:"+ch {
					ok = false
				}
			}
			if ok {
				// the clients are inside Run; make sure their subscriptions are live as well (the manager
				// subscribes after starting the client): probe each until it answers
				for k := range want {
					i := strings.Index(k, "-"+prefix)
					if i < 0 {
						continue
					}
					id := k[i+1:]
					live := false
					for j := 0; j < 100 && !live && time.Now().Before(deadline); j++ {
						probes++
						_ = client.SendNodePoints(nc, id, data.Points{{Type: "zzprobe", Text: fmt.Sprint(probes), Origin: "zz", Time: time.Unix(0, 60+int64(probes))}}, true)
						for t := 0; t < 10 && !live; t++ {
							log.mu.Lock()
							cl := log.current[k]
							log.mu.Unlock()
							if cl != nil {
								for _, e := range log.snapshot() {
									if e.inst == cl.inst && strings.HasPrefix(e.what, "P:"+hxs(id)+":"+hxs("zzprobe")) {
										live = true
									}
								}
							}
							if !live {
								time.Sleep(2 * time.Millisecond)
							}
						}
					}
				}
				// a client that is being restarted (a life-cycle edge point reached the manager's callback after the client
				// had started: stop, then a new scan) still counts as running while its Stop is under way, and is gone for a
				// moment after it: the state only counts as settled when it is the same again a little later
				insts := func() string {
					log.mu.Lock()
					defer log.mu.Unlock()
					var ks []string
					for k, c := range log.current {
						if c != nil {
							ks = append(ks, fmt.Sprintf("%s=%d/%d", k, c.inst, log.running[k]))
						}
					}
					sort.Strings(ks)
					return strings.Join(ks, ",")
				}
				before := insts()
				time.Sleep(120 * time.Millisecond)
				if insts() == before && fmt.Sprint(c07Running(log)) == fmt.Sprint(got) {
					return
				}
				continue
			}
			time.Sleep(2 * time.Millisecond)
		}
	}
	var acc []string
	for _, op := range strings.Split(strings.Fields(c)[0], ";") {
		if op == "S" || op == "X" || op == "L" { // settled / racing history (generator's label, used by the oracle); slow-stopping clients
			continue
		}
		if op == "w" {
			settle(2 * time.Second)
			continue
		}
		acc = append(acc, c08Send(prefix, op))
	}
	settle(9 * time.Second) // returns as soon as the running clients are the expected ones; generous for a busy machine
	// record
	got := c07Running(log)
	var keys []string
	for k := range got {
		keys = append(keys, k)
	}
	sort.Strings(keys)
	var runs []string
	for _, k := range keys {
		cfg := "?"
		log.mu.Lock()
		cl := log.current[k]
		log.mu.Unlock()
		if cl != nil {
			i := strings.Index(k, "-"+prefix)
			if i >= 0 {
				if want, err := vStoreCfg(nc, k[:i], k[i+1:]); err == nil {
					if vCfgStr(want) == vCfgStr(cl.config()) {
						cfg = "same"
					} else {
						cfg = "differs"
					}
				} else {
					cfg = "gone"
				}
			}
		}
		runs = append(runs, strings.ReplaceAll(k+":"+got[k], prefix, "")+":"+cfg)
	}
	log.mu.Lock()
	ov := append([]string(nil), log.overlap...)
	log.mu.Unlock()
	sort.Strings(ov)
	m.Stop(nil)
	stop := "returned"
	select {
	case <-done:
	case <-time.After(12 * time.Second):
		stop = "hang"
	}
	left := len(c07Running(log))
	_ = client.SendEdgePoints(nc, prefix+"G", "R", data.Points{{Type: data.PointTypeTombstone, Value: 1, Time: time.Unix(0, 100000)}}, true)
	return fmt.Sprintf("%s ## run=%s overlap=%s stop=%s left=%d", strings.Join(acc, ","), joinListSep(runs, ","),
		strings.ReplaceAll(joinListSep(ov, ","), prefix, ""), stop, left)
}

func c07Gen(r *rand.Rand, n int, tier string) []string {
	var out []string
	for i := 0; i < n; i++ {
		clock := int64(100)
		tick := func() int64 { clock += 2; return clock }
		nt := func(t string) string { return fmt.Sprintf("%s,-,0,%s,%d,0,-,-", hxs("nodeType"), hxs(t), tick()) }
		tomb := func(v int) string {
			return fmt.Sprintf("%s,-,%s,-,%d,0,-,-", hxs("tombstone"), valStr(float64(v)), tick())
		}
		settled := r.Intn(3) > 0
		ops := []string{"X"}
		if settled {
			ops[0] = "S"
		}
		if r.Intn(4) == 0 {
			ops = append(ops, "L")
		}
		type edge struct{ up, down, typ string }
		var edges []edge
		add := func(id, parent, typ string) {
			if settled && typ == "vchild" {
				ops = append(ops, "w")
			}
			for _, e := range edges {
				if e.up == parent && e.down == id {
					return
				}
			}
			ops = append(ops, "ep:"+hxs(id)+":"+hxs(parent)+":"+nt(typ))
			edges = append(edges, edge{parent, id, typ})
		}
		containers := []string{"G"}
		// containers: a group, a configured parent type, a plain device (not a parent type)
		if r.Intn(2) == 0 {
			add("g", "G", "group")
			containers = append(containers, "g")
		}
		if r.Intn(3) == 0 {
			add("vp", pick(r, containers), "vparent")
			containers = append(containers, "vp")
		}
		if r.Intn(4) == 0 {
			add("dev", "G", "device")
			containers = append(containers, "dev")
		}
		if r.Intn(3) == 0 {
			ops = append(ops, "w")
		}
		toggled := map[string]bool{}
		var vdevs []string
		add("c1", pick(r, containers), "vdev")
		vdevs = append(vdevs, "c1")
		// sometimes a client node "cb" that holds, from before its first placement, a point its configuration cannot
		// take (a slice element keyed by something that is no index): newClientState fails for it at every scan, so it
		// never has a client, while the manager keeps serving all the others
		cids := []string{"c1", "c1", "c2"}
		if r.Intn(4) == 0 {
			ops = append(ops, "np:"+hxs("cb")+":"+fmt.Sprintf("%s,%s,%s,-,%d,0,-,-", hxs("level"), hxs(pick(r, []string{"abc", "-1", "1e3"})), valStr(1), tick()))
			cids = []string{"c1", "cb", "cb", "c2"}
			add("cb", pick(r, containers), "vdev")
			vdevs = append(vdevs, "cb")
		}
		for s := 0; s < 2+r.Intn(7); s++ {
			switch k := r.Intn(14); {
			case k < 4: // a client node (new, or another placement of an existing one)
				id := pick(r, cids)
				add(id, pick(r, containers), "vdev")
				vdevs = append(vdevs, id)
			case k < 6 && len(vdevs) > 0: // child added
				kid, par := pick(r, []string{"k1", "k2"}), pick(r, vdevs)
				add(kid, par, "vchild")
				if r.Intn(4) == 0 {
					// ... then deleted and undeleted again (each change on its own): the client is restarted each time and
					// ends up with the child back in its configuration
					for _, v := range []int{1, 0} {
						if settled {
							ops = append(ops, "w")
						}
						ops = append(ops, "ep:"+hxs(kid)+":"+hxs(par)+":"+tomb(v))
					}
				}
			case k < 10 && len(edges) > 0: // delete / undelete an edge (client placement, child, container)
				e := pick(r, edges)
				if settled && e.typ == "vchild" {
					ops = append(ops, "w")
				}
				if e.typ == "vdev" {
					// a placement deleted and at once undeleted keeps the client's subscription callback busy for up
					// to 5 s (it waits to see the deletion in the store) before the client is restarted — longer than
					// a case waits: histories toggle a placement at most once
					if toggled[e.up+"/"+e.down] {
						continue
					}
					toggled[e.up+"/"+e.down] = true
				}
				ops = append(ops, "ep:"+hxs(e.down)+":"+hxs(e.up)+":"+tomb(pick(r, []int{1, 1, 0})))
			case k < 12 && len(vdevs) > 0: // configuration update from another party, to a settled manager
				// (an update racing with a client's construction is the open C08 finding)
				if settled {
					ops = append(ops, "w")
				}
				ops = append(ops, "np:"+hxs(pick(r, vdevs))+":"+fmt.Sprintf("%s,-,%s,%s,%d,0,%s,-", hxs(pick(r, []string{"description", "value"})),
					valStr(float64(r.Intn(9))), hxs(pick(r, []string{"a", "b"})), tick(), hxs("ext")))
			default:
				ops = append(ops, "w")
			}
		}
		// often end by deleting every placement of every client node, or the container above them
		if r.Intn(6) == 0 {
			for _, e := range edges {
				if e.typ == "vdev" {
					ops = append(ops, "ep:"+hxs(e.down)+":"+hxs(e.up)+":"+tomb(1))
				}
			}
		} else if r.Intn(5) == 0 {
			for _, e := range edges {
				if e.up == "G" && (e.typ == "group" || e.typ == "vparent") {
					ops = append(ops, "ep:"+hxs(e.down)+":"+hxs(e.up)+":"+tomb(1))
				}
			}
		}
		out = append(out, strings.Join(ops, ";"))
	}
	return out
}
