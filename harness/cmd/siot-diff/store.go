package main

import (
	"fmt"
	"math"
	"os"
	"path/filepath"
	"sort"
	"strconv"
	"strings"
	"sync/atomic"
	"syscall"
	"time"

	"github.com/nats-io/nats.go"
	"github.com/simpleiot/simpleiot/client"
	"github.com/simpleiot/simpleiot/data"
	"github.com/simpleiot/simpleiot/store"
)

// Store-level op sequences (C01, C03, C05, C06 share them). A case is a list of ops separated by ';'
// applied to a fresh SQLite store (root id "R"):
//   np:<nodeHex>:<points>            nodePoints
//   ep:<nodeHex>:<parentHex>:<points> edgePoints
//   up:<nodeHex>:<0|1>               up(node, includeDeleted)  (result is part of the op results)
// points = point+point..; point = typeHex,keyHex,valueBits|nan,textHex,timeNs,tomb,originHex,dataHex
// observation: "<dump0> ## <op results ','> ## <dump1>"
//   dump = root=<hex> | E up,down,type,hash/<edge points> ... | N node/<points> ...  (rows sorted)

var storeSeq int64

func storeDir() string {
	for _, d := range []string{"/dev/shm", os.TempDir()} {
		if st, err := os.Stat(d); err == nil && st.IsDir() {
			p := filepath.Join(d, fmt.Sprintf("siot-verif-%d", os.Getpid()))
			if os.MkdirAll(p, 0o755) == nil {
				return p
			}
		}
	}
	return "."
}

// cleanStoreDirs removes the store directories that earlier harness processes left behind (a process that was killed, or
// ended through os.Exit, cannot remove its own): every directory siot-verif-<pid> whose process no longer exists. The store
// files live in /dev/shm, i.e. in memory, so leftovers of many runs add up.
func cleanStoreDirs() {
	for _, d := range []string{"/dev/shm", os.TempDir()} {
		ms, _ := filepath.Glob(filepath.Join(d, "siot-verif-[0-9]*"))
		for _, m := range ms {
			pid, err := strconv.Atoi(strings.TrimPrefix(filepath.Base(m), "siot-verif-"))
			if err != nil || pid == os.Getpid() {
				continue
			}
			if syscall.Kill(pid, 0) == syscall.ESRCH {
				os.RemoveAll(m)
			}
		}
	}
}

func newStore() (*store.DbSqlite, string) {
	f := filepath.Join(storeDir(), fmt.Sprintf("s%d.sqlite", atomic.AddInt64(&storeSeq, 1)))
	for _, suf := range []string{"", "-wal", "-shm"} {
		os.Remove(f + suf)
	}
	db, err := store.NewSqliteDb(f, "R")
	if err != nil {
		panic("NewSqliteDb: " + err.Error())
	}
	return db, f
}

func closeStore(db *store.DbSqlite, f string) {
	db.Close()
	for _, suf := range []string{"", "-wal", "-shm"} {
		os.Remove(f + suf)
	}
}

func spStr(p data.Point, null bool) string {
	v := valStr(p.Value)
	if null {
		v = "null"
	}
	return fmt.Sprintf("%s,%s,%s,%s,%d,%d,%s,%s", hxs(p.Type), hxs(p.Key), v, hxs(p.Text), p.Time.UnixNano(), p.Tombstone, hxs(p.Origin), hx(p.Data))
}

func parseSpts(s string) data.Points {
	if s == "-" || s == "" {
		return nil
	}
	var ps data.Points
	for _, x := range strings.Split(s, "+") {
		ps = append(ps, parsePt(x))
	}
	return ps
}

func storeDump(db *store.DbSqlite) string {
	edges, npts, epts, root, err := db.VerifDump()
	if err != nil {
		return "DUMPERR " + err.Error()
	}
	byEdge := map[string][]string{}
	for _, r := range epts {
		byEdge[r.Owner] = append(byEdge[r.Owner], spStr(r.Point, r.ValueNull))
	}
	var es []string
	for _, e := range edges {
		pts := byEdge[e.ID]
		sort.Strings(pts)
		es = append(es, fmt.Sprintf("E %s,%s,%s,%d/%s", hxs(e.Up), hxs(e.Down), hxs(e.Type), e.Hash, joinListSep(pts, "+")))
	}
	sort.Strings(es)
	byNode := map[string][]string{}
	for _, r := range npts {
		byNode[r.Owner] = append(byNode[r.Owner], spStr(r.Point, r.ValueNull))
	}
	var ns []string
	for id, pts := range byNode {
		sort.Strings(pts)
		ns = append(ns, fmt.Sprintf("N %s/%s", hxs(id), strings.Join(pts, "+")))
	}
	sort.Strings(ns)
	return "root=" + hxs(root) + " | " + joinListSep(es, " ") + " | " + joinListSep(ns, " ")
}

// busDump: the content of an instance as the bus shows it: every edge reachable from the root (deleted ones included)
// with its hash and edge points, every reachable node with its points — in the format of storeDump.
func busDump(nc *nats.Conn) string {
	roots, err := client.GetNodes(nc, "root", "all", "", true)
	if noteTmo(err) != nil || len(roots) < 1 {
		return "DUMPERR no root"
	}
	var es []string
	nodes := map[string]string{}
	seenEdge := map[string]bool{}
	var walk func(n data.NodeEdge, depth int)
	walk = func(n data.NodeEdge, depth int) {
		k := n.Parent + "/" + n.ID
		if seenEdge[k] || depth > 40 {
			return
		}
		seenEdge[k] = true
		var eps, nps []string
		for _, p := range n.EdgePoints {
			eps = append(eps, spStr(p, false))
		}
		sort.Strings(eps)
		es = append(es, fmt.Sprintf("E %s,%s,%s,%d/%s", hxs(n.Parent), hxs(n.ID), hxs(n.Type), n.Hash, joinListSep(eps, "+")))
		for _, p := range n.Points {
			nps = append(nps, spStr(p, false))
		}
		if len(nps) > 0 {
			sort.Strings(nps)
			nodes[n.ID] = fmt.Sprintf("N %s/%s", hxs(n.ID), strings.Join(nps, "+"))
		}
		kids, err := client.GetNodes(nc, n.ID, "all", "", true)
		if noteTmo(err) != nil {
			return
		}
		for _, c := range kids {
			walk(c, depth+1)
		}
	}
	for _, r := range roots {
		walk(r, 0)
	}
	sort.Strings(es)
	var ns []string
	for _, v := range nodes {
		ns = append(ns, v)
	}
	sort.Strings(ns)
	return "root=" + hxs(roots[0].ID) + " | " + joinListSep(es, " ") + " | " + joinListSep(ns, " ")
}

// storeRunBus: the same ops on a fresh in-process instance, sent and read back over the bus
func storeRunBus(c string) string {
	b, err := busStart("R", "", nil)
	if err != nil {
		return "SETUP " + err.Error()
	}
	defer b.stop()
	// the instance writes its application version to the root node shortly after start: wait for it, so that it is
	// part of the initial content
	for i := 0; i < 200; i++ {
		if ns, err := client.GetNodes(b.nc, "root", "all", "", false); err == nil && len(ns) > 0 {
			if _, ok := ns[0].Points.Find(data.PointTypeVersionApp, ""); ok {
				break
			}
		}
		time.Sleep(5 * time.Millisecond)
	}
	d0 := busDump(b.nc)
	var res []string
	for _, op := range strings.Split(strings.Fields(c)[0], ";") {
		p := strings.Split(op, ":")
		var err error
		switch p[0] {
		case "np":
			err = noteTmo(client.SendNodePoints(b.nc, string(unhx(p[1])), parseSpts(p[2]), true))
		case "ep":
			err = noteTmo(client.SendEdgePoints(b.nc, string(unhx(p[1])), string(unhx(p[2])), parseSpts(p[3]), true))
		default:
			panic("store bus: bad op " + p[0])
		}
		if err != nil {
			res = append(res, "err")
		} else {
			res = append(res, "ok")
		}
	}
	return d0 + " ## " + strings.Join(res, ",") + " ## " + busDump(b.nc)
}

func storeRun(c string) string {
	if strings.HasPrefix(c, "B=") {
		return storeRunBus(strings.TrimPrefix(c, "B="))
	}
	db, f := newStore()
	defer closeStore(db, f)
	d0 := storeDump(db)
	var res []string
	for _, op := range strings.Split(strings.Fields(c)[0], ";") {
		p := strings.Split(op, ":")
		switch p[0] {
		case "np":
			if err := db.VerifNodePoints(string(unhx(p[1])), parseSpts(p[2])); err != nil {
				res = append(res, "err")
			} else {
				res = append(res, "ok")
			}
		case "ep":
			if err := db.VerifEdgePoints(string(unhx(p[1])), string(unhx(p[2])), parseSpts(p[3])); err != nil {
				res = append(res, "err")
			} else {
				res = append(res, "ok")
			}
		case "up":
			ups, err := db.VerifUp(string(unhx(p[1])), p[2] == "1")
			if err != nil {
				res = append(res, "err")
			} else {
				var hs []string
				for _, u := range ups {
					hs = append(hs, hxs(u))
				}
				sort.Strings(hs)
				res = append(res, "up="+joinListSep(hs, "/"))
			}
		default:
			panic("store: bad op " + p[0])
		}
	}
	d1 := storeDump(db)
	// "a store verification finds nothing to repair": verification in repair mode must leave every stored hash as it is
	// (the dump before it is the one that is judged, so that a repair cannot hide a wrong hash)
	v := "verify=same"
	if err := db.VerifVerifyHashes(true); err != nil {
		v = "verify=error"
	} else if storeDump(db) != d1 {
		v = "verify=changed"
	}
	return d0 + " ## " + strings.Join(res, ",") + " ## " + d1 + " ## " + v
}

var _ = math.NaN
