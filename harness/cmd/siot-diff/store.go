package main

import (
	"fmt"
	"math"
	"os"
	"path/filepath"
	"sort"
	"strings"
	"sync/atomic"

	"github.com/simpleiot/simpleiot/data"
	"github.com/simpleiot/simpleiot/store"
)

// Store-level op sequences (C01, C03, C05, C06 share them). A case is a list of ops separated by ';'
// applied to a fresh SQLite store (root id "R"):
//   np:<nodeHex>:<points>            nodePoints
//   ep:<nodeHex>:<parentHex>:<points> edgePoints
//   up:<nodeHex>:<0|1>               up(node, includeDeleted)  (result is part of the op results)
// points = point+point..; point = typeHex,keyHex,valueBits|nan,textHex,timeNs,tomb,originHex,dataHex
// observation: "<dump0> ## <op results ','> ## <dump1>"
//   dump = root=<hex> | E up,down,type,hash/<edge points> ... | N node/<points> ...  (rows sorted)

var storeSeq int64

func storeDir() string {
	for _, d := range []string{"/dev/shm", os.TempDir()} {
		if st, err := os.Stat(d); err == nil && st.IsDir() {
			p := filepath.Join(d, fmt.Sprintf("siot-verif-%d", os.Getpid()))
			if os.MkdirAll(p, 0o755) == nil {
				return p
			}
		}
	}
	return "."
}

func newStore() (*store.DbSqlite, string) {
	f := filepath.Join(storeDir(), fmt.Sprintf("s%d.sqlite", atomic.AddInt64(&storeSeq, 1)))
	for _, suf := range []string{"", "-wal", "-shm"} {
		os.Remove(f + suf)
	}
	db, err := store.NewSqliteDb(f, "R")
	if err != nil {
		panic("NewSqliteDb: " + err.Error())
	}
	return db, f
}

func closeStore(db *store.DbSqlite, f string) {
	db.Close()
	for _, suf := range []string{"", "-wal", "-shm"} {
		os.Remove(f + suf)
	}
}

func spStr(p data.Point, null bool) string {
	v := valStr(p.Value)
	if null {
		v = "null"
	}
	return fmt.Sprintf("%s,%s,%s,%s,%d,%d,%s,%s", hxs(p.Type), hxs(p.Key), v, hxs(p.Text), p.Time.UnixNano(), p.Tombstone, hxs(p.Origin), hx(p.Data))
}

func parseSpts(s string) data.Points {
	if s == "-" || s == "" {
		return nil
	}
	var ps data.Points
	for _, x := range strings.Split(s, "+") {
		ps = append(ps, parsePt(x))
	}
	return ps
}

func storeDump(db *store.DbSqlite) string {
	edges, npts, epts, root, err := db.VerifDump()
	if err != nil {
		return "DUMPERR " + err.Error()
	}
	byEdge := map[string][]string{}
	for _, r := range epts {
		byEdge[r.Owner] = append(byEdge[r.Owner], spStr(r.Point, r.ValueNull))
	}
	var es []string
	for _, e := range edges {
		pts := byEdge[e.ID]
		sort.Strings(pts)
		es = append(es, fmt.Sprintf("E %s,%s,%s,%d/%s", hxs(e.Up), hxs(e.Down), hxs(e.Type), e.Hash, joinListSep(pts, "+")))
	}
	sort.Strings(es)
	byNode := map[string][]string{}
	for _, r := range npts {
		byNode[r.Owner] = append(byNode[r.Owner], spStr(r.Point, r.ValueNull))
	}
	var ns []string
	for id, pts := range byNode {
		sort.Strings(pts)
		ns = append(ns, fmt.Sprintf("N %s/%s", hxs(id), strings.Join(pts, "+")))
	}
	sort.Strings(ns)
	return "root=" + hxs(root) + " | " + joinListSep(es, " ") + " | " + joinListSep(ns, " ")
}

func storeRun(c string) string {
	db, f := newStore()
	defer closeStore(db, f)
	d0 := storeDump(db)
	var res []string
	for _, op := range strings.Split(strings.Fields(c)[0], ";") {
		p := strings.Split(op, ":")
		switch p[0] {
		case "np":
			if err := db.VerifNodePoints(string(unhx(p[1])), parseSpts(p[2])); err != nil {
				res = append(res, "err")
			} else {
				res = append(res, "ok")
			}
		case "ep":
			if err := db.VerifEdgePoints(string(unhx(p[1])), string(unhx(p[2])), parseSpts(p[3])); err != nil {
				res = append(res, "err")
			} else {
				res = append(res, "ok")
			}
		case "up":
			ups, err := db.VerifUp(string(unhx(p[1])), p[2] == "1")
			if err != nil {
				res = append(res, "err")
			} else {
				var hs []string
				for _, u := range ups {
					hs = append(hs, hxs(u))
				}
				sort.Strings(hs)
				res = append(res, "up="+joinListSep(hs, "/"))
			}
		default:
			panic("store: bad op " + p[0])
		}
	}
	return d0 + " ## " + strings.Join(res, ",") + " ## " + storeDump(db)
}

var _ = math.NaN
