package main

import (
	"fmt"
	"go/ast"
	"sort"
	"strings"
)

// intLits lists all integer literals of a function body in source order.
func intLits(rel, fn string) []string {
	fd := funcDecl(rel, fn)
	if fd == nil {
		return nil
	}
	var out []string
	ast.Inspect(fd.Body, func(n ast.Node) bool {
		if bl, ok := n.(*ast.BasicLit); ok {
			if v, ok := intLit(bl); ok {
				out = append(out, fmt.Sprint(v))
			}
		}
		return true
	})
	return out
}

func init() {
	reg("ModbusFraming", func(g *gen) {
		g.int("mbMaxADULen", "modbus/modbus.go", "maxADULen")
		g.raw("/-- modbus/crc.go: integer literals of RtuCrc, in source order -/\ndef mbRtuCrcLits : List String := " + leanStrList(intLits("modbus/crc.go", "RtuCrc")))
		g.raw("/-- modbus/crc.go: comparisons of CheckRtuCrc -/\ndef mbCheckRtuCrcCmps : List String := " + leanStrList(cmpAny("modbus/crc.go", "CheckRtuCrc")))
		g.raw("/-- modbus/tcp.go: comparisons of TCP.Decode -/\ndef mbTcpDecodeCmps : List String := " + leanStrList(cmpAny("modbus/tcp.go", "Decode")))
		g.raw("/-- modbus/tcp.go: integer literals of TCP.Encode -/\ndef mbTcpEncodeLits : List String := " + leanStrList(intLits("modbus/tcp.go", "Encode")))
		g.raw("/-- modbus/pdu.go: comparisons of RespReadBitsCount -/\ndef mbRespReadBitsCountCmps : List String := " + leanStrList(cmpAny("modbus/pdu.go", "RespReadBitsCount")))
	})
	reg("Modbus", func(g *gen) {
		f := "modbus/modbus.go"
		for _, n := range []string{"FuncCodeReadDiscreteInputs", "FuncCodeReadCoils", "FuncCodeWriteSingleCoil", "FuncCodeWriteMultipleCoils",
			"FuncCodeReadInputRegisters", "FuncCodeReadHoldingRegisters", "FuncCodeWriteSingleRegister", "FuncCodeWriteMultipleRegisters",
			"ExcIllegalFunction", "ExcIllegalAddress", "ExcIllegalValue", "ExcServerDeviceFailure",
			"WriteCoilValueOn", "WriteCoilValueOff", "maxReadBits", "maxReadRegs", "maxWriteBits", "maxWriteRegs", "maxAddress"} {
			g.int("mb"+n, f, n)
		}
		// minRequestLen: map literal keyed by function code constants
		var pairs []string
		if cl, ok := valueOf(f, "minRequestLen").(*ast.CompositeLit); ok {
			type kv struct{ k, v int64 }
			var kvs []kv
			for _, e := range cl.Elts {
				if p, ok := e.(*ast.KeyValueExpr); ok {
					var k int64 = -1
					if id, ok := p.Key.(*ast.Ident); ok {
						k, _ = intLit(valueOf(f, id.Name))
					} else {
						k, _ = intLit(p.Key)
					}
					v, _ := intLit(p.Value)
					kvs = append(kvs, kv{k, v})
				}
			}
			sort.Slice(kvs, func(i, j int) bool { return kvs[i].k < kvs[j].k })
			for _, x := range kvs {
				pairs = append(pairs, fmt.Sprintf("(%d, %d)", x.k, x.v))
			}
		} else {
			problems = append(problems, "modbus/modbus.go: minRequestLen is not a map literal")
		}
		g.raw("/-- modbus/modbus.go: minRequestLen, sorted by function code -/\ndef mbMinRequestLen : List (Nat × Nat) := [" + strings.Join(pairs, ", ") + "]")
		g.raw("/-- modbus/pdu.go: comparisons in ProcessRequest, in source order -/\ndef mbProcessRequestCmps : List String := " + leanStrList(cmpAny("modbus/pdu.go", "ProcessRequest")))
	})
}
