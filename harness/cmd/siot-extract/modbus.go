package main

import (
	"fmt"
	"go/ast"
	"sort"
	"strings"
)

func init() {
	reg("Modbus", func(g *gen) {
		f := "modbus/modbus.go"
		for _, n := range []string{"FuncCodeReadDiscreteInputs", "FuncCodeReadCoils", "FuncCodeWriteSingleCoil", "FuncCodeWriteMultipleCoils",
			"FuncCodeReadInputRegisters", "FuncCodeReadHoldingRegisters", "FuncCodeWriteSingleRegister", "FuncCodeWriteMultipleRegisters",
			"ExcIllegalFunction", "ExcIllegalAddress", "ExcIllegalValue", "ExcServerDeviceFailure",
			"WriteCoilValueOn", "WriteCoilValueOff", "maxReadBits", "maxReadRegs", "maxWriteBits", "maxWriteRegs", "maxAddress"} {
			g.int("mb"+n, f, n)
		}
		// minRequestLen: map literal keyed by function code constants
		var pairs []string
		if cl, ok := valueOf(f, "minRequestLen").(*ast.CompositeLit); ok {
			type kv struct{ k, v int64 }
			var kvs []kv
			for _, e := range cl.Elts {
				if p, ok := e.(*ast.KeyValueExpr); ok {
					var k int64 = -1
					if id, ok := p.Key.(*ast.Ident); ok {
						k, _ = intLit(valueOf(f, id.Name))
					} else {
						k, _ = intLit(p.Key)
					}
					v, _ := intLit(p.Value)
					kvs = append(kvs, kv{k, v})
				}
			}
			sort.Slice(kvs, func(i, j int) bool { return kvs[i].k < kvs[j].k })
			for _, x := range kvs {
				pairs = append(pairs, fmt.Sprintf("(%d, %d)", x.k, x.v))
			}
		} else {
			problems = append(problems, "modbus/modbus.go: minRequestLen is not a map literal")
		}
		g.raw("/-- modbus/modbus.go: minRequestLen, sorted by function code -/\ndef mbMinRequestLen : List (Nat × Nat) := [" + strings.Join(pairs, ", ") + "]")
		g.raw("/-- modbus/pdu.go: comparisons in ProcessRequest, in source order -/\ndef mbProcessRequestCmps : List String := " + leanStrList(cmpAny("modbus/pdu.go", "ProcessRequest")))
	})
}
