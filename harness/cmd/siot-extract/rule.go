package main

import (
	"go/ast"
	"strings"
)

// assignsTo lists, in source order, the right-hand sides of every assignment whose first
// left-hand side is the identifier `name` inside a function (closures included).
func assignsTo(rel, fn, name string) []string {
	fd := funcDecl(rel, fn)
	f := load(rel)
	if fd == nil || f == nil {
		return nil
	}
	var out []string
	ast.Inspect(fd.Body, func(n ast.Node) bool {
		as, ok := n.(*ast.AssignStmt)
		if !ok || len(as.Lhs) == 0 {
			return true
		}
		if id, ok := as.Lhs[0].(*ast.Ident); ok && id.Name == name {
			var rs []string
			for _, r := range as.Rhs {
				rs = append(rs, exprStr(f.fset, r))
			}
			out = append(out, strings.Join(rs, ", "))
		}
		return true
	})
	return out
}

// caseLabels lists the labels of every case clause of a function in source order ("default" for default).
func caseLabels(rel, fn string) []string {
	fd := funcDecl(rel, fn)
	f := load(rel)
	if fd == nil || f == nil {
		return nil
	}
	var out []string
	ast.Inspect(fd.Body, func(n ast.Node) bool {
		cc, ok := n.(*ast.CaseClause)
		if !ok {
			return true
		}
		if len(cc.List) == 0 {
			out = append(out, "default")
		}
		for _, e := range cc.List {
			out = append(out, exprStr(f.fset, e))
		}
		return true
	})
	return out
}

// ifConds lists every if-condition of a function in source order.
func ifConds(rel, fn string) []string {
	fd := funcDecl(rel, fn)
	f := load(rel)
	if fd == nil || f == nil {
		return nil
	}
	var out []string
	ast.Inspect(fd.Body, func(n ast.Node) bool {
		if is, ok := n.(*ast.IfStmt); ok {
			out = append(out, exprStr(f.fset, is.Cond))
		}
		return true
	})
	return out
}

// ifCondsTop is ifConds without descending into function literals (closures).
func ifCondsTop(rel, fn string) []string {
	fd := funcDecl(rel, fn)
	f := load(rel)
	if fd == nil || f == nil {
		return nil
	}
	var out []string
	ast.Inspect(fd.Body, func(n ast.Node) bool {
		if _, ok := n.(*ast.FuncLit); ok {
			return false
		}
		if is, ok := n.(*ast.IfStmt); ok {
			out = append(out, exprStr(f.fset, is.Cond))
		}
		return true
	})
	return out
}

func init() {
	reg("Rule", func(g *gen) {
		const rel = "client/rule.go"
		g.raw("def processActiveAssigns : List String := " + leanStrList(assignsTo(rel, "ruleProcessPoints", "active")))
		g.raw("def processCases : List String := " + leanStrList(caseLabels(rel, "ruleProcessPoints")))
		g.raw("def processIfs : List String := " + leanStrList(ifConds(rel, "ruleProcessPoints")))
		g.raw("def processRanges : List String := " + leanStrList(rangeExprs(rel, "ruleProcessPoints")))
		g.raw("def actionsCases : List String := " + leanStrList(caseLabels(rel, "ruleRunActions")))
		g.raw("def actionsIfs : List String := " + leanStrList(ifConds(rel, "ruleRunActions")))
		g.raw("def actionsSends : List String := " + leanStrList(callsOf(rel, "ruleRunActions", "sendPoint")))
		g.raw("def inactiveSends : List String := " + leanStrList(callsOf(rel, "ruleInactiveActions", "sendPoint")))
		g.raw("def sendPointIfs : List String := " + leanStrList(ifConds(rel, "sendPoint")))
		g.raw("def sendPointOrigin : List String := " + leanStrList(assignsToSel(rel, "sendPoint", "Origin")))
		g.raw("def runIfs : List String := " + leanStrList(ifConds(rel, "Run")))
		g.raw("def runProcess : List String := " + leanStrList(callsOf(rel, "Run", "ruleProcessPoints")))
		g.raw("def runRunActions : List String := " + leanStrList(callsOf(rel, "Run", "ruleRunActions")))
		g.raw("def runInactiveActions : List String := " + leanStrList(callsOf(rel, "Run", "ruleInactiveActions")))
		g.raw("def runCalls : List String := " + leanStrList(callsOf(rel, "Run", "run")))
		g.raw("def processErrorIfs : List String := " + leanStrList(ifConds(rel, "processError")))
		for _, c := range []string{"PointValuePointValue", "PointValueSchedule", "PointValueNumber", "PointValueOnOff", "PointValueText",
			"PointValueGreaterThan", "PointValueLessThan", "PointValueEqual", "PointValueNotEqual", "PointValueContains",
			"PointTypeTrigger", "PointTypeActive", "PointTypeError", "PointValueSetValue"} {
			g.str("s"+c, "data/schema.go", c)
		}
	})
}

// assignsToSel: right-hand sides of assignments to `<x>.<sel>`.
func assignsToSel(rel, fn, sel string) []string {
	fd := funcDecl(rel, fn)
	f := load(rel)
	if fd == nil || f == nil {
		return nil
	}
	var out []string
	ast.Inspect(fd.Body, func(n ast.Node) bool {
		as, ok := n.(*ast.AssignStmt)
		if !ok || len(as.Lhs) == 0 {
			return true
		}
		if se, ok := as.Lhs[0].(*ast.SelectorExpr); ok && se.Sel.Name == sel {
			out = append(out, exprStr(f.fset, as.Rhs[0]))
		}
		return true
	})
	return out
}

// assignsOp lists "lhs op rhs" of every assignment with the given operator token (e.g. "+=").
func assignsOp(rel, fn, op string) []string {
	fd := funcDecl(rel, fn)
	f := load(rel)
	if fd == nil || f == nil {
		return nil
	}
	var out []string
	ast.Inspect(fd.Body, func(n ast.Node) bool {
		as, ok := n.(*ast.AssignStmt)
		if ok && as.Tok.String() == op && len(as.Lhs) == 1 && len(as.Rhs) == 1 {
			out = append(out, exprStr(f.fset, as.Lhs[0])+" "+op+" "+exprStr(f.fset, as.Rhs[0]))
		}
		return true
	})
	return out
}
