package main

import (
	"go/ast"
	"strings"
)

// returnExprs lists the results of every return statement of a function, in source order.
func returnExprs(rel, fn string) []string {
	fd := funcDecl(rel, fn)
	f := load(rel)
	if fd == nil || f == nil {
		return nil
	}
	var out []string
	ast.Inspect(fd.Body, func(n ast.Node) bool {
		if rs, ok := n.(*ast.ReturnStmt); ok {
			var xs []string
			for _, r := range rs.Results {
				xs = append(xs, exprStr(f.fset, r))
			}
			out = append(out, strings.Join(xs, ", "))
		}
		return true
	})
	return out
}

// keyValues lists `key: value` of composite literals in a function whose key is one of names.
func keyValues(rel, fn string, names ...string) []string {
	fd := funcDecl(rel, fn)
	f := load(rel)
	if fd == nil || f == nil {
		return nil
	}
	var out []string
	ast.Inspect(fd.Body, func(n ast.Node) bool {
		kv, ok := n.(*ast.KeyValueExpr)
		if !ok {
			return true
		}
		if id, ok := kv.Key.(*ast.Ident); ok {
			for _, nm := range names {
				if id.Name == nm {
					out = append(out, id.Name+": "+exprStr(f.fset, kv.Value))
				}
			}
		}
		return true
	})
	return out
}

// gateFirst: in a handler, the first top-level statement that mentions the bus connection (selector
// `.nc`) comes after the top-level if-statement whose body answers "Unauthorized" and returns.
func gateFirst(rel, fn string) bool {
	fd := funcDecl(rel, fn)
	if fd == nil {
		return false
	}
	gate, firstNc := -1, -1
	for i, st := range fd.Body.List {
		usesNc := false
		hasGate := false
		ast.Inspect(st, func(n ast.Node) bool {
			switch v := n.(type) {
			case *ast.SelectorExpr:
				if v.Sel.Name == "nc" {
					usesNc = true
				}
			case *ast.IfStmt:
				// if !validUser { http.Error(.. "Unauthorized" ..); return }
				if len(v.Body.List) >= 2 {
					if _, isRet := v.Body.List[len(v.Body.List)-1].(*ast.ReturnStmt); isRet {
						ast.Inspect(v.Body.List[0], func(m ast.Node) bool {
							if bl, ok := m.(*ast.BasicLit); ok {
								if s, ok := strLit(bl); ok && s == "Unauthorized" {
									hasGate = true
								}
							}
							return true
						})
					}
				}
			}
			return true
		})
		if hasGate && gate < 0 {
			gate = i
		}
		if usesNc && firstNc < 0 {
			firstNc = i
		}
	}
	return gate >= 0 && (firstNc < 0 || firstNc > gate)
}

func init() {
	reg("Auth", func(g *gen) {
		g.raw("def serveIfsHead : List String := " + leanStrList(firstN(ifConds("api/nodes.go", "Nodes.ServeHTTP"), 2)))
		g.boolFact("gateBeforeBus", gateFirst("api/nodes.go", "Nodes.ServeHTTP"), "api/nodes.go ServeHTTP: the 401 answer and return precede every use of the bus connection")
		g.raw("def keyValidIfs : List String := " + leanStrList(ifConds("api/key.go", "Key.Valid")))
		g.raw("def keyValidFields : List String := " + leanStrList(callsOf("api/key.go", "Key.Valid", "Fields")))
		g.raw("def keyValidToken : List String := " + leanStrList(callsOf("api/key.go", "Key.Valid", "ValidToken")))
		g.raw("def validTokenReturns : List String := " + leanStrList(returnExprs("api/key.go", "ValidToken")))
		g.raw("def validTokenParse : List String := " + leanStrList(callsOf("api/key.go", "ValidToken", "Parse")))
		g.raw("def newTokenClaims : List String := " + leanStrList(keyValues("api/key.go", "Key.NewToken", "ExpiresAt", "Id")))
		g.raw("def newTokenMethod : List String := " + leanStrList(callsOf("api/key.go", "Key.NewToken", "NewWithClaims")))
		g.raw("def userCheckIfs : List String := " + leanStrList(ifConds("store/sqlite.go", "userCheck")))
		g.raw("def userCheckQueries : List String := " + leanStrList(append(callsOf("store/sqlite.go", "userCheck", "Query"), callsOf("store/sqlite.go", "userCheck", "edges")...)))
		g.raw("def userCheckGetNodes : List String := " + leanStrList(callsOf("store/sqlite.go", "userCheck", "getNodes")))
		g.raw("def authUserIfs : List String := " + leanStrList(ifConds("store/store.go", "handleAuthUser")))
		g.raw("def authUserCheck : List String := " + leanStrList(callsOf("store/store.go", "handleAuthUser", "userCheck")))
		g.raw("def listingGetNodes : List String := " + leanStrList(callsOf("client/node.go", "GetNodesForUser", "GetNodes")))
		g.raw("def natsAuthOption : List String := " + leanStrList(keyValues("server/nats-server.go", "newNatsServer", "Authorization")))
		g.raw("def serverNatsAuth : List String := " + leanStrList(keyValues("server/server.go", "Run", "Auth", "AuthToken")))
		g.raw("def serverConnectToken : List String := " + leanStrList(callsOf("server/server.go", "NewServer", "Token")))
	})
}

func firstN(xs []string, n int) []string {
	if len(xs) > n {
		return xs[:n]
	}
	return xs
}
