package main

import (
	"fmt"
	"go/ast"
	"go/token"
	"os/exec"
	"path/filepath"
	"strings"
)

// modDir locates a dependency of /repo in the module cache.
func modDir(mod string) string {
	cmd := exec.Command("go", "list", "-mod=mod", "-m", "-f", "{{.Dir}}", mod)
	cmd.Dir = repo
	out, err := cmd.Output()
	if err != nil {
		problems = append(problems, fmt.Sprintf("go list -m %s: %v", mod, err))
		return ""
	}
	return strings.TrimSpace(string(out))
}

// cmpAny is like cmpLits but also renders string literals and plain identifiers on the right.
func cmpAny(rel, fn string) []string {
	fd := funcDecl(rel, fn)
	if fd == nil {
		return nil
	}
	var out []string
	ast.Inspect(fd.Body, func(n ast.Node) bool {
		be, ok := n.(*ast.BinaryExpr)
		if !ok {
			return true
		}
		switch be.Op {
		case token.EQL, token.NEQ, token.LSS, token.LEQ, token.GTR, token.GEQ:
			if v, ok := intLit(be.Y); ok {
				out = append(out, fmt.Sprintf("%s%d", be.Op.String(), v))
			} else if s, ok := strLit(be.Y); ok {
				out = append(out, fmt.Sprintf("%s%q", be.Op.String(), s))
			} else if id, ok := be.Y.(*ast.Ident); ok && id.Name != "nil" {
				out = append(out, be.Op.String()+id.Name)
			}
		}
		return true
	})
	return out
}

// cmpFull renders every comparison with an int/string literal, identifier, nil or selector
// (a.b) on the right-hand side.
func cmpFull(rel, fn string) []string {
	fd := funcDecl(rel, fn)
	if fd == nil {
		return nil
	}
	var out []string
	ast.Inspect(fd.Body, func(n ast.Node) bool {
		be, ok := n.(*ast.BinaryExpr)
		if !ok {
			return true
		}
		switch be.Op {
		case token.EQL, token.NEQ, token.LSS, token.LEQ, token.GTR, token.GEQ:
			if v, ok := intLit(be.Y); ok {
				out = append(out, fmt.Sprintf("%s%d", be.Op.String(), v))
			} else if s, ok := strLit(be.Y); ok {
				out = append(out, fmt.Sprintf("%s%q", be.Op.String(), s))
			} else if id, ok := be.Y.(*ast.Ident); ok {
				out = append(out, be.Op.String()+id.Name)
			} else if se, ok := be.Y.(*ast.SelectorExpr); ok {
				if x, ok := se.X.(*ast.Ident); ok {
					out = append(out, be.Op.String()+x.Name+"."+se.Sel.Name)
				}
			}
		}
		return true
	})
	return out
}

// cmpAnyNil is cmpAny including comparisons against nil.
func cmpAnyNil(rel, fn string) []string {
	fd := funcDecl(rel, fn)
	if fd == nil {
		return nil
	}
	var out []string
	ast.Inspect(fd.Body, func(n ast.Node) bool {
		be, ok := n.(*ast.BinaryExpr)
		if !ok {
			return true
		}
		if be.Op == token.EQL || be.Op == token.NEQ {
			if id, ok := be.Y.(*ast.Ident); ok && id.Name == "nil" {
				if x, ok := be.X.(*ast.Ident); ok {
					out = append(out, x.Name+be.Op.String()+"nil")
				}
			}
		}
		return true
	})
	return out
}

// firstMakeLen returns N of the first `make([]byte, N)` in a function.
func firstMakeLen(rel, fn string) int64 {
	fd := funcDecl(rel, fn)
	res := int64(-1)
	if fd == nil {
		return res
	}
	ast.Inspect(fd.Body, func(n ast.Node) bool {
		ce, ok := n.(*ast.CallExpr)
		if !ok || res >= 0 {
			return true
		}
		if id, ok := ce.Fun.(*ast.Ident); ok && id.Name == "make" && len(ce.Args) == 2 {
			if v, ok := intLit(ce.Args[1]); ok {
				res = v
			}
		}
		return true
	})
	if res < 0 {
		problems = append(problems, rel+": no make([]byte, N) in "+fn)
	}
	return res
}

func init() {
	reg("Serial", func(g *gen) {
		g.raw(fmt.Sprintf("/-- client/serial-wrapper.go: width of the subject field in SerialEncode -/\ndef serialSubjectWidth : Int := %d",
			firstMakeLen("client/serial-wrapper.go", "SerialEncode")))
		cm := cmpAny("client/serial-wrapper.go", "SerialDecode")
		logLit := "<<missing>>"
		for _, c := range cm {
			if strings.HasPrefix(c, "!=\"") {
				logLit = strings.Trim(c[2:], "\"")
			}
		}
		g.raw("/-- client/serial-wrapper.go: the subject exempt from the CRC check in SerialDecode -/\ndef serialLogSubject : String := " + leanStr(logLit))
		g.raw("/-- client/serial-wrapper.go: comparisons in SerialDecode, in source order -/\ndef serialDecodeCmps : List String := " + leanStrList(cm))
		g.raw("/-- client/serial-wrapper.go: comparisons in SerialEncode, in source order -/\ndef serialEncodeCmps : List String := " + leanStrList(cmpAny("client/serial-wrapper.go", "SerialEncode")))
		d := modDir("github.com/kjx98/crc16")
		if d != "" {
			f := filepath.Join(d, "crc16.go")
			g.int("crc16CCITTPoly", f, "CCITT")
			ctor := "<<missing>>"
			if ce, ok := valueOf(f, "CCITTTable").(*ast.CallExpr); ok {
				if id, ok := ce.Fun.(*ast.Ident); ok {
					ctor = id.Name
				}
			}
			g.raw("/-- kjx98/crc16: constructor of CCITTTable -/\ndef crc16CCITTTableCtor : String := " + leanStr(ctor))
			init := int64(-1)
			if fd := funcDecl(f, "ChecksumCCITT"); fd != nil {
				ast.Inspect(fd.Body, func(n ast.Node) bool {
					if ce, ok := n.(*ast.CallExpr); ok && len(ce.Args) == 3 {
						if v, ok := intLit(ce.Args[0]); ok {
							init = v
						}
					}
					return true
				})
			}
			g.raw(fmt.Sprintf("/-- kjx98/crc16: initial value passed by ChecksumCCITT -/\ndef crc16ChecksumCCITTInit : Int := %d", init))
		}
	})
}
