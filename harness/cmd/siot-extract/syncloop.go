package main

import (
	"bytes"
	"go/ast"
	"go/printer"
	"go/token"
	"strings"
)

func nodeStr(fset *token.FileSet, n ast.Node) string {
	var b bytes.Buffer
	printer.Fprint(&b, fset, n)
	return strings.Join(strings.Fields(b.String()), " ")
}

// selectClauses: for every communication clause of every select statement of a function, in source order,
// "<comm> => f,g,..": the calls whose function or method name is one of names, in source order ("default" for default).
func selectClauses(rel, fn string, names ...string) []string {
	fd := funcDecl(rel, fn)
	f := load(rel)
	if fd == nil || f == nil {
		return nil
	}
	want := map[string]bool{}
	for _, n := range names {
		want[n] = true
	}
	var out []string
	ast.Inspect(fd.Body, func(n ast.Node) bool {
		cc, ok := n.(*ast.CommClause)
		if !ok {
			return true
		}
		head := "default"
		if cc.Comm != nil {
			head = nodeStr(f.fset, cc.Comm)
		}
		var calls []string
		for _, s := range cc.Body {
			ast.Inspect(s, func(m ast.Node) bool {
				if _, isLit := m.(*ast.FuncLit); isLit {
					return false
				}
				ce, ok := m.(*ast.CallExpr)
				if !ok {
					return true
				}
				name := ""
				switch fx := ce.Fun.(type) {
				case *ast.Ident:
					name = fx.Name
				case *ast.SelectorExpr:
					name = fx.Sel.Name
					if id, ok := fx.X.(*ast.Ident); ok && (name == "Reset" || name == "Stop") {
						name = id.Name + "." + name
					}
				}
				base := name
				if i := strings.LastIndex(base, "."); i >= 0 {
					base = base[i+1:]
				}
				if want[name] || want[base] {
					if base == "Reset" {
						name = nodeStr(f.fset, ce) // with the duration
					}
					calls = append(calls, name)
				}
				return true
			})
		}
		out = append(out, head+" => "+strings.Join(calls, ","))
		return true
	})
	return out
}

// chanSends lists every channel send statement of a function (function literals included) in source order.
func chanSends(rel, fn string) []string {
	fd := funcDecl(rel, fn)
	f := load(rel)
	if fd == nil || f == nil {
		return nil
	}
	var out []string
	ast.Inspect(fd.Body, func(n ast.Node) bool {
		if s, ok := n.(*ast.SendStmt); ok {
			out = append(out, nodeStr(f.fset, s))
		}
		return true
	})
	return out
}

// assignsToAny lists, in source order, the assignments of a function whose left-hand side is one of lhs: "lhs = rhs".
func assignsToAny(rel, fn string, lhs ...string) []string {
	fd := funcDecl(rel, fn)
	f := load(rel)
	if fd == nil || f == nil {
		return nil
	}
	want := map[string]bool{}
	for _, l := range lhs {
		want[l] = true
	}
	var out []string
	ast.Inspect(fd.Body, func(n ast.Node) bool {
		as, ok := n.(*ast.AssignStmt)
		if !ok || len(as.Lhs) != 1 || len(as.Rhs) != 1 {
			return true
		}
		if l := nodeStr(f.fset, as.Lhs[0]); want[l] {
			out = append(out, l+" "+as.Tok.String()+" "+nodeStr(f.fset, as.Rhs[0]))
		}
		return true
	})
	return out
}

func init() {
	reg("SyncLoop", func(g *gen) {
		const rel = "client/sync.go"
		g.raw("def syncRunSelect : List String := " + leanStrList(selectClauses(rel, "Run", "connect", "disconnect", "syncNode", "Reset", "Stop",
			"SendNodePoints", "SendEdgePoints", "subscribeRemoteNode", "checkPeriod", "sendNodesLocal")))
		g.raw("def syncRunIfs : List String := " + leanStrList(ifConds(rel, "Run")))
		g.raw("def syncRunAssigns : List String := " + leanStrList(assignsToAny(rel, "Run", "connected", "up.initialSub", "up.rootRemote", "up.config.Period")))
		g.raw("def syncConnectSends : List String := " + leanStrList(chanSends(rel, "connect")))
		g.raw("def syncConnectIfs : List String := " + leanStrList(ifConds(rel, "connect")))
		g.raw("def syncDisconnectAssigns : List String := " + leanStrList(assignsToAny(rel, "disconnect", "up.initialSub", "up.ncRemote", "up.subRemoteUp", "up.rootRemote")))
	})
}

// subscriptionTable lists, in source order, the entries a function puts into a subscription map:
// "<map>[<key>] <- Subscribe(<subject>, <handler>)" for every assignment whose left-hand side indexes mapName.
func subscriptionTable(rel, fn, mapName string) []string {
	fd := funcDecl(rel, fn)
	f := load(rel)
	if fd == nil || f == nil {
		return nil
	}
	var out []string
	ast.Inspect(fd.Body, func(n ast.Node) bool {
		as, ok := n.(*ast.AssignStmt)
		if !ok || len(as.Lhs) < 1 || len(as.Rhs) != 1 {
			return true
		}
		ix, ok := as.Lhs[0].(*ast.IndexExpr)
		if !ok || nodeStr(f.fset, ix.X) != mapName {
			return true
		}
		ce, ok := as.Rhs[0].(*ast.CallExpr)
		if !ok {
			return true
		}
		var args []string
		for _, a := range ce.Args {
			args = append(args, nodeStr(f.fset, a))
		}
		out = append(out, nodeStr(f.fset, ix.Index)+" <- "+strings.Join(args, ", "))
		return true
	})
	return out
}

func init() {
	reg("StoreRun", func(g *gen) {
		subs := subscriptionTable("store/store.go", "Run", "st.subscriptions")
		keys := map[string]bool{}
		for _, s := range subs {
			keys[strings.SplitN(s, " <- ", 2)[0]] = true
		}
		g.raw("def storeRunSubs : List String := " + leanStrList(subs))
		g.boolFact("storeRunKeysDistinct", len(keys) == len(subs), "store/store.go Run: every subscription is stored under its own key of st.subscriptions")
		g.raw("def storeRunRanges : List String := " + leanStrList(rangeExprs("store/store.go", "Run")))
		g.raw("def storeRunCloses : List String := " + leanStrList(append(callsOf("store/store.go", "Run", "Unsubscribe"), callsOf("store/store.go", "Run", "Close")...)))
	})
}
