package main

import (
	"fmt"
	"os"
	"path/filepath"
	"regexp"
	"sort"
	"strings"
)

// protoFields parses "message X { type name = N; ... }" blocks of a .proto file into
// "Message.field:type:number" entries (repeated marked with a leading "*").
func protoFields(rel string) []string {
	b, err := os.ReadFile(filepath.Join(repo, rel))
	if err != nil {
		problems = append(problems, fmt.Sprintf("read %s: %v", rel, err))
		return nil
	}
	src := regexp.MustCompile(`//[^\n]*`).ReplaceAllString(string(b), "")
	reMsg := regexp.MustCompile(`message\s+(\w+)\s*\{([^}]*)\}`)
	reFld := regexp.MustCompile(`(repeated\s+)?([\w.]+)\s+(\w+)\s*=\s*(\d+)\s*;`)
	var out []string
	for _, m := range reMsg.FindAllStringSubmatch(src, -1) {
		for _, f := range reFld.FindAllStringSubmatch(m[2], -1) {
			rep := ""
			if strings.TrimSpace(f[1]) != "" {
				rep = "*"
			}
			out = append(out, fmt.Sprintf("%s.%s:%s%s:%s", m[1], f[3], rep, f[2], f[4]))
		}
	}
	sort.Strings(out)
	return out
}

func init() {
	reg("Pb", func(g *gen) {
		g.raw("/-- internal/pb/point.proto: messages, fields, types and numbers -/\ndef pbPointProto : List String := " + leanStrList(protoFields("internal/pb/point.proto")))
		g.raw("/-- internal/pb/node.proto -/\ndef pbNodeProto : List String := " + leanStrList(protoFields("internal/pb/node.proto")))
		g.raw("/-- data/point.go: integer literals of DecodeSerialHrPayload -/\ndef hrPayloadLits : List String := " + leanStrList(intLits("data/point.go", "DecodeSerialHrPayload")))
		g.raw("/-- client/msg.go: comparisons of the four subject parsers -/\ndef subjectParserCmps : List String := " + leanStrList(append(append(append(
			cmpAny("client/msg.go", "DecodeNodePointsMsg"), cmpAny("client/msg.go", "DecodeEdgePointsMsg")...),
			cmpAny("client/msg.go", "DecodeUpNodePointsMsg")...), cmpAny("client/msg.go", "DecodeUpEdgePointsMsg")...)))
		g.raw("/-- data/node.go: comparisons of PbToNode (the nil check) -/\ndef pbToNodeCmps : List String := " + leanStrList(cmpAnyNil("data/node.go", "PbToNode")))
	})
}
