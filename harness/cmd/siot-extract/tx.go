package main

import (
	"go/ast"
	"go/token"
)

// txFacts checks the transaction discipline of a store write function:
//
//	one  = exactly one <x>.Begin() call
//	noDB = after it, no method is called on sdb.db (everything goes through the transaction)
//	rb   = every return statement between Begin and Commit (closures excluded) is directly preceded by rollback()
//	last = "err = tx.Commit()" is followed only by "if err != nil { return err }" and "return nil"
func txFacts(rel, fn string) (one, noDB, rb, last bool) {
	fd := funcDecl(rel, fn)
	if fd == nil {
		return
	}
	var beginPos, commitPos token.Pos
	begins := 0
	ast.Inspect(fd.Body, func(n ast.Node) bool {
		if ce, ok := n.(*ast.CallExpr); ok {
			if se, ok := ce.Fun.(*ast.SelectorExpr); ok {
				switch se.Sel.Name {
				case "Begin":
					begins++
					beginPos = ce.Pos()
				case "Commit":
					commitPos = ce.Pos()
				}
			}
		}
		return true
	})
	one = begins == 1 && commitPos > beginPos
	noDB = true
	ast.Inspect(fd.Body, func(n ast.Node) bool {
		if ce, ok := n.(*ast.CallExpr); ok && ce.Pos() > beginPos {
			if se, ok := ce.Fun.(*ast.SelectorExpr); ok {
				if inner, ok := se.X.(*ast.SelectorExpr); ok {
					if id, ok := inner.X.(*ast.Ident); ok && id.Name == "sdb" && inner.Sel.Name == "db" {
						noDB = false
					}
				}
			}
		}
		return true
	})
	rb = true
	var walkBlock func(list []ast.Stmt)
	var walkStmt func(s ast.Stmt)
	walkBlock = func(list []ast.Stmt) {
		for i, s := range list {
			if r, ok := s.(*ast.ReturnStmt); ok && r.Pos() > beginPos && r.Pos() < commitPos {
				okPrev := false
				if i > 0 {
					if es, ok := list[i-1].(*ast.ExprStmt); ok {
						if ce, ok := es.X.(*ast.CallExpr); ok {
							if id, ok := ce.Fun.(*ast.Ident); ok && id.Name == "rollback" {
								okPrev = true
							}
						}
					}
				}
				// "if err != nil { return err }" directly after Begin (nothing to roll back yet)
				if !okPrev {
					rb = rb && r.Pos() < beginPos+200 && i == 0
				}
			}
			walkStmt(s)
		}
	}
	walkStmt = func(s ast.Stmt) {
		switch v := s.(type) {
		case *ast.BlockStmt:
			walkBlock(v.List)
		case *ast.IfStmt:
			walkBlock(v.Body.List)
			if v.Else != nil {
				walkStmt(v.Else)
			}
		case *ast.ForStmt:
			walkBlock(v.Body.List)
		case *ast.RangeStmt:
			walkBlock(v.Body.List)
		case *ast.SwitchStmt:
			for _, c := range v.Body.List {
				walkBlock(c.(*ast.CaseClause).Body)
			}
		}
	}
	walkBlock(fd.Body.List)
	// the tail
	n := len(fd.Body.List)
	if n >= 3 {
		as, ok1 := fd.Body.List[n-3].(*ast.AssignStmt)
		ifs, ok2 := fd.Body.List[n-2].(*ast.IfStmt)
		ret, ok3 := fd.Body.List[n-1].(*ast.ReturnStmt)
		if ok1 && ok2 && ok3 && len(as.Rhs) == 1 && len(ret.Results) == 1 {
			if ce, ok := as.Rhs[0].(*ast.CallExpr); ok {
				if se, ok := ce.Fun.(*ast.SelectorExpr); ok && se.Sel.Name == "Commit" {
					if id, ok := ret.Results[0].(*ast.Ident); ok && id.Name == "nil" && len(ifs.Body.List) == 1 {
						if _, ok := ifs.Body.List[0].(*ast.ReturnStmt); ok {
							last = true
						}
					}
				}
			}
		}
	}
	return
}

func init() {
	reg("Tx", func(g *gen) {
		for _, fn := range []string{"nodePoints", "edgePoints"} {
			one, noDB, rb, last := txFacts("store/sqlite.go", fn)
			g.boolFact(fn+"OneTx", one, "store/sqlite.go "+fn+": exactly one Begin, followed by a Commit")
			g.boolFact(fn+"NoDirectDb", noDB, "store/sqlite.go "+fn+": after Begin nothing is executed on sdb.db directly")
			g.boolFact(fn+"RollbackOnReturn", rb, "store/sqlite.go "+fn+": every return between Begin and Commit follows rollback()")
			g.boolFact(fn+"CommitLast", last, "store/sqlite.go "+fn+": the function ends with err = tx.Commit(); if err != nil { return err }; return nil")
			g.boolFact(fn+"TxLockBeforeBegin", lockBeforeBegin("store/sqlite.go", fn), "store/sqlite.go "+fn+": the write lock is taken before Begin and released by defer")
		}
		g.raw("def updateHashHelperEdges : List String := " + leanStrList(callsOf("store/sqlite.go", "updateHashHelper", "edges")))
		g.raw("def isAncestorEdges : List String := " + leanStrList(callsOf("store/sqlite.go", "isAncestor", "edges")))
		g.raw("def writeHashCachePrepare : List String := " + leanStrList(callsOf("store/sqlite.go", "writeHashCache", "Prepare")))
		g.raw("def edgePointsRootUpdate : List String := " + leanStrList(filterContains(callsOf("store/sqlite.go", "edgePoints", "Exec"), "root_id")))
		g.raw("def storePragmas : List String := " + leanStrList(assignsTo("store/sqlite.go", "NewSqliteDb", "pragmas")))
	})
}
