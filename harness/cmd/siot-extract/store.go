package main

import (
	"go/ast"
	"go/printer"
	"go/token"
	"strings"
)

func exprStr(fset *token.FileSet, e ast.Expr) string {
	var b strings.Builder
	printer.Fprint(&b, fset, e)
	return strings.Join(strings.Fields(b.String()), " ")
}

// callArgs lists, in source order, the single argument of every call `recv.name(arg)` in a function.
func callArgs(rel, fn, name string) []string {
	fd := funcDecl(rel, fn)
	f := load(rel)
	if fd == nil || f == nil {
		return nil
	}
	var out []string
	ast.Inspect(fd.Body, func(n ast.Node) bool {
		ce, ok := n.(*ast.CallExpr)
		if !ok {
			return true
		}
		if se, ok := ce.Fun.(*ast.SelectorExpr); ok && se.Sel.Name == name && len(ce.Args) >= 1 {
			a := ce.Args[len(ce.Args)-1]
			// strip conversions: []byte(x), uint64(x)
			for {
				c, ok := a.(*ast.CallExpr)
				if !ok || len(c.Args) != 1 {
					break
				}
				if _, isSel := c.Fun.(*ast.SelectorExpr); isSel {
					break
				}
				a = c.Args[0]
			}
			s := exprStr(f.fset, a)
			s = strings.TrimSuffix(s, "()")
			out = append(out, s)
		}
		return true
	})
	return out
}

// rangeExprs lists the expressions ranged over in a function.
func rangeExprs(rel, fn string) []string {
	fd := funcDecl(rel, fn)
	f := load(rel)
	if fd == nil || f == nil {
		return nil
	}
	var out []string
	ast.Inspect(fd.Body, func(n ast.Node) bool {
		if rs, ok := n.(*ast.RangeStmt); ok {
			out = append(out, exprStr(f.fset, rs.X))
		}
		return true
	})
	return out
}

// firstStringArg returns the first string literal passed to a call inside a function.
func firstStringArg(rel, fn string) string {
	fd := funcDecl(rel, fn)
	res := "<<missing>>"
	found := false
	if fd == nil {
		return res
	}
	ast.Inspect(fd.Body, func(n ast.Node) bool {
		if found {
			return false
		}
		if bl, ok := n.(*ast.BasicLit); ok && bl.Kind == token.STRING {
			if s, ok := strLit(bl); ok {
				res = s
				found = true
			}
		}
		return true
	})
	return res
}

func init() {
	reg("Store", func(g *gen) {
		g.raw("/-- data/point.go: what Point.CRC writes into the hash, in order -/\ndef pointCrcWrites : List String := " + leanStrList(callArgs("data/point.go", "CRC", "Write")))
		g.raw("/-- data/point.go: the two 64-bit values Point.CRC serialises -/\ndef pointCrcPuts : List String := " + leanStrList(callArgs("data/point.go", "CRC", "PutUint64")))
		g.raw("/-- data/node.go: what CalcHash ranges over -/\ndef calcHashRanges : List String := " + leanStrList(rangeExprs("data/node.go", "CalcHash")))
		g.raw("/-- store/sqlite.go: the query of updateHashHelper -/\ndef updateHashHelperQuery : String := " + leanStr(firstStringArg("store/sqlite.go", "updateHashHelper")))
		g.raw("/-- store/sqlite.go: comparisons of normalizePoints -/\ndef normalizePointsCmps : List String := " + leanStrList(cmpFull("store/sqlite.go", "normalizePoints")))
		g.raw("/-- store/sqlite.go: comparisons of isAncestor -/\ndef isAncestorCmps : List String := " + leanStrList(cmpFull("store/sqlite.go", "isAncestor")))
	})
}

// callsOf lists, in source order, the full argument list of every call to `name` (method or function)
// inside a function.
func callsOf(rel, fn, name string) []string {
	fd := funcDecl(rel, fn)
	f := load(rel)
	if fd == nil || f == nil {
		return nil
	}
	var out []string
	ast.Inspect(fd.Body, func(n ast.Node) bool {
		ce, ok := n.(*ast.CallExpr)
		if !ok {
			return true
		}
		match := false
		switch v := ce.Fun.(type) {
		case *ast.SelectorExpr:
			match = v.Sel.Name == name
		case *ast.Ident:
			match = v.Name == name
		}
		if match {
			var as []string
			for _, a := range ce.Args {
				as = append(as, exprStr(f.fset, a))
			}
			out = append(out, strings.Join(as, ", "))
		}
		return true
	})
	return out
}

func init() {
	reg("Rebroadcast", func(g *gen) {
		for _, fn := range []string{"processPointsUpstream", "processEdgePointsUpstream"} {
			g.raw("def " + fn + "Subject : List String := " + leanStrList(callsOf("store/store.go", fn, "Sprintf")))
			g.raw("def " + fn + "Up : List String := " + leanStrList(callsOf("store/store.go", fn, "up")))
			g.raw("def " + fn + "Rec : List String := " + leanStrList(callsOf("store/store.go", fn, fn)))
			g.raw("def " + fn + "Send : List String := " + leanStrList(callsOf("store/store.go", fn, "SendPoints")))
			g.raw("def " + fn + "Cmps : List String := " + leanStrList(cmpFull("store/store.go", fn)))
			g.raw("def " + fn + "Ranges : List String := " + leanStrList(rangeExprs("store/store.go", fn)))
		}
		g.raw("def upQuery : String := " + leanStr(firstStringArg("store/sqlite.go", "up")))
		g.raw("def upCmps : List String := " + leanStrList(cmpFull("store/sqlite.go", "up")))
		g.raw("def upMod : List String := " + leanStrList(callsOf("store/sqlite.go", "up", "Mod")))
		g.raw("def upFind : List String := " + leanStrList(callsOf("store/sqlite.go", "up", "Find")))
		g.raw("def handleNodePointsUp : List String := " + leanStrList(callsOf("store/store.go", "handleNodePoints", "processPointsUpstream")))
		g.raw("def handleEdgePointsUp : List String := " + leanStrList(callsOf("store/store.go", "handleEdgePoints", "processEdgePointsUpstream")))
	})
}
