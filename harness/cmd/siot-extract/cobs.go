package main

import (
	"fmt"
	"go/ast"
	"go/token"
	"strings"
)

// cmpLits lists, in source order, every comparison/arithmetic of the form `<expr> op <int literal>`
// inside a function, rendered as "op literal" (decimal). Renames, comments and formatting do
// not change it; changing a threshold or a comparison operator does.
func cmpLits(rel, fn string) []string {
	fd := funcDecl(rel, fn)
	if fd == nil {
		return nil
	}
	var out []string
	ast.Inspect(fd.Body, func(n ast.Node) bool {
		be, ok := n.(*ast.BinaryExpr)
		if !ok {
			return true
		}
		switch be.Op {
		case token.EQL, token.NEQ, token.LSS, token.LEQ, token.GTR, token.GEQ:
			if v, ok := intLit(be.Y); ok {
				out = append(out, fmt.Sprintf("%s%d", be.Op.String(), v))
			}
		}
		return true
	})
	return out
}

func leanStrList(xs []string) string {
	var q []string
	for _, x := range xs {
		q = append(q, leanStr(x))
	}
	return "[" + strings.Join(q, ", ") + "]"
}

func (g *gen) cmps(name, rel, fn string) {
	g.raw(fmt.Sprintf("/-- %s: comparisons against integer literals in %s, in source order -/\ndef %s : List String := %s",
		rel, fn, name, leanStrList(cmpLits(rel, fn))))
}

func init() {
	reg("Cobs", func(g *gen) {
		g.cmps("cobsEncodeCmps", "client/cobs-wrapper.go", "cobsEncode")
		g.cmps("cobsDecodeCmps", "client/cobs-wrapper.go", "cobsDecodeInplace")
		g.cmps("cobsReadCmps", "client/cobs-wrapper.go", "Read")
	})
}
