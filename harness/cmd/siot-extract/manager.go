package main

import (
	"go/ast"
	"strings"
)

// ifExitsTop: for every if statement of the function outside closures, "<cond> -> <how its body ends>"
// (return / continue / break / goes on)
func ifExitsTop(rel, fn string) []string {
	fd := funcDecl(rel, fn)
	f := load(rel)
	if fd == nil || f == nil {
		return nil
	}
	var out []string
	ast.Inspect(fd.Body, func(n ast.Node) bool {
		if _, ok := n.(*ast.FuncLit); ok {
			return false
		}
		if is, ok := n.(*ast.IfStmt); ok {
			how := "goes on"
			if k := len(is.Body.List); k > 0 {
				switch st := is.Body.List[k-1].(type) {
				case *ast.ReturnStmt:
					how = "return"
				case *ast.BranchStmt:
					how = st.Tok.String()
				}
			}
			out = append(out, exprStr(f.fset, is.Cond)+" -> "+how)
		}
		return true
	})
	return out
}

func filterContains(xs []string, subs ...string) []string {
	var out []string
	for _, x := range xs {
		for _, s := range subs {
			if strings.Contains(x, s) {
				out = append(out, x)
				break
			}
		}
	}
	return out
}

func init() {
	reg("Manager", func(g *gen) {
		const rel = "client/manager.go"
		g.raw("def scanIfs : List String := " + leanStrList(ifConds(rel, "scan")))
		g.raw("def scanCallbackIfs : List String := " + leanStrList(filterContains(ifConds(rel, "scan"), "Origin", "chunks")))
		g.raw("def scanBookIfs : List String := " + leanStrList(ifCondsTop(rel, "scan")))
		g.raw("def scanCases : List String := " + leanStrList(caseLabels(rel, "scan")))
		g.raw("def scanSubject : List String := " + leanStrList(callsOf(rel, "scan", "Sprintf")))
		g.raw("def scanPoints : List String := " + leanStrList(callsOf(rel, "scan", "Points")))
		g.raw("def scanEdgePoints : List String := " + leanStrList(callsOf(rel, "scan", "EdgePoints")))
		g.raw("def scanStops : List String := " + leanStrList(callsOf(rel, "scan", "stop")))
		g.raw("def scanRanges : List String := " + leanStrList(rangeExprs(rel, "scan")))
		g.raw("def scanIfExits : List String := " + leanStrList(ifExitsTop(rel, "scan")))
		g.raw("def scanNew : List String := " + leanStrList(callsOf(rel, "scan", "newClientState")))
		g.raw("def scanHelperGetNodes : List String := " + leanStrList(callsOf(rel, "scanHelper", "GetNodes")))
		g.raw("def scanHelperRanges : List String := " + leanStrList(rangeExprs(rel, "scanHelper")))
		g.raw("def mapKeyReturn : List String := " + leanStrList(returnExprs(rel, "mapKey")))
		g.raw("def runIfsMgr : List String := " + leanStrList(ifConds(rel, "Run")))
		g.raw("def runScans : List String := " + leanStrList(callsOf(rel, "Run", "scan")))
		g.raw("def runDeletes : List String := " + leanStrList(callsOf(rel, "Run", "delete")))
		g.raw("def newManagerParents : List String := " + leanStrList(keyValues(rel, "NewManager", "parentTypes", "nodeType")))
		g.raw("def csRunIfs : List String := " + leanStrList(ifConds("client/client-state.go", "run")))
		g.raw("def csNewGetNodes : List String := " + leanStrList(callsOf("client/client-state.go", "newClientState", "GetNodes")))
	})
}
