package main

func init() {
	reg("Schedule", func(g *gen) {
		g.str("reHourMin", "client/schedule.go", "reHourMin")
		g.str("reDate", "client/schedule.go", "reDate")
	})
}
