package main

func init() {
	reg("Sync", func(g *gen) {
		const rel = "client/sync.go"
		g.raw("def syncNodeIfs : List String := " + leanStrList(ifCondsTop(rel, "syncNode")))
		g.raw("def syncNodeGetNodes : List String := " + leanStrList(callsOf(rel, "syncNode", "GetNodes")))
		g.raw("def syncNodeRec : List String := " + leanStrList(callsOf(rel, "syncNode", "syncNode")))
		g.raw("def syncNodeSendRemote : List String := " + leanStrList(callsOf(rel, "syncNode", "sendNodesRemote")))
		g.raw("def syncNodeSendLocal : List String := " + leanStrList(callsOf(rel, "syncNode", "sendNodesLocal")))
		g.raw("def syncNodePointSends : List String := " + leanStrList(callsOf(rel, "syncNode", "SendNodePoint")))
		g.raw("def syncNodeEdgePointSends : List String := " + leanStrList(callsOf(rel, "syncNode", "SendEdgePoint")))
		g.raw("def syncNodeRanges : List String := " + leanStrList(rangeExprs(rel, "syncNode")))
		g.raw("def sendRemoteCalls : List String := " + leanStrList(append(callsOf(rel, "sendNodesRemote", "SendNode"), callsOf(rel, "sendNodesRemote", "GetNodes")...)))
		g.raw("def sendLocalCalls : List String := " + leanStrList(append(callsOf(rel, "sendNodesLocal", "SendNode"), callsOf(rel, "sendNodesLocal", "GetNodes")...)))
		g.raw("def sendRemoteIfs : List String := " + leanStrList(ifConds(rel, "sendNodesRemote")))
	})
}
