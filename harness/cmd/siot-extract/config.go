package main

func init() {
	reg("Config", func(g *gen) {
		g.int("cfgMaxSafeInteger", "data/encode.go", "maxSafeInteger")
		g.int("cfgMaxStructureSize", "data/encode.go", "maxStructureSize")
		g.raw("/-- data/decode.go: comparisons of GroupedPoints.updateKeyIndex -/\ndef cfgUpdateKeyIndexCmps : List String := " + leanStrList(cmpFull("data/decode.go", "updateKeyIndex")))
		g.raw("/-- data/decode.go: comparisons of setVal -/\ndef cfgSetValCmps : List String := " + leanStrList(cmpFull("data/decode.go", "setVal")))
	})
}
