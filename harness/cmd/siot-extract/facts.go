package main

import (
	"fmt"
	"go/ast"
	"go/token"
)

// returnAudit classifies every `return <non-nil error>` of a store write function that comes
// after `tx, err := sdb.db.Begin()`: preceded by rollback() in its block, the Commit/Begin error
// itself, or BAD (an error path that does not roll back).
func returnAudit(rel, fn string) (rollback, commitOrBegin, bad int) {
	fd := funcDecl(rel, fn)
	if fd == nil {
		return 0, 0, 1
	}
	var beginPos token.Pos
	ast.Inspect(fd.Body, func(n ast.Node) bool {
		if ce, ok := n.(*ast.CallExpr); ok {
			if se, ok := ce.Fun.(*ast.SelectorExpr); ok && se.Sel.Name == "Begin" && beginPos == 0 {
				beginPos = ce.Pos()
			}
		}
		return true
	})
	isCall := func(s ast.Stmt, name string) bool {
		es, ok := s.(*ast.ExprStmt)
		if !ok {
			return false
		}
		ce, ok := es.X.(*ast.CallExpr)
		if !ok {
			return false
		}
		id, ok := ce.Fun.(*ast.Ident)
		return ok && id.Name == name
	}
	var walk func(list []ast.Stmt, prevIf *ast.IfStmt, prev ast.Stmt)
	walk = func(list []ast.Stmt, prevIf *ast.IfStmt, outerPrev ast.Stmt) {
		for i, s := range list {
			switch v := s.(type) {
			case *ast.ReturnStmt:
				if v.Pos() < beginPos || len(v.Results) == 0 {
					continue
				}
				last := v.Results[len(v.Results)-1]
				if id, ok := last.(*ast.Ident); ok && id.Name == "nil" {
					continue
				}
				hasRollback := false
				for j := 0; j < i; j++ {
					if isCall(list[j], "rollback") {
						hasRollback = true
					}
				}
				switch {
				case hasRollback:
					rollback++
				case outerPrev != nil && (stmtCalls(outerPrev, "Commit") || stmtCalls(outerPrev, "Begin")):
					commitOrBegin++
				default:
					bad++
				}
			case *ast.IfStmt:
				var p ast.Stmt
				if i > 0 {
					p = list[i-1]
				}
				if v.Init != nil {
					p = v.Init
				}
				walk(v.Body.List, v, p)
				if el, ok := v.Else.(*ast.BlockStmt); ok {
					walk(el.List, v, p)
				}
			case *ast.ForStmt:
				walk(v.Body.List, nil, nil)
			case *ast.RangeStmt:
				walk(v.Body.List, nil, nil)
			case *ast.BlockStmt:
				walk(v.List, nil, nil)
			case *ast.LabeledStmt:
				walk([]ast.Stmt{v.Stmt}, nil, nil)
			}
		}
	}
	walk(fd.Body.List, nil, nil)
	return
}

func stmtCalls(s ast.Stmt, name string) bool {
	found := false
	ast.Inspect(s, func(n ast.Node) bool {
		if ce, ok := n.(*ast.CallExpr); ok {
			if se, ok := ce.Fun.(*ast.SelectorExpr); ok && se.Sel.Name == name {
				found = true
			}
		}
		return true
	})
	return found
}

// stopsAfterErrorReply: in a bus handler, every if-block that calls st.reply(msg.Reply, <non-nil>)
// ends with a return statement.
func stopsAfterErrorReply(rel, fn string) bool {
	fd := funcDecl(rel, fn)
	if fd == nil {
		return false
	}
	ok := true
	seen := 0
	ast.Inspect(fd.Body, func(n ast.Node) bool {
		is, isIf := n.(*ast.IfStmt)
		if !isIf {
			return true
		}
		for i, s := range is.Body.List {
			es, isE := s.(*ast.ExprStmt)
			if !isE {
				continue
			}
			ce, isC := es.X.(*ast.CallExpr)
			if !isC {
				continue
			}
			se, isS := ce.Fun.(*ast.SelectorExpr)
			if !isS || se.Sel.Name != "reply" || len(ce.Args) != 2 {
				continue
			}
			if id, isId := ce.Args[1].(*ast.Ident); isId && id.Name == "nil" {
				continue
			}
			seen++
			_ = i
			if _, isRet := is.Body.List[len(is.Body.List)-1].(*ast.ReturnStmt); !isRet {
				ok = false
			}
		}
		return true
	})
	return ok && seen > 0
}

// lockBeforeBegin: `sdb.writeLock.Lock()` and `defer sdb.writeLock.Unlock()` precede Begin.
func lockBeforeBegin(rel, fn string) bool {
	fd := funcDecl(rel, fn)
	if fd == nil {
		return false
	}
	var lock, unlock, begin token.Pos
	ast.Inspect(fd.Body, func(n ast.Node) bool {
		switch v := n.(type) {
		case *ast.CallExpr:
			if se, ok := v.Fun.(*ast.SelectorExpr); ok {
				switch se.Sel.Name {
				case "Lock":
					if lock == 0 {
						lock = v.Pos()
					}
				case "Begin":
					if begin == 0 {
						begin = v.Pos()
					}
				}
			}
		case *ast.DeferStmt:
			if se, ok := v.Call.Fun.(*ast.SelectorExpr); ok && se.Sel.Name == "Unlock" && unlock == 0 {
				unlock = v.Pos()
			}
		}
		return true
	})
	return lock != 0 && unlock != 0 && begin != 0 && lock < begin && unlock < begin
}

func init() {
	reg("Facts", func(g *gen) {
		for _, fn := range []string{"nodePoints", "edgePoints"} {
			rb, cb, bad := returnAudit("store/sqlite.go", fn)
			g.raw(fmt.Sprintf("/-- store/sqlite.go %s: error returns after Begin that are preceded by rollback(), that are the Begin/Commit error itself, and that are neither -/\ndef %sReturns : Nat × Nat × Nat := (%d, %d, %d)", fn, fn, rb, cb, bad))
			g.boolFact(fn+"LockBeforeBegin", lockBeforeBegin("store/sqlite.go", fn), "store/sqlite.go "+fn+": writeLock.Lock(); defer Unlock() precede Begin")
		}
		g.boolFact("handleNodePointsStops", stopsAfterErrorReply("store/store.go", "handleNodePoints"), "store/store.go: every error reply of handleNodePoints is followed by return")
		g.boolFact("handleEdgePointsStops", stopsAfterErrorReply("store/store.go", "handleEdgePoints"), "store/store.go: every error reply of handleEdgePoints is followed by return")
	})
}
