package main

func init() {
	reg("Export", func(g *gen) {
		const rel = "client/node.go"
		g.raw("def exportHelperIfs : List String := " + leanStrList(ifConds(rel, "exportNodesHelper")))
		g.raw("def exportHelperGetNodes : List String := " + leanStrList(callsOf(rel, "exportNodesHelper", "GetNodes")))
		g.raw("def exportGetNodes : List String := " + leanStrList(callsOf(rel, "ExportNodes", "GetNodes")))
		g.raw("def exportMarshal : List String := " + leanStrList(callsOf(rel, "ExportNodes", "MarshalWithOptions")))
		g.raw("def importIfs : List String := " + leanStrList(ifConds(rel, "ImportNodes")))
		g.raw("def importCalls : List String := " + leanStrList(append(append(callsOf(rel, "ImportNodes", "checkIDs"), callsOf(rel, "ImportNodes", "ReplaceIDs")...), callsOf(rel, "ImportNodes", "SendNode")...)))
		g.raw("def importMarker : List String := " + leanStrList(assignsOp(rel, "ImportNodes", "+=")))
		g.raw("def checkIDsIfs : List String := " + leanStrList(ifConds(rel, "checkIDs")))
		g.raw("def checkIDsRec : List String := " + leanStrList(callsOf(rel, "checkIDs", "checkIDs")))
		g.raw("def replaceIfs : List String := " + leanStrList(ifConds(rel, "ReplaceIDs")))
		g.raw("def replaceRec : List String := " + leanStrList(callsOf(rel, "ReplaceIDs", "replaceHelper")))
		g.raw("def replaceRanges : List String := " + leanStrList(rangeExprs(rel, "ReplaceIDs")))
		g.raw("def sendNodeIfs : List String := " + leanStrList(ifConds(rel, "SendNode")))
		g.raw("def sendNodeSends : List String := " + leanStrList(append(callsOf(rel, "SendNode", "SendNodePoints"), callsOf(rel, "SendNode", "SendEdgePoints")...)))
		g.str("sPointTypeDescription", "data/schema.go", "PointTypeDescription")
		g.str("sPointTypeNodeID", "data/schema.go", "PointTypeNodeID")
	})
}
