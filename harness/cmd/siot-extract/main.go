// siot-extract: tie A. Regenerates lean/Siot/Gen/*.lean from the Go sources of /repo on
// every run: literal constants, tables and a few structural facts that the Lean models and
// theorems depend on. If the source changes one of them, the generated file changes and the
// theorem modules that pin it (by `decide`/`rfl`) stop compiling.
package main

import (
	"flag"
	"fmt"
	"go/ast"
	"go/parser"
	"go/token"
	"os"
	"path/filepath"
	"sort"
	"strconv"
	"strings"
)

type file struct {
	fset *token.FileSet
	f    *ast.File
	path string
}

var repo string
var cache = map[string]*file{}
var problems []string

func load(rel string) *file {
	if f, ok := cache[rel]; ok {
		return f
	}
	p := rel
	if !filepath.IsAbs(rel) {
		p = filepath.Join(repo, rel)
	}
	fset := token.NewFileSet()
	f, err := parser.ParseFile(fset, p, nil, parser.ParseComments)
	if err != nil {
		problems = append(problems, fmt.Sprintf("parse %s: %v", rel, err))
		cache[rel] = nil
		return nil
	}
	cache[rel] = &file{fset, f, p}
	return cache[rel]
}

// valueOf finds the initialiser expression of a package-level const/var.
func valueOf(rel, name string) ast.Expr {
	f := load(rel)
	if f == nil {
		return nil
	}
	for _, d := range f.f.Decls {
		gd, ok := d.(*ast.GenDecl)
		if !ok {
			continue
		}
		for _, s := range gd.Specs {
			vs, ok := s.(*ast.ValueSpec)
			if !ok {
				continue
			}
			for i, n := range vs.Names {
				if n.Name == name && i < len(vs.Values) {
					return vs.Values[i]
				}
			}
		}
	}
	problems = append(problems, fmt.Sprintf("%s: %s not found", rel, name))
	return nil
}

func funcDecl(rel, name string) *ast.FuncDecl {
	f := load(rel)
	if f == nil {
		return nil
	}
	// "Recv.name" selects the method of that receiver type (pointer or value)
	recv := ""
	if i := strings.Index(name, "."); i >= 0 {
		recv, name = name[:i], name[i+1:]
	}
	for _, d := range f.f.Decls {
		if fd, ok := d.(*ast.FuncDecl); ok && fd.Name.Name == name {
			if recv != "" {
				if fd.Recv == nil || len(fd.Recv.List) != 1 {
					continue
				}
				t := fd.Recv.List[0].Type
				if st, ok := t.(*ast.StarExpr); ok {
					t = st.X
				}
				if id, ok := t.(*ast.Ident); !ok || id.Name != recv {
					continue
				}
			}
			return fd
		}
	}
	problems = append(problems, fmt.Sprintf("%s: func %s not found", rel, name))
	return nil
}

func strLit(e ast.Expr) (string, bool) {
	switch v := e.(type) {
	case *ast.BasicLit:
		if v.Kind == token.STRING {
			s, err := strconv.Unquote(v.Value)
			return s, err == nil
		}
	case *ast.CallExpr: // regexp.MustCompile(`..`), T("..")
		if len(v.Args) == 1 {
			return strLit(v.Args[0])
		}
	case *ast.ParenExpr:
		return strLit(v.X)
	}
	return "", false
}

func intLit(e ast.Expr) (int64, bool) {
	switch v := e.(type) {
	case *ast.BasicLit:
		if v.Kind == token.INT || v.Kind == token.CHAR {
			if v.Kind == token.CHAR {
				s, err := strconv.Unquote(v.Value)
				if err != nil || len(s) == 0 {
					return 0, false
				}
				return int64([]rune(s)[0]), true
			}
			n, err := strconv.ParseInt(v.Value, 0, 64)
			if err != nil {
				u, err2 := strconv.ParseUint(v.Value, 0, 64)
				return int64(u), err2 == nil
			}
			return n, true
		}
	case *ast.CallExpr:
		if len(v.Args) == 1 {
			return intLit(v.Args[0])
		}
	case *ast.ParenExpr:
		return intLit(v.X)
	case *ast.UnaryExpr:
		if v.Op == token.SUB {
			n, ok := intLit(v.X)
			return -n, ok
		}
	case *ast.BinaryExpr:
		a, ok1 := intLit(v.X)
		b, ok2 := intLit(v.Y)
		if ok1 && ok2 {
			switch v.Op {
			case token.ADD:
				return a + b, true
			case token.SUB:
				return a - b, true
			case token.MUL:
				return a * b, true
			case token.SHL:
				return a << uint(b), true
			}
		}
	}
	return 0, false
}

func leanStr(s string) string {
	var b strings.Builder
	b.WriteByte('"')
	for _, c := range []byte(s) {
		switch {
		case c == '\\':
			b.WriteString("\\\\")
		case c == '"':
			b.WriteString("\\\"")
		case c == '\n':
			b.WriteString("\\n")
		case c == '\t':
			b.WriteString("\\t")
		case c < 32 || c > 126:
			fmt.Fprintf(&b, "\\x%02x", c)
		default:
			b.WriteByte(c)
		}
	}
	b.WriteByte('"')
	return b.String()
}

type gen struct {
	lines []string
}

func (g *gen) str(name, rel, goName string) {
	e := valueOf(rel, goName)
	s, ok := strLit(e)
	if !ok {
		problems = append(problems, fmt.Sprintf("%s: %s is not a string literal", rel, goName))
		s = "<<missing>>"
	}
	g.lines = append(g.lines, fmt.Sprintf("/-- %s: %s -/\ndef %s : String := %s", rel, goName, name, leanStr(s)))
}

func (g *gen) int(name, rel, goName string) {
	e := valueOf(rel, goName)
	n, ok := intLit(e)
	if !ok {
		problems = append(problems, fmt.Sprintf("%s: %s is not an integer literal", rel, goName))
		n = -424242
	}
	g.lines = append(g.lines, fmt.Sprintf("/-- %s: %s -/\ndef %s : Int := %d", rel, goName, name, n))
}

func (g *gen) boolFact(name string, v bool, why string) {
	g.lines = append(g.lines, fmt.Sprintf("/-- %s -/\ndef %s : Bool := %v", why, name, v))
}

func (g *gen) raw(s string) { g.lines = append(g.lines, s) }

func (g *gen) write(dir, mod string) {
	var b strings.Builder
	b.WriteString("/- GENERATED by siot-extract from the Go sources on every run. Do not edit. -/\n")
	b.WriteString("namespace Siot.Gen\n\n")
	b.WriteString(strings.Join(g.lines, "\n\n"))
	b.WriteString("\n\nend Siot.Gen\n")
	p := filepath.Join(dir, mod+".lean")
	old, err := os.ReadFile(p)
	if err == nil && string(old) == b.String() {
		return // unchanged: keep mtime so lake does not rebuild
	}
	if err := os.WriteFile(p, []byte(b.String()), 0o644); err != nil {
		fmt.Fprintln(os.Stderr, err)
		os.Exit(1)
	}
}

func main() {
	out := flag.String("out", "", "output directory (lean/Siot/Gen)")
	flag.StringVar(&repo, "repo", "/repo", "repository root")
	flag.Parse()
	if *out == "" {
		fmt.Fprintln(os.Stderr, "need -out")
		os.Exit(2)
	}
	os.MkdirAll(*out, 0o755)
	for _, e := range extractors {
		g := &gen{}
		e.fn(g)
		g.write(*out, e.mod)
	}
	sort.Strings(problems)
	for _, p := range problems {
		fmt.Println("extract-problem:", p)
	}
	fmt.Printf("siot-extract: %d modules, %d problems\n", len(extractors), len(problems))
}

type extractor struct {
	mod string
	fn  func(g *gen)
}

var extractors []extractor

func reg(mod string, fn func(g *gen)) { extractors = append(extractors, extractor{mod, fn}) }
