#!/bin/sh
# usage: seedtest.sh Cxx [dir]   — confirm a seeded mutation: apply seeded/Cxx/patch.diff to /repo (never committed),
# run the property's quick check, record the outcome in seeded/Cxx/result.txt, restore /repo.
id=$1
cd "$(dirname "$0")"
src=${2:-/tmp/mut-$id}
mkdir -p seeded/$id
if [ -f "$src/patch.diff" ]; then
  cp "$src/patch.diff" seeded/$id/patch.diff
  [ -f "$src/meta.json" ] && cp "$src/meta.json" seeded/$id/meta.json
  for f in $(cd "$src" && git status --porcelain | grep '^??' | awk '{print $2}' | grep -v '^patch.diff$\|^meta.json$'); do
    mkdir -p "seeded/$id/demo/$(dirname $f)"; cp -r "$src/$f" "seeded/$id/demo/$f" 2>/dev/null
  done
fi
if ! git -C /repo diff --quiet; then echo "/repo is dirty"; exit 2; fi
if ! git -C /repo apply --check /verif/seeded/$id/patch.diff 2>/dev/null; then echo "patch does not apply" | tee seeded/$id/result.txt; exit 3; fi
git -C /repo apply /verif/seeded/$id/patch.diff
(cd /repo && GOFLAGS=-mod=mod GOPROXY=off GOSUMDB=off go build ./... ) > seeded/$id/build.txt 2>&1 || echo "BUILD FAILS" >> seeded/$id/build.txt
./check $id > seeded/$id/check.out 2>&1
rc=$?
git -C /repo checkout -- .
{ echo "exit=$rc"; grep -v '^KNOWN-FINDING' seeded/$id/check.out | tail -4 | cut -c1-300; } > seeded/$id/result.txt
cat seeded/$id/result.txt
