import Siot.Basic
/-
Model of modbus/pdu.go (`PDU.ProcessRequest`) and modbus/reg.go (`Regs`).
All quantities are naturals; Go's fixed-width arithmetic is written out where the code relies on it.
-/
namespace Siot.Modbus
open Siot

structure Reg where
  addr : Nat            -- uint16
  val : Nat             -- uint16
  valid : Nat → Bool    -- the Validate callback (`fun _ => true` when nil)

abbrev Regs := List Reg

-- exception codes
def excIllegalFunction : Nat := 1
def excIllegalAddress : Nat := 2
def excIllegalValue : Nat := 3

def maxReadBits : Nat := 2000
def maxReadRegs : Nat := 125
def maxWriteBits : Nat := 1968
def maxWriteRegs : Nat := 123
def maxAddress : Nat := 65535
/-- `maxAddress + 1` -/
def addressSpace : Nat := 65536

/-- `Regs.readReg`: first register whose address equals `uint16(address)` -/
def readReg : Regs → Nat → Option Nat
  | [], _ => none
  | r :: rs, a => if r.addr = a % 65536 then some r.val else readReg rs a

/-- `Regs.writeReg` -/
def writeReg : Regs → Nat → Nat → Except Nat Regs
  | [], _, _ => .error excIllegalAddress
  | r :: rs, a, v =>
    if r.addr = a % 65536 then
      if r.valid v then .ok ({ r with val := v } :: rs) else .error excIllegalValue
    else match writeReg rs a v with
      | .ok rs' => .ok (r :: rs')
      | .error e => .error e

def readCoil (rs : Regs) (num : Nat) : Option Bool :=
  match readReg rs (num / 16) with
  | some rv => some (rv.testBit (num % 16))
  | none => none

def setBit (rv : Nat) (pos : Nat) (value : Bool) : Nat :=
  if value then rv ||| (1 <<< pos) else rv &&& (65535 - (1 <<< pos))

def writeCoil (rs : Regs) (num : Nat) (value : Bool) : Except Nat Regs :=
  match readReg rs (num / 16) with
  | none => .error excIllegalAddress
  | some rv => writeReg rs (num / 16) (setBit rv (num % 16) value)

inductive Outcome where
  | normal (fc : Nat) (data : Bytes)
  | exception (fc : Nat) (code : Nat)     -- function code with 0x80 set, exception code
  | tooShort                              -- returned error: request shorter than the fixed header
  | panic (m : String)
  deriving Repr, DecidableEq

/-- `minRequestLen` -/
def minRequestLen (fc : Nat) : Nat :=
  match fc with
  | 2 => 5 | 1 => 5 | 5 => 5 | 15 => 7 | 4 => 5 | 3 => 5 | 6 => 5 | 16 => 8 | 23 => 12 | 22 => 7 | 24 => 3
  | _ => 0

def exc (fc code : Nat) : Outcome := .exception (fc ||| 128) code

def u8 (n : Nat) : UInt8 := UInt8.ofNat n

/-- read loop for bits: values of `count` coils from `address`, or the exception -/
def readBits (rs : Regs) (address : Nat) : Nat → Except Nat (List Bool)
  | 0 => .ok []
  | n + 1 =>
    match readBits rs address n with
    | .error e => .error e
    | .ok vs => match readCoil rs (address + n) with
      | none => .error excIllegalAddress
      | some v => .ok (vs ++ [v])

def readWords (rs : Regs) (address : Nat) : Nat → Except Nat (List Nat)
  | 0 => .ok []
  | n + 1 =>
    match readWords rs address n with
    | .error e => .error e
    | .ok vs => match readReg rs (address + n) with
      | none => .error excIllegalAddress
      | some v => .ok (vs ++ [v])

/-- status byte `j` of a bit response: bit `i` is value `8 j + i`, zero beyond the end
    (`resp.Data[1+i/8] |= 1 << (i % 8)`) -/
def statusByte (bits : List Bool) (j : Nat) : Nat :=
  (List.range 8).foldl (fun acc i => acc + if bits.getD (8 * j + i) false then 2 ^ i else 0) 0

def statusBytes (n : Nat) (bits : List Bool) : Bytes := (List.range n).map (fun j => u8 (statusByte bits j))

def be16 (v : Nat) : Bytes := [u8 (v / 256 % 256), u8 (v % 256)]

/-- write loop for coils: bit `i` of the data bytes to coil `address + i`; stops at the first
    error and returns it together with the register file as it is at that moment -/
def writeBits (rs : Regs) (address : Nat) (bytes : Bytes) : Nat → Nat → Option Nat × Regs
  | _, 0 => (none, rs)
  | i, n + 1 =>
    let value := ((bytes.getD (i / 8) 0).toNat >>> (i % 8)) % 2 == 1
    match writeCoil rs (address + i) value with
    | .error e => (some e, rs)
    | .ok rs' => writeBits rs' address bytes (i + 1) n

def writeWords (rs : Regs) (address : Nat) (bytes : Bytes) : Nat → Nat → Option Nat × Regs
  | _, 0 => (none, rs)
  | i, n + 1 =>
    let value := (bytes.getD (2 * i) 0).toNat * 256 + (bytes.getD (2 * i + 1) 0).toNat
    match writeReg rs (address + i) value with
    | .error e => (some e, rs)
    | .ok rs' => writeWords rs' address bytes (i + 1) n

def word (hi lo : UInt8) : Nat := hi.toNat * 256 + lo.toNat

def reqReadBits (rs : Regs) (fc : Nat) : Bytes → Outcome × Regs
  | a1 :: a0 :: c1 :: c0 :: _ =>
    let address := word a1 a0
    let count := word c1 c0
    if count < 1 ∨ maxReadBits < count then (exc fc excIllegalValue, rs)
    else if addressSpace < address + count then (exc fc excIllegalAddress, rs)
    else
      let nbytes := (count + 7) / 8 % 256
      match readBits rs address count with
      | .error e => (exc fc e, rs)
      | .ok vs => (.normal fc (u8 nbytes :: statusBytes nbytes vs), rs)
  | _ => (.panic "slice bounds", rs)

def reqReadWords (rs : Regs) (fc : Nat) : Bytes → Outcome × Regs
  | a1 :: a0 :: c1 :: c0 :: _ =>
    let address := word a1 a0
    let count := word c1 c0
    if count < 1 ∨ maxReadRegs < count then (exc fc excIllegalValue, rs)
    else if addressSpace < address + count then (exc fc excIllegalAddress, rs)
    else
      match readWords rs address count with
      | .error e => (exc fc e, rs)
      | .ok vs => (.normal fc (u8 (count * 2 % 256) :: vs.flatMap be16), rs)
  | _ => (.panic "slice bounds", rs)

def reqWriteCoil (rs : Regs) (data : Bytes) : Outcome × Regs :=
  match data with
  | a1 :: a0 :: v1 :: v0 :: _ =>
    let address := word a1 a0
    let v := word v1 v0
    if v ≠ 0 ∧ v ≠ 0xff00 then (exc 5 excIllegalValue, rs)
    else match writeCoil rs address (v == 0xff00) with
      | .error e => (exc 5 e, rs)
      | .ok rs' => (.normal 5 data, rs')
  | _ => (.panic "slice bounds", rs)

def reqWriteReg (rs : Regs) (data : Bytes) : Outcome × Regs :=
  match data with
  | a1 :: a0 :: v1 :: v0 :: _ =>
    match writeReg rs (word a1 a0) (word v1 v0) with
    | .error e => (exc 6 e, rs)
    | .ok rs' => (.normal 6 data, rs')
  | _ => (.panic "slice bounds", rs)

def reqWriteCoils (rs : Regs) (data : Bytes) : Outcome × Regs :=
  match data with
  | a1 :: a0 :: q1 :: q0 :: bc :: bytes =>
    let address := word a1 a0
    let quantity := word q1 q0
    if quantity < 1 ∨ maxWriteBits < quantity ∨ bc.toNat ≠ (quantity + 7) / 8 ∨ data.length ≠ 5 + (quantity + 7) / 8 then
      (exc 15 excIllegalValue, rs)
    else if addressSpace < address + quantity then (exc 15 excIllegalAddress, rs)
    else match writeBits rs address bytes 0 quantity with
      | (some e, rs') => (exc 15 e, rs')   -- the coils written before the error stay written
      | (none, rs') => (.normal 15 [a1, a0, q1, q0], rs')
  | _ => (.panic "slice bounds", rs)

def reqWriteRegs (rs : Regs) (data : Bytes) : Outcome × Regs :=
  match data with
  | a1 :: a0 :: q1 :: q0 :: bc :: bytes =>
    let address := word a1 a0
    let quantity := word q1 q0
    if quantity < 1 ∨ maxWriteRegs < quantity ∨ bc.toNat ≠ quantity * 2 ∨ data.length ≠ 5 + quantity * 2 then
      (exc 16 excIllegalValue, rs)
    else if addressSpace < address + quantity then (exc 16 excIllegalAddress, rs)
    else match writeWords rs address bytes 0 quantity with
      | (some e, rs') => (exc 16 e, rs')
      | (none, rs') => (.normal 16 [a1, a0, q1, q0], rs')
  | _ => (.panic "slice bounds", rs)

/-- `PDU.ProcessRequest`: outcome and the register file afterwards.
    For multiple writes the registers written before an exception stay written. -/
def processRequest (rs : Regs) (fc : Nat) (data : Bytes) : Outcome × Regs :=
  if data.length + 1 < minRequestLen fc then (.tooShort, rs)
  else if fc = 1 ∨ fc = 2 then reqReadBits rs fc data
  else if fc = 3 ∨ fc = 4 then reqReadWords rs fc data
  else if fc = 5 then reqWriteCoil rs data
  else if fc = 15 then reqWriteCoils rs data
  else if fc = 6 then reqWriteReg rs data
  else if fc = 16 then reqWriteRegs rs data
  else (exc fc excIllegalFunction, rs)

end Siot.Modbus
