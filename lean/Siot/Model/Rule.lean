import Siot.Model.Schedule
/-
Model of client/rule.go: RuleClient.ruleProcessPoints, processError, ruleRunActions, ruleInactiveActions
and the `run` closure of RuleClient.Run — the state machine a rule client runs on every batch of points
it sees on `up.<parent>.*`, on schedule ticks and on configuration changes.

Strings are byte lists; float64 values are their bit patterns (Nat < 2^64); times are Int nanoseconds.
A publication `SendNodePoint(nc, id, point)` is an `Out` record (time stamps are `time.Now()` and not modelled).
-/
namespace Siot.Rule
open Siot Siot.Schedule

/-! ### float64 comparisons on bit patterns -/
def fNaN (b : Nat) : Bool := (b / 4503599627370496) % 2048 = 2047 && b % 4503599627370496 ≠ 0
/-- sign-magnitude key: IEEE order of non-NaN doubles is the order of these integers (−0 and +0 coincide) -/
def fkey (b : Nat) : Int := if b / 9223372036854775808 % 2 = 0 then (b % 9223372036854775808 : Nat) else -((b % 9223372036854775808 : Nat) : Int)
def feq (a b : Nat) : Bool := !fNaN a && !fNaN b && fkey a == fkey b
def flt (a b : Nat) : Bool := !fNaN a && !fNaN b && fkey a < fkey b
def fgt (a b : Nat) : Bool := flt b a
def fne (a b : Nat) : Bool := !feq a b
/-- Go `v != 0` -/
def fnz (b : Nat) : Bool := fne b 0
def b2f (b : Bool) : Nat := if b then 4607182418800017408 else 0   -- data.BoolToFloat: 1.0 / 0.0

/-! ### constants of data/schema.go (re-extracted and pinned in Props/C13) -/
def sPointValue : Bytes := [112, 111, 105, 110, 116, 86, 97, 108, 117, 101]
def sSchedule : Bytes := [115, 99, 104, 101, 100, 117, 108, 101]
def sNumber : Bytes := [110, 117, 109, 98, 101, 114]
def sOnOff : Bytes := [111, 110, 79, 102, 102]
def sText : Bytes := [116, 101, 120, 116]
def sGT : Bytes := [62]
def sLT : Bytes := [60]
def sEQ : Bytes := [61]
def sNE : Bytes := [33, 61]
def sContains : Bytes := [99, 111, 110, 116, 97, 105, 110, 115]
def sTrigger : Bytes := [116, 114, 105, 103, 103, 101, 114]
def sActive : Bytes := [97, 99, 116, 105, 118, 101]
def sError : Bytes := [101, 114, 114, 111, 114]
def sSetValue : Bytes := [115, 101, 116, 86, 97, 108, 117, 101]
def eUnknownValueType : Bytes := strBytes "unknown value type: "
def eSchedule : Bytes := strBytes "Error parsing schedule"
def eActNode : Bytes := strBytes "Error, node action nodeID must be set"
def eActType : Bytes := strBytes "Error, node action point type must be set"
def eActUnknown : Bytes := strBytes "Uknown rule action: "
def sPlayAudio : Bytes := strBytes "playAudio"
/-- `os.Open` on a path that does not exist (the only kind generated; playing an existing file starts an external
    player and is outside the model) -/
def eOpen (path : Bytes) : Bytes := strBytes "open " ++ path ++ strBytes ": no such file or directory"

structure Pt where
  type : Bytes
  key : Bytes
  value : Nat
  text : Bytes
  time : Int
deriving DecidableEq, Repr

/-- one `SendNodePoint(nc, node, Point{Type, Value, Text, Origin})` -/
structure Out where
  node : Bytes
  type : Bytes
  value : Nat
  text : Bytes
  origin : Bytes
deriving DecidableEq, Repr

structure Cond where
  id : Bytes
  ctype : Bytes
  nodeID : Bytes
  pointType : Bytes
  pointKey : Bytes
  valueType : Bytes
  operator : Bytes
  value : Nat
  valueText : Bytes
  start : Bytes
  stop : Bytes
  weekdays : List Bool
  dates : List Bytes
  active : Bool
  error : Bytes
deriving DecidableEq, Repr

structure Act where
  id : Bytes
  action : Bytes
  nodeID : Bytes
  pointType : Bytes
  value : Nat
  valueText : Bytes
  active : Bool
  error : Bytes
  filePath : Bytes := []
deriving DecidableEq, Repr

structure Rule where
  id : Bytes
  active : Bool
  error : Bytes
  conds : List Cond
  acts : List Act
  actsInactive : List Act
deriving DecidableEq, Repr

/-- `bytes.Contains`-style substring test (strings.Contains) -/
def isInfix : Bytes → Bytes → Bool
  | [], _ => true
  | _ :: _, [] => false
  | n :: ns, h :: hs => (n :: ns).isPrefixOf (h :: hs) || isInfix (n :: ns) hs

/-- RuleClient.sendPoint: the origin is the rule unless the rule writes to its own node -/
def send (rid : Bytes) (node : Bytes) (type : Bytes) (value : Nat) (text : Bytes) (origin : Bytes) : Out :=
  if node ≠ rid then ⟨node, type, value, text, rid⟩ else ⟨node, type, value, text, origin⟩

def firstErr (l : List Bytes) : Option Bytes := l.find? (fun e => e ≠ [])

/-- the scan of RuleClient.processError(""): the last of the three lists that holds an error wins -/
def foundErr (r : Rule) : Bytes :=
  let f := (firstErr (r.conds.map (·.error))).getD []
  let f := match firstErr (r.acts.map (·.error)) with | some e => e | none => f
  match firstErr (r.actsInactive.map (·.error)) with | some e => e | none => f

/-- RuleClient.processError(errS) -/
def ruleError (r : Rule) (errS : Bytes) : Rule × List Out :=
  let e := if errS ≠ [] then errS else foundErr r
  if e ≠ r.error then ({ r with error := e }, [send r.id r.id sError 0 e []]) else (r, [])

/-- Go `[]bool` weekdays → the list of `time.Weekday(i)` with `v` set -/
def weekdayList (l : List Bool) : List Int :=
  ((List.range l.length).zip l).filterMap (fun x => if x.2 then some (x.1 : Int) else none)

def numCmp (op : Bytes) (pv cv : Nat) : Bool :=
  if op = sGT then fgt pv cv else if op = sLT then flt pv cv else if op = sEQ then feq pv cv
  else if op = sNE then fne pv cv else false

def textCmp (op : Bytes) (pt ct : Bytes) : Bool :=
  if op = sEQ then pt = ct else if op = sNE then pt ≠ ct else if op = sContains then isInfix ct pt else false

inductive Ev where
  | skip                                        -- `continue`: the condition is left alone
  | schedErr (e : Bytes)                        -- schedule error, then `continue`
  | val (active : Bool) (err : Option Bytes)    -- evaluated (possibly with "unknown value type")
deriving DecidableEq, Repr

/-- the switch of ruleProcessPoints for one point and one condition -/
def evalCond (c : Cond) (nodeID : Bytes) (p : Pt) : Ev :=
  if c.ctype = sPointValue then
    if c.nodeID ≠ [] ∧ c.nodeID ≠ nodeID then .skip
    else if c.pointKey ≠ [] ∧ c.pointKey ≠ p.key then .skip
    else if c.pointType ≠ [] ∧ c.pointType ≠ p.type then .skip
    else if c.valueType = sNumber then .val (numCmp c.operator p.value c.value) none
    else if c.valueType = sText then .val (textCmp c.operator p.text c.valueText) none
    else if c.valueType = sOnOff then .val (fnz c.value == fnz p.value) none
    else .val false (some (eUnknownValueType ++ c.valueType))
  else if c.ctype = sSchedule then
    if p.type ≠ sTrigger then .skip
    else match activeForTime ⟨c.start, c.stop, weekdayList c.weekdays, c.dates⟩ p.time with
      | .ok b => .val b none
      | _ => .schedErr eSchedule
  else .val false none

/-- the condition after one point -/
def updCond (nodeID : Bytes) (p : Pt) (c : Cond) : Cond :=
  match evalCond c nodeID p with
  | .skip => c
  | .schedErr e => { c with error := e }
  | .val a (some e) => { c with active := a, error := e }
  | .val a none => { c with active := a, error := [] }

/-- one iteration of the inner loop: condition `c` between the already processed `done` and the
    pending `rest`; returns the rule (with `c` replaced) and the publications -/
def condStep (r : Rule) (done : List Cond) (c : Cond) (rest : List Cond) (nodeID : Bytes) (p : Pt) : Rule × List Out :=
  let c' := updCond nodeID p c
  let view (r : Rule) : Rule := { r with conds := done ++ c' :: rest }
  match evalCond c nodeID p with
  | .skip => (view r, [])
  | .schedErr e =>
    let o1 := if c.error ≠ e then [send r.id c.id sError 0 e []] else []
    let (r1, o2) := ruleError (view r) e
    (r1, o1 ++ o2)
  | .val a (some e) =>
    let o1 := if c.error ≠ e then [send r.id c.id sError 0 e []] else []
    let (r1, o2) := ruleError (view r) e
    let o3 := if a ≠ c.active then [send r.id c.id sActive (b2f a) [] []] else []
    (r1, o1 ++ o2 ++ o3)
  | .val a none =>
    let o3 := if a ≠ c.active then [send r.id c.id sActive (b2f a) [] []] else []
    if c.error ≠ [] then
      let (r1, o4) := ruleError (view r) []
      (r1, o3 ++ send r.id c.id sError 0 [] [] :: o4)
    else (view r, o3)

def condLoop (nodeID : Bytes) (p : Pt) : Rule → List Cond → List Cond → Rule × List Out
  | r, _, [] => (r, [])
  | r, done, c :: rest =>
    let (r1, o1) := condStep r done c rest nodeID p
    let (r2, o2) := condLoop nodeID p r1 (done ++ [updCond nodeID p c]) rest
    (r2, o1 ++ o2)

def procPoint (r : Rule) (nodeID : Bytes) (p : Pt) : Rule × List Out := condLoop nodeID p r [] r.conds

def procPoints (r : Rule) (nodeID : Bytes) : List Pt → Rule × List Out
  | [] => (r, [])
  | p :: ps =>
    let (r1, o1) := procPoint r nodeID p
    let (r2, o2) := procPoints r1 nodeID ps
    (r2, o1 ++ o2)

structure Proc where
  rule : Rule
  outs : List Out
  active : Bool
  changed : Bool

/-- RuleClient.ruleProcessPoints -/
def ruleProcessPoints (r : Rule) (nodeID : Bytes) (pts : List Pt) : Proc :=
  let (r1, o1) := procPoints r nodeID pts
  let all := r1.conds.all (·.active)
  if all ≠ r1.active then
    ⟨{ r1 with active := all }, o1 ++ [send r1.id r1.id sActive (b2f all) [] []], all, true⟩
  else ⟨r1, o1, all, false⟩

/-! ### actions -/
inductive Which where | act | inact
deriving DecidableEq, Repr

def getActs (r : Rule) : Which → List Act
  | .act => r.acts
  | .inact => r.actsInactive
def setActs (r : Rule) (w : Which) (l : List Act) : Rule :=
  match w with
  | .act => { r with acts := l }
  | .inact => { r with actsInactive := l }

/-- the error (if any) of one action, and what it publishes when it has none -/
def actEval (rid : Bytes) (a : Act) : Option Bytes × List Out :=
  if a.action = sSetValue then
    if a.nodeID = [] then (some eActNode, [])
    else if a.pointType = [] then (some eActType, [])
    else (none, [send rid a.nodeID a.pointType a.value a.valueText a.id])
  else if a.action = sPlayAudio then (some (eOpen a.filePath), [])   -- after the repair: an action error, not log.Fatal
  else (some (eActUnknown ++ a.action), [])

def updAct (rid : Bytes) (a : Act) : Act :=
  match (actEval rid a).1 with
  | some e => { a with active := true, error := e }
  | none => { a with active := true, error := [] }

def actStep (r : Rule) (w : Which) (done : List Act) (a : Act) (rest : List Act) : Rule × List Out :=
  let a' := updAct r.id a
  let view (r : Rule) : Rule := setActs r w (done ++ a' :: rest)
  match actEval r.id a with
  | (some e, _) =>
    let o1 := if a.error ≠ e then [send r.id a.id sError 0 e []] else []
    let (r1, o2) := ruleError (view r) e
    (r1, o1 ++ o2 ++ [send r.id a.id sActive (b2f true) [] []])
  | (none, os) =>
    let o3 := [send r.id a.id sActive (b2f true) [] []]
    if a.error ≠ [] then
      let (r1, o4) := ruleError (view r) []
      (r1, os ++ o3 ++ send r.id a.id sError 0 [] [] :: o4)
    else (view r, os ++ o3)

def actLoop (w : Which) : Rule → List Act → List Act → Rule × List Out
  | r, _, [] => (r, [])
  | r, done, a :: rest =>
    let (r1, o1) := actStep r w done a rest
    let (r2, o2) := actLoop w r1 (done ++ [updAct r.id a]) rest
    (r2, o1 ++ o2)

/-- RuleClient.ruleRunActions -/
def runActions (r : Rule) (w : Which) : Rule × List Out := actLoop w r [] (getActs r w)

/-- RuleClient.ruleInactiveActions -/
def inactiveActions (r : Rule) (w : Which) : Rule × List Out :=
  (setActs r w ((getActs r w).map (fun a => { a with active := false })),
   (getActs r w).map (fun a => send r.id a.id sActive (b2f false) [] []))

def fire (r : Rule) (active : Bool) : Rule × List Out :=
  let (w1, w2) := if active then (Which.act, Which.inact) else (Which.inact, Which.act)
  let (r1, o1) := runActions r w1
  let (r2, o2) := inactiveActions r1 w2
  (r2, o1 ++ o2)

/-- the `run` closure: a batch from `id`; an empty batch stands for "configuration changed" and
    evaluates a trigger at `now` and always fires -/
def runBatch (r : Rule) (id : Bytes) (pts : List Pt) (now : Int) : Rule × List Out :=
  if pts ≠ [] then
    let pr := ruleProcessPoints r id pts
    if !pr.changed then (pr.rule, pr.outs)
    else
      let (r2, o2) := fire pr.rule pr.active
      (r2, pr.outs ++ o2)
  else
    let pr := ruleProcessPoints r r.id [⟨sTrigger, [], 0, [], now⟩]
    let (r2, o2) := fire pr.rule pr.active
    (r2, pr.outs ++ o2)

inductive Event where
  | batch (node : Bytes) (pts : List Pt) (now : Int)       -- message on up.<parent>.<node>
  | tick (now : Int)                                       -- schedule ticker
  | setCondValue (i : Nat) (v : Nat) (now : Int)           -- Points(condition id, value=v), then run("", nil)
  | setActValue (w : Which) (i : Nat) (v : Nat) (now : Int)
deriving Repr

def modifyNth {α} (l : List α) (i : Nat) (f : α → α) : List α :=
  (List.range l.length).zip l |>.map (fun x => if x.1 = i then f x.2 else x.2)

def step (r : Rule) : Event → Rule × List Out
  | .batch node pts now => runBatch r node pts now
  | .tick now => runBatch r r.id [⟨sTrigger, [], 0, [], now⟩] now
  | .setCondValue i v now => runBatch { r with conds := modifyNth r.conds i (fun c => { c with value := v }) } [] [] now
  | .setActValue w i v now => runBatch (setActs r w (modifyNth (getActs r w) i (fun a => { a with value := v }))) [] [] now

def runEvents (r : Rule) : List Event → Rule × List (List Out)
  | [] => (r, [])
  | e :: es =>
    let (r1, o) := step r e
    let (r2, os) := runEvents r1 es
    (r2, o :: os)

end Siot.Rule
