import Siot.Model.Crc16
/-
Model of client/serial-wrapper.go: SerialEncode / SerialDecode at the byte level.
The protobuf payload is an opaque byte string here (its codec is C12's subject).
-/
namespace Siot.Serial
open Siot Siot.Crc16

def subjectWidth : Nat := 16
def logSubject : Bytes := [108, 111, 103]   -- "log"

/-- subject padded with NULs to 16 bytes (`copy(sub, subject)`) -/
def padSubject (sub : Bytes) : Bytes := sub ++ List.replicate (subjectWidth - sub.length) 0

/-- `SerialEncode` with the marshalled payload given: error when the subject is too long.
    Log packets carry no checksum (docs/ref/serial.md). -/
def encode (seq : UInt8) (sub payload : Bytes) : Res Bytes :=
  if sub.length > subjectWidth then .err "subject"
  else
    let body := seq :: (padSubject sub ++ payload)
    if sub = logSubject then .ok body else .ok (body ++ le16 (crc body))

def dropWhileZero : Bytes → Bytes
  | [] => []
  | b :: rest => if b = 0 then dropWhileZero rest else b :: rest

/-- `bytes.Trim(s, "\x00")` -/
def trimNul (s : Bytes) : Bytes := (dropWhileZero (dropWhileZero s).reverse).reverse

structure Decoded where
  seq : UInt8
  subject : Bytes
  payload : Bytes
  deriving DecidableEq, Repr

/-- `SerialDecode` -/
def decode (d : Bytes) : Res Decoded :=
  match d with
  | [] => .err "short"
  | seq :: rest =>
    if d.length < 1 + 16 then .err "short"
    else
      let subject := trimNul (rest.take 16)
      if subject = logSubject then .ok ⟨seq, subject, rest.drop 16⟩
      else if d.length < 1 + 2 + 16 then .err "short"
      else
        let body := d.take (d.length - 2)
        match d.drop (d.length - 2) with
        | [lo, hi] =>
          if ofLe16 lo hi = crc body then .ok ⟨seq, subject, (rest.drop 16).take (d.length - 19)⟩
          else .err "crc"
        | _ => .err "short"

end Siot.Serial
