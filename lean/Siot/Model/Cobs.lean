import Siot.Basic
/-
Model of client/cobs-wrapper.go: cobsEncode (frame writer), cobsDecodeInplace, CobsWrapper.Read.
-/
namespace Siot.Cobs
open Siot

/-! ## Encoder (`cobsEncode`, used by `CobsWrapper.Write`) -/

/-- `bytes.Split(p, {0})` as a non-empty list: first run and the remaining runs -/
def splitZ : Bytes → Bytes × List Bytes
  | [] => ([], [])
  | b :: rest =>
    let (r, rs) := splitZ rest
    if b = 0 then ([], r :: rs) else (b :: r, rs)

/-- blocks for one zero-free run: `for len(ch) >= 0xfe { writeBlock(ch[:0xfe]) ... }; writeBlock(ch)` -/
def encRun (ch : Bytes) : Bytes :=
  if h : ch.length ≥ 254 then
    (255 : UInt8) :: (ch.take 254 ++ encRun (ch.drop 254))
  else
    UInt8.ofNat (ch.length + 1) :: ch
termination_by ch.length
decreasing_by simp only [List.length_drop]; omega

def encodeRuns (r : Bytes) (rs : List Bytes) : Bytes :=
  encRun r ++ rs.flatMap encRun

/-- `cobsEncode p` : the blocks of all runs followed by the terminating zero -/
def encode (p : Bytes) : Bytes :=
  let (r, rs) := splitZ p
  encodeRuns r rs ++ [0]

/-- what `CobsWrapper.Write` hands to the device for one frame -/
def wire (p : Bytes) : Bytes := 0 :: encode p

/-! ## Decoder (`cobsDecodeInplace`) -/

/-- main loop once the first code byte has been seen.
    `off`, `iOff` are the Go `uint8` variables (as naturals, `iOff++` wraps at 256) -/
def decLoop (off iOff : Nat) (out : Bytes) : Bytes → Res Bytes
  | [] => .ok out
  | b :: rest =>
    let iOff' := (iOff + 1) % 256
    if iOff' = off then
      if b = 0 then .ok out
      else decLoop b.toNat 0 (if off ≠ 255 then out ++ [0] else out) rest
    else
      if b = 0 then .err "decode"
      else decLoop off iOff' (out ++ [b]) rest

/-- skipping leading zeros -/
def decStart : Bytes → Res Bytes
  | [] => .ok []
  | b :: rest => if b = 0 then decStart rest else decLoop b.toNat 0 [] rest

def decodeInplace (b : Bytes) : Res Bytes :=
  if b.length ≤ 2 then .err "short" else decStart b

/-! ## Reader (`CobsWrapper.Read`) -/

def dropZeros : Bytes → Bytes
  | [] => []
  | b :: rest => if b = 0 then dropZeros rest else b :: rest

/-- split at the first zero: bytes before it and bytes after it -/
def cutAtZero : Bytes → Option (Bytes × Bytes)
  | [] => none
  | b :: rest =>
    if b = 0 then some ([], rest)
    else match cutAtZero rest with
      | some (f, r) => some (b :: f, r)
      | none => none

structure Cfg where
  bufLen : Nat      -- len(b) of the caller's buffer
  maxLen : Nat      -- maxMessageLength

inductive ReadOut where
  | frame (r : Res Bytes)   -- result of cobsDecodeInplace on a complete frame
  | tooMuch                 -- ErrCobsTooMuchData
  | devErr                  -- the device returned an error (end of the scripted chunks)
  deriving DecidableEq, Repr

/-- the part of one `Read` iteration before the device is touched: a complete frame in the
    leftover buffer (or the length guard) ends the call; otherwise `none` -/
def tryFrame (cfg : Cfg) (lo : Bytes) : Option (ReadOut × Bytes) :=
  let body := dropZeros lo
  match cutAtZero body with
  | some (f, rest) =>
    -- the frame is handed to the decoder between a leading and a trailing zero
    let frame := 0 :: (f ++ [0])
    if frame.length > cfg.bufLen then some (.tooMuch, rest)
    else some (.frame (decodeInplace frame), rest)
  | none =>
    if body.length ≥ cfg.bufLen ∨ body.length > cfg.maxLen then some (.tooMuch, [])
    else none

/-- one call of `Read`: remaining device reads and leftover buffer in; result and both out.
    Each device read returns one whole chunk (the scripted device never returns more than `len(b)`). -/
def read (cfg : Cfg) : List Bytes → Bytes → ReadOut × Bytes × List Bytes
  | [], lo =>
    match tryFrame cfg lo with
    | some (o, lo') => (o, lo', [])
    | none => (.devErr, dropZeros lo, [])
  | c :: cs, lo =>
    match tryFrame cfg lo with
    | some (o, lo') => (o, lo', c :: cs)
    | none => read cfg cs (dropZeros lo ++ c)

/-- repeated reads until the device reports an error -/
def readAll (cfg : Cfg) (fuel : Nat) (lo : Bytes) (chunks : List Bytes) : List ReadOut :=
  match fuel with
  | 0 => []
  | fuel + 1 =>
    match read cfg chunks lo with
    | (.devErr, _, _) => [.devErr]
    | (o, lo', cs') => o :: readAll cfg fuel lo' cs'

end Siot.Cobs
