import Siot.Model.Export
/-
Model of the catch-up pass of client/sync.go (SyncClient.syncNode, sendNodesRemote, sendNodesLocal) between a
downstream store `A` and an upstream store `B`, on the store model. Real-time forwarding (the Run loop and the
subscriptions) is not part of this model.
-/
namespace Siot.Sync
open Siot Siot.Store

/-- a NodeEdge as `getNodes` returns it -/
structure NE where
  id : Bytes
  parent : Bytes
  typ : Bytes
  hash : Nat
  pts : List Point
  epts : List Point
deriving DecidableEq, Repr

/-- `NodeEdge.IsTombstone`: the tombstone edge point (key "0") has value 1 -/
def isTomb (eps : List Point) : Bool :=
  match eps.find? (fun p => p.type == tombstoneT && p.key == zeroKey) with
  | some p => p.value == 4607182418800017408   -- 1.0
  | none => false

def neOf (st : St) (e : Edge) : NE :=
  { id := e.down, parent := e.up, typ := e.typ, hash := e.hash, pts := ptsOf st e.down, epts := eptsOf st e.up e.down }

def allS : Bytes := [97, 108, 108]   -- "all"

/-- store getNodes: parent "all" = every instance of `id`; id "all" = every child of `parent` -/
def getNodes (st : St) (parent id : Bytes) (includeDel : Bool) : List NE :=
  let es :=
    if parent = rootS then st.edges.filter (fun e => e.down == st.root)
    else if parent = allS then st.edges.filter (fun e => e.down == id)
    else if id = allS then st.edges.filter (fun e => e.up == parent)
    else st.edges.filter (fun e => e.up == parent && e.down == id)
  (es.map (neOf st)).filter (fun n => includeDel || !isTomb n.epts)

/-- a store write whose refusal is only logged -/
def tryNP (st : St) (id : Bytes) (pts : List Point) : St :=
  match nodePoints st id pts with | .ok s => s | _ => st
def tryEP (st : St) (id parent : Bytes) (pts : List Point) : St :=
  match edgePoints st id parent pts with | .ok s => s | _ => st

/-- SendNode(node) into a store: node points, then edge points (plus a tombstone-0 stamped `now` when they carry no
    tombstone point) with the node type appended; `none` = SendNode returned an error -/
def sendNode (st : St) (n : NE) (now : Int) : Option St :=
  let eps := n.epts ++ (if Export.hasTomb n.epts then [] else [{ type := tombstoneT, time := now }]) ++ [{ type := nodeTypeT, text := n.typ, time := now }]
  if n.id = [] ∨ n.parent = [] ∨ n.parent = noneS then none
  else
    match nodePoints st n.id n.pts with
    | .ok st1 =>
      match edgePoints st1 n.id n.parent eps with
      | .ok st2 => some st2
      | _ => none          -- the node points stay written
    | _ => none

/-- the store after a failed SendNode: node points may have been written before the edge points failed -/
def sendNodeState (st : St) (n : NE) (now : Int) : St :=
  match sendNode st n now with
  | some s => s
  | none =>
    if n.id = [] ∨ n.parent = [] ∨ n.parent = noneS then st
    else match nodePoints st n.id n.pts with | .ok st1 => st1 | _ => st

/-- sendNodesRemote / sendNodesLocal: the node, then (recursively) the non-deleted children that the LOCAL
    store `src` lists below it; an error stops everything that was still to be sent. `clk` counts the readings of the
    wall clock (every SendNode reads it anew); `wall k` is the k-th reading. -/
def sendNodesAux (wall : Int → Int) (src : St) : Nat → St × Int → NE → (St × Int) × Bool
  | 0, dst, _ => (dst, true)
  | fuel + 1, dst, n =>
    match sendNode dst.1 n (wall dst.2) with
    | none => ((sendNodeState dst.1 n (wall dst.2), dst.2 + 1), false)
    | some dst1 =>
      (getNodes src n.id allS false).foldl (fun (acc : (St × Int) × Bool) c =>
        if acc.2 then sendNodesAux wall src fuel acc.1 c else acc) ((dst1, dst.2 + 1), true)

def sendNodes (wall : Int → Int) (src : St) (fuel : Nat) (dst : St × Int) (n : NE) : St × Int := (sendNodesAux wall src fuel dst n).1

/-- exchange of one kind of points between the two snapshots: newer wins, missing ones are copied -/
def syncPts (loc up : List Point) : List Point × List Point :=   -- (to send up, to send down)
  let toUp := loc.filter (fun p =>
    match up.find? (fun q => q.type == p.type && q.key == p.key) with
    | some q => q.time < p.time
    | none => true)
  let toDownMatched := loc.filterMap (fun p =>
    match up.find? (fun q => q.type == p.type && q.key == p.key) with
    | some q => if p.time < q.time then some q else none
    | none => none)
  let toDownNew := up.filter (fun q => !(loc.any (fun p => q.type == p.type && q.key == p.key)))
  (toUp, toDownMatched ++ toDownNew)

structure Pair where
  a : St      -- downstream (local)
  b : St      -- upstream (remote)
  clk : Int   -- number of wall-clock readings so far (SendNode, the undelete branch)
deriving Repr

def xorCrc (ps : List Point) : Nat := ps.foldl (fun h p => h ^^^ pcrc p) 0

def toRemote (wall : Int → Int) (s : Pair) (n : NE) : Pair :=
  let r := sendNodes wall s.a (2 ^ s.a.edges.length + 1) (s.b, s.clk) n
  { s with b := r.1, clk := r.2 }

def toLocal (wall : Int → Int) (s : Pair) (n : NE) : Pair :=
  let r := sendNodes wall s.a (2 ^ s.a.edges.length + 1) (s.a, s.clk) n
  { s with a := r.1, clk := r.2 }

/-- the hash syncNode compares: for the local root device the edge points are backed out -/
def cmpHash (isRoot : Bool) (n : NE) : Nat := if isRoot then n.hash ^^^ xorCrc n.epts else n.hash

/-- "deleted upstream": every upstream instance is tombstoned — acted upon for the local root device only -/
def deletedUpstream (s : Pair) (nodeLocal : NE) (nodeUps : List NE) : Bool :=
  nodeUps.all (fun n => isTomb n.epts) && nodeLocal.id == s.a.root

/-- exchange of node points and (not for the local root) edge points between the two snapshots -/
def syncExchange (s : Pair) (nodeLocal nodeUp : NE) : Pair :=
  let isRoot := nodeLocal.id == s.a.root
  let pp := syncPts nodeLocal.pts nodeUp.pts
  let b1 := pp.1.foldl (fun b p => tryNP b nodeUp.id [p]) s.b
  let a1 := pp.2.foldl (fun a p => tryNP a nodeLocal.id [p]) s.a
  let ee := if isRoot then ([], []) else syncPts nodeLocal.epts nodeUp.epts
  let b2 := ee.1.foldl (fun b p => tryEP b nodeUp.id nodeUp.parent [p]) b1
  let a2 := ee.2.foldl (fun a p => tryEP a nodeLocal.id nodeLocal.parent [p]) a1
  { s with a := a2, b := b2 }

/-- the children of the two nodes (deleted ones included): recurse where both have the child and the hashes
    differ, send what only one side has -/
def syncChildren (wall : Int → Int) (rec : Pair → Bytes → Bytes → Pair) (s : Pair) (nodeLocal nodeUp : NE) : Pair :=
  let children := getNodes s.a nodeLocal.id allS true
  let upChildren := getNodes s.b nodeUp.id allS true
  let s1 : Pair := children.foldl (fun (s : Pair) child =>
    match upChildren.find? (fun u => u.id == child.id) with
    | some upChild => if child.hash ≠ upChild.hash then rec s nodeLocal.id child.id else s
    | none => toRemote wall s child) s
  upChildren.foldl (fun (s : Pair) upChild =>
    if children.any (fun c => c.id == upChild.id) then s else toLocal wall s upChild) s1

/-- SyncClient.syncNode(parent, id) -/
def syncNode (wall : Int → Int) : Nat → Pair → Bytes → Bytes → Pair
  | 0, s, _, _ => s
  | fuel + 1, s, parent, id =>
    let parent' := if parent = rootS then allS else parent
    match getNodes s.a parent' id true with
    | [] => s
    | nodeLocal :: _ =>
      match getNodes s.b parent' id true with
      | [] =>
        -- not upstream yet: send it with everything below it
        toRemote wall s (if nodeLocal.parent = rootS then { nodeLocal with parent := s.b.root } else nodeLocal)
      | nodeUp :: rest =>
        if deletedUpstream s nodeLocal (nodeUp :: rest) then
          -- this device was deleted upstream: undelete it there, and return
          { s with b := tryEP s.b nodeUp.id nodeUp.parent [{ type := tombstoneT, value := 0, time := wall s.clk }], clk := s.clk + 1 }
        else if cmpHash (nodeLocal.id == s.a.root) nodeLocal = cmpHash (nodeLocal.id == s.a.root) nodeUp then s
        else syncChildren wall (syncNode wall fuel) (syncExchange s nodeLocal nodeUp) nodeLocal nodeUp

end Siot.Sync
