import Siot.Model.Rebroadcast
/-
Model of the per-client subscription callback of client/manager.go (scan): what a running client is
told about, given what the store republishes (Model/Rebroadcast.lean).
-/
namespace Siot.Feed
open Siot Siot.Store

/-- one callback invocation on the client -/
inductive Told where
  | points (node : Bytes) (pts : List Point)
  | edgePoints (node parent : Bytes) (pts : List Point)
  | restart                                            -- the callback stopped the client (C07)
deriving DecidableEq, Repr

/-- the echo filter on `up.<client>.<node>`: the whole batch is dropped as soon as one point was
    authored by the client itself (empty origin on its own node, or its id as origin) -/
def echo (cid node : Bytes) (pts : List Point) : Bool :=
  pts.any (fun p => (p.origin == [] && node == cid) || p.origin == cid)

def one : Nat := 4607182418800017408   -- float64 1.0

/-- edge points that make the callback stop the client: tombstone 1, tombstone 0, node type -/
def restarts (p : Point) : Bool :=
  (p.type == tombstoneT && (p.value == one || p.value == 0 || p.value == negZero)) || p.type == nodeTypeT

def onNode (cid node : Bytes) (pts : List Point) : List Told :=
  if echo cid node pts then [] else [.points node pts]

def onEdge (node parent : Bytes) (pts : List Point) : List Told :=
  if pts.any restarts then [.restart] else [.edgePoints node parent pts]

/-- an accepted write, as the store republishes it -/
inductive Write where
  | np (node : Bytes) (pts : List Point)
  | ep (node parent : Bytes) (pts : List Point)
deriving DecidableEq, Repr

/-- what the client at node `cid` is told about one accepted write, given the store state AFTER it:
    one callback per path from the written node up to `cid` -/
def told (isEven : Nat → Bool) (st : St) (cid : Bytes) : Write → List Told
  | .np n pts => ((pubsNode isEven st n).filter (· == cid)).flatMap (fun _ => onNode cid n pts)
  | .ep n par pts => ((pubsEdge st n).filter (· == cid)).flatMap (fun _ => onEdge n par pts)

/-- a history: each accepted write with the store state after it -/
def feed (isEven : Nat → Bool) (cid : Bytes) (h : List (St × Write)) : List Told :=
  h.flatMap (fun x => told isEven x.1 cid x.2)

/-! ### folding what one is told (points level) -/

/-- the client's view of one node: last delivered point per identity (type, key with "" read as "0") -/
def putN (view : List Point) (q : Point) : List Point :=
  match view.find? (sameId q) with
  | some _ => view.map (fun r => if sameId q r then q else r)
  | none => view ++ [q]

def put (view : List Point) (p : Point) : List Point := putN view (normPoint p)

def foldView (view : List Point) (pts : List Point) : List Point := pts.foldl put view

def lookup (rows : List Point) (t k : Bytes) : Option Point := rows.find? (fun r => r.type == t && r.key == k)

end Siot.Feed
