import Siot.Model.Auth
/-
Model of client/manager.go: which nodes a Manager[T] wants a client for (scanHelper), and the
bookkeeping of running clients (scan, stop/exit hand-shake, shutdown) as a labelled transition system.
-/
namespace Siot.Manager
open Siot Siot.Store

abbrev Key := Bytes × Bytes          -- (parent, id): one client per placement

def groupT : Bytes := [103, 114, 111, 117, 112]   -- "group"

/-- scanHelper: placements of nodes of type `typ` directly under `id`, and recursively under every
    non-deleted child of `id` whose type is a parent type. `lv` = non-deleted edges. -/
def scanH (lv : List Edge) (typ : Bytes) (ptypes : List Bytes) : Nat → Bytes → List Key
  | 0, _ => []
  | fuel + 1, id =>
    ((lv.filter (fun e => e.up == id && e.typ == typ)).map (fun e => (e.up, e.down))) ++
    (lv.filter (fun e => e.up == id && ptypes.contains e.typ)).flatMap (fun p => scanH lv typ ptypes fuel p.down)

/-- the placements a manager for `typ` wants clients for; `parents` are the configured parent types
    (NewManager appends "group") -/
def wanted (isDel : Nat → Bool) (st : St) (typ : Bytes) (parents : List Bytes) : List Key :=
  scanH (Auth.live isDel st) typ (parents ++ [groupT]) (2 ^ st.edges.length + 1) st.root

/-- the children a client is constructed with (newClientState: GetNodes(id, "all")) -/
def childrenOf (isDel : Nat → Bool) (st : St) (id : Bytes) : List Bytes :=
  ((Auth.live isDel st).filter (fun e => e.up == id)).map (·.down)

/-! ### bookkeeping of running clients -/

structure Client where
  key : Key
  children : List Bytes      -- the children it was constructed with
  stopping : Bool            -- stop() has been called; its Run has not returned yet
deriving DecidableEq, Repr

structure Mgr where
  clients : List Client := []
  stopping : Bool := false   -- Stop() has been called
  done : Bool := false       -- Run has returned
deriving DecidableEq, Repr

/-- what the store currently calls for: placements with the children each would be constructed with -/
abbrev Want := List (Key × List Bytes)

def hasKey (cs : List Client) (k : Key) : Bool := cs.any (fun c => c.key == k)

/-- start clients for wanted placements that have none (first occurrence of a key only) -/
def startNew : Want → List Client → List Client
  | [], cs => cs
  | (k, ch) :: w, cs => if hasKey cs k then startNew w cs else startNew w (cs ++ [⟨k, ch, false⟩])

/-- the wanted placements whose client can be constructed; `bad` = the placements for which newClientState fails
    (children not readable, or the node's points do not decode into the client's configuration) -/
def startable (bad : List Key) (w : Want) : Want := w.filter (fun x => !bad.contains x.1)

/-- Manager.scan (after the repairs: no early return on an empty result; a placement whose client cannot be
    constructed is skipped — it is tried again at the next scan — instead of being started on a nil state) -/
def scan (bad : List Key) (w : Want) (m : Mgr) : Mgr :=
  if m.stopping then m
  else
    let marked := m.clients.map (fun c => if w.any (fun x => x.1 == c.key) then c else { c with stopping := true })
    { m with clients := startNew (startable bad w) marked }

inductive Event where
  | scan (w : Want) (bad : List Key)             -- minute tick, or a node-type point seen on up.root.>
  | trigger (k : Key)                            -- the client's subscription saw a life-cycle edge point: cs.stop
  | exited (k : Key) (w : Want) (bad : List Key) -- the stopped client's Run returned: chDeleteCS, then rescan
  | stop                                         -- Manager.Stop
deriving Repr

def step (m : Mgr) : Event → Mgr
  | .scan w bad => if m.done then m else scan bad w m
  | .trigger k => { m with clients := m.clients.map (fun c => if c.key == k then { c with stopping := true } else c) }
  | .exited k w bad =>
    -- only a client that has been told to stop ever leaves (clientState.run waits for chStop)
    if m.clients.any (fun c => c.key == k && c.stopping) then
      let m' := { m with clients := m.clients.filter (fun c => !(c.key == k)) }
      if m.stopping then { m' with done := m'.clients.isEmpty || m.done } else scan bad w m'
    else m
  | .stop =>
    { m with stopping := true, clients := m.clients.map (fun c => { c with stopping := true }),
             done := m.clients.isEmpty || m.done }

def run (m : Mgr) (es : List Event) : Mgr := es.foldl step m

end Siot.Manager
