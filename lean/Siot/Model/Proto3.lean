import Siot.Basic
/-
Byte-level proto3 wire format as implemented by google.golang.org/protobuf v1.27.1 for the messages
of internal/pb (point.proto, node.proto): varints, tags, the four wire types in use, skipping of
unknown fields including (deprecated) groups, and the canonical encoder (fields in number order,
zero values omitted).
-/
namespace Siot.Proto3
open Siot

/-! ## varints -/

/-- `protowire.ConsumeVarint`: at most 10 bytes, the 10th below 2; none = truncated or overflow -/
def varintAux : Nat → Nat → Nat → Bytes → Option (Nat × Bytes)
  | 0, _, _, _ => none                                   -- more than 10 bytes
  | _ + 1, _, _, [] => none                              -- truncated
  | k + 1, shift, acc, b :: rest =>
    if b.toNat < 128 then
      if k = 0 ∧ b.toNat ≥ 2 then none                   -- overflow in the 10th byte
      else some (acc + b.toNat * 2 ^ shift, rest)
    else
      if k = 0 then none                                 -- 10th byte with continuation bit
      else varintAux k (shift + 7) (acc + (b.toNat - 128) * 2 ^ shift) rest

def decodeVarint (b : Bytes) : Option (Nat × Bytes) := varintAux 10 0 0 b

/-- `protowire.AppendVarint` for `v < 2^64` -/
def encodeVarint (v : Nat) : Bytes :=
  if h : v < 128 then [UInt8.ofNat v]
  else UInt8.ofNat (v % 128 + 128) :: encodeVarint (v / 128)
termination_by v
decreasing_by omega

def takeN (n : Nat) (b : Bytes) : Option (Bytes × Bytes) :=
  if b.length < n then none else some (b.take n, b.drop n)

def leNat : Bytes → Nat
  | [] => 0
  | b :: rest => b.toNat + 256 * leNat rest

def leBytes : Nat → Nat → Bytes
  | 0, _ => []
  | n + 1, v => UInt8.ofNat (v % 256) :: leBytes n (v / 256)

/-! ## field values -/
inductive WVal where
  | varint (v : Nat)
  | fixed64 (v : Nat)
  | len (b : Bytes)
  | fixed32 (v : Nat)
  | group                    -- a (skipped) group; its content is not kept
  deriving Repr, DecidableEq

abbrev Field := Nat × WVal

/-- `protowire.ConsumeFieldValue` for everything but groups -/
def consumeScalar (wt : Nat) (b : Bytes) : Option (WVal × Bytes) :=
  match wt with
  | 0 => (decodeVarint b).map (fun (v, r) => (.varint v, r))
  | 1 => (takeN 8 b).map (fun (x, r) => (.fixed64 (leNat x), r))
  | 2 => match decodeVarint b with
    | some (n, r) => (takeN n r).map (fun (x, r') => (.len x, r'))
    | none => none
  | 5 => (takeN 4 b).map (fun (x, r) => (.fixed32 (leNat x), r))
  | _ => none

/-- skipping a group started with field number `num` (`ConsumeFieldValue` on StartGroupType):
    inner tags need a field number in 1 … MaxInt32; ends at the matching EndGroup -/
def skipGroup : Nat → Nat → Bytes → Option Bytes
  | 0, _, _ => none
  | fuel + 1, num, b =>
    match decodeVarint b with
    | none => none
    | some (tag, r) =>
      let num2 := tag / 8
      let wt := tag % 8
      if num2 < 1 ∨ num2 > 2147483647 then none
      else if wt = 4 then (if num2 = num then some r else none)
      else if wt = 3 then
        match skipGroup fuel num2 r with
        | some r' => skipGroup fuel num r'
        | none => none
      else match consumeScalar wt r with
        | some (_, r') => skipGroup fuel num r'
        | none => none

/-- the top-level field loop of `unmarshalPointer`: field numbers 1 … 2^29-1, EndGroup is an error -/
def parseFields : Nat → Bytes → Option (List Field)
  | _, [] => some []
  | 0, _ :: _ => none
  | fuel + 1, b =>
    match decodeVarint b with
    | none => none
    | some (tag, r) =>
      let num := tag / 8
      let wt := tag % 8
      if num < 1 ∨ num > 536870911 then none
      else if wt = 4 then none
      else if wt = 3 then
        match skipGroup (r.length + 1) num r with
        | some r' => (parseFields fuel r').map (fun fs => (num, .group) :: fs)
        | none => none
      else match consumeScalar wt r with
        | some (v, r') => (parseFields fuel r').map (fun fs => (num, v) :: fs)
        | none => none

def parse (b : Bytes) : Option (List Field) := parseFields (b.length + 1) b

/-! ## canonical encoder pieces -/
def tag (num wt : Nat) : Bytes := encodeVarint (num * 8 + wt)

def encLen (num : Nat) (b : Bytes) : Bytes := tag num 2 ++ encodeVarint b.length ++ b
/-- strings / bytes: omitted when empty (proto3) -/
def encLenNZ (num : Nat) (b : Bytes) : Bytes := if b.isEmpty then [] else encLen num b
/-- two's complement of a signed 64-bit integer as a varint value -/
def ofInt64 (i : Int) : Nat := (i % 18446744073709551616).toNat
def toInt64 (n : Nat) : Int :=
  let m := n % 18446744073709551616
  if m ≥ 9223372036854775808 then (m : Int) - 18446744073709551616 else m
def toInt32 (n : Nat) : Int :=
  let m := n % 4294967296
  if m ≥ 2147483648 then (m : Int) - 4294967296 else m
/-- int32 / int64 fields: omitted when zero; negative values are sign-extended to 64 bits -/
def encIntNZ (num : Nat) (i : Int) : Bytes := if i = 0 then [] else tag num 0 ++ encodeVarint (ofInt64 i)
/-- double: omitted only for +0.0 (bit pattern 0) -/
def encFixed64NZ (num : Nat) (bits : Nat) : Bytes := if bits = 0 then [] else tag num 1 ++ leBytes 8 bits
def encFixed32NZ (num : Nat) (bits : Nat) : Bytes := if bits = 0 then [] else tag num 5 ++ leBytes 4 bits

/-! ## UTF-8 validity (`utf8.Valid`) -/
def utf8Valid : Bytes → Bool
  | [] => true
  | b0 :: rest =>
    let c := b0.toNat
    if c < 0x80 then utf8Valid rest
    else if 0xC2 ≤ c ∧ c ≤ 0xDF then
      match rest with
      | b1 :: r => (0x80 ≤ b1.toNat && b1.toNat ≤ 0xBF) && utf8Valid r
      | _ => false
    else if 0xE0 ≤ c ∧ c ≤ 0xEF then
      match rest with
      | b1 :: b2 :: r =>
        let lo := if c = 0xE0 then 0xA0 else 0x80
        let hi := if c = 0xED then 0x9F else 0xBF
        (lo ≤ b1.toNat && b1.toNat ≤ hi) && (0x80 ≤ b2.toNat && b2.toNat ≤ 0xBF) && utf8Valid r
      | _ => false
    else if 0xF0 ≤ c ∧ c ≤ 0xF4 then
      match rest with
      | b1 :: b2 :: b3 :: r =>
        let lo := if c = 0xF0 then 0x90 else 0x80
        let hi := if c = 0xF4 then 0x8F else 0xBF
        (lo ≤ b1.toNat && b1.toNat ≤ hi) && (0x80 ≤ b2.toNat && b2.toNat ≤ 0xBF) &&
          (0x80 ≤ b3.toNat && b3.toNat ≤ 0xBF) && utf8Valid r
      | _ => false
    else false

end Siot.Proto3
