import Siot.Model.Proto3
import Siot.Model.Serial
/-
Model of the wire codecs of data/point.go and data/node.go on top of the proto3 layer:
pb.* message values (with `Option` for message-typed fields that can be nil), their decoding from
field lists, the canonical encoders, and the conversions ToPb / PbToPoint / ToPbNode / PbToNode,
ToSerial / SerialToPoint, PbDecode*, DecodeSerialHrPayload and the subject parsers of client/msg.go.
-/
namespace Siot.Pb
open Siot Siot.Proto3

/-- `data.Point` with the time as (seconds, nanoseconds) since the epoch, float64 as bits -/
structure Point where
  type : Bytes := []
  key : Bytes := []
  value : Nat := 0          -- float64 bit pattern
  text : Bytes := []
  sec : Int := 0
  nsec : Int := 0           -- 0 ≤ nsec < 1e9
  tomb : Int := 0
  origin : Bytes := []
  data : Bytes := []
  deriving Repr, DecidableEq

structure PbTimestamp where
  seconds : Int := 0
  nanos : Int := 0
  deriving Repr, DecidableEq

structure PbPoint where
  type : Bytes := []
  value : Nat := 0
  time : Option PbTimestamp := none
  text : Bytes := []
  key : Bytes := []
  tombstone : Int := 0       -- int32
  data : Bytes := []
  origin : Bytes := []
  deriving Repr, DecidableEq

structure PbSerialPoint where
  type : Bytes := []
  value : Nat := 0           -- float32 bit pattern
  time : Int := 0            -- int64 ns
  text : Bytes := []
  key : Bytes := []
  tombstone : Int := 0
  data : Bytes := []
  origin : Bytes := []
  deriving Repr, DecidableEq

structure PbNode where
  id : Bytes := []
  type : Bytes := []
  hash : Int := 0            -- int32
  parent : Bytes := []
  points : List PbPoint := []
  edgePoints : List PbPoint := []
  deriving Repr, DecidableEq

structure Node where
  id : Bytes := []
  type : Bytes := []
  hash : Nat := 0            -- uint32
  parent : Bytes := []
  points : List Point := []
  edgePoints : List Point := []
  deriving Repr, DecidableEq

/-! ## decoding field lists (protobuf-go `Unmarshal` semantics: last scalar wins, unknown fields and
known fields with another wire type are skipped, sub-messages merge, repeated fields append,
strings must be valid UTF-8) -/

def str (b : Bytes) : Option Bytes := if utf8Valid b then some b else none

def decTimestamp (t : PbTimestamp) : List Field → Option PbTimestamp
  | [] => some t
  | (1, .varint v) :: fs => decTimestamp { t with seconds := toInt64 v } fs
  | (2, .varint v) :: fs => decTimestamp { t with nanos := toInt32 v } fs
  | _ :: fs => decTimestamp t fs

def decPoint (p : PbPoint) : List Field → Option PbPoint
  | [] => some p
  | (2, .len b) :: fs => (str b).bind (fun s => decPoint { p with type := s } fs)
  | (4, .fixed64 v) :: fs => decPoint { p with value := v } fs
  | (5, .len b) :: fs =>
    match parse b with
    | none => none
    | some tfs => match decTimestamp (p.time.getD {}) tfs with
      | none => none
      | some t => decPoint { p with time := some t } fs
  | (8, .len b) :: fs => (str b).bind (fun s => decPoint { p with text := s } fs)
  | (11, .len b) :: fs => (str b).bind (fun s => decPoint { p with key := s } fs)
  | (12, .varint v) :: fs => decPoint { p with tombstone := toInt32 v } fs
  | (14, .len b) :: fs => decPoint { p with data := b } fs
  | (15, .len b) :: fs => (str b).bind (fun s => decPoint { p with origin := s } fs)
  | _ :: fs => decPoint p fs

def decSerialPoint (p : PbSerialPoint) : List Field → Option PbSerialPoint
  | [] => some p
  | (2, .len b) :: fs => (str b).bind (fun s => decSerialPoint { p with type := s } fs)
  | (4, .fixed32 v) :: fs => decSerialPoint { p with value := v } fs
  | (16, .varint v) :: fs => decSerialPoint { p with time := toInt64 v } fs
  | (8, .len b) :: fs => (str b).bind (fun s => decSerialPoint { p with text := s } fs)
  | (11, .len b) :: fs => (str b).bind (fun s => decSerialPoint { p with key := s } fs)
  | (12, .varint v) :: fs => decSerialPoint { p with tombstone := toInt32 v } fs
  | (14, .len b) :: fs => decSerialPoint { p with data := b } fs
  | (15, .len b) :: fs => (str b).bind (fun s => decSerialPoint { p with origin := s } fs)
  | _ :: fs => decSerialPoint p fs

def pointOfBytes (b : Bytes) : Option PbPoint := (parse b).bind (decPoint {})

/-- repeated Point field `num` -/
def decPointsField (num : Nat) (acc : List PbPoint) : List Field → Option (List PbPoint)
  | [] => some acc
  | (n, .len b) :: fs =>
    if n = num then (pointOfBytes b).bind (fun p => decPointsField num (acc ++ [p]) fs)
    else decPointsField num acc fs
  | _ :: fs => decPointsField num acc fs

def decNode (n : PbNode) : List Field → Option PbNode
  | [] => some n
  | (1, .len b) :: fs => (str b).bind (fun s => decNode { n with id := s } fs)
  | (2, .len b) :: fs => (str b).bind (fun s => decNode { n with type := s } fs)
  | (3, .len b) :: fs => (pointOfBytes b).bind (fun p => decNode { n with points := n.points ++ [p] } fs)
  | (4, .varint v) :: fs => decNode { n with hash := toInt32 v } fs
  | (6, .len b) :: fs => (str b).bind (fun s => decNode { n with parent := s } fs)
  | (7, .len b) :: fs => (pointOfBytes b).bind (fun p => decNode { n with edgePoints := n.edgePoints ++ [p] } fs)
  | _ :: fs => decNode n fs

def nodeOfBytes (n : PbNode) (b : Bytes) : Option PbNode := (parse b).bind (decNode n)

/-- `NodeRequest`: node (merged when repeated), error -/
def decNodeRequest (node : Option PbNode) (err : Bytes) : List Field → Option (Option PbNode × Bytes)
  | [] => some (node, err)
  | (1, .len b) :: fs => (nodeOfBytes (node.getD {}) b).bind (fun n => decNodeRequest (some n) err fs)
  | (2, .len b) :: fs => (str b).bind (fun s => decNodeRequest node s fs)
  | _ :: fs => decNodeRequest node err fs

/-- `Nodes` / `NodesRequest`: repeated nodes, error -/
def decNodesRequest (nodes : List PbNode) (err : Bytes) (withErr : Bool) : List Field → Option (List PbNode × Bytes)
  | [] => some (nodes, err)
  | (1, .len b) :: fs => (nodeOfBytes {} b).bind (fun n => decNodesRequest (nodes ++ [n]) err withErr fs)
  | (2, .len b) :: fs =>
    if withErr then (str b).bind (fun s => decNodesRequest nodes s withErr fs)
    else decNodesRequest nodes err withErr fs
  | _ :: fs => decNodesRequest nodes err withErr fs

def decSerialPoints (acc : List PbSerialPoint) : List Field → Option (List PbSerialPoint)
  | [] => some acc
  | (1, .len b) :: fs =>
    ((parse b).bind (decSerialPoint {})).bind (fun p => decSerialPoints (acc ++ [p]) fs)
  | _ :: fs => decSerialPoints acc fs

/-! ## canonical encoders (`proto.Marshal`) -/
def encTimestamp (t : PbTimestamp) : Bytes := encIntNZ 1 t.seconds ++ encIntNZ 2 t.nanos

def encPoint (p : PbPoint) : Bytes :=
  encLenNZ 2 p.type ++ encFixed64NZ 4 p.value ++
  (match p.time with | some t => encLen 5 (encTimestamp t) | none => []) ++
  encLenNZ 8 p.text ++ encLenNZ 11 p.key ++ encIntNZ 12 p.tombstone ++ encLenNZ 14 p.data ++ encLenNZ 15 p.origin

def encSerialPoint (p : PbSerialPoint) : Bytes :=
  encLenNZ 2 p.type ++ encFixed32NZ 4 p.value ++ encLenNZ 8 p.text ++ encLenNZ 11 p.key ++
  encIntNZ 12 p.tombstone ++ encLenNZ 14 p.data ++ encLenNZ 15 p.origin ++ encIntNZ 16 p.time

def encPoints (ps : List PbPoint) : Bytes := ps.flatMap (fun p => encLen 1 (encPoint p))
def encSerialPoints (ps : List PbSerialPoint) : Bytes := ps.flatMap (fun p => encLen 1 (encSerialPoint p))

def encNode (n : PbNode) : Bytes :=
  encLenNZ 1 n.id ++ encLenNZ 2 n.type ++ n.points.flatMap (fun p => encLen 3 (encPoint p)) ++
  encIntNZ 4 n.hash ++ encLenNZ 6 n.parent ++ n.edgePoints.flatMap (fun p => encLen 7 (encPoint p))

def encNodes (ns : List PbNode) : Bytes := ns.flatMap (fun n => encLen 1 (encNode n))

/-! ## conversions -/
def minValidSeconds : Int := -62135596800
def maxValidSeconds : Int := 253402300800

/-- `validateTimestamp` -/
def validTs (t : PbTimestamp) : Bool :=
  decide (minValidSeconds ≤ t.seconds) && decide (t.seconds < maxValidSeconds) &&
  decide (0 ≤ t.nanos) && decide (t.nanos < 1000000000)

/-- `Point.ToPb`: error for times outside [0001-01-01, 10000-01-01); tombstone narrowed to int32 -/
def toPb (p : Point) : Res PbPoint :=
  let ts : PbTimestamp := ⟨p.sec, p.nsec⟩
  if validTs ts then
    .ok { type := p.type, key := p.key, value := p.value, text := p.text, time := some ts,
          tombstone := toInt32 (ofInt64 p.tomb), data := p.data, origin := p.origin }
  else .err "timestamp"

/-- `PbToPoint`: nil or invalid timestamp is an error -/
def pbToPoint (q : PbPoint) : Res Point :=
  match q.time with
  | none => .err "timestamp"
  | some ts =>
    if validTs ts then
      .ok { type := q.type, key := q.key, value := q.value, text := q.text, sec := ts.seconds, nsec := ts.nanos,
            tomb := q.tombstone, data := q.data, origin := q.origin }
    else .err "timestamp"

def mapRes {α β : Type} (f : α → Res β) : List α → Res (List β)
  | [] => .ok []
  | a :: as => match f a with
    | .ok b => (match mapRes f as with | .ok bs => .ok (b :: bs) | .err e => .err e | .panic m => .panic m)
    | .err e => .err e
    | .panic m => .panic m

def toPbNode (n : Node) : Res PbNode :=
  match mapRes toPb n.points, mapRes toPb n.edgePoints with
  | .ok ps, .ok es => .ok { id := n.id, type := n.type, hash := toInt32 n.hash, parent := n.parent, points := ps, edgePoints := es }
  | .err e, _ => .err e
  | _, .err e => .err e
  | .panic m, _ => .panic m
  | _, .panic m => .panic m

/-- `PbToNode` on a possibly nil `*pb.Node` -/
def pbToNode (q : Option PbNode) : Res Node :=
  match q with
  | none => .err "no node"      -- a request without a node is an error (was: nil dereference)
  | some q =>
    match mapRes pbToPoint q.points, mapRes pbToPoint q.edgePoints with
    | .ok ps, .ok es => .ok { id := q.id, type := q.type, hash := (q.hash % 4294967296).toNat, parent := q.parent, points := ps, edgePoints := es }
    | .err e, _ => .err e
    | _, .err e => .err e
    | .panic m, _ => .panic m
    | _, .panic m => .panic m

/-! ## the public decoders -/
def pbDecodePoints (b : Bytes) : Res (List Point) :=
  match (parse b).bind (decPointsField 1 []) with
  | none => .err "decode"
  | some ps => mapRes pbToPoint ps

def pbDecodeNode (b : Bytes) : Res Node :=
  match nodeOfBytes {} b with
  | none => .err "decode"
  | some n => pbToNode (some n)

def pbDecodeNodeRequest (b : Bytes) : Res Node :=
  match (parse b).bind (decNodeRequest none []) with
  | none => .err "decode"
  | some (node, err) => if err ≠ [] then .err "reply" else pbToNode node

def pbDecodeNodes (withErr : Bool) (b : Bytes) : Res (List Node) :=
  match (parse b).bind (decNodesRequest [] [] withErr) with
  | none => .err "decode"
  | some (nodes, err) => if withErr ∧ err ≠ [] then .err "reply" else mapRes (fun n => pbToNode (some n)) nodes

/-! ## serial points -/
/-- `SerialToPoint`; `widen` is `float64(float32)` on bit patterns (a parameter: IEEE conversion) -/
def serialToPoint (widen : Nat → Nat) (q : PbSerialPoint) : Point :=
  { type := q.type, key := q.key, value := widen q.value, text := q.text,
    sec := q.time / 1000000000, nsec := q.time % 1000000000, tomb := q.tombstone, data := q.data, origin := q.origin }

def pbDecodeSerialPoints (widen : Nat → Nat) (b : Bytes) : Res (List Point) :=
  match (parse b).bind (decSerialPoints []) with
  | none => .err "decode"
  | some ps => .ok (ps.map (serialToPoint widen))

/-! ## high-rate payload (`DecodeSerialHrPayload`) with checked slicing -/
def slice (b : Bytes) (lo hi : Nat) : Res Bytes :=
  if lo ≤ hi ∧ hi ≤ b.length then .ok ((b.take hi).drop lo) else .panic "slice bounds out of range"

def hrSamples (widen : Nat → Nat) (payload typ key : Bytes) (startNs sampNs : Int) : Nat → Nat → Res (List Point)
  | _, 0 => .ok []
  | i, n + 1 =>
    match slice payload (44 + i * 4) (44 + 4 + i * 4) with
    | .ok w =>
      let t := toInt64 (ofInt64 (startNs + (i : Int) * sampNs))     -- int64 arithmetic wraps
      match hrSamples widen payload typ key startNs sampNs (i + 1) n with
      | .ok rest => .ok ({ type := typ, key := key, value := widen (leNat w), sec := t / 1000000000, nsec := t % 1000000000 } :: rest)
      | e => e
    | .err e => .err e
    | .panic m => .panic m

def decodeHr (widen : Nat → Nat) (now : Int) (payload : Bytes) : Res (List Point) :=
  if payload.length < 16 + 16 + 8 + 4 + 4 then .err "short"
  else
    match slice payload 0 16, slice payload 16 32, slice payload 32 40, slice payload 40 44 with
    | .ok t, .ok k, .ok s, .ok p =>
      let startNs := toInt64 (leNat s)
      let startNs := if startNs = 0 then now else startNs
      hrSamples widen payload (Serial.trimNul t) (Serial.trimNul k) startNs (leNat p : Nat) 0 ((payload.length - 44) / 4)
    | _, _, _, _ => .panic "slice bounds out of range"

/-! ## subject parsers (client/msg.go) -/
def splitDot : Bytes → Bytes × List Bytes
  | [] => ([], [])
  | b :: rest =>
    let (c, cs) := splitDot rest
    if b = 46 then ([], c :: cs) else (b :: c, cs)

def chunks (s : Bytes) : List Bytes := let (c, cs) := splitDot s; c :: cs

/-- checked `chunks[i]` -/
def idx (cs : List Bytes) (i : Nat) : Res Bytes :=
  match cs[i]? with
  | some c => .ok c
  | none => .panic "index out of range"

/-- the four subject parsers: minimum chunk count, then the chunks at fixed positions -/
def parseSubject (minChunks : Nat) (positions : List Nat) (subject : Bytes) : Res (List Bytes) :=
  let cs := chunks subject
  if cs.length < minChunks then .err "subject" else mapRes (idx cs) positions

end Siot.Pb
