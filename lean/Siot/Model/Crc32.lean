import Siot.Basic
/- CRC-32/IEEE (hash/crc32.NewIEEE) bitwise, and `data.Point.CRC`. -/
namespace Siot.Crc32
open Siot

def poly : Nat := 0xEDB88320

def bit (c : Nat) : Nat := if c % 2 = 1 then (c / 2) ^^^ poly else c / 2

def byte (c : Nat) (b : UInt8) : Nat :=
  let c := c ^^^ b.toNat
  bit (bit (bit (bit (bit (bit (bit (bit c)))))))

def crc32 (bs : Bytes) : Nat := (bs.foldl byte 0xFFFFFFFF) ^^^ 0xFFFFFFFF

def le64 (v : Nat) : Bytes :=
  [UInt8.ofNat (v % 256), UInt8.ofNat (v / 256 % 256), UInt8.ofNat (v / 65536 % 256), UInt8.ofNat (v / 16777216 % 256),
   UInt8.ofNat (v / 4294967296 % 256), UInt8.ofNat (v / 1099511627776 % 256), UInt8.ofNat (v / 281474976710656 % 256),
   UInt8.ofNat (v / 72057594037927936 % 256)]

end Siot.Crc32
