import Siot.Model.Modbus
/-
Model of the Modbus client cycle: request builders (modbus/pdu.go), RTU and TCP framing
(modbus/rtu.go, crc.go, tcp.go), response decoding (RespReadBitsCount, RespReadRegs), the client
methods of modbus/client.go composed with the server model, and the numeric conversions of data.go.
-/
namespace Siot.Modbus
open Siot

/-! ## CRC-16/IBM as computed by `RtuCrc` (bitwise, reflected 0xA001, init 0xFFFF, bytes swapped) -/
def rtuPoly : Nat := 0xA001

def rtuBit (crc : Nat) : Nat := if crc % 2 = 1 then (crc / 2) ^^^ rtuPoly else crc / 2

def rtuByte (crc : Nat) (b : UInt8) : Nat :=
  let c := crc ^^^ b.toNat
  rtuBit (rtuBit (rtuBit (rtuBit (rtuBit (rtuBit (rtuBit (rtuBit c)))))))

/-- `RtuCrc`: note the swapped bytes of the result -/
def rtuCrc (buf : Bytes) : Nat :=
  let crc := buf.foldl rtuByte 0xFFFF
  (crc / 256) ||| (crc * 256 % 65536)

/-! ## RTU framing -/
def rtuEncode (id : UInt8) (fc : Nat) (data : Bytes) : Bytes :=
  let body := id :: u8 fc :: data
  let crc := rtuCrc body
  body ++ [u8 (crc / 256 % 256), u8 (crc % 256)]

/-- `RTU.Decode`: id, function code, data -/
def rtuDecode (packet : Bytes) : Res (UInt8 × Nat × Bytes) :=
  if packet.length < 4 then .err "short"
  else
    let body := packet.take (packet.length - 2)
    match packet.drop (packet.length - 2), body with
    | [hi, lo], id :: fc :: data =>
      if rtuCrc body = hi.toNat * 256 + lo.toNat then .ok (id, fc.toNat, data) else .err "crc"
    | _, _ => .err "short"

/-! ## TCP framing (transaction id is the transport's state) -/
def tcpEncode (txID : Nat) (id : UInt8) (fc : Nat) (data : Bytes) : Bytes :=
  [u8 (txID / 256 % 256), u8 (txID % 256), 0, 0, u8 ((data.length + 2) / 256 % 256), u8 ((data.length + 2) % 256), id, u8 fc] ++ data

/-- `TCP.Decode` on the client side: the echoed transaction id must be the one last sent -/
def tcpDecodeClient (txID : Nat) (packet : Bytes) : Res (UInt8 × Nat × Bytes) :=
  match packet with
  | t1 :: t0 :: _ :: _ :: _ :: _ :: id :: fc :: d0 :: rest =>
    if t1.toNat * 256 + t0.toNat ≠ txID then .err "txid" else .ok (id, fc.toNat, d0 :: rest)
  | _ => .err "short"

/-- `TCP.Decode` on the server side: remembers the transaction id -/
def tcpDecodeServer (packet : Bytes) : Res (Nat × UInt8 × Nat × Bytes) :=
  match packet with
  | t1 :: t0 :: _ :: _ :: _ :: _ :: id :: fc :: d0 :: rest => .ok (t1.toNat * 256 + t0.toNat, id, fc.toNat, d0 :: rest)
  | _ => .err "short"

/-! ## request builders and response decoders -/
def put16 (v : Nat) : Bytes := [u8 (v / 256 % 256), u8 (v % 256)]

def reqRead (address count : Nat) : Bytes := put16 address ++ put16 count

/-- `PDU.RespReadBitsCount` -/
def respReadBitsCount (fc : Nat) (data : Bytes) (count : Nat) : Res (List Bool) :=
  match data with
  | [] => .err "short"
  | bc :: bytes =>
    if fc ≠ 1 ∧ fc ≠ 2 then .err "fc"
    else if bc.toNat ≠ (count + 7) / 8 ∨ data.length ≠ 1 + bc.toNat then .err "bytecount"
    else .ok ((List.range count).map (fun i => ((bytes.getD (i / 8) 0).toNat >>> (i % 8)) % 2 == 1))

def words : Bytes → List Nat
  | hi :: lo :: rest => (hi.toNat * 256 + lo.toNat) :: words rest
  | _ => []

/-- `PDU.RespReadRegs` -/
def respReadRegs (fc : Nat) (data : Bytes) : Res (List Nat) :=
  match data with
  | bc :: b0 :: rest =>
    if fc ≠ 3 ∧ fc ≠ 4 then .err "fc"
    else
      let count := bc.toNat / 2
      if data.length < 1 + count * 2 then .err "short"
      else .ok (words ((b0 :: rest).take (count * 2)))
  | _ => .err "short"

/-! ## the client cycle over a lossless transport -/
inductive Framing where
  | rtu
  | tcp
  deriving DecidableEq, Repr

/-- request → frame → server decode → ProcessRequest → frame → client decode.
    `maxLen` is the size of the read buffers on both sides; a longer frame is cut (the rest is lost). -/
def exchange (fr : Framing) (maxLen : Nat) (txID : Nat) (id : UInt8) (rs : Regs) (fc : Nat) (data : Bytes) :
    Res (Nat × Bytes) × Regs :=
  match fr with
  | .rtu =>
    match rtuDecode ((rtuEncode id fc data).take maxLen) with
    | .ok (_, fc', data') =>
      match processRequest rs fc' data' with
      | (.normal rfc rdata, rs') =>
        (match rtuDecode ((rtuEncode id rfc rdata).take maxLen) with
          | .ok (_, f, d) => .ok (f, d) | .err e => .err e | .panic m => .panic m, rs')
      | (.exception rfc code, rs') =>
        (match rtuDecode ((rtuEncode id rfc [u8 code]).take maxLen) with
          | .ok (_, f, d) => .ok (f, d) | .err e => .err e | .panic m => .panic m, rs')
      | (.tooShort, rs') => (.err "timeout", rs')
      | (.panic m, rs') => (.panic m, rs')
    | .err _ => (.err "timeout", rs)
    | .panic m => (.panic m, rs)
  | .tcp =>
    match tcpDecodeServer ((tcpEncode txID id fc data).take maxLen) with
    | .ok (tx, _, fc', data') =>
      match processRequest rs fc' data' with
      | (.normal rfc rdata, rs') =>
        (match tcpDecodeClient txID ((tcpEncode tx id rfc rdata).take maxLen) with
          | .ok (_, f, d) => .ok (f, d) | .err e => .err e | .panic m => .panic m, rs')
      | (.exception rfc code, rs') =>
        (match tcpDecodeClient txID ((tcpEncode tx id rfc [u8 code]).take maxLen) with
          | .ok (_, f, d) => .ok (f, d) | .err e => .err e | .panic m => .panic m, rs')
      | (.tooShort, rs') => (.err "timeout", rs')
      | (.panic m, rs') => (.panic m, rs')
    | .err _ => (.err "timeout", rs)
    | .panic m => (.panic m, rs)

def maxADULen : Nat := 260

/-- `Client.ReadCoils` / `ReadDiscreteInputs` (fc 1 / 2) -/
def clientReadBits (fr : Framing) (txID : Nat) (id : UInt8) (rs : Regs) (fc address count : Nat) : Res (List Bool) :=
  match (exchange fr maxADULen txID id rs fc (reqRead address count)).1 with
  | .ok (rfc, rdata) => respReadBitsCount rfc rdata count
  | .err e => .err e
  | .panic m => .panic m

/-- `Client.ReadHoldingRegs` / `ReadInputRegs` (fc 3 / 4) -/
def clientReadRegs (fr : Framing) (txID : Nat) (id : UInt8) (rs : Regs) (fc address count : Nat) : Res (List Nat) :=
  match (exchange fr maxADULen txID id rs fc (reqRead address count)).1 with
  | .ok (rfc, rdata) => if rfc ≠ fc then .err "fc" else respReadRegs rfc rdata
  | .err e => .err e
  | .panic m => .panic m

/-- `Client.WriteSingleReg` / `WriteSingleCoil` (fc 6 / 5): ok iff the request is echoed -/
def clientWriteSingle (fr : Framing) (txID : Nat) (id : UInt8) (rs : Regs) (fc address value : Nat) : Res Unit × Regs :=
  let req := reqRead address value
  match exchange fr maxADULen txID id rs fc req with
  | (.ok (rfc, rdata), rs') => (if rfc ≠ fc then .err "fc" else if rdata ≠ req then .err "echo" else .ok (), rs')
  | (.err e, rs') => (.err e, rs')
  | (.panic m, rs') => (.panic m, rs')

/-! ## numeric conversions (modbus/data.go), on bit patterns -/
def uint32ToRegs (v : Nat) : List Nat := [v / 65536 % 65536, v % 65536]
def uint32ToRegsSwap (v : Nat) : List Nat := [v % 65536, v / 65536 % 65536]
def regsToUint32 : List Nat → List Nat
  | hi :: lo :: rest => (hi * 65536 + lo) :: regsToUint32 rest
  | _ => []
def regsToUint32Swap : List Nat → List Nat
  | lo :: hi :: rest => (hi * 65536 + lo) :: regsToUint32Swap rest
  | _ => []
/-- two's complement reinterpretation (`int32(x)`, `int16(x)`) -/
def toSigned (bits : Nat) (n : Nat) : Int := if n ≥ 2 ^ (bits - 1) then (n : Int) - 2 ^ bits else n
def ofSigned (bits : Nat) (i : Int) : Nat := (i % 2 ^ bits).toNat

end Siot.Modbus
