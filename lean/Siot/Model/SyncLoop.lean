/-
Model of the select loop of client/sync.go `(*SyncClient).Run` and of `connect` / `disconnect`: the bookkeeping that
decides WHEN a catch-up pass runs and WHETHER local traffic is forwarded — the variables `connected`, the sync ticker,
`initialSub`, the remote connection and the reconnect timer. What a pass does is `Siot.Sync.syncNode`; what the NATS
library does (it calls the Connected / Disconnected / Reconnected callbacks of `connect`, which send on `chConnected`)
is the environment: events.  The shape of the loop is re-extracted on every run (`Siot/Gen/SyncLoop.lean`).
-/
namespace Siot.SyncLoop

structure St where
  disabled : Bool                      -- up.config.Disabled
  period : Nat                         -- up.config.Period, seconds
  connected : Bool := false            -- the loop variable `connected`
  ticker : Option Nat := none          -- syncTicker: none = stopped, some p = running with period p seconds
  initialSub : Bool := false           -- up.initialSub
  remote : Bool := false               -- up.ncRemote != nil
  connectTimer : Option Nat := some 10 -- connectTimer: pending one-shot, in milliseconds; none = not armed
deriving DecidableEq, Repr

inductive Ev where
  | connectTimer (ok : Bool)        -- the timer fired; ok = EdgeConnect succeeded (not consulted when disabled)
  | tick                            -- syncTicker fired
  | conn (b : Bool) (subOk : Bool)  -- a value on chConnected; subOk = subscribeRemoteNode succeeded (if attempted)
  | localNode                       -- a local node-point message seen on the no-echo connection
  | localEdge                       -- a local edge-point message
  | cfgRestart (disabled : Bool)    -- a uri / authToken / disabled point reached the client (config merged first)
  | cfgPeriod (p : Nat)             -- a period point
  | other                           -- other points, edge points of the sync node, chNewEdge: none of these variables
deriving DecidableEq, Repr

inductive Act where
  | pass         -- up.syncNode("root", up.rootLocal.ID)
  | fwdNode      -- SendNodePoints(up.ncRemote, ..)
  | fwdEdge      -- SendEdgePoints(up.ncRemote, ..)
  | subInitial   -- up.subscribeRemoteNode(rootLocal.Parent, rootLocal.ID)
  | dial         -- EdgeConnect to the upstream
deriving DecidableEq, Repr

/-- checkPeriod: a period below one second becomes 20 -/
def checkPeriod (p : Nat) : Nat := if p < 1 then 20 else p

/-- the state in which the loop is entered (checkPeriod has run, the ticker is stopped, the connect timer is armed) -/
def init (disabled : Bool) (period : Nat) : St := { disabled := disabled, period := checkPeriod period }

def step (s : St) : Ev → St × List Act
  | .connectTimer ok =>
    if s.disabled then ({ s with connectTimer := none }, [])                       -- connect(): "disabled", returns nil
    else if ok then ({ s with connectTimer := none, remote := true }, [.dial])
    else ({ s with connectTimer := some 30000, remote := false }, [.dial])         -- connectTimer.Reset(30 s)
  | .tick => (s, [.pass])
  | .conn true subOk =>
    let s1 := { s with connected := true, ticker := some s.period }                 -- syncTicker.Reset(Period)
    if s.initialSub then (s1, [.pass]) else ({ s1 with initialSub := subOk }, [.pass, .subInitial])
  | .conn false _ => ({ s with connected := false, ticker := none }, [])            -- syncTicker.Stop()
  | .localNode => (s, if s.connected then [.fwdNode] else [])
  | .localEdge => (s, if s.connected then [.fwdEdge] else [])
  | .cfgRestart d =>                                                                -- disconnect(); connectTimer.Reset(10 ms)
    ({ s with disabled := d, initialSub := false, remote := false, connectTimer := some 10 }, [])
  | .cfgPeriod p =>
    let p' := checkPeriod p
    ({ s with period := p', ticker := if s.connected then some p' else s.ticker }, [])
  | .other => (s, [])

/-- the loop over a sequence of events: final state and everything done, in order -/
def run (s : St) : List Ev → St × List Act
  | [] => (s, [])
  | e :: es =>
    let r := step s e
    let r' := run r.1 es
    (r'.1, r.2 ++ r'.2)

/-- the value of the last `conn` event, `false` when there is none -/
def lastConn : List Ev → Bool → Bool
  | [], b => b
  | .conn b _ :: es, _ => lastConn es b
  | _ :: es, b => lastConn es b

end Siot.SyncLoop
