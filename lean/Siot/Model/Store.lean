import Siot.Model.Crc32
/-
Model of store/sqlite.go: the node/edge graph with points, last-write-wins merging of point
batches (nodePoints, edgePoints), the incremental Merkle hash (updateHash), the pre-checks of
edgePoints, and the parent lookup `up`.
-/
namespace Siot.Store
open Siot

structure Point where
  type : Bytes := []
  key : Bytes := []
  time : Int := 0             -- ns since the epoch (UnixNano)
  value : Nat := 0            -- float64 bits
  text : Bytes := []
  data : Bytes := []
  tomb : Int := 0
  origin : Bytes := []
  deriving DecidableEq, Repr, Inhabited

def nodeTypeT : Bytes := [110, 111, 100, 101, 84, 121, 112, 101]           -- "nodeType"
def tombstoneT : Bytes := [116, 111, 109, 98, 115, 116, 111, 110, 101]     -- "tombstone"
def rootS : Bytes := [114, 111, 111, 116]                                  -- "root"
def noneS : Bytes := [110, 111, 110, 101]                                  -- "none"
def zeroKey : Bytes := [48]                                                -- "0"

/-- `Point.CRC`: over time, type, key, text and value; node type points hash to 0 -/
def pcrc (p : Point) : Nat :=
  if p.type = nodeTypeT then 0
  else Crc32.crc32 (Crc32.le64 ((p.time % 18446744073709551616).toNat) ++ p.type ++ p.key ++ p.text ++ Crc32.le64 p.value)

structure Edge where
  up : Bytes
  down : Bytes
  typ : Bytes
  hash : Nat
  deriving DecidableEq, Repr

structure St where
  nodePts : List (Bytes × Point) := []              -- rows of node_points: (node id, point)
  edges : List Edge := []
  edgePts : List ((Bytes × Bytes) × Point) := []    -- rows of edge_points: ((up, down), point)
  root : Bytes := []
  deriving DecidableEq, Repr

def xorAll (l : List Nat) : Nat := l.foldl (· ^^^ ·) 0

def isNaN (bits : Nat) : Bool := (bits / 4503599627370496) % 2048 = 2047 && bits % 4503599627370496 ≠ 0
/-- float `> 0` on bit patterns -/
def isPos (bits : Nat) : Bool := bits < 9223372036854775808 && bits ≠ 0 && !isNaN bits
/-- `math.Mod(v, 2) == 0` is only used on tombstone counts; modelled on the stored value bits by a parameter in C06 -/
def negZero : Nat := 9223372036854775808

def normKey (k : Bytes) : Bytes := if k.isEmpty then zeroKey else k

/-- what the store writes for an incoming point: empty key → "0", -0.0 → +0.0 -/
def normPoint (p : Point) : Point :=
  { p with key := normKey p.key, value := if p.value = negZero then 0 else p.value }

def sameId (a b : Point) : Bool := a.type == b.type && a.key == b.key

/-- `Points.Collapse` after normalisation: one point per identity, the newest (the later one on a tie) -/
def collapse : List Point → List Point
  | [] => []
  | p :: ps =>
    let rest := collapse ps
    match rest.find? (sameId p) with
    | some q => if q.time < p.time then p :: rest.filter (fun r => !sameId p r) else rest
    | none => p :: rest

/-- the merge loop of nodePoints / edgePoints on the rows of one owner: new rows and the hash delta -/
def mergeBatch (db : List Point) : List Point → List Point × Nat
  | [] => (db, 0)
  | p :: ps =>
    match db.find? (sameId p) with
    | some old =>
      if old.time ≤ p.time then
        let r := mergeBatch (db.map (fun q => if sameId p q then p else q)) ps
        (r.1, r.2 ^^^ pcrc old ^^^ pcrc p)
      else mergeBatch db ps
    | none =>
      let r := mergeBatch (db ++ [p]) ps
      (r.1, r.2 ^^^ pcrc p)

/-- `updateHash`: xor `δ` into every edge above node `n`, once per path. The Go recursion has no
    bound; the model's fuel `2 ^ |edges|` is never exhausted on an acyclic graph (Lemmas/StoreRank). -/
def bump : Nat → List Edge → Bytes → Nat → List Edge
  | 0, es, _, _ => es
  | fuel + 1, es, n, δ =>
    (es.filter (fun e => e.down == n)).foldl
      (fun acc e => bump fuel (acc.map (fun x => if x.up == e.up && x.down == e.down then { x with hash := x.hash ^^^ δ } else x)) e.up δ) es

def ptsOf (st : St) (id : Bytes) : List Point := (st.nodePts.filter (fun r => r.1 == id)).map (·.2)
def eptsOf (st : St) (up down : Bytes) : List Point := (st.edgePts.filter (fun r => r.1 == (up, down))).map (·.2)

/-- `nodePoints` (after the repairs): NaN is refused; otherwise merge and push the delta upstream -/
def nodePoints (st : St) (id : Bytes) (pts : List Point) : Res St :=
  if pts.any (fun p => isNaN p.value) then .err "nan"
  else
    let batch := collapse (pts.map normPoint)
    let (rows, δ) := mergeBatch (ptsOf st id) batch
    let others := st.nodePts.filter (fun r => r.1 != id)
    .ok { st with nodePts := others ++ rows.map (fun p => (id, p)), edges := bump (2 ^ st.edges.length) st.edges id δ }

/-- all nodes reachable upward from `n` (through any edge, deleted or not), `n` included -/
def ancestors : Nat → List Edge → Bytes → List Bytes
  | 0, _, n => [n]
  | fuel + 1, es, n => n :: (es.filter (fun e => e.down == n)).flatMap (fun e => ancestors fuel es e.up)

/-- edge points written to the existing edge (u, d): merge, xor the delta into that edge, then into
    everything above its parent -/
def edgeWrite (st : St) (u d : Bytes) (batch : List Point) : St :=
  let mb := mergeBatch (eptsOf st u d) batch
  let es := st.edges.map (fun x => if x.up == u && x.down == d then { x with hash := x.hash ^^^ mb.2 } else x)
  { st with edgePts := st.edgePts.filter (fun r => r.1 != (u, d)) ++ mb.1.map (fun p => ((u, d), p)),
            edges := bump (2 ^ es.length) es u mb.2 }

/-- a new edge (u, d): its hash covers its points, the node's points and the node's child edges -/
def edgeInsert (st : St) (u d typ : Bytes) (batch : List Point) : St :=
  let mb := mergeBatch [] batch
  let h := mb.2 ^^^ xorAll ((ptsOf st d).map pcrc) ^^^ xorAll ((st.edges.filter (fun e => e.up == d)).map (·.hash))
  let es := st.edges ++ [{ up := u, down := d, typ := typ, hash := h }]
  { st with edgePts := st.edgePts ++ mb.1.map (fun p => ((u, d), p)),
            edges := bump (2 ^ es.length) es u h,
            root := if u = rootS then d else st.root }

/-- `edgePoints` once the parent is known (`u`), after the self / root / NaN checks -/
def edgePointsCore (st : St) (node u : Bytes) (pts : List Point) : Res St :=
  let batch := collapse (pts.map normPoint)
  let nodeType := ((batch.filter (fun p => p.type == nodeTypeT)).getLast?.map (·.text)).getD []
  let batch := batch.filter (fun p => p.type != nodeTypeT)
  match st.edges.find? (fun e => e.up == u && e.down == node) with
  | some _ => .ok (edgeWrite st u node batch)
  | none =>
    if nodeType.isEmpty then .err "nodetype"
    else if (ancestors (2 ^ st.edges.length) st.edges u).contains node then .err "cycle"
    else .ok (edgeInsert st u node nodeType batch)

/-- `edgePoints` (after the repairs) -/
def edgePoints (st : St) (node parent : Bytes) (pts : List Point) : Res St :=
  if node = parent then .err "self"
  else if node = st.root ∧ pts.any (fun p => p.type == tombstoneT && isPos p.value) then .err "root"
  else if pts.any (fun p => isNaN p.value) then .err "nan"
  else edgePointsCore st node (if parent.isEmpty then rootS else parent) pts

/-- the from-scratch hash of an edge: its node's points, its own points, its child edges -/
def calcHash (st : St) (e : Edge) : Nat :=
  xorAll ((ptsOf st e.down).map pcrc) ^^^ xorAll ((eptsOf st e.up e.down).map pcrc) ^^^
    xorAll ((st.edges.filter (fun c => c.up == e.down)).map (·.hash))

def hashInv (st : St) : Bool := st.edges.all (fun e => e.hash == calcHash st e)

end Siot.Store

namespace Siot.Store
open Siot

/-- the two write requests of the store -/
inductive WOp where
  | np (id : Bytes) (pts : List Point)
  | ep (node parent : Bytes) (pts : List Point)

/-- one request: the new state, or the old one untouched when the request is refused -/
def step (st : St) : WOp → St × Bool
  | .np id pts => match nodePoints st id pts with
    | .ok st' => (st', true)
    | _ => (st, false)
  | .ep node parent pts => match edgePoints st node parent pts with
    | .ok st' => (st', true)
    | _ => (st, false)

def run (st : St) : List WOp → St
  | [] => st
  | op :: ops => run (step st op).1 ops

end Siot.Store
