import Siot.Basic
/-
Model of data/encode.go, data/decode.go, data/merge.go over a deep embedding of the supported
configuration types: a struct whose tagged fields are scalars, pointers to scalars, slices, arrays,
string-keyed maps, flat structs or pointers to flat structs (scalars: bool, intN, uintN, float32/64,
string). `reflect` operations that can panic (Index, Set on an unsettable value, …) are explicit.
float64 values are bit patterns; the numeric conversions are the parameter `Num`.
-/
namespace Siot.Config
open Siot

/-! ## types and values -/
inductive SKind where
  | bool
  | int (bits : Nat)      -- int8/16/32/64 (int = 64)
  | uint (bits : Nat)
  | f32
  | f64
  | str
  deriving DecidableEq, Repr

inductive SVal where
  | b (v : Bool)
  | i (v : Int)
  | u (v : Nat)
  | f (bits : Nat)        -- float64 bits for f64, float32 bits for f32
  | s (v : Bytes)
  deriving DecidableEq, Repr

inductive FieldTy where
  | scalar (k : SKind)
  | ptr (k : SKind)
  | slice (k : SKind)
  | array (n : Nat) (k : SKind)
  | map (k : SKind)
  | struct (fs : List (Bytes × SKind))      -- flat struct: (point key, kind) per field
  | ptrStruct (fs : List (Bytes × SKind))
  deriving DecidableEq, Repr

inductive FVal where
  | scalar (v : SVal)
  | ptr (v : Option SVal)
  | slice (vs : List SVal)                   -- nil and empty are not distinguished
  | array (vs : List SVal)
  | map (kvs : List (Bytes × SVal))          -- association list, keys unique
  | struct (vs : List SVal)
  | ptrStruct (vs : Option (List SVal))
  deriving DecidableEq, Repr

structure Field where
  edge : Bool               -- `edgepoint` tag (else `point`)
  ptype : Bytes             -- the point type named by the tag
  ty : FieldTy
  deriving DecidableEq, Repr

abbrev Ty := List Field

/-- a value of a configuration type: node id, parent and one value per field -/
structure Val where
  id : Bytes := []
  parent : Bytes := []
  fields : List FVal := []
  deriving DecidableEq, Repr

structure Point where
  type : Bytes := []
  key : Bytes := []
  value : Nat := 0          -- float64 bits
  text : Bytes := []
  tomb : Int := 0
  deriving DecidableEq, Repr

structure NodeEdge where
  id : Bytes := []
  parent : Bytes := []
  points : List Point := []
  edgePoints : List Point := []
  deriving DecidableEq, Repr

/-- numeric conversions between Go integers/floats and float64 bit patterns (IEEE-754 and
    Go's conversion rules; a parameter of the model) -/
structure Num where
  ofInt : Int → Nat              -- float64(i)
  toInt64 : Nat → Int            -- int64(f)   (implementation defined outside the range)
  toUint64 : Nat → Nat           -- uint64(f)
  isOne : Nat → Bool             -- f == 1
  isNeg : Nat → Bool             -- f < 0
  widen : Nat → Nat              -- float64(float32 bits)
  narrow : Nat → Nat             -- float32(float64 bits)
  feq : SKind → Nat → Nat → Bool -- Go `==` on two floats of that kind (NaN ≠ NaN, -0 == +0)

def maxSafeInteger : Int := 9007199254740991
def maxStructureSize : Nat := 1000

def zeroS : SKind → SVal
  | .bool => .b false
  | .int _ => .i 0
  | .uint _ => .u 0
  | .f32 => .f 0
  | .f64 => .f 0
  | .str => .s []

def zeroF : FieldTy → FVal
  | .scalar k => .scalar (zeroS k)
  | .ptr _ => .ptr none
  | .slice _ => .slice []
  | .array n k => .array (List.replicate n (zeroS k))
  | .map _ => .map []
  | .struct fs => .struct (fs.map (fun f => zeroS f.2))
  | .ptrStruct _ => .ptrStruct none

def zero (T : Ty) : Val := { fields := T.map (fun f => zeroF f.ty) }

/-! ## decimal keys -/
def itoaAux : Nat → Nat → Bytes → Bytes
  | 0, _, acc => acc
  | fuel + 1, n, acc =>
    let acc' := UInt8.ofNat (48 + n % 10) :: acc
    if n < 10 then acc' else itoaAux fuel (n / 10) acc'

/-- `strconv.Itoa` for naturals -/
def itoa (n : Nat) : Bytes := itoaAux (n + 1) n []

def digitsVal : Bytes → Nat → Option Nat
  | [], acc => some acc
  | c :: cs, acc => if 48 ≤ c.toNat ∧ c.toNat ≤ 57 then digitsVal cs (acc * 10 + (c.toNat - 48)) else none

/-- `strconv.Atoi`: optional sign, decimal digits, int64 range -/
def atoi (s : Bytes) : Option Int :=
  let body (neg : Bool) (ds : Bytes) : Option Int :=
    if ds.isEmpty then none
    else match digitsVal ds 0 with
      | none => none
      | some n =>
        if neg then (if n ≤ 9223372036854775808 then some (-(n : Int)) else none)
        else (if n ≤ 9223372036854775807 then some (n : Int) else none)
  match s with
  | 43 :: ds => body false ds      -- '+'
  | 45 :: ds => body true ds       -- '-'
  | ds => body false ds

/-- Go's `p.Tombstone%2 == 1` (truncated remainder: false for negative odd counts) -/
def tombOdd (t : Int) : Bool := t.tmod 2 == 1

/-! ## encoding -/
def pointFromScalar (N : Num) (ptype : Bytes) (v : SVal) : Res Point :=
  match v with
  | .b x => .ok { type := ptype, value := N.ofInt (if x then 1 else 0) }
  | .i x => if x > maxSafeInteger ∨ x < -maxSafeInteger then .err "overflow" else .ok { type := ptype, value := N.ofInt x }
  | .u x => if (x : Int) > maxSafeInteger then .err "overflow" else .ok { type := ptype, value := N.ofInt x }
  | .f bits => .ok { type := ptype, value := bits }     -- f32 fields are widened by the caller
  | .s x => .ok { type := ptype, text := x }

/-- value as seen through `v.Float()`: float32 fields are widened -/
def widenS (N : Num) (k : SKind) (v : SVal) : SVal :=
  match k, v with
  | .f32, .f bits => .f (N.widen bits)
  | _, v => v

def keyed (N : Num) (ptype : Bytes) (k : SKind) (key : Bytes) (v : SVal) : Res Point :=
  match pointFromScalar N ptype (widenS N k v) with
  | .ok p => .ok { p with key := key }
  | e => e

def mapM' {α β : Type} (f : α → Res β) : List α → Res (List β)
  | [] => .ok []
  | a :: as => match f a with
    | .ok b => (match mapM' f as with | .ok bs => .ok (b :: bs) | e => e)
    | .err e => .err e
    | .panic m => .panic m

/-- points of an indexed container: element `j` gets the key `itoa (i + j)` -/
def encIdx (N : Num) (ptype : Bytes) (k : SKind) : Nat → List SVal → Res (List Point)
  | _, [] => .ok []
  | i, v :: vs =>
    match keyed N ptype k (itoa i) v with
    | .ok p => (match encIdx N ptype k (i + 1) vs with | .ok ps => .ok (p :: ps) | e => e)
    | .err e => .err e
    | .panic m => .panic m

/-- points of a map: one per entry, keyed by the map key -/
def encMap (N : Num) (ptype : Bytes) (k : SKind) : List (Bytes × SVal) → Res (List Point)
  | [] => .ok []
  | (key, v) :: kvs =>
    match keyed N ptype k key v with
    | .ok p => (match encMap N ptype k kvs with | .ok ps => .ok (p :: ps) | e => e)
    | .err e => .err e
    | .panic m => .panic m

/-- points of a flat struct: one per field, keyed by the field's key -/
def encStruct (N : Num) (ptype : Bytes) : List (Bytes × SKind) → List SVal → Res (List Point)
  | [], _ => .ok []
  | (key, k) :: fs, v :: vs =>
    (match keyed N ptype k key v with
     | .ok p => (match encStruct N ptype fs vs with | .ok ps => .ok (p :: ps) | e => e)
     | .err e => .err e
     | .panic m => .panic m)
  | _ :: _, [] => .panic "missing struct field"

/-- `appendPointsFromValue` -/
def encodeField (N : Num) (ptype : Bytes) : FieldTy → FVal → Res (List Point)
  | .scalar k, .scalar v => (keyed N ptype k [] v).map' (fun p => [p])
  | .ptr _, .ptr none => .ok [{ type := ptype, tomb := 1 }]
  | .ptr k, .ptr (some v) => (keyed N ptype k [] v).map' (fun p => [p])
  | .slice k, .slice vs =>
    if vs.length > maxStructureSize then .err "size" else encIdx N ptype k 0 vs
  | .array _ k, .array vs =>
    if vs.length > maxStructureSize then .err "size" else encIdx N ptype k 0 vs
  | .map k, .map kvs =>
    if kvs.length > maxStructureSize then .err "size" else encMap N ptype k kvs
  | .struct fs, .struct vs =>
    if fs.length > maxStructureSize then .err "size" else encStruct N ptype fs vs
  | .ptrStruct fs, .ptrStruct none =>
    if fs.length > maxStructureSize then .err "size"
    else .ok (fs.map (fun f => { type := ptype, key := f.1, tomb := 1 }))
  | .ptrStruct fs, .ptrStruct (some vs) =>
    if fs.length > maxStructureSize then .err "size" else encStruct N ptype fs vs
  | _, _ => .panic "value does not have the field's type"

/-- the points of every field, in declaration order -/
def encodeFields (N : Num) : Ty → List FVal → Res (List (List Point))
  | [], _ => .ok []
  | f :: fs, x :: xs =>
    (match encodeField N f.ptype f.ty x with
     | .ok ps => (match encodeFields N fs xs with | .ok rest => .ok (ps :: rest) | e => e)
     | .err e => .err e
     | .panic m => .panic m)
  | _ :: _, [] => .panic "missing field value"

/-- the point lists of the `point` (edge = false) or `edgepoint` (edge = true) fields, concatenated -/
def collect (edge : Bool) : Ty → List (List Point) → List Point
  | f :: fs, l :: ls => if f.edge = edge then l ++ collect edge fs ls else collect edge fs ls
  | _, _ => []

/-- `Encode` -/
def encode (N : Num) (T : Ty) (v : Val) : Res NodeEdge :=
  match encodeFields N T v.fields with
  | .ok ls => .ok { id := v.id, parent := v.parent, points := collect false T ls, edgePoints := collect true T ls }
  | .err e => .err e
  | .panic m => .panic m

/-! ## decoding -/
structure Group where
  keyNotIndex : Bytes := []
  keyMaxInt : Int := -1
  points : List Point := []
  deriving Repr

/-- the grouping loop of `Decode` for one point type (the empty key counts as index 0) -/
def group (ptype : Bytes) (ps : List Point) : Option Group :=
  let mine := ps.filter (fun p => p.type == ptype)
  if mine.isEmpty then none
  else some (mine.foldl (fun (g : Group) p =>
    let idx : Option Int := if p.key.isEmpty then some 0 else atoi p.key
    let g := match idx with
      | some i => if i < 0 then { g with keyNotIndex := p.key }
                  else if i > g.keyMaxInt ∧ !tombOdd p.tomb then { g with keyMaxInt := i } else g
      | none => { g with keyNotIndex := p.key }
    { g with points := g.points ++ [p] }) {})

/-- `v.OverflowInt` / `OverflowUint` for a kind of the given width -/
def fitsInt (bits : Nat) (x : Int) : Bool := decide (-(2 ^ (bits - 1) : Int) ≤ x) && decide (x < 2 ^ (bits - 1))
def fitsUint (bits : Nat) (x : Nat) : Bool := decide (x < 2 ^ bits)

/-- `setVal` on a scalar destination of kind `k` (tombstone: zero value) -/
def setScalar (N : Num) (k : SKind) (p : Point) : Res SVal :=
  if tombOdd p.tomb then .ok (zeroS k)
  else match k with
    | .bool => .ok (.b (N.isOne p.value))
    | .int bits => let x := N.toInt64 p.value; if fitsInt bits x then .ok (.i x) else .err "int overflow"
    | .uint bits => let x := N.toUint64 p.value; if N.isNeg p.value || !fitsUint bits x then .err "uint overflow" else .ok (.u x)
    | .f32 => .ok (.f (N.narrow p.value))
    | .f64 => .ok (.f p.value)
    | .str => .ok (.s p.text)

/-- Go's `strconv.Atoi(p.Key)` with the error ignored (0 on error) -/
def indexOf (key : Bytes) : Int := (atoi key).getD 0

/-- how an update of a destination ended; the destination keeps what was written before an error -/
inductive Status where
  | ok
  | err
  | panic (m : String)
  deriving DecidableEq, Repr

/-- the loop over the group's points for arrays / slices; collects the deleted indexes.
    `v.Index(index)` panics when the index is out of range. -/
def setIndexed (N : Num) (k : SKind) : List Point → List SVal → List Int → List SVal × List Int × Status
  | [], vs, del => (vs, del, .ok)
  | p :: ps, vs, del =>
    let index := indexOf p.key
    let dead := tombOdd p.tomb
    let del := if dead then del ++ [index] else del
    if dead ∧ index ≥ vs.length then setIndexed N k ps vs del
    else if index < 0 ∨ index ≥ vs.length then (vs, del, .panic "reflect: slice index out of range")
    else match setScalar N k p with
      | .ok v => setIndexed N k ps (vs.set index.toNat v) del
      | .err _ => (vs, del, .err)
      | .panic m => (vs, del, .panic m)

def insertSorted (x : Int) : List Int → List Int
  | [] => [x]
  | y :: ys => if x ≤ y then x :: y :: ys else y :: insertSorted x ys

def sortInts (l : List Int) : List Int := l.foldr insertSorted []

/-- trailing-tombstone trimming of a slice -/
def trimLen (del : List Int) (len : Nat) : Nat :=
  let last := (sortInts del).reverse.foldl (fun (st : Int × Bool) d =>
    if st.2 then st
    else if d < st.1 then (st.1, true)
    else if d = st.1 then (st.1 - 1, false) else st) ((len : Int) - 1, false)
  (last.1 + 1).toNat

def setKey (kvs : List (Bytes × SVal)) (k : Bytes) (v : SVal) : List (Bytes × SVal) :=
  if kvs.any (fun kv => kv.1 == k) then kvs.map (fun kv => if kv.1 == k then (k, v) else kv) else kvs ++ [(k, v)]

def setMap (N : Num) (k : SKind) : List Point → List (Bytes × SVal) → List (Bytes × SVal) × Status
  | [], kvs => (kvs, .ok)
  | p :: ps, kvs =>
    let key := if p.key.isEmpty then [48] else p.key
    if tombOdd p.tomb then setMap N k ps (kvs.filter (fun kv => kv.1 != key))
    else match setScalar N k p with
      | .ok v => setMap N k ps (setKey kvs key v)
      | .err _ => (kvs, .err)
      | .panic m => (kvs, .panic m)

/-- struct branch: the last point of each key wins, fields in declaration order, stops at the
    first error -/
def setStruct (N : Num) (ps : List Point) : List (Bytes × SKind) → List SVal → List SVal × Status
  | [], vs => (vs, .ok)
  | (key, k) :: fs, v :: vs =>
    (match (ps.reverse.find? (fun p => p.key == key)) with
      | some p => (match setScalar N k p with
        | .ok v' => let r := setStruct N ps fs vs; (v' :: r.1, r.2)
        | .err _ => (v :: vs, .err)
        | .panic m => (v :: vs, .panic m))
      | none => let r := setStruct N ps fs vs; (v :: r.1, r.2))
  | _ :: _, [] => ([], .panic "missing struct field")

def setScalars (N : Num) (k : SKind) : List Point → SVal → SVal × Status
  | [], v => (v, .ok)
  | p :: ps, v => match setScalar N k p with
    | .ok v' => setScalars N k ps v'
    | .err _ => (v, .err)
    | .panic m => (v, .panic m)

/-- pointer to scalar: a tombstone sets nil; otherwise the pointer is allocated first, so an
    error leaves a non-nil pointer behind -/
def setPtrs (N : Num) (k : SKind) : List Point → Option SVal → Option SVal × Status
  | [], v => (v, .ok)
  | p :: ps, v =>
    if tombOdd p.tomb then setPtrs N k ps none
    else match setScalar N k p with
      | .ok v' => setPtrs N k ps (some v')
      | .err _ => (some (v.getD (zeroS k)), .err)
      | .panic m => (v, .panic m)

/-- `GroupedPoints.SetValue`: the destination afterwards and how it ended -/
def setValue (N : Num) (g : Group) : FieldTy → FVal → FVal × Status
  | .scalar k, .scalar v => let r := setScalars N k g.points v; (.scalar r.1, r.2)
  | .ptr k, .ptr v => let r := setPtrs N k g.points v; (.ptr r.1, r.2)
  | .slice k, .slice vs =>
    if !g.keyNotIndex.isEmpty then (.slice vs, .err)
    else if g.keyMaxInt > maxStructureSize then (.slice vs, .err)
    else
      let vs := if g.keyMaxInt > (vs.length : Int) - 1 then vs ++ List.replicate ((g.keyMaxInt + 1).toNat - vs.length) (zeroS k) else vs
      match setIndexed N k g.points vs [] with
      | (vs', del, .ok) => (.slice (vs'.take (trimLen del vs'.length)), .ok)
      | (vs', _, st) => (.slice vs', st)
  | .array n k, .array vs =>
    if !g.keyNotIndex.isEmpty then (.array vs, .err)
    else if g.keyMaxInt > maxStructureSize then (.array vs, .err)
    else if g.keyMaxInt > (n : Int) - 1 then (.array vs, .err)
    else let r := setIndexed N k g.points vs []; (.array r.1, r.2.2)
  | .map k, .map kvs =>
    -- only points that add or update an entry count towards the size limit (tombstones only remove)
    if (g.points.filter (fun p => !tombOdd p.tomb)).length > maxStructureSize then (.map kvs, .err)
    else let r := setMap N k g.points kvs; (.map r.1, r.2)
  | .struct fs, .struct vs => let r := setStruct N g.points fs vs; (.struct r.1, r.2)
  | .ptrStruct fs, .ptrStruct v =>
    -- validFields: all declared keys, minus tombstoned keys, plus live keys (in point order)
    let valid := g.points.foldl (fun (acc : List Bytes) p =>
      if tombOdd p.tomb then acc.filter (· != p.key) else if acc.contains p.key then acc else acc ++ [p.key]) (fs.map (·.1))
    if valid.isEmpty then (.ptrStruct none, .ok)
    else
      let cur := v.getD (fs.map (fun f => zeroS f.2))
      let r := setStruct N g.points fs cur
      (.ptrStruct (some r.1), r.2)
  | _, v => (v, .panic "value does not have the field's type")

/-- `Decode` into an existing value: every field is attempted, errors are joined (each field keeps
    what was written to it before its error); returns the value, whether an error was reported and
    a panic message if the call crashed -/
def decodeFields (N : Num) (ne : NodeEdge) : List Field → List FVal → List FVal × Bool × Option String
  | [], _ => ([], false, none)
  | f :: fs, x :: xs =>
    let (x', st) := match group f.ptype (if f.edge then ne.edgePoints else ne.points) with
      | none => (x, Status.ok)
      | some g => setValue N g f.ty x
    match st with
    | .panic m => (x' :: xs, false, some m)
    | _ =>
      let (rest, e, pm) := decodeFields N ne fs xs
      (x' :: rest, (st == .err) || e, pm)
  | _ :: _, [] => ([], false, some "missing field value")

structure DecodeOut where
  val : Val
  err : Bool
  panic : Option String
  deriving Repr

def decode (N : Num) (T : Ty) (ne : NodeEdge) (v : Val) : DecodeOut :=
  let (fs, e, pm) := decodeFields N ne T v.fields
  { val := { id := if ne.id.isEmpty then v.id else ne.id, parent := if ne.parent.isEmpty then v.parent else ne.parent, fields := fs },
    err := e, panic := pm }

/-! ## child lists -/
/-- a field tagged `child:"<node type>"`: a slice of structs of type `ty` (one level: the element type has no
    child fields of its own) -/
structure ChildField where
  ctype : Bytes
  ty : Ty
  deriving Repr

/-- one `child` field of `Decode`: untouched when no child of the node has its type; otherwise a fresh slice with one
    element per such child, in the order of the children, each decoded into the zero value -/
def decodeKidField (N : Num) (cf : ChildField) (children : List (Bytes × NodeEdge)) (cur : List Val) :
    List Val × Bool × Option String :=
  let g := children.filter (fun c => c.1 == cf.ctype)
  if g.isEmpty then (cur, false, none)
  else
    let outs := g.map (fun c => decode N cf.ty c.2 (zero cf.ty))
    (outs.map (·.val), outs.any (·.err), (outs.find? (fun o => o.panic.isSome)).bind (·.panic))

def decodeKids (N : Num) (children : List (Bytes × NodeEdge)) : List ChildField → List (List Val) → List (List Val) × Bool × Option String
  | [], _ => ([], false, none)
  | cf :: cfs, cur :: curs =>
    let r := decodeKidField N cf children cur
    match r.2.2 with
    | some m => (r.1 :: curs, r.2.1, some m)
    | none =>
      let rest := decodeKids N children cfs curs
      (r.1 :: rest.1, r.2.1 || rest.2.1, rest.2.2)
  | _ :: _, [] => ([], false, some "missing child list")

/-- `Decode` of a node with children into a value with child lists -/
def decodeC (N : Num) (T : Ty) (kfs : List ChildField) (ne : NodeEdge) (children : List (Bytes × NodeEdge))
    (v : Val) (cur : List (List Val)) : DecodeOut × List (List Val) :=
  let d := decode N T ne v
  match d.panic with
  | some _ => (d, cur)
  | none =>
    let r := decodeKids N children kfs cur
    ({ d with err := d.err || r.2.1, panic := r.2.2 }, r.1)

/-- the children handed to `Decode`: every element of every child list encoded, with the field's node type -/
def encodeKids (N : Num) : List ChildField → List (List Val) → Res (List (Bytes × NodeEdge))
  | [], _ => .ok []
  | cf :: cfs, ks :: kss =>
    (match mapM' (fun k => encode N cf.ty k) ks with
     | .ok nes => (match encodeKids N cfs kss with
       | .ok rest => .ok (nes.map (fun ne => (cf.ctype, ne)) ++ rest)
       | e => e)
     | .err e => .err e
     | .panic m => .panic m)
  | _ :: _, [] => .panic "missing child list"

/-- `MergePoints` / `MergeEdgePoints` on the top-level struct: the node id (and parent) must match -/
def mergePoints (N : Num) (T : Ty) (id : Bytes) (pts : List Point) (v : Val) : Option DecodeOut :=
  if id.isEmpty ∨ v.id ≠ id then none else some (decode N T { id := id, points := pts } v)

/-- `MergeEdgePoints` on the top-level struct: the node id must match, and the parent too when one is given -/
def mergeEdgePoints (N : Num) (T : Ty) (id parent : Bytes) (pts : List Point) (v : Val) : Option DecodeOut :=
  if id.isEmpty ∨ v.id ≠ id ∨ (¬ parent.isEmpty ∧ v.parent ≠ parent) then none
  else some (decode N T { id := id, parent := parent, edgePoints := pts } v)

/-! ## DiffPoints -/
/-- `reflect.Value.Equal` on two scalars of kind `k` -/
def sEq (N : Num) (k : SKind) (a b : SVal) : Bool :=
  match a, b with
  | .f x, .f y => N.feq k x y
  | x, y => x == y

/-- `Points.Add` as used by DiffPoints (distinct keys per type): the empty key becomes "0" -/
def addNorm (p : Point) : Point := if p.key.isEmpty then { p with key := [48] } else p

def diffStruct (N : Num) (ptype : Bytes) : List (Bytes × SKind) → List SVal → List SVal → Res (List Point)
  | [], _, _ => .ok []
  | (key, k) :: fs, b :: bs, a :: as =>
    (match diffStruct N ptype fs bs as with
     | .ok rest =>
       if sEq N k b a then .ok rest
       else (match keyed N ptype k key a with
         | .ok p => .ok (addNorm p :: rest)
         | .err e => .err e
         | .panic m => .panic m)
     | e => e)
  | _, _, _ => .panic "missing struct field"

def diffIndexed (N : Num) (ptype : Bytes) (k : SKind) (bs as : List SVal) : Res (List Point) :=
  if as.length > maxStructureSize then .err "size"
  else
    let changed := (List.zip (List.range as.length) as).filter (fun (iv : Nat × SVal) =>
      match bs[iv.1]? with | some b => !sEq N k iv.2 b | none => true)
    match mapM' (fun (iv : Nat × SVal) => keyed N ptype k (itoa iv.1) iv.2) changed with
    | .ok ps =>
      let dead := ((List.range bs.length).filter (fun i => i ≥ as.length)).reverse.map
        (fun i => ({ type := ptype, key := itoa i, tomb := 1 } : Point))
      .ok (ps.map addNorm ++ dead)
    | e => e

/-- one `point`-tagged field of `DiffPoints(before, after)` -/
def diffField (N : Num) (ptype : Bytes) : FieldTy → FVal → FVal → Res (List Point)
  | .scalar k, .scalar b, .scalar a =>
    if sEq N k b a then .ok [] else (keyed N ptype k [] a).map' (fun p => [addNorm p])
  | .ptr _, .ptr none, .ptr none => .ok []
  | .ptr _, .ptr _, .ptr none => .ok [addNorm { type := ptype, tomb := 1 }]
  | .ptr k, .ptr _, .ptr (some a) => (keyed N ptype k [] a).map' (fun p => [addNorm p])   -- pointers compare by address
  | .slice k, .slice bs, .slice as => diffIndexed N ptype k bs as
  | .array _ k, .array bs, .array as => diffIndexed N ptype k bs as
  | .map k, .map bkv, .map akv =>
    if akv.length > maxStructureSize then .err "size"
    else
      let changed := akv.filter (fun kv => match (bkv.find? (fun x => x.1 == kv.1)) with
        | some x => !sEq N k kv.2 x.2 | none => true)
      match mapM' (fun (kv : Bytes × SVal) => keyed N ptype k kv.1 kv.2) changed with
      | .ok ps =>
        let dead := (bkv.filter (fun x => !akv.any (fun kv => kv.1 == x.1))).map
          (fun x => addNorm ({ type := ptype, key := x.1, tomb := 1 } : Point))
        .ok (ps.map addNorm ++ dead)
      | e => e
  | .struct fs, .struct bs, .struct as =>
    if fs.length > maxStructureSize then .err "size" else diffStruct N ptype fs bs as
  | .ptrStruct _, .ptrStruct none, .ptrStruct none => .ok []
  | .ptrStruct fs, .ptrStruct (some _), .ptrStruct none =>
    if fs.length > maxStructureSize then .err "size"
    else .ok (fs.map (fun f => addNorm { type := ptype, key := f.1, tomb := 1 }))
  | .ptrStruct fs, .ptrStruct none, .ptrStruct (some as) => encodeField N ptype (.struct fs) (.struct as)
  | .ptrStruct fs, .ptrStruct (some bs), .ptrStruct (some as) =>
    if fs.length > maxStructureSize then .err "size" else diffStruct N ptype fs bs as
  | _, _, _ => .panic "value does not have the field's type"

/-- `DiffPoints`: only `point`-tagged fields are compared -/
def diff (N : Num) : Ty → List FVal → List FVal → Res (List Point)
  | [], _, _ => .ok []
  | f :: fs, b :: bs, a :: as =>
    if f.edge then diff N fs bs as
    else (match diffField N f.ptype f.ty b a with
      | .ok ps => (match diff N fs bs as with | .ok rest => .ok (ps ++ rest) | e => e)
      | e => e)
  | _, _, _ => .panic "missing field value"

end Siot.Config
