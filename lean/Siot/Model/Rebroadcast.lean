import Siot.Model.Store
/-
Model of store/store.go processPointsUpstream / processEdgePointsUpstream and store/sqlite.go `up`:
the subjects `up.<ancestor>.<node>[.<parent>]` on which an accepted write is republished.
-/
namespace Siot.Store
open Siot

/-- the tombstone point of an edge as `Points.Find(tombstone, "")` sees it (key "0"; missing = zero value) -/
def edgeTomb (st : St) (e : Edge) : Nat :=
  match (eptsOf st e.up e.down).find? (fun p => p.type == tombstoneT && p.key == zeroKey) with
  | some p => p.value
  | none => 0

/-- `up(id, false)` keeps an edge when `math.Mod(tombstone, 2) == 0`; `isEven` is that test on
    float64 bits (a parameter: IEEE remainder) -/
def liveEdges (isEven : Nat → Bool) (st : St) : List Edge := st.edges.filter (fun e => isEven (edgeTomb st e))

/-- ancestors (with multiplicity: once per path) on whose subject node points of `n` are republished -/
def pubsNode (isEven : Nat → Bool) (st : St) (n : Bytes) : List Bytes :=
  ancestors (2 ^ st.edges.length) (liveEdges isEven st) n

/-- the same for edge points: deleted edges are walked too, so that a deletion is still announced -/
def pubsEdge (st : St) (n : Bytes) : List Bytes := ancestors (2 ^ st.edges.length) st.edges n

end Siot.Store
