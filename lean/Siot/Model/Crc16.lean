import Siot.Basic
/-
CRC-16/KERMIT as used by client/serial-wrapper.go (`crc16.ChecksumCCITT`, kjx98/crc16:
reflected polynomial 0x8408, initial value 0, no input/output XOR), as a bit-serial LFSR over `Nat`.
The Go library is table driven; the equality of the two is part of the correspondence check.
-/
namespace Siot.Crc16

def poly : Nat := 0x8408

/-- one LFSR step with input bit `b` (bits of a byte are fed least significant first) -/
def step (s : Nat) (b : Bool) : Nat :=
  if (s % 2 == 1) != b then (s / 2) ^^^ poly else s / 2

def run (s : Nat) : List Bool → Nat
  | [] => s
  | b :: bs => run (step s b) bs

/-- the eight bits of a byte, least significant first -/
def bits8 (v : UInt8) : List Bool :=
  [v.toNat.testBit 0, v.toNat.testBit 1, v.toNat.testBit 2, v.toNat.testBit 3,
   v.toNat.testBit 4, v.toNat.testBit 5, v.toNat.testBit 6, v.toNat.testBit 7]

def bitsOf (bs : Siot.Bytes) : List Bool := bs.flatMap bits8

/-- `crc16.ChecksumCCITT` -/
def crc (bs : Siot.Bytes) : Nat := run 0 (bitsOf bs)

/-- little-endian two byte form (`binary.Write(LittleEndian, crc)`) -/
def le16 (c : Nat) : Siot.Bytes := [UInt8.ofNat (c % 256), UInt8.ofNat (c / 256 % 256)]

def ofLe16 (lo hi : UInt8) : Nat := lo.toNat + 256 * hi.toNat

end Siot.Crc16
