import Siot.Basic
/-
Model of client/schedule.go (`schedule.activeForTime` and helpers).
Time is an `Int` count of nanoseconds since the Unix epoch (UTC).
-/
namespace Siot.Schedule
open Siot

def dayNs : Int := 86400000000000
def hourNs : Int := 3600000000000
def minNs : Int := 60000000000

def isDigit (b : UInt8) : Bool := 48 ≤ b && b ≤ 57
def dval (b : UInt8) : Nat := b.toNat - 48

/-- one anchored attempt of `(\d{1,2}):(\d\d)` (greedy: two digits first) -/
def matchHMAt : Bytes → Option (Nat × Nat)
  | a :: b :: c :: d :: e :: _ =>
    if isDigit a && isDigit b && c == 58 && isDigit d && isDigit e then
      some (dval a * 10 + dval b, dval d * 10 + dval e)
    else if isDigit a && b == 58 && isDigit c && isDigit d then
      some (dval a, dval c * 10 + dval d)
    else none
  | [a, b, c, d] =>
    if isDigit a && b == 58 && isDigit c && isDigit d then
      some (dval a, dval c * 10 + dval d)
    else none
  | _ => none

/-- leftmost match (Go regexp `FindStringSubmatch`, unanchored) -/
def parseHM : Bytes → Option (Nat × Nat)
  | [] => none
  | x :: xs =>
    match matchHMAt (x :: xs) with
    | some r => some r
    | none => parseHM xs

/-- one anchored attempt of `(\d{4})-(\d{2})-(\d{2})` -/
def matchDateAt : Bytes → Option (Int × Int × Int)
  | y1 :: y2 :: y3 :: y4 :: s1 :: m1 :: m2 :: s2 :: d1 :: d2 :: _ =>
    if isDigit y1 && isDigit y2 && isDigit y3 && isDigit y4 && s1 == 45 &&
       isDigit m1 && isDigit m2 && s2 == 45 && isDigit d1 && isDigit d2 then
      some (Int.ofNat (dval y1 * 1000 + dval y2 * 100 + dval y3 * 10 + dval y4),
            Int.ofNat (dval m1 * 10 + dval m2), Int.ofNat (dval d1 * 10 + dval d2))
    else none
  | _ => none

def parseDate : Bytes → Option (Int × Int × Int)
  | [] => none
  | x :: xs =>
    match matchDateAt (x :: xs) with
    | some r => some r
    | none => parseDate xs

/-- proleptic Gregorian (year, month, day) of day number `z` (days since 1970-01-01) -/
def civil (z0 : Int) : Int × Int × Int :=
  let z := z0 + 719468
  let era := z / 146097
  let doe := z - era * 146097
  let yoe := (doe - doe / 1460 + doe / 36524 - doe / 146096) / 365
  let y := yoe + era * 400
  let doy := doe - (365 * yoe + yoe / 4 - yoe / 100)
  let mp := (5 * doy + 2) / 153
  let d := doy - (153 * mp + 2) / 5 + 1
  let m := if mp < 10 then mp + 3 else mp - 9
  (if m ≤ 2 then y + 1 else y, m, d)

/-- Go `time.Weekday` (Sunday = 0) of day number `z` -/
def weekday (z : Int) : Int := (z + 4) % 7

def dayOf (t : Int) : Int := t / dayNs

structure Sched where
  start : Bytes
  stop : Bytes
  weekdays : List Int
  dates : List Bytes

structure Range where
  start : Int
  stop : Int

def Range.contains (r : Range) (t : Int) : Bool :=
  if r.stop < r.start then false
  else if t < r.start then false
  else if t < r.stop then true
  else false

def filterWeekdays (wds : List Int) (rs : List Range) : List Range :=
  if wds.isEmpty then rs
  else rs.filter (fun r => wds.contains (weekday (dayOf r.start)))

/-- inner loop over the dates for one range: error at the first unparsable date,
    otherwise the range once per matching date -/
def datesFor (r : Range) : List Bytes → Res (List Range)
  | [] => .ok []
  | d :: ds =>
    match parseDate d with
    | none => .err "date"
    | some ymd =>
      match datesFor r ds with
      | .ok rest => .ok (if ymd = civil (dayOf r.start) then r :: rest else rest)
      | e => e

def filterDatesLoop (dates : List Bytes) : List Range → Res (List Range)
  | [] => .ok []
  | r :: rs =>
    match datesFor r dates with
    | .ok a =>
      match filterDatesLoop dates rs with
      | .ok b => .ok (a ++ b)
      | e => e
    | e => e

def filterDates (dates : List Bytes) (rs : List Range) : Res (List Range) :=
  if dates.isEmpty then .ok rs else filterDatesLoop dates rs

def activeForTime (s : Sched) (t : Int) : Res Bool :=
  match parseHM s.start with
  | none => .err "start"
  | some (sh, sm) =>
    match parseHM s.stop with
    | none => .err "end"
    | some (eh, em) =>
      let d0 := dayOf t
      -- time.Date(y, m, d, h, min, 0, 0, UTC) normalises overflowing hours/minutes linearly
      let start := d0 * dayNs + (sh : Int) * hourNs + (sm : Int) * minNs
      let stop := d0 * dayNs + (eh : Int) * hourNs + (em : Int) * minNs
      let rs : List Range :=
        if start < stop then [⟨start, stop⟩]
        else [⟨start, stop + dayNs⟩, ⟨start - dayNs, stop⟩]
      match filterDates s.dates (filterWeekdays s.weekdays rs) with
      | .ok rs' => .ok (rs'.any (fun r => r.contains t))
      | .err e => .err e
      | .panic m => .panic m

end Siot.Schedule
