import Siot.Model.Rebroadcast
/-
Model of the access decisions:
  api/nodes.go  Nodes.ServeHTTP (the gate in front of every node route), api/key.go Key.Valid,
  store/sqlite.go userCheck (credential match + live path to the root sentinel),
  client/node.go GetNodesForUser (what a logged-in user is shown).
JWT signature / expiry checking (github.com/golang-jwt/jwt) is a parameter `tokenOK`.
-/
namespace Siot.Auth
open Siot Siot.Store

/-- ASCII white space as `unicode.IsSpace` classifies single bytes: \t \n \v \f \r and space -/
def isSpace (b : UInt8) : Bool := b == 32 || (9 ≤ b && b ≤ 13)

/-- `strings.Fields` (ASCII): `cur` is the field being collected, reversed -/
def fieldsAux : Bytes → Bytes → List Bytes
  | cur, [] => if cur.isEmpty then [] else [cur.reverse]
  | cur, b :: bs =>
    if isSpace b then
      if cur.isEmpty then fieldsAux [] bs else cur.reverse :: fieldsAux [] bs
    else fieldsAux (b :: cur) bs

def fields (s : Bytes) : List Bytes := fieldsAux [] s

def bearer : Bytes := [66, 101, 97, 114, 101, 114]    -- "Bearer"

/-- api.Key.Valid: at least two fields, the first is "Bearer", the second is a valid token -/
def keyValid (tokenOK : Bytes → Bool) (hdr : Bytes) : Bool :=
  match fields hdr with
  | f0 :: f1 :: _ => f0 == bearer && tokenOK f1
  | _ => false

/-- the gate of Nodes.ServeHTTP: `true` = the request goes on to the routes, `false` = 401 and return -/
def gate (authToken : Bytes) (tokenOK : Bytes → Bool) (hdr : Bytes) : Bool :=
  hdr == authToken || keyValid tokenOK hdr

/-! ### login: userCheck -/
def userT : Bytes := [117, 115, 101, 114]            -- "user"
def emailT : Bytes := [101, 109, 97, 105, 108]       -- "email"
def passT : Bytes := [112, 97, 115, 115]             -- "pass"

/-- `Points.Text(typ, "")` on stored rows (keys are normalised to "0") -/
def textOf (pts : List Store.Point) (typ : Bytes) : Bytes :=
  match pts.find? (fun p => p.type == typ && p.key == zeroKey) with
  | some p => p.text
  | none => []

/-- edges that are not deleted; `isDel` is the test on the tombstone value bits -/
def live (isDel : Nat → Bool) (st : St) : List Edge := st.edges.filter (fun e => !isDel (edgeTomb st e))

/-- `checkUserPathRoot`: depth-first walk over non-deleted parent edges until one hangs off "root" -/
def checkPath (lv : List Edge) : Nat → Bytes → Bool
  | 0, _ => false
  | fuel + 1, id => (lv.filter (fun e => e.down == id)).any (fun e => e.up == rootS || checkPath lv fuel e.up)

/-- userCheck: the (id, parent) instances returned; a login succeeds iff this list is not empty -/
def userCheck (isDel : Nat → Bool) (st : St) (email pass : Bytes) : List (Bytes × Bytes) :=
  let lv := live isDel st
  let ids := (st.edges.filter (fun e => e.typ == userT)).map (·.down)
  let users := ids.flatMap (fun id =>
    let ne := lv.filter (fun e => e.down == id)
    if ne.isEmpty then []
    else if textOf (ptsOf st id) emailT == email && textOf (ptsOf st id) passT == pass then ne.map (fun e => (e.down, e.up))
    else [])
  users.filter (fun u => checkPath lv (2 ^ st.edges.length) u.1)

/-! ### listing: GetNodesForUser -/
/-- getChildren: all (id, parent) instances below `id` through non-deleted edges -/
def getChildren (lv : List Edge) : Nat → Bytes → List (Bytes × Bytes)
  | 0, _ => []
  | fuel + 1, id =>
    let ch := lv.filter (fun e => e.up == id)
    ch.flatMap (fun c => getChildren lv fuel c.down) ++ ch.map (fun e => (e.down, e.up))

/-- GetNodesForUser: for every live placement of the user, the parent (shown with Parent "root") and
    everything below the parent; duplicates (id, parent) removed keeping the first -/
def listing (isDel : Nat → Bool) (st : St) (uid : Bytes) : List (Bytes × Bytes) :=
  let lv := live isDel st
  let uns := lv.filter (fun e => e.down == uid)
  (uns.flatMap (fun un =>
    (lv.filter (fun e => e.down == un.up)).map (fun e => (e.down, rootS)) ++ getChildren lv (2 ^ st.edges.length) un.up)).eraseDups

end Siot.Auth
