import Siot.Model.Auth
/-
Model of client/node.go ExportNodes / ImportNodes / ReplaceIDs / checkIDs and SendNode.
A tree of NodeEdgeChildren is represented in pre-order with depths: `(depth, node)`.
The YAML text in between (github.com/goccy/go-yaml) is not modelled: export hands the tree to import.
-/
namespace Siot.Export
open Siot Siot.Store

structure NodeRec where
  id : Bytes
  typ : Bytes
  parent : Bytes
  pts : List Point
  epts : List Point
deriving DecidableEq, Repr

abbrev Flat := List (Nat × NodeRec)

def descriptionT : Bytes := [100, 101, 115, 99, 114, 105, 112, 116, 105, 111, 110]   -- "description"
def nodeIDT : Bytes := [110, 111, 100, 101, 73, 68]                                   -- "nodeID"
def importMark : Bytes := [32, 40, 105, 109, 112, 111, 114, 116, 41]                  -- " (import)"

/-! ### export -/

/-- noise reduction of exportNodesHelper on points: key "0" is written as "" -/
def blankKey (p : Point) : Point := if p.key = zeroKey then { p with key := [] } else p

/-- edge points: key "0" → "", and tombstone points with value 0 are dropped -/
def exportEdgePts (eps : List Point) : List Point :=
  (eps.map blankKey).filter (fun p => !(p.type == tombstoneT && (p.value == 0 || p.value == negZero)))

def recOf (st : St) (e : Edge) : NodeRec :=
  { id := e.down, typ := e.typ, parent := e.up, pts := (ptsOf st e.down).map blankKey,
    epts := exportEdgePts (eptsOf st e.up e.down) }

/-- exportNodesHelper: the node, then its non-deleted children in edge order, recursively -/
def exportFrom (isDel : Nat → Bool) (st : St) : Nat → Nat → Edge → Flat
  | 0, _, _ => []
  | fuel + 1, d, e =>
    (d, recOf st e) ::
      ((Auth.live isDel st).filter (fun c => c.up == e.down)).flatMap (fun c => exportFrom isDel st fuel (d + 1) c)

/-- ExportNodes: the first non-deleted instance of `id` with everything below it -/
def exportNodes (isDel : Nat → Bool) (st : St) (id : Bytes) : Option Flat :=
  match (Auth.live isDel st).find? (fun e => e.down == id) with
  | some e => some (exportFrom isDel st (2 ^ st.edges.length + 1) 0 e)
  | none => none

/-! ### import: preparation -/

/-- the import marker on the description points of the top node only; the top node's parent is the target -/
def prepTop (target : Bytes) : Flat → Flat
  | [] => []
  | (d, n) :: rest =>
    (d, { n with parent := target,
                 pts := n.pts.map (fun p => if p.type = descriptionT then { p with text := p.text ++ importMark } else p) }) :: rest

/-- the state of ReplaceIDs: the id map (old → new, first binding wins) and the number of ids drawn -/
structure RS where
  map : List (Bytes × Bytes) := []
  next : Nat := 0
deriving Repr

def lookupId (m : List (Bytes × Bytes)) (k : Bytes) : Option Bytes :=
  match m.find? (fun x => x.1 == k) with
  | some x => some x.2
  | none => none

/-- `idMap[old]`, drawing a fresh id for an unknown one -/
def mapId (fresh : Nat → Bytes) (s : RS) (old : Bytes) : Bytes × RS :=
  match lookupId s.map old with
  | some n => (n, s)
  | none => (fresh s.next, { map := s.map ++ [(old, fresh s.next)], next := s.next + 1 })

/-- node-id points of one node, left to right -/
def replPts (fresh : Nat → Bytes) : RS → List Point → List Point × RS
  | s, [] => ([], s)
  | s, p :: ps =>
    if p.type = nodeIDT ∧ p.text ≠ [] then
      let r := mapId fresh s p.text
      let r2 := replPts fresh r.2 ps
      ({ p with text := r.1 } :: r2.1, r2.2)
    else
      let r2 := replPts fresh s ps
      (p :: r2.1, r2.2)

/-- replaceHelper on one node: parent := the new id handed down, a blank id always gets a fresh one -/
def replNode (fresh : Nat → Bytes) (s : RS) (parentNew : Bytes) (n : NodeRec) : NodeRec × RS :=
  let r := if n.id = [] then (fresh s.next, { s with next := s.next + 1 }) else mapId fresh s n.id
  let r2 := replPts fresh r.2 n.pts
  ({ n with id := r.1, parent := parentNew, pts := r2.1 }, r2.2)

/-- the parent handed down to a node at depth `d`: `anc[i]` = new id of the current ancestor at depth i -/
def parentAt (target : Bytes) (anc : List Bytes) (d : Nat) : Bytes :=
  if d = 0 then target else (anc[d - 1]?).getD target

/-- ReplaceIDs over the pre-order list, returning the final id map as well -/
def replaceIDsAux (fresh : Nat → Bytes) (target : Bytes) : RS → List Bytes → Flat → Flat × RS
  | s, _, [] => ([], s)
  | s, anc, (d, n) :: rest =>
    let r := replNode fresh s (parentAt target anc d) n
    let r2 := replaceIDsAux fresh target r.2 (anc.take d ++ [r.1.id]) rest
    ((d, r.1) :: r2.1, r2.2)

def replaceIDs (fresh : Nat → Bytes) (target : Bytes) (f : Flat) : Flat := (replaceIDsAux fresh target {} [] f).1

/-- checkIDs: every node's parent field names the node above it, no blank id -/
def checkIDs (target : Bytes) : List Bytes → Flat → Bool
  | _, [] => true
  | anc, (d, n) :: rest =>
    target != [] && n.parent == parentAt target anc d && n.id != [] && checkIDs target (anc.take d ++ [n.id]) rest

/-! ### import: sending the nodes -/

/-- the edge points carry a tombstone point (key "" or "0") -/
def hasTomb (eps : List Point) : Bool := eps.any (fun p => p.type == tombstoneT && (p.key == [] || p.key == zeroKey))

/-- SendNode on the store model: node points first, then the edge points — with a tombstone-0 point added when they
    carry no tombstone point (after the repair: before, only when there was no edge point at all) — and the node type
    appended. Zero times are stamped by the store: `now`. -/
def sendNode (st : St) (n : NodeRec) (now : Int) : Res St :=
  let stamp := fun (p : Point) => if p.time = 0 then { p with time := now } else p
  let eps := n.epts.map stamp ++ (if hasTomb n.epts then [] else [{ type := tombstoneT, time := now }]) ++
    [{ type := nodeTypeT, text := n.typ, time := now }]
  if n.id = [] then .err "id" else if n.parent = [] ∨ n.parent = noneS then .err "parent"
  else
    match nodePoints st n.id (n.pts.map stamp) with
    | .ok st1 => edgePoints st1 n.id n.parent eps
    | e => e

def sendAll : St → Flat → Int → Res St
  | st, [], _ => .ok st
  | st, (_, n) :: rest, now =>
    match sendNode st n now with
    | .ok st1 => sendAll st1 rest (now + 1)
    | e => e

/-- ImportNodes (parent ≠ "root"): the parent must exist; marker; ids checked or replaced; nodes sent in pre-order -/
def importNodes (isDel : Nat → Bool) (fresh : Nat → Bytes) (st : St) (target : Bytes) (f : Flat) (preserve : Bool) (now : Int) : Res St :=
  if ((Auth.live isDel st).find? (fun e => e.down == target)).isNone then .err "parent not found"
  else if f.isEmpty then .err "no nodes"
  else
    let f1 := prepTop target f
    if preserve then
      if checkIDs target [] f1 then sendAll st f1 now else .err "ids"
    else sendAll st (replaceIDs fresh target f1) now

/-! ### the tree a file describes -/
/-- the pre-order list the parent pointers of a file describe, from node `n` down: `n`, then the entries naming `n` as
    parent, in file order, each with its own subtree -/
def rebuild (f : Flat) : Nat → Nat → NodeRec → Flat
  | 0, _, _ => []
  | fuel + 1, d, n => (d, n) :: (f.filter (fun x => x.2.parent == n.id)).flatMap (fun x => rebuild f fuel (d + 1) x.2)


/-- a file that is the pre-order list of its own parent-pointer tree: traversing it from its first node gives it back
    (true of every file `ExportNodes` writes from a tree without mirrors; evaluated by the driver on every exported file) -/
def SelfRebuilding (f : Flat) : Bool :=
  match f with
  | [] => true
  | (d, n) :: _ => rebuild f (f.length + 1) d n == f


end Siot.Export
