import Siot.Model.Store
/-
Model of process death for the store (store/sqlite.go nodePoints / edgePoints): every batch is one SQLite
transaction, so what a re-opened file shows is the effect of a PREFIX of the batches the writer issued:
all acknowledged ones, plus possibly the one that was in flight (committed, reply not yet sent).
That a transaction is atomic and durable against process death (WAL, synchronous=NORMAL) is SQLite's
contract — the parameter of this model; that each batch IS one transaction is re-extracted from the
source on every run (Props/C04 gen_tx_pinned).
-/
namespace Siot.Crash
open Siot Siot.Store

/-- the store a re-opened file shows: `acked` batches were acknowledged when the writer died; the next one
    was either committed already or is absent altogether -/
def recovered (st0 : St) (ops : List WOp) (acked : Nat) (inflightCommitted : Bool) : St :=
  run st0 (ops.take (acked + if inflightCommitted then 1 else 0))

end Siot.Crash
