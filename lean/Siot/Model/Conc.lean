import Siot.Model.Store
/-
Model of concurrent use of the store (store/sqlite.go): writers hold `writeLock` for the whole transaction,
so the accepted batches take effect one after the other, in SOME order (the commit order); a read (WAL
snapshot) returns the store as it was after some prefix of that order, chosen between the read's invocation
and its response. Goroutine scheduling, the NATS bus and SQLite's locking are not modelled: a concurrent
run is represented by its commit order and by the prefix each read saw.
-/
namespace Siot.Conc
open Siot Siot.Store

/-- the store after the first `k` committed batches -/
def stateAt (st0 : St) (commits : List WOp) (k : Nat) : St := run st0 (commits.take k)

end Siot.Conc
