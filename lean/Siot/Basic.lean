/-
Shared basics for all models: byte strings, hex transport encoding, small helpers.
Core-only (no Mathlib) so the driver can be compiled as a `lean_exe`.
-/
namespace Siot

/-- Go strings and byte slices are modelled as lists of bytes. -/
abbrev Bytes := List UInt8

def hexDigit (n : Nat) : Char :=
  if n < 10 then Char.ofNat (48 + n) else Char.ofNat (87 + n)

def hexOfByte (b : UInt8) : String :=
  String.ofList [hexDigit (b.toNat / 16), hexDigit (b.toNat % 16)]

/-- hex transport form; the empty byte string is written `-` so that it stays a token -/
def toHex (bs : Bytes) : String :=
  if bs.isEmpty then "-" else String.join (bs.map hexOfByte)

def hexVal (c : Char) : Option Nat :=
  if '0' ≤ c ∧ c ≤ '9' then some (c.toNat - 48)
  else if 'a' ≤ c ∧ c ≤ 'f' then some (c.toNat - 87)
  else if 'A' ≤ c ∧ c ≤ 'F' then some (c.toNat - 55)
  else none

def ofHexChars : List Char → Option Bytes
  | [] => some []
  | [_] => none
  | a :: b :: rest => do
    let x ← hexVal a
    let y ← hexVal b
    let r ← ofHexChars rest
    pure (UInt8.ofNat (x * 16 + y) :: r)

def ofHex (s : String) : Option Bytes :=
  if s == "-" then some [] else ofHexChars s.toList

def strBytes (s : String) : Bytes := s.toUTF8.toList

/-- three-valued outcome of a Go call: value, returned error, or run-time panic -/
inductive Res (α : Type) where
  | ok (a : α)
  | err (e : String)
  | panic (m : String)
  deriving Repr, DecidableEq

instance : Monad Res where
  pure := .ok
  bind r f := match r with
    | .ok a => f a
    | .err e => .err e
    | .panic m => .panic m

def Res.map' {α β : Type} (r : Res α) (f : α → β) : Res β :=
  match r with | .ok a => .ok (f a) | .err e => .err e | .panic m => .panic m

def Res.isPanic : Res α → Bool
  | .panic _ => true
  | _ => false

def natToInt (n : Nat) : Int := Int.ofNat n

end Siot
