import Siot.Spec.Window
namespace Siot.Schedule
open Siot

theorem datesFor_ok (r : Range) (ds : List Bytes) (h : ∀ d ∈ ds, parseDate d ≠ none) :
    ∃ l, datesFor r ds = .ok l ∧ (∀ x ∈ l, x = r) ∧
      (l ≠ [] ↔ ∃ d ∈ ds, parseDate d = some (civil (dayOf r.start))) := by
  induction ds with
  | nil => exact ⟨[], rfl, by simp, by simp⟩
  | cons d ds ih =>
    obtain ⟨l, hl, hall, hne⟩ := ih (fun x hx => h x (by simp [hx]))
    have hd := h d (by simp)
    cases hp : parseDate d with
    | none => exact absurd hp hd
    | some ymd =>
      simp only [datesFor, hp, hl]
      by_cases hc : ymd = civil (dayOf r.start)
      · refine ⟨r :: l, by simp [hc], ?_, ?_⟩
        · intro x hx; simp at hx; rcases hx with rfl | hx; rfl; exact hall x hx
        · simp only [ne_eq, reduceCtorEq, not_false_eq_true, List.mem_cons, true_iff]
          exact ⟨d, Or.inl rfl, by rw [hp, hc]⟩
      · refine ⟨l, by simp [hc], hall, ?_⟩
        rw [hne]; simp only [List.mem_cons]
        constructor
        · rintro ⟨d', hd', hpd⟩; exact ⟨d', Or.inr hd', hpd⟩
        · rintro ⟨d', hd' | hd', hpd⟩
          · subst hd'; rw [hp] at hpd; injection hpd with hpd; exact absurd hpd hc
          · exact ⟨d', hd', hpd⟩

theorem filterDatesLoop_ok (dates : List Bytes) (rs : List Range)
    (h : ∀ d ∈ dates, parseDate d ≠ none) :
    ∃ l, filterDatesLoop dates rs = .ok l ∧
      ∀ x, x ∈ l ↔ x ∈ rs ∧ ∃ d ∈ dates, parseDate d = some (civil (dayOf x.start)) := by
  induction rs with
  | nil => exact ⟨[], rfl, by simp⟩
  | cons r rs ih =>
    obtain ⟨b, hb, hbm⟩ := ih
    obtain ⟨a, ha, hall, hne⟩ := datesFor_ok r dates h
    refine ⟨a ++ b, by simp [filterDatesLoop, ha, hb], ?_⟩
    intro x
    simp only [List.mem_append, List.mem_cons, hbm]
    constructor
    · rintro (hx | ⟨hx, hd⟩)
      · have := hall x hx; subst this
        exact ⟨Or.inl rfl, hne.mp (List.ne_nil_of_mem hx)⟩
      · exact ⟨Or.inr hx, hd⟩
    · rintro ⟨rfl | hx, hd⟩
      · left
        have hane := hne.mpr hd
        obtain ⟨y, hy⟩ := List.exists_mem_of_ne_nil a hane
        have := hall y hy; subst this; exact hy
      · exact Or.inr ⟨hx, hd⟩

def dateOK (dates : List Bytes) (r : Range) : Prop :=
  dates = [] ∨ ∃ d ∈ dates, parseDate d = some (civil (dayOf r.start))

def wdOK (wds : List Int) (r : Range) : Prop :=
  wds = [] ∨ weekday (dayOf r.start) ∈ wds

theorem filterDates_ok (dates : List Bytes) (rs : List Range)
    (h : ∀ d ∈ dates, parseDate d ≠ none) :
    ∃ l, filterDates dates rs = .ok l ∧ ∀ x, x ∈ l ↔ x ∈ rs ∧ dateOK dates x := by
  unfold filterDates dateOK
  cases dates with
  | nil => exact ⟨rs, by simp, by simp⟩
  | cons d ds =>
    obtain ⟨l, hl, hm⟩ := filterDatesLoop_ok (d :: ds) rs h
    exact ⟨l, by simp [hl], by intro x; rw [hm]; simp⟩

theorem filterWeekdays_mem (wds : List Int) (rs : List Range) (x : Range) :
    x ∈ filterWeekdays wds rs ↔ x ∈ rs ∧ wdOK wds x := by
  unfold filterWeekdays wdOK
  cases wds with
  | nil => simp
  | cons w ws => simp

/-- characterisation of the model under parsable inputs -/
theorem active_char (s : Sched) (t : Int) (sh sm eh em : Nat)
    (hs : parseHM s.start = some (sh, sm)) (he : parseHM s.stop = some (eh, em))
    (hd : ∀ d ∈ s.dates, parseDate d ≠ none) :
    ∃ b, activeForTime s t = .ok b ∧
      (b = true ↔ ∃ r ∈ (let start := dayOf t * dayNs + (sh : Int) * hourNs + (sm : Int) * minNs
                          let stop := dayOf t * dayNs + (eh : Int) * hourNs + (em : Int) * minNs
                          if start < stop then [(⟨start, stop⟩ : Range)]
                          else [⟨start, stop + dayNs⟩, ⟨start - dayNs, stop⟩]),
                    wdOK s.weekdays r ∧ dateOK s.dates r ∧ r.contains t = true) := by
  unfold activeForTime
  simp only [hs, he]
  generalize hrs : (if dayOf t * dayNs + (sh : Int) * hourNs + (sm : Int) * minNs <
        dayOf t * dayNs + (eh : Int) * hourNs + (em : Int) * minNs then
        [(⟨dayOf t * dayNs + (sh : Int) * hourNs + (sm : Int) * minNs,
            dayOf t * dayNs + (eh : Int) * hourNs + (em : Int) * minNs⟩ : Range)]
      else [⟨dayOf t * dayNs + (sh : Int) * hourNs + (sm : Int) * minNs,
              dayOf t * dayNs + (eh : Int) * hourNs + (em : Int) * minNs + dayNs⟩,
            ⟨dayOf t * dayNs + (sh : Int) * hourNs + (sm : Int) * minNs - dayNs,
              dayOf t * dayNs + (eh : Int) * hourNs + (em : Int) * minNs⟩]) = rs
  obtain ⟨l, hl, hm⟩ := filterDates_ok s.dates (filterWeekdays s.weekdays rs) hd
  refine ⟨l.any (fun r => r.contains t), by simp [hl], ?_⟩
  simp only [List.any_eq_true]
  constructor
  · rintro ⟨r, hr, hc⟩
    rw [hm, filterWeekdays_mem] at hr
    exact ⟨r, hr.1.1, hr.1.2, hr.2, hc⟩
  · rintro ⟨r, hr, hw, hdt, hc⟩
    exact ⟨r, by rw [hm, filterWeekdays_mem]; exact ⟨⟨hr, hw⟩, hdt⟩, hc⟩

end Siot.Schedule

namespace Siot.Schedule
theorem contains_iff (r : Range) (t : Int) : r.contains t = true ↔ r.start ≤ t ∧ t < r.stop := by
  unfold Range.contains
  split
  · simp; omega
  · split
    · simp; omega
    · split
      · simp; omega
      · simp; omega
end Siot.Schedule
