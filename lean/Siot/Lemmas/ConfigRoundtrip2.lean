import Siot.Lemmas.ConfigRoundtrip
namespace Siot.Config
open Siot

/-! ### maps -/
inductive MapPts (N : Num) (pt : Bytes) (k : SKind) : List Point → List (Bytes × SVal) → Prop
  | nil : MapPts N pt k [] []
  | cons (p : Point) (ps : List Point) (key : Bytes) (v : SVal) (kvs : List (Bytes × SVal)) :
      p.type = pt → p.key = key → p.tomb = 0 → setScalar N k p = .ok v →
      MapPts N pt k ps kvs → MapPts N pt k (p :: ps) ((key, v) :: kvs)

theorem encMap_spec (N : Num) (hN : NumLaws N) (pt : Bytes) (k : SKind) :
    ∀ (kvs : List (Bytes × SVal)), (∀ kv ∈ kvs, SOk k kv.2) →
      ∃ ps, encMap N pt k kvs = .ok ps ∧ MapPts N pt k ps kvs := by
  intro kvs
  induction kvs with
  | nil => intro _; exact ⟨[], rfl, .nil⟩
  | cons kv kvs ih =>
    intro h
    obtain ⟨key, v⟩ := kv
    obtain ⟨p, hp, ht, hk, htb, hs⟩ := keyed_setScalar N hN pt key k v (h (key, v) (by simp))
    obtain ⟨ps, hps, hall⟩ := ih (fun x hx => h x (by simp [hx]))
    exact ⟨p :: ps, by simp [encMap, hp, hps], .cons p ps key v kvs ht hk htb hs hall⟩

theorem MapPts.types {N : Num} {pt : Bytes} {k : SKind} {ps : List Point} {kvs : List (Bytes × SVal)}
    (h : MapPts N pt k ps kvs) : (∀ p ∈ ps, p.type = pt) ∧ ps.length = kvs.length := by
  induction h with
  | nil => exact ⟨fun p hp => absurd hp List.not_mem_nil, rfl⟩
  | cons p _ _ _ _ ht _ _ _ _ ih =>
    refine ⟨?_, by simp [ih.2]⟩
    intro q hq
    simp only [List.mem_cons] at hq
    rcases hq with rfl | hq
    · exact ht
    · exact ih.1 q hq

theorem setKey_fresh (acc : List (Bytes × SVal)) (key : Bytes) (v : SVal) (h : ∀ kv ∈ acc, kv.1 ≠ key) :
    setKey acc key v = acc ++ [(key, v)] := by
  unfold setKey
  have : acc.any (fun kv => kv.1 == key) = false := by
    rw [List.any_eq_false]
    intro kv hkv
    simpa using h kv hkv
  rw [this]; rfl

theorem setMap_enc (N : Num) (pt : Bytes) (k : SKind) :
    ∀ (ps : List Point) (kvs : List (Bytes × SVal)), MapPts N pt k ps kvs →
      (∀ kv ∈ kvs, kv.1 ≠ []) → (kvs.map (·.1)).Nodup →
      ∀ acc : List (Bytes × SVal), (∀ a ∈ acc, ∀ kv ∈ kvs, a.1 ≠ kv.1) →
        setMap N k ps acc = (acc ++ kvs, .ok) := by
  intro ps kvs h
  induction h with
  | nil => intro _ _ acc _; simp [setMap]
  | cons p ps key v kvs ht hk htb hs hrest ih =>
    intro hne hnd acc hacc
    have hkne : key ≠ [] := hne (key, v) (by simp)
    have hkey : (if p.key.isEmpty then ([48] : Bytes) else p.key) = key := by
      rw [hk]
      cases key with
      | nil => exact absurd rfl hkne
      | cons _ _ => rfl
    simp only [setMap, hkey, htb, tombOdd_zero, Bool.false_eq_true, if_false, hs]
    rw [setKey_fresh acc key v (fun a ha => hacc a ha (key, v) (by simp))]
    simp only [List.map_cons, List.nodup_cons] at hnd
    rw [ih (fun kv hkv => hne kv (by simp [hkv])) hnd.2 (acc ++ [(key, v)]) ?_]
    · simp
    · intro a ha kv hkv
      simp only [List.mem_append, List.mem_singleton] at ha
      rcases ha with ha | rfl
      · exact hacc a ha kv (by simp [hkv])
      · intro heq
        exact hnd.1 (by simp only [List.mem_map]; exact ⟨kv, hkv, heq.symm⟩)

/-! ### flat structs -/
inductive StructPts (N : Num) (pt : Bytes) : List Point → List (Bytes × SKind) → List SVal → Prop
  | nil : StructPts N pt [] [] []
  | cons (p : Point) (ps : List Point) (key : Bytes) (k : SKind) (fs : List (Bytes × SKind)) (v : SVal) (vs : List SVal) :
      p.type = pt → p.key = key → p.tomb = 0 → setScalar N k p = .ok v →
      StructPts N pt ps fs vs → StructPts N pt (p :: ps) ((key, k) :: fs) (v :: vs)

theorem encStruct_spec (N : Num) (hN : NumLaws N) (pt : Bytes) :
    ∀ (fs : List (Bytes × SKind)) (vs : List SVal), fs.length = vs.length →
      (∀ fv ∈ fs.zip vs, SOk fv.1.2 fv.2) →
      ∃ ps, encStruct N pt fs vs = .ok ps ∧ StructPts N pt ps fs vs := by
  intro fs
  induction fs with
  | nil => intro vs hl _; cases vs with
    | nil => exact ⟨[], rfl, .nil⟩
    | cons _ _ => simp at hl
  | cons f fs ih =>
    intro vs hl h
    cases vs with
    | nil => simp at hl
    | cons v vs =>
      obtain ⟨key, k⟩ := f
      obtain ⟨p, hp, ht, hk, htb, hs⟩ := keyed_setScalar N hN pt key k v (h ((key, k), v) (by simp))
      obtain ⟨ps, hps, hall⟩ := ih vs (by simpa using hl) (fun x hx => h x (by simp [hx]))
      exact ⟨p :: ps, by simp [encStruct, hp, hps], .cons p ps key k fs v vs ht hk htb hs hall⟩

theorem StructPts.facts {N : Num} {pt : Bytes} {ps : List Point} {fs : List (Bytes × SKind)} {vs : List SVal}
    (h : StructPts N pt ps fs vs) :
    (∀ p ∈ ps, p.type = pt ∧ p.tomb = 0) ∧ ps.map (·.key) = fs.map (·.1) ∧ fs.length = vs.length := by
  induction h with
  | nil => exact ⟨fun p hp => absurd hp List.not_mem_nil, rfl, rfl⟩
  | cons p _ _ _ _ _ _ ht hk htb _ _ ih =>
    refine ⟨?_, by simp [hk, ih.2.1], by simp [ih.2.2]⟩
    intro q hq
    simp only [List.mem_cons] at hq
    rcases hq with rfl | hq
    · exact ⟨ht, htb⟩
    · exact ih.1 q hq

theorem eq_of_map_nodup {α β : Type} (f : α → β) :
    ∀ (l : List α), (l.map f).Nodup → ∀ a b, a ∈ l → b ∈ l → f a = f b → a = b := by
  intro l
  induction l with
  | nil => intro _ a b ha; cases ha
  | cons x l ih =>
    intro hnd a b ha hb hf
    simp only [List.map_cons, List.nodup_cons] at hnd
    simp only [List.mem_cons] at ha hb
    rcases ha with rfl | ha <;> rcases hb with rfl | hb
    · rfl
    · exact absurd (hf ▸ List.mem_map_of_mem (f := f) hb) hnd.1
    · exact absurd (hf.symm ▸ List.mem_map_of_mem (f := f) ha) hnd.1
    · exact ih hnd.2 a b ha hb hf

/-- the only element satisfying a predicate is the one `find?` returns -/
theorem find_unique {α : Type} (pred : α → Bool) (x : α) :
    ∀ (l : List α), x ∈ l → pred x = true → (∀ y ∈ l, pred y = true → y = x) → l.find? pred = some x := by
  intro l
  induction l with
  | nil => intro h; cases h
  | cons a l ih =>
    intro hx hp hu
    simp only [List.find?]
    cases ha : pred a with
    | true => simp; exact hu a (by simp) ha
    | false =>
      simp only []
      have hxl : x ∈ l := by
        simp only [List.mem_cons] at hx
        rcases hx with rfl | hx
        · rw [hp] at ha; cases ha
        · exact hx
      exact ih hxl hp (fun y hy => hu y (by simp [hy]))

theorem setStruct_enc (N : Num) (pt : Bytes) (all : List Point) :
    ∀ (ps : List Point) (fs : List (Bytes × SKind)) (vs : List SVal), StructPts N pt ps fs vs →
      (∀ p ∈ ps, p ∈ all) → (all.map (·.key)).Nodup →
      ∀ cur : List SVal, cur.length = fs.length → setStruct N all fs cur = (vs, .ok) := by
  intro ps fs vs h
  induction h with
  | nil => intro _ _ cur hc; have : cur = [] := List.eq_nil_of_length_eq_zero (by simpa using hc); subst this; rfl
  | cons p ps key k fs v vs ht hk htb hs hrest ih =>
    intro hsub hnd cur hc
    cases cur with
    | nil => simp at hc
    | cons c cur =>
      have hp : p ∈ all := hsub p (by simp)
      have hfind : all.reverse.find? (fun q => q.key == key) = some p := by
        apply find_unique _ p _ (by simpa using hp) (by simp [hk])
        intro y hy hyk
        have hy' : y ∈ all := by simpa using hy
        have hyk' : y.key = p.key := by rw [hk]; simpa using hyk
        exact eq_of_map_nodup (·.key) all hnd y p hy' hp hyk'
      simp only [setStruct, hfind, hs]
      rw [ih (fun q hq => hsub q (by simp [hq])) hnd cur (by simpa using hc)]

end Siot.Config
