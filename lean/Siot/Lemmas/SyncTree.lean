import Siot.Lemmas.SyncExchange
import Siot.Lemmas.ExportStore
/-
C02, whole subtrees: the catch-up pass on two stores that hold the same nodes below a node `n` (no node missing on
either side, no mirrors).  Part 1: the tree of a store as its list of edge shapes, which point writes never change.
-/
namespace Siot.Sync
open Siot Siot.Store Siot.Export

abbrev Sh := Bytes × Bytes × Bytes          -- (up, down, type) of an edge

def shapes (st : St) : List Sh := st.edges.map shape

/-- `y` is `a` or below it, `d` edges down -/
inductive BelowD (K : List Sh) (a : Bytes) : Nat → Bytes → Prop
  | refl : BelowD K a 0 a
  | step (k : Sh) (d : Nat) : k ∈ K → BelowD K a d k.1 → BelowD K a (d + 1) k.2.1

def Below (K : List Sh) (a y : Bytes) : Prop := ∃ d, BelowD K a d y

theorem Below.refl (K : List Sh) (a : Bytes) : Below K a a := ⟨0, .refl⟩

theorem Below.step {K : List Sh} {a : Bytes} (k : Sh) (hk : k ∈ K) (h : Below K a k.1) : Below K a k.2.1 := by
  obtain ⟨d, hd⟩ := h
  exact ⟨d + 1, .step k d hk hd⟩

theorem BelowD.trans {K : List Sh} {a b y : Bytes} {d1 d2 : Nat} (h1 : BelowD K a d1 b) (h2 : BelowD K b d2 y) : BelowD K a (d1 + d2) y := by
  induction h2 with
  | refl => exact h1
  | step k d hk _ ih => exact BelowD.step k (d1 + d) hk ih

theorem Below.trans {K : List Sh} {a b y : Bytes} (h1 : Below K a b) (h2 : Below K b y) : Below K a y := by
  obtain ⟨d1, h1⟩ := h1
  obtain ⟨d2, h2⟩ := h2
  exact ⟨d1 + d2, h1.trans h2⟩

/-- a path of `d + 1` edges starts with an edge out of `a` -/
theorem BelowD.top {K : List Sh} {a y : Bytes} {d : Nat} (h : BelowD K a (d + 1) y) :
    ∃ k ∈ K, k.1 = a ∧ BelowD K k.2.1 d y := by
  generalize hd : d + 1 = d' at h
  induction h generalizing d with
  | refl => omega
  | step k d0 hk hprev ih =>
    have : d0 = d := by omega
    subst this
    cases d0 with
    | zero =>
      cases hprev with
      | refl => exact ⟨k, hk, rfl, .refl⟩
    | succ d1 =>
      obtain ⟨k0, hk0, hka, hrest⟩ := ih rfl
      exact ⟨k0, hk0, hka, .step k d1 hk hrest⟩

/-- the edges form a forest: a rank grows along every edge (no cycle), no node below two edges (no mirrors) -/
structure TreeK (K : List Sh) : Prop where
  rank : ∃ r : Bytes → Nat, ∀ k ∈ K, r k.1 < r k.2.1
  single : K.Pairwise (fun a b => a.2.1 ≠ b.2.1)

theorem Below.rank_le {K : List Sh} (r : Bytes → Nat) (hr : ∀ k ∈ K, r k.1 < r k.2.1) {a y : Bytes} (h : Below K a y) : r a ≤ r y := by
  obtain ⟨d, h⟩ := h
  induction h with
  | refl => exact Nat.le_refl _
  | step k d hk _ ih => exact Nat.le_of_lt (Nat.lt_of_le_of_lt ih (hr k hk))

theorem singleK_eq : ∀ (K : List Sh), K.Pairwise (fun a b => a.2.1 ≠ b.2.1) → ∀ a b, a ∈ K → b ∈ K → a.2.1 = b.2.1 → a = b := by
  intro K
  induction K with
  | nil => intro _ a _ ha; cases ha
  | cons x l ih =>
    intro h a b ha hb hd
    rw [List.pairwise_cons] at h
    simp only [List.mem_cons] at ha hb
    rcases ha with rfl | ha <;> rcases hb with rfl | hb
    · rfl
    · exact absurd hd (h.1 b hb)
    · exact absurd hd.symm (h.1 a ha)
    · exact ih h.2 a b ha hb hd

theorem Below.inv {K : List Sh} {a y : Bytes} (h : Below K a y) : y = a ∨ ∃ k ∈ K, k.2.1 = y ∧ Below K a k.1 := by
  obtain ⟨d, h⟩ := h
  cases h with
  | refl => exact Or.inl rfl
  | step k d hk hprev => exact Or.inr ⟨k, hk, rfl, ⟨d, hprev⟩⟩

/-- a node is not below its own child -/
theorem Below.not_up {K : List Sh} (ht : TreeK K) (k : Sh) (hk : k ∈ K) : ¬ Below K k.2.1 k.1 := by
  obtain ⟨r, hr⟩ := ht.rank
  intro h
  have := h.rank_le r hr
  have := hr k hk
  omega

/-- two different children of one node have nothing in common below them -/
theorem Below.siblings {K : List Sh} (ht : TreeK K) (c1 c2 : Sh) (h1 : c1 ∈ K) (h2 : c2 ∈ K) (hup : c1.1 = c2.1) (hne : c1 ≠ c2)
    {y : Bytes} (d1 : Below K c1.2.1 y) : Below K c2.2.1 y → False := by
  obtain ⟨r, hr⟩ := ht.rank
  have hru := congrArg r hup
  obtain ⟨n1, d1⟩ := d1
  induction d1 with
  | refl =>
    intro d2
    rcases d2.inv with h | ⟨c, hc, hd, dc⟩
    · exact hne (singleK_eq K ht.single c1 c2 h1 h2 h)
    · have : c = c1 := singleK_eq K ht.single c c1 hc h1 hd
      subst this
      have := dc.rank_le r hr
      have := hr c2 h2
      omega
  | step c n0 hc dc ih =>
    intro d2
    rcases d2.inv with h | ⟨c', hc', hd, dc'⟩
    · have : c = c2 := singleK_eq K ht.single c c2 hc h2 h
      subst this
      have := Below.rank_le r hr (⟨n0, dc⟩ : Below K c1.2.1 c.1)
      have := hr c1 h1
      omega
    · have : c' = c := singleK_eq K ht.single c' c hc' hc hd
      subst this
      exact ih dc'

/-! ### what point writes leave alone -/

theorem nodePoints_frame (st st' : St) (id : Bytes) (pts : List Point) (h : nodePoints st id pts = .ok st') :
    shapes st' = shapes st ∧ st'.root = st.root ∧ st'.edgePts = st.edgePts := by
  unfold nodePoints at h
  split at h
  · cases h
  · simp only [] at h
    injection h with h
    rw [← h]
    exact ⟨bump_shape _ _ _ _, rfl, rfl⟩

theorem tryNP_frame (st : St) (id : Bytes) (pts : List Point) :
    shapes (tryNP st id pts) = shapes st ∧ (tryNP st id pts).root = st.root ∧ (tryNP st id pts).edgePts = st.edgePts := by
  unfold tryNP
  cases h : nodePoints st id pts with
  | ok st' => exact nodePoints_frame st st' id pts h
  | err e => exact ⟨rfl, rfl, rfl⟩
  | panic e => exact ⟨rfl, rfl, rfl⟩

theorem tryNP_other (st : St) (id : Bytes) (pts : List Point) (m : Bytes) (hm : m ≠ id) : ptsOf (tryNP st id pts) m = ptsOf st m := by
  unfold tryNP
  cases h : nodePoints st id pts with
  | ok st' =>
    have := c01_nodePoints_rows st st' id pts h m
    simpa [hm] using this
  | err e => rfl
  | panic e => rfl

/-- the store holds the same for node `m` — its points and the points of every edge into it — in `st'` as in `st` -/
def Same (st st' : St) (m : Bytes) : Prop := ptsOf st' m = ptsOf st m ∧ ∀ u, eptsOf st' u m = eptsOf st u m

theorem Same.refl (st : St) (m : Bytes) : Same st st m := ⟨rfl, fun _ => rfl⟩
theorem Same.trans {a b c : St} {m : Bytes} (h1 : Same a b m) (h2 : Same b c m) : Same a c m :=
  ⟨h2.1.trans h1.1, fun u => (h2.2 u).trans (h1.2 u)⟩

theorem tryNP_same (st : St) (id : Bytes) (pts : List Point) (m : Bytes) (hm : m ≠ id) : Same st (tryNP st id pts) m := by
  refine ⟨tryNP_other st id pts m hm, fun u => ?_⟩
  unfold eptsOf
  rw [(tryNP_frame st id pts).2.2]

/-- edge points written to an edge that exists change no shape and no root -/
theorem tryEP_frame (st : St) (id parent : Bytes) (pts : List Point) (hp : parent ≠ [])
    (hex : ∃ e ∈ st.edges, e.up = parent ∧ e.down = id) :
    shapes (tryEP st id parent pts) = shapes st ∧ (tryEP st id parent pts).root = st.root := by
  unfold tryEP
  cases h : edgePoints st id parent pts with
  | err e => exact ⟨rfl, rfl⟩
  | panic e => exact ⟨rfl, rfl⟩
  | ok st' =>
    simp only []
    unfold edgePoints at h
    split at h
    · cases h
    · split at h
      · cases h
      · split at h
        · cases h
        · have hpe : parent.isEmpty = false := by
            cases parent with
            | nil => exact absurd rfl hp
            | cons _ _ => rfl
          simp only [hpe, Bool.false_eq_true, if_false] at h
          unfold edgePointsCore at h
          simp only [] at h
          obtain ⟨e, he, heu, hed⟩ := hex
          cases hfind : st.edges.find? (fun e => e.up == parent && e.down == id) with
          | none =>
            exfalso
            have := List.find?_eq_none.mp hfind e he
            simp [heu, hed] at this
          | some e0 =>
            simp only [hfind] at h
            injection h with h
            rw [← h]
            refine ⟨?_, rfl⟩
            unfold edgeWrite shapes
            simp only []
            rw [bump_shape, List.map_map]
            apply List.map_congr_left
            intro x _
            simp only [Function.comp, shape]
            split <;> rfl

/-! ### the pass at a node that both stores hold -/

theorem getNodes_pair (st : St) (p id : Bytes) (hp1 : p ≠ rootS) (hp2 : p ≠ allS) (hi : id ≠ allS) :
    getNodes st p id true = (st.edges.filter (fun e => e.up == p && e.down == id)).map (neOf st) := by
  unfold getNodes
  simp only [hp1, hp2, hi, if_false, Bool.true_or]
  exact List.filter_eq_self.mpr (fun _ _ => rfl)

theorem getNodes_kids (st : St) (p : Bytes) (hp1 : p ≠ rootS) (hp2 : p ≠ allS) :
    getNodes st p allS true = (st.edges.filter (fun e => e.up == p)).map (neOf st) := by
  unfold getNodes
  simp only [hp1, hp2, if_false, if_true, Bool.true_or]
  exact List.filter_eq_self.mpr (fun _ _ => rfl)

theorem shapes_mem (st : St) (k : Sh) (hk : k ∈ shapes st) : ∃ e ∈ st.edges, e.up = k.1 ∧ e.down = k.2.1 ∧ e.typ = k.2.2 := by
  unfold shapes at hk
  simp only [List.mem_map] at hk
  obtain ⟨e, he, rfl⟩ := hk
  exact ⟨e, he, rfl, rfl, rfl⟩

theorem mem_shapes (st : St) (e : Edge) (he : e ∈ st.edges) : shape e ∈ shapes st := List.mem_map_of_mem (f := shape) he

/-- a non-empty filter as head and tail -/
theorem filter_cons_of_mem {α} (l : List α) (q : α → Bool) (a : α) (ha : a ∈ l) (hq : q a = true) :
    ∃ b rest, l.filter q = b :: rest ∧ b ∈ l ∧ q b = true := by
  cases h : l.filter q with
  | nil =>
    exfalso
    have := List.filter_eq_nil_iff.mp h a ha
    exact this hq
  | cons b rest =>
    have hb : b ∈ l.filter q := by rw [h]; exact List.mem_cons_self ..
    exact ⟨b, rest, rfl, (List.mem_filter.mp hb).1, (List.mem_filter.mp hb).2⟩

structure Good (KA KB : List Sh) (rootA rootB : Bytes) (s : Pair) : Prop where
  sa : shapes s.a = KA
  sb : shapes s.b = KB
  ra : s.a.root = rootA
  rb : s.b.root = rootB
  ia : Inv s.a
  ib : Inv s.b

/-- one step of `syncNode` at a node held by both stores that is neither the local root nor specially named -/
theorem syncNode_step (wall : Int → Int) (fuel : Nat) (KA KB : List Sh) (rootA rootB : Bytes) (s : Pair) (hg : Good KA KB rootA rootB s)
    (p n : Bytes) (ta tb : Bytes) (hka : (p, n, ta) ∈ KA) (hkb : (p, n, tb) ∈ KB)
    (hp1 : p ≠ rootS) (hp2 : p ≠ allS) (hn1 : n ≠ allS) (hn2 : n ≠ rootA) :
    ∃ ea ∈ s.a.edges, ∃ eb ∈ s.b.edges, ea.up = p ∧ ea.down = n ∧ eb.up = p ∧ eb.down = n ∧
      syncNode wall (fuel + 1) s p n =
        if ea.hash = eb.hash then s
        else syncChildren wall (syncNode wall fuel) (syncExchange s (neOf s.a ea) (neOf s.b eb)) (neOf s.a ea) (neOf s.b eb) := by
  obtain ⟨ea0, hea0, hu0, hd0, _⟩ := shapes_mem s.a (p, n, ta) (hg.sa ▸ hka)
  obtain ⟨eb0, heb0, hub0, hdb0, _⟩ := shapes_mem s.b (p, n, tb) (hg.sb ▸ hkb)
  obtain ⟨ea, ra, hfa, hea, hqa⟩ := filter_cons_of_mem s.a.edges (fun e => e.up == p && e.down == n) ea0 hea0 (by simp [hu0, hd0])
  obtain ⟨eb, rb, hfb, heb, hqb⟩ := filter_cons_of_mem s.b.edges (fun e => e.up == p && e.down == n) eb0 heb0 (by simp [hub0, hdb0])
  simp only [Bool.and_eq_true, beq_iff_eq] at hqa hqb
  refine ⟨ea, hea, eb, heb, hqa.1, hqa.2, hqb.1, hqb.2, ?_⟩
  have hroot : ((neOf s.a ea).id == s.a.root) = false := by
    simp only [neOf, hqa.2, hg.ra, beq_eq_false_iff_ne, ne_eq]; exact hn2
  simp only [syncNode, hp1, if_false, getNodes_pair _ p n hp1 hp2 hn1, hfa, hfb, List.map_cons]
  have hdel : deletedUpstream s (neOf s.a ea) (neOf s.b eb :: rb.map (neOf s.b)) = false := by
    unfold deletedUpstream
    rw [hroot, Bool.and_false]
  simp only [hdel, Bool.false_eq_true, if_false, hroot, cmpHash]
  rfl

/-! ### the exchange at a node touches that node only -/

theorem tryEP_frame' (st : St) (id parent : Bytes) (pts : List Point) (hp : parent ≠ [])
    (hex : ∃ k ∈ shapes st, k.1 = parent ∧ k.2.1 = id) :
    shapes (tryEP st id parent pts) = shapes st ∧ (tryEP st id parent pts).root = st.root := by
  obtain ⟨k, hk, h1, h2⟩ := hex
  obtain ⟨e, he, hu, hd, _⟩ := shapes_mem st k hk
  exact tryEP_frame st id parent pts hp ⟨e, he, hu.trans h1, hd.trans h2⟩

/-- edge points written to an existing edge (parent, id) change nothing that the store holds for another node -/
theorem tryEP_same (st : St) (id parent : Bytes) (pts : List Point) (m : Bytes) (hm : m ≠ id) : Same st (tryEP st id parent pts) m := by
  refine ⟨by unfold ptsOf; rw [tryEP_nodePts], fun u => ?_⟩
  unfold tryEP
  cases h : edgePoints st id parent pts with
  | err e => rfl
  | panic e => rfl
  | ok st' =>
    simp only []
    unfold edgePoints at h
    split at h
    · cases h
    · split at h
      · cases h
      · split at h
        · cases h
        · generalize (if parent.isEmpty then rootS else parent) = par at h
          unfold edgePointsCore at h
          simp only [] at h
          split at h
          · injection h with h
            rw [← h]
            unfold edgeWrite eptsOf
            simp only []
            have := eptsOf_write st (par, id) (mergeBatch (eptsOf st par id)
              ((collapse (pts.map normPoint)).filter (fun p => p.type != nodeTypeT))).1 (u, m)
            simp only [eptsOf] at this
            rw [this, if_neg (fun hk => hm (by injection hk))]
          · split at h
            · cases h
            · split at h
              · cases h
              · injection h with h
                rw [← h]
                unfold edgeInsert eptsOf
                simp only []
                rw [List.filter_append]
                have : (List.map (fun p => ((par, id), p))
                    (mergeBatch [] ((collapse (pts.map normPoint)).filter (fun p => p.type != nodeTypeT))).1).filter (fun r => r.1 == (u, m)) = [] := by
                  rw [List.filter_eq_nil_iff]
                  intro r hr
                  simp only [List.mem_map] at hr
                  obtain ⟨q, _, rfl⟩ := hr
                  simp only [beq_iff_eq, Prod.mk.injEq, not_and]
                  intro _ h2
                  exact hm h2.symm
                rw [this, List.append_nil]

theorem foldl_tryNP_frame : ∀ (pts : List Point) (st : St) (id : Bytes),
    shapes (pts.foldl (fun a p => tryNP a id [p]) st) = shapes st ∧ (pts.foldl (fun a p => tryNP a id [p]) st).root = st.root ∧
    (pts.foldl (fun a p => tryNP a id [p]) st).edgePts = st.edgePts ∧
    ∀ m, m ≠ id → Same st (pts.foldl (fun a p => tryNP a id [p]) st) m := by
  intro pts
  induction pts with
  | nil => intro st id; exact ⟨rfl, rfl, rfl, fun m _ => Same.refl st m⟩
  | cons p ps ih =>
    intro st id
    simp only [List.foldl_cons]
    obtain ⟨h1, h2, h3, h4⟩ := ih (tryNP st id [p]) id
    obtain ⟨f1, f2, f3⟩ := tryNP_frame st id [p]
    exact ⟨h1.trans f1, h2.trans f2, h3.trans f3, fun m hm => (tryNP_same st id [p] m hm).trans (h4 m hm)⟩

theorem foldl_tryEP_frame : ∀ (pts : List Point) (st : St) (id parent : Bytes), parent ≠ [] →
    (∃ k ∈ shapes st, k.1 = parent ∧ k.2.1 = id) →
    shapes (pts.foldl (fun a p => tryEP a id parent [p]) st) = shapes st ∧ (pts.foldl (fun a p => tryEP a id parent [p]) st).root = st.root ∧
    ∀ m, m ≠ id → Same st (pts.foldl (fun a p => tryEP a id parent [p]) st) m := by
  intro pts
  induction pts with
  | nil => intro st id parent _ _; exact ⟨rfl, rfl, fun m _ => Same.refl st m⟩
  | cons p ps ih =>
    intro st id parent hp hex
    simp only [List.foldl_cons]
    obtain ⟨f1, f2⟩ := tryEP_frame' st id parent [p] hp hex
    obtain ⟨h1, h2, h3⟩ := ih (tryEP st id parent [p]) id parent hp (by rw [f1]; exact hex)
    exact ⟨h1.trans f1, h2.trans f2, fun m hm => (tryEP_same st id parent [p] m hm).trans (h3 m hm)⟩

theorem syncExchange_frame (s : Pair) (ea eb : Edge) (p n : Bytes) (hea : ea ∈ s.a.edges) (heb : eb ∈ s.b.edges)
    (hu : ea.up = p) (hd : ea.down = n) (hub : eb.up = p) (hdb : eb.down = n) (hp : p ≠ []) :
    shapes (syncExchange s (neOf s.a ea) (neOf s.b eb)).a = shapes s.a ∧
    shapes (syncExchange s (neOf s.a ea) (neOf s.b eb)).b = shapes s.b ∧
    (syncExchange s (neOf s.a ea) (neOf s.b eb)).a.root = s.a.root ∧
    (syncExchange s (neOf s.a ea) (neOf s.b eb)).b.root = s.b.root ∧
    (∀ m, m ≠ n → Same s.a (syncExchange s (neOf s.a ea) (neOf s.b eb)).a m ∧
                   Same s.b (syncExchange s (neOf s.a ea) (neOf s.b eb)).b m) := by
  have hexa : ∃ k ∈ shapes s.a, k.1 = p ∧ k.2.1 = n := ⟨shape ea, mem_shapes s.a ea hea, hu, hd⟩
  have hexb : ∃ k ∈ shapes s.b, k.1 = p ∧ k.2.1 = n := ⟨shape eb, mem_shapes s.b eb heb, hub, hdb⟩
  unfold syncExchange
  simp only [neOf, hu, hd, hub, hdb]
  generalize (syncPts (ptsOf s.a n) (ptsOf s.b n)) = pp
  generalize (if (n == s.a.root) = true then (([] : List Point), ([] : List Point)) else syncPts (eptsOf s.a p n) (eptsOf s.b p n)) = ee
  obtain ⟨a1, a2, _, a3⟩ := foldl_tryNP_frame pp.2 s.a n
  obtain ⟨b1, b2, _, b3⟩ := foldl_tryNP_frame pp.1 s.b n
  obtain ⟨a4, a5, a6⟩ := foldl_tryEP_frame ee.2 _ n p hp (by rw [a1]; exact hexa)
  obtain ⟨b4, b5, b6⟩ := foldl_tryEP_frame ee.1 _ n p hp (by rw [b1]; exact hexb)
  refine ⟨a4.trans a1, b4.trans b1, a5.trans a2, b5.trans b2, ?_⟩
  intro m hm
  exact ⟨(a3 m hm).trans (a6 m hm), (b3 m hm).trans (b6 m hm)⟩

/-! ### the pass below a node: same nodes on both sides, nothing sent across, nothing touched outside -/

structure Ctx (KA KB : List Sh) (rootA rootB : Bytes) (n : Bytes) : Prop where
  ta : TreeK KA
  tb : TreeK KB
  kids : ∀ m, Below KA n m → KA.filter (fun k => k.1 == m) = KB.filter (fun k => k.1 == m)
  names : ∀ m, Below KA n m → m ≠ rootS ∧ m ≠ allS ∧ m ≠ [] ∧ m ≠ rootA ∧ m ≠ rootB

theorem Ctx.sub {KA KB : List Sh} {rootA rootB n : Bytes} (h : Ctx KA KB rootA rootB n) (c : Bytes) (hc : Below KA n c) : Ctx KA KB rootA rootB c :=
  ⟨h.ta, h.tb, fun m hm => h.kids m (hc.trans hm), fun m hm => h.names m (hc.trans hm)⟩

theorem foldl_inv {α β} (f : β → α → β) (P : β → Prop) : ∀ (l : List α) (b : β), P b → (∀ b a, a ∈ l → P b → P (f b a)) → P (l.foldl f b) := by
  intro l
  induction l with
  | nil => intro b hb _; exact hb
  | cons a l ih =>
    intro b hb hstep
    simp only [List.foldl_cons]
    exact ih _ (hstep b a (List.mem_cons_self ..) hb) (fun b x hx hp => hstep b x (List.mem_cons_of_mem _ hx) hp)

theorem foldl_id {α β} (f : β → α → β) : ∀ (l : List α) (b : β), (∀ b a, a ∈ l → f b a = b) → l.foldl f b = b := by
  intro l
  induction l with
  | nil => intro b _; rfl
  | cons a l ih =>
    intro b h
    simp only [List.foldl_cons]
    rw [h b a (List.mem_cons_self ..)]
    exact ih b (fun b x hx => h b x (List.mem_cons_of_mem _ hx))

/-- the children lists of the two copies of a node below `n` name the same nodes -/
theorem kids_match (KA KB : List Sh) (rootA rootB : Bytes) (s1 : Pair) (hg : Good KA KB rootA rootB s1) (n : Bytes)
    (hk : KA.filter (fun k => k.1 == n) = KB.filter (fun k => k.1 == n)) :
    (∀ e ∈ s1.a.edges, e.up = n → ∃ e' ∈ s1.b.edges, e'.up = n ∧ e'.down = e.down ∧ shape e ∈ KA ∧ shape e ∈ KB) ∧
    (∀ e' ∈ s1.b.edges, e'.up = n → ∃ e ∈ s1.a.edges, e.up = n ∧ e.down = e'.down) := by
  constructor
  · intro e he hu
    have h1 : shape e ∈ KA := hg.sa ▸ mem_shapes s1.a e he
    have h2 : shape e ∈ KA.filter (fun k => k.1 == n) := List.mem_filter.mpr ⟨h1, by simp [shape, hu]⟩
    rw [hk] at h2
    have h3 := (List.mem_filter.mp h2).1
    obtain ⟨e', he', hu', hd', _⟩ := shapes_mem s1.b (shape e) (hg.sb ▸ h3)
    exact ⟨e', he', hu'.trans hu, hd', h1, h3⟩
  · intro e' he' hu
    have h1 : shape e' ∈ KB := hg.sb ▸ mem_shapes s1.b e' he'
    have h2 : shape e' ∈ KB.filter (fun k => k.1 == n) := List.mem_filter.mpr ⟨h1, by simp [shape, hu]⟩
    rw [← hk] at h2
    have h3 := (List.mem_filter.mp h2).1
    obtain ⟨e, he, hu0, hd0, _⟩ := shapes_mem s1.a (shape e') (hg.sa ▸ h3)
    exact ⟨e, he, hu0.trans hu, hd0⟩

/-- `syncChildren` when both copies have the same children: a fold of recursive calls over the local children -/
theorem syncChildren_same (wall : Int → Int) (rec : Pair → Bytes → Bytes → Pair) (KA KB : List Sh) (rootA rootB : Bytes) (s1 : Pair)
    (hg : Good KA KB rootA rootB s1) (n : Bytes) (hn1 : n ≠ rootS) (hn2 : n ≠ allS)
    (hk : KA.filter (fun k => k.1 == n) = KB.filter (fun k => k.1 == n))
    (nl nu : NE) (hnl : nl.id = n) (hnu : nu.id = n)
    (P : Pair → Prop) (h1 : P s1)
    (hstep : ∀ (s : Pair) (e e' : Edge), e ∈ s1.a.edges → e.up = n → e' ∈ s1.b.edges → e'.up = n → e'.down = e.down →
       shape e ∈ KA → shape e ∈ KB → P s → P (if e.hash ≠ e'.hash then rec s n e.down else s)) :
    P (syncChildren wall rec s1 nl nu) := by
  obtain ⟨km1, km2⟩ := kids_match KA KB rootA rootB s1 hg n hk
  unfold syncChildren
  simp only [hnl, hnu, getNodes_kids _ n hn1 hn2]
  rw [foldl_id]
  · apply foldl_inv _ P _ _ h1
    intro s child hchild hp
    simp only [List.mem_map, List.mem_filter] at hchild
    obtain ⟨e, ⟨he, heu⟩, rfl⟩ := hchild
    have heu' : e.up = n := by simpa using heu
    obtain ⟨e', he', hu', hd', hka, hkb⟩ := km1 e he heu'
    cases hf : ((s1.b.edges.filter (fun e => e.up == n)).map (neOf s1.b)).find? (fun u => u.id == (neOf s1.a e).id) with
    | none =>
      exfalso
      have := List.find?_eq_none.mp hf (neOf s1.b e') (List.mem_map_of_mem (f := neOf s1.b) (List.mem_filter.mpr ⟨he', by simp [hu']⟩))
      simp [neOf, hd'] at this
    | some u =>
      simp only []
      have hu_mem := List.mem_of_find?_eq_some hf
      have hu_id := List.find?_some hf
      simp only [List.mem_map, List.mem_filter] at hu_mem
      obtain ⟨e2, ⟨he2, he2u⟩, rfl⟩ := hu_mem
      have he2u' : e2.up = n := by simpa using he2u
      have he2d : e2.down = e.down := by simpa [neOf] using hu_id
      exact hstep s e e2 he heu' he2 he2u' he2d hka hkb hp
  · intro s u hu
    simp only [List.mem_map, List.mem_filter] at hu
    obtain ⟨e', ⟨he', heu⟩, rfl⟩ := hu
    have heu' : e'.up = n := by simpa using heu
    obtain ⟨e, he, hu0, hd0⟩ := km2 e' he' heu'
    have : ((s1.a.edges.filter (fun e => e.up == n)).map (neOf s1.a)).any (fun c => c.id == (neOf s1.b e').id) = true := by
      rw [List.any_eq_true]
      exact ⟨neOf s1.a e, List.mem_map_of_mem (f := neOf s1.a) (List.mem_filter.mpr ⟨he, by simp [hu0]⟩), by simp [neOf, hd0]⟩
    simp only [this, if_true]

theorem good_of_fwd (KA KB : List Sh) (rootA rootB : Bytes) (s s' : Pair) (hf : PFwd s s')
    (h1 : shapes s'.a = KA) (h2 : shapes s'.b = KB) (h3 : s'.a.root = rootA) (h4 : s'.b.root = rootB) : Good KA KB rootA rootB s' :=
  ⟨h1, h2, h3, h4, hf.1.1, hf.2.1⟩

theorem pfwd_refl (s : Pair) (ha : Inv s.a) (hb : Inv s.b) : PFwd s s := ⟨⟨ha, StLe.refl _⟩, ⟨hb, StLe.refl _⟩⟩

theorem pfwd_trans {a b c : Pair} (h1 : PFwd a b) (h2 : PFwd b c) : PFwd a c :=
  ⟨⟨h2.1.1, h1.1.2.trans h2.1.2⟩, ⟨h2.2.1, h1.2.2.trans h2.2.2⟩⟩

/-- **locality of the pass**: below a node `n` that both stores hold with the same descendants, the pass inserts no
    edge, keeps both stores well formed, and changes nothing that either store holds for a node outside the subtree of
    `n` (its points, the points of the edges into it) -/
theorem syncNode_loc (wall : Int → Int) (KA KB : List Sh) (rootA rootB : Bytes) : ∀ (fuel : Nat) (s : Pair) (p n ta tb : Bytes),
    Good KA KB rootA rootB s → Ctx KA KB rootA rootB n → (p, n, ta) ∈ KA → (p, n, tb) ∈ KB → p ≠ rootS → p ≠ allS → p ≠ [] →
    Good KA KB rootA rootB (syncNode wall fuel s p n) ∧ PFwd s (syncNode wall fuel s p n) ∧
    ∀ m, ¬ Below KA n m → Same s.a (syncNode wall fuel s p n).a m ∧ Same s.b (syncNode wall fuel s p n).b m := by
  intro fuel
  induction fuel with
  | zero => intro s p n ta tb hg _ _ _ _ _ _; exact ⟨hg, pfwd_refl s hg.ia hg.ib, fun m _ => ⟨Same.refl _ m, Same.refl _ m⟩⟩
  | succ fuel ih =>
    intro s p n ta tb hg hc hka hkb hp1 hp2 hp3
    obtain ⟨hn1, hn2, hn3, hn4, hn5⟩ := hc.names n (Below.refl KA n)
    obtain ⟨ea, hea, eb, heb, hu, hd, hub, hdb, hstep⟩ := syncNode_step wall fuel KA KB rootA rootB s hg p n ta tb hka hkb hp1 hp2 hn2 hn4
    rw [hstep]
    by_cases hh : ea.hash = eb.hash
    · rw [if_pos hh]; exact ⟨hg, pfwd_refl s hg.ia hg.ib, fun m _ => ⟨Same.refl _ m, Same.refl _ m⟩⟩
    · rw [if_neg hh]
      obtain ⟨x1, x2, x3, x3b, x4⟩ := syncExchange_frame s ea eb p n hea heb hu hd hub hdb hp3
      have hf1 : PFwd s (syncExchange s (neOf s.a ea) (neOf s.b eb)) := syncExchange_fwd s s _ _ (pfwd_refl s hg.ia hg.ib)
      have hg1 : Good KA KB rootA rootB (syncExchange s (neOf s.a ea) (neOf s.b eb)) :=
        good_of_fwd KA KB rootA rootB s _ hf1 (x1.trans hg.sa) (x2.trans hg.sb) (x3.trans hg.ra) (x3b.trans hg.rb)
      generalize syncExchange s (neOf s.a ea) (neOf s.b eb) = s1 at hg1 hf1 x4
      apply syncChildren_same wall (syncNode wall fuel) KA KB rootA rootB s1 hg1 n hn1 hn2 (hc.kids n (Below.refl KA n)) _ _ hd hdb
        (fun s' => Good KA KB rootA rootB s' ∧ PFwd s s' ∧
          ∀ m, ¬ Below KA n m → Same s.a s'.a m ∧ Same s.b s'.b m)
      · refine ⟨hg1, hf1, ?_⟩
        intro m hm
        exact x4 m (fun h => hm (h ▸ Below.refl KA n))
      · intro s' e e' he heu he' he'u he'd hsa hsb ⟨hgs, hfs, hrows⟩
        by_cases hne : e.hash ≠ e'.hash
        · rw [if_pos hne]
          have hbelow : Below KA n e.down := Below.step (shape e) hsa (by simp only [shape, heu]; exact Below.refl KA n)
          have hkb' : (n, e.down, e'.typ) ∈ KB := by
            have := hg1.sb ▸ mem_shapes s1.b e' he'
            simpa [shape, he'u, he'd] using this
          have hka' : (n, e.down, e.typ) ∈ KA := by simpa [shape, heu] using hsa
          obtain ⟨r1, r2, r3⟩ := ih s' n e.down e.typ e'.typ hgs (hc.sub e.down hbelow) hka' hkb' hn1 hn2 hn3
          refine ⟨r1, pfwd_trans hfs r2, ?_⟩
          intro m hm
          have hm' : ¬ Below KA e.down m := fun h => hm (hbelow.trans h)
          obtain ⟨q1, q2⟩ := r3 m hm'
          obtain ⟨q3, q4⟩ := hrows m hm
          exact ⟨q3.trans q1, q4.trans q2⟩
        · rw [if_neg hne]
          exact ⟨hgs, hfs, hrows⟩

/-! ### convergence below a node, as far as the hash comparison is faithful -/

/-- `syncChildren` on two copies with the same children, as a fold over the local child edges: each child is compared
    with one fixed edge of the upstream copy and recursed into when the hashes differ -/
theorem syncChildren_fold (wall : Int → Int) (rec : Pair → Bytes → Bytes → Pair) (KA KB : List Sh) (rootA rootB : Bytes) (s1 : Pair)
    (hg : Good KA KB rootA rootB s1) (n : Bytes) (hn1 : n ≠ rootS) (hn2 : n ≠ allS)
    (hk : KA.filter (fun k => k.1 == n) = KB.filter (fun k => k.1 == n))
    (nl nu : NE) (hnl : nl.id = n) (hnu : nu.id = n) :
    ∃ G : Pair → Edge → Pair,
      syncChildren wall rec s1 nl nu = (s1.a.edges.filter (fun e => e.up == n)).foldl G s1 ∧
      ∀ e ∈ s1.a.edges, e.up = n → ∃ e' ∈ s1.b.edges, e'.up = n ∧ e'.down = e.down ∧ shape e ∈ KA ∧ shape e ∈ KB ∧
        ∀ s, G s e = if e.hash ≠ e'.hash then rec s n e.down else s := by
  obtain ⟨km1, km2⟩ := kids_match KA KB rootA rootB s1 hg n hk
  refine ⟨fun s e => match ((s1.b.edges.filter (fun e => e.up == n)).map (neOf s1.b)).find? (fun u => u.id == (neOf s1.a e).id) with
      | some upChild => if (neOf s1.a e).hash ≠ upChild.hash then rec s n (neOf s1.a e).id else s
      | none => toRemote wall s (neOf s1.a e), ?_, ?_⟩
  · unfold syncChildren
    simp only [hnl, hnu, getNodes_kids _ n hn1 hn2]
    rw [foldl_id]
    · rw [List.foldl_map]
      rfl
    · intro s u hu
      simp only [List.mem_map, List.mem_filter] at hu
      obtain ⟨e', ⟨he', heu⟩, rfl⟩ := hu
      have heu' : e'.up = n := by simpa using heu
      obtain ⟨e, he, hu0, hd0⟩ := km2 e' he' heu'
      have : ((s1.a.edges.filter (fun e => e.up == n)).map (neOf s1.a)).any (fun c => c.id == (neOf s1.b e').id) = true := by
        rw [List.any_eq_true]
        exact ⟨neOf s1.a e, List.mem_map_of_mem (f := neOf s1.a) (List.mem_filter.mpr ⟨he, by simp [hu0]⟩), by simp [neOf, hd0]⟩
      simp only [this, if_true]
  · intro e he heu
    obtain ⟨e', he', hu', hd', hka, hkb⟩ := km1 e he heu
    cases hf : ((s1.b.edges.filter (fun e => e.up == n)).map (neOf s1.b)).find? (fun u => u.id == (neOf s1.a e).id) with
    | none =>
      exfalso
      have := List.find?_eq_none.mp hf (neOf s1.b e') (List.mem_map_of_mem (f := neOf s1.b) (List.mem_filter.mpr ⟨he', by simp [hu']⟩))
      simp [neOf, hd'] at this
    | some u =>
      have hu_mem := List.mem_of_find?_eq_some hf
      have hu_id := List.find?_some hf
      simp only [List.mem_map, List.mem_filter] at hu_mem
      obtain ⟨e2, ⟨he2, he2u⟩, rfl⟩ := hu_mem
      have he2u' : e2.up = n := by simpa using he2u
      have he2d : e2.down = e.down := by simpa [neOf] using hu_id
      exact ⟨e2, he2, he2u', he2d, hka, hkb, fun s => by simp only [hf]; rfl⟩

/-- a fold that settles its elements one after the other: processing `a` establishes `Q a` from "`a` untouched so far",
    leaves the later elements untouched and the earlier results in place -/
theorem foldl_each {α β} (f : β → α → β) (I : β → Prop) (U Q : α → β → Prop) (D : α → α → Prop)
    (h1 : ∀ b a, I b → U a b → I (f b a) ∧ Q a (f b a))
    (h2 : ∀ b a x, D a x → I b → U a b → U x b → U x (f b a))
    (h3 : ∀ b a x, D x a → I b → U a b → Q x b → Q x (f b a)) :
    ∀ (l done : List α) (b : β), l.Pairwise D → (∀ x ∈ done, ∀ a ∈ l, D x a) → I b → (∀ a ∈ l, U a b) → (∀ x ∈ done, Q x b) →
      I (l.foldl f b) ∧ (∀ x ∈ done, Q x (l.foldl f b)) ∧ ∀ a ∈ l, Q a (l.foldl f b) := by
  intro l
  induction l with
  | nil => intro done b _ _ hI _ hQ; exact ⟨hI, hQ, fun _ h => by cases h⟩
  | cons a l ih =>
    intro done b hp hd hI hU hQ
    rw [List.pairwise_cons] at hp
    simp only [List.foldl_cons]
    have hUa := hU a (List.mem_cons_self ..)
    obtain ⟨hI', hQa⟩ := h1 b a hI hUa
    have hU' : ∀ x ∈ l, U x (f b a) := fun x hx => h2 b a x (hp.1 x hx) hI hUa (hU x (List.mem_cons_of_mem _ hx))
    have hQ' : ∀ x ∈ a :: done, Q x (f b a) := by
      intro x hx
      rcases List.mem_cons.mp hx with rfl | hx
      · exact hQa
      · exact h3 b a x (hd x hx a (List.mem_cons_self ..)) hI hUa (hQ x hx)
    have hd' : ∀ x ∈ a :: done, ∀ y ∈ l, D x y := by
      intro x hx y hy
      rcases List.mem_cons.mp hx with rfl | hx
      · exact hp.1 y hy
      · exact hd x hx y (List.mem_cons_of_mem _ hy)
    obtain ⟨r1, r2, r3⟩ := ih (a :: done) (f b a) hp.2 hd' hI' hU' hQ'
    refine ⟨r1, fun x hx => r2 x (List.mem_cons_of_mem _ hx), ?_⟩
    intro x hx
    rcases List.mem_cons.mp hx with rfl | hx
    · exact r2 _ (List.mem_cons_self ..)
    · exact r3 x hx

/-- the two copies of node `m` hold the same points -/
def AgreeN (s : Pair) (m : Bytes) : Prop := ∀ p, p ∈ ptsOf s.a m ↔ p ∈ ptsOf s.b m

/-- the two copies of the edge (u, d) hold the same points -/
def AgreeE (s : Pair) (u d : Bytes) : Prop := ∀ p, p ∈ eptsOf s.a u d ↔ p ∈ eptsOf s.b u d

/-- the two stores agree on node `m`: its points, and the points of the edge(s) into it -/
def AgreeAt (KA : List Sh) (s : Pair) (m : Bytes) : Prop := AgreeN s m ∧ ∀ k ∈ KA, k.2.1 = m → AgreeE s k.1 m

/-- the rows of node `m` on both sides are stored rows, and two different points of one identity never share a time stamp -/
structure RowsOk (s : Pair) (m : Bytes) : Prop where
  sl : StoredRows (ptsOf s.a m)
  su : StoredRows (ptsOf s.b m)
  adm : Admissible (ptsOf s.a m ++ ptsOf s.b m)

/-- the same for the rows of the edge (u, d); the node type is never an edge row -/
structure ERowsOk (s : Pair) (u d : Bytes) : Prop where
  sl : StoredRows (eptsOf s.a u d)
  su : StoredRows (eptsOf s.b u d)
  adm : Admissible (eptsOf s.a u d ++ eptsOf s.b u d)
  tl : ∀ p ∈ eptsOf s.a u d, p.type ≠ nodeTypeT
  tu : ∀ p ∈ eptsOf s.b u d, p.type ≠ nodeTypeT

def RowsOkAt (KA : List Sh) (s : Pair) (m : Bytes) : Prop := RowsOk s m ∧ ∀ k ∈ KA, k.2.1 = m → ERowsOk s k.1 m

/-- in state `t` the hash comparison is faithful below `n`: two copies of an edge that carry the same hash have
    agreeing subtrees (what a Merkle hash is for; false when changes cancel in it — the open findings) -/
def Faithful (KA : List Sh) (n : Bytes) (t : Pair) : Prop :=
  ∀ ea ∈ t.a.edges, ∀ eb ∈ t.b.edges, ea.up = eb.up → ea.down = eb.down → Below KA n ea.down → ea.hash = eb.hash →
    ∀ m, Below KA ea.down m → AgreeAt KA t m

theorem agreeAt_of_same {KA : List Sh} {s s' : Pair} {m : Bytes} (ha : Same s.a s'.a m) (hb : Same s.b s'.b m) (h : AgreeAt KA s m) :
    AgreeAt KA s' m := by
  refine ⟨fun p => by rw [ha.1, hb.1]; exact h.1 p, fun k hk hkm p => ?_⟩
  rw [ha.2, hb.2]; exact h.2 k hk hkm p

theorem rowsOkAt_of_same {KA : List Sh} {s s' : Pair} {m : Bytes} (ha : Same s.a s'.a m) (hb : Same s.b s'.b m) (h : RowsOkAt KA s m) :
    RowsOkAt KA s' m := by
  refine ⟨⟨?_, ?_, ?_⟩, fun k hk hkm => ⟨?_, ?_, ?_, ?_, ?_⟩⟩
  · rw [ha.1]; exact h.1.sl
  · rw [hb.1]; exact h.1.su
  · rw [ha.1, hb.1]; exact h.1.adm
  · rw [ha.2]; exact (h.2 k hk hkm).sl
  · rw [hb.2]; exact (h.2 k hk hkm).su
  · rw [ha.2, hb.2]; exact (h.2 k hk hkm).adm
  · rw [ha.2]; exact (h.2 k hk hkm).tl
  · rw [hb.2]; exact (h.2 k hk hkm).tu

theorem pairwise_filter_mem {α} (R : α → α → Prop) (q : α → Bool) : ∀ (l : List α), l.Pairwise R →
    (l.filter q).Pairwise (fun a x => a ∈ l ∧ q a = true ∧ x ∈ l ∧ q x = true ∧ R a x) := by
  intro l
  induction l with
  | nil => intro _; exact List.Pairwise.nil
  | cons a l ih =>
    intro h
    rw [List.pairwise_cons] at h
    have ih' := (ih h.2).imp (fun {x y} (hxy : x ∈ l ∧ q x = true ∧ y ∈ l ∧ q y = true ∧ R x y) =>
      (⟨List.mem_cons_of_mem _ hxy.1, hxy.2.1, List.mem_cons_of_mem _ hxy.2.2.1, hxy.2.2.2.1, hxy.2.2.2.2⟩ :
        x ∈ a :: l ∧ q x = true ∧ y ∈ a :: l ∧ q y = true ∧ R x y))
    rw [List.filter_cons]
    split
    · rename_i hqa
      rw [List.pairwise_cons]
      refine ⟨?_, ih'⟩
      intro x hx
      obtain ⟨hxl, hqx⟩ := List.mem_filter.mp hx
      exact ⟨List.mem_cons_self .., hqa, List.mem_cons_of_mem _ hxl, hqx, h.1 x hxl⟩
    · exact ih'

/-- **convergence below a node, as far as the hashes are faithful.** `hX` is the exchange theorem for one node and its
    edge (`c02_exchange_converges_on_stores` and its edge-point twin), passed in so that this file stays below the
    property files. -/
theorem syncNode_conv (wall : Int → Int) (KA KB : List Sh) (rootA rootB : Bytes)
    (hX : ∀ (s : Pair) (ea eb : Edge), Inv s.a → Inv s.b → ea ∈ s.a.edges → eb ∈ s.b.edges → ea.up = eb.up → ea.down = eb.down →
      ea.up ≠ [] → ea.down ≠ ea.up → ea.down ≠ s.a.root → ea.down ≠ s.b.root → RowsOk s ea.down → ERowsOk s ea.up ea.down →
      AgreeN (syncExchange s (neOf s.a ea) (neOf s.b eb)) ea.down ∧ AgreeE (syncExchange s (neOf s.a ea) (neOf s.b eb)) ea.up ea.down) :
    ∀ (fuel : Nat) (s : Pair) (p n ta tb : Bytes),
    Good KA KB rootA rootB s → Ctx KA KB rootA rootB n → (p, n, ta) ∈ KA → (p, n, tb) ∈ KB → p ≠ rootS → p ≠ allS → p ≠ [] →
    (∀ m, Below KA n m → RowsOkAt KA s m) → (∀ t, PFwd s t → Faithful KA n t) →
    ∀ d m, d < fuel → BelowD KA n d m → AgreeAt KA (syncNode wall fuel s p n) m := by
  intro fuel
  induction fuel with
  | zero => intro s p n ta tb _ _ _ _ _ _ _ _ _ d m hd _; omega
  | succ fuel ih =>
    intro s p n ta tb hg hc hka hkb hp1 hp2 hp3 hrows hfaith d m hdlt hbd
    obtain ⟨hn1, hn2, hn3, hn4, hn5⟩ := hc.names n (Below.refl KA n)
    obtain ⟨ea, hea, eb, heb, hu, hd, hub, hdb, hstep⟩ := syncNode_step wall fuel KA KB rootA rootB s hg p n ta tb hka hkb hp1 hp2 hn2 hn4
    rw [hstep]
    by_cases hh : ea.hash = eb.hash
    · rw [if_pos hh]
      exact hfaith s (pfwd_refl s hg.ia hg.ib) ea hea eb heb (hu.trans hub.symm) (hd.trans hdb.symm) (hd ▸ Below.refl KA n) hh m
        (by rw [hd]; exact ⟨d, hbd⟩)
    · rw [if_neg hh]
      obtain ⟨x1, x2, x3, x3b, x4⟩ := syncExchange_frame s ea eb p n hea heb hu hd hub hdb hp3
      have hf1 : PFwd s (syncExchange s (neOf s.a ea) (neOf s.b eb)) := syncExchange_fwd s s _ _ (pfwd_refl s hg.ia hg.ib)
      have hg1 : Good KA KB rootA rootB (syncExchange s (neOf s.a ea) (neOf s.b eb)) :=
        good_of_fwd KA KB rootA rootB s _ hf1 (x1.trans hg.sa) (x2.trans hg.sb) (x3.trans hg.ra) (x3b.trans hg.rb)
      have hpn : n ≠ p := by
        obtain ⟨r, hr⟩ := hc.ta.rank
        have := hr (p, n, ta) hka
        intro h; rw [h] at this; exact Nat.lt_irrefl _ this
      have hagn : AgreeAt KA (syncExchange s (neOf s.a ea) (neOf s.b eb)) n := by
        have hro := hrows n (Below.refl KA n)
        have hXn := hX s ea eb hg.ia hg.ib hea heb (hu.trans hub.symm) (hd.trans hdb.symm) (hu ▸ hp3) (by rw [hd, hu]; exact hpn)
          (by rw [hd, hg.ra]; exact hn4) (by rw [hd, hg.rb]; exact hn5) (hd ▸ hro.1) (by rw [hu, hd]; exact hro.2 (p, n, ta) hka rfl)
        rw [hd, hu] at hXn
        refine ⟨hXn.1, ?_⟩
        intro k hk hkn
        have : k = (p, n, ta) := singleK_eq KA hc.ta.single k (p, n, ta) hk hka hkn
        rw [this]
        exact hXn.2
      generalize syncExchange s (neOf s.a ea) (neOf s.b eb) = s1 at hg1 hf1 x4 hagn
      obtain ⟨G, hfold, hG⟩ := syncChildren_fold wall (syncNode wall fuel) KA KB rootA rootB s1 hg1 n hn1 hn2
        (hc.kids n (Below.refl KA n)) (neOf s.a ea) (neOf s.b eb) hd hdb
      rw [hfold]
      -- facts about a child edge
      have hchild : ∀ e ∈ s1.a.edges, e.up = n → shape e ∈ KA ∧ Below KA n e.down ∧ ¬ Below KA e.down n := by
        intro e he heu
        have hsa : shape e ∈ KA := hg1.sa ▸ mem_shapes s1.a e he
        refine ⟨hsa, Below.step (shape e) hsa (by simp only [shape, heu]; exact Below.refl KA n), ?_⟩
        have := Below.not_up hc.ta (shape e) hsa
        simpa [shape, heu] using this
      -- processing one child: well-formedness, and nothing outside its subtree changes
      have hproc : ∀ (s' : Pair) (e : Edge), e ∈ s1.a.edges → e.up = n → Good KA KB rootA rootB s' →
          Good KA KB rootA rootB (G s' e) ∧ PFwd s' (G s' e) ∧
          ∀ m, ¬ Below KA e.down m → Same s'.a (G s' e).a m ∧ Same s'.b (G s' e).b m := by
        intro s' e he heu hgs
        obtain ⟨e', he', he'u, he'd, hsa, hsb, hGe⟩ := hG e he heu
        rw [hGe s']
        by_cases hne : e.hash ≠ e'.hash
        · rw [if_pos hne]
          have hkb' : (n, e.down, e'.typ) ∈ KB := by
            have := hg1.sb ▸ mem_shapes s1.b e' he'
            simpa [shape, he'u, he'd] using this
          have hka' : (n, e.down, e.typ) ∈ KA := by simpa [shape, heu] using hsa
          exact syncNode_loc wall KA KB rootA rootB fuel s' n e.down e.typ e'.typ hgs (hc.sub e.down (hchild e he heu).2.1) hka' hkb' hn1 hn2 hn3
        · rw [if_neg hne]
          exact ⟨hgs, pfwd_refl s' hgs.ia hgs.ib, fun m _ => ⟨Same.refl _ m, Same.refl _ m⟩⟩
      -- two different children have disjoint subtrees
      have hdisj : ∀ (a x : Edge), a ∈ s1.a.edges → a.up = n → x ∈ s1.a.edges → x.up = n → a.down ≠ x.down →
          ∀ m, Below KA x.down m → ¬ Below KA a.down m := by
        intro a x ha hau hx hxu hne m hmx hma
        have h1 := (hchild a ha hau).1
        have h2 := (hchild x hx hxu).1
        exact Below.siblings hc.ta (shape a) (shape x) h1 h2 (by simp [shape, hau, hxu])
          (fun h => hne (by have := congrArg (fun k : Sh => k.2.1) h; simpa [shape] using this)) hma hmx
      have key := foldl_each G
        (fun s' => Good KA KB rootA rootB s' ∧ PFwd s s' ∧ AgreeAt KA s' n)
        (fun e s' => e ∈ s1.a.edges ∧ e.up = n ∧ ∀ m, Below KA e.down m → Same s1.a s'.a m ∧ Same s1.b s'.b m)
        (fun e s' => ∀ d m, d < fuel → BelowD KA e.down d m → AgreeAt KA s' m)
        (fun a x => a ∈ s1.a.edges ∧ a.up = n ∧ x ∈ s1.a.edges ∧ x.up = n ∧ a.down ≠ x.down)
        ?h1 ?h2 ?h3 (s1.a.edges.filter (fun e => e.up == n)) [] s1 ?pw (fun _ h => by cases h) ⟨hg1, hf1, hagn⟩ ?hU (fun _ h => by cases h)
      case pw =>
        have hs : s1.a.edges.Pairwise (fun a x => a.down ≠ x.down) := by
          have := hc.ta.single
          rw [← hg1.sa] at this
          unfold shapes at this
          rw [List.pairwise_map] at this
          exact this
        refine (pairwise_filter_mem _ (fun e => e.up == n) _ hs).imp ?_
        intro a x h
        exact ⟨h.1, by simpa using h.2.1, h.2.2.1, by simpa using h.2.2.2.1, h.2.2.2.2⟩
      case hU =>
        intro e he
        obtain ⟨he1, he2⟩ := List.mem_filter.mp he
        exact ⟨he1, by simpa using he2, fun m _ => ⟨Same.refl _ m, Same.refl _ m⟩⟩
      case h1 =>
        intro s' e ⟨hgs, hfs, hags⟩ ⟨he, heu, hun⟩
        obtain ⟨hsa, hbel, hnot⟩ := hchild e he heu
        obtain ⟨p1, p2, p3⟩ := hproc s' e he heu hgs
        refine ⟨⟨p1, pfwd_trans hfs p2, agreeAt_of_same (p3 n hnot).1 (p3 n hnot).2 hags⟩, ?_⟩
        obtain ⟨e', he', he'u, he'd, _, hsb, hGe⟩ := hG e he heu
        intro d' m' hd' hbd'
        rw [hGe s']
        by_cases hne : e.hash ≠ e'.hash
        · rw [if_pos hne]
          have hkb' : (n, e.down, e'.typ) ∈ KB := by
            have := hg1.sb ▸ mem_shapes s1.b e' he'
            simpa [shape, he'u, he'd] using this
          have hka' : (n, e.down, e.typ) ∈ KA := by simpa [shape, heu] using hsa
          apply ih s' n e.down e.typ e'.typ hgs (hc.sub e.down hbel) hka' hkb' hn1 hn2 hn3 ?_ ?_ d' m' hd' hbd'
          · intro m2 hm2
            have hm2n : m2 ≠ n := fun h => hnot (h ▸ hm2)
            have r1 := hun m2 hm2
            have r2 := x4 m2 hm2n
            exact rowsOkAt_of_same (r2.1.trans r1.1) (r2.2.trans r1.2) (hrows m2 (hbel.trans hm2))
          · intro t ht ea' hea' eb' heb' hup' hdn' hb' hhash m2 hm2
            exact hfaith t (pfwd_trans hfs ht) ea' hea' eb' heb' hup' hdn' (hbel.trans hb') hhash m2 hm2
        · rw [if_neg hne]
          have hheq : e.hash = e'.hash := by
            by_cases h : e.hash = e'.hash
            · exact h
            · exact absurd h hne
          have := hfaith s1 hf1 e he e' he' (heu.trans he'u.symm) he'd.symm hbel hheq m' ⟨d', hbd'⟩
          have r1 := hun m' ⟨d', hbd'⟩
          exact agreeAt_of_same r1.1 r1.2 this
      case h2 =>
        intro s' a x ⟨ha, hau, hx, hxu, hne⟩ ⟨hgs, _, _⟩ _ ⟨_, _, hux⟩
        refine ⟨hx, hxu, ?_⟩
        intro m' hm'
        obtain ⟨_, _, p3⟩ := hproc s' a ha hau hgs
        have r := p3 m' (hdisj a x ha hau hx hxu hne m' hm')
        have r2 := hux m' hm'
        exact ⟨r2.1.trans r.1, r2.2.trans r.2⟩
      case h3 =>
        intro s' a x ⟨hx, hxu, ha, hau, hne⟩ ⟨hgs, _, _⟩ _ hqx
        intro d' m' hd' hbd'
        obtain ⟨_, _, p3⟩ := hproc s' a ha hau hgs
        have r := p3 m' (hdisj a x ha hau hx hxu (fun h => hne h.symm) m' ⟨d', hbd'⟩)
        exact agreeAt_of_same r.1 r.2 (hqx d' m' hd' hbd')
      obtain ⟨⟨_, _, hagfinal⟩, _, hall⟩ := key
      cases d with
      | zero =>
        cases hbd
        exact hagfinal
      | succ d' =>
        obtain ⟨k, hk, hk1, hrest⟩ := BelowD.top hbd
        obtain ⟨e, he, heu, hed, _⟩ := shapes_mem s1.a k (hg1.sa ▸ hk)
        have hek : e ∈ s1.a.edges.filter (fun e => e.up == n) := List.mem_filter.mpr ⟨he, by simp [heu, hk1]⟩
        exact hall e hek d' m (by omega) (hed ▸ hrest)

/-! ### the edge rows after the exchange -/

theorem foldl_tryEP_rows : ∀ (pts : List Point) (st : St) (id parent : Bytes), parent ≠ [] → id ≠ parent → id ≠ st.root →
    (∀ p ∈ pts, isNaN p.value = false ∧ p.type ≠ nodeTypeT) → (∃ k ∈ shapes st, k.1 = parent ∧ k.2.1 = id) →
    eptsOf (pts.foldl (fun a p => tryEP a id parent [p]) st) parent id = rowsAfter (eptsOf st parent id) (pts.map (fun q => [q])) := by
  intro pts
  induction pts with
  | nil => intro st id parent _ _ _ _ _; rfl
  | cons p ps ih =>
    intro st id parent hp hne hr hok hex
    simp only [List.foldl_cons, List.map_cons, rowsAfter]
    obtain ⟨f1, f2⟩ := tryEP_frame' st id parent [p] hp hex
    rw [ih (tryEP st id parent [p]) id parent hp hne (by rw [f2]; exact hr) (fun q hq => hok q (List.mem_cons_of_mem _ hq)) (by rw [f1]; exact hex)]
    obtain ⟨k, hk, hk1, hk2⟩ := hex
    obtain ⟨e, he, heu, hed, _⟩ := shapes_mem st k hk
    have := tryEP_rows st id parent p hp hne hr (hok p (List.mem_cons_self ..)).1 (hok p (List.mem_cons_self ..)).2
      ⟨e, he, heu.trans hk1, hed.trans hk2⟩ parent id
    rw [this, if_pos rfl]
    rfl

theorem syncExchange_edge_rows (s : Pair) (ea eb : Edge) (p n : Bytes) (hea : ea ∈ s.a.edges) (heb : eb ∈ s.b.edges)
    (hu : ea.up = p) (hd : ea.down = n) (hub : eb.up = p) (hdb : eb.down = n) (hp : p ≠ []) (hnp : n ≠ p)
    (hra : n ≠ s.a.root) (hrb : n ≠ s.b.root)
    (hla : ∀ q ∈ eptsOf s.a p n, isNaN q.value = false ∧ q.type ≠ nodeTypeT)
    (hlb : ∀ q ∈ eptsOf s.b p n, isNaN q.value = false ∧ q.type ≠ nodeTypeT) (hub' : IdUnique (eptsOf s.b p n)) :
    eptsOf (syncExchange s (neOf s.a ea) (neOf s.b eb)).a p n =
      rowsAfter (eptsOf s.a p n) ((syncPts (eptsOf s.a p n) (eptsOf s.b p n)).2.map (fun q => [q])) ∧
    eptsOf (syncExchange s (neOf s.a ea) (neOf s.b eb)).b p n =
      rowsAfter (eptsOf s.b p n) ((syncPts (eptsOf s.a p n) (eptsOf s.b p n)).1.map (fun q => [q])) := by
  have hexa : ∃ k ∈ shapes s.a, k.1 = p ∧ k.2.1 = n := ⟨shape ea, mem_shapes s.a ea hea, hu, hd⟩
  have hexb : ∃ k ∈ shapes s.b, k.1 = p ∧ k.2.1 = n := ⟨shape eb, mem_shapes s.b eb heb, hub, hdb⟩
  have hroot : (n == s.a.root) = false := by simpa using hra
  have hdown : ∀ q ∈ (syncPts (eptsOf s.a p n) (eptsOf s.b p n)).2, isNaN q.value = false ∧ q.type ≠ nodeTypeT :=
    fun q hq => hlb q ((mem_toDown _ _ hub' q).mp hq).1
  have hup : ∀ q ∈ (syncPts (eptsOf s.a p n) (eptsOf s.b p n)).1, isNaN q.value = false ∧ q.type ≠ nodeTypeT :=
    fun q hq => hla q ((mem_toUp _ _ hub' q).mp hq).1
  unfold syncExchange
  simp only [neOf, hu, hd, hub, hdb, hroot, Bool.false_eq_true, if_false]
  generalize (syncPts (ptsOf s.a n) (ptsOf s.b n)) = pp
  obtain ⟨a1, a2, a3, _⟩ := foldl_tryNP_frame pp.2 s.a n
  obtain ⟨b1, b2, b3, _⟩ := foldl_tryNP_frame pp.1 s.b n
  have ea1 : ∀ u d, eptsOf (pp.2.foldl (fun a q => tryNP a n [q]) s.a) u d = eptsOf s.a u d := by intro u d; unfold eptsOf; rw [a3]
  have eb1 : ∀ u d, eptsOf (pp.1.foldl (fun a q => tryNP a n [q]) s.b) u d = eptsOf s.b u d := by intro u d; unfold eptsOf; rw [b3]
  constructor
  · rw [foldl_tryEP_rows _ _ n p hp hnp (by rw [a2]; exact hra) hdown (by rw [a1]; exact hexa), ea1]
  · rw [foldl_tryEP_rows _ _ n p hp hnp (by rw [b2]; exact hrb) hup (by rw [b1]; exact hexb), eb1]

end Siot.Sync
