import Siot.Model.Manager
import Siot.Lemmas.Auth
/- helper lemmas for C07 (Siot/Model/Manager.lean) -/
namespace Siot.Manager
open Siot Siot.Store

/-! ### which placements are wanted -/

/-- `b` can be reached from `a` going down through non-deleted edges whose child is of a parent type -/
inductive Path (lv : List Edge) (pt : List Bytes) : Bytes → Bytes → Prop
  | refl (a : Bytes) : Path lv pt a a
  | step (a b : Bytes) (e : Edge) : e ∈ lv → e.up = a → pt.contains e.typ = true → Path lv pt e.down b → Path lv pt a b

theorem scanH_sound (lv : List Edge) (typ : Bytes) (pt : List Bytes) : ∀ (fuel : Nat) (a : Bytes) (k : Key),
    k ∈ scanH lv typ pt fuel a → Path lv pt a k.1 ∧ ∃ e ∈ lv, e.up = k.1 ∧ e.down = k.2 ∧ e.typ = typ := by
  intro fuel
  induction fuel with
  | zero => intro a k h; simp [scanH] at h
  | succ fuel ih =>
    intro a k h
    simp only [scanH, List.mem_append, List.mem_map, List.mem_filter, Bool.and_eq_true, beq_iff_eq, List.mem_flatMap] at h
    rcases h with ⟨e, ⟨he, hup, htyp⟩, rfl⟩ | ⟨p, ⟨hp, hup, hpt⟩, hk⟩
    · exact ⟨by rw [hup]; exact .refl a, e, he, rfl, rfl, htyp⟩
    · obtain ⟨h1, h2⟩ := ih p.down k hk
      exact ⟨.step a k.1 p hp hup hpt h1, h2⟩

theorem scanH_complete (lv : List Edge) (typ : Bytes) (pt : List Bytes) (r : Bytes → Nat) (N : Nat)
    (hr : ∀ e ∈ lv, r e.up < r e.down) (hb : ∀ x, r x < N) :
    ∀ (fuel : Nat) (a b : Bytes), N - r a < fuel → Path lv pt a b →
      ∀ e ∈ lv, e.up = b → e.typ = typ → (e.up, e.down) ∈ scanH lv typ pt fuel a := by
  intro fuel
  induction fuel with
  | zero => intro a b h; omega
  | succ fuel ih =>
    intro a b hlt hp e he hup htyp
    simp only [scanH, List.mem_append, List.mem_map, List.mem_filter, Bool.and_eq_true, beq_iff_eq, List.mem_flatMap]
    cases hp with
    | refl => exact Or.inl ⟨e, ⟨he, hup, htyp⟩, rfl⟩
    | step _ _ p hpl hpu hpt hrest =>
      right
      refine ⟨p, ⟨hpl, hpu, hpt⟩, ?_⟩
      apply ih p.down b _ hrest e he hup htyp
      have h1 := hr p hpl
      have h2 := hb p.down
      have h3 := hb a
      rw [hpu] at h1
      omega

/-! ### bookkeeping -/

def keys (cs : List Client) : List Key := cs.map (·.key)
def wkeys (w : Want) : List Key := w.map (·.1)

theorem hasKey_iff (cs : List Client) (k : Key) : hasKey cs k = true ↔ k ∈ keys cs := by
  simp only [hasKey, keys, List.any_eq_true, beq_iff_eq, List.mem_map]

theorem hasKey_false_iff (cs : List Client) (k : Key) : hasKey cs k = false ↔ k ∉ keys cs := by
  rw [← hasKey_iff]
  exact Bool.eq_false_iff

/-- the first entry of a key in the want list: what a client started now is constructed with -/
def lookupW : Want → Key → Option (List Bytes)
  | [], _ => none
  | (k', ch) :: w, k => if k' = k then some ch else lookupW w k

theorem lookupW_some_of_mem (w : Want) (k : Key) (h : k ∈ wkeys w) : ∃ ch, lookupW w k = some ch := by
  induction w with
  | nil => simp [wkeys] at h
  | cons x w ih =>
    obtain ⟨k', ch⟩ := x
    simp only [wkeys, List.map_cons, List.mem_cons] at h
    by_cases hk : k' = k
    · exact ⟨ch, by simp [lookupW, hk]⟩
    · rcases h with h | h
      · exact absurd h.symm hk
      · obtain ⟨c, hc⟩ := ih h
        exact ⟨c, by simp [lookupW, hk, hc]⟩

theorem lookupW_mem (w : Want) (k : Key) (ch : List Bytes) (h : lookupW w k = some ch) : k ∈ wkeys w := by
  induction w with
  | nil => simp [lookupW] at h
  | cons x w ih =>
    obtain ⟨k', ch'⟩ := x
    simp only [lookupW] at h
    simp only [wkeys, List.map_cons, List.mem_cons]
    by_cases hk' : k' = k
    · exact Or.inl hk'.symm
    · simp only [hk', if_false] at h
      exact Or.inr (ih h)

theorem startNew_spec : ∀ (w : Want) (cs : List Client), (keys cs).Nodup →
    (keys (startNew w cs)).Nodup ∧
    (∀ k, k ∈ keys (startNew w cs) ↔ k ∈ keys cs ∨ k ∈ wkeys w) ∧
    (∀ c ∈ startNew w cs, c ∈ cs ∨ (c.key ∉ keys cs ∧ c.stopping = false ∧ lookupW w c.key = some c.children)) ∧
    (∀ c ∈ cs, c ∈ startNew w cs) := by
  intro w
  induction w with
  | nil =>
    intro cs h
    exact ⟨h, by simp [startNew, wkeys], fun c hc => Or.inl hc, fun c hc => hc⟩
  | cons x w ih =>
    intro cs h
    obtain ⟨k, ch⟩ := x
    simp only [startNew]
    by_cases hk : hasKey cs k = true
    · simp only [hk, if_true]
      obtain ⟨i1, i2, i3, i4⟩ := ih cs h
      have hkc := (hasKey_iff cs k).mp hk
      refine ⟨i1, ?_, ?_, i4⟩
      · intro k'
        rw [i2 k']
        simp only [wkeys, List.map_cons, List.mem_cons]
        constructor
        · rintro (h1 | h1)
          · exact Or.inl h1
          · exact Or.inr (Or.inr h1)
        · rintro (h1 | h1 | h1)
          · exact Or.inl h1
          · subst h1; exact Or.inl hkc
          · exact Or.inr h1
      · intro c hc
        rcases i3 c hc with h1 | ⟨h1, h2, h3⟩
        · exact Or.inl h1
        · right
          refine ⟨h1, h2, ?_⟩
          have : k ≠ c.key := by intro e; rw [← e] at h1; exact h1 hkc
          simp [lookupW, this, h3]
    · have hk' : hasKey cs k = false := by simpa using hk
      simp only [hk', Bool.false_eq_true, if_false]
      have hkc := (hasKey_false_iff cs k).mp hk'
      have hnd : (keys (cs ++ [⟨k, ch, false⟩])).Nodup := by
        simp only [keys, List.map_append, List.map_cons, List.map_nil]
        rw [List.nodup_append]
        refine ⟨h, by simp, ?_⟩
        intro a ha b hb
        simp only [List.mem_singleton] at hb
        subst hb
        intro e; subst e; exact hkc ha
      obtain ⟨i1, i2, i3, i4⟩ := ih (cs ++ [⟨k, ch, false⟩]) hnd
      refine ⟨i1, ?_, ?_, ?_⟩
      · intro k'
        rw [i2 k']
        simp only [keys, List.map_append, List.map_cons, List.map_nil, List.mem_append, wkeys, List.mem_cons,
          List.not_mem_nil, or_false]
        constructor
        · rintro ((h1 | h1) | h1)
          · exact Or.inl h1
          · exact Or.inr (Or.inl h1)
          · exact Or.inr (Or.inr h1)
        · rintro (h1 | h1 | h1)
          · exact Or.inl (Or.inl h1)
          · exact Or.inl (Or.inr h1)
          · exact Or.inr h1
      · intro c hc
        rcases i3 c hc with h1 | ⟨h1, h2, h3⟩
        · simp only [List.mem_append, List.mem_singleton] at h1
          rcases h1 with h1 | rfl
          · exact Or.inl h1
          · exact Or.inr ⟨hkc, rfl, by simp [lookupW]⟩
        · right
          have hnk : c.key ∉ keys cs := by
            intro hm; apply h1
            simp only [keys, List.map_append, List.mem_append]
            exact Or.inl hm
          have hne : k ≠ c.key := by
            intro e; apply h1
            simp only [keys, List.map_append, List.map_cons, List.map_nil, List.mem_append, List.mem_singleton]
            exact Or.inr e.symm
          exact ⟨hnk, h2, by simp [lookupW, hne, h3]⟩
      · intro c hc
        exact i4 c (by simp [hc])

/-- the marking pass of scan keeps keys and only sets `stopping` -/
def mark (w : Want) (cs : List Client) : List Client :=
  cs.map (fun c => if w.any (fun x => x.1 == c.key) then c else { c with stopping := true })

theorem keys_mark (w : Want) (cs : List Client) : keys (mark w cs) = keys cs := by
  simp only [keys, mark, List.map_map]
  apply List.map_congr_left
  intro c _
  simp only [Function.comp_apply]
  split <;> rfl

theorem wany_iff (w : Want) (k : Key) : w.any (fun x => x.1 == k) = true ↔ k ∈ wkeys w := by
  simp only [List.any_eq_true, beq_iff_eq, wkeys, List.mem_map]

theorem wkeys_startable (bad : List Key) (w : Want) (k : Key) : k ∈ wkeys (startable bad w) ↔ k ∈ wkeys w ∧ k ∉ bad := by
  simp only [wkeys, startable, List.mem_map, List.mem_filter, Bool.not_eq_true', List.contains_eq_mem, decide_eq_false_iff_not]
  constructor
  · rintro ⟨x, ⟨hx, hb⟩, rfl⟩
    exact ⟨⟨x, hx, rfl⟩, hb⟩
  · rintro ⟨⟨x, hx, rfl⟩, hb⟩
    exact ⟨x, ⟨hx, hb⟩, rfl⟩

theorem lookupW_startable (bad : List Key) : ∀ (w : Want) (k : Key) (ch : List Bytes),
    lookupW (startable bad w) k = some ch → lookupW w k = some ch := by
  intro w
  induction w with
  | nil => intro k ch h; simp [startable, lookupW] at h
  | cons x w ih =>
    intro k ch h
    obtain ⟨k', c'⟩ := x
    simp only [startable, List.filter_cons] at h
    by_cases hb : bad.contains k' = true
    · simp only [hb, Bool.not_true, Bool.false_eq_true, if_false] at h
      have hne : k' ≠ k := by
        intro he
        subst he
        have := lookupW_mem _ _ _ h
        have := (wkeys_startable bad w k').mp this
        exact this.2 (by simpa using hb)
      simp only [lookupW, hne, if_false]
      exact ih k ch h
    · simp only [hb, Bool.not_false, if_true, lookupW] at h ⊢
      by_cases he : k' = k
      · simpa [he] using h
      · simp only [he, if_false] at h ⊢
        exact ih k ch h

theorem scan_eq (bad : List Key) (w : Want) (m : Mgr) (h : m.stopping = false) :
    scan bad w m = { m with clients := startNew (startable bad w) (mark w m.clients) } := by
  simp [scan, h, mark]

/-- the state a fixed want list `w` drives the manager to: every wanted placement whose client can be constructed
    has a client, and every client of an unwanted placement has been told to stop -/
structure Toward (bad : List Key) (w : Want) (m : Mgr) : Prop where
  nodup : (keys m.clients).Nodup
  have_all : ∀ k ∈ wkeys w, k ∉ bad → k ∈ keys m.clients
  extra_stopping : ∀ c ∈ m.clients, c.key ∉ wkeys w → c.stopping = true
  live : m.stopping = false ∧ m.done = false

/-- a running (not stopping) client holds the children the store has now -/
def Fresh (w : Want) (m : Mgr) : Prop :=
  ∀ c ∈ m.clients, c.stopping = false → ∀ ch, lookupW w c.key = some ch → c.children = ch

theorem scan_toward (bad : List Key) (w : Want) (m : Mgr) (hnd : (keys m.clients).Nodup) (hl : m.stopping = false ∧ m.done = false) :
    Toward bad w (scan bad w m) := by
  rw [scan_eq bad w m hl.1]
  have hk := keys_mark w m.clients
  obtain ⟨i1, i2, i3, _⟩ := startNew_spec (startable bad w) (mark w m.clients) (by rw [hk]; exact hnd)
  refine ⟨i1, ?_, ?_, hl⟩
  · intro k hkw hnb
    exact (i2 k).mpr (Or.inr ((wkeys_startable bad w k).mpr ⟨hkw, hnb⟩))
  · intro c hc hnw
    rcases i3 c hc with h1 | ⟨_, _, h3⟩
    · simp only [mark, List.mem_map] at h1
      obtain ⟨c0, _, rfl⟩ := h1
      by_cases hw : w.any (fun x => x.1 == c0.key) = true
      · simp only [hw, if_true] at hnw
        exact absurd ((wany_iff w c0.key).mp hw) hnw
      · simp [hw]
    · -- a freshly started client is wanted
      exact absurd (lookupW_mem w c.key _ (lookupW_startable bad w _ _ h3)) hnw

theorem scan_fresh (bad : List Key) (w : Want) (m : Mgr) (hnd : (keys m.clients).Nodup) (hl : m.stopping = false) (hf : Fresh w m) :
    Fresh w (scan bad w m) := by
  rw [scan_eq bad w m hl]
  have hk := keys_mark w m.clients
  obtain ⟨_, _, i3, _⟩ := startNew_spec (startable bad w) (mark w m.clients) (by rw [hk]; exact hnd)
  intro c hc hns ch hch
  rcases i3 c hc with h1 | ⟨_, _, h3⟩
  · simp only [mark, List.mem_map] at h1
    obtain ⟨c0, hc0, rfl⟩ := h1
    by_cases hw : w.any (fun x => x.1 == c0.key) = true
    · simp only [hw, if_true] at hns hch ⊢
      exact hf c0 hc0 hns ch hch
    · simp [hw] at hns
  · rw [lookupW_startable bad w _ _ h3] at hch
    injection hch

/-- a scan never constructs a client for a placement whose construction fails -/
theorem scan_keys_sub (bad : List Key) (w : Want) (m : Mgr) (hnd : (keys m.clients).Nodup) (k : Key)
    (h : k ∈ keys (scan bad w m).clients) : k ∈ keys m.clients ∨ (k ∈ wkeys w ∧ k ∉ bad) := by
  cases hs : m.stopping with
  | true => simp only [scan, hs, if_true] at h; exact Or.inl h
  | false =>
    rw [scan_eq bad w m hs] at h
    have hk := keys_mark w m.clients
    obtain ⟨_, i2, _, _⟩ := startNew_spec (startable bad w) (mark w m.clients) (by rw [hk]; exact hnd)
    rcases (i2 k).mp h with h1 | h1
    · rw [hk] at h1; exact Or.inl h1
    · exact Or.inr ((wkeys_startable bad w k).mp h1)

theorem keys_filter_nodup (cs : List Client) (p : Client → Bool) (h : (keys cs).Nodup) : (keys (cs.filter p)).Nodup := by
  unfold keys at *
  exact List.Nodup.sublist (List.Sublist.map _ (List.filter_sublist)) h

theorem exited_toward (bad : List Key) (w : Want) (m : Mgr) (k : Key) (h : Toward bad w m) : Toward bad w (step m (.exited k w bad)) := by
  simp only [step]
  split
  · simp only [h.live.1, Bool.false_eq_true, if_false]
    apply scan_toward
    · exact keys_filter_nodup _ _ h.nodup
    · exact ⟨rfl, h.live.2⟩
  · exact h

theorem exited_fresh (bad : List Key) (w : Want) (m : Mgr) (k : Key) (h : Toward bad w m) (hf : Fresh w m) : Fresh w (step m (.exited k w bad)) := by
  simp only [step]
  split
  · simp only [h.live.1, Bool.false_eq_true, if_false]
    apply scan_fresh
    · exact keys_filter_nodup _ _ h.nodup
    · rfl
    · intro c hc
      simp only [List.mem_filter] at hc
      exact hf c hc.1
  · exact hf

theorem exits_toward (bad : List Key) (w : Want) (ks : List Key) : ∀ (m : Mgr), Toward bad w m → Fresh w m →
    Toward bad w (run m (ks.map (fun k => Event.exited k w bad))) ∧ Fresh w (run m (ks.map (fun k => Event.exited k w bad))) := by
  induction ks with
  | nil => intro m h hf; exact ⟨h, hf⟩
  | cons k ks ih =>
    intro m h hf
    simp only [List.map_cons, run, List.foldl_cons]
    exact ih _ (exited_toward bad w m k h) (exited_fresh bad w m k h hf)

/-! ### any event keeps one client per placement -/

theorem scan_nodup (bad : List Key) (w : Want) (m : Mgr) (h : (keys m.clients).Nodup) : (keys (scan bad w m).clients).Nodup := by
  cases hs : m.stopping with
  | true => simp [scan, hs]; exact h
  | false =>
    rw [scan_eq bad w m hs]
    have hk := keys_mark w m.clients
    exact (startNew_spec (startable bad w) (mark w m.clients) (by rw [hk]; exact h)).1

theorem step_nodup (m : Mgr) (e : Event) (h : (keys m.clients).Nodup) : (keys (step m e).clients).Nodup := by
  cases e with
  | scan w bad =>
    simp only [step]
    split
    · exact h
    · exact scan_nodup bad w m h
  | trigger k =>
    simp only [step]
    have : keys (m.clients.map (fun c => if c.key == k then { c with stopping := true } else c)) = keys m.clients := by
      simp only [keys, List.map_map]
      apply List.map_congr_left
      intro c _
      simp only [Function.comp_apply]
      split <;> rfl
    rw [this]; exact h
  | exited k w bad =>
    simp only [step]
    split
    · split
      · exact keys_filter_nodup _ _ h
      · exact scan_nodup bad w _ (keys_filter_nodup _ _ h)
    · exact h
  | stop =>
    simp only [step]
    have : keys (m.clients.map (fun c => { c with stopping := true })) = keys m.clients := by
      simp only [keys, List.map_map]
      rfl
    rw [this]; exact h

end Siot.Manager
