import Siot.Lemmas.CobsReader
namespace Siot.Cobs
open Siot

theorem dropZeros_length_le (a : Bytes) : (dropZeros a).length ≤ a.length := by
  induction a with
  | nil => simp [dropZeros]
  | cons x a ih => simp only [dropZeros]; split <;> simp <;> omega

/-- specification of the framing layer on a whole byte stream: the non-empty zero-delimited
    bodies in order, and the unterminated residue -/
def bodiesOf (S : Bytes) : List Bytes × Bytes :=
  match h : cutAtZero (dropZeros S) with
  | some (f, rest) => (f :: (bodiesOf rest).1, (bodiesOf rest).2)
  | none => ([], dropZeros S)
termination_by S.length
decreasing_by
  have h1 := cutAtZero_length _ _ _ h
  have h2 := dropZeros_length_le S
  have : (dropZeros S).length = f.length + 1 + rest.length := by rw [h1]; simp; omega
  omega

theorem bodiesOf_some (S f rest : Bytes) (h : cutAtZero (dropZeros S) = some (f, rest)) :
    bodiesOf S = (f :: (bodiesOf rest).1, (bodiesOf rest).2) := by
  rw [bodiesOf]; split
  · rename_i f' rest' h'; rw [h] at h'; simp at h'; obtain ⟨rfl, rfl⟩ := h'; rfl
  · rename_i h'; rw [h] at h'; simp at h'

theorem bodiesOf_none (S : Bytes) (h : cutAtZero (dropZeros S) = none) :
    bodiesOf S = ([], dropZeros S) := by
  rw [bodiesOf]; split
  · rename_i f' rest' h'; rw [h] at h'; simp at h'
  · rfl

theorem outFor_ne_devErr (cfg : Cfg) (f : Bytes) : outFor cfg f ≠ .devErr := by
  unfold outFor; split <;> simp

theorem readAll_step (cfg : Cfg) (fuel : Nat) (lo lo' : Bytes) (cs cs' : List Bytes) (o : ReadOut)
    (h : read cfg cs lo = (o, lo', cs')) (ho : o ≠ .devErr) :
    readAll cfg (fuel + 1) lo cs = o :: readAll cfg fuel lo' cs' := by
  cases o with
  | devErr => exact absurd rfl ho
  | frame r => simp only [readAll, h]
  | tooMuch => simp only [readAll, h]

theorem readAll_end (cfg : Cfg) (fuel : Nat) (lo lo' : Bytes) (cs cs' : List Bytes)
    (h : read cfg cs lo = (.devErr, lo', cs')) :
    readAll cfg (fuel + 1) lo cs = [.devErr] := by
  simp only [readAll, h]

/-- **Characterisation of the reader.** For every byte stream `S` whose bodies and residue are
within the limits, every way of cutting `S` into a leftover buffer and device reads, and enough
fuel: successive `Read`s return exactly `outFor` of the bodies of `S`, in order, each once, and then
the device error. -/
theorem readAll_char (cfg : Cfg) : ∀ (n : Nat) (S : Bytes), S.length ≤ n →
    (∀ f ∈ (bodiesOf S).1, f.length < cfg.bufLen ∧ f.length ≤ cfg.maxLen) →
    ((bodiesOf S).2.length < cfg.bufLen ∧ (bodiesOf S).2.length ≤ cfg.maxLen) →
    ∀ (cs : List Bytes) (lo : Bytes), lo ++ cs.flatten = S →
    ∀ fuel, (bodiesOf S).1.length < fuel →
      readAll cfg fuel lo cs = (bodiesOf S).1.map (outFor cfg) ++ [.devErr] := by
  intro n
  induction n with
  | zero =>
    intro S hn hb hr cs lo hS fuel hf
    have hS0 : S = [] := List.eq_nil_of_length_eq_zero (by omega)
    subst hS0
    have hnone : cutAtZero (dropZeros ([] : Bytes)) = none := by simp [dropZeros, cutAtZero]
    rw [bodiesOf_none _ hnone] at hf hr ⊢
    obtain ⟨lo', hread⟩ := read_end cfg cs lo (by rw [hS]; exact hnone) (by rw [hS]; exact hr.1) (by rw [hS]; exact hr.2)
    cases fuel with
    | zero => simp at hf
    | succ fuel => rw [readAll_end cfg fuel lo lo' cs [] hread]; rfl
  | succ n ih =>
    intro S hn hb hr cs lo hS fuel hf
    cases hc : cutAtZero (dropZeros S) with
    | none =>
      rw [bodiesOf_none _ hc] at hf hr ⊢
      obtain ⟨lo', hread⟩ := read_end cfg cs lo (by rw [hS]; exact hc) (by rw [hS]; exact hr.1) (by rw [hS]; exact hr.2)
      cases fuel with
      | zero => simp at hf
      | succ fuel => rw [readAll_end cfg fuel lo lo' cs [] hread]; rfl
    | some fr =>
      obtain ⟨f, rest⟩ := fr
      rw [bodiesOf_some _ _ _ hc] at hf hb hr ⊢
      have hfl := hb f (by simp)
      obtain ⟨lo', cs', hread, hrest⟩ := read_frame cfg f rest hfl.1 hfl.2 cs lo (by rw [hS]; exact hc)
      have hlen : rest.length ≤ n := by
        have h1 := cutAtZero_length _ _ _ hc
        have h2 := dropZeros_length_le S
        have : (dropZeros S).length = f.length + 1 + rest.length := by rw [h1]; simp; omega
        omega
      cases fuel with
      | zero => simp at hf
      | succ fuel =>
        rw [readAll_step cfg fuel lo lo' cs cs' _ hread (outFor_ne_devErr cfg f)]
        simp only [List.length_cons] at hf
        rw [ih rest hlen (fun g hg => hb g (by simp [hg])) hr cs' lo' hrest fuel (by omega)]
        simp

/-! ### the stream written by `CobsWrapper.Write` -/
def stream (fs : List Bytes) : Bytes := fs.flatMap wire

theorem dropZeros_wire (f T : Bytes) : dropZeros (wire f ++ T) = blocks f ++ 0 :: T := by
  obtain ⟨c, t, h, hc⟩ := blocks_head f
  simp only [wire, encode_eq, List.cons_append, dropZeros, if_true, h, if_neg hc]
  simp

theorem bodiesOf_wire (f T : Bytes) :
    bodiesOf (wire f ++ T) = (blocks f :: (bodiesOf T).1, (bodiesOf T).2) := by
  apply bodiesOf_some
  rw [dropZeros_wire, cutAtZero_zf _ _ (blocks_zf f)]

theorem bodiesOf_stream (fs : List Bytes) : bodiesOf (stream fs) = (fs.map blocks, []) := by
  induction fs with
  | nil => rw [stream, List.flatMap_nil, bodiesOf_none] <;> simp [dropZeros, cutAtZero]
  | cons f fs ih =>
    have : stream (f :: fs) = wire f ++ stream fs := by simp [stream]
    rw [this, bodiesOf_wire, ih]; rfl

/-- a zero-free body followed by a delimiter, then anything: first body is exactly that one -/
theorem bodiesOf_junk (j T : Bytes) (hj : ZF j) (hne : j ≠ []) :
    bodiesOf (j ++ 0 :: T) = (j :: (bodiesOf T).1, (bodiesOf T).2) := by
  apply bodiesOf_some
  have : dropZeros (j ++ 0 :: T) = j ++ 0 :: T := by
    cases j with
    | nil => exact absurd rfl hne
    | cons x xs =>
      have hx : x ≠ 0 := hj x (by simp)
      simp [dropZeros, hx]
  rw [this, cutAtZero_zf _ _ hj]

end Siot.Cobs
