import Siot.Model.Rule
/- helper lemmas about the rule state machine (Siot/Model/Rule.lean); property theorems are in Props/C13 -/
namespace Siot.Rule
open Siot

/-- everything of a rule except its `error` text -/
structure SameBut (r r' : Rule) : Prop where
  id : r'.id = r.id
  active : r'.active = r.active
  conds : r'.conds = r.conds
  acts : r'.acts = r.acts
  actsInactive : r'.actsInactive = r.actsInactive

theorem SameBut.rfl' (r : Rule) : SameBut r r := ⟨rfl, rfl, rfl, rfl, rfl⟩
theorem SameBut.trans {a b c : Rule} (h1 : SameBut a b) (h2 : SameBut b c) : SameBut a c :=
  ⟨h2.id.trans h1.id, h2.active.trans h1.active, h2.conds.trans h1.conds, h2.acts.trans h1.acts,
   h2.actsInactive.trans h1.actsInactive⟩

@[simp] theorem send_type (rid n t : Bytes) (v : Nat) (x o : Bytes) : (send rid n t v x o).type = t := by
  unfold send; split <;> rfl
@[simp] theorem send_node (rid n t : Bytes) (v : Nat) (x o : Bytes) : (send rid n t v x o).node = n := by
  unfold send; split <;> rfl
@[simp] theorem send_value (rid n t : Bytes) (v : Nat) (x o : Bytes) : (send rid n t v x o).value = v := by
  unfold send; split <;> rfl
@[simp] theorem send_text (rid n t : Bytes) (v : Nat) (x o : Bytes) : (send rid n t v x o).text = x := by
  unfold send; split <;> rfl
theorem send_origin_other (rid n t : Bytes) (v : Nat) (x o : Bytes) (h : n ≠ rid) : (send rid n t v x o).origin = rid := by
  unfold send; simp [h]

theorem ruleError_same (r : Rule) (e : Bytes) : SameBut r (ruleError r e).1 := by
  unfold ruleError
  simp only
  repeat' split
  all_goals exact ⟨rfl, rfl, rfl, rfl, rfl⟩

theorem ruleError_outs (r : Rule) (e : Bytes) : ∀ o ∈ (ruleError r e).2, o.type = sError := by
  unfold ruleError
  simp only
  intro o ho
  repeat' split at ho
  all_goals first
    | exact absurd ho List.not_mem_nil
    | (simp only [List.mem_singleton] at ho; subst ho; simp)

/-- bookkeeping publications: condition / action / rule `active` and `error` points -/
def Book (o : Out) : Prop := o.type = sActive ∨ o.type = sError

/-! ### conditions -/

theorem evalCond_flags (c : Cond) (a : Bool) (e : Bytes) (n : Bytes) (p : Pt) :
    evalCond { c with active := a, error := e } n p = evalCond c n p := rfl

/-- the verdict a point gives on a condition, when it is evaluated at all -/
def verdict (c : Cond) (n : Bytes) (p : Pt) : Option Bool :=
  match evalCond c n p with
  | .val a _ => some a
  | _ => none

theorem updCond_active (n : Bytes) (p : Pt) (c : Cond) :
    (updCond n p c).active = (verdict c n p).getD c.active := by
  unfold updCond verdict
  split <;> simp_all

theorem evalCond_updCond (n : Bytes) (p : Pt) (c : Cond) (n' : Bytes) (p' : Pt) :
    evalCond (updCond n p c) n' p' = evalCond c n' p' := by
  unfold updCond
  split <;> first | rfl | exact evalCond_flags ..

theorem verdict_updCond (n : Bytes) (p : Pt) (c : Cond) (n' : Bytes) (p' : Pt) :
    verdict (updCond n p c) n' p' = verdict c n' p' := by
  unfold verdict; rw [evalCond_updCond]

theorem condStep_spec (r : Rule) (done : List Cond) (c : Cond) (rest : List Cond) (n : Bytes) (p : Pt) :
    SameBut { r with conds := done ++ updCond n p c :: rest } (condStep r done c rest n p).1 ∧
    ∀ o ∈ (condStep r done c rest n p).2, Book o := by
  unfold condStep
  simp only
  split
  · exact ⟨SameBut.rfl' _, fun o ho => absurd ho List.not_mem_nil⟩
  · refine ⟨ruleError_same _ _, ?_⟩
    intro o ho
    simp only [List.mem_append] at ho
    rcases ho with ho | ho
    · split at ho
      · simp only [List.mem_singleton] at ho; subst ho; exact Or.inr (by simp)
      · exact absurd ho List.not_mem_nil
    · exact Or.inr (ruleError_outs _ _ o ho)
  · refine ⟨ruleError_same _ _, ?_⟩
    intro o ho
    simp only [List.mem_append] at ho
    rcases ho with (ho | ho) | ho
    · split at ho
      · simp only [List.mem_singleton] at ho; subst ho; exact Or.inr (by simp)
      · exact absurd ho List.not_mem_nil
    · exact Or.inr (ruleError_outs _ _ o ho)
    · split at ho
      · simp only [List.mem_singleton] at ho; subst ho; exact Or.inl (by simp)
      · exact absurd ho List.not_mem_nil
  · split
    · refine ⟨ruleError_same _ _, ?_⟩
      intro o ho
      simp only [List.mem_append, List.mem_cons] at ho
      rcases ho with ho | ho | ho
      · split at ho
        · simp only [List.mem_singleton] at ho; subst ho; exact Or.inl (by simp)
        · exact absurd ho List.not_mem_nil
      · subst ho; exact Or.inr (by simp)
      · exact Or.inr (ruleError_outs _ _ o ho)
    · refine ⟨SameBut.rfl' _, ?_⟩
      intro o ho
      split at ho
      · simp only [List.mem_singleton] at ho; subst ho; exact Or.inl (by simp)
      · exact absurd ho List.not_mem_nil

theorem condLoop_spec (n : Bytes) (p : Pt) : ∀ (todo : List Cond) (r : Rule) (done : List Cond),
    r.conds = done ++ todo →
    SameBut { r with conds := done ++ todo.map (updCond n p) } (condLoop n p r done todo).1 ∧
    ∀ o ∈ (condLoop n p r done todo).2, Book o
  | [], r, done, h => by
    simp only [condLoop, List.map_nil, List.append_nil] at *
    exact ⟨⟨rfl, rfl, by simp [h], rfl, rfl⟩, fun o ho => absurd ho List.not_mem_nil⟩
  | c :: rest, r, done, h => by
    simp only [condLoop]
    have hs := condStep_spec r done c rest n p
    have ih := condLoop_spec n p rest (condStep r done c rest n p).1 (done ++ [updCond n p c])
      (by rw [hs.1.conds]; simp)
    refine ⟨?_, ?_⟩
    · have := ih.1
      refine ⟨this.id.trans hs.1.id, this.active.trans hs.1.active, ?_, this.acts.trans hs.1.acts,
        this.actsInactive.trans hs.1.actsInactive⟩
      rw [this.conds]; simp
    · intro o ho
      simp only [List.mem_append] at ho
      rcases ho with ho | ho
      · exact hs.2 o ho
      · exact ih.2 o ho

theorem procPoint_spec (r : Rule) (n : Bytes) (p : Pt) :
    SameBut { r with conds := r.conds.map (updCond n p) } (procPoint r n p).1 ∧
    ∀ o ∈ (procPoint r n p).2, Book o := by
  have := condLoop_spec n p r.conds r [] (by simp)
  simpa [procPoint] using this

/-- a condition after a batch from node `n` -/
def condAfter (n : Bytes) (pts : List Pt) (c : Cond) : Cond := pts.foldl (fun c p => updCond n p c) c

theorem procPoints_spec (n : Bytes) : ∀ (pts : List Pt) (r : Rule),
    SameBut { r with conds := r.conds.map (condAfter n pts) } (procPoints r n pts).1 ∧
    ∀ o ∈ (procPoints r n pts).2, Book o
  | [], r => by
    have hid : condAfter n ([] : List Pt) = id := rfl
    simp only [procPoints, hid, List.map_id]
    exact ⟨SameBut.rfl' _, fun o ho => absurd ho List.not_mem_nil⟩
  | p :: ps, r => by
    simp only [procPoints]
    have h1 := procPoint_spec r n p
    have ih := procPoints_spec n ps (procPoint r n p).1
    refine ⟨?_, ?_⟩
    · have := ih.1
      refine ⟨this.id.trans h1.1.id, this.active.trans h1.1.active, ?_, this.acts.trans h1.1.acts,
        this.actsInactive.trans h1.1.actsInactive⟩
      rw [this.conds]
      simp only [h1.1.conds, List.map_map]
      rfl
    · intro o ho
      simp only [List.mem_append] at ho
      rcases ho with ho | ho
      · exact h1.2 o ho
      · exact ih.2 o ho

theorem verdict_condAfter (n : Bytes) (pts : List Pt) (c : Cond) (n' : Bytes) (p' : Pt) :
    verdict (condAfter n pts c) n' p' = verdict c n' p' := by
  induction pts generalizing c with
  | nil => rfl
  | cons p ps ih =>
    simp only [condAfter, List.foldl_cons] at *
    rw [ih, verdict_updCond]

/-- **latest evaluated point decides**: after a batch, a condition's `active` is the verdict of the LAST
    point of the batch that is evaluated for it, and unchanged if none is -/
theorem condAfter_active (n : Bytes) (pts : List Pt) (c : Cond) :
    (condAfter n pts c).active =
      match (pts.filter (fun p => (verdict c n p).isSome)).getLast? with
      | some p => (verdict c n p).getD c.active
      | none => c.active := by
  induction pts generalizing c with
  | nil => rfl
  | cons p ps ih =>
    have hfold : condAfter n (p :: ps) c = condAfter n ps (updCond n p c) := rfl
    rw [hfold, ih (updCond n p c)]
    simp only [verdict_updCond]
    by_cases hp : (verdict c n p).isSome = true
    · have hf : List.filter (fun p => (verdict c n p).isSome) (p :: ps) = p :: List.filter (fun p => (verdict c n p).isSome) ps := by
        simp [hp]
      rw [hf]
      cases hl : (ps.filter (fun p => (verdict c n p).isSome)).getLast? with
      | some q =>
        have hne : ps.filter (fun p => (verdict c n p).isSome) ≠ [] := by
          intro h; rw [h] at hl; simp at hl
        have hq : (verdict c n q).isSome := by
          have := List.mem_of_getLast? hl
          simp only [List.mem_filter] at this
          exact this.2
        obtain ⟨b, hb⟩ := Option.isSome_iff_exists.mp hq
        rw [List.getLast?_cons_of_ne_nil hne, hl]
        simp [hb]
      | none =>
        have hnil : ps.filter (fun p => (verdict c n p).isSome) = [] := by
          cases h : ps.filter (fun p => (verdict c n p).isSome) with
          | nil => rfl
          | cons a l => rw [h] at hl; simp [List.getLast?_cons] at hl
        simp only [hnil, List.getLast?_singleton]
        rw [updCond_active]
    · have hnone : verdict c n p = none := by
        cases h : verdict c n p with
        | none => rfl
        | some b => simp [h] at hp
      have hf : List.filter (fun p => (verdict c n p).isSome) (p :: ps) = List.filter (fun p => (verdict c n p).isSome) ps := by
        simp [hnone]
      rw [hf]
      cases hl : (ps.filter (fun p => (verdict c n p).isSome)).getLast? with
      | some q =>
        have hq : (verdict c n q).isSome := by
          have := List.mem_of_getLast? hl
          simp only [List.mem_filter] at this
          exact this.2
        obtain ⟨b, hb⟩ := Option.isSome_iff_exists.mp hq
        simp [hb]
      | none =>
        simp only
        rw [updCond_active, hnone]
        rfl

def condAfterL (l : List (Bytes × Pt)) (c : Cond) : Cond := l.foldl (fun c x => updCond x.1 x.2 c) c

theorem condAfterL_append (l1 l2 : List (Bytes × Pt)) (c : Cond) : condAfterL (l1 ++ l2) c = condAfterL l2 (condAfterL l1 c) := by
  simp [condAfterL, List.foldl_append]

theorem condAfter_eq (n : Bytes) (pts : List Pt) (c : Cond) : condAfter n pts c = condAfterL (pts.map (fun p => (n, p))) c := by
  simp [condAfter, condAfterL, List.foldl_map]

/-- the same over any sequence of (node, point) deliveries: after the sequence, a condition's `active` is the verdict of the LAST
    delivery that is evaluated for it, and unchanged if none is -/
theorem condAfterL_active (pts : List (Bytes × Pt)) (c : Cond) :
    (condAfterL pts c).active =
      match (pts.filter (fun p => (verdict c p.1 p.2).isSome)).getLast? with
      | some p => (verdict c p.1 p.2).getD c.active
      | none => c.active := by
  induction pts generalizing c with
  | nil => rfl
  | cons p ps ih =>
    have hfold : condAfterL (p :: ps) c = condAfterL ps (updCond p.1 p.2 c) := rfl
    rw [hfold, ih (updCond p.1 p.2 c)]
    simp only [verdict_updCond]
    by_cases hp : (verdict c p.1 p.2).isSome = true
    · have hf : List.filter (fun p => (verdict c p.1 p.2).isSome) (p :: ps) = p :: List.filter (fun p => (verdict c p.1 p.2).isSome) ps := by
        simp [hp]
      rw [hf]
      cases hl : (ps.filter (fun p => (verdict c p.1 p.2).isSome)).getLast? with
      | some q =>
        have hne : ps.filter (fun p => (verdict c p.1 p.2).isSome) ≠ [] := by
          intro h; rw [h] at hl; simp at hl
        have hq : (verdict c q.1 q.2).isSome := by
          have := List.mem_of_getLast? hl
          simp only [List.mem_filter] at this
          exact this.2
        obtain ⟨b, hb⟩ := Option.isSome_iff_exists.mp hq
        rw [List.getLast?_cons_of_ne_nil hne, hl]
        simp [hb]
      | none =>
        have hnil : ps.filter (fun p => (verdict c p.1 p.2).isSome) = [] := by
          cases h : ps.filter (fun p => (verdict c p.1 p.2).isSome) with
          | nil => rfl
          | cons a l => rw [h] at hl; simp [List.getLast?_cons] at hl
        simp only [hnil, List.getLast?_singleton]
        rw [updCond_active]
    · have hnone : verdict c p.1 p.2 = none := by
        cases h : verdict c p.1 p.2 with
        | none => rfl
        | some b => simp [h] at hp
      have hf : List.filter (fun p => (verdict c p.1 p.2).isSome) (p :: ps) = List.filter (fun p => (verdict c p.1 p.2).isSome) ps := by
        simp [hnone]
      rw [hf]
      cases hl : (ps.filter (fun p => (verdict c p.1 p.2).isSome)).getLast? with
      | some q =>
        have hq : (verdict c q.1 q.2).isSome := by
          have := List.mem_of_getLast? hl
          simp only [List.mem_filter] at this
          exact this.2
        obtain ⟨b, hb⟩ := Option.isSome_iff_exists.mp hq
        simp [hb]
      | none =>
        simp only
        rw [updCond_active, hnone]
        rfl

/-! ### actions -/

theorem getActs_setActs (r : Rule) (w : Which) (l : List Act) : getActs (setActs r w l) w = l := by
  cases w <;> rfl

def other : Which → Which
  | .act => .inact
  | .inact => .act

theorem getActs_setActs_other (r : Rule) (w : Which) (l : List Act) : getActs (setActs r w l) (other w) = getActs r (other w) := by
  cases w <;> rfl

/-- everything except the `error` text and the action list `w` -/
structure SameActs (w : Which) (r r' : Rule) : Prop where
  id : r'.id = r.id
  active : r'.active = r.active
  conds : r'.conds = r.conds
  others : getActs r' (other w) = getActs r (other w)

theorem sameBut_sameActs {w : Which} {r r' : Rule} (h : SameBut r r') : SameActs w r r' ∧ getActs r' w = getActs r w := by
  cases w
  · exact ⟨⟨h.id, h.active, h.conds, h.actsInactive⟩, h.acts⟩
  · exact ⟨⟨h.id, h.active, h.conds, h.acts⟩, h.actsInactive⟩

theorem setActs_sameActs (r : Rule) (w : Which) (l : List Act) : SameActs w r (setActs r w l) := by
  cases w <;> exact ⟨rfl, rfl, rfl, rfl⟩

theorem SameActs.trans {w : Which} {a b c : Rule} (h1 : SameActs w a b) (h2 : SameActs w b c) : SameActs w a c :=
  ⟨h2.id.trans h1.id, h2.active.trans h1.active, h2.conds.trans h1.conds, h2.others.trans h1.others⟩

/-- the payload publications of one action (its set-value point; nothing for an invalid action) -/
def payload (rid : Bytes) (a : Act) : List Out := (actEval rid a).2

/-- what one iteration publishes: the payload first, then bookkeeping only -/
theorem actStep_spec (r : Rule) (w : Which) (done : List Act) (a : Act) (rest : List Act) :
    (SameActs w r (actStep r w done a rest).1 ∧ getActs (actStep r w done a rest).1 w = done ++ updAct r.id a :: rest) ∧
    ∃ bk, (actStep r w done a rest).2 = payload r.id a ++ bk ∧ ∀ o ∈ bk, Book o := by
  unfold actStep payload
  simp only
  have hview := setActs_sameActs r w (done ++ updAct r.id a :: rest)
  have hget := getActs_setActs r w (done ++ updAct r.id a :: rest)
  split
  · rename_i e os heq
    have hs := ruleError_same (setActs r w (done ++ updAct r.id a :: rest)) e
    obtain ⟨h1, h2⟩ := @sameBut_sameActs w _ _ hs
    refine ⟨⟨hview.trans h1, h2.trans hget⟩, ?_⟩
    have hos : os = [] := by
      unfold actEval at heq
      split at heq
      · split at heq
        · simp only [Prod.mk.injEq] at heq; exact heq.2.symm
        · split at heq
          · simp only [Prod.mk.injEq] at heq; exact heq.2.symm
          · simp at heq
      · split at heq
        · simp only [Prod.mk.injEq] at heq; exact heq.2.symm
        · simp only [Prod.mk.injEq] at heq; exact heq.2.symm
    rw [heq]
    simp only [hos, List.nil_append]
    refine ⟨_, rfl, ?_⟩
    intro o ho
    simp only [List.mem_append, List.mem_singleton] at ho
    rcases ho with (ho | ho) | ho
    · split at ho
      · simp only [List.mem_singleton] at ho; subst ho; exact Or.inr (by simp)
      · exact absurd ho List.not_mem_nil
    · exact Or.inr (ruleError_outs _ _ o ho)
    · subst ho; exact Or.inl (by simp)
  · rename_i os heq
    rw [heq]
    simp only
    split
    · have hs := ruleError_same (setActs r w (done ++ updAct r.id a :: rest)) []
      obtain ⟨h1, h2⟩ := @sameBut_sameActs w _ _ hs
      refine ⟨⟨hview.trans h1, h2.trans hget⟩, ?_⟩
      refine ⟨_, List.append_assoc _ _ _, ?_⟩
      intro o ho
      simp only [List.mem_append, List.mem_cons, List.not_mem_nil, or_false] at ho
      rcases ho with ho | ho | ho
      · subst ho; exact Or.inl (by simp)
      · subst ho; exact Or.inr (by simp)
      · exact Or.inr (ruleError_outs _ _ o ho)
    · refine ⟨⟨hview, hget⟩, ?_⟩
      refine ⟨_, rfl, ?_⟩
      intro o ho
      simp only [List.mem_singleton] at ho
      subst ho; exact Or.inl (by simp)

/-- publications of a run of actions, as segments: each action's payload followed by bookkeeping -/
inductive Segs (rid : Bytes) : List Act → List Out → Prop where
  | nil : Segs rid [] []
  | cons (a : Act) (as : List Act) (bk rest : List Out) : (∀ o ∈ bk, Book o) → Segs rid as rest →
      Segs rid (a :: as) (payload rid a ++ bk ++ rest)

theorem actLoop_spec (w : Which) : ∀ (todo : List Act) (r : Rule) (done : List Act),
    getActs r w = done ++ todo →
    (SameActs w r (actLoop w r done todo).1 ∧
      getActs (actLoop w r done todo).1 w = done ++ todo.map (updAct r.id)) ∧
    Segs r.id todo (actLoop w r done todo).2
  | [], r, done, h => by
    simp only [actLoop, List.map_nil, List.append_nil] at *
    exact ⟨⟨⟨rfl, rfl, rfl, rfl⟩, h⟩, .nil⟩
  | a :: rest, r, done, h => by
    simp only [actLoop]
    obtain ⟨⟨hs1, hs2⟩, bk, hbk, hbook⟩ := actStep_spec r w done a rest
    have ih := actLoop_spec w rest (actStep r w done a rest).1 (done ++ [updAct r.id a]) (by rw [hs2]; simp)
    obtain ⟨⟨ih1, ih2⟩, ih3⟩ := ih
    rw [hs1.id] at ih2 ih3
    refine ⟨⟨hs1.trans ih1, ?_⟩, ?_⟩
    · rw [ih2]; simp
    · rw [hbk]
      exact .cons a rest bk _ hbook ih3

theorem Segs_count (rid : Bytes) (as : List Act) (outs : List Out) (h : Segs rid as outs) (o : Out) (ho : ¬ Book o) :
    outs.count o = (as.flatMap (payload rid)).count o := by
  induction h with
  | nil => rfl
  | cons a as bk rest hbk _ ih =>
    simp only [List.count_append, List.flatMap_cons, ih]
    have : bk.count o = 0 := by
      rw [List.count_eq_zero]
      intro hm
      exact ho (hbk o hm)
    omega


theorem runActions_spec (r : Rule) (w : Which) :
    (SameActs w r (runActions r w).1 ∧ getActs (runActions r w).1 w = (getActs r w).map (updAct r.id)) ∧
    Segs r.id (getActs r w) (runActions r w).2 := by
  have := actLoop_spec w (getActs r w) r [] (by simp)
  simpa [runActions] using this

theorem inactiveActions_spec (r : Rule) (w : Which) :
    SameActs w r (inactiveActions r w).1 ∧ (inactiveActions r w).1.error = r.error ∧
    getActs (inactiveActions r w).1 w = (getActs r w).map (fun a => { a with active := false }) ∧
    (inactiveActions r w).2 = (getActs r w).map (fun a => send r.id a.id sActive (b2f false) [] []) := by
  refine ⟨setActs_sameActs _ _ _, ?_, getActs_setActs _ _ _, rfl⟩
  cases w <;> rfl

theorem other_other (w : Which) : other (other w) = w := by cases w <;> rfl

/-- the two lists of `fire`: the one that runs and the one marked inactive -/
def firedList (active : Bool) : Which := if active then .act else .inact

theorem fire_eq (r : Rule) (active : Bool) :
    fire r active =
      ((inactiveActions (runActions r (firedList active)).1 (other (firedList active))).1,
       (runActions r (firedList active)).2 ++ (inactiveActions (runActions r (firedList active)).1 (other (firedList active))).2) := by
  cases active <;> rfl

theorem fire_spec (r : Rule) (active : Bool) :
    let w := firedList active
    (fire r active).1.id = r.id ∧ (fire r active).1.active = r.active ∧ (fire r active).1.conds = r.conds ∧
    getActs (fire r active).1 w = (getActs r w).map (updAct r.id) ∧
    getActs (fire r active).1 (other w) = (getActs r (other w)).map (fun a => { a with active := false }) ∧
    ∃ o1, Segs r.id (getActs r w) o1 ∧
      (fire r active).2 = o1 ++ (getActs r (other w)).map (fun a => send r.id a.id sActive (b2f false) [] []) := by
  intro w
  rw [fire_eq]
  obtain ⟨⟨h1, h2⟩, h3⟩ := runActions_spec r w
  obtain ⟨g1, _, g3, g4⟩ := inactiveActions_spec (runActions r w).1 (other w)
  simp only
  refine ⟨g1.id.trans h1.id, g1.active.trans h1.active, g1.conds.trans h1.conds, ?_, ?_, ?_⟩
  · have := g1.others
    rw [other_other] at this
    rw [this, h2]
  · rw [g3, h1.others]
  · refine ⟨_, h3, ?_⟩
    rw [g4, h1.others, h1.id]

theorem ruleProcessPoints_spec (r : Rule) (n : Bytes) (pts : List Pt) :
    let pr := ruleProcessPoints r n pts
    pr.rule.id = r.id ∧ pr.rule.conds = r.conds.map (condAfter n pts) ∧ pr.rule.acts = r.acts ∧
    pr.rule.actsInactive = r.actsInactive ∧
    pr.rule.active = pr.rule.conds.all (·.active) ∧ pr.active = pr.rule.active ∧
    (pr.changed = true ↔ pr.rule.active ≠ r.active) ∧ ∀ o ∈ pr.outs, Book o := by
  have hp := procPoints_spec n pts r
  obtain ⟨hs, ho⟩ := hp
  unfold ruleProcessPoints
  simp only
  split
  · rename_i hne
    refine ⟨hs.id, hs.conds, hs.acts, hs.actsInactive, rfl, rfl, ?_, ?_⟩
    · simp only [true_iff]
      rw [← hs.active]
      exact hne
    · intro o hm
      simp only [List.mem_append, List.mem_singleton] at hm
      rcases hm with hm | hm
      · exact ho o hm
      · subst hm; exact Or.inl (by simp)
  · rename_i heq
    have heq' : List.all (procPoints r n pts).1.conds (fun x => x.active) = (procPoints r n pts).1.active := by
      simpa using heq
    refine ⟨hs.id, hs.conds, hs.acts, hs.actsInactive, heq'.symm, heq', ?_, ho⟩
    simp only [Bool.false_eq_true, false_iff, ne_eq, Decidable.not_not]
    exact hs.active


theorem runBatch_nonempty (r : Rule) (n : Bytes) (pts : List Pt) (now : Int) (h : pts ≠ []) :
    runBatch r n pts now =
      if (ruleProcessPoints r n pts).changed = true then
        ((fire (ruleProcessPoints r n pts).rule (ruleProcessPoints r n pts).active).1,
         (ruleProcessPoints r n pts).outs ++ (fire (ruleProcessPoints r n pts).rule (ruleProcessPoints r n pts).active).2)
      else ((ruleProcessPoints r n pts).rule, (ruleProcessPoints r n pts).outs) := by
  unfold runBatch
  simp only [h, ne_eq, not_false_eq_true, if_true]
  cases (ruleProcessPoints r n pts).changed <;> rfl

theorem runBatch_empty (r : Rule) (n : Bytes) (now : Int) :
    runBatch r n [] now =
      ((fire (ruleProcessPoints r r.id [⟨sTrigger, [], 0, [], now⟩]).rule (ruleProcessPoints r r.id [⟨sTrigger, [], 0, [], now⟩]).active).1,
       (ruleProcessPoints r r.id [⟨sTrigger, [], 0, [], now⟩]).outs ++
         (fire (ruleProcessPoints r r.id [⟨sTrigger, [], 0, [], now⟩]).rule (ruleProcessPoints r r.id [⟨sTrigger, [], 0, [], now⟩]).active).2) := by
  unfold runBatch
  simp

end Siot.Rule
