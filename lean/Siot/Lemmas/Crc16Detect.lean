import Siot.Lemmas.Crc16Order
namespace Siot.Crc16
open Siot

theorem xor_eq_zero (a b : Nat) (h : a ^^^ b = 0) : a = b := by
  have := xcl a b
  rw [h, Nat.xor_zero] at this
  exact this

def zeros (n : Nat) : List Bool := List.replicate n false

/-! ### error patterns on the bit string (transmission order) -/

/-- **burst**: `i` clean bits, a one, at most 15 arbitrary bits, then clean bits -/
theorem burst_detected (i m : Nat) (w : List Bool) (hw : w.length ≤ 15) :
    run 0 (zeros i ++ (true :: w) ++ zeros m) ≠ 0 := by
  rw [run_append, run_append]
  have h0 : run 0 (zeros i) = 0 := run_zero_zeros i
  rw [h0]
  have h1 : run 0 (true :: w) = run poly w := by simp only [run, step_one_zero]
  rw [h1]
  have hne : run poly w ≠ 0 := by
    apply run_ne_zero w poly poly_lt
    have : 2 ^ w.length ≤ 2 ^ 15 := Nat.pow_le_pow_right (by omega) hw
    have : (2:Nat) ^ 15 ≤ poly := by decide
    omega
  intro h
  exact hne (run_zeros_eq_zero m _ (run_lt w poly poly_lt) h)

theorem step_true (s : Nat) : step s true = step s false ^^^ poly := by
  have := step_xor s 0 false true
  simp only [Nat.xor_zero, step_one_zero] at this
  simpa using this

/-- **two bit errors** at distance `d`, `0 < d < 32767` -/
theorem two_bits_detected (i m d : Nat) (h1 : 1 ≤ d) (h2 : d < 32767) :
    run 0 (zeros i ++ [true] ++ zeros (d - 1) ++ [true] ++ zeros m) ≠ 0 := by
  rw [run_append, run_append, run_append, run_append]
  have h0 : run 0 (zeros i) = 0 := run_zero_zeros i
  rw [h0]
  have hp : run 0 [true] = poly := by simp only [run, step_one_zero]
  rw [hp]
  have hs : run (run poly (zeros (d - 1))) [true] = iterA d poly ^^^ poly := by
    simp only [run]
    rw [step_true]
    have : iterA d poly = step (run poly (zeros (d - 1))) false := by
      have hd : d = (d - 1) + 1 := by omega
      rw [hd, iterA_add]
      simp [iterA, run, zeros]
    rw [this]
  rw [hs]
  have hlt : iterA d poly ^^^ poly < 2 ^ 16 :=
    Nat.xor_lt_two_pow (run_lt _ _ poly_lt) poly_lt
  intro h
  have := run_zeros_eq_zero m _ hlt h
  exact iterA_poly_ne d h1 h2 (xor_eq_zero _ _ this)

/-! ### the trailer: appending the CRC little-endian gives syndrome zero -/
def bitsLSB (k c : Nat) : List Bool := (List.range k).map (fun i => c.testBit i)

theorem bitsLSB_succ (k c : Nat) : bitsLSB (k + 1) c = c.testBit 0 :: bitsLSB k (c / 2) := by
  simp only [bitsLSB, List.range_succ_eq_map, List.map_cons, List.map_map]
  congr 1
  apply List.map_congr_left
  intro i _
  simp [Nat.testBit_div_two]

theorem run_bitsLSB (k : Nat) : ∀ s c, c < 2 ^ k → run s (bitsLSB k c) = iterA k (s ^^^ c) := by
  induction k with
  | zero =>
    intro s c hc
    have : c = 0 := by simp at hc; exact hc
    subst this
    simp [bitsLSB, run, iterA]
  | succ k ih =>
    intro s c hc
    rw [bitsLSB_succ, run, ih _ _ (by rw [Nat.pow_succ] at hc; omega), iterA_succ]
    congr 1
    have h := step_xor s c (c.testBit 0) (c.testBit 0)
    simp only [bne_self_eq_false] at h
    rw [h]
    congr 1
    unfold step
    rcases Nat.mod_two_eq_zero_or_one c with h0 | h0 <;> simp [Nat.testBit_zero, h0]

theorem iterA_zero (k : Nat) : iterA k 0 = 0 := run_zero_zeros k

theorem bits8_eq (v : UInt8) : bits8 v = bitsLSB 8 v.toNat := by
  simp [bits8, bitsLSB, List.range_succ_eq_map]

theorem bitsLSB_16 (lo hi : Nat) (hlo : lo < 256) :
    bitsLSB 8 lo ++ bitsLSB 8 hi = bitsLSB 16 (lo + 256 * hi) := by
  have ht : ∀ j, (lo + 256 * hi).testBit j = if j < 8 then lo.testBit j else hi.testBit (j - 8) := by
    intro j
    have := Nat.testBit_two_pow_mul_add hi (b := lo) (i := 8) (by omega) j
    rw [show (2:Nat)^8 * hi + lo = lo + 256 * hi by omega] at this
    exact this
  simp only [bitsLSB, List.range_succ_eq_map, List.map_cons, List.map_map, List.range_zero, List.map_nil,
    List.cons_append, List.nil_append, ht]
  simp

/-- a packet whose last two bytes are the little-endian CRC of the rest has syndrome zero -/
theorem syndrome_zero (body : Bytes) (lo hi : UInt8) (h : ofLe16 lo hi = crc body) :
    run 0 (bitsOf (body ++ [lo, hi])) = 0 := by
  unfold bitsOf
  rw [List.flatMap_append, run_append]
  have hb : List.flatMap bits8 [lo, hi] = bitsLSB 16 (ofLe16 lo hi) := by
    simp only [List.flatMap_cons, List.flatMap_nil, List.append_nil, bits8_eq]
    exact bitsLSB_16 lo.toNat hi.toNat (UInt8.toNat_lt lo)
  rw [hb, run_bitsLSB 16 _ _ (by unfold ofLe16; have := UInt8.toNat_lt lo; have := UInt8.toNat_lt hi; omega), h]
  show iterA 16 (run 0 (bitsOf body) ^^^ crc body) = 0
  unfold crc
  rw [Nat.xor_self, iterA_zero]

/-! ### bytes and bits -/
def xorBytes : Bytes → Bytes → Bytes
  | a :: as, b :: bs => (a ^^^ b) :: xorBytes as bs
  | _, _ => []

theorem bxor_bne (x y : Bool) : (x ^^ y) = (x != y) := by cases x <;> cases y <;> rfl

theorem bits8_xor (a b : UInt8) : bits8 (a ^^^ b) = xorBits (bits8 a) (bits8 b) := by
  simp only [bits8, xorBits, UInt8.toNat_xor, Nat.testBit_xor, bxor_bne]

theorem xorBits_append (a b c d : List Bool) (h : a.length = b.length) :
    xorBits (a ++ c) (b ++ d) = xorBits a b ++ xorBits c d := by
  induction a generalizing b with
  | nil => cases b with
    | nil => rfl
    | cons _ _ => simp at h
  | cons x a ih => cases b with
    | nil => simp at h
    | cons y b => simp only [List.cons_append, xorBits]; rw [ih b (by simpa using h)]

theorem bitsOf_xor (a : Bytes) : ∀ b : Bytes, a.length = b.length →
    bitsOf (xorBytes a b) = xorBits (bitsOf a) (bitsOf b) := by
  induction a with
  | nil => intro b h; cases b with
    | nil => rfl
    | cons _ _ => simp at h
  | cons x a ih =>
    intro b h
    cases b with
    | nil => simp at h
    | cons y b =>
      simp only [xorBytes, bitsOf, List.flatMap_cons]
      rw [xorBits_append _ _ _ _ (by simp [bits8]), bits8_xor]
      congr 1
      exact ih b (by simpa using h)

theorem bitsOf_length (a : Bytes) : (bitsOf a).length = 8 * a.length := by
  induction a with
  | nil => rfl
  | cons x a ih =>
    have : bitsOf (x :: a) = bits8 x ++ bitsOf a := rfl
    rw [this, List.length_append, ih]
    simp [bits8]; omega

/-- linearity at the byte level: the syndrome of a corrupted packet is the syndrome of the packet
    xor the syndrome of the error pattern -/
theorem syndrome_xor (p e : Bytes) (h : p.length = e.length) :
    run 0 (bitsOf (xorBytes p e)) = run 0 (bitsOf p) ^^^ run 0 (bitsOf e) := by
  rw [bitsOf_xor p e h]
  have := run_xor (bitsOf p) (bitsOf e) 0 0 (by rw [bitsOf_length, bitsOf_length, h])
  simpa using this

end Siot.Crc16
