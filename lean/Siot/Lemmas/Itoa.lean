import Siot.Model.Config
namespace Siot.Config
open Siot

/-- the number obtained by writing the decimal digits of `n` after those of `a` -/
def shiftDec (a : Nat) : Nat → Nat → Nat
  | 0, n => a * 10 + n
  | fuel + 1, n => if n < 10 then a * 10 + n else shiftDec a fuel (n / 10) * 10 + n % 10

theorem shiftDec_zero : ∀ (fuel n : Nat), n < 10 ^ (fuel + 1) → shiftDec 0 fuel n = n := by
  intro fuel
  induction fuel with
  | zero => intro n _; simp [shiftDec]
  | succ f ih =>
    intro n h
    simp only [shiftDec]
    split
    · omega
    · rw [ih (n / 10) (by rw [Nat.pow_succ] at h; omega)]; omega

theorem digit_byte (d : Nat) (h : d < 10) : (UInt8.ofNat (48 + d)).toNat = 48 + d := by
  simp [UInt8.toNat_ofNat']; omega

theorem digitsVal_itoaAux : ∀ (fuel n : Nat) (acc : Bytes) (a : Nat), n < 10 ^ fuel → 0 < fuel →
    digitsVal (itoaAux fuel n acc) a = digitsVal acc (shiftDec a (fuel - 1) n) := by
  intro fuel
  induction fuel with
  | zero => intro n acc a _ h; omega
  | succ f ih =>
    intro n acc a hn _
    simp only [itoaAux]
    have hd : (UInt8.ofNat (48 + n % 10)).toNat = 48 + n % 10 := digit_byte _ (Nat.mod_lt _ (by omega))
    split
    · rename_i hlt
      have h10 : n % 10 = n := Nat.mod_eq_of_lt hlt
      simp only [digitsVal, hd]
      rw [if_pos (by omega)]
      cases f with
      | zero => simp [shiftDec, h10]
      | succ f' => simp [shiftDec, hlt, h10]
    · rename_i hge
      cases f with
      | zero => simp at hn; omega
      | succ f' =>
        rw [ih (n / 10) _ a (by rw [Nat.pow_succ] at hn; omega) (by omega)]
        simp only [digitsVal, hd]
        rw [if_pos (by omega)]
        simp only [Nat.add_sub_cancel, shiftDec, hge, if_false]
        congr 1; omega

theorem lt_ten_pow (n : Nat) : n < 10 ^ (n + 1) := by
  induction n with
  | zero => simp
  | succ k ih => rw [Nat.pow_succ]; omega

def HeadDigit (l : Bytes) : Prop := ∃ d rest, l = d :: rest ∧ 48 ≤ d.toNat ∧ d.toNat ≤ 57

theorem itoaAux_head : ∀ (fuel n : Nat) (acc : Bytes), (fuel = 0 → HeadDigit acc) → HeadDigit (itoaAux fuel n acc) := by
  intro fuel
  induction fuel with
  | zero => intro n acc h; exact h rfl
  | succ f ih =>
    intro n acc _
    simp only [itoaAux]
    have hd : (UInt8.ofNat (48 + n % 10)).toNat = 48 + n % 10 := digit_byte _ (Nat.mod_lt _ (by omega))
    have hm : n % 10 < 10 := Nat.mod_lt _ (by omega)
    split
    · exact ⟨_, acc, rfl, by omega, by omega⟩
    · exact ih _ _ (fun _ => ⟨_, acc, rfl, by omega, by omega⟩)

theorem itoa_head (n : Nat) : HeadDigit (itoa n) := itoaAux_head (n + 1) n [] (by omega)

/-- **`strconv.Atoi (strconv.Itoa n) = n`** for every index that fits an int64 -/
theorem atoi_itoa (n : Nat) (h : n ≤ 9223372036854775807) : atoi (itoa n) = some (n : Int) := by
  obtain ⟨d, rest, hrest, h1, h2⟩ := itoa_head n
  have hv : digitsVal (itoa n) 0 = some n := by
    unfold itoa
    rw [digitsVal_itoaAux (n + 1) n [] 0 (lt_ten_pow n) (by omega)]
    simp only [digitsVal, Nat.add_sub_cancel]
    rw [shiftDec_zero n n (lt_ten_pow n)]
  unfold atoi
  rw [hrest] at hv ⊢
  have n43 : d ≠ 43 := by intro hh; rw [hh] at h1; simp at h1
  have n45 : d ≠ 45 := by intro hh; rw [hh] at h1; simp at h1
  split
  · rename_i ds heq; injection heq with h' _; exact absurd h'.symm (fun x => n43 x.symm)
  · rename_i ds heq; injection heq with h' _; exact absurd h'.symm (fun x => n45 x.symm)
  · simp only [List.isEmpty_cons, Bool.false_eq_true, if_false, hv, h, if_true]

theorem itoa_nonempty (n : Nat) : (itoa n).isEmpty = false := by
  obtain ⟨d, rest, hrest, _, _⟩ := itoa_head n
  rw [hrest]; rfl

end Siot.Config
