import Siot.Lemmas.ConfigRoundtrip2
namespace Siot.Config
open Siot

/-- a field value inside the supported universe of C10 -/
def FOk : FieldTy → FVal → Prop
  | .scalar k, .scalar v => SOk k v
  | .ptr _, .ptr none => True
  | .ptr k, .ptr (some v) => SOk k v
  | .slice k, .slice vs => vs.length ≤ 1000 ∧ ∀ v ∈ vs, SOk k v
  | .array n k, .array vs => vs.length = n ∧ n ≤ 1000 ∧ ∀ v ∈ vs, SOk k v
  | .map k, .map kvs => kvs.length ≤ 1000 ∧ (∀ kv ∈ kvs, kv.1 ≠ [] ∧ SOk k kv.2) ∧ (kvs.map (·.1)).Nodup
  | .struct fs, .struct vs => fs.length = vs.length ∧ fs.length ≤ 1000 ∧ (fs.map (·.1)).Nodup ∧ ∀ fv ∈ fs.zip vs, SOk fv.1.2 fv.2
  | .ptrStruct fs, .ptrStruct none => fs.length ≤ 1000
  | .ptrStruct fs, .ptrStruct (some vs) =>
    fs ≠ [] ∧ fs.length = vs.length ∧ fs.length ≤ 1000 ∧ (fs.map (·.1)).Nodup ∧ ∀ fv ∈ fs.zip vs, SOk fv.1.2 fv.2
  | _, _ => False

theorem foldl_groupStep_points (ps : List Point) : ∀ g, (ps.foldl groupStep g).points = g.points ++ ps := by
  induction ps with
  | nil => intro g; simp
  | cons p ps ih =>
    intro g
    simp only [List.foldl_cons]
    rw [ih]
    have : (groupStep g p).points = g.points ++ [p] := by
      unfold groupStep
      cases keyIdx p <;> simp only [] <;> (try split) <;> (try split) <;> rfl
    rw [this]; simp

/-- what decoding one field's own points into the zero value gives -/
def FieldRT (N : Num) (ty : FieldTy) (v : FVal) (ps : List Point) : Prop :=
  (ps = [] ∧ v = zeroF ty) ∨ (ps ≠ [] ∧ setValue N (ps.foldl groupStep {}) ty (zeroF ty) = (v, .ok))

theorem tomb_fold_clears (pt : Bytes) (keys : List Bytes) :
    ∀ (acc : List Bytes), (∀ a ∈ acc, a ∈ keys) →
      (keys.map (fun key => ({ type := pt, key := key, tomb := 1 } : Point))).foldl (fun (acc : List Bytes) p =>
        if tombOdd p.tomb then acc.filter (· != p.key) else if acc.contains p.key then acc else acc ++ [p.key]) acc = [] := by
  induction keys with
  | nil =>
    intro acc h
    cases acc with
    | nil => rfl
    | cons a _ => exact absurd (h a (by simp)) List.not_mem_nil
  | cons key keys ih =>
    intro acc h
    simp only [List.map_cons, List.foldl_cons, tombOdd_one, if_true]
    apply ih
    intro a ha
    simp only [List.mem_filter, bne_iff_ne, ne_eq] at ha
    have := h a ha.1
    simp only [List.mem_cons] at this
    rcases this with rfl | h'
    · exact absurd rfl ha.2
    · exact h'

theorem live_fold_keeps (ps : List Point) :
    ∀ (acc : List Bytes), (∀ p ∈ ps, p.tomb = 0 ∧ p.key ∈ acc) →
      ps.foldl (fun (acc : List Bytes) p =>
        if tombOdd p.tomb then acc.filter (· != p.key) else if acc.contains p.key then acc else acc ++ [p.key]) acc = acc := by
  induction ps with
  | nil => intro acc _; rfl
  | cons p ps ih =>
    intro acc h
    obtain ⟨ht, hk⟩ := h p (by simp)
    simp only [List.foldl_cons, ht, tombOdd_zero, Bool.false_eq_true, if_false]
    have : acc.contains p.key = true := by simpa using hk
    rw [this, if_pos rfl]
    exact ih acc (fun q hq => h q (by simp [hq]))

/-- **Field round trip.** For every field type and every value of it in the supported universe,
`appendPointsFromValue` succeeds, produces points of the field's type only, and grouping those
points and running `SetValue` on the zero value yields the value back. -/
theorem field_roundtrip (N : Num) (hN : NumLaws N) (pt : Bytes) (ty : FieldTy) (v : FVal) (h : FOk ty v) :
    ∃ ps, encodeField N pt ty v = .ok ps ∧ (∀ p ∈ ps, p.type = pt) ∧ FieldRT N ty v ps := by
  cases ty <;> cases v <;> simp only [FOk] at h
  case scalar.scalar k x =>
    obtain ⟨p, hp, ht, _, htb, hs⟩ := keyed_setScalar N hN pt [] k x h
    refine ⟨[p], by simp [encodeField, hp, Res.map'], by simp [ht], Or.inr ⟨by simp, ?_⟩⟩
    simp only [setValue, foldl_groupStep_points, zeroF]
    simp [setScalars, hs]
  case ptr.ptr k xo =>
    cases xo with
    | none =>
      refine ⟨[{ type := pt, tomb := 1 }], rfl, by simp, Or.inr ⟨by simp, ?_⟩⟩
      simp only [setValue, foldl_groupStep_points, zeroF]
      simp [setPtrs, tombOdd_one]
    | some x =>
      obtain ⟨p, hp, ht, _, htb, hs⟩ := keyed_setScalar N hN pt [] k x h
      refine ⟨[p], by simp [encodeField, hp, Res.map'], by simp [ht], Or.inr ⟨by simp, ?_⟩⟩
      simp only [setValue, foldl_groupStep_points, zeroF]
      simp [setPtrs, htb, tombOdd_zero, hs]
  case slice.slice k vs =>
    obtain ⟨hl, hall⟩ := h
    obtain ⟨ps, hps, hidx⟩ := encIdx_spec N hN pt k vs 0 hall
    refine ⟨ps, by simp only [encodeField]; rw [if_neg (by unfold maxStructureSize; omega)]; exact hps, hidx.types, ?_⟩
    have hlen := hidx.length_eq
    cases hvs : vs with
    | nil =>
      left
      rw [hvs] at hlen
      exact ⟨List.eq_nil_of_length_eq_zero hlen, rfl⟩
    | cons v0 vrest =>
      right
      have hne : ps ≠ [] := by intro h0; rw [h0, hvs] at hlen; simp at hlen
      refine ⟨hne, ?_⟩
      rw [← hvs]
      obtain ⟨g1, g2, g3⟩ := group_idx N pt k ps vs 0 {} hidx (by omega) rfl rfl
      simp only at g1 g2 g3
      have hpos : 1 ≤ ps.length := by rw [hlen, hvs]; simp
      simp only [setValue, zeroF, g1, g2, g3, List.isEmpty_nil, Bool.not_true, Bool.false_eq_true, if_false,
        List.length_nil, List.nil_append, maxStructureSize]
      rw [if_neg (by omega), if_pos (by omega)]
      have hrep : (((0 : Nat) : Int) + (ps.length : Int) - 1 + 1).toNat - 0 = vs.length := by omega
      rw [hrep]
      have := setIndexed_idx N pt k ps vs 0 hidx (by omega) [] (List.replicate vs.length (zeroS k)) [] rfl (by simp)
      simp only [List.nil_append] at this
      rw [this]
      simp [trimLen_nil]
  case array.array n k vs =>
    obtain ⟨hn, hl, hall⟩ := h
    obtain ⟨ps, hps, hidx⟩ := encIdx_spec N hN pt k vs 0 hall
    refine ⟨ps, by simp only [encodeField]; rw [if_neg (by unfold maxStructureSize; omega)]; exact hps, hidx.types, ?_⟩
    have hlen := hidx.length_eq
    cases hvs : vs with
    | nil =>
      left
      rw [hvs] at hlen hn
      refine ⟨List.eq_nil_of_length_eq_zero hlen, ?_⟩
      simp at hn; subst hn; rfl
    | cons v0 vrest =>
      right
      have hne : ps ≠ [] := by intro h0; rw [h0, hvs] at hlen; simp at hlen
      refine ⟨hne, ?_⟩
      rw [← hvs]
      obtain ⟨g1, g2, g3⟩ := group_idx N pt k ps vs 0 {} hidx (by omega) rfl rfl
      simp only at g1 g2 g3
      simp only [setValue, zeroF, g1, g2, g3, List.isEmpty_nil, Bool.not_true, Bool.false_eq_true, if_false,
        List.nil_append, maxStructureSize]
      rw [if_neg (by omega), if_neg (by omega)]
      have := setIndexed_idx N pt k ps vs 0 hidx (by omega) [] (List.replicate n (zeroS k)) [] rfl (by simp [hn])
      simp only [List.nil_append] at this
      rw [this]
  case map.map k kvs =>
    obtain ⟨hl, hall, hnd⟩ := h
    obtain ⟨ps, hps, hm⟩ := encMap_spec N hN pt k kvs (fun kv hkv => (hall kv hkv).2)
    refine ⟨ps, by simp only [encodeField]; rw [if_neg (by unfold maxStructureSize; omega)]; exact hps, hm.types.1, ?_⟩
    have hlen := hm.types.2
    cases hkvs : kvs with
    | nil =>
      left
      rw [hkvs] at hlen
      exact ⟨List.eq_nil_of_length_eq_zero hlen, rfl⟩
    | cons kv0 krest =>
      right
      have hne : ps ≠ [] := by intro h0; rw [h0, hkvs] at hlen; simp at hlen
      refine ⟨hne, ?_⟩
      rw [← hkvs]
      simp only [setValue, zeroF, foldl_groupStep_points, List.nil_append, maxStructureSize]
      rw [if_neg (by have := List.length_filter_le (fun p => !tombOdd p.tomb) ps; omega)]
      have := setMap_enc N pt k ps kvs hm (fun kv hkv => (hall kv hkv).1) hnd [] (fun a ha => absurd ha List.not_mem_nil)
      rw [this]; rfl
  case struct.struct fs vs =>
    obtain ⟨hl, hsz, hnd, hall⟩ := h
    obtain ⟨ps, hps, hsp⟩ := encStruct_spec N hN pt fs vs hl hall
    obtain ⟨f1, f2, f3⟩ := hsp.facts
    refine ⟨ps, by simp only [encodeField]; rw [if_neg (by unfold maxStructureSize; omega)]; exact hps, fun p hp => (f1 p hp).1, ?_⟩
    cases hps0 : ps with
    | nil =>
      left
      rw [hps0] at f2
      have hfs : fs = [] := by simpa using f2.symm
      subst hfs
      have : vs = [] := List.eq_nil_of_length_eq_zero (by simpa using hl.symm)
      subst this
      exact ⟨rfl, rfl⟩
    | cons p0 prest =>
      right
      refine ⟨by simp, ?_⟩
      rw [← hps0]
      simp only [setValue, zeroF, foldl_groupStep_points, List.nil_append]
      rw [setStruct_enc N pt ps ps fs vs hsp (fun p hp => hp) (by rw [f2]; exact hnd) _ (by simp)]
  case ptrStruct.ptrStruct fs vo =>
    cases vo with
    | none =>
      refine ⟨fs.map (fun f => { type := pt, key := f.1, tomb := 1 }), by simp only [encodeField]; rw [if_neg (by unfold maxStructureSize; omega)],
        by intro p hp; simp only [List.mem_map] at hp; obtain ⟨f, _, rfl⟩ := hp; rfl, ?_⟩
      cases hfs : fs with
      | nil => left; exact ⟨rfl, rfl⟩
      | cons f0 frest =>
        right
        refine ⟨by simp, ?_⟩
        rw [← hfs]
        simp only [setValue, zeroF, foldl_groupStep_points, List.nil_append]
        have hclear := tomb_fold_clears pt (fs.map (·.1)) (fs.map (·.1)) (fun a ha => ha)
        simp only [List.map_map] at hclear
        have hfun : (fun key => ({ type := pt, key := key, tomb := 1 } : Point)) ∘ (fun (x : Bytes × SKind) => x.1)
            = (fun (f : Bytes × SKind) => ({ type := pt, key := f.1, tomb := 1 } : Point)) := rfl
        rw [hfun] at hclear
        rw [hclear]; rfl
    | some vs =>
      obtain ⟨hne, hl, hsz, hnd, hall⟩ := h
      obtain ⟨ps, hps, hsp⟩ := encStruct_spec N hN pt fs vs hl hall
      obtain ⟨f1, f2, f3⟩ := hsp.facts
      refine ⟨ps, by simp only [encodeField]; rw [if_neg (by unfold maxStructureSize; omega)]; exact hps, fun p hp => (f1 p hp).1, ?_⟩
      right
      have hpsne : ps ≠ [] := by
        intro h0; rw [h0] at f2
        exact hne (by simpa using f2.symm)
      refine ⟨hpsne, ?_⟩
      simp only [setValue, zeroF, foldl_groupStep_points, List.nil_append]
      have hkeep := live_fold_keeps ps (fs.map (·.1)) (fun p hp => ⟨(f1 p hp).2, by
        rw [← f2]; exact List.mem_map_of_mem (f := (·.key)) hp⟩)
      rw [hkeep]
      have hve : (fs.map (·.1)).isEmpty = false := by
        cases fs with
        | nil => exact absurd rfl hne
        | cons _ _ => rfl
      rw [hve]
      simp only [Bool.false_eq_true, if_false, Option.getD_none]
      rw [setStruct_enc N pt ps ps fs vs hsp (fun p hp => hp) (by rw [f2]; exact hnd) _ (by simp)]

end Siot.Config
