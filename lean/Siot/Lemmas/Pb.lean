import Siot.Model.Pb
namespace Siot.Pb
open Siot Siot.Proto3

theorem mapRes_no_panic {α β : Type} (f : α → Res β) (h : ∀ a m, f a ≠ .panic m) :
    ∀ (l : List α) m, mapRes f l ≠ .panic m := by
  intro l
  induction l with
  | nil => intro m h'; simp [mapRes] at h'
  | cons a as ih =>
    intro m
    simp only [mapRes]
    cases hfa : f a with
    | ok b =>
      cases hm : mapRes f as with
      | ok bs => simp
      | err e => simp
      | panic m' => exact absurd hm (ih m')
    | err e => simp
    | panic m' => exact absurd hfa (h a m')

theorem mapRes_no_panic_mem {α β : Type} (f : α → Res β) (l : List α) (m : String)
    (h : ∀ a ∈ l, ∀ m', f a ≠ .panic m') : mapRes f l ≠ .panic m := by
  induction l generalizing m with
  | nil => simp [mapRes]
  | cons a as ih =>
    simp only [mapRes]
    cases hfa : f a with
    | ok b =>
      cases hm : mapRes f as with
      | ok bs => simp
      | err e => simp
      | panic m' => exact absurd hm (ih m' (fun x hx => h x (by simp [hx])))
    | err e => simp
    | panic m' => exact absurd hfa (h a (by simp) m')

theorem mapRes_ok {α β : Type} (f : α → Res β) (g : α → β) (l : List α) (h : ∀ a ∈ l, f a = .ok (g a)) :
    mapRes f l = .ok (l.map g) := by
  induction l with
  | nil => rfl
  | cons a as ih =>
    simp only [mapRes, h a (by simp), ih (fun x hx => h x (by simp [hx])), List.map_cons]

theorem pbToPoint_no_panic (q : PbPoint) (m : String) : pbToPoint q ≠ .panic m := by
  unfold pbToPoint
  cases q.time with
  | none => simp
  | some ts => simp only []; split <;> simp

theorem pbToNode_no_panic (q : Option PbNode) (m : String) : pbToNode q ≠ .panic m := by
  unfold pbToNode
  cases q with
  | none => simp
  | some q =>
    simp only []
    have h1 := mapRes_no_panic pbToPoint pbToPoint_no_panic q.points
    have h2 := mapRes_no_panic pbToPoint pbToPoint_no_panic q.edgePoints
    cases hp : mapRes pbToPoint q.points with
    | panic m' => exact absurd hp (h1 m')
    | err e => simp
    | ok ps =>
      cases he : mapRes pbToPoint q.edgePoints with
      | panic m' => exact absurd he (h2 m')
      | err e => simp
      | ok es => simp

/-- a time inside the Timestamp range, nanoseconds normalised -/
def WireTime (p : Point) : Prop :=
  minValidSeconds ≤ p.sec ∧ p.sec < maxValidSeconds ∧ 0 ≤ p.nsec ∧ p.nsec < 1000000000

def Int32 (i : Int) : Prop := -2147483648 ≤ i ∧ i ≤ 2147483647

theorem toInt32_ofInt64 (i : Int) (h : Int32 i) : toInt32 (ofInt64 i) = i := by
  unfold toInt32 ofInt64 Int32 at *
  obtain ⟨h1, h2⟩ := h
  have hm : ((i % 18446744073709551616).toNat : Int) = i % 18446744073709551616 :=
    Int.toNat_of_nonneg (Int.emod_nonneg _ (by omega))
  generalize (i % 18446744073709551616).toNat = n at hm
  simp only []
  split <;> omega

theorem validTs_of_wire (p : Point) (h : WireTime p) : validTs ⟨p.sec, p.nsec⟩ = true := by
  obtain ⟨h1, h2, h3, h4⟩ := h
  simp [validTs, h1, h2, h3, h4]

end Siot.Pb
