import Siot.Model.Cobs
namespace Siot.Cobs
open Siot

/-! ### bytes -/
theorem u8_ofNat_toNat (n : Nat) (h : n < 256) : (UInt8.ofNat n).toNat = n := by
  simp [UInt8.toNat_ofNat', Nat.mod_eq_of_lt h]

theorem u8_ne_zero_iff (b : UInt8) : b ≠ 0 ↔ b.toNat ≠ 0 := by
  constructor
  · intro h h2; apply h; exact UInt8.toNat_inj.mp (by simpa using h2)
  · intro h h2; apply h; rw [h2]; rfl

theorem u8_ofNat_ne_zero (n : Nat) (h0 : 0 < n) (h : n < 256) : UInt8.ofNat n ≠ 0 := by
  rw [u8_ne_zero_iff, u8_ofNat_toNat n h]; omega

def ZF (l : Bytes) : Prop := ∀ b ∈ l, b ≠ 0

/-! ### splitting on zero -/
def join (r : Bytes) (rs : List Bytes) : Bytes := r ++ rs.flatMap (fun x => 0 :: x)

theorem join_splitZ (p : Bytes) : join (splitZ p).1 (splitZ p).2 = p := by
  induction p with
  | nil => rfl
  | cons b rest ih =>
    cases hs : splitZ rest with
    | mk r rs =>
      rw [hs] at ih
      simp only [join] at ih
      simp only [splitZ, hs]
      split
      · rename_i h; subst h
        simp only [join, List.nil_append, List.flatMap_cons, List.cons_append]
        rw [ih]
      · simp only [join, List.cons_append]; rw [ih]

theorem splitZ_zf (p : Bytes) : ZF (splitZ p).1 ∧ ∀ r ∈ (splitZ p).2, ZF r := by
  induction p with
  | nil => exact ⟨fun _ hb => absurd hb List.not_mem_nil, fun _ hr => absurd hr List.not_mem_nil⟩
  | cons b rest ih =>
    cases hs : splitZ rest with
    | mk r0 rs =>
      rw [hs] at ih
      simp only [splitZ, hs]
      split
      · refine ⟨fun _ hb => absurd hb List.not_mem_nil, ?_⟩
        intro r hr
        simp only [List.mem_cons] at hr
        rcases hr with rfl | hr
        · exact ih.1
        · exact ih.2 r hr
      · rename_i h
        refine ⟨?_, ih.2⟩
        intro x hx
        simp only [List.mem_cons] at hx
        rcases hx with rfl | hx
        · exact h
        · exact ih.1 x hx

theorem u8_255_ne : (255 : UInt8) ≠ 0 := by simp

/-! ### decoder loop over one block -/
theorem decLoop_block (off : Nat) (hoff : off ≤ 255) (data : Bytes) (hz : ZF data) :
    ∀ (iOff : Nat) (out rest : Bytes), iOff + data.length < off →
      decLoop off iOff out (data ++ rest) = decLoop off (iOff + data.length) (out ++ data) rest := by
  induction data with
  | nil => intro iOff out rest _; simp
  | cons b data ih =>
    intro iOff out rest h
    simp only [List.length_cons] at h
    have hb : b ≠ 0 := hz b (by simp)
    have hm : (iOff + 1) % 256 = iOff + 1 := Nat.mod_eq_of_lt (by omega)
    simp only [List.cons_append, decLoop, hm]
    rw [if_neg (by omega), if_neg hb]
    rw [ih (fun x hx => hz x (by simp [hx])) (iOff + 1) (out ++ [b]) rest (by omega)]
    simp only [List.length_cons, List.append_assoc, List.singleton_append]
    congr 1; omega

def zsep (prev : Nat) : Bytes := if prev ≠ 255 then [0] else []

theorem atCode_code (prev : Nat) (h1 : 1 ≤ prev) (h2 : prev ≤ 255) (out : Bytes) (c : UInt8)
    (hc : c ≠ 0) (rest : Bytes) :
    decLoop prev (prev - 1) out (c :: rest) = decLoop c.toNat 0 (out ++ zsep prev) rest := by
  have hm : (prev - 1 + 1) % 256 = prev := by rw [Nat.mod_eq_of_lt (by omega)]; omega
  simp only [decLoop, hm, if_true, if_neg hc, zsep]
  split <;> simp

theorem atCode_zero (prev : Nat) (h1 : 1 ≤ prev) (h2 : prev ≤ 255) (out rest : Bytes) :
    decLoop prev (prev - 1) out (0 :: rest) = .ok out := by
  have hm : (prev - 1 + 1) % 256 = prev := by rw [Nat.mod_eq_of_lt (by omega)]; omega
  simp only [decLoop, hm, if_true]

/-! ### one run -/
theorem encRun_dec (r : Bytes) (hz : ZF r) :
    ∀ (prev : Nat) (out rest : Bytes), 1 ≤ prev → prev ≤ 255 →
      decLoop prev (prev - 1) out (encRun r ++ rest) =
        decLoop (r.length % 254 + 1) (r.length % 254) (out ++ zsep prev ++ r) rest := by
  induction r using encRun.induct with
  | case1 ch hlen ih =>
    intro prev out rest h1 h2
    rw [encRun, dif_pos hlen]
    have hzt : ZF (ch.take 254) := fun b hb => hz b (List.mem_of_mem_take hb)
    have hzd : ZF (ch.drop 254) := fun b hb => hz b (List.mem_of_mem_drop hb)
    have htl : (ch.take 254).length = 254 := by simp only [List.length_take]; omega
    rw [List.cons_append, atCode_code prev h1 h2 out 255 u8_255_ne]
    have h255 : (255 : UInt8).toNat = 255 := rfl
    rw [h255, List.append_assoc,
      decLoop_block 255 (by omega) (ch.take 254) hzt 0 _ _ (by omega)]
    rw [htl]
    have := ih hzd 255 (out ++ zsep prev ++ ch.take 254) rest (by omega) (by omega)
    simp only [Nat.zero_add] at this ⊢
    rw [this]
    have hl : (ch.drop 254).length % 254 = ch.length % 254 := by
      simp only [List.length_drop]
      omega
    have hz255 : zsep 255 = [] := by simp [zsep]
    rw [hl, hz255, List.append_nil, List.append_assoc (out ++ zsep prev), List.take_append_drop]
  | case2 ch hlen =>
    intro prev out rest h1 h2
    rw [encRun, dif_neg hlen]
    have hl : ch.length < 254 := by omega
    have hc : UInt8.ofNat (ch.length + 1) ≠ 0 := u8_ofNat_ne_zero _ (by omega) (by omega)
    rw [List.cons_append, atCode_code prev h1 h2 out _ hc, u8_ofNat_toNat _ (by omega)]
    rw [decLoop_block (ch.length + 1) (by omega) ch hz 0 _ _ (by omega)]
    simp only [Nat.zero_add, Nat.mod_eq_of_lt hl]

theorem encRun_head (r : Bytes) : ∃ c t, encRun r = c :: t ∧ c ≠ 0 := by
  rw [encRun]
  split
  · exact ⟨255, _, rfl, u8_255_ne⟩
  · rename_i h
    exact ⟨_, _, rfl, u8_ofNat_ne_zero _ (by omega) (by omega)⟩

theorem encRun_zf (r : Bytes) (hz : ZF r) : ZF (encRun r) := by
  induction r using encRun.induct with
  | case1 ch hlen ih =>
    rw [encRun, dif_pos hlen]
    intro b hb
    simp only [List.mem_cons, List.mem_append] at hb
    rcases hb with rfl | hb | hb
    · exact u8_255_ne
    · exact hz b (List.mem_of_mem_take hb)
    · exact ih (fun b hb => hz b (List.mem_of_mem_drop hb)) b hb
  | case2 ch hlen =>
    rw [encRun, dif_neg hlen]
    intro b hb
    simp only [List.mem_cons] at hb
    rcases hb with rfl | hb
    · exact u8_ofNat_ne_zero _ (by omega) (by omega)
    · exact hz b hb

/-! ### all runs -/
theorem runs_dec (rs : List Bytes) (hz : ∀ r ∈ rs, ZF r) :
    ∀ (prev : Nat) (out : Bytes), 1 ≤ prev → prev < 255 →
      decLoop prev (prev - 1) out (rs.flatMap encRun ++ [0]) = .ok (out ++ rs.flatMap (fun x => 0 :: x)) := by
  induction rs with
  | nil => intro prev out h1 h2; simp [atCode_zero prev h1 (by omega)]
  | cons r rs ih =>
    intro prev out h1 h2
    simp only [List.flatMap_cons, List.append_assoc]
    rw [encRun_dec r (hz r (by simp)) prev out _ h1 (by omega)]
    have hlt : r.length % 254 < 254 := Nat.mod_lt _ (by omega)
    have := ih (fun x hx => hz x (by simp [hx])) (r.length % 254 + 1) (out ++ zsep prev ++ r) (by omega) (by omega)
    simp only [Nat.add_sub_cancel] at this
    rw [this]
    have : zsep prev = [0] := by simp [zsep]; omega
    simp [this]

/-- the blocks of a frame (its encoding without the terminator) -/
def blocks (p : Bytes) : Bytes := encodeRuns (splitZ p).1 (splitZ p).2

theorem encode_eq (p : Bytes) : encode p = blocks p ++ [0] := rfl

theorem blocks_zf (p : Bytes) : ZF (blocks p) := by
  unfold blocks encodeRuns
  intro b hb
  simp only [List.mem_append, List.mem_flatMap] at hb
  rcases hb with hb | ⟨r, hr, hb⟩
  · exact encRun_zf _ (splitZ_zf p).1 b hb
  · exact encRun_zf _ ((splitZ_zf p).2 r hr) b hb

theorem blocks_head (p : Bytes) : ∃ c t, blocks p = c :: t ∧ c ≠ 0 := by
  obtain ⟨c, t, h, hc⟩ := encRun_head (splitZ p).1
  exact ⟨c, t ++ (splitZ p).2.flatMap encRun, by simp [blocks, encodeRuns, h], hc⟩

theorem decStart_blocks (p : Bytes) : decStart (0 :: (blocks p ++ [0])) = .ok p := by
  obtain ⟨c, t, h, hc⟩ := encRun_head (splitZ p).1
  have h1 : decStart (0 :: (blocks p ++ [0])) = decLoop 255 254 [] (blocks p ++ [0]) := by
    simp only [decStart, if_true, blocks, encodeRuns, h, List.cons_append, if_neg hc]
    have := atCode_code 255 (by omega) (by omega) [] c hc (t ++ ((splitZ p).2.flatMap encRun ++ [0]))
    simp only [zsep] at this
    simpa using this.symm
  rw [h1]
  unfold blocks encodeRuns
  rw [List.append_assoc, encRun_dec _ (splitZ_zf p).1 255 [] _ (by omega) (by omega)]
  have hlt : (splitZ p).1.length % 254 < 254 := Nat.mod_lt _ (by omega)
  have := runs_dec (splitZ p).2 (splitZ_zf p).2 ((splitZ p).1.length % 254 + 1)
    ([] ++ zsep 255 ++ (splitZ p).1) (by omega) (by omega)
  simp only [Nat.add_sub_cancel] at this
  rw [this]
  have hj := join_splitZ p
  simp only [join] at hj
  simp [zsep, hj]

end Siot.Cobs
