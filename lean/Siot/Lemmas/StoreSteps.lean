import Siot.Lemmas.StoreInv
namespace Siot.Store
open Siot

/-- the abstract graph of a store state -/
def gOf (st : St) : G :=
  { keys := keysOf st.edges,
    nodeC := fun n => xs ((ptsOf st n).map pcrc),
    own := fun k => xs ((eptsOf st k.1 k.2).map pcrc) }

/-- stored hashes equal the Merkle hash of the content (as a proposition) -/
def HashInvP (st : St) : Prop := ∀ k ∈ keysOf st.edges, defect (gOf st) (hOf st.edges) k = 0

/-- acyclic with a rank function bounded by the model's fuel -/
def Ranked (st : St) : Prop :=
  ∃ r : Bytes → Nat, (∀ k ∈ keysOf st.edges, r k.1 < r k.2) ∧ ∀ x, r x < 2 ^ st.edges.length

structure Inv (st : St) : Prop where
  nodup : (keysOf st.edges).Nodup
  ranked : Ranked st
  epinv : ∀ row ∈ st.edgePts, row.1 ∈ keysOf st.edges
  npu : ∀ id, IdUnique (ptsOf st id)
  epu : ∀ k : EK, IdUnique (eptsOf st k.1 k.2)
  hash : HashInvP st

theorem xor_eq_zero_iff (a b : Nat) : a ^^^ b = 0 ↔ a = b := by
  constructor
  · intro h
    have := xcancel a b
    rw [h, Nat.xor_zero] at this
    exact this
  · intro h; rw [h, Nat.xor_self]

theorem bumpF_keys (g g' : G) (hk : g.keys = g'.keys) : ∀ fuel n δ h, bumpF g fuel n δ h = bumpF g' fuel n δ h := by
  intro fuel
  induction fuel with
  | zero => intro n δ h; rfl
  | succ fuel ih =>
    intro n δ h
    simp only [bumpF, parentsK, hk]
    congr 1
    funext h e
    exact ih e.1 δ _

/-- changing the checksum of node `n` by δ changes the defect of exactly the edges into `n` -/
theorem defect_nodeC (g g' : G) (hk : g'.keys = g.keys) (ho : g'.own = g.own) (n : Bytes) (δ : Nat)
    (hc : ∀ x, g'.nodeC x = if x = n then g.nodeC x ^^^ δ else g.nodeC x) (h : EK → Nat) (f : EK) :
    defect g' h f = defect g h f ^^^ ite0 (f.2 = n) δ := by
  unfold defect calcF kidsK
  rw [hk, ho, hc f.2]
  unfold ite0
  split
  · generalize h f = a; generalize g.nodeC f.2 = b; generalize g.own f = c
    generalize xs (List.map h (List.filter (fun c => c.1 == f.2) g.keys)) = d
    ac_rfl
  · simp

/-- changing the own checksum of edge `e` by δ changes the defect of exactly `e` -/
theorem defect_own (g g' : G) (hk : g'.keys = g.keys) (hn : g'.nodeC = g.nodeC) (e : EK) (δ : Nat)
    (hc : ∀ x, g'.own x = if x = e then g.own x ^^^ δ else g.own x) (h : EK → Nat) (f : EK) :
    defect g' h f = defect g h f ^^^ ite0 (f = e) δ := by
  unfold defect calcF kidsK
  rw [hk, hn, hc f]
  unfold ite0
  split
  · generalize h f = a; generalize g.nodeC f.2 = b; generalize g.own f = c
    generalize xs (List.map h (List.filter (fun c => c.1 == f.2) g.keys)) = d
    ac_rfl
  · simp

/-! ### rows of one owner after a write -/
theorem ptsOf_write (st : St) (id : Bytes) (rows : List Point) (n : Bytes) :
    ((st.nodePts.filter (fun r => r.1 != id) ++ rows.map (fun p => (id, p))).filter (fun r => r.1 == n)).map (·.2) =
      if n = id then rows else ptsOf st n := by
  rw [List.filter_append, List.map_append]
  by_cases hn : n = id
  · subst hn
    simp only [if_true]
    have h1 : (st.nodePts.filter (fun r => r.1 != n)).filter (fun r => r.1 == n) = [] := by
      rw [List.filter_filter]
      apply List.filter_eq_nil_iff.mpr
      intro r _
      by_cases h : r.1 = n <;> simp [h]
    have h2 : (rows.map (fun p => (n, p))).filter (fun r => r.1 == n) = rows.map (fun p => (n, p)) := by
      apply List.filter_eq_self.mpr
      intro r hr
      simp only [List.mem_map] at hr
      obtain ⟨p, _, rfl⟩ := hr
      simp
    rw [h1, h2]
    simp only [List.map_nil, List.nil_append, List.map_map]
    conv => rhs; rw [← List.map_id rows]
    apply List.map_congr_left
    intro p _; rfl
  · simp only [hn, if_false]
    have h1 : (st.nodePts.filter (fun r => r.1 != id)).filter (fun r => r.1 == n) = st.nodePts.filter (fun r => r.1 == n) := by
      rw [List.filter_filter]
      apply List.filter_congr
      intro r _
      by_cases h : r.1 = n
      · have : r.1 ≠ id := fun h' => hn (h.symm.trans h')
        simp [h, this]
        exact fun h' => hn h'
      · simp [h]
    have h2 : (rows.map (fun p => (id, p))).filter (fun r => r.1 == n) = [] := by
      apply List.filter_eq_nil_iff.mpr
      intro r hr
      simp only [List.mem_map] at hr
      obtain ⟨p, _, rfl⟩ := hr
      simp only [beq_iff_eq]
      exact fun h => hn h.symm
    rw [h1, h2]
    simp [ptsOf]

end Siot.Store

namespace Siot.Store
open Siot

theorem keysOf_length (es : List Edge) : (keysOf es).length = es.length := by simp [keysOf]

theorem length_of_keys_eq (a b : List Edge) (h : keysOf a = keysOf b) : a.length = b.length := by
  have := congrArg List.length h
  simpa [keysOf] using this

/-- **`nodePoints` preserves the invariant** (unique keys, acyclicity, unique identities, and
stored hash = Merkle hash). -/
theorem nodePoints_inv (st st' : St) (id : Bytes) (pts : List Point) (hinv : Inv st)
    (h : nodePoints st id pts = .ok st') : Inv st' := by
  unfold nodePoints at h
  split at h
  · cases h
  · simp only [] at h
    injection h with h
    obtain ⟨hu, hδ⟩ := mergeBatch_spec (collapse (pts.map normPoint)) (ptsOf st id) (hinv.npu id)
    generalize hmb : mergeBatch (ptsOf st id) (collapse (pts.map normPoint)) = mb at h hu hδ
    obtain ⟨rows, δ⟩ := mb
    simp only [] at h hu hδ
    obtain ⟨r, hr1, hr2⟩ := hinv.ranked
    have hbr := bump_bridge (2 ^ st.edges.length) st.edges (gOf st) rfl id δ
    have hkeys : keysOf st'.edges = keysOf st.edges := by rw [← h]; exact hbr.1
    have hlen : st'.edges.length = st.edges.length := length_of_keys_eq _ _ hkeys
    have hpts : ∀ n, ptsOf st' n = if n = id then rows else ptsOf st n := by
      intro n; rw [← h]; exact ptsOf_write st id rows n
    have hepts : ∀ k : EK, eptsOf st' k.1 k.2 = eptsOf st k.1 k.2 := by
      intro k; rw [← h]; rfl
    refine ⟨by rw [hkeys]; exact hinv.nodup, ⟨r, by rw [hkeys]; exact hr1, by rw [hlen]; exact hr2⟩,
      by rw [hkeys, ← h]; exact hinv.epinv, ?_, ?_, ?_⟩
    · intro n
      rw [hpts n]
      split
      · exact hu
      · exact hinv.npu n
    · intro k; rw [hepts k]; exact hinv.epu k
    · -- hashes
      intro k hk
      rw [hkeys] at hk
      have hg' : defect (gOf st') (hOf st'.edges) k = defect (gOf st) (hOf st'.edges) k ^^^ ite0 (k.2 = id) δ := by
        apply defect_nodeC (gOf st) (gOf st') (by simp only [gOf]; exact hkeys)
          (by funext x; simp only [gOf]; rw [hepts x]) id δ
        intro x
        simp only [gOf]
        rw [hpts x]
        split
        · rename_i hx; subst hx; exact hδ
        · rfl
      have hh : hOf st'.edges = bumpF (gOf st) (2 ^ st.edges.length) id δ (hOf st.edges) := by rw [← h]; exact hbr.2
      rw [hg', hh]
      rw [bumpF_defect (gOf st) r ⟨hinv.nodup, hr1⟩ δ _ id (hr2 id) (hOf st.edges) k hk]
      rw [hinv.hash k hk, Nat.zero_xor]
      unfold ite0; split <;> simp

end Siot.Store
