import Siot.Model.Serial
import Siot.Lemmas.Bits
namespace Siot.Serial
open Siot Siot.Crc16

theorem crc_lt (b : Bytes) : crc b < 2 ^ 16 := run_lt _ 0 (by omega)

theorem u8_ofNat_toNat' (n : Nat) (h : n < 256) : (UInt8.ofNat n).toNat = n := by
  simp [UInt8.toNat_ofNat', Nat.mod_eq_of_lt h]

theorem ofLe16_le16 (c : Nat) (h : c < 65536) :
    ofLe16 (UInt8.ofNat (c % 256)) (UInt8.ofNat (c / 256 % 256)) = c := by
  unfold ofLe16
  rw [u8_ofNat_toNat' _ (by omega), u8_ofNat_toNat' _ (by omega)]
  omega

/-- an accepted non-log packet ends in the little-endian CRC of everything before it -/
theorem decode_accept (d : Bytes) (r : Decoded) (h : decode d = .ok r) (hlog : r.subject ≠ logSubject) :
    ∃ body lo hi, d = body ++ [lo, hi] ∧ ofLe16 lo hi = crc body := by
  unfold decode at h
  cases d with
  | nil => simp at h
  | cons seq rest =>
    simp only at h
    split at h
    · cases h
    · split at h
      · injection h with h; subst h; exact absurd (by assumption) hlog
      · split at h
        · cases h
        · split at h
          · rename_i lo hi hdrop
            split at h
            · rename_i hcrc
              refine ⟨(seq :: rest).take ((seq :: rest).length - 2), lo, hi, ?_, hcrc⟩
              rw [← hdrop, List.take_append_drop]
            · cases h
          · cases h

/-- the subject field of a packet -/
def field (d : Bytes) : Bytes := (d.drop 1).take 16

/-- an accepted packet whose subject is `log` has a field that trims to `log` -/
theorem decode_subject (d : Bytes) (r : Decoded) (h : decode d = .ok r) : r.subject = trimNul (field d) := by
  unfold decode at h
  cases d with
  | nil => simp at h
  | cons seq rest =>
    simp only at h
    split at h
    · cases h
    · split at h
      · injection h with h; subst h; rfl
      · split at h
        · cases h
        · split at h
          · split at h
            · injection h with h; subst h; rfl
            · cases h
          · cases h

end Siot.Serial

namespace Siot.Serial
open Siot Siot.Crc16

theorem padSubject_length (sub : Bytes) (h : sub.length ≤ 16) : (padSubject sub).length = 16 := by
  simp [padSubject, subjectWidth]; omega

theorem dwz_replicate (n : Nat) (t : Bytes) : dropWhileZero (List.replicate n 0 ++ t) = dropWhileZero t := by
  induction n with
  | zero => rfl
  | succ n ih => simp only [List.replicate_succ, List.cons_append, dropWhileZero, if_true]; exact ih

theorem dwz_nonzero_head (a : Bytes) (t : Bytes) (h : dropWhileZero a = a) (hne : a ≠ []) :
    dropWhileZero (a ++ t) = a ++ t := by
  cases a with
  | nil => exact absurd rfl hne
  | cons x xs =>
    simp only [dropWhileZero] at h
    by_cases hx : x = 0
    · -- then dropWhileZero would be strictly shorter
      rw [if_pos hx] at h
      have hl : ∀ l : Bytes, (dropWhileZero l).length ≤ l.length := by
        intro l; induction l with
        | nil => simp [dropWhileZero]
        | cons y ys ih => simp only [dropWhileZero]; split <;> simp <;> omega
      have := hl xs
      rw [h] at this; simp at this; omega
    · simp only [List.cons_append, dropWhileZero, if_neg hx]

/-- a subject without leading or trailing NUL bytes -/
def NulSafe (sub : Bytes) : Prop := dropWhileZero sub = sub ∧ dropWhileZero sub.reverse = sub.reverse

instance (sub : Bytes) : Decidable (NulSafe sub) := by unfold NulSafe; infer_instance

theorem trimNul_pad (sub : Bytes) (h : NulSafe sub) : trimNul (padSubject sub) = sub := by
  unfold trimNul padSubject
  by_cases hne : sub = []
  · subst hne
    simp only [List.nil_append]
    have : dropWhileZero (List.replicate (subjectWidth - ([] : Bytes).length) 0) = [] := by
      have := dwz_replicate (subjectWidth - ([] : Bytes).length) []
      simpa [dropWhileZero] using this
    rw [this]; rfl
  · rw [dwz_nonzero_head sub _ h.1 hne, List.reverse_append, List.reverse_replicate, dwz_replicate, h.2,
      List.reverse_reverse]

theorem le16_eq (c : Nat) : le16 c = [UInt8.ofNat (c % 256), UInt8.ofNat (c / 256 % 256)] := rfl

end Siot.Serial
