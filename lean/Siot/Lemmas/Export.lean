import Siot.Model.Export
/- helper lemmas for C15 (Siot/Model/Export.lean): the id map of ReplaceIDs -/
namespace Siot.Export
open Siot Siot.Store

/-- every binding of `s` is still the binding in `t` -/
def Ext (s t : RS) : Prop := ∀ k v, lookupId s.map k = some v → lookupId t.map k = some v

theorem Ext.refl (s : RS) : Ext s s := fun _ _ h => h
theorem Ext.trans {a b c : RS} (h1 : Ext a b) (h2 : Ext b c) : Ext a c := fun k v h => h2 k v (h1 k v h)

/-- values of the map are distinct fresh ids drawn so far -/
structure MapInv (fresh : Nat → Bytes) (s : RS) : Prop where
  nodup : (s.map.map (·.2)).Nodup
  drawn : ∀ x ∈ s.map, ∃ k, k < s.next ∧ x.2 = fresh k

theorem lookupId_append_some (m x : List (Bytes × Bytes)) (k v : Bytes) (h : lookupId m k = some v) : lookupId (m ++ x) k = some v := by
  unfold lookupId at *
  rw [List.find?_append]
  cases hf : m.find? (fun y => y.1 == k) with
  | none => simp [hf] at h
  | some y => simp [hf] at h ⊢; exact h

theorem lookupId_append_new (m : List (Bytes × Bytes)) (k v : Bytes) (h : lookupId m k = none) : lookupId (m ++ [(k, v)]) k = some v := by
  unfold lookupId at *
  rw [List.find?_append]
  cases hf : m.find? (fun y => y.1 == k) with
  | none => simp
  | some y => simp [hf] at h

theorem lookupId_mem (m : List (Bytes × Bytes)) (k v : Bytes) (h : lookupId m k = some v) : (k, v) ∈ m := by
  unfold lookupId at h
  cases hf : m.find? (fun y => y.1 == k) with
  | none => simp [hf] at h
  | some y =>
    simp only [hf, Option.some.injEq] at h
    have hm := List.mem_of_find?_eq_some hf
    have hk := List.find?_some hf
    simp only [beq_iff_eq] at hk
    have : y = (k, v) := by rw [← hk, ← h]
    rw [← this]; exact hm

theorem mapId_spec (fresh : Nat → Bytes) (hinj : Function.Injective fresh) (s : RS) (old : Bytes) (h : MapInv fresh s) :
    MapInv fresh (mapId fresh s old).2 ∧ Ext s (mapId fresh s old).2 ∧ (mapId fresh s old).2.next ≥ s.next ∧
    lookupId (mapId fresh s old).2.map old = some (mapId fresh s old).1 := by
  unfold mapId
  cases hl : lookupId s.map old with
  | some n => exact ⟨h, Ext.refl s, Nat.le_refl _, hl⟩
  | none =>
    simp only
    refine ⟨⟨?_, ?_⟩, ?_, Nat.le_succ _, lookupId_append_new _ _ _ hl⟩
    · simp only [List.map_append, List.map_cons, List.map_nil]
      rw [List.nodup_append]
      refine ⟨h.nodup, by simp, ?_⟩
      intro a ha b hb
      simp only [List.mem_singleton] at hb
      subst hb
      simp only [List.mem_map] at ha
      obtain ⟨x, hx, rfl⟩ := ha
      obtain ⟨k, hk, hxk⟩ := h.drawn x hx
      rw [hxk]
      intro e
      have := hinj e
      exact absurd this (Nat.ne_of_lt hk)
    · intro x hx
      simp only [List.mem_append, List.mem_singleton] at hx
      rcases hx with hx | rfl
      · obtain ⟨k, hk, hxk⟩ := h.drawn x hx
        exact ⟨k, Nat.lt_succ_of_lt hk, hxk⟩
      · exact ⟨s.next, Nat.lt_succ_self _, rfl⟩
    · intro k v hk
      exact lookupId_append_some _ _ _ _ hk

/-- renaming of the node-id points of a node by a map -/
def renPts (σ : Bytes → Option Bytes) (ps : List Point) : List Point :=
  ps.map (fun p => if p.type = nodeIDT ∧ p.text ≠ [] then { p with text := (σ p.text).getD p.text } else p)

theorem replPts_spec (fresh : Nat → Bytes) (hinj : Function.Injective fresh) : ∀ (ps : List Point) (s : RS), MapInv fresh s →
    MapInv fresh (replPts fresh s ps).2 ∧ Ext s (replPts fresh s ps).2 ∧ (replPts fresh s ps).2.next ≥ s.next ∧
    ∀ t, Ext (replPts fresh s ps).2 t → (replPts fresh s ps).1 = renPts (lookupId t.map) ps := by
  intro ps
  induction ps with
  | nil => intro s h; exact ⟨h, Ext.refl s, Nat.le_refl _, fun _ _ => rfl⟩
  | cons p ps ih =>
    intro s h
    by_cases hc : p.type = nodeIDT ∧ p.text ≠ []
    · have e : replPts fresh s (p :: ps) =
          ({ p with text := (mapId fresh s p.text).1 } :: (replPts fresh (mapId fresh s p.text).2 ps).1,
           (replPts fresh (mapId fresh s p.text).2 ps).2) := by
        simp only [replPts]; rw [if_pos hc]
      rw [e]
      obtain ⟨m1, m2, m3, m4⟩ := mapId_spec fresh hinj s p.text h
      obtain ⟨i1, i2, i3, i4⟩ := ih (mapId fresh s p.text).2 m1
      refine ⟨i1, m2.trans i2, Nat.le_trans m3 i3, ?_⟩
      intro t ht
      have hl : lookupId t.map p.text = some (mapId fresh s p.text).1 := ht _ _ (i2 _ _ m4)
      simp only [renPts, List.map_cons]
      rw [if_pos hc, hl]
      have := i4 t ht
      simp only [renPts] at this
      rw [this]
      rfl
    · have e : replPts fresh s (p :: ps) = (p :: (replPts fresh s ps).1, (replPts fresh s ps).2) := by
        simp only [replPts]; rw [if_neg hc]
      rw [e]
      obtain ⟨i1, i2, i3, i4⟩ := ih s h
      refine ⟨i1, i2, i3, ?_⟩
      intro t ht
      simp only [renPts, List.map_cons]
      rw [if_neg hc]
      have := i4 t ht
      simp only [renPts] at this
      rw [this]

/-- a node after ReplaceIDs, relative to a map σ: same type and edge points, id renamed (a blank id gets
    some id), node-id points renamed -/
def Renamed (σ : Bytes → Option Bytes) (a b : Nat × NodeRec) : Prop :=
  b.1 = a.1 ∧ b.2.typ = a.2.typ ∧ b.2.epts = a.2.epts ∧ (a.2.id ≠ [] → σ a.2.id = some b.2.id) ∧
  b.2.pts = renPts σ a.2.pts

theorem replNode_spec (fresh : Nat → Bytes) (hinj : Function.Injective fresh) (s : RS) (par : Bytes) (n : NodeRec) (h : MapInv fresh s) :
    MapInv fresh (replNode fresh s par n).2 ∧ Ext s (replNode fresh s par n).2 ∧
    (replNode fresh s par n).1.parent = par ∧
    (∃ k, (replNode fresh s par n).1.id = fresh k) ∧
    ∀ t, Ext (replNode fresh s par n).2 t → ∀ d, Renamed (lookupId t.map) (d, n) (d, (replNode fresh s par n).1) := by
  unfold replNode
  by_cases hb : n.id = []
  · simp only [hb, if_true]
    have h1 : MapInv fresh { s with next := s.next + 1 } := ⟨h.nodup, fun x hx => by
      obtain ⟨k, hk, e⟩ := h.drawn x hx; exact ⟨k, Nat.lt_succ_of_lt hk, e⟩⟩
    obtain ⟨i1, i2, _, i4⟩ := replPts_spec fresh hinj n.pts _ h1
    refine ⟨i1, ?_, by first | rfl | trivial, ⟨s.next, by first | rfl | trivial⟩, ?_⟩
    · intro k v hk; exact i2 k v hk
    · intro t ht d
      unfold Renamed
      refine ⟨?_, ?_, ?_, fun hne => absurd hb hne, i4 t ht⟩ <;> first | rfl | trivial
  · simp only [hb, if_false]
    obtain ⟨m1, m2, _, m4⟩ := mapId_spec fresh hinj s n.id h
    obtain ⟨i1, i2, _, i4⟩ := replPts_spec fresh hinj n.pts _ m1
    refine ⟨i1, m2.trans i2, by first | rfl | trivial, ?_, ?_⟩
    · have hmem := lookupId_mem _ _ _ m4
      obtain ⟨k, _, e⟩ := m1.drawn _ hmem
      exact ⟨k, e⟩
    · intro t ht d
      unfold Renamed
      refine ⟨?_, ?_, ?_, fun _ => ht _ _ (i2 _ _ m4), i4 t ht⟩ <;> first | rfl | trivial

inductive Forall2 {α β} (R : α → β → Prop) : List α → List β → Prop
  | nil : Forall2 R [] []
  | cons (a : α) (b : β) (as : List α) (bs : List β) : R a b → Forall2 R as bs → Forall2 R (a :: as) (b :: bs)

theorem replaceAux_spec (fresh : Nat → Bytes) (hinj : Function.Injective fresh) (target : Bytes) : ∀ (f : Flat) (s : RS) (anc : List Bytes),
    MapInv fresh s →
    MapInv fresh (replaceIDsAux fresh target s anc f).2 ∧ Ext s (replaceIDsAux fresh target s anc f).2 ∧
    ∀ t, Ext (replaceIDsAux fresh target s anc f).2 t → Forall2 (Renamed (lookupId t.map)) f (replaceIDsAux fresh target s anc f).1 := by
  intro f
  induction f with
  | nil => intro s anc h; exact ⟨h, Ext.refl s, fun _ _ => .nil⟩
  | cons x rest ih =>
    intro s anc h
    obtain ⟨d, n⟩ := x
    simp only [replaceIDsAux]
    obtain ⟨n1, n2, _, _, n5⟩ := replNode_spec fresh hinj s (parentAt target anc d) n h
    obtain ⟨i1, i2, i3⟩ := ih (replNode fresh s (parentAt target anc d) n).2 (anc.take d ++ [(replNode fresh s (parentAt target anc d) n).1.id]) n1
    refine ⟨i1, n2.trans i2, ?_⟩
    intro t ht
    exact .cons _ _ _ _ (n5 t (i2.trans ht) d) (i3 t ht)

theorem replaceAux_checks (fresh : Nat → Bytes) (hne : ∀ k, fresh k ≠ []) (hinj : Function.Injective fresh) (target : Bytes) (ht : target ≠ []) :
    ∀ (f : Flat) (s : RS) (anc : List Bytes), MapInv fresh s → checkIDs target anc (replaceIDsAux fresh target s anc f).1 = true := by
  intro f
  induction f with
  | nil => intro s anc _; rfl
  | cons x rest ih =>
    intro s anc h
    obtain ⟨d, n⟩ := x
    simp only [replaceIDsAux, checkIDs]
    obtain ⟨n1, _, n3, ⟨k, n4⟩, _⟩ := replNode_spec fresh hinj s (parentAt target anc d) n h
    have := ih (replNode fresh s (parentAt target anc d) n).2 (anc.take d ++ [(replNode fresh s (parentAt target anc d) n).1.id]) n1
    simp only [Bool.and_eq_true, bne_iff_ne, ne_eq, beq_iff_eq]
    refine ⟨⟨⟨ht, n3⟩, ?_⟩, this⟩
    rw [n4]; exact hne k

theorem mapInv_injective (fresh : Nat → Bytes) (s : RS) (h : MapInv fresh s) (a b x : Bytes)
    (ha : lookupId s.map a = some x) (hb : lookupId s.map b = some x) : a = b := by
  have h1 := lookupId_mem _ _ _ ha
  have h2 := lookupId_mem _ _ _ hb
  have hnd := h.nodup
  clear h ha hb
  generalize s.map = m at h1 h2 hnd
  induction m with
  | nil => cases h1
  | cons y m ih =>
    simp only [List.map_cons, List.nodup_cons, List.mem_map] at hnd
    simp only [List.mem_cons] at h1 h2
    rcases h1 with h1 | h1 <;> rcases h2 with h2 | h2
    · have := h1.trans h2.symm
      exact (Prod.mk.inj this).1
    · exfalso; apply hnd.1; exact ⟨(b, x), h2, by rw [← h1]⟩
    · exfalso; apply hnd.1; exact ⟨(a, x), h1, by rw [← h2]⟩
    · exact ih h1 h2 hnd.2

end Siot.Export
