import Siot.Model.Crc16
namespace Siot.Crc16

theorem poly_lt : poly < 2 ^ 16 := by decide
theorem poly_bit15 : poly.testBit 15 = true := by decide

/-- xor-ing the polynomial into a 15-bit value sets bit 15 -/
theorem xor_poly_ge (a : Nat) (h : a < 2 ^ 15) : 2 ^ 15 ≤ a ^^^ poly := by
  apply Nat.ge_two_pow_of_testBit
  rw [Nat.testBit_xor, Nat.testBit_lt_two_pow h, poly_bit15]; rfl

theorem xor_poly_lt (a : Nat) (h : a < 2 ^ 15) : a ^^^ poly < 2 ^ 16 :=
  Nat.xor_lt_two_pow (by omega) poly_lt

theorem step_lt (s : Nat) (b : Bool) (h : s < 2 ^ 16) : step s b < 2 ^ 16 := by
  unfold step
  split
  · exact xor_poly_lt _ (by omega)
  · omega

theorem run_lt (bs : List Bool) : ∀ s, s < 2 ^ 16 → run s bs < 2 ^ 16 := by
  induction bs with
  | nil => intro s h; exact h
  | cons b bs ih => intro s h; exact ih _ (step_lt s b h)

/-- a step keeps "some bit at position ≥ remaining length is set" -/
theorem step_ge (s : Nat) (b : Bool) (k : Nat) (hs : s < 2 ^ 16) (hk : 2 ^ (k + 1) ≤ s) : 2 ^ k ≤ step s b := by
  have hk15 : k + 1 < 16 := by
    rcases Nat.lt_or_ge (k + 1) 16 with h | h
    · exact h
    · have := Nat.pow_le_pow_right (by omega : 2 > 0) h; omega
  unfold step
  split
  · have := xor_poly_ge (s / 2) (by omega)
    have : 2 ^ k ≤ 2 ^ 15 := Nat.pow_le_pow_right (by omega) (by omega)
    omega
  · rw [Nat.pow_succ] at hk; omega

/-- **Burst lemma (replaces a 2^15-entry table).** If the state has a bit set at a position at
least the number of bits still to come, the state after those bits is non-zero — whatever the bits. -/
theorem run_ne_zero (bs : List Bool) : ∀ s, s < 2 ^ 16 → 2 ^ bs.length ≤ s → run s bs ≠ 0 := by
  induction bs with
  | nil => intro s _ h; simp [run] at h ⊢; omega
  | cons b bs ih =>
    intro s hs h
    simp only [List.length_cons] at h
    exact ih _ (step_lt s b hs) (step_ge s b _ hs h)

theorem step_one_zero : step 0 true = poly := by decide

/-- the shift register is injective on zero input: only the zero state reaches zero -/
theorem step_false_eq_zero (s : Nat) (hs : s < 2 ^ 16) (h : step s false = 0) : s = 0 := by
  unfold step at h
  split at h
  · have := xor_poly_ge (s / 2) (by omega); omega
  · rename_i hc
    simp at hc
    omega

theorem run_zeros_eq_zero (m : Nat) : ∀ s, s < 2 ^ 16 → run s (List.replicate m false) = 0 → s = 0 := by
  induction m with
  | zero => intro s _ h; simpa [run] using h
  | succ m ih =>
    intro s hs h
    simp only [List.replicate_succ, run] at h
    exact step_false_eq_zero s hs (ih _ (step_lt s false hs) h)

theorem run_zero_zeros (m : Nat) : run 0 (List.replicate m false) = 0 := by
  induction m with
  | zero => rfl
  | succ m ih => simp only [List.replicate_succ, run]; exact ih

theorem run_append (a b : List Bool) (s : Nat) : run s (a ++ b) = run (run s a) b := by
  induction a generalizing s with
  | nil => rfl
  | cons x a ih => simp only [List.cons_append, run]; exact ih _

/-! ### linearity over GF(2) -/
theorem xlc (a b c : Nat) : a ^^^ (b ^^^ c) = b ^^^ (a ^^^ c) := by
  rw [← Nat.xor_assoc, Nat.xor_comm a b, Nat.xor_assoc]
theorem xcl (a b : Nat) : a ^^^ (a ^^^ b) = b := by
  rw [← Nat.xor_assoc, Nat.xor_self, Nat.zero_xor]

theorem step_xor (s t : Nat) (a b : Bool) : step (s ^^^ t) (a != b) = step s a ^^^ step t b := by
  unfold step
  rw [Nat.xor_div_two]
  have hx : ((s ^^^ t) % 2 == 1) = ((s % 2 == 1) != (t % 2 == 1)) := by
    rcases Nat.mod_two_eq_zero_or_one s with h1 | h1 <;> rcases Nat.mod_two_eq_zero_or_one t with h2 | h2 <;>
      · have := @Nat.xor_mod_two_eq_one s t
        rcases Nat.mod_two_eq_zero_or_one (s ^^^ t) with h3 | h3 <;> simp_all
  rw [hx]
  rcases Nat.mod_two_eq_zero_or_one s with h1 | h1 <;> rcases Nat.mod_two_eq_zero_or_one t with h2 | h2 <;>
    cases a <;> cases b <;> simp [h1, h2, Nat.xor_assoc, Nat.xor_comm, xlc, xcl]

def xorBits : List Bool → List Bool → List Bool
  | a :: as, b :: bs => (a != b) :: xorBits as bs
  | _, _ => []

theorem run_xor (a : List Bool) : ∀ (b : List Bool) (s t : Nat), a.length = b.length →
    run (s ^^^ t) (xorBits a b) = run s a ^^^ run t b := by
  induction a with
  | nil => intro b s t h; cases b with
    | nil => rfl
    | cons _ _ => simp at h
  | cons x a ih =>
    intro b s t h
    cases b with
    | nil => simp at h
    | cons y b =>
      simp only [xorBits, run, step_xor]
      exact ih b _ _ (by simpa using h)

end Siot.Crc16
