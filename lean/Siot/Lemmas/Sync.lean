import Siot.Model.Sync
import Siot.Lemmas.Feed
import Siot.Props.C01
import Siot.Props.C03
/- helper lemmas for C02 (Siot/Model/Sync.lean) -/
namespace Siot.Sync
open Siot Siot.Store

/-! ### rows never go back -/

/-- every row of `r` is still there in `r'`, or has been replaced by a newer-or-equal point of its identity -/
def RowsLe (r r' : List Point) : Prop := ∀ p ∈ r, ∃ q ∈ r', sameId q p = true ∧ p.time ≤ q.time

theorem RowsLe.refl (r : List Point) : RowsLe r r := fun p hp => ⟨p, hp, sameId_refl p, Int.le_refl _⟩

theorem RowsLe.trans {a b c : List Point} (h1 : RowsLe a b) (h2 : RowsLe b c) : RowsLe a c := by
  intro p hp
  obtain ⟨q, hq, hs, ht⟩ := h1 p hp
  obtain ⟨r, hr, hs2, ht2⟩ := h2 q hq
  exact ⟨r, hr, sameId_trans r q p hs2 hs, Int.le_trans ht ht2⟩

theorem mergeBatch_le (rows batch : List Point) (hu : IdUnique rows) : RowsLe rows (mergeBatch rows batch).1 := by
  have h := mergeBatch_lww batch rows rows (Feed.idUnique_lww_self rows hu)
  intro p hp
  obtain ⟨q, hq, hs⟩ := h.cover p (by simp [hp])
  have hN := h.newest q hq
  exact ⟨q, hq, hs, hN.2 p (by simp [hp]) (by rw [sameId_symm]; exact hs)⟩

theorem append_le (rows extra : List Point) : RowsLe rows (rows ++ extra) :=
  fun p hp => ⟨p, by simp [hp], sameId_refl p, Int.le_refl _⟩

/-- store order: node rows and edge rows of every owner only move forward -/
structure StLe (s s' : St) : Prop where
  nodes : ∀ id, RowsLe (ptsOf s id) (ptsOf s' id)
  edges : ∀ u d, RowsLe (eptsOf s u d) (eptsOf s' u d)

theorem StLe.refl (s : St) : StLe s s := ⟨fun _ => RowsLe.refl _, fun _ _ => RowsLe.refl _⟩
theorem StLe.trans {a b c : St} (h1 : StLe a b) (h2 : StLe b c) : StLe a c :=
  ⟨fun id => (h1.nodes id).trans (h2.nodes id), fun u d => (h1.edges u d).trans (h2.edges u d)⟩

theorem nodePoints_le (st st' : St) (hinv : Inv st) (id : Bytes) (pts : List Point) (h : nodePoints st id pts = .ok st') : StLe st st' := by
  refine ⟨?_, ?_⟩
  · intro n
    rw [c01_nodePoints_rows st st' id pts h n]
    by_cases hn : n = id
    · subst hn; simp only [if_true]; exact mergeBatch_le _ _ (hinv.npu n)
    · simp only [hn, if_false]; exact RowsLe.refl _
  · intro u d
    have : st'.edgePts = st.edgePts := by
      unfold nodePoints at h
      split at h
      · cases h
      · simp only [] at h
        injection h with h
        rw [← h]
    unfold eptsOf
    rw [this]
    exact RowsLe.refl _

theorem edgePointsCore_le (st st' : St) (hinv : Inv st) (node u : Bytes) (pts : List Point) (h : edgePointsCore st node u pts = .ok st') :
    StLe st st' := by
  unfold edgePointsCore at h
  simp only [] at h
  cases hfind : st.edges.find? (fun e => e.up == u && e.down == node) with
  | some e =>
    simp only [hfind] at h
    injection h with h
    rw [← h]
    refine ⟨fun id => RowsLe.refl _, ?_⟩
    intro u' d'
    unfold edgeWrite eptsOf
    simp only []
    rw [eptsOf_write st (u, node) _ (u', d')]
    by_cases heq : (u', d') = (u, node)
    · simp only [heq, if_true]
      have h1 : u' = u := congrArg Prod.fst heq
      have h2 : d' = node := congrArg Prod.snd heq
      subst h1; subst h2
      exact mergeBatch_le _ _ (hinv.epu (u', d'))
    · simp only [heq, if_false]
      exact RowsLe.refl _
  | none =>
    simp only [hfind] at h
    split at h
    · cases h
    · split at h
      · cases h
      · injection h with h
        rw [← h]
        refine ⟨fun id => RowsLe.refl _, ?_⟩
        intro u' d'
        unfold edgeInsert eptsOf
        simp only [List.filter_append, List.map_append]
        exact append_le _ _

theorem edgePoints_le (st st' : St) (hinv : Inv st) (node parent : Bytes) (pts : List Point) (h : edgePoints st node parent pts = .ok st') :
    StLe st st' := by
  unfold edgePoints at h
  split at h
  · cases h
  · split at h
    · cases h
    · split at h
      · cases h
      · exact edgePointsCore_le st st' hinv node _ pts h

theorem step_le (st : St) (hinv : Inv st) (op : WOp) : StLe st (step st op).1 := by
  cases op with
  | np id pts =>
    simp only [step]
    cases h : nodePoints st id pts with
    | ok st' => exact nodePoints_le st st' hinv id pts h
    | err e => exact StLe.refl _
    | panic e => exact StLe.refl _
  | ep node parent pts =>
    simp only [step]
    cases h : edgePoints st node parent pts with
    | ok st' => exact edgePoints_le st st' hinv node parent pts h
    | err e => exact StLe.refl _
    | panic e => exact StLe.refl _

/-- a store that satisfies the invariants and has only moved forward from `s0` -/
def Fwd (s0 s : St) : Prop := Inv s ∧ StLe s0 s

theorem Fwd.step {s0 s : St} (h : Fwd s0 s) (op : WOp) : Fwd s0 (Store.step s op).1 :=
  ⟨c03_step_preserves s op h.1, h.2.trans (step_le s h.1 op)⟩

theorem Fwd.np {s0 s s' : St} (h : Fwd s0 s) (id : Bytes) (pts : List Point) (hs : nodePoints s id pts = .ok s') : Fwd s0 s' := by
  have := h.step (.np id pts)
  simp only [Store.step, hs] at this
  exact this

theorem Fwd.ep {s0 s s' : St} (h : Fwd s0 s) (id parent : Bytes) (pts : List Point) (hs : edgePoints s id parent pts = .ok s') : Fwd s0 s' := by
  have := h.step (.ep id parent pts)
  simp only [Store.step, hs] at this
  exact this

theorem tryNP_eq (st : St) (id : Bytes) (pts : List Point) : tryNP st id pts = (Store.step st (.np id pts)).1 := by
  simp only [tryNP, Store.step]
  cases h : nodePoints st id pts <;> rfl

theorem tryEP_eq (st : St) (id parent : Bytes) (pts : List Point) : tryEP st id parent pts = (Store.step st (.ep id parent pts)).1 := by
  simp only [tryEP, Store.step]
  cases h : edgePoints st id parent pts <;> rfl

theorem foldl_fwd {α} (f : St → α → St) (hf : ∀ s0 s x, Fwd s0 s → Fwd s0 (f s x)) :
    ∀ (l : List α) (s0 s : St), Fwd s0 s → Fwd s0 (l.foldl f s) := by
  intro l
  induction l with
  | nil => intro s0 s h; exact h
  | cons x xs ih => intro s0 s h; exact ih s0 _ (hf s0 s x h)

/-- SendNode: whatever happens (sent, refused, half sent), the store has only moved forward -/
theorem sendNode_fwd (s0 st : St) (n : NE) (now : Int) (h : Fwd s0 st) :
    (∀ st', sendNode st n now = some st' → Fwd s0 st') ∧ Fwd s0 (sendNodeState st n now) := by
  have key : ∀ st', sendNode st n now = some st' → Fwd s0 st' := by
    intro st' hs
    unfold sendNode at hs
    simp only [] at hs
    split at hs
    · cases hs
    · cases h1 : nodePoints st n.id n.pts with
      | ok st1 =>
        simp only [h1] at hs
        have f1 : Fwd s0 st1 := h.np _ _ h1
        split at hs
        · rename_i st2 h2
          injection hs with hs
          rw [← hs]
          exact f1.ep _ _ _ h2
        · cases hs
      | err e => simp [h1] at hs
      | panic e => simp [h1] at hs
  refine ⟨key, ?_⟩
  unfold sendNodeState
  cases hs : sendNode st n now with
  | some s => exact key s hs
  | none =>
    simp only []
    split
    · exact h
    · cases h1 : nodePoints st n.id n.pts with
      | ok st1 => exact h.np _ _ h1
      | err e => exact h
      | panic e => exact h

theorem sendNodesAux_fwd (wall : Int → Int) (src : St) : ∀ (fuel : Nat) (s0 : St) (dst : St × Int) (n : NE), Fwd s0 dst.1 →
    Fwd s0 (sendNodesAux wall src fuel dst n).1.1 := by
  intro fuel
  induction fuel with
  | zero => intro s0 dst n h; exact h
  | succ fuel ih =>
    intro s0 dst n h
    simp only [sendNodesAux]
    obtain ⟨k1, k2⟩ := sendNode_fwd s0 dst.1 n (wall dst.2) h
    cases hs : sendNode dst.1 n (wall dst.2) with
    | none => exact k2
    | some dst1 =>
      simp only []
      have h1 := k1 dst1 hs
      -- the fold over the children
      have : ∀ (l : List NE) (acc : (St × Int) × Bool), Fwd s0 acc.1.1 →
          Fwd s0 (l.foldl (fun (acc : (St × Int) × Bool) c => if acc.2 then sendNodesAux wall src fuel acc.1 c else acc) acc).1.1 := by
        intro l
        induction l with
        | nil => intro acc ha; exact ha
        | cons c cs ihl =>
          intro acc ha
          simp only [List.foldl_cons]
          apply ihl
          split
          · exact ih s0 acc.1 c ha
          · exact ha
      exact this _ _ h1

/-- the pair of stores, both having only moved forward -/
def PFwd (p0 p : Pair) : Prop := Fwd p0.a p.a ∧ Fwd p0.b p.b

theorem toRemote_fwd (wall : Int → Int) (p0 s : Pair) (n : NE) (h : PFwd p0 s) : PFwd p0 (toRemote wall s n) :=
  ⟨h.1, sendNodesAux_fwd wall s.a _ p0.b (s.b, s.clk) n h.2⟩

theorem toLocal_fwd (wall : Int → Int) (p0 s : Pair) (n : NE) (h : PFwd p0 s) : PFwd p0 (toLocal wall s n) :=
  ⟨sendNodesAux_fwd wall s.a _ p0.a (s.a, s.clk) n h.1, h.2⟩

theorem foldl_pfwd {α} (f : Pair → α → Pair) (p0 : Pair) (hf : ∀ s x, PFwd p0 s → PFwd p0 (f s x)) :
    ∀ (l : List α) (s : Pair), PFwd p0 s → PFwd p0 (l.foldl f s) := by
  intro l
  induction l with
  | nil => intro s h; exact h
  | cons x xs ih => intro s h; exact ih _ (hf s x h)

theorem syncExchange_fwd (p0 s : Pair) (nodeLocal nodeUp : NE) (h : PFwd p0 s) : PFwd p0 (syncExchange s nodeLocal nodeUp) := by
  have hb1 : ∀ (l : List Point) (b : St), Fwd p0.b b → Fwd p0.b (l.foldl (fun b p => tryNP b nodeUp.id [p]) b) :=
    fun l b hb => foldl_fwd _ (fun s0 s x hs => by rw [tryNP_eq]; exact hs.step _) l p0.b b hb
  have ha1 : ∀ (l : List Point) (a : St), Fwd p0.a a → Fwd p0.a (l.foldl (fun a p => tryNP a nodeLocal.id [p]) a) :=
    fun l a ha => foldl_fwd _ (fun s0 s x hs => by rw [tryNP_eq]; exact hs.step _) l p0.a a ha
  have hb2 : ∀ (l : List Point) (b : St), Fwd p0.b b → Fwd p0.b (l.foldl (fun b p => tryEP b nodeUp.id nodeUp.parent [p]) b) :=
    fun l b hb => foldl_fwd _ (fun s0 s x hs => by rw [tryEP_eq]; exact hs.step _) l p0.b b hb
  have ha2 : ∀ (l : List Point) (a : St), Fwd p0.a a → Fwd p0.a (l.foldl (fun a p => tryEP a nodeLocal.id nodeLocal.parent [p]) a) :=
    fun l a ha => foldl_fwd _ (fun s0 s x hs => by rw [tryEP_eq]; exact hs.step _) l p0.a a ha
  unfold syncExchange
  exact ⟨ha2 _ _ (ha1 _ _ h.1), hb2 _ _ (hb1 _ _ h.2)⟩

theorem syncChildren_fwd (wall : Int → Int) (rec : Pair → Bytes → Bytes → Pair) (p0 : Pair)
    (hrec : ∀ s a b, PFwd p0 s → PFwd p0 (rec s a b)) (s : Pair) (nodeLocal nodeUp : NE) (h : PFwd p0 s) :
    PFwd p0 (syncChildren wall rec s nodeLocal nodeUp) := by
  unfold syncChildren
  simp only []
  apply foldl_pfwd
  · intro s' upChild hs'
    split
    · exact hs'
    · exact toLocal_fwd wall p0 s' upChild hs'
  · apply foldl_pfwd
    · intro s' child hs'
      split
      · split
        · exact hrec s' _ _ hs'
        · exact hs'
      · exact toRemote_fwd wall p0 s' child hs'
    · exact h

theorem syncNode_fwd (wall : Int → Int) : ∀ (fuel : Nat) (p0 s : Pair) (parent id : Bytes), PFwd p0 s →
    PFwd p0 (syncNode wall fuel s parent id) := by
  intro fuel
  induction fuel with
  | zero => intro p0 s parent id h; exact h
  | succ fuel ih =>
    intro p0 s parent id h
    simp only [syncNode]
    split
    · exact h
    · split
      · exact toRemote_fwd wall p0 s _ h
      · split
        · -- undelete upstream
          refine ⟨h.1, ?_⟩
          show Fwd p0.b (tryEP s.b _ _ _)
          rw [tryEP_eq]
          exact h.2.step _
        · split
          · exact h
          · exact syncChildren_fwd wall _ p0 (fun s a b hs => ih p0 s a b hs) _ _ _ (syncExchange_fwd p0 s _ _ h)

end Siot.Sync

namespace Siot.Sync
open Siot Siot.Store

/-! ### the exchange of points makes both sides hold the newest point of every identity -/

theorem lww_mem_iff (rows ds : List Point) (h : LWW rows ds) (hadm : Admissible ds) (p : Point) : p ∈ rows ↔ Newest ds p := by
  constructor
  · exact h.newest p
  · intro hN
    obtain ⟨r, hr, hrs⟩ := h.cover p hN.1
    have hrN := h.newest r hr
    have h1 := hN.2 r hrN.1 hrs
    have h2 := hrN.2 p hN.1 (by rw [sameId_symm]; exact hrs)
    have : r = p := hadm r hrN.1 p hN.1 hrs (by omega)
    rw [← this]; exact hr

theorem sameId_def (a b : Point) : sameId a b = (a.type == b.type && a.key == b.key) := rfl

/-- what is sent down: upstream points that are newer than the local point of their identity, or have none -/
theorem mem_toDown (L U : List Point) (hU : IdUnique U) (q : Point) :
    q ∈ (syncPts L U).2 ↔ q ∈ U ∧ ((∃ l ∈ L, sameId q l = true ∧ l.time < q.time) ∨ ∀ l ∈ L, sameId q l = false) := by
  unfold syncPts
  simp only [List.mem_append, List.mem_filterMap, List.mem_filter, Bool.not_eq_true', List.any_eq_false, ← sameId_def]
  constructor
  · rintro (⟨l, hl, hq⟩ | ⟨hqU, hnone⟩)
    · cases hf : U.find? (fun u => sameId u l) with
      | none => simp [hf] at hq
      | some u =>
        simp only [hf] at hq
        split at hq
        · rename_i hlt
          injection hq with hq
          subst hq
          have hm := List.mem_of_find?_eq_some hf
          have hs := List.find?_some hf
          exact ⟨hm, Or.inl ⟨l, hl, hs, hlt⟩⟩
        · cases hq
    · refine ⟨hqU, Or.inr ?_⟩
      intro l hl
      have := hnone l hl
      simpa using this
  · rintro ⟨hqU, (⟨l, hl, hs, hlt⟩ | hnone)⟩
    · left
      refine ⟨l, hl, ?_⟩
      have hf : U.find? (fun u => sameId u l) = some q := by
        cases hf : U.find? (fun u => sameId u l) with
        | none =>
          rw [List.find?_eq_none] at hf
          exact absurd hs (hf q hqU)
        | some u =>
          have hm := List.mem_of_find?_eq_some hf
          have hsu := List.find?_some hf
          have : u = q := idUnique_eq U hU u q hm hqU (sameId_trans u l q hsu (by rw [sameId_symm]; exact hs))
          rw [this]
      simp [hf, hlt]
    · right
      exact ⟨hqU, fun l hl => by simpa using hnone l hl⟩

/-- what is sent up: local points that are newer than the upstream point of their identity, or have none there -/
theorem mem_toUp (L U : List Point) (hU : IdUnique U) (p : Point) :
    p ∈ (syncPts L U).1 ↔ p ∈ L ∧ ((∃ u ∈ U, sameId u p = true ∧ u.time < p.time) ∨ ∀ u ∈ U, sameId u p = false) := by
  unfold syncPts
  simp only [List.mem_filter, ← sameId_def]
  constructor
  · rintro ⟨hp, hc⟩
    refine ⟨hp, ?_⟩
    cases hf : U.find? (fun u => sameId u p) with
    | none =>
      right
      rw [List.find?_eq_none] at hf
      intro u hu
      simpa using hf u hu
    | some u =>
      simp only [hf, decide_eq_true_eq] at hc
      have hsu : sameId u p = true := by have := List.find?_some hf; simpa using this
      exact Or.inl ⟨u, List.mem_of_find?_eq_some hf, hsu, hc⟩
  · rintro ⟨hp, (⟨u, hu, hs, hlt⟩ | hnone)⟩
    · refine ⟨hp, ?_⟩
      cases hf : U.find? (fun u => sameId u p) with
      | none => simp
      | some u' =>
        have hm := List.mem_of_find?_eq_some hf
        have hsu : sameId u' p = true := by have := List.find?_some hf; simpa using this
        have : u' = u := idUnique_eq U hU u' u hm hu (sameId_trans u' p u hsu (by rw [sameId_symm]; exact hs))
        simp [this, hlt]
    · refine ⟨hp, ?_⟩
      cases hf : U.find? (fun u => sameId u p) with
      | none => simp
      | some u' =>
        have hm := List.mem_of_find?_eq_some hf
        have hsu := List.find?_some hf
        rw [hnone u' hm] at hsu
        cases hsu

theorem newest_down_iff (L U : List Point) (hL : IdUnique L) (hU : IdUnique U) (hadm : Admissible (L ++ U)) (p : Point) :
    Newest (L ++ (syncPts L U).2) p ↔ Newest (L ++ U) p := by
  constructor
  · rintro ⟨hp, hmax⟩
    refine ⟨?_, ?_⟩
    · simp only [List.mem_append] at hp ⊢
      rcases hp with hp | hp
      · exact Or.inl hp
      · exact Or.inr ((mem_toDown L U hU p).mp hp).1
    · intro q hq hs
      simp only [List.mem_append] at hq
      rcases hq with hq | hq
      · exact hmax q (by simp [hq]) hs
      · by_cases hd : q ∈ (syncPts L U).2
        · exact hmax q (by simp [hd]) hs
        · -- q was not sent down: a local point of its identity is at least as new
          have hnot := fun h => hd ((mem_toDown L U hU q).mpr h)
          have : ∃ l ∈ L, sameId q l = true ∧ q.time ≤ l.time := by
            by_cases hex : ∃ l ∈ L, sameId q l = true
            · obtain ⟨l, hl, hsl⟩ := hex
              refine ⟨l, hl, hsl, ?_⟩
              have hlt : ¬ l.time < q.time := by
                intro hlt
                exact hnot ⟨hq, Or.inl ⟨l, hl, hsl, hlt⟩⟩
              omega
            · exfalso
              apply hnot
              refine ⟨hq, Or.inr ?_⟩
              intro l hl
              cases hsl : sameId q l with
              | false => rfl
              | true => exact absurd ⟨l, hl, hsl⟩ hex
          obtain ⟨l, hl, hsl, hle⟩ := this
          have := hmax l (by simp [hl]) (sameId_trans l q p (by rw [sameId_symm]; exact hsl) hs)
          omega
  · rintro ⟨hp, hmax⟩
    refine ⟨?_, ?_⟩
    · simp only [List.mem_append] at hp ⊢
      rcases hp with hp | hp
      · exact Or.inl hp
      · by_cases hd : p ∈ (syncPts L U).2
        · exact Or.inr hd
        · left
          have hnot := fun h => hd ((mem_toDown L U hU p).mpr h)
          by_cases hex : ∃ l ∈ L, sameId p l = true
          · obtain ⟨l, hl, hsl⟩ := hex
            have hlt : ¬ l.time < p.time := fun hlt => hnot ⟨hp, Or.inl ⟨l, hl, hsl, hlt⟩⟩
            have hle := hmax l (by simp [hl]) (by rw [sameId_symm]; exact hsl)
            have : p = l := hadm p (by simp [hp]) l (by simp [hl]) hsl (by omega)
            rw [this]; exact hl
          · exfalso
            apply hnot
            refine ⟨hp, Or.inr ?_⟩
            intro l hl
            cases hsl : sameId p l with
            | false => rfl
            | true => exact absurd ⟨l, hl, hsl⟩ hex
    · intro q hq hs
      apply hmax q _ hs
      simp only [List.mem_append] at hq ⊢
      rcases hq with hq | hq
      · exact Or.inl hq
      · exact Or.inr ((mem_toDown L U hU q).mp hq).1

theorem newest_up_iff (L U : List Point) (hL : IdUnique L) (hU : IdUnique U) (hadm : Admissible (L ++ U)) (p : Point) :
    Newest (U ++ (syncPts L U).1) p ↔ Newest (L ++ U) p := by
  constructor
  · rintro ⟨hp, hmax⟩
    refine ⟨?_, ?_⟩
    · simp only [List.mem_append] at hp ⊢
      rcases hp with hp | hp
      · exact Or.inr hp
      · exact Or.inl ((mem_toUp L U hU p).mp hp).1
    · intro q hq hs
      simp only [List.mem_append] at hq
      rcases hq with hq | hq
      · by_cases hd : q ∈ (syncPts L U).1
        · exact hmax q (by simp [hd]) hs
        · have hnot := fun h => hd ((mem_toUp L U hU q).mpr h)
          have : ∃ u ∈ U, sameId u q = true ∧ q.time ≤ u.time := by
            by_cases hex : ∃ u ∈ U, sameId u q = true
            · obtain ⟨u, hu, hsu⟩ := hex
              refine ⟨u, hu, hsu, ?_⟩
              have hlt : ¬ u.time < q.time := fun hlt => hnot ⟨hq, Or.inl ⟨u, hu, hsu, hlt⟩⟩
              omega
            · exfalso
              apply hnot
              refine ⟨hq, Or.inr ?_⟩
              intro u hu
              cases hsu : sameId u q with
              | false => rfl
              | true => exact absurd ⟨u, hu, hsu⟩ hex
          obtain ⟨u, hu, hsu, hle⟩ := this
          have := hmax u (by simp [hu]) (sameId_trans u q p hsu hs)
          omega
      · exact hmax q (by simp [hq]) hs
  · rintro ⟨hp, hmax⟩
    refine ⟨?_, ?_⟩
    · simp only [List.mem_append] at hp ⊢
      rcases hp with hp | hp
      · by_cases hd : p ∈ (syncPts L U).1
        · exact Or.inr hd
        · left
          have hnot := fun h => hd ((mem_toUp L U hU p).mpr h)
          by_cases hex : ∃ u ∈ U, sameId u p = true
          · obtain ⟨u, hu, hsu⟩ := hex
            have hlt : ¬ u.time < p.time := fun hlt => hnot ⟨hp, Or.inl ⟨u, hu, hsu, hlt⟩⟩
            have hle := hmax u (by simp [hu]) hsu
            have : p = u := hadm p (by simp [hp]) u (by simp [hu]) (by rw [sameId_symm]; exact hsu) (by omega)
            rw [this]; exact hu
          · exfalso
            apply hnot
            refine ⟨hp, Or.inr ?_⟩
            intro u hu
            cases hsu : sameId u p with
            | false => rfl
            | true => exact absurd ⟨u, hu, hsu⟩ hex
      · exact Or.inl hp
    · intro q hq hs
      apply hmax q _ hs
      simp only [List.mem_append] at hq ⊢
      rcases hq with hq | hq
      · exact Or.inr hq
      · exact Or.inl ((mem_toUp L U hU q).mp hq).1

end Siot.Sync
