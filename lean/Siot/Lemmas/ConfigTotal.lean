import Siot.Lemmas.Itoa
namespace Siot.Config
open Siot

/-- the index Go computes for a point's key while grouping -/
def keyIdx (p : Point) : Option Int := if p.key.isEmpty then some 0 else atoi p.key

theorem indexOf_of_keyIdx (p : Point) (i : Int) (h : keyIdx p = some i) : indexOf p.key = i := by
  unfold keyIdx at h
  unfold indexOf
  split at h
  · rename_i he
    injection h with h; subst h
    have : p.key = [] := by simpa using he
    rw [this]; rfl
  · rw [h]; rfl

/-- one step of the grouping fold -/
def groupStep (g : Group) (p : Point) : Group :=
  let g := match keyIdx p with
    | some i => if i < 0 then { g with keyNotIndex := p.key }
                else if i > g.keyMaxInt ∧ !tombOdd p.tomb then { g with keyMaxInt := i } else g
    | none => { g with keyNotIndex := p.key }
  { g with points := g.points ++ [p] }

theorem group_eq (ptype : Bytes) (ps : List Point) :
    group ptype ps = if (ps.filter (fun p => p.type == ptype)).isEmpty then none
      else some ((ps.filter (fun p => p.type == ptype)).foldl groupStep {}) := rfl

/-- invariant of the grouping fold -/
structure GInv (g : Group) : Prop where
  idx : g.keyNotIndex = [] → ∀ p ∈ g.points, ∃ i, keyIdx p = some i ∧ 0 ≤ i ∧ (tombOdd p.tomb = false → i ≤ g.keyMaxInt)
  low : -1 ≤ g.keyMaxInt

theorem keyIdx_none_key_ne (p : Point) (h : keyIdx p = none) : p.key ≠ [] := by
  intro hk; unfold keyIdx at h; rw [hk] at h; simp at h

theorem keyIdx_neg_key_ne (p : Point) (i : Int) (h : keyIdx p = some i) (hi : i < 0) : p.key ≠ [] := by
  intro hk; unfold keyIdx at h; rw [hk] at h; simp at h; omega

theorem groupStep_inv (g : Group) (p : Point) (h : GInv g) : GInv (groupStep g p) := by
  unfold groupStep
  cases hk : keyIdx p with
  | none =>
    refine ⟨?_, h.low⟩
    intro hne; simp only at hne
    exact absurd hne (keyIdx_none_key_ne p hk)
  | some i =>
    simp only []
    by_cases hneg : i < 0
    · rw [if_pos hneg]
      refine ⟨?_, h.low⟩
      intro hne; simp only at hne
      exact absurd hne (keyIdx_neg_key_ne p i hk hneg)
    · rw [if_neg hneg]
      by_cases hgt : i > g.keyMaxInt ∧ (!tombOdd p.tomb) = true
      · rw [if_pos hgt]
        refine ⟨?_, by have := h.low; simp only; omega⟩
        intro hne q hq
        simp only [List.mem_append, List.mem_singleton] at hq
        rcases hq with hq | rfl
        · obtain ⟨j, hj1, hj2, hj3⟩ := h.idx hne q hq
          exact ⟨j, hj1, hj2, fun ht => by have := hj3 ht; simp only; omega⟩
        · exact ⟨i, hk, by omega, fun _ => by simp only; omega⟩
      · rw [if_neg hgt]
        refine ⟨?_, h.low⟩
        intro hne q hq
        simp only [List.mem_append, List.mem_singleton] at hq
        rcases hq with hq | rfl
        · exact h.idx hne q hq
        · refine ⟨i, hk, by omega, fun ht => ?_⟩
          have : ¬ (i > g.keyMaxInt) := fun hh => hgt ⟨hh, by simp [ht]⟩
          show i ≤ g.keyMaxInt
          omega

theorem foldl_groupStep_inv (ps : List Point) : ∀ g, GInv g → GInv (ps.foldl groupStep g) := by
  induction ps with
  | nil => intro g h; exact h
  | cons p ps ih => intro g h; exact ih _ (groupStep_inv g p h)

theorem group_inv (ptype : Bytes) (ps : List Point) (g : Group) (h : group ptype ps = some g) : GInv g := by
  rw [group_eq] at h
  split at h
  · cases h
  · injection h with h
    rw [← h]
    exact foldl_groupStep_inv _ {} ⟨fun _ p hp => absurd hp List.not_mem_nil, by decide⟩

/-! ### the indexed loop never leaves the slice -/
theorem setScalar_no_panic (N : Num) (k : SKind) (p : Point) (m : String) : setScalar N k p ≠ .panic m := by
  unfold setScalar
  split
  · simp
  · cases k <;> simp only [] <;> (try split) <;> simp

theorem setIndexed_ok (N : Num) (k : SKind) (hi : Int) :
    ∀ (ps : List Point) (vs : List SVal) (del : List Int),
      (∀ p ∈ ps, ∃ i, keyIdx p = some i ∧ 0 ≤ i ∧ (tombOdd p.tomb = false → i ≤ hi)) → hi < vs.length →
      ∀ m, (setIndexed N k ps vs del).2.2 ≠ .panic m := by
  intro ps
  induction ps with
  | nil => intro vs del _ _ m; simp [setIndexed]
  | cons p ps ih =>
    intro vs del h hlen m
    obtain ⟨i, hk, h0, hle⟩ := h p (by simp)
    have hidx := indexOf_of_keyIdx p i hk
    simp only [setIndexed, hidx]
    have hrest : ∀ q ∈ ps, ∃ i, keyIdx q = some i ∧ 0 ≤ i ∧ (tombOdd q.tomb = false → i ≤ hi) :=
      fun q hq => h q (by simp [hq])
    split
    · exact ih _ _ hrest hlen m
    · rename_i hskip
      have hin : ¬ (i < 0 ∨ i ≥ vs.length) := by
        intro hc
        rcases hc with hc | hc
        · omega
        · by_cases ht : tombOdd p.tomb = true
          · exact hskip ⟨ht, hc⟩
          · have := hle (by simpa using ht); omega
      rw [if_neg hin]
      cases hs : setScalar N k p with
      | ok v =>
        simp only []
        exact ih _ _ hrest (by simp; exact hlen) m
      | err e => simp
      | panic m' => exact absurd hs (setScalar_no_panic N k p m')

theorem setIndexed_len (N : Num) (k : SKind) :
    ∀ (ps : List Point) (vs : List SVal) (del : List Int), (setIndexed N k ps vs del).1.length = vs.length := by
  intro ps
  induction ps with
  | nil => intro vs del; rfl
  | cons p ps ih =>
    intro vs del
    simp only [setIndexed]
    split
    · exact ih _ _
    · split
      · rfl
      · cases setScalar N k p with
        | ok v => simp only []; rw [ih]; simp
        | err e => rfl
        | panic m => rfl

theorem setMap_no_panic (N : Num) (k : SKind) : ∀ (ps : List Point) (kvs : List (Bytes × SVal)) m,
    (setMap N k ps kvs).2 ≠ .panic m := by
  intro ps
  induction ps with
  | nil => intro kvs m; simp [setMap]
  | cons p ps ih =>
    intro kvs m
    simp only [setMap]
    split
    · exact ih _ m
    · cases hs : setScalar N k p with
      | ok v => exact ih _ m
      | err e => simp
      | panic m' => exact absurd hs (setScalar_no_panic N k p m')

theorem setStruct_no_panic (N : Num) (ps : List Point) : ∀ (fs : List (Bytes × SKind)) (vs : List SVal) m,
    fs.length = vs.length → (setStruct N ps fs vs).2 ≠ .panic m := by
  intro fs
  induction fs with
  | nil => intro vs m _; simp [setStruct]
  | cons f fs ih =>
    intro vs m hl
    cases vs with
    | nil => simp at hl
    | cons v vs =>
      obtain ⟨key, k⟩ := f
      simp only [setStruct]
      cases hf : List.find? (fun p => p.key == key) ps.reverse with
      | none => simp only []; exact ih vs m (by simpa using hl)
      | some p =>
        simp only []
        cases hs : setScalar N k p with
        | ok v' => simp only []; exact ih vs m (by simpa using hl)
        | err e => simp
        | panic m' => exact absurd hs (setScalar_no_panic N k p m')

theorem setStruct_len (N : Num) (ps : List Point) : ∀ (fs : List (Bytes × SKind)) (vs : List SVal),
    fs.length = vs.length → (setStruct N ps fs vs).1.length = vs.length := by
  intro fs
  induction fs with
  | nil => intro vs _; simp [setStruct]
  | cons f fs ih =>
    intro vs hl
    cases vs with
    | nil => simp at hl
    | cons v vs =>
      obtain ⟨key, k⟩ := f
      simp only [setStruct]
      cases hf : List.find? (fun p => p.key == key) ps.reverse with
      | none => simp only [List.length_cons]; rw [ih vs (by simpa using hl)]
      | some p =>
        simp only []
        cases hs : setScalar N k p with
        | ok v' => simp only [List.length_cons]; rw [ih vs (by simpa using hl)]
        | err e => rfl
        | panic m' => rfl

theorem setScalars_no_panic (N : Num) (k : SKind) : ∀ (ps : List Point) (v : SVal) m, (setScalars N k ps v).2 ≠ .panic m := by
  intro ps
  induction ps with
  | nil => intro v m; simp [setScalars]
  | cons p ps ih =>
    intro v m
    simp only [setScalars]
    cases hs : setScalar N k p with
    | ok v' => exact ih _ m
    | err e => simp
    | panic m' => exact absurd hs (setScalar_no_panic N k p m')

theorem setPtrs_no_panic (N : Num) (k : SKind) : ∀ (ps : List Point) (v : Option SVal) m, (setPtrs N k ps v).2 ≠ .panic m := by
  intro ps
  induction ps with
  | nil => intro v m; simp [setPtrs]
  | cons p ps ih =>
    intro v m
    simp only [setPtrs]
    split
    · exact ih _ m
    · cases hs : setScalar N k p with
      | ok v' => exact ih _ m
      | err e => simp
      | panic m' => exact absurd hs (setScalar_no_panic N k p m')

/-- a field value has the shape its type prescribes (what Go's type system guarantees) -/
def FTyped : FieldTy → FVal → Prop
  | .scalar _, .scalar _ => True
  | .ptr _, .ptr _ => True
  | .slice _, .slice _ => True
  | .array n _, .array vs => vs.length = n
  | .map _, .map _ => True
  | .struct fs, .struct vs => fs.length = vs.length
  | .ptrStruct fs, .ptrStruct (some vs) => fs.length = vs.length
  | .ptrStruct _, .ptrStruct none => True
  | _, _ => False

end Siot.Config
