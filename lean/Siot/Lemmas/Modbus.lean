import Siot.Spec.ModbusSpec
namespace Siot.Modbus
open Siot Siot.Modbus.Spec

theorem word_lt (hi lo : UInt8) : word hi lo < 65536 := by
  unfold word; have := UInt8.toNat_lt hi; have := UInt8.toNat_lt lo; omega

theorem allSome_append {α : Type} (a : List (Option α)) (x : Option α) :
    allSome (a ++ [x]) = match allSome a, x with
      | some l, some v => some (l ++ [v])
      | _, _ => none := by
  induction a with
  | nil => cases x <;> simp [allSome]
  | cons y a ih =>
    cases y with
    | none => simp [allSome]
    | some v =>
      simp only [List.cons_append, allSome, ih]
      cases allSome a <;> cases x <;> simp

theorem readWords_eq (rs : Regs) (address : Nat) (n : Nat) :
    readWords rs address n = match allSome ((List.range n).map (fun i => readReg rs (address + i))) with
      | none => .error excIllegalAddress
      | some vs => .ok vs := by
  induction n with
  | zero => simp [readWords, allSome]
  | succ n ih =>
    simp only [readWords, ih, List.range_succ, List.map_append, List.map_cons, List.map_nil, allSome_append]
    cases allSome ((List.range n).map (fun i => readReg rs (address + i))) <;>
      cases readReg rs (address + n) <;> simp

theorem readBits_eq (rs : Regs) (address : Nat) (n : Nat) :
    readBits rs address n = match allSome ((List.range n).map (fun i => readCoil rs (address + i))) with
      | none => .error excIllegalAddress
      | some vs => .ok vs := by
  induction n with
  | zero => simp [readBits, allSome]
  | succ n ih =>
    simp only [readBits, ih, List.range_succ, List.map_append, List.map_cons, List.map_nil, allSome_append]
    cases allSome ((List.range n).map (fun i => readCoil rs (address + i))) <;>
      cases readCoil rs (address + n) <;> simp

theorem writeReg_eq (rs : Regs) (a v : Nat) (ha : a < 65536) :
    writeReg rs a v = match validatorOf rs a with
      | none => .error excIllegalAddress
      | some ok => if ok v then .ok (setReg rs a v) else .error excIllegalValue := by
  induction rs with
  | nil => simp [writeReg, validatorOf]
  | cons r rs ih =>
    simp only [writeReg, validatorOf, setReg, Nat.mod_eq_of_lt ha]
    by_cases h : r.addr = a
    · simp only [h, if_true]
    · simp only [h, if_false, ih]
      cases validatorOf rs a with
      | none => rfl
      | some ok => by_cases hv : ok v <;> simp [hv]

theorem readReg_none_iff (rs : Regs) (a : Nat) (ha : a < 65536) :
    readReg rs a = none ↔ validatorOf rs a = none := by
  induction rs with
  | nil => simp [readReg, validatorOf]
  | cons r rs ih =>
    simp only [readReg, validatorOf, Nat.mod_eq_of_lt ha]
    by_cases h : r.addr = a <;> simp [h, ih]

theorem u8_mod (n : Nat) : u8 (n % 256) = u8 n := by
  unfold u8
  apply UInt8.toNat_inj.mp
  simp [UInt8.toNat_ofNat']

end Siot.Modbus
