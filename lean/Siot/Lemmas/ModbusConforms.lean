import Siot.Lemmas.Modbus
namespace Siot.Modbus
open Siot Siot.Modbus.Spec

def toResp : Outcome → Option Resp
  | .normal fc d => some (.normal fc d)
  | .exception fc c => some (.exception fc c)
  | .tooShort => some .none
  | .panic _ => none

/-- model and specification agree on one request -/
def Agree (r : Outcome × Regs) (sp : Result) : Prop :=
  toResp r.1 = some sp.resp ∧ ∀ regs, sp.regs = some regs → r.2 = regs

theorem cases4 (data : Bytes) (h : 4 ≤ data.length) : ∃ a b c d rest, data = a :: b :: c :: d :: rest := by
  match data, h with
  | a :: b :: c :: d :: rest, _ => exact ⟨a, b, c, d, rest, rfl⟩

theorem cases5 (data : Bytes) (h : 5 ≤ data.length) : ∃ a b c d e rest, data = a :: b :: c :: d :: e :: rest := by
  match data, h with
  | a :: b :: c :: d :: e :: rest, _ => exact ⟨a, b, c, d, e, rest, rfl⟩

theorem respond_short (rs : Regs) (fc : Nat) (data : Bytes)
    (h : data.length < fixedLen fc) : respond rs fc data = ⟨.none, some rs⟩ := by
  unfold respond
  rw [if_pos h]

theorem conforms_readWords (rs : Regs) (fc : Nat) (hfc : fc = 3 ∨ fc = 4) (data : Bytes) :
    Agree (processRequest rs fc data) (respond rs fc data) := by
  have hmin : minRequestLen fc = 5 := by rcases hfc with rfl | rfl <;> rfl
  have hor : fc ||| 128 = fc + 128 := by rcases hfc with rfl | rfl <;> decide
  unfold processRequest
  rw [hmin]
  by_cases hlen : data.length + 1 < 5
  · rw [if_pos hlen]
    have : respond rs fc data = ⟨.none, some rs⟩ :=
      respond_short rs fc data (by rcases hfc with rfl | rfl <;> simp [fixedLen] <;> try omega)
    rw [this]; exact ⟨rfl, fun _ h => Option.some.inj h⟩
  · rw [if_neg hlen, if_neg (by rcases hfc with rfl | rfl <;> omega), if_pos hfc]
    obtain ⟨a1, a0, c1, c0, rest, rfl⟩ := cases4 data (by omega)
    have hw0 := word_lt a1 a0
    have hw2 := word_lt c1 c0
    have hresp : respond rs fc (a1 :: a0 :: c1 :: c0 :: rest) =
        (if word c1 c0 < 1 ∨ 125 < word c1 c0 then ⟨.exception (fc + 128) 3, some rs⟩
         else if 65536 < word a1 a0 + word c1 c0 then ⟨.exception (fc + 128) 2, some rs⟩
         else match allSome ((List.range (word c1 c0)).map (fun i => readReg rs (word a1 a0 + i))) with
          | Option.none => ⟨.exception (fc + 128) 2, some rs⟩
          | some vals => ⟨.normal fc (u8 (2 * word c1 c0) :: vals.flatMap (fun v => [u8 (v / 256), u8 (v % 256)])), some rs⟩) := by
      have hl4 : ¬ (rest.length + 1 + 1 + 1 + 1 < 4) := by omega
      rcases hfc with rfl | rfl <;> simp [respond, fixedLen, word, hl4] <;> rfl
    rw [hresp]
    unfold reqReadWords
    simp only [maxReadRegs, addressSpace, exc, hor, excIllegalValue, excIllegalAddress, readWords_eq]
    split
    · exact ⟨rfl, fun _ h => Option.some.inj h⟩
    · split
      · exact ⟨rfl, fun _ h => Option.some.inj h⟩
      · cases allSome ((List.range (word c1 c0)).map (fun i => readReg rs (word a1 a0 + i))) with
        | none => exact ⟨rfl, fun _ h => Option.some.inj h⟩
        | some vals =>
          refine ⟨?_, fun _ h => Option.some.inj h⟩
          simp only [toResp, Option.some.injEq, Resp.normal.injEq, true_and, List.cons.injEq]
          constructor
          · rw [u8_mod, Nat.mul_comm]
          · congr 1; funext v; simp [be16, u8_mod]

theorem conforms_readBits (rs : Regs) (fc : Nat) (hfc : fc = 1 ∨ fc = 2) (data : Bytes) :
    Agree (processRequest rs fc data) (respond rs fc data) := by
  have hmin : minRequestLen fc = 5 := by rcases hfc with rfl | rfl <;> rfl
  have hor : fc ||| 128 = fc + 128 := by rcases hfc with rfl | rfl <;> decide
  unfold processRequest
  rw [hmin]
  by_cases hlen : data.length + 1 < 5
  · rw [if_pos hlen]
    have : respond rs fc data = ⟨.none, some rs⟩ :=
      respond_short rs fc data (by rcases hfc with rfl | rfl <;> simp [fixedLen] <;> try omega)
    rw [this]; exact ⟨rfl, fun _ h => Option.some.inj h⟩
  · rw [if_neg hlen, if_pos hfc]
    obtain ⟨a1, a0, c1, c0, rest, rfl⟩ := cases4 data (by omega)
    have hresp : respond rs fc (a1 :: a0 :: c1 :: c0 :: rest) =
        (if word c1 c0 < 1 ∨ 2000 < word c1 c0 then ⟨.exception (fc + 128) 3, some rs⟩
         else if 65536 < word a1 a0 + word c1 c0 then ⟨.exception (fc + 128) 2, some rs⟩
         else match allSome ((List.range (word c1 c0)).map (fun i => readCoil rs (word a1 a0 + i))) with
          | Option.none => ⟨.exception (fc + 128) 2, some rs⟩
          | some bits => ⟨.normal fc (u8 ((word c1 c0 + 7) / 8) ::
              (List.range ((word c1 c0 + 7) / 8)).map (fun j => u8 (statusByte bits j))), some rs⟩) := by
      have hl4 : ¬ (rest.length + 1 + 1 + 1 + 1 < 4) := by omega
      rcases hfc with rfl | rfl <;> simp [respond, fixedLen, word, hl4] <;> rfl
    rw [hresp]
    unfold reqReadBits
    simp only [maxReadBits, addressSpace, exc, hor, excIllegalValue, excIllegalAddress, readBits_eq]
    split
    · exact ⟨rfl, fun _ h => Option.some.inj h⟩
    · rename_i hq
      split
      · exact ⟨rfl, fun _ h => Option.some.inj h⟩
      · cases allSome ((List.range (word c1 c0)).map (fun i => readCoil rs (word a1 a0 + i))) with
        | none => exact ⟨rfl, fun _ h => Option.some.inj h⟩
        | some bits =>
          refine ⟨?_, fun _ h => Option.some.inj h⟩
          have hn : (word c1 c0 + 7) / 8 % 256 = (word c1 c0 + 7) / 8 := Nat.mod_eq_of_lt (by omega)
          simp only [hn, statusBytes]
          rfl

theorem exc6 : (6 ||| 128 : Nat) = 134 := by decide
theorem exc5 : (5 ||| 128 : Nat) = 133 := by decide
theorem exc15 : (15 ||| 128 : Nat) = 143 := by decide
theorem exc16 : (16 ||| 128 : Nat) = 144 := by decide

theorem conforms_writeReg (rs : Regs) (data : Bytes) :
    Agree (processRequest rs 6 data) (respond rs 6 data) := by
  unfold processRequest
  have hmin : minRequestLen 6 = 5 := rfl
  rw [hmin]
  by_cases hlen : data.length + 1 < 5
  · rw [if_pos hlen, respond_short rs 6 data (by simp [fixedLen]; omega)]
    exact ⟨rfl, fun _ h => Option.some.inj h⟩
  · rw [if_neg hlen]
    simp only [show ¬ ((6:Nat) = 1 ∨ (6:Nat) = 2) by decide, show ¬ ((6:Nat) = 3 ∨ (6:Nat) = 4) by decide,
      show ¬ ((6:Nat) = 5) by decide, show ¬ ((6:Nat) = 15) by decide, if_false, if_true]
    obtain ⟨a1, a0, v1, v0, rest, rfl⟩ := cases4 data (by omega)
    have hresp : respond rs 6 (a1 :: a0 :: v1 :: v0 :: rest) =
        (match validatorOf rs (word a1 a0) with
          | some ok => if ok (word v1 v0) then ⟨.normal 6 (a1 :: a0 :: v1 :: v0 :: rest), some (setReg rs (word a1 a0) (word v1 v0))⟩
                       else ⟨.exception 134 3, some rs⟩
          | Option.none => ⟨.exception 134 2, some rs⟩) := by
      have hl4 : ¬ (rest.length + 1 + 1 + 1 + 1 < 4) := by omega
      simp [respond, fixedLen, word, hl4] <;> rfl
    rw [hresp]
    unfold reqWriteReg
    simp only [writeReg_eq rs _ _ (word_lt a1 a0), exc, exc6, excIllegalAddress, excIllegalValue]
    cases validatorOf rs (word a1 a0) with
    | none => exact ⟨rfl, fun _ h => Option.some.inj h⟩
    | some ok =>
      by_cases hv : ok (word v1 v0) = true
      · simp only [hv, if_true]; exact ⟨rfl, fun _ h => Option.some.inj h⟩
      · simp only [hv]; exact ⟨rfl, fun _ h => Option.some.inj h⟩

theorem conforms_writeCoil (rs : Regs) (data : Bytes) :
    Agree (processRequest rs 5 data) (respond rs 5 data) := by
  unfold processRequest
  have hmin : minRequestLen 5 = 5 := rfl
  rw [hmin]
  by_cases hlen : data.length + 1 < 5
  · rw [if_pos hlen, respond_short rs 5 data (by simp [fixedLen]; omega)]
    exact ⟨rfl, fun _ h => Option.some.inj h⟩
  · rw [if_neg hlen]
    simp only [show ¬ ((5:Nat) = 1 ∨ (5:Nat) = 2) by decide, show ¬ ((5:Nat) = 3 ∨ (5:Nat) = 4) by decide, if_false, if_true]
    obtain ⟨a1, a0, v1, v0, rest, rfl⟩ := cases4 data (by omega)
    have hresp : respond rs 5 (a1 :: a0 :: v1 :: v0 :: rest) =
        (if word v1 v0 ≠ 0 ∧ word v1 v0 ≠ 0xff00 then ⟨.exception 133 3, some rs⟩
         else match readReg rs (word a1 a0 / 16), validatorOf rs (word a1 a0 / 16) with
          | some rv, some ok =>
            if ok (setBit rv (word a1 a0 % 16) (word v1 v0 == 0xff00)) then
              ⟨.normal 5 (a1 :: a0 :: v1 :: v0 :: rest), some (setReg rs (word a1 a0 / 16) (setBit rv (word a1 a0 % 16) (word v1 v0 == 0xff00)))⟩
            else ⟨.exception 133 3, some rs⟩
          | _, _ => ⟨.exception 133 2, some rs⟩) := by
      have hl4 : ¬ (rest.length + 1 + 1 + 1 + 1 < 4) := by omega
      simp [respond, fixedLen, word, hl4] <;> rfl
    rw [hresp]
    unfold reqWriteCoil
    simp only [exc, exc5, excIllegalAddress, excIllegalValue]
    split
    · exact ⟨rfl, fun _ h => Option.some.inj h⟩
    · unfold writeCoil
      have ha : word a1 a0 / 16 < 65536 := by have := word_lt a1 a0; omega
      cases hr : readReg rs (word a1 a0 / 16) with
      | none => exact ⟨rfl, fun _ h => Option.some.inj h⟩
      | some rv =>
        simp only [writeReg_eq rs _ _ ha, excIllegalAddress, excIllegalValue]
        cases hv : validatorOf rs (word a1 a0 / 16) with
        | none =>
          have := (readReg_none_iff rs _ ha).mpr hv
          rw [hr] at this; cases this
        | some ok =>
          by_cases hok : ok (setBit rv (word a1 a0 % 16) (word v1 v0 == 0xff00)) = true
          · simp only [hok, if_true]; exact ⟨rfl, fun _ h => Option.some.inj h⟩
          · simp only [hok]; exact ⟨rfl, fun _ h => Option.some.inj h⟩

theorem conforms_writeRegs (rs : Regs) (data : Bytes) :
    Agree (processRequest rs 16 data) (respond rs 16 data) := by
  unfold processRequest
  have hmin : minRequestLen 16 = 8 := rfl
  rw [hmin]
  by_cases hlen : data.length + 1 < 8
  · rw [if_pos hlen, respond_short rs 16 data (by simp [fixedLen]; omega)]
    exact ⟨rfl, fun _ h => Option.some.inj h⟩
  · rw [if_neg hlen]
    simp only [show ¬ ((16:Nat) = 1 ∨ (16:Nat) = 2) by decide, show ¬ ((16:Nat) = 3 ∨ (16:Nat) = 4) by decide,
      show ¬ ((16:Nat) = 5) by decide, show ¬ ((16:Nat) = 15) by decide, show ¬ ((16:Nat) = 6) by decide, if_false, if_true]
    obtain ⟨a1, a0, q1, q0, bc, bytes, rfl⟩ := cases5 data (by omega)
    have hresp : respond rs 16 (a1 :: a0 :: q1 :: q0 :: bc :: bytes) =
        (if word q1 q0 < 1 ∨ 123 < word q1 q0 ∨ bc.toNat ≠ word q1 q0 * 2 ∨
            (a1 :: a0 :: q1 :: q0 :: bc :: bytes).length ≠ 5 + word q1 q0 * 2 then ⟨.exception 144 3, some rs⟩
         else if 65536 < word a1 a0 + word q1 q0 then ⟨.exception 144 2, some rs⟩
         else match (writeWords rs (word a1 a0) bytes 0 (word q1 q0)).1 with
          | Option.none => ⟨.normal 16 [a1, a0, q1, q0], some (writeWords rs (word a1 a0) bytes 0 (word q1 q0)).2⟩
          | some e => ⟨.exception 144 e, Option.none⟩) := by
      have hl : ¬ (bytes.length + 1 + 1 + 1 + 1 + 1 < 7) := by simp at hlen; omega
      simp [respond, fixedLen, word, hl] <;> rfl
    rw [hresp]
    unfold reqWriteRegs
    simp only [maxWriteRegs, addressSpace, exc, exc16, excIllegalValue, excIllegalAddress]
    split
    · exact ⟨rfl, fun _ h => Option.some.inj h⟩
    · split
      · exact ⟨rfl, fun _ h => Option.some.inj h⟩
      · cases hw : writeWords rs (word a1 a0) bytes 0 (word q1 q0) with
        | mk e rs' =>
          cases e with
          | none => exact ⟨rfl, fun _ h => Option.some.inj h⟩
          | some e => exact ⟨rfl, fun _ h => by cases h⟩

theorem conforms_writeCoils (rs : Regs) (data : Bytes) :
    Agree (processRequest rs 15 data) (respond rs 15 data) := by
  unfold processRequest
  have hmin : minRequestLen 15 = 7 := rfl
  rw [hmin]
  by_cases hlen : data.length + 1 < 7
  · rw [if_pos hlen, respond_short rs 15 data (by simp [fixedLen]; omega)]
    exact ⟨rfl, fun _ h => Option.some.inj h⟩
  · rw [if_neg hlen]
    simp only [show ¬ ((15:Nat) = 1 ∨ (15:Nat) = 2) by decide, show ¬ ((15:Nat) = 3 ∨ (15:Nat) = 4) by decide,
      show ¬ ((15:Nat) = 5) by decide, if_false, if_true]
    obtain ⟨a1, a0, q1, q0, bc, bytes, rfl⟩ := cases5 data (by omega)
    have hresp : respond rs 15 (a1 :: a0 :: q1 :: q0 :: bc :: bytes) =
        (if word q1 q0 < 1 ∨ 1968 < word q1 q0 ∨ bc.toNat ≠ (word q1 q0 + 7) / 8 ∨
            (a1 :: a0 :: q1 :: q0 :: bc :: bytes).length ≠ 5 + (word q1 q0 + 7) / 8 then ⟨.exception 143 3, some rs⟩
         else if 65536 < word a1 a0 + word q1 q0 then ⟨.exception 143 2, some rs⟩
         else match (writeBits rs (word a1 a0) bytes 0 (word q1 q0)).1 with
          | Option.none => ⟨.normal 15 [a1, a0, q1, q0], some (writeBits rs (word a1 a0) bytes 0 (word q1 q0)).2⟩
          | some e => ⟨.exception 143 e, Option.none⟩) := by
      have hl : ¬ (bytes.length + 1 + 1 + 1 + 1 + 1 < 6) := by simp at hlen; omega
      simp [respond, fixedLen, word, hl] <;> rfl
    rw [hresp]
    unfold reqWriteCoils
    simp only [maxWriteBits, addressSpace, exc, exc15, excIllegalValue, excIllegalAddress]
    split
    · exact ⟨rfl, fun _ h => Option.some.inj h⟩
    · split
      · exact ⟨rfl, fun _ h => Option.some.inj h⟩
      · cases hw : writeBits rs (word a1 a0) bytes 0 (word q1 q0) with
        | mk e rs' =>
          cases e with
          | none => exact ⟨rfl, fun _ h => Option.some.inj h⟩
          | some e => exact ⟨rfl, fun _ h => by cases h⟩

/-- function codes the server does not implement -/
theorem conforms_other (rs : Regs) (fc : Nat) (data : Bytes)
    (h : fc ≠ 1 ∧ fc ≠ 2 ∧ fc ≠ 3 ∧ fc ≠ 4 ∧ fc ≠ 5 ∧ fc ≠ 6 ∧ fc ≠ 15 ∧ fc ≠ 16) :
    Agree (processRequest rs fc data) (respond rs fc data) := by
  obtain ⟨h1, h2, h3, h4, h5, h6, h15, h16⟩ := h
  have hfl : fixedLen fc + 1 = minRequestLen fc ∨ (fixedLen fc = 0 ∧ minRequestLen fc = 0) := by
    unfold fixedLen minRequestLen
    split <;> simp_all
  unfold processRequest
  by_cases hlen : data.length + 1 < minRequestLen fc
  · rw [if_pos hlen, respond_short rs fc data (by omega)]
    exact ⟨rfl, fun _ h => Option.some.inj h⟩
  · rw [if_neg hlen]
    simp only [h1, h2, h3, h4, h5, h6, h15, h16, or_self, if_false]
    have : respond rs fc data = ⟨.exception (fc ||| 128) 1, some rs⟩ := by
      unfold respond
      rw [if_neg (by omega)]
      split <;> simp_all
    rw [this]
    exact ⟨rfl, fun _ h => Option.some.inj h⟩

end Siot.Modbus
