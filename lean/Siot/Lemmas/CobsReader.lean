import Siot.Lemmas.Cobs
namespace Siot.Cobs
open Siot

/-! ### dropZeros / cutAtZero algebra -/
theorem dropZeros_append (a b : Bytes) :
    dropZeros (a ++ b) = if dropZeros a = [] then dropZeros b else dropZeros a ++ b := by
  induction a with
  | nil => simp [dropZeros]
  | cons x a ih =>
    simp only [List.cons_append, dropZeros]
    split
    · exact ih
    · simp

theorem dropZeros_idem_append (a b : Bytes) : dropZeros (dropZeros a ++ b) = dropZeros (a ++ b) := by
  induction a with
  | nil => simp [dropZeros]
  | cons x a ih =>
    simp only [List.cons_append, dropZeros]
    split
    · exact ih
    · rename_i h; simp [dropZeros, h]

theorem cutAtZero_append (a b : Bytes) :
    cutAtZero (a ++ b) = match cutAtZero a with
      | some (f, r) => some (f, r ++ b)
      | none => (cutAtZero b).map (fun fr => (a ++ fr.1, fr.2)) := by
  induction a with
  | nil => simp [cutAtZero]
  | cons x a ih =>
    simp only [List.cons_append, cutAtZero]
    split
    · rfl
    · rw [ih]
      cases h : cutAtZero a with
      | some fr => obtain ⟨f, r⟩ := fr; simp
      | none =>
        cases h2 : cutAtZero b with
        | some fr => obtain ⟨f, r⟩ := fr; simp
        | none => simp

theorem cutAtZero_none_zf (a : Bytes) (h : cutAtZero a = none) : ZF a := by
  induction a with
  | nil => intro b hb; cases hb
  | cons x a ih =>
    simp only [cutAtZero] at h
    split at h
    · cases h
    · rename_i hx
      cases h2 : cutAtZero a with
      | some fr => rw [h2] at h; obtain ⟨f, r⟩ := fr; simp at h
      | none =>
        intro b hb
        simp only [List.mem_cons] at hb
        rcases hb with rfl | hb
        · exact hx
        · exact ih h2 b hb

theorem cutAtZero_zf (a rest : Bytes) (h : ZF a) : cutAtZero (a ++ 0 :: rest) = some (a, rest) := by
  induction a with
  | nil => simp [cutAtZero]
  | cons x a ih =>
    have hx : x ≠ 0 := h x (by simp)
    simp only [List.cons_append, cutAtZero, if_neg hx, ih (fun b hb => h b (by simp [hb]))]

theorem cutAtZero_length (a f r : Bytes) (h : cutAtZero a = some (f, r)) : a = f ++ 0 :: r := by
  induction a generalizing f with
  | nil => simp [cutAtZero] at h
  | cons x a ih =>
    simp only [cutAtZero] at h
    split at h
    · rename_i hx; subst hx; simp at h; obtain ⟨rfl, rfl⟩ := h; rfl
    · cases h2 : cutAtZero a with
      | none => rw [h2] at h; simp at h
      | some fr =>
        obtain ⟨f', r'⟩ := fr
        rw [h2] at h; simp at h
        obtain ⟨rfl, rfl⟩ := h
        rw [ih f' h2]; rfl

/-- what a `Read` returns for the frame body `f` (bytes between delimiters) -/
def outFor (cfg : Cfg) (f : Bytes) : ReadOut :=
  if (0 :: (f ++ [0])).length > cfg.bufLen then .tooMuch else .frame (decodeInplace (0 :: (f ++ [0])))

theorem tryFrame_some (cfg : Cfg) (lo f rest : Bytes) (h : cutAtZero (dropZeros lo) = some (f, rest)) :
    tryFrame cfg lo = some (outFor cfg f, rest) := by
  simp only [tryFrame, h, outFor]
  split <;> rfl

/-- **Reader, frame case.** If the not yet consumed stream (leftover ++ all future device reads)
contains, after leading delimiters, a body `f` followed by a delimiter, and `f` is within the
limits, then `Read` returns the decoding of exactly `f` — however the stream is cut into device
reads — and the not yet consumed stream afterwards is exactly what followed the delimiter. -/
theorem read_frame (cfg : Cfg) (f rest : Bytes) (hb : f.length < cfg.bufLen) (hm : f.length ≤ cfg.maxLen) :
    ∀ (cs : List Bytes) (lo : Bytes), cutAtZero (dropZeros (lo ++ cs.flatten)) = some (f, rest) →
      ∃ lo' cs', read cfg cs lo = (outFor cfg f, lo', cs') ∧ lo' ++ cs'.flatten = rest := by
  intro cs
  induction cs with
  | nil =>
    intro lo h
    simp only [List.flatten_nil, List.append_nil] at h
    refine ⟨rest, [], ?_, by simp⟩
    simp only [read, tryFrame_some cfg lo f rest h]
  | cons c cs ih =>
    intro lo h
    cases hl : cutAtZero (dropZeros lo) with
    | some fr =>
      obtain ⟨f0, r0⟩ := fr
      have hne : dropZeros lo ≠ [] := by intro h0; rw [h0] at hl; simp [cutAtZero] at hl
      rw [dropZeros_append, if_neg hne, cutAtZero_append, hl] at h
      simp only [Option.some.injEq, Prod.mk.injEq] at h
      obtain ⟨rfl, rfl⟩ := h
      refine ⟨r0, c :: cs, ?_, rfl⟩
      simp only [read, tryFrame_some cfg lo f0 r0 hl]
    | none =>
      -- the partial body is a prefix of f, so the length guard does not fire
      have hzf := cutAtZero_none_zf _ hl
      have hS : dropZeros (lo ++ (c :: cs).flatten) = dropZeros (dropZeros lo ++ (c :: cs).flatten) :=
        (dropZeros_idem_append _ _).symm
      have hlen : (dropZeros lo).length ≤ f.length := by
        by_cases h0 : dropZeros lo = []
        · simp [h0]
        · have hd : dropZeros (dropZeros lo ++ (c :: cs).flatten) = dropZeros lo ++ (c :: cs).flatten := by
            cases hdl : dropZeros lo with
            | nil => exact absurd hdl h0
            | cons x xs =>
              have hx : x ≠ 0 := hzf x (by rw [hdl]; simp)
              simp [dropZeros, hx]
          rw [hS, hd, cutAtZero_append, hl] at h
          cases h2 : cutAtZero (c :: cs).flatten with
          | none => rw [h2] at h; simp at h
          | some fr =>
            rw [h2] at h; simp at h
            rw [← h.1]; simp
      have hguard : ¬ ((dropZeros lo).length ≥ cfg.bufLen ∨ (dropZeros lo).length > cfg.maxLen) := by omega
      have hrec := ih (dropZeros lo ++ c) (by
        rw [List.append_assoc, ← List.flatten_cons, ← hS]; exact h)
      obtain ⟨lo', cs', hr, hrest⟩ := hrec
      refine ⟨lo', cs', ?_, hrest⟩
      simp only [read, tryFrame, hl, if_neg hguard]
      exact hr

/-- **Reader, end of stream.** With no complete frame left (and the residue within the limits) `Read`
reports the device error. -/
theorem read_end (cfg : Cfg) :
    ∀ (cs : List Bytes) (lo : Bytes), cutAtZero (dropZeros (lo ++ cs.flatten)) = none →
      (dropZeros (lo ++ cs.flatten)).length < cfg.bufLen →
      (dropZeros (lo ++ cs.flatten)).length ≤ cfg.maxLen →
      ∃ lo', read cfg cs lo = (.devErr, lo', []) := by
  intro cs
  induction cs with
  | nil =>
    intro lo h hb hm
    simp only [List.flatten_nil, List.append_nil] at h hb hm
    refine ⟨dropZeros lo, ?_⟩
    have hguard : ¬ ((dropZeros lo).length ≥ cfg.bufLen ∨ (dropZeros lo).length > cfg.maxLen) := by omega
    simp only [read, tryFrame, h, if_neg hguard]
  | cons c cs ih =>
    intro lo h hb hm
    have hS : dropZeros (lo ++ (c :: cs).flatten) = dropZeros (dropZeros lo ++ (c :: cs).flatten) :=
      (dropZeros_idem_append _ _).symm
    have hl : cutAtZero (dropZeros lo) = none := by
      cases hl : cutAtZero (dropZeros lo) with
      | none => rfl
      | some fr =>
        obtain ⟨f0, r0⟩ := fr
        have hne : dropZeros lo ≠ [] := by intro h0; rw [h0] at hl; simp [cutAtZero] at hl
        rw [dropZeros_append, if_neg hne, cutAtZero_append, hl] at h
        simp at h
    have hlen : (dropZeros lo).length ≤ (dropZeros (lo ++ (c :: cs).flatten)).length := by
      rw [dropZeros_append]
      split
      · rename_i h0; simp [h0]
      · simp
    have hguard : ¬ ((dropZeros lo).length ≥ cfg.bufLen ∨ (dropZeros lo).length > cfg.maxLen) := by omega
    have hrec := ih (dropZeros lo ++ c)
      (by rw [List.append_assoc, ← List.flatten_cons, ← hS]; exact h)
      (by rw [List.append_assoc, ← List.flatten_cons, ← hS]; exact hb)
      (by rw [List.append_assoc, ← List.flatten_cons, ← hS]; exact hm)
    obtain ⟨lo', hr⟩ := hrec
    refine ⟨lo', ?_⟩
    simp only [read, tryFrame, hl, if_neg hguard]
    exact hr

end Siot.Cobs
