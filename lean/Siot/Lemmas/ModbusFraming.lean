import Siot.Model.ModbusE2E
import Siot.Lemmas.Modbus
namespace Siot.Modbus
open Siot

theorem u8_toNat (n : Nat) (h : n < 256) : (u8 n).toNat = n := by
  simp [u8, UInt8.toNat_ofNat', Nat.mod_eq_of_lt h]

theorem rtuBit_lt (c : Nat) (h : c < 65536) : rtuBit c < 65536 := by
  unfold rtuBit
  split
  · exact Nat.xor_lt_two_pow (n := 16) (by omega) (by decide)
  · omega

theorem rtuByte_lt (c : Nat) (b : UInt8) (h : c < 65536) : rtuByte c b < 65536 := by
  unfold rtuByte
  have hb := UInt8.toNat_lt b
  have h0 : c ^^^ b.toNat < 65536 := Nat.xor_lt_two_pow (n := 16) h (by omega)
  exact rtuBit_lt _ (rtuBit_lt _ (rtuBit_lt _ (rtuBit_lt _ (rtuBit_lt _ (rtuBit_lt _ (rtuBit_lt _ (rtuBit_lt _ h0)))))))

theorem foldl_rtuByte_lt (buf : Bytes) : ∀ c, c < 65536 → buf.foldl rtuByte c < 65536 := by
  induction buf with
  | nil => intro c h; exact h
  | cons b bs ih => intro c h; exact ih _ (rtuByte_lt c b h)

theorem rtuCrc_lt (buf : Bytes) : rtuCrc buf < 65536 := by
  unfold rtuCrc
  have h := foldl_rtuByte_lt buf 0xFFFF (by decide)
  exact Nat.or_lt_two_pow (n := 16) (by omega) (by omega)

theorem rtuDecode_split (id fcb : UInt8) (data : Bytes) (hi lo : UInt8) :
    rtuDecode (id :: fcb :: data ++ [hi, lo]) =
      if rtuCrc (id :: fcb :: data) = hi.toNat * 256 + lo.toNat then .ok (id, fcb.toNat, data) else .err "crc" := by
  unfold rtuDecode
  have hlen : (id :: fcb :: data ++ [hi, lo]).length = data.length + 4 := by simp
  rw [if_neg (by rw [hlen]; omega), hlen]
  have h1 : (id :: fcb :: data ++ [hi, lo]).take (data.length + 4 - 2) = id :: fcb :: data := by
    have : data.length + 4 - 2 = (id :: fcb :: data).length := by simp
    rw [this, List.take_left]
  have h2 : (id :: fcb :: data ++ [hi, lo]).drop (data.length + 4 - 2) = [hi, lo] := by
    have : data.length + 4 - 2 = (id :: fcb :: data).length := by simp
    rw [this, List.drop_left]
  rw [h1, h2]

/-- **RTU round trip**: decoding an encoded frame returns the unit id, function code and data -/
theorem rtu_roundtrip (id : UInt8) (fc : Nat) (hfc : fc < 256) (data : Bytes) :
    rtuDecode (rtuEncode id fc data) = .ok (id, fc, data) := by
  unfold rtuEncode
  have hc := rtuCrc_lt (id :: u8 fc :: data)
  simp only []
  rw [rtuDecode_split, u8_toNat _ (by omega : rtuCrc (id :: u8 fc :: data) / 256 % 256 < 256),
    u8_toNat _ (by omega : rtuCrc (id :: u8 fc :: data) % 256 < 256), u8_toNat fc hfc, if_pos (by omega)]

/-- **RTU rejects** short frames and frames whose trailer is not the CRC of the rest -/
theorem rtu_rejects_short (p : Bytes) (h : p.length < 4) : rtuDecode p = .err "short" := by
  unfold rtuDecode; rw [if_pos h]

theorem rtu_rejects_bad_crc (id fcb : UInt8) (data : Bytes) (hi lo : UInt8)
    (h : rtuCrc (id :: fcb :: data) ≠ hi.toNat * 256 + lo.toNat) :
    rtuDecode (id :: fcb :: data ++ [hi, lo]) = .err "crc" := by
  rw [rtuDecode_split, if_neg h]

/-- **TCP round trip** (client side, same transaction id) and the two rejections -/
theorem tcp_roundtrip (tx : Nat) (htx : tx < 65536) (id : UInt8) (fc : Nat) (hfc : fc < 256) (d0 : UInt8) (rest : Bytes) :
    tcpDecodeClient tx (tcpEncode tx id fc (d0 :: rest)) = .ok (id, fc, d0 :: rest) := by
  simp only [tcpEncode, tcpDecodeClient, List.cons_append, List.nil_append,
    u8_toNat _ (by omega : tx / 256 % 256 < 256), u8_toNat _ (by omega : tx % 256 < 256), u8_toNat fc hfc]
  rw [if_neg (by omega)]

theorem tcp_server_roundtrip (tx : Nat) (htx : tx < 65536) (id : UInt8) (fc : Nat) (hfc : fc < 256) (d0 : UInt8) (rest : Bytes) :
    tcpDecodeServer (tcpEncode tx id fc (d0 :: rest)) = .ok (tx, id, fc, d0 :: rest) := by
  simp only [tcpEncode, tcpDecodeServer, List.cons_append, List.nil_append,
    u8_toNat _ (by omega : tx / 256 % 256 < 256), u8_toNat _ (by omega : tx % 256 < 256), u8_toNat fc hfc]
  congr 3; omega

theorem tcp_rejects_short (tx : Nat) (p : Bytes) (h : p.length < 9) : tcpDecodeClient tx p = .err "short" := by
  unfold tcpDecodeClient
  split
  · simp at h; omega
  · rfl

theorem tcp_rejects_txid (tx tx' : Nat) (htx' : tx' < 65536) (hne : tx' ≠ tx) (id : UInt8) (fc : Nat)
    (d0 : UInt8) (rest : Bytes) :
    tcpDecodeClient tx (tcpEncode tx' id fc (d0 :: rest)) = .err "txid" := by
  simp only [tcpEncode, tcpDecodeClient, List.cons_append, List.nil_append,
    u8_toNat _ (by omega : tx' / 256 % 256 < 256), u8_toNat _ (by omega : tx' % 256 < 256)]
  rw [if_pos (by omega)]

end Siot.Modbus
