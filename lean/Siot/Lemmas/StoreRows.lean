import Siot.Lemmas.LWW
import Siot.Lemmas.SyncExchange
/-
What every stored row looks like, as an invariant of the store's two write requests: the key is never empty, the value
is neither -0 nor NaN (`normPoint p = p`, `isNaN p.value = false`), and the node type is never an edge row. The C02
theorems take "stored rows" as a hypothesis on the two stores; this file shows that every store reachable by writes
satisfies it.
-/
namespace Siot.Store
open Siot

def RowGood (p : Point) : Prop := normPoint p = p ∧ isNaN p.value = false

def RowInv (st : St) : Prop :=
  (∀ r ∈ st.nodePts, RowGood r.2) ∧ (∀ r ∈ st.edgePts, RowGood r.2 ∧ r.2.type ≠ nodeTypeT)

theorem normKey_idem (k : Bytes) : normKey (normKey k) = normKey k := by
  unfold normKey
  cases k with
  | nil => rfl
  | cons a l => rfl

theorem normPoint_idem (p : Point) : normPoint (normPoint p) = normPoint p := by
  unfold normPoint
  simp only [normKey_idem]
  by_cases h : p.value = negZero
  · simp only [h, if_true]; rfl
  · simp only [if_neg h]

theorem normPoint_nan (p : Point) : isNaN (normPoint p).value = isNaN p.value := by
  unfold normPoint
  simp only []
  by_cases h : p.value = negZero
  · rw [if_pos h, h]; decide
  · rw [if_neg h]

theorem rowGood_norm (p : Point) (h : isNaN p.value = false) : RowGood (normPoint p) :=
  ⟨normPoint_idem p, by rw [normPoint_nan]; exact h⟩

theorem mergeBatch_mem : ∀ (batch db : List Point) (x : Point), x ∈ (mergeBatch db batch).1 → x ∈ db ∨ x ∈ batch := by
  intro batch
  induction batch with
  | nil => intro db x h; exact Or.inl h
  | cons p ps ih =>
    intro db x h
    unfold mergeBatch at h
    cases hf : db.find? (sameId p) with
    | none =>
      rw [hf] at h
      simp only [] at h
      rcases ih _ x h with h | h
      · rcases List.mem_append.mp h with h | h
        · exact Or.inl h
        · rw [List.mem_singleton] at h; exact Or.inr (h ▸ List.mem_cons_self ..)
      · exact Or.inr (List.mem_cons_of_mem _ h)
    | some old =>
      rw [hf] at h
      simp only [] at h
      by_cases ht : old.time ≤ p.time
      · rw [if_pos ht] at h
        simp only [] at h
        rcases ih _ x h with h | h
        · rw [List.mem_map] at h
          obtain ⟨q, hq, hx⟩ := h
          by_cases hs : sameId p q = true
          · rw [if_pos hs] at hx; exact Or.inr (hx ▸ List.mem_cons_self ..)
          · rw [if_neg hs] at hx; exact Or.inl (hx ▸ hq)
        · exact Or.inr (List.mem_cons_of_mem _ h)
      · rw [if_neg ht] at h
        rcases ih _ x h with h | h
        · exact Or.inl h
        · exact Or.inr (List.mem_cons_of_mem _ h)

theorem ptsOf_mem (st : St) (id : Bytes) (p : Point) (h : p ∈ ptsOf st id) : (id, p) ∈ st.nodePts := by
  unfold ptsOf at h
  rw [List.mem_map] at h
  obtain ⟨r, hr, rfl⟩ := h
  obtain ⟨h1, h2⟩ := List.mem_filter.mp hr
  have : r.1 = id := by simpa using h2
  rw [← this]; exact h1

theorem eptsOf_mem (st : St) (u d : Bytes) (p : Point) (h : p ∈ eptsOf st u d) : ((u, d), p) ∈ st.edgePts := by
  unfold eptsOf at h
  rw [List.mem_map] at h
  obtain ⟨r, hr, rfl⟩ := h
  obtain ⟨h1, h2⟩ := List.mem_filter.mp hr
  have : r.1 = (u, d) := by simpa using h2
  rw [← this]; exact h1

/-- the batch the store merges: normalised, not NaN -/
theorem batch_good (pts : List Point) (hn : pts.any (fun p => isNaN p.value) = false) :
    ∀ p ∈ collapse (pts.map normPoint), RowGood p := by
  intro p hp
  have hm := (collapse_spec (pts.map normPoint)).2.1 p hp
  rw [List.mem_map] at hm
  obtain ⟨q, hq, rfl⟩ := hm
  rw [List.any_eq_false] at hn
  exact rowGood_norm q (by simpa using hn q hq)

theorem rowInv_nodePoints (st st' : St) (id : Bytes) (pts : List Point) (h : nodePoints st id pts = .ok st') (hi : RowInv st) :
    RowInv st' := by
  unfold nodePoints at h
  by_cases hn : pts.any (fun p => isNaN p.value) = true
  · rw [if_pos hn] at h; cases h
  · rw [if_neg hn] at h
    simp only [] at h
    injection h with h
    subst h
    have hn' : pts.any (fun p => isNaN p.value) = false := by simpa using hn
    refine ⟨?_, hi.2⟩
    intro r hr
    simp only [List.mem_append, List.mem_map] at hr
    rcases hr with hr | ⟨p, hp, rfl⟩
    · exact hi.1 r (List.mem_filter.mp hr).1
    · rcases mergeBatch_mem _ _ p hp with h | h
      · exact hi.1 _ (ptsOf_mem st id p h)
      · exact batch_good pts hn' p h

theorem rowInv_edgeWrite (st : St) (u d : Bytes) (batch : List Point) (hi : RowInv st)
    (hb : ∀ p ∈ batch, RowGood p ∧ p.type ≠ nodeTypeT) : RowInv (edgeWrite st u d batch) := by
  unfold edgeWrite
  refine ⟨hi.1, ?_⟩
  intro r hr
  simp only [List.mem_append, List.mem_map] at hr
  rcases hr with hr | ⟨p, hp, rfl⟩
  · exact hi.2 r (List.mem_filter.mp hr).1
  · rcases mergeBatch_mem _ _ p hp with h | h
    · exact hi.2 _ (eptsOf_mem st u d p h)
    · exact hb p h

theorem rowInv_edgeInsert (st : St) (u d typ : Bytes) (batch : List Point) (hi : RowInv st)
    (hb : ∀ p ∈ batch, RowGood p ∧ p.type ≠ nodeTypeT) : RowInv (edgeInsert st u d typ batch) := by
  unfold edgeInsert
  refine ⟨hi.1, ?_⟩
  intro r hr
  simp only [List.mem_append, List.mem_map] at hr
  rcases hr with hr | ⟨p, hp, rfl⟩
  · exact hi.2 r hr
  · rcases mergeBatch_mem _ _ p hp with h | h
    · cases h
    · exact hb p h

theorem rowInv_edgePoints (st st' : St) (node parent : Bytes) (pts : List Point) (h : edgePoints st node parent pts = .ok st')
    (hi : RowInv st) : RowInv st' := by
  unfold edgePoints at h
  by_cases h1 : node = parent
  · rw [if_pos h1] at h; cases h
  · rw [if_neg h1] at h
    by_cases h2 : node = st.root ∧ pts.any (fun p => p.type == tombstoneT && isPos p.value) = true
    · rw [if_pos h2] at h; cases h
    · rw [if_neg h2] at h
      by_cases hn : pts.any (fun p => isNaN p.value) = true
      · rw [if_pos hn] at h; cases h
      · rw [if_neg hn] at h
        have hn' : pts.any (fun p => isNaN p.value) = false := by simpa using hn
        have hb : ∀ p ∈ (collapse (pts.map normPoint)).filter (fun p => p.type != nodeTypeT), RowGood p ∧ p.type ≠ nodeTypeT := by
          intro p hp
          obtain ⟨hp1, hp2⟩ := List.mem_filter.mp hp
          exact ⟨batch_good pts hn' p hp1, by simpa using hp2⟩
        generalize (if parent.isEmpty then rootS else parent) = u at h
        unfold edgePointsCore at h
        simp only [] at h
        cases hf : st.edges.find? (fun e => e.up == u && e.down == node) with
        | some e =>
          rw [hf] at h
          simp only [] at h
          injection h with h; subst h; exact rowInv_edgeWrite st _ _ _ hi hb
        | none =>
          rw [hf] at h
          simp only [] at h
          split at h
          · cases h
          · split at h
            · cases h
            · injection h with h; subst h; exact rowInv_edgeInsert st _ _ _ _ hi hb

theorem rowInv_step (st : St) (op : WOp) (hi : RowInv st) : RowInv (step st op).1 := by
  cases op with
  | np id pts =>
    simp only [step]
    cases h : nodePoints st id pts with
    | ok st' => exact rowInv_nodePoints st st' id pts h hi
    | err e => exact hi
    | panic e => exact hi
  | ep node parent pts =>
    simp only [step]
    cases h : edgePoints st node parent pts with
    | ok st' => exact rowInv_edgePoints st st' node parent pts h hi
    | err e => exact hi
    | panic e => exact hi

theorem rowInv_run : ∀ (ops : List WOp) (st : St), RowInv st → RowInv (run st ops) := by
  intro ops
  induction ops with
  | nil => intro st h; exact h
  | cons op ops ih => intro st h; exact ih _ (rowInv_step st op h)

theorem rowInv_empty : RowInv {} := ⟨(fun _ h => nomatch h), (fun _ h => nomatch h)⟩

end Siot.Store

namespace Siot.Sync
open Siot Siot.Store

theorem storedRows_pts (st : St) (hi : RowInv st) (id : Bytes) : StoredRows (ptsOf st id) :=
  fun p hp => hi.1 _ (ptsOf_mem st id p hp)

theorem storedRows_epts (st : St) (hi : RowInv st) (u d : Bytes) : StoredRows (eptsOf st u d) :=
  fun p hp => (hi.2 _ (eptsOf_mem st u d p hp)).1

theorem epts_no_nodeType (st : St) (hi : RowInv st) (u d : Bytes) : ∀ p ∈ eptsOf st u d, p.type ≠ nodeTypeT :=
  fun p hp => (hi.2 _ (eptsOf_mem st u d p hp)).2

end Siot.Sync
