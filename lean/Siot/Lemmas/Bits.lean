import Siot.Lemmas.Crc16Detect
/-
Index-based error classes on a bit string and their reduction to the list shapes used by the
detection lemmas.
-/
namespace Siot.Crc16
open Siot

def IsTrue (bs : List Bool) (j : Nat) : Prop := bs[j]? = some true

/-- a burst of at most 16 bits: at least one bit in error, all bits in error within a window of 16 -/
def Burst16 (bs : List Bool) : Prop := (∃ j, IsTrue bs j) ∧ ∃ i, ∀ j, IsTrue bs j → i ≤ j ∧ j ≤ i + 15

/-- a one- or two-bit error -/
def AtMostTwo (bs : List Bool) : Prop := (∃ j, IsTrue bs j) ∧ ∃ i1 i2, ∀ j, IsTrue bs j → j = i1 ∨ j = i2

theorem isTrue_cons_succ (b : Bool) (bs : List Bool) (j : Nat) : IsTrue (b :: bs) (j + 1) ↔ IsTrue bs j := by
  simp [IsTrue]

theorem isTrue_zeros (n j : Nat) : ¬ IsTrue (zeros n) j := by
  simp [IsTrue, zeros, List.getElem?_replicate]

theorem zeros_succ (n : Nat) : zeros (n + 1) = false :: zeros n := by simp [zeros, List.replicate_succ]

/-- no true bit: the list is all zeros -/
theorem all_false (bs : List Bool) (h : ∀ j, ¬ IsTrue bs j) : bs = zeros bs.length := by
  induction bs with
  | nil => rfl
  | cons b bs ih =>
    have hb : b = false := by
      cases b with
      | false => rfl
      | true => exact absurd (by simp [IsTrue]) (h 0)
    subst hb
    rw [List.length_cons, zeros_succ]
    congr 1
    exact ih (fun j hj => h (j + 1) ((isTrue_cons_succ _ _ _).mpr hj))

/-- split at the first true bit -/
theorem first_true (bs : List Bool) (h : ∃ j, IsTrue bs j) :
    ∃ f rest, bs = zeros f ++ true :: rest := by
  induction bs with
  | nil => obtain ⟨j, hj⟩ := h; simp [IsTrue] at hj
  | cons b bs ih =>
    cases b with
    | true => exact ⟨0, bs, rfl⟩
    | false =>
      obtain ⟨j, hj⟩ := h
      cases j with
      | zero => simp [IsTrue] at hj
      | succ j =>
        obtain ⟨f, rest, hr⟩ := ih ⟨j, (isTrue_cons_succ _ _ _).mp hj⟩
        exact ⟨f + 1, rest, by rw [zeros_succ, hr]; rfl⟩

theorem isTrue_append_right (a b : List Bool) (k : Nat) : IsTrue (a ++ b) (a.length + k) ↔ IsTrue b k := by
  simp [IsTrue, List.getElem?_append_right]

theorem zeros_length (n : Nat) : (zeros n).length = n := by simp [zeros]

/-- trues only below `n`: the list is `n` arbitrary bits followed by zeros -/
theorem trues_below (rest : List Bool) (n : Nat) (h : ∀ k, IsTrue rest k → k < n) :
    ∃ w m, w.length ≤ n ∧ rest = w ++ zeros m := by
  refine ⟨rest.take n, (rest.drop n).length, by simp; omega, ?_⟩
  have : rest.drop n = zeros (rest.drop n).length := by
    apply all_false
    intro j hj
    have : IsTrue rest (n + j) := by
      simp only [IsTrue, List.getElem?_drop] at hj ⊢; exact hj
    have := h _ this
    omega
  rw [← this, List.take_append_drop]

theorem burst_shape (bs : List Bool) (h : Burst16 bs) :
    ∃ i w m, w.length ≤ 15 ∧ bs = zeros i ++ (true :: w) ++ zeros m := by
  obtain ⟨hex, i, hwin⟩ := h
  obtain ⟨f, rest, hbs⟩ := first_true bs hex
  have hf : IsTrue bs f := by
    rw [hbs]
    have := (isTrue_append_right (zeros f) (true :: rest) 0)
    rw [zeros_length] at this
    exact this.mpr (by simp [IsTrue])
  have hfi := hwin f hf
  obtain ⟨w, m, hw, hrest⟩ := trues_below rest 15 (by
    intro k hk
    have : IsTrue bs (f + (k + 1)) := by
      rw [hbs]
      have := (isTrue_append_right (zeros f) (true :: rest) (k + 1))
      rw [zeros_length] at this
      exact this.mpr ((isTrue_cons_succ _ _ _).mpr hk)
    have := hwin _ this
    omega)
  exact ⟨f, w, m, hw, by rw [hbs, hrest]; simp⟩

theorem two_shape (bs : List Bool) (h : AtMostTwo bs) :
    (∃ i m, bs = zeros i ++ (true :: []) ++ zeros m) ∨
    (∃ i d m, 1 ≤ d ∧ d < bs.length ∧ bs = zeros i ++ [true] ++ zeros (d - 1) ++ [true] ++ zeros m) := by
  obtain ⟨hex, i1, i2, htwo⟩ := h
  obtain ⟨f, rest, hbs⟩ := first_true bs hex
  have hIdx : ∀ k, IsTrue rest k → IsTrue bs (f + (k + 1)) := by
    intro k hk
    rw [hbs]
    have := (isTrue_append_right (zeros f) (true :: rest) (k + 1))
    rw [zeros_length] at this
    exact this.mpr ((isTrue_cons_succ _ _ _).mpr hk)
  have hf : IsTrue bs f := by
    rw [hbs]
    have := (isTrue_append_right (zeros f) (true :: rest) 0)
    rw [zeros_length] at this
    exact this.mpr (by simp [IsTrue])
  by_cases hr : ∃ k, IsTrue rest k
  · right
    obtain ⟨g, rest2, hrest⟩ := first_true rest hr
    have hg : IsTrue rest g := by
      rw [hrest]
      have := (isTrue_append_right (zeros g) (true :: rest2) 0)
      rw [zeros_length] at this
      exact this.mpr (by simp [IsTrue])
    have hnone : ∀ j, ¬ IsTrue rest2 j := by
      intro j hj
      have h2 : IsTrue rest (g + (j + 1)) := by
        rw [hrest]
        have := (isTrue_append_right (zeros g) (true :: rest2) (j + 1))
        rw [zeros_length] at this
        exact this.mpr ((isTrue_cons_succ _ _ _).mpr hj)
      have a1 := htwo _ hf
      have a2 := htwo _ (hIdx g hg)
      have a3 := htwo _ (hIdx _ h2)
      omega
    have hz := all_false rest2 hnone
    refine ⟨f, g + 1, rest2.length, by omega, ?_, ?_⟩
    · rw [hbs, hrest]; simp [zeros_length]; omega
    · rw [hbs, hrest, hz]; simp [zeros_length]
  · left
    have hz := all_false rest (fun j hj => hr ⟨j, hj⟩)
    exact ⟨f, rest.length, by rw [hbs, hz]; simp [zeros_length]⟩

/-- **Detection on the bit string.** Every burst of up to 16 bits and every one- or two-bit error
in a string of fewer than 32767 bits has a non-zero syndrome. -/
theorem detect_bits (bs : List Bool) (hlen : bs.length < 32767) (h : Burst16 bs ∨ AtMostTwo bs) :
    run 0 bs ≠ 0 := by
  rcases h with h | h
  · obtain ⟨i, w, m, hw, rfl⟩ := burst_shape bs h
    exact burst_detected i m w hw
  · rcases two_shape bs h with ⟨i, m, rfl⟩ | ⟨i, d, m, hd1, hd2, hbs⟩
    · exact burst_detected i m [] (by simp)
    · rw [hbs]; exact two_bits_detected i m d hd1 (by omega)

end Siot.Crc16
