import Siot.Model.Feed
import Siot.Lemmas.LWW
import Siot.Props.C06
/- helper lemmas for C08 (Siot/Model/Feed.lean) -/
namespace Siot.Feed
open Siot Siot.Store

/-- `p` is the last delivered point of its identity -/
def Last (ds : List Point) (p : Point) : Prop := ∃ a b, ds = a ++ p :: b ∧ ∀ q ∈ b, sameId q p = false

/-- the view is the "last delivery per identity" summary of `ds` -/
structure LastWins (view ds : List Point) : Prop where
  uniq : IdUnique view
  last : ∀ p ∈ view, Last ds p
  cover : ∀ d ∈ ds, ∃ p ∈ view, sameId p d = true

theorem Last_snoc_other (ds : List Point) (p x : Point) (h : Last ds x) (hs : sameId p x = false) : Last (ds ++ [p]) x := by
  obtain ⟨a, b, hd, hb⟩ := h
  refine ⟨a, b ++ [p], by simp [hd], ?_⟩
  intro q hq
  simp only [List.mem_append, List.mem_singleton] at hq
  rcases hq with hq | rfl
  · exact hb q hq
  · exact hs

theorem Last_snoc_self (ds : List Point) (p : Point) : Last (ds ++ [p]) p :=
  ⟨ds, [], rfl, fun q hq => absurd hq List.not_mem_nil⟩

/-- one delivery folded into the view (already normalised point) -/
theorem put_step (view ds : List Point) (q : Point) (h : LastWins view ds) :
    LastWins (putN view q) (ds ++ [q]) := by
  unfold putN
  cases hf : view.find? (sameId q) with
  | some old =>
    simp only []
    refine ⟨idUnique_replace view q h.uniq, ?_, ?_⟩
    · intro x hx
      rcases mem_replace view q x hx with rfl | ⟨hxv, hsx⟩
      · exact Last_snoc_self ds _
      · exact Last_snoc_other ds q x (h.last x hxv) hsx
    · intro d hd
      simp only [List.mem_append, List.mem_singleton] at hd
      obtain ⟨hold, hso⟩ := find_sameId view q old hf
      rcases hd with hd | rfl
      · obtain ⟨r, hr, hrd⟩ := h.cover d hd
        by_cases hqr : sameId q r = true
        · refine ⟨q, ?_, sameId_trans q r d hqr hrd⟩
          simp only [List.mem_map]
          exact ⟨r, hr, by simp [hqr]⟩
        · refine ⟨r, ?_, hrd⟩
          simp only [List.mem_map]
          exact ⟨r, hr, by simp [hqr]⟩
      · refine ⟨d, ?_, sameId_refl d⟩
        simp only [List.mem_map]
        exact ⟨old, hold, by simp [hso]⟩
  | none =>
    simp only []
    have hno := find_none_no_same view q hf
    refine ⟨idUnique_append view q h.uniq hf, ?_, ?_⟩
    · intro x hx
      simp only [List.mem_append, List.mem_singleton] at hx
      rcases hx with hx | rfl
      · exact Last_snoc_other ds q x (h.last x hx) (hno x hx)
      · exact Last_snoc_self ds _
    · intro d hd
      simp only [List.mem_append, List.mem_singleton] at hd
      rcases hd with hd | rfl
      · obtain ⟨r, hr, hrd⟩ := h.cover d hd
        exact ⟨r, by simp [hr], hrd⟩
      · exact ⟨d, by simp, sameId_refl d⟩

theorem foldView_lastWins : ∀ (pts view ds : List Point), LastWins view ds →
    LastWins (foldView view pts) (ds ++ pts.map normPoint) := by
  intro pts
  induction pts with
  | nil => intro view ds h; simpa [foldView] using h
  | cons p ps ih =>
    intro view ds h
    have h1 := put_step view ds (normPoint p) h
    have := ih (put view p) (ds ++ [normPoint p]) h1
    simpa [foldView, List.append_assoc] using this

/-- per identity, later deliveries carry later-or-equal times -/
def Mono (ds : List Point) : Prop :=
  ∀ a p b q c, ds = a ++ p :: b ++ q :: c → sameId p q = true → p.time ≤ q.time

theorem idUnique_lww_self (rows : List Point) (hu : IdUnique rows) : LWW rows rows := by
  refine ⟨hu, ?_, fun d hd => ⟨d, hd, sameId_refl d⟩⟩
  intro p hp
  refine ⟨hp, ?_⟩
  intro q hq hs
  have := idUnique_eq rows hu q p hq hp hs
  rw [this]; exact Int.le_refl _

theorem idUnique_lastWins_self (rows : List Point) (hu : IdUnique rows) : LastWins rows rows := by
  refine ⟨hu, ?_, fun d hd => ⟨d, hd, sameId_refl d⟩⟩
  intro p hp
  obtain ⟨a, b, hab⟩ := List.append_of_mem hp
  refine ⟨a, b, hab, ?_⟩
  intro q hq
  rw [hab] at hu
  unfold IdUnique at hu
  rw [List.pairwise_append] at hu
  have h2 := hu.2.1
  rw [List.pairwise_cons] at h2
  rw [sameId_symm]
  exact h2.1 q hq

/-- under `Mono` and `Admissible` the newest and the last delivery of an identity coincide -/
theorem newest_eq_last (ds : List Point) (hm : Mono ds) (ha : Admissible ds) (p v : Point)
    (hp : Newest ds p) (hv : Last ds v) (hs : sameId p v = true) : p = v := by
  obtain ⟨a, b, hd, hb⟩ := hv
  have hpd := hp.1
  rw [hd] at hpd
  simp only [List.mem_append, List.mem_cons] at hpd
  rcases hpd with hpa | rfl | hpb
  · obtain ⟨a1, a2, ha12⟩ := List.append_of_mem hpa
    have h1 : p.time ≤ v.time := hm a1 p a2 v b (by rw [hd, ha12]) hs
    have hvd : v ∈ ds := by rw [hd]; simp
    have h2 : v.time ≤ p.time := hp.2 v hvd (by rw [sameId_symm]; exact hs)
    exact ha p hp.1 v hvd hs (by omega)
  · rfl
  · have := hb p hpb
    rw [this] at hs
    cases hs

end Siot.Feed
