import Siot.Lemmas.ExportStore
/-
The file `exportNodesHelper` writes is the pre-order list of its own parent-pointer tree: traversing the file by its
parent pointers (`rebuild`) gives the file back — whenever the ids in the file are distinct and the top node's parent
is not one of them (both true of every tree without mirrors and cycles, `ExportForest.lean`).
-/
namespace Siot.Export
open Siot Siot.Store

/-- the node ids of a file, in file order -/
def ids (S : Flat) : List Bytes := S.map (fun x => x.2.id)

theorem ids_append (A B : Flat) : ids (A ++ B) = ids A ++ ids B := List.map_append
theorem ids_cons (x : Nat × NodeRec) (A : Flat) : ids (x :: A) = x.2.id :: ids A := rfl
theorem mem_ids {S : Flat} {x : Nat × NodeRec} (h : x ∈ S) : x.2.id ∈ ids S := List.mem_map_of_mem (f := fun x => x.2.id) h

theorem ids_flatMap_mem {α} (l : List α) (g : α → Flat) (c : α) (hc : c ∈ l) (y : Bytes) (hy : y ∈ ids (g c)) :
    y ∈ ids (l.flatMap g) := by
  unfold ids at *
  simp only [List.mem_map, List.mem_flatMap] at *
  obtain ⟨x, hx, rfl⟩ := hy
  exact ⟨x, ⟨c, hc, hx⟩, rfl⟩

theorem flatMap_congr' {α β} : ∀ (l : List α) (f g : α → List β), (∀ a ∈ l, f a = g a) → l.flatMap f = l.flatMap g := by
  intro l
  induction l with
  | nil => intros; rfl
  | cons a l ih =>
    intro f g h
    rw [List.flatMap_cons, List.flatMap_cons, h a (List.mem_cons_self ..), ih f g (fun b hb => h b (List.mem_cons_of_mem _ hb))]

/-- every entry of an exported subtree is its top entry, or names as parent a node of the same subtree -/
theorem export_parent_inside (isDel : Nat → Bool) (st : St) : ∀ (k d : Nat) (e : Edge), ∀ x ∈ exportFrom isDel st k d e,
    x = (d, recOf st e) ∨ x.2.parent ∈ ids (exportFrom isDel st k d e) := by
  intro k
  induction k with
  | zero => intro d e x hx; simp [exportFrom] at hx
  | succ k ih =>
    intro d e x hx
    simp only [exportFrom, List.mem_cons, List.mem_flatMap, List.mem_filter] at hx
    rcases hx with rfl | ⟨c, ⟨hc, hcu⟩, hxc⟩
    · exact Or.inl rfl
    · right
      have hcu' : c.up = e.down := by simpa using hcu
      simp only [exportFrom, ids_cons]
      rcases ih (d + 1) c x hxc with rfl | h
      · exact List.mem_cons.mpr (Or.inl hcu')
      · exact List.mem_cons_of_mem _ (ids_flatMap_mem _ _ c (List.mem_filter.mpr ⟨hc, hcu⟩) _ h)

/-- an entry of the subtrees of a list of children of `p` names `p` or a node of those subtrees as parent -/
theorem kids_parent_inside (isDel : Nat → Bool) (st : St) (k d : Nat) (p : Bytes) (l : List Edge) (hl : ∀ c ∈ l, c.up = p) :
    ∀ x ∈ l.flatMap (fun c => exportFrom isDel st k d c), x.2.parent = p ∨ x.2.parent ∈ ids (l.flatMap (fun c => exportFrom isDel st k d c)) := by
  intro x hx
  simp only [List.mem_flatMap] at hx
  obtain ⟨c, hc, hxc⟩ := hx
  rcases export_parent_inside isDel st k d c x hxc with rfl | h
  · exact Or.inl (hl c hc)
  · exact Or.inr (ids_flatMap_mem _ _ c hc _ h)

/-- **the exported file is the traversal of its own tree**: inside any file in which no other entry names a node of
    the exported part as parent, traversing by parent pointers from the part's top node gives the part back -/
theorem rebuild_export (isDel : Nat → Bool) (st : St) : ∀ (k d : Nat) (e : Edge) (pre post : Flat),
    (ids (exportFrom isDel st k d e)).Nodup → e.up ∉ ids (exportFrom isDel st k d e) →
    (∀ x ∈ pre ++ post, x.2.parent ∉ ids (exportFrom isDel st k d e)) →
    rebuild (pre ++ exportFrom isDel st k d e ++ post) k d (recOf st e) = exportFrom isDel st k d e := by
  intro k
  induction k with
  | zero => intro d e pre post _ _ _; rfl
  | succ k ih =>
    intro d e pre post hnd hup hout
    -- names
    generalize hF : pre ++ exportFrom isDel st (k + 1) d e ++ post = F
    have hS : exportFrom isDel st (k + 1) d e = (d, recOf st e) ::
        ((Auth.live isDel st).filter (fun c => c.up == e.down)).flatMap (fun c => exportFrom isDel st k (d + 1) c) := rfl
    generalize hkids : (Auth.live isDel st).filter (fun c => c.up == e.down) = kids at hS
    have hkup : ∀ c ∈ kids, c.up = e.down := by
      intro c hc
      rw [← hkids] at hc
      simpa using (List.mem_filter.mp hc).2
    generalize hT : kids.flatMap (fun c => exportFrom isDel st k (d + 1) c) = T at hS
    rw [hS] at hnd hup hout hF ⊢
    rw [ids_cons, List.nodup_cons] at hnd
    obtain ⟨hhead, hndT⟩ := hnd
    have hrid : (recOf st e).id = e.down := rfl
    have hrpar : (recOf st e).parent = e.up := rfl
    rw [hrid] at hhead
    rw [ids_cons, hrid, List.mem_cons, not_or] at hup
    show (d, recOf st e) :: (F.filter (fun x => x.2.parent == (recOf st e).id)).flatMap (fun x => rebuild F k (d + 1) x.2) = (d, recOf st e) :: T
    congr 1
    rw [hrid]
    -- entries naming e.down as parent: none outside T
    have hpp : ∀ x ∈ pre ++ post, (x.2.parent == e.down) = false := by
      intro x hx
      have := hout x hx
      rw [ids_cons, hrid, List.mem_cons, not_or] at this
      simpa using this.1
    have hfil : F.filter (fun x => x.2.parent == e.down) = T.filter (fun x => x.2.parent == e.down) := by
      rw [← hF]
      simp only [List.filter_append, List.filter_cons, hrpar]
      have h1 : pre.filter (fun x => x.2.parent == e.down) = [] :=
        List.filter_eq_nil_iff.mpr (fun x hx => by simp [hpp x (List.mem_append_left _ hx)])
      have h2 : post.filter (fun x => x.2.parent == e.down) = [] :=
        List.filter_eq_nil_iff.mpr (fun x hx => by simp [hpp x (List.mem_append_right _ hx)])
      have h3 : (e.up == e.down) = false := by simpa using hup.1
      rw [h1, h2, h3]
      simp
    rw [hfil, ← hT, List.filter_flatMap, List.flatMap_assoc]
    -- child by child
    have hmain : ∀ c ∈ kids, ((exportFrom isDel st k (d + 1) c).filter (fun x => x.2.parent == e.down)).flatMap (fun x => rebuild F k (d + 1) x.2)
        = exportFrom isDel st k (d + 1) c := by
      intro c hc
      cases k with
      | zero => rfl
      | succ k =>
        obtain ⟨l1, l2, hsplit⟩ := List.append_of_mem hc
        have hl1 : ∀ c' ∈ l1, c'.up = e.down := fun c' h => hkup c' (by rw [hsplit]; exact List.mem_append_left _ h)
        have hl2 : ∀ c' ∈ l2, c'.up = e.down := fun c' h => hkup c' (by rw [hsplit]; exact List.mem_append_right _ (List.mem_cons_of_mem _ h))
        generalize hA : l1.flatMap (fun c => exportFrom isDel st (k + 1) (d + 1) c) = A
        generalize hB : l2.flatMap (fun c => exportFrom isDel st (k + 1) (d + 1) c) = B
        generalize hG : exportFrom isDel st (k + 1) (d + 1) c = G
        have hTs : T = A ++ G ++ B := by
          rw [← hT, hsplit, List.flatMap_append, List.flatMap_cons, hA, hB, hG, List.append_assoc]
        rw [hTs, ids_append, ids_append] at hndT hhead
        rw [List.nodup_append] at hndT
        obtain ⟨hndAG, hndB, hdisB⟩ := hndT
        rw [List.nodup_append] at hndAG
        obtain ⟨hndA, hndG, hdisA⟩ := hndAG
        -- the filter keeps the top entry of the child's subtree only
        have hGc : G = (d + 1, recOf st c) :: G.tail := by rw [← hG]; rfl
        have hcup : c.up = e.down := hkup c hc
        have hfc : G.filter (fun x => x.2.parent == e.down) = [(d + 1, recOf st c)] := by
          rw [hGc, List.filter_cons]
          have : ((recOf st c).parent == e.down) = true := by simpa [recOf] using hcup
          simp only [this, if_true]
          congr 1
          rw [List.filter_eq_nil_iff]
          intro x hx
          have hxG : x ∈ exportFrom isDel st (k + 1) (d + 1) c := by rw [hG, hGc]; exact List.mem_cons_of_mem _ hx
          rcases export_parent_inside isDel st (k + 1) (d + 1) c x hxG with rfl | hin
          · -- the top entry again, further down: its id would occur twice
            exfalso
            rw [hGc, ids_cons, List.nodup_cons] at hndG
            exact hndG.1 (mem_ids hx)
          · rw [hG] at hin
            intro hpe
            have : x.2.parent = e.down := by simpa using hpe
            rw [this] at hin
            exact hhead (List.mem_append_left _ (List.mem_append_right _ hin))
        rw [hfc, List.flatMap_cons, List.flatMap_nil, List.append_nil]
        -- induction hypothesis on the child's subtree, the rest of the file around it
        have hFs : F = (pre ++ (d, recOf st e) :: A) ++ exportFrom isDel st (k + 1) (d + 1) c ++ (B ++ post) := by
          rw [← hF, hTs, hG]; simp
        show rebuild F (k + 1) (d + 1) (recOf st c) = G
        rw [hFs, ← hG]
        apply ih (d + 1) c
        · rw [hG]; exact hndG
        · rw [hG, hcup]; exact fun h => hhead (List.mem_append_left _ (List.mem_append_right _ h))
        · intro x hx hin
          rw [hG] at hin
          simp only [List.mem_append, List.mem_cons] at hx
          have houtx : ∀ x ∈ pre ++ post, x.2.parent ∉ ids G := by
            intro x hx hin
            apply hout x hx
            rw [ids_cons, hTs, ids_append, ids_append]
            exact List.mem_cons_of_mem _ (List.mem_append_left _ (List.mem_append_right _ hin))
          rcases hx with (hx | rfl | hx) | (hx | hx)
          · exact houtx x (List.mem_append_left _ hx) hin
          · exact hup.2 (by rw [hTs, ids_append, ids_append]; exact List.mem_append_left _ (List.mem_append_right _ hin))
          · rw [← hA] at hx
            rcases kids_parent_inside isDel st (k + 1) (d + 1) e.down l1 hl1 x hx with h | h
            · rw [h] at hin; exact hhead (List.mem_append_left _ (List.mem_append_right _ hin))
            · rw [hA] at h; exact hdisA _ h _ hin rfl
          · rw [← hB] at hx
            rcases kids_parent_inside isDel st (k + 1) (d + 1) e.down l2 hl2 x hx with h | h
            · rw [h] at hin; exact hhead (List.mem_append_left _ (List.mem_append_right _ hin))
            · rw [hB] at h; exact hdisB _ (List.mem_append_right _ hin) _ h rfl
          · exact houtx x (List.mem_append_right _ hx) hin
    exact flatMap_congr' kids _ _ hmain

/-- the traversal does not notice a change of the top node's parent and points, as long as neither the old nor the new
    parent is a node of the file (ImportNodes re-parents the top node and marks its description) -/
theorem rebuild_retop_sub (d0 : Nat) (n n' : NodeRec) (rest : Flat)
    (hp : n.parent ∉ ids ((d0, n) :: rest)) (hp' : n'.parent ∉ ids ((d0, n) :: rest)) :
    ∀ (k d : Nat) (m : NodeRec), m.id ∈ ids ((d0, n) :: rest) →
      rebuild ((d0, n') :: rest) k d m = rebuild ((d0, n) :: rest) k d m := by
  intro k
  induction k with
  | zero => intros; rfl
  | succ k ih =>
    intro d m hm
    simp only [rebuild, List.filter_cons]
    have h1 : (n'.parent == m.id) = false := by
      simp only [beq_eq_false_iff_ne, ne_eq]; intro h; exact hp' (h ▸ hm)
    have h2 : (n.parent == m.id) = false := by
      simp only [beq_eq_false_iff_ne, ne_eq]; intro h; exact hp (h ▸ hm)
    rw [h1, h2]
    simp only [Bool.false_eq_true, if_false]
    congr 1
    apply flatMap_congr'
    intro x hx
    exact ih (d + 1) x.2 (List.mem_cons_of_mem _ (mem_ids (List.mem_filter.mp hx).1))

theorem rebuild_retop (d0 : Nat) (n n' : NodeRec) (rest : Flat) (hid : n'.id = n.id)
    (hp : n.parent ∉ ids ((d0, n) :: rest)) (hp' : n'.parent ∉ ids ((d0, n) :: rest)) (k : Nat)
    (h : rebuild ((d0, n) :: rest) k d0 n = (d0, n) :: rest) :
    rebuild ((d0, n') :: rest) k d0 n' = (d0, n') :: rest := by
  cases k with
  | zero => simp [rebuild] at h
  | succ k =>
    have hn : n.id ∈ ids ((d0, n) :: rest) := List.mem_cons_self ..
    simp only [rebuild, List.filter_cons] at h ⊢
    have h1 : (n'.parent == n'.id) = false := by
      simp only [beq_eq_false_iff_ne, ne_eq]; intro h; exact hp' (by rw [h, hid]; exact hn)
    have h2 : (n.parent == n.id) = false := by
      simp only [beq_eq_false_iff_ne, ne_eq]; intro h; exact hp (h ▸ hn)
    rw [h2] at h
    rw [h1, hid]
    simp only [Bool.false_eq_true, if_false, List.cons.injEq, true_and] at h ⊢
    have : (rest.filter (fun x => x.2.parent == n.id)).flatMap (fun x => rebuild ((d0, n') :: rest) k (d0 + 1) x.2)
        = (rest.filter (fun x => x.2.parent == n.id)).flatMap (fun x => rebuild ((d0, n) :: rest) k (d0 + 1) x.2) := by
      apply flatMap_congr'
      intro x hx
      exact rebuild_retop_sub d0 n n' rest hp hp' k (d0 + 1) x.2 (List.mem_cons_of_mem _ (mem_ids (List.mem_filter.mp hx).1))
    rw [this, h]

end Siot.Export
