import Siot.Lemmas.StoreReach
namespace Siot.Store
open Siot

theorem eptsOf_write (st : St) (k0 : EK) (rows : List Point) (k : EK) :
    ((st.edgePts.filter (fun r => r.1 != k0) ++ rows.map (fun p => (k0, p))).filter (fun r => r.1 == k)).map (·.2) =
      if k = k0 then rows else eptsOf st k.1 k.2 := by
  rw [List.filter_append, List.map_append]
  by_cases hn : k = k0
  · subst hn
    simp only [if_true]
    have h1 : (st.edgePts.filter (fun r => r.1 != k)).filter (fun r => r.1 == k) = [] := by
      rw [List.filter_filter]
      apply List.filter_eq_nil_iff.mpr
      intro r _
      by_cases h : r.1 = k <;> simp [h]
    have h2 : (rows.map (fun p => (k, p))).filter (fun r => r.1 == k) = rows.map (fun p => (k, p)) := by
      apply List.filter_eq_self.mpr
      intro r hr
      simp only [List.mem_map] at hr
      obtain ⟨p, _, rfl⟩ := hr
      simp
    rw [h1, h2]
    simp only [List.map_nil, List.nil_append, List.map_map]
    conv => rhs; rw [← List.map_id rows]
    apply List.map_congr_left
    intro p _; rfl
  · simp only [hn, if_false]
    have h1 : (st.edgePts.filter (fun r => r.1 != k0)).filter (fun r => r.1 == k) = st.edgePts.filter (fun r => r.1 == k) := by
      rw [List.filter_filter]
      apply List.filter_congr
      intro r _
      by_cases h : r.1 = k
      · have : r.1 ≠ k0 := fun h' => hn (h.symm.trans h')
        simp [h, this]
        exact fun h' => hn h'
      · simp [h]
    have h2 : (rows.map (fun p => (k0, p))).filter (fun r => r.1 == k) = [] := by
      apply List.filter_eq_nil_iff.mpr
      intro r hr
      simp only [List.mem_map] at hr
      obtain ⟨p, _, rfl⟩ := hr
      simp only [beq_iff_eq]
      exact fun h => hn h.symm
    rw [h1, h2]
    simp [eptsOf]

theorem toggleList_eq (es : List Edge) (u d : Bytes) (δ : Nat) :
    es.map (fun x => if x.up == u && x.down == d then { x with hash := x.hash ^^^ δ } else x) = toggleList es (u, d) δ := rfl

theorem toggleList_length (es : List Edge) (k : EK) (δ : Nat) : (toggleList es k δ).length = es.length := by
  simp [toggleList]

theorem find_edge_key (es : List Edge) (u d : Bytes) (e : Edge)
    (h : es.find? (fun e => e.up == u && e.down == d) = some e) : (u, d) ∈ keysOf es := by
  have hm := List.mem_of_find?_eq_some h
  have hp := List.find?_some h
  simp only [Bool.and_eq_true, beq_iff_eq] at hp
  have : keyOf e = (u, d) := Prod.ext hp.1 hp.2
  rw [← this]
  exact List.mem_map_of_mem (f := keyOf) hm

/-- **an edge-point write on an existing edge preserves the invariant** -/
theorem edgePoints_existing_inv (st st' : St) (u d : Bytes) (batch : List Point) (hinv : Inv st)
    (hk0 : (u, d) ∈ keysOf st.edges)
    (h : st' = { st with
        edgePts := st.edgePts.filter (fun r => r.1 != (u, d)) ++ (mergeBatch (eptsOf st u d) batch).1.map (fun p => ((u, d), p)),
        edges := bump (2 ^ (toggleList st.edges (u, d) (mergeBatch (eptsOf st u d) batch).2).length)
          (toggleList st.edges (u, d) (mergeBatch (eptsOf st u d) batch).2) u (mergeBatch (eptsOf st u d) batch).2 }) :
    Inv st' := by
  obtain ⟨hu, hδ⟩ := mergeBatch_spec batch (eptsOf st u d) (hinv.epu (u, d))
  generalize hmb : mergeBatch (eptsOf st u d) batch = mb at h hu hδ
  obtain ⟨rows, δ⟩ := mb
  simp only [] at h hu hδ
  rw [toggleList_length] at h
  obtain ⟨r, hr1, hr2⟩ := hinv.ranked
  have hk1 : keysOf (toggleList st.edges (u, d) δ) = keysOf st.edges := keysOf_toggleList _ _ _
  have hbr := bump_bridge (2 ^ st.edges.length) (toggleList st.edges (u, d) δ) (gOf st) (by simp only [gOf]; exact hk1.symm) u δ
  have hkeys : keysOf st'.edges = keysOf st.edges := by rw [h]; simp only []; rw [hbr.1, hk1]
  have hlen : st'.edges.length = st.edges.length := length_of_keys_eq _ _ hkeys
  have hpts : ∀ n, ptsOf st' n = ptsOf st n := by intro n; rw [h]; rfl
  have hepts : ∀ k : EK, eptsOf st' k.1 k.2 = if k = (u, d) then rows else eptsOf st k.1 k.2 := by
    intro k; rw [h]; exact eptsOf_write st (u, d) rows k
  refine ⟨by rw [hkeys]; exact hinv.nodup, ⟨r, by rw [hkeys]; exact hr1, by rw [hlen]; exact hr2⟩, ?_, ?_, ?_, ?_⟩
  · intro row hrow
    rw [hkeys]
    rw [h] at hrow
    simp only [List.mem_append, List.mem_filter, List.mem_map] at hrow
    rcases hrow with ⟨hr, _⟩ | ⟨p, _, rfl⟩
    · exact hinv.epinv row hr
    · exact hk0
  · intro n; rw [hpts n]; exact hinv.npu n
  · intro k
    rw [hepts k]
    split
    · exact hu
    · exact hinv.epu k
  · intro k hk
    rw [hkeys] at hk
    have hg' : defect (gOf st') (hOf st'.edges) k = defect (gOf st) (hOf st'.edges) k ^^^ ite0 (k = (u, d)) δ := by
      apply defect_own (gOf st) (gOf st') (by simp only [gOf]; exact hkeys)
        (by funext x; simp only [gOf]; rw [hpts x]) (u, d) δ
      intro x
      simp only [gOf]
      rw [hepts x]
      split
      · rename_i hx; subst hx; exact hδ
      · rfl
    have hh : hOf st'.edges = bumpF (gOf st) (2 ^ st.edges.length) u δ (toggle (hOf st.edges) (u, d) δ) := by
      rw [h]; simp only []; rw [hbr.2, hOf_toggleList st.edges (u, d) δ hk0]
    rw [hg', hh]
    rw [bumpF_defect (gOf st) r ⟨hinv.nodup, hr1⟩ δ _ u (hr2 u) _ k hk]
    rw [defect_toggle (gOf st) hinv.nodup (hOf st.edges) (u, d) k hk0 δ]
    rw [hinv.hash k hk, Nat.zero_xor]
    have hsym : ite0 ((u, d).1 = k.2) δ = ite0 (k.2 = u) δ := by
      unfold ite0
      by_cases hc : u = k.2
      · rw [if_pos hc, if_pos hc.symm]
      · rw [if_neg hc, if_neg (fun h' => hc h'.symm)]
    rw [hsym]
    generalize ite0 (k = (u, d)) δ = a
    generalize ite0 (k.2 = u) δ = b
    have : a ^^^ b ^^^ b ^^^ a = a ^^^ (a ^^^ (b ^^^ (b ^^^ 0))) := by simp only [Nat.xor_zero]; ac_rfl
    rw [this, xcancel, xcancel]

end Siot.Store
