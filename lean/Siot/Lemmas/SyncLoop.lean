import Siot.Model.SyncLoop
namespace Siot.SyncLoop

/-- what holds whenever the loop waits in its `select` -/
structure Inv (s : St) : Prop where
  ticker : s.ticker = if s.connected then some s.period else none
  period : 1 ≤ s.period
  redial : s.disabled = true ∨ s.remote = true ∨ s.connectTimer.isSome = true

theorem checkPeriod_pos (p : Nat) : 1 ≤ checkPeriod p := by unfold checkPeriod; split <;> omega

theorem inv_init (d : Bool) (p : Nat) : Inv (init d p) :=
  ⟨rfl, checkPeriod_pos p, Or.inr (Or.inr rfl)⟩

theorem inv_step (s : St) (e : Ev) (h : Inv s) : Inv (step s e).1 := by
  obtain ⟨ht, hp, hr⟩ := h
  cases e with
  | connectTimer ok =>
    unfold step
    by_cases hd : s.disabled = true
    · simp only [hd, if_true]; exact ⟨ht, hp, Or.inl rfl⟩
    · simp only [hd, Bool.false_eq_true, if_false]
      cases ok
      · exact ⟨ht, hp, Or.inr (Or.inr rfl)⟩
      · exact ⟨ht, hp, Or.inr (Or.inl rfl)⟩
  | tick => exact ⟨ht, hp, hr⟩
  | conn b ok =>
    cases b
    · exact ⟨rfl, hp, hr⟩
    · unfold step
      by_cases hi : s.initialSub = true
      · simp only [hi, if_true]; exact ⟨rfl, hp, hr⟩
      · simp only [hi, Bool.false_eq_true, if_false]; exact ⟨rfl, hp, hr⟩
  | localNode => exact ⟨ht, hp, hr⟩
  | localEdge => exact ⟨ht, hp, hr⟩
  | cfgRestart d => exact ⟨ht, hp, Or.inr (Or.inr rfl)⟩
  | cfgPeriod p =>
    refine ⟨?_, checkPeriod_pos p, hr⟩
    show (if s.connected then some (checkPeriod p) else s.ticker) = if s.connected then some (checkPeriod p) else none
    by_cases hc : s.connected = true
    · simp [hc]
    · simp only [hc, Bool.false_eq_true, if_false] at ht ⊢; exact ht
  | other => exact ⟨ht, hp, hr⟩

theorem inv_run : ∀ (evs : List Ev) (s : St), Inv s → Inv (run s evs).1 := by
  intro evs
  induction evs with
  | nil => intro s h; exact h
  | cons e es ih => intro s h; exact ih _ (inv_step s e h)

theorem step_connected (s : St) (e : Ev) : (step s e).1.connected = match e with | .conn b _ => b | _ => s.connected := by
  cases e with
  | connectTimer ok =>
    show (if s.disabled = true then _ else if ok = true then _ else _ : St × List Act).1.connected = s.connected
    by_cases hd : s.disabled = true
    · simp only [hd, if_true]
    · simp only [hd, Bool.false_eq_true, if_false]
      cases ok <;> rfl
  | conn b ok =>
    cases b
    · rfl
    · show (if s.initialSub = true then _ else _ : St × List Act).1.connected = true
      by_cases hi : s.initialSub = true
      · simp only [hi, if_true]
      · simp only [hi, Bool.false_eq_true, if_false]
  | _ => rfl

theorem connected_run : ∀ (evs : List Ev) (s : St), (run s evs).1.connected = lastConn evs s.connected := by
  intro evs
  induction evs with
  | nil => intro s; rfl
  | cons e es ih =>
    intro s
    show (run (step s e).1 es).1.connected = _
    rw [ih, step_connected]
    cases e <;> rfl

end Siot.SyncLoop
