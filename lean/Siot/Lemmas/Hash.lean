import Siot.Model.Store
/-
The algebra of the incremental Merkle hash (property C03), over an abstract graph:
edge keys (up, down), a per-node checksum, a per-edge own checksum and a hash assignment.
Key lemma `bumpF_defect`: pushing δ upward from node n toggles exactly the defects of the edges
directly above n — in any DAG (mirrors and diamonds included).
-/
namespace Siot.Store
open Siot

abbrev EK := Bytes × Bytes      -- (up, down)

structure G where
  keys : List EK
  nodeC : Bytes → Nat
  own : EK → Nat

def xs (l : List Nat) : Nat := l.foldr (· ^^^ ·) 0

theorem xs_cons (a : Nat) (l : List Nat) : xs (a :: l) = a ^^^ xs l := rfl

def kidsK (g : G) (n : Bytes) : List EK := g.keys.filter (fun c => c.1 == n)
def parentsK (g : G) (n : Bytes) : List EK := g.keys.filter (fun c => c.2 == n)

def calcF (g : G) (h : EK → Nat) (e : EK) : Nat :=
  g.nodeC e.2 ^^^ g.own e ^^^ xs ((kidsK g e.2).map h)

def defect (g : G) (h : EK → Nat) (e : EK) : Nat := h e ^^^ calcF g h e

def toggle (h : EK → Nat) (k : EK) (δ : Nat) : EK → Nat := fun j => if j = k then h j ^^^ δ else h j

def bumpF (g : G) : Nat → Bytes → Nat → (EK → Nat) → (EK → Nat)
  | 0, _, _, h => h
  | f + 1, n, δ, h => (parentsK g n).foldl (fun h e => bumpF g f e.1 δ (toggle h e δ)) h

def ite0 (c : Prop) [Decidable c] (δ : Nat) : Nat := if c then δ else 0

/-! ### xor on naturals: associativity / commutativity helpers -/
theorem xa (a b c : Nat) : (a ^^^ b) ^^^ c = a ^^^ (b ^^^ c) := Nat.xor_assoc a b c
theorem xc (a b : Nat) : a ^^^ b = b ^^^ a := Nat.xor_comm a b
theorem xlc' (a b c : Nat) : a ^^^ (b ^^^ c) = b ^^^ (a ^^^ c) := by
  rw [← Nat.xor_assoc, Nat.xor_comm a b, Nat.xor_assoc]
theorem xss (a : Nat) : a ^^^ a = 0 := Nat.xor_self a
theorem xcancel (a b : Nat) : a ^^^ (a ^^^ b) = b := by rw [← Nat.xor_assoc, Nat.xor_self, Nat.zero_xor]

theorem xs_toggle_notin (h : EK → Nat) (i : EK) (δ : Nat) (l : List EK) (hn : ∀ c ∈ l, c ≠ i) :
    xs (l.map (toggle h i δ)) = xs (l.map h) := by
  induction l with
  | nil => rfl
  | cons a l ih =>
    have ha : a ≠ i := hn a (by simp)
    simp only [List.map_cons, xs_cons, ih (fun c hc => hn c (by simp [hc])), toggle, ha, if_false]

theorem xs_toggle_in (h : EK → Nat) (i : EK) (δ : Nat) (l : List EK) (hnd : l.Nodup) (hin : i ∈ l) :
    xs (l.map (toggle h i δ)) = xs (l.map h) ^^^ δ := by
  induction l with
  | nil => cases hin
  | cons a l ih =>
    simp only [List.nodup_cons] at hnd
    simp only [List.map_cons, xs_cons]
    by_cases ha : a = i
    · subst ha
      rw [xs_toggle_notin h a δ l (fun c hc hca => hnd.1 (hca ▸ hc))]
      simp only [toggle, if_true]
      rw [xa, xa, xc δ]
    · have hin' : i ∈ l := by
        simp only [List.mem_cons] at hin
        rcases hin with h1 | h1
        · exact absurd h1.symm ha
        · exact h1
      rw [ih hnd.2 hin']
      simp only [toggle, ha, if_false]
      rw [xa]

structure WF (g : G) (rank : Bytes → Nat) : Prop where
  nodup : g.keys.Nodup
  acyc : ∀ e ∈ g.keys, rank e.1 < rank e.2

theorem ite0_self (c : Prop) [Decidable c] (δ x : Nat) : x ^^^ ite0 c δ ^^^ ite0 c δ = x := by
  unfold ite0; split
  · rw [xa, xss, Nat.xor_zero]
  · simp

/-- toggling the hash of edge `e` changes the defect of `e` itself and of the edges above `e.up` -/
theorem defect_toggle (g : G) (hnd : g.keys.Nodup) (h : EK → Nat) (e f : EK) (he : e ∈ g.keys) (δ : Nat) :
    defect g (toggle h e δ) f = defect g h f ^^^ ite0 (f = e) δ ^^^ ite0 (e.1 = f.2) δ := by
  unfold defect calcF
  have hk : (kidsK g f.2).Nodup := hnd.filter _
  generalize g.nodeC f.2 = b
  generalize g.own f = c
  by_cases hup : e.1 = f.2
  · have hin : e ∈ kidsK g f.2 := by simp [kidsK, he, hup]
    rw [xs_toggle_in h e δ (kidsK g f.2) hk hin]
    generalize xs (List.map h (kidsK g f.2)) = d
    by_cases hid : f = e
    · simp only [toggle, hid, if_true, ite0, hup]
      generalize h e = a
      have e1 : a ^^^ δ ^^^ (b ^^^ c ^^^ (d ^^^ δ)) = δ ^^^ (δ ^^^ (a ^^^ (b ^^^ c ^^^ d))) := by ac_rfl
      have e2 : a ^^^ (b ^^^ c ^^^ d) ^^^ δ ^^^ δ = δ ^^^ (δ ^^^ (a ^^^ (b ^^^ c ^^^ d))) := by ac_rfl
      rw [e1, e2]
    · simp only [toggle, hid, if_false, ite0, hup, if_true, Nat.xor_zero]
      generalize h f = a
      ac_rfl
  · have hn : ∀ c ∈ kidsK g f.2, c ≠ e := by
      intro c hc hce
      simp only [kidsK, List.mem_filter, beq_iff_eq] at hc
      exact hup (hce ▸ hc.2)
    rw [xs_toggle_notin h e δ (kidsK g f.2) hn]
    generalize xs (List.map h (kidsK g f.2)) = d
    by_cases hid : f = e
    · subst hid
      simp only [toggle, if_true, ite0, hup, if_false, Nat.xor_zero]
      generalize h f = a
      ac_rfl
    · simp only [toggle, hid, if_false, ite0, hup, Nat.xor_zero]

/-- **Key lemma (C03).** -/
theorem bumpF_defect (g : G) (rank : Bytes → Nat) (wf : WF g rank) (δ : Nat) :
    ∀ (fuel : Nat) (n : Bytes), rank n < fuel → ∀ (h : EK → Nat) (f : EK), f ∈ g.keys →
      defect g (bumpF g fuel n δ h) f = defect g h f ^^^ ite0 (f.2 = n) δ := by
  intro fuel
  induction fuel with
  | zero => intro n hr; omega
  | succ fuel ih =>
    intro n hr h f hf
    simp only [bumpF]
    have key : ∀ (P : List EK), (∀ e ∈ P, e ∈ g.keys ∧ e.2 = n) → P.Nodup →
        ∀ h : EK → Nat,
        defect g (P.foldl (fun h e => bumpF g fuel e.1 δ (toggle h e δ)) h) f =
          defect g h f ^^^ ite0 (f ∈ P) δ := by
      intro P
      induction P with
      | nil => intro _ _ h; simp [ite0]
      | cons e P ihP =>
        intro hP hnd h
        simp only [List.nodup_cons] at hnd
        have heP := hP e (by simp)
        have hrank : rank e.1 < fuel := by
          have := wf.acyc e heP.1
          rw [heP.2] at this
          omega
        simp only [List.foldl_cons]
        rw [ihP (fun x hx => hP x (by simp [hx])) hnd.2]
        rw [ih e.1 hrank _ f hf]
        rw [defect_toggle g wf.nodup h e f heP.1 δ]
        have hsym : ite0 (f.2 = e.1) δ = ite0 (e.1 = f.2) δ := by
          unfold ite0
          by_cases hc : f.2 = e.1
          · rw [if_pos hc, if_pos hc.symm]
          · rw [if_neg hc, if_neg (fun h' => hc h'.symm)]
        rw [hsym, ite0_self]
        by_cases hid : f = e
        · have hnot : f ∉ P := by rw [hid]; exact hnd.1
          have hin : f ∈ e :: P := by simp [hid]
          unfold ite0
          rw [if_neg hnot, if_pos hid, if_pos hin]; simp
        · unfold ite0
          by_cases hm : f ∈ P
          · have hin : f ∈ e :: P := by simp [hm]
            rw [if_pos hm, if_neg hid, if_pos hin]; simp
          · have hin : f ∉ e :: P := by
              simp only [List.mem_cons]; intro h'; cases h' with
              | inl h1 => exact hid h1
              | inr h1 => exact hm h1
            rw [if_neg hm, if_neg hid, if_neg hin]; simp
    have hPar : ∀ e ∈ parentsK g n, e ∈ g.keys ∧ e.2 = n := by
      intro e he
      simp only [parentsK, List.mem_filter, beq_iff_eq] at he
      exact he
    rw [key (parentsK g n) hPar (wf.nodup.filter _) h]
    have hiff : (f ∈ parentsK g n) ↔ f.2 = n := by
      simp [parentsK, hf]
    unfold ite0
    by_cases hd : f.2 = n
    · rw [if_pos hd, if_pos (hiff.mpr hd)]
    · rw [if_neg hd, if_neg (fun h' => hd (hiff.mp h'))]

end Siot.Store
