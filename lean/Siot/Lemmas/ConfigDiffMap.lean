import Siot.Lemmas.ConfigDiffIdx
/-
C10, Diff/Merge for string-keyed maps: changed or new entries are set, entries missing from the new map are
deleted by tombstones; the merged map has the keys of the new map with (Go-)equal values.
-/
namespace Siot.Config
open Siot

abbrev KV := Bytes × SVal

/-! ### look-ups in association lists -/
theorem lk_nil (key : Bytes) : lk [] key = none := rfl

theorem lk_cons (k0 : Bytes) (v0 : SVal) (l : List KV) (key : Bytes) :
    lk ((k0, v0) :: l) key = if k0 = key then some v0 else lk l key := by
  unfold lk
  simp only [List.find?_cons]
  by_cases h : k0 = key
  · simp [h]
  · have : (k0 == key) = false := by simpa using h
    simp [this, h]

theorem lk_none_of_not_mem : ∀ (l : List KV) (key : Bytes), key ∉ l.map (·.1) → lk l key = none := by
  intro l
  induction l with
  | nil => intro _ _; rfl
  | cons kv l ih =>
    intro key h
    obtain ⟨k0, v0⟩ := kv
    simp only [List.map_cons, List.mem_cons, not_or] at h
    rw [lk_cons, if_neg (fun hc => h.1 hc.symm)]
    exact ih key h.2

theorem lk_some_mem : ∀ (l : List KV) (key : Bytes) (v : SVal), lk l key = some v → (key, v) ∈ l := by
  intro l
  induction l with
  | nil => intro _ _ h; cases h
  | cons kv l ih =>
    intro key v h
    obtain ⟨k0, v0⟩ := kv
    rw [lk_cons] at h
    by_cases hk : k0 = key
    · rw [if_pos hk] at h
      injection h with h
      subst hk; subst h
      simp
    · rw [if_neg hk] at h
      exact List.mem_cons_of_mem _ (ih key v h)

theorem lk_of_mem_nodup : ∀ (l : List KV) (key : Bytes) (v : SVal), (l.map (·.1)).Nodup → (key, v) ∈ l → lk l key = some v := by
  intro l
  induction l with
  | nil => intro _ _ _ h; cases h
  | cons kv l ih =>
    intro key v hnd h
    obtain ⟨k0, v0⟩ := kv
    simp only [List.map_cons, List.nodup_cons] at hnd
    simp only [List.mem_cons, Prod.mk.injEq] at h
    rw [lk_cons]
    rcases h with ⟨rfl, rfl⟩ | h
    · simp
    · have : k0 ≠ key := by
        intro hc
        apply hnd.1
        rw [hc]
        exact List.mem_map_of_mem (f := (·.1)) h
      rw [if_neg this]
      exact ih key v hnd.2 h

theorem lk_isSome_iff (l : List KV) (key : Bytes) : (lk l key).isSome = true ↔ key ∈ l.map (·.1) := by
  constructor
  · intro h
    cases hl : lk l key with
    | none => rw [hl] at h; cases h
    | some v => exact List.mem_map_of_mem (f := (·.1)) (lk_some_mem l key v hl)
  · intro h
    cases hl : lk l key with
    | none =>
      exfalso
      induction l with
      | nil => cases h
      | cons kv l ih =>
        obtain ⟨k0, v0⟩ := kv
        rw [lk_cons] at hl
        by_cases hk : k0 = key
        · rw [if_pos hk] at hl; cases hl
        · rw [if_neg hk] at hl
          simp only [List.map_cons, List.mem_cons] at h
          rcases h with h | h
          · exact hk h.symm
          · exact ih h hl
    | some v => rfl

/-! ### `setKey` and deletion on look-ups -/
theorem lk_map_repl (k : Bytes) (v : SVal) : ∀ (l : List KV) (key : Bytes), l.any (fun kv => kv.1 == k) = true →
    lk (l.map (fun kv => if kv.1 == k then (k, v) else kv)) key = if key = k then some v else lk l key := by
  intro l
  induction l with
  | nil => intro _ h; simp at h
  | cons kv l ih =>
    intro key h
    obtain ⟨k0, v0⟩ := kv
    simp only [List.map_cons]
    by_cases h0 : k0 = k
    · subst h0
      simp only [beq_self_eq_true, if_true]
      rw [lk_cons, lk_cons]
      by_cases hk : k0 = key
      · simp [hk]
      · rw [if_neg hk, if_neg hk, if_neg (fun hc => hk hc.symm)]
        -- below the head: either more entries with this key (none, when keys are unique) or not
        by_cases hany : l.any (fun kv => kv.1 == k0) = true
        · rw [ih key hany, if_neg (fun hc => hk hc.symm)]
        · have hnone : ∀ kv ∈ l, (kv.1 == k0) = false := by
            have h' : l.any (fun kv => kv.1 == k0) = false := by
              cases hh : l.any (fun kv => kv.1 == k0) with
              | true => exact absurd hh hany
              | false => rfl
            rw [List.any_eq_false] at h'
            intro kv hkv
            have := h' kv hkv
            cases hb : (kv.1 == k0) with
            | true => exact absurd hb this
            | false => rfl
          have : l.map (fun kv => if kv.1 == k0 then (k0, v) else kv) = l := by
            rw [List.map_congr_left (g := id) (fun kv hkv => by simp [hnone kv hkv])]; simp
          rw [this]
    · have hb : (k0 == k) = false := by simpa using h0
      simp only [hb, Bool.false_eq_true, if_false]
      simp only [List.any_cons, hb, Bool.false_or] at h
      rw [lk_cons, lk_cons, ih key h]
      by_cases hk : k0 = key
      · rw [if_pos hk, if_pos hk, if_neg (by rw [← hk]; exact h0)]
      · rw [if_neg hk, if_neg hk]

theorem lk_append_fresh (l : List KV) (k : Bytes) (v : SVal) (key : Bytes) (h : l.any (fun kv => kv.1 == k) = false) :
    lk (l ++ [(k, v)]) key = if key = k then some v else lk l key := by
  induction l with
  | nil =>
    rw [List.nil_append, lk_cons, lk_nil]
    by_cases hk : k = key
    · simp [hk]
    · rw [if_neg hk, if_neg (fun hc => hk hc.symm)]
  | cons kv l ih =>
    obtain ⟨k0, v0⟩ := kv
    simp only [List.any_cons, Bool.or_eq_false_iff] at h
    have h0 : k0 ≠ k := by simpa using h.1
    rw [List.cons_append, lk_cons, lk_cons, ih h.2]
    by_cases hk : k0 = key
    · rw [if_pos hk, if_pos hk, if_neg (by rw [← hk]; exact h0)]
    · rw [if_neg hk, if_neg hk]

theorem lk_setKey (l : List KV) (k : Bytes) (v : SVal) (key : Bytes) :
    lk (setKey l k v) key = if key = k then some v else lk l key := by
  unfold setKey
  by_cases h : l.any (fun kv => kv.1 == k) = true
  · rw [if_pos h]; exact lk_map_repl k v l key h
  · rw [if_neg h]
    exact lk_append_fresh l k v key (by
      cases hh : l.any (fun kv => kv.1 == k) with
      | true => exact absurd hh h
      | false => rfl)

theorem lk_filter_ne (k : Bytes) : ∀ (l : List KV) (key : Bytes),
    lk (l.filter (fun kv => kv.1 != k)) key = if key = k then none else lk l key := by
  intro l
  induction l with
  | nil => intro key; simp [lk_nil]
  | cons kv l ih =>
    intro key
    obtain ⟨k0, v0⟩ := kv
    simp only [List.filter_cons]
    by_cases h0 : k0 = k
    · subst h0
      simp only [bne_self_eq_false, Bool.false_eq_true, if_false]
      rw [ih key, lk_cons]
      by_cases hk : key = k0
      · rw [if_pos hk, if_pos hk]
      · rw [if_neg hk, if_neg hk, if_neg (fun hc => hk hc.symm)]
    · have hb : (k0 != k) = true := by simpa using h0
      simp only [hb, if_true]
      rw [lk_cons, lk_cons, ih key]
      by_cases hk : k0 = key
      · rw [if_pos hk, if_pos hk, if_neg (by rw [← hk]; exact h0)]
      · rw [if_neg hk, if_neg hk]

theorem keys_setKey (l : List KV) (k : Bytes) (v : SVal) (h : (l.map (·.1)).Nodup) : ((setKey l k v).map (·.1)).Nodup := by
  unfold setKey
  by_cases ha : l.any (fun kv => kv.1 == k) = true
  · rw [if_pos ha]
    have : (l.map (fun kv => if kv.1 == k then (k, v) else kv)).map (·.1) = l.map (·.1) := by
      rw [List.map_map]
      apply List.map_congr_left
      intro kv _
      by_cases hk : kv.1 = k
      · simp [hk]
      · simp [hk]
    rw [this]; exact h
  · rw [if_neg ha]
    rw [List.map_append, List.nodup_append]
    refine ⟨h, by simp, ?_⟩
    intro a ha' b hb
    simp only [List.map_cons, List.map_nil, List.mem_singleton] at hb
    subst hb
    intro hc
    subst hc
    apply ha
    simp only [List.mem_map] at ha'
    obtain ⟨kv, hkv, hk⟩ := ha'
    rw [List.any_eq_true]
    exact ⟨kv, hkv, by simp [hk]⟩

theorem keys_filter (l : List KV) (f : KV → Bool) (h : (l.map (·.1)).Nodup) : ((l.filter f).map (·.1)).Nodup :=
  (List.Sublist.map _ List.filter_sublist).nodup h

/-! ### the two phases of the map loop -/
def setAll (cur : List KV) (l : List KV) : List KV := l.foldl (fun acc kv => setKey acc kv.1 kv.2) cur
def delAll (cur : List KV) (keys : List Bytes) : List KV := keys.foldl (fun acc key => acc.filter (fun kv => kv.1 != key)) cur

theorem lk_setAll : ∀ (l cur : List KV) (key : Bytes), (l.map (·.1)).Nodup →
    lk (setAll cur l) key = match lk l key with | some v => some v | none => lk cur key := by
  intro l
  induction l with
  | nil => intro cur key _; rfl
  | cons kv l ih =>
    intro cur key hnd
    obtain ⟨k0, v0⟩ := kv
    simp only [List.map_cons, List.nodup_cons] at hnd
    have : setAll cur ((k0, v0) :: l) = setAll (setKey cur k0 v0) l := rfl
    rw [this, ih _ key hnd.2, lk_cons, lk_setKey]
    by_cases hk : k0 = key
    · subst hk
      rw [lk_none_of_not_mem l k0 hnd.1]
      simp
    · rw [if_neg hk, if_neg (fun hc => hk hc.symm)]

theorem keys_setAll : ∀ (l cur : List KV), (cur.map (·.1)).Nodup → ((setAll cur l).map (·.1)).Nodup := by
  intro l
  induction l with
  | nil => intro cur h; exact h
  | cons kv l ih => intro cur h; exact ih _ (keys_setKey cur kv.1 kv.2 h)

theorem lk_delAll : ∀ (keys : List Bytes) (cur : List KV) (key : Bytes),
    lk (delAll cur keys) key = if key ∈ keys then none else lk cur key := by
  intro keys
  induction keys with
  | nil => intro cur key; simp [delAll]
  | cons k0 keys ih =>
    intro cur key
    have : delAll cur (k0 :: keys) = delAll (cur.filter (fun kv => kv.1 != k0)) keys := rfl
    rw [this, ih, lk_filter_ne]
    by_cases h1 : key ∈ keys
    · simp [h1]
    · by_cases h2 : key = k0
      · simp [h2]
      · simp [h1, h2]

theorem keys_delAll : ∀ (keys : List Bytes) (cur : List KV), (cur.map (·.1)).Nodup → ((delAll cur keys).map (·.1)).Nodup := by
  intro keys
  induction keys with
  | nil => intro cur h; exact h
  | cons k0 keys ih => intro cur h; exact ih _ (keys_filter cur _ h)

theorem mapM'_keyed_spec (N : Num) (hN : NumLaws N) (pt : Bytes) (k : SKind) :
    ∀ (l : List KV), (∀ kv ∈ l, SOk k kv.2) →
      ∃ ps, mapM' (fun (kv : Bytes × SVal) => keyed N pt k kv.1 kv.2) l = .ok ps ∧ MapPts N pt k ps l := by
  intro l
  induction l with
  | nil => intro _; exact ⟨[], rfl, .nil⟩
  | cons kv l ih =>
    intro h
    obtain ⟨key, v⟩ := kv
    obtain ⟨p, hp, ht, hk, htb, hs⟩ := keyed_setScalar N hN pt key k v (h (key, v) (by simp))
    obtain ⟨ps, hps, hall⟩ := ih (fun x hx => h x (by simp [hx]))
    exact ⟨p :: ps, by simp [mapM', hp, hps], .cons p ps key v l ht hk htb hs hall⟩

theorem setMap_live (N : Num) (pt : Bytes) (k : SKind) :
    ∀ (ps : List Point) (l : List KV), MapPts N pt k ps l → (∀ kv ∈ l, kv.1 ≠ []) →
      ∀ (rest : List Point) (cur : List KV), setMap N k (ps ++ rest) cur = setMap N k rest (setAll cur l) := by
  intro ps l h
  induction h with
  | nil => intro _ rest cur; rfl
  | cons p ps key v kvs ht hk htb hs hrest ih =>
    intro hne rest cur
    have hkne : key ≠ [] := hne (key, v) (by simp)
    have hkey : (if p.key.isEmpty then ([48] : Bytes) else p.key) = key := by
      rw [hk]
      cases key with
      | nil => exact absurd rfl hkne
      | cons _ _ => rfl
    simp only [List.cons_append, setMap, hkey, htb, tombOdd_zero, Bool.false_eq_true, if_false, hs]
    rw [ih (fun kv hkv => hne kv (by simp [hkv]))]
    rfl

def tombPts (pt : Bytes) (keys : List Bytes) : List Point := keys.map (fun key => ({ type := pt, key := key, tomb := 1 } : Point))

theorem setMap_dead (N : Num) (pt : Bytes) (k : SKind) :
    ∀ (keys : List Bytes), (∀ key ∈ keys, key ≠ []) →
      ∀ (cur : List KV), setMap N k (tombPts pt keys) cur = (delAll cur keys, .ok) := by
  intro keys
  induction keys with
  | nil => intro _ cur; rfl
  | cons k0 keys ih =>
    intro hne cur
    have hk0 : k0 ≠ [] := hne k0 (by simp)
    have hkey : (if k0.isEmpty then ([48] : Bytes) else k0) = k0 := by
      cases k0 with
      | nil => exact absurd rfl hk0
      | cons _ _ => rfl
    simp only [tombPts, List.map_cons, setMap, hkey, tombOdd_one, if_true]
    have := ih (fun key hk => hne key (by simp [hk])) (cur.filter (fun kv => kv.1 != k0))
    simp only [tombPts] at this
    rw [this]
    rfl

theorem MapPts.facts {N : Num} {pt : Bytes} {k : SKind} {ps : List Point} {l : List KV} (h : MapPts N pt k ps l) :
    ∀ p ∈ ps, p.tomb = 0 ∧ p.key ∈ l.map (·.1) := by
  induction h with
  | nil => intro p hp; cases hp
  | cons p _ _ _ _ _ hk htb _ _ ih =>
    intro q hq
    simp only [List.mem_cons] at hq
    rcases hq with rfl | hq
    · exact ⟨htb, by simp [hk]⟩
    · exact ⟨(ih q hq).1, by simp [(ih q hq).2]⟩

/-! ### the map field -/
def chgM (N : Num) (k : SKind) (bkv : List KV) (kv : KV) : Bool :=
  match bkv.find? (fun x => x.1 == kv.1) with
  | some x => !sEq N k kv.2 x.2
  | none => true

def deadKeys (bkv akv : List KV) : List Bytes := (bkv.filter (fun x => !akv.any (fun kv => kv.1 == x.1))).map (·.1)

theorem mem_deadKeys (bkv akv : List KV) (key : Bytes) :
    key ∈ deadKeys bkv akv ↔ key ∈ bkv.map (·.1) ∧ key ∉ akv.map (·.1) := by
  unfold deadKeys
  simp only [List.mem_map, List.mem_filter, Bool.not_eq_true', List.any_eq_false, beq_iff_eq]
  constructor
  · rintro ⟨x, ⟨hx, hn⟩, rfl⟩
    refine ⟨⟨x, hx, rfl⟩, ?_⟩
    rintro ⟨kv, hkv, hk⟩
    exact hn kv hkv hk
  · rintro ⟨⟨x, hx, rfl⟩, hn⟩
    refine ⟨x, ⟨hx, ?_⟩, rfl⟩
    intro kv hkv hk
    exact hn ⟨kv, hkv, hk⟩

theorem diff_map (N : Num) (hN : NumLaws N) (pt : Bytes) (k : SKind) (bkv akv : List KV)
    (hb : FOk (.map k) (.map bkv)) (ha : FOk (.map k) (.map akv)) :
    ∃ ps, diffField N pt (.map k) (.map bkv) (.map akv) = .ok ps ∧ (∀ p ∈ ps, p.type = pt) ∧
      DiffRT N (.map k) (.map bkv) (.map akv) ps := by
  simp only [FOk] at hb ha
  obtain ⟨hlb, hallb, hndb⟩ := hb
  obtain ⟨hla, halla, hnda⟩ := ha
  have hchsub : ∀ kv ∈ akv.filter (chgM N k bkv), kv ∈ akv := fun kv h => (List.mem_filter.mp h).1
  obtain ⟨ps, hps, hmp⟩ := mapM'_keyed_spec N hN pt k (akv.filter (chgM N k bkv)) (fun kv h => (halla kv (hchsub kv h)).2)
  have hpf := hmp.facts
  have hpkey : ∀ p ∈ ps, p.key ≠ [] := by
    intro p hp
    obtain ⟨_, hk⟩ := hpf p hp
    simp only [List.mem_map] at hk
    obtain ⟨kv, hkv, hk⟩ := hk
    rw [← hk]
    exact (halla kv (hchsub kv hkv)).1
  have hnorm : ps.map addNorm = ps := by
    rw [List.map_congr_left (g := id) (fun p hp => addNorm_key p (hpkey p hp))]; simp
  have hdk : ∀ key ∈ deadKeys bkv akv, key ≠ [] := by
    intro key hkey
    obtain ⟨hkb, _⟩ := (mem_deadKeys bkv akv key).mp hkey
    simp only [List.mem_map] at hkb
    obtain ⟨x, hx, rfl⟩ := hkb
    exact (hallb x hx).1
  have hdead : (bkv.filter (fun x => !akv.any (fun kv => kv.1 == x.1))).map
      (fun x => addNorm ({ type := pt, key := x.1, tomb := 1 } : Point)) = tombPts pt (deadKeys bkv akv) := by
    unfold tombPts deadKeys
    rw [List.map_map]
    apply List.map_congr_left
    intro x hx
    exact addNorm_key _ (hallb x (List.mem_filter.mp hx).1).1
  have hdiff : diffField N pt (.map k) (.map bkv) (.map akv) = .ok (ps ++ tombPts pt (deadKeys bkv akv)) := by
    simp only [diffField]
    rw [if_neg (by unfold maxStructureSize; omega)]
    show (match mapM' (fun (kv : Bytes × SVal) => keyed N pt k kv.1 kv.2) (akv.filter (chgM N k bkv)) with
      | .ok ps => Res.ok (ps.map addNorm ++ (bkv.filter (fun x => !akv.any (fun kv => kv.1 == x.1))).map
          (fun x => addNorm ({ type := pt, key := x.1, tomb := 1 } : Point)))
      | e => e) = Res.ok (ps ++ tombPts pt (deadKeys bkv akv))
    rw [hps]
    simp only [hnorm, hdead]
  have htypes : ∀ p ∈ ps ++ tombPts pt (deadKeys bkv akv), p.type = pt := by
    intro p hp
    rcases List.mem_append.mp hp with hp | hp
    · exact hmp.types.1 p hp
    · simp only [tombPts, List.mem_map] at hp
      obtain ⟨_, _, rfl⟩ := hp; rfl
  -- the merged map
  have hchnd : ((akv.filter (chgM N k bkv)).map (·.1)).Nodup := keys_filter akv _ hnda
  have hloop : setMap N k (ps ++ tombPts pt (deadKeys bkv akv)) bkv =
      (delAll (setAll bkv (akv.filter (chgM N k bkv))) (deadKeys bkv akv), .ok) := by
    rw [setMap_live N pt k ps _ hmp (fun kv h => (halla kv (hchsub kv h)).1), setMap_dead N pt k _ hdk]
  have hnear : NearM N k (delAll (setAll bkv (akv.filter (chgM N k bkv))) (deadKeys bkv akv)) akv := by
    refine ⟨keys_delAll _ _ (keys_setAll _ _ hndb), ?_⟩
    intro key
    rw [lk_delAll, lk_setAll _ _ _ hchnd]
    cases hak : lk akv key with
    | some v =>
      simp only []
      have hmem : (key, v) ∈ akv := lk_some_mem akv key v hak
      have hnd : key ∉ deadKeys bkv akv := by
        intro hc
        exact ((mem_deadKeys bkv akv key).mp hc).2 (List.mem_map_of_mem (f := (·.1)) hmem)
      rw [if_neg hnd]
      by_cases hc : chgM N k bkv (key, v) = true
      · have : lk (akv.filter (chgM N k bkv)) key = some v :=
          lk_of_mem_nodup _ key v hchnd (List.mem_filter.mpr ⟨hmem, hc⟩)
        rw [this]
        exact ⟨v, rfl, Near.rfl' N k v⟩
      · have hnone : lk (akv.filter (chgM N k bkv)) key = none := by
          cases hl : lk (akv.filter (chgM N k bkv)) key with
          | none => rfl
          | some v' =>
            exfalso
            have hm := lk_some_mem _ key v' hl
            obtain ⟨hm1, hm2⟩ := List.mem_filter.mp hm
            have := lk_of_mem_nodup akv key v' hnda hm1
            rw [hak] at this
            injection this with this
            subst this
            exact hc hm2
        rw [hnone]
        simp only []
        unfold chgM at hc
        simp only [] at hc
        cases hf : bkv.find? (fun x => x.1 == key) with
        | none => rw [hf] at hc; simp at hc
        | some x =>
          rw [hf] at hc
          simp only [Bool.not_eq_true'] at hc
          refine ⟨x.2, by simp [lk, hf], Or.inr (Or.inr ?_)⟩
          simpa using hc
    | none =>
      simp only []
      have hna : key ∉ akv.map (·.1) := by
        intro hc
        have := (lk_isSome_iff akv key).mpr hc
        rw [hak] at this; cases this
      have hnone : lk (akv.filter (chgM N k bkv)) key = none := by
        apply lk_none_of_not_mem
        intro hc
        simp only [List.mem_map] at hc
        obtain ⟨kv, hkv, hk⟩ := hc
        exact hna (by simp only [List.mem_map]; exact ⟨kv, hchsub kv hkv, hk⟩)
      rw [hnone]
      simp only []
      by_cases hd : key ∈ deadKeys bkv akv
      · rw [if_pos hd]
      · rw [if_neg hd]
        cases hbk : lk bkv key with
        | none => rfl
        | some w =>
          exfalso
          apply hd
          rw [mem_deadKeys]
          exact ⟨List.mem_map_of_mem (f := (·.1)) (lk_some_mem bkv key w hbk), hna⟩
  refine ⟨_, hdiff, htypes, ?_⟩
  by_cases h0 : ps ++ tombPts pt (deadKeys bkv akv) = []
  · left
    refine ⟨h0, ?_⟩
    have hps0 : ps = [] := (List.append_eq_nil_iff.mp h0).1
    have hD0 : deadKeys bkv akv = [] := by
      have := (List.append_eq_nil_iff.mp h0).2
      simpa [tombPts] using this
    have hch0 : akv.filter (chgM N k bkv) = [] := by
      have := hmp.types.2
      rw [hps0] at this
      exact List.eq_nil_of_length_eq_zero this.symm
    rw [hch0, hD0] at hnear
    exact hnear
  · right
    refine ⟨h0, .map (delAll (setAll bkv (akv.filter (chgM N k bkv))) (deadKeys bkv akv)), ?_, hnear⟩
    have hlive : ((ps ++ tombPts pt (deadKeys bkv akv)).filter (fun p => !tombOdd p.tomb)).length ≤ 1000 := by
      rw [List.filter_append]
      have h1 : ps.filter (fun p => !tombOdd p.tomb) = ps := by
        rw [List.filter_eq_self]
        intro p hp
        rw [(hpf p hp).1]; rfl
      have h2 : (tombPts pt (deadKeys bkv akv)).filter (fun p => !tombOdd p.tomb) = [] := by
        rw [List.filter_eq_nil_iff]
        intro p hp
        simp only [tombPts, List.mem_map] at hp
        obtain ⟨_, _, rfl⟩ := hp
        simp [tombOdd_one]
      rw [h1, h2, List.append_nil, hmp.types.2]
      have := List.length_filter_le (chgM N k bkv) akv
      omega
    simp only [setValue, foldl_groupStep_points, List.nil_append]
    rw [if_neg (by unfold maxStructureSize; omega), hloop]

end Siot.Config
