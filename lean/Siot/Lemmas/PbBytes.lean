import Siot.Lemmas.Proto3
import Siot.Lemmas.Pb
/- C12 at the byte level: what the canonical encoder writes for a pb.Point / list of points parses and decodes
   back to the same message -/
namespace Siot.Pb
open Siot Siot.Proto3

def Int64 (i : Int) : Prop := -9223372036854775808 ≤ i ∧ i ≤ 9223372036854775807

theorem toInt64_ofInt64 (i : Int) (h : Int64 i) : toInt64 (ofInt64 i) = i := by
  unfold toInt64 ofInt64 Int64 at *
  obtain ⟨h1, h2⟩ := h
  have hm : ((i % 18446744073709551616).toNat : Int) = i % 18446744073709551616 :=
    Int.toNat_of_nonneg (Int.emod_nonneg _ (by omega))
  generalize (i % 18446744073709551616).toNat = n at hm
  simp only []
  have hn : n % 18446744073709551616 = n := by
    apply Nat.mod_eq_of_lt
    have := Int.emod_lt_of_pos i (show (0 : Int) < 18446744073709551616 by decide)
    omega
  rw [hn]
  split <;> omega

theorem ofInt64_lt (i : Int) : ofInt64 i < 18446744073709551616 := by
  unfold ofInt64
  have h1 := Int.emod_lt_of_pos i (show (0 : Int) < 18446744073709551616 by decide)
  have h2 := Int.emod_nonneg i (show (18446744073709551616 : Int) ≠ 0 by decide)
  omega

/-! ### the fields the encoder writes -/
def optLen (num : Nat) (b : Bytes) : List Field := if b.isEmpty then [] else [(num, .len b)]
def optInt (num : Nat) (i : Int) : List Field := if i = 0 then [] else [(num, .varint (ofInt64 i))]
def optF64 (num : Nat) (v : Nat) : List Field := if v = 0 then [] else [(num, .fixed64 v)]

theorem encFields_append (a b : List Field) : encFields (a ++ b) = encFields a ++ encFields b := by
  simp [encFields]

theorem encLenNZ_eq (num : Nat) (b : Bytes) : encLenNZ num b = encFields (optLen num b) := by
  unfold encLenNZ optLen
  split <;> simp [encFields, encField, encLen]

theorem encIntNZ_eq (num : Nat) (i : Int) : encIntNZ num i = encFields (optInt num i) := by
  unfold encIntNZ optInt
  split <;> simp [encFields, encField]

theorem encFixed64NZ_eq (num : Nat) (v : Nat) : encFixed64NZ num v = encFields (optF64 num v) := by
  unfold encFixed64NZ optF64
  split <;> simp [encFields, encField]

def fieldsOfTs (t : PbTimestamp) : List Field := optInt 1 t.seconds ++ optInt 2 t.nanos

theorem encTimestamp_eq (t : PbTimestamp) : encTimestamp t = encFields (fieldsOfTs t) := by
  simp [encTimestamp, fieldsOfTs, encFields_append, encIntNZ_eq]

def timeField (p : PbPoint) : List Field := match p.time with | some t => [(5, .len (encTimestamp t))] | none => []

def fieldsOfPoint (p : PbPoint) : List Field :=
  optLen 2 p.type ++ (optF64 4 p.value ++ (timeField p ++ (optLen 8 p.text ++ (optLen 11 p.key ++
    (optInt 12 p.tombstone ++ (optLen 14 p.data ++ optLen 15 p.origin))))))

theorem encPoint_eq (p : PbPoint) : encPoint p = encFields (fieldsOfPoint p) := by
  unfold encPoint fieldsOfPoint timeField
  simp only [encFields_append, encLenNZ_eq, encFixed64NZ_eq, encIntNZ_eq, List.append_assoc]
  cases p.time <;> simp [encFields, encField, encLen]

/-! ### bounds: every written field is one the parser accepts -/
theorem encodeVarint_length : ∀ (k v : Nat), v < 128 ^ k → 0 < k → (encodeVarint v).length ≤ k := by
  intro k
  induction k with
  | zero => intro v _ h; omega
  | succ k ih =>
    intro v hv _
    rw [encodeVarint]
    by_cases hlt : v < 128
    · simp [hlt]
    · simp only [hlt, dite_false, List.length_cons]
      have hk : 0 < k := by
        cases k with
        | zero => simp at hv; omega
        | succ k => omega
      have := ih (v / 128) (by
        rw [Nat.pow_succ] at hv
        exact Nat.div_lt_of_lt_mul (by rw [Nat.mul_comm]; exact hv)) hk
      omega

theorem encTimestamp_length (t : PbTimestamp) : (encTimestamp t).length < 18446744073709551616 := by
  have hv : ∀ v, v < 18446744073709551616 → (encodeVarint v).length ≤ 10 := by
    intro v hv
    exact encodeVarint_length 10 v (by
      have : (128 : Nat) ^ 10 = 1180591620717411303424 := rfl
      omega) (by decide)
  have ht : ∀ n, n ≤ 2 → (tag n 0).length ≤ 10 := by
    intro n hn
    unfold tag
    exact hv _ (by omega)
  unfold encTimestamp encIntNZ
  have h1 := hv (ofInt64 t.seconds) (ofInt64_lt _)
  have h2 := hv (ofInt64 t.nanos) (ofInt64_lt _)
  have h3 := ht 1 (by decide)
  have h4 := ht 2 (by decide)
  split <;> split <;> simp only [List.length_append, List.length_nil] <;> omega

/-- a pb.Point as this code base produces it: valid UTF-8 strings, values in range, lengths the wire can carry -/
structure PbPointOk (p : PbPoint) : Prop where
  type : utf8Valid p.type = true
  text : utf8Valid p.text = true
  key : utf8Valid p.key = true
  origin : utf8Valid p.origin = true
  value : p.value < 18446744073709551616
  tomb : Int32 p.tombstone
  time : ∀ t, p.time = some t → Int64 t.seconds ∧ Int32 t.nanos
  lens : p.type.length < 18446744073709551616 ∧ p.text.length < 18446744073709551616 ∧ p.key.length < 18446744073709551616 ∧
         p.origin.length < 18446744073709551616 ∧ p.data.length < 18446744073709551616

theorem optLen_ok (num : Nat) (b : Bytes) (hn : 1 ≤ num ∧ num ≤ 536870911) (hl : b.length < 18446744073709551616) :
    ∀ f ∈ optLen num b, FieldOk f := by
  intro f hf
  unfold optLen at hf
  split at hf
  · cases hf
  · simp only [List.mem_singleton] at hf; subst hf; exact ⟨hn.1, hn.2, hl⟩

theorem optInt_ok (num : Nat) (i : Int) (hn : 1 ≤ num ∧ num ≤ 536870911) : ∀ f ∈ optInt num i, FieldOk f := by
  intro f hf
  unfold optInt at hf
  split at hf
  · cases hf
  · simp only [List.mem_singleton] at hf; subst hf; exact ⟨hn.1, hn.2, ofInt64_lt i⟩

theorem optF64_ok (num : Nat) (v : Nat) (hn : 1 ≤ num ∧ num ≤ 536870911) (hv : v < 18446744073709551616) :
    ∀ f ∈ optF64 num v, FieldOk f := by
  intro f hf
  unfold optF64 at hf
  split at hf
  · cases hf
  · simp only [List.mem_singleton] at hf; subst hf; exact ⟨hn.1, hn.2, hv⟩

theorem fieldsOfTs_ok (t : PbTimestamp) : ∀ f ∈ fieldsOfTs t, FieldOk f := by
  intro f hf
  simp only [fieldsOfTs, List.mem_append] at hf
  rcases hf with hf | hf
  · exact optInt_ok 1 _ (by decide) f hf
  · exact optInt_ok 2 _ (by decide) f hf

theorem fieldsOfPoint_ok (p : PbPoint) (h : PbPointOk p) : ∀ f ∈ fieldsOfPoint p, FieldOk f := by
  intro f hf
  obtain ⟨l1, l2, l3, l4, l5⟩ := h.lens
  simp only [fieldsOfPoint, List.mem_append] at hf
  rcases hf with hf | hf | hf | hf | hf | hf | hf | hf
  · exact optLen_ok 2 _ (by decide) l1 f hf
  · exact optF64_ok 4 _ (by decide) h.value f hf
  · unfold timeField at hf
    cases ht : p.time with
    | none => rw [ht] at hf; cases hf
    | some t =>
      rw [ht] at hf
      simp only [List.mem_singleton] at hf
      subst hf
      exact ⟨by decide, by decide, encTimestamp_length t⟩
  · exact optLen_ok 8 _ (by decide) l2 f hf
  · exact optLen_ok 11 _ (by decide) l3 f hf
  · exact optInt_ok 12 _ (by decide) f hf
  · exact optLen_ok 14 _ (by decide) l5 f hf
  · exact optLen_ok 15 _ (by decide) l4 f hf

/-! ### decoding the written fields -/
theorem decTimestamp_fields (t : PbTimestamp) (h1 : Int64 t.seconds) (h2 : Int32 t.nanos) :
    decTimestamp {} (fieldsOfTs t) = some t := by
  unfold fieldsOfTs optInt
  by_cases hs : t.seconds = 0 <;> by_cases hn : t.nanos = 0
  · simp only [hs, hn, if_true, List.append_nil, decTimestamp]
    cases t; simp_all
  · simp only [hs, hn, if_true, if_false, List.nil_append, decTimestamp, toInt32_ofInt64 _ h2]
    cases t; simp_all
  · simp only [hs, hn, if_true, if_false, List.append_nil, decTimestamp, toInt64_ofInt64 _ h1]
    cases t; simp_all
  · simp only [hs, hn, if_false, List.cons_append, List.nil_append, decTimestamp, toInt64_ofInt64 _ h1, toInt32_ofInt64 _ h2]

theorem str_valid (b : Bytes) (h : utf8Valid b = true) : str b = some b := by simp [str, h]

theorem decPoint_optLen2 (acc : PbPoint) (s : Bytes) (hs : utf8Valid s = true) (h0 : acc.type = []) (rest : List Field) :
    decPoint acc (optLen 2 s ++ rest) = decPoint { acc with type := s } rest := by
  unfold optLen
  split
  · rename_i he
    have : s = [] := by simpa using he
    subst this
    simp only [List.nil_append]
    congr 1
    cases acc; simp_all
  · simp [decPoint, str_valid s hs]

theorem decPoint_optF64 (acc : PbPoint) (v : Nat) (h0 : acc.value = 0) (rest : List Field) :
    decPoint acc (optF64 4 v ++ rest) = decPoint { acc with value := v } rest := by
  unfold optF64
  split
  · rename_i he
    subst he
    simp only [List.nil_append]
    congr 1
    cases acc; simp_all
  · simp [decPoint]

theorem decPoint_optLen8 (acc : PbPoint) (s : Bytes) (hs : utf8Valid s = true) (h0 : acc.text = []) (rest : List Field) :
    decPoint acc (optLen 8 s ++ rest) = decPoint { acc with text := s } rest := by
  unfold optLen
  split
  · rename_i he
    have : s = [] := by simpa using he
    subst this
    simp only [List.nil_append]
    congr 1
    cases acc; simp_all
  · simp [decPoint, str_valid s hs]

theorem decPoint_optLen11 (acc : PbPoint) (s : Bytes) (hs : utf8Valid s = true) (h0 : acc.key = []) (rest : List Field) :
    decPoint acc (optLen 11 s ++ rest) = decPoint { acc with key := s } rest := by
  unfold optLen
  split
  · rename_i he
    have : s = [] := by simpa using he
    subst this
    simp only [List.nil_append]
    congr 1
    cases acc; simp_all
  · simp [decPoint, str_valid s hs]

theorem decPoint_optInt12 (acc : PbPoint) (i : Int) (hi : Int32 i) (h0 : acc.tombstone = 0) (rest : List Field) :
    decPoint acc (optInt 12 i ++ rest) = decPoint { acc with tombstone := i } rest := by
  unfold optInt
  split
  · rename_i he
    subst he
    simp only [List.nil_append]
    congr 1
    cases acc; simp_all
  · simp [decPoint, toInt32_ofInt64 i hi]

theorem decPoint_optLen14 (acc : PbPoint) (s : Bytes) (h0 : acc.data = []) (rest : List Field) :
    decPoint acc (optLen 14 s ++ rest) = decPoint { acc with data := s } rest := by
  unfold optLen
  split
  · rename_i he
    have : s = [] := by simpa using he
    subst this
    simp only [List.nil_append]
    congr 1
    cases acc; simp_all
  · simp [decPoint]

theorem decPoint_optLen15 (acc : PbPoint) (s : Bytes) (hs : utf8Valid s = true) (h0 : acc.origin = []) (rest : List Field) :
    decPoint acc (optLen 15 s ++ rest) = decPoint { acc with origin := s } rest := by
  unfold optLen
  split
  · rename_i he
    have : s = [] := by simpa using he
    subst this
    simp only [List.nil_append]
    congr 1
    cases acc; simp_all
  · simp [decPoint, str_valid s hs]

theorem decPoint_time (acc : PbPoint) (p : PbPoint) (hok : ∀ t, p.time = some t → Int64 t.seconds ∧ Int32 t.nanos)
    (h0 : acc.time = none) (rest : List Field) :
    decPoint acc (timeField p ++ rest) = decPoint { acc with time := p.time } rest := by
  unfold timeField
  cases ht : p.time with
  | none =>
    simp only [List.nil_append]
    congr 1
    cases acc; simp_all
  | some t =>
    obtain ⟨h1, h2⟩ := hok t ht
    simp only [List.cons_append, List.nil_append, decPoint]
    rw [encTimestamp_eq, parse_encFields _ (fieldsOfTs_ok t), h0]
    simp only [Option.getD_none, decTimestamp_fields t h1 h2]

theorem decPoint_optLen15' (acc : PbPoint) (s : Bytes) (hs : utf8Valid s = true) (h0 : acc.origin = []) :
    decPoint acc (optLen 15 s) = decPoint { acc with origin := s } [] := by
  have := decPoint_optLen15 acc s hs h0 []
  simpa only [List.append_nil] using this

/-- decoding the fields of a well-formed point gives the point back -/
theorem decPoint_fields (p : PbPoint) (h : PbPointOk p) : decPoint {} (fieldsOfPoint p) = some p := by
  unfold fieldsOfPoint
  rw [decPoint_optLen2 _ _ h.type rfl, decPoint_optF64 _ _ rfl, decPoint_time _ p h.time rfl,
    decPoint_optLen8 _ _ h.text rfl, decPoint_optLen11 _ _ h.key rfl, decPoint_optInt12 _ _ h.tomb rfl,
    decPoint_optLen14 _ _ rfl, decPoint_optLen15' _ _ h.origin rfl]
  simp only [decPoint]

/-- **the bytes of a point decode to the point** -/
theorem pointOfBytes_encPoint (p : PbPoint) (h : PbPointOk p) : pointOfBytes (encPoint p) = some p := by
  unfold pointOfBytes
  rw [encPoint_eq, parse_encFields _ (fieldsOfPoint_ok p h)]
  exact decPoint_fields p h

/-! ### sizes -/
theorem varint_len10 (v : Nat) (hv : v < 18446744073709551616) : (encodeVarint v).length ≤ 10 :=
  encodeVarint_length 10 v (by
    have : (128 : Nat) ^ 10 = 1180591620717411303424 := rfl
    omega) (by decide)

theorem tag_len10 (num wt : Nat) (hn : num ≤ 536870911) (hw : wt < 8) : (tag num wt).length ≤ 10 := by
  unfold tag
  exact varint_len10 _ (by omega)

theorem encLenNZ_length (num : Nat) (b : Bytes) (hn : num ≤ 536870911) (hb : b.length < 18446744073709551616) :
    (encLenNZ num b).length ≤ 20 + b.length := by
  unfold encLenNZ encLen
  have := tag_len10 num 2 hn (by decide)
  have := varint_len10 b.length hb
  split <;> simp only [List.length_append, List.length_nil] <;> omega

theorem encIntNZ_length (num : Nat) (i : Int) (hn : num ≤ 536870911) : (encIntNZ num i).length ≤ 20 := by
  unfold encIntNZ
  have := tag_len10 num 0 hn (by decide)
  have := varint_len10 (ofInt64 i) (ofInt64_lt i)
  split <;> simp only [List.length_append, List.length_nil] <;> omega

theorem encFixed64NZ_length (num : Nat) (v : Nat) (hn : num ≤ 536870911) : (encFixed64NZ num v).length ≤ 18 := by
  unfold encFixed64NZ
  have := tag_len10 num 1 hn (by decide)
  split <;> simp only [List.length_append, List.length_nil, leBytes_length] <;> omega

theorem encTimestamp_length40 (t : PbTimestamp) : (encTimestamp t).length ≤ 40 := by
  unfold encTimestamp
  have := encIntNZ_length 1 t.seconds (by decide)
  have := encIntNZ_length 2 t.nanos (by decide)
  simp only [List.length_append]; omega

/-- the strings and the data of a point together stay below 2^63 bytes (protobuf-go itself refuses
    messages above 2 GiB) -/
def SmallPoint (p : PbPoint) : Prop :=
  p.type.length + p.text.length + p.key.length + p.origin.length + p.data.length < 9223372036854775808

theorem encPoint_length (p : PbPoint) (h : SmallPoint p) :
    (encPoint p).length ≤ p.type.length + p.text.length + p.key.length + p.origin.length + p.data.length + 200 := by
  unfold SmallPoint at h
  have h1 := encLenNZ_length 2 p.type (by decide) (by omega)
  have h2 := encFixed64NZ_length 4 p.value (by decide)
  have h4 := encLenNZ_length 8 p.text (by decide) (by omega)
  have h5 := encLenNZ_length 11 p.key (by decide) (by omega)
  have h6 := encIntNZ_length 12 p.tombstone (by decide)
  have h7 := encLenNZ_length 14 p.data (by decide) (by omega)
  have h8 := encLenNZ_length 15 p.origin (by decide) (by omega)
  unfold encPoint
  split
  · rename_i t _
    have a := tag_len10 5 2 (by decide) (by decide)
    have b := encTimestamp_length40 t
    have c := varint_len10 (encTimestamp t).length (by omega)
    simp only [encLen, List.length_append]; omega
  · simp only [List.length_append, List.length_nil]; omega

theorem encPoint_length64 (p : PbPoint) (h : SmallPoint p) : (encPoint p).length < 18446744073709551616 := by
  have := encPoint_length p h
  unfold SmallPoint at h
  omega

/-! ### repeated points -/
def pointFields (num : Nat) (qs : List PbPoint) : List Field := qs.map (fun q => (num, .len (encPoint q)))

theorem flatMap_encLen (num : Nat) (qs : List PbPoint) :
    qs.flatMap (fun p => encLen num (encPoint p)) = encFields (pointFields num qs) := by
  induction qs with
  | nil => rfl
  | cons q qs ih =>
    show encLen num (encPoint q) ++ qs.flatMap (fun p => encLen num (encPoint p)) =
      encField (num, .len (encPoint q)) ++ encFields (pointFields num qs)
    rw [ih]; rfl

theorem pointFields_ok (num : Nat) (hn : 1 ≤ num ∧ num ≤ 536870911) (qs : List PbPoint) (h : ∀ q ∈ qs, SmallPoint q) :
    ∀ f ∈ pointFields num qs, FieldOk f := by
  intro f hf
  simp only [pointFields, List.mem_map] at hf
  obtain ⟨q, hq, rfl⟩ := hf
  exact ⟨hn.1, hn.2, encPoint_length64 q (h q hq)⟩

theorem decPointsField_fields (num : Nat) (qs : List PbPoint) (h : ∀ q ∈ qs, PbPointOk q) (acc : List PbPoint) :
    decPointsField num acc (pointFields num qs) = some (acc ++ qs) := by
  induction qs generalizing acc with
  | nil => simp [pointFields, decPointsField]
  | cons q qs ih =>
    have hq := pointOfBytes_encPoint q (h q (by simp))
    have := ih (fun x hx => h x (by simp [hx])) (acc ++ [q])
    simp only [pointFields] at this
    simp only [pointFields, List.map_cons, decPointsField, if_true, hq, Option.bind_some, this, List.append_assoc,
      List.singleton_append]

/-- **the bytes of a `Points` message decode to the points** -/
theorem points_bytes (qs : List PbPoint) (h : ∀ q ∈ qs, PbPointOk q ∧ SmallPoint q) :
    (parse (encPoints qs)).bind (decPointsField 1 []) = some qs := by
  unfold encPoints
  rw [flatMap_encLen, parse_encFields _ (pointFields_ok 1 (by decide) qs (fun q hq => (h q hq).2))]
  simp only [Option.bind_some]
  rw [decPointsField_fields 1 qs (fun q hq => (h q hq).1) []]
  simp

/-! ### nodes -/
def fieldsOfNode (n : PbNode) : List Field :=
  optLen 1 n.id ++ (optLen 2 n.type ++ (pointFields 3 n.points ++ (optInt 4 n.hash ++ (optLen 6 n.parent ++
    pointFields 7 n.edgePoints))))

theorem encNode_eq (n : PbNode) : encNode n = encFields (fieldsOfNode n) := by
  unfold encNode fieldsOfNode
  simp only [encFields_append, encLenNZ_eq, encIntNZ_eq, flatMap_encLen, List.append_assoc]

structure PbNodeOk (n : PbNode) : Prop where
  id : utf8Valid n.id = true
  type : utf8Valid n.type = true
  parent : utf8Valid n.parent = true
  hash : Int32 n.hash
  lens : n.id.length < 18446744073709551616 ∧ n.type.length < 18446744073709551616 ∧ n.parent.length < 18446744073709551616
  points : ∀ q ∈ n.points ++ n.edgePoints, PbPointOk q ∧ SmallPoint q

theorem fieldsOfNode_ok (n : PbNode) (h : PbNodeOk n) : ∀ f ∈ fieldsOfNode n, FieldOk f := by
  intro f hf
  obtain ⟨l1, l2, l3⟩ := h.lens
  simp only [fieldsOfNode, List.mem_append] at hf
  rcases hf with hf | hf | hf | hf | hf | hf
  · exact optLen_ok 1 _ (by decide) l1 f hf
  · exact optLen_ok 2 _ (by decide) l2 f hf
  · exact pointFields_ok 3 (by decide) _ (fun q hq => (h.points q (by simp [hq])).2) f hf
  · exact optInt_ok 4 _ (by decide) f hf
  · exact optLen_ok 6 _ (by decide) l3 f hf
  · exact pointFields_ok 7 (by decide) _ (fun q hq => (h.points q (by simp [hq])).2) f hf

theorem decNode_optLen1 (acc : PbNode) (s : Bytes) (hs : utf8Valid s = true) (h0 : acc.id = []) (rest : List Field) :
    decNode acc (optLen 1 s ++ rest) = decNode { acc with id := s } rest := by
  unfold optLen
  split
  · rename_i he
    have : s = [] := by simpa using he
    subst this
    simp only [List.nil_append]
    congr 1
    cases acc; simp_all
  · simp [decNode, str_valid s hs]

theorem decNode_optLen2 (acc : PbNode) (s : Bytes) (hs : utf8Valid s = true) (h0 : acc.type = []) (rest : List Field) :
    decNode acc (optLen 2 s ++ rest) = decNode { acc with type := s } rest := by
  unfold optLen
  split
  · rename_i he
    have : s = [] := by simpa using he
    subst this
    simp only [List.nil_append]
    congr 1
    cases acc; simp_all
  · simp [decNode, str_valid s hs]

theorem decNode_optLen6 (acc : PbNode) (s : Bytes) (hs : utf8Valid s = true) (h0 : acc.parent = []) (rest : List Field) :
    decNode acc (optLen 6 s ++ rest) = decNode { acc with parent := s } rest := by
  unfold optLen
  split
  · rename_i he
    have : s = [] := by simpa using he
    subst this
    simp only [List.nil_append]
    congr 1
    cases acc; simp_all
  · simp [decNode, str_valid s hs]

theorem decNode_optInt4 (acc : PbNode) (i : Int) (hi : Int32 i) (h0 : acc.hash = 0) (rest : List Field) :
    decNode acc (optInt 4 i ++ rest) = decNode { acc with hash := i } rest := by
  unfold optInt
  split
  · rename_i he
    subst he
    simp only [List.nil_append]
    congr 1
    cases acc; simp_all
  · simp [decNode, toInt32_ofInt64 i hi]

theorem decNode_points3 (qs : List PbPoint) (h : ∀ q ∈ qs, PbPointOk q) (acc : PbNode) (rest : List Field) :
    decNode acc (pointFields 3 qs ++ rest) = decNode { acc with points := acc.points ++ qs } rest := by
  induction qs generalizing acc with
  | nil =>
    simp only [pointFields, List.map_nil, List.nil_append, List.append_nil]
  | cons q qs ih =>
    have hq := pointOfBytes_encPoint q (h q (by simp))
    have := ih (fun x hx => h x (by simp [hx])) { acc with points := acc.points ++ [q] }
    simp only [pointFields] at this
    simp only [pointFields, List.map_cons, List.cons_append, decNode, hq, Option.bind_some, this, List.append_assoc,
      List.cons_append, List.nil_append]

theorem decNode_points7 (qs : List PbPoint) (h : ∀ q ∈ qs, PbPointOk q) (acc : PbNode) (rest : List Field) :
    decNode acc (pointFields 7 qs ++ rest) = decNode { acc with edgePoints := acc.edgePoints ++ qs } rest := by
  induction qs generalizing acc with
  | nil =>
    simp only [pointFields, List.map_nil, List.nil_append, List.append_nil]
  | cons q qs ih =>
    have hq := pointOfBytes_encPoint q (h q (by simp))
    have := ih (fun x hx => h x (by simp [hx])) { acc with edgePoints := acc.edgePoints ++ [q] }
    simp only [pointFields] at this
    simp only [pointFields, List.map_cons, List.cons_append, decNode, hq, Option.bind_some, this, List.append_assoc,
      List.cons_append, List.nil_append]

theorem decNode_points7' (qs : List PbPoint) (h : ∀ q ∈ qs, PbPointOk q) (acc : PbNode) :
    decNode acc (pointFields 7 qs) = decNode { acc with edgePoints := acc.edgePoints ++ qs } [] := by
  have := decNode_points7 qs h acc []
  simpa only [List.append_nil] using this

theorem decNode_fields (n : PbNode) (h : PbNodeOk n) : decNode {} (fieldsOfNode n) = some n := by
  unfold fieldsOfNode
  rw [decNode_optLen1 _ _ h.id rfl, decNode_optLen2 _ _ h.type rfl,
    decNode_points3 _ (fun q hq => (h.points q (by simp [hq])).1), decNode_optInt4 _ _ h.hash rfl,
    decNode_optLen6 _ _ h.parent rfl, decNode_points7' _ (fun q hq => (h.points q (by simp [hq])).1)]
  simp only [decNode, List.nil_append]

/-- **the bytes of a node decode to the node** -/
theorem nodeOfBytes_encNode (n : PbNode) (h : PbNodeOk n) : nodeOfBytes {} (encNode n) = some n := by
  unfold nodeOfBytes
  rw [encNode_eq, parse_encFields _ (fieldsOfNode_ok n h)]
  exact decNode_fields n h

/-! ### lists of nodes (`Nodes`, `NodesRequest`) -/
def nodeFields (ns : List PbNode) : List Field := ns.map (fun n => (1, .len (encNode n)))

theorem encNodes_eq (ns : List PbNode) : encNodes ns = encFields (nodeFields ns) := by
  unfold encNodes
  induction ns with
  | nil => rfl
  | cons n ns ih =>
    show encLen 1 (encNode n) ++ ns.flatMap (fun n => encLen 1 (encNode n)) =
      encField (1, .len (encNode n)) ++ encFields (nodeFields ns)
    rw [ih]; rfl

theorem decNodesRequest_fields (withErr : Bool) (ns : List PbNode) (h : ∀ n ∈ ns, PbNodeOk n) (acc : List PbNode) :
    decNodesRequest acc [] withErr (nodeFields ns) = some (acc ++ ns, []) := by
  induction ns generalizing acc with
  | nil => simp [nodeFields, decNodesRequest]
  | cons n ns ih =>
    have hn := nodeOfBytes_encNode n (h n (by simp))
    have := ih (fun x hx => h x (by simp [hx])) (acc ++ [n])
    simp only [nodeFields] at this
    simp only [nodeFields, List.map_cons, decNodesRequest, hn, Option.bind_some, this, List.append_assoc,
      List.cons_append, List.nil_append]

/-- **the bytes of a `Nodes` / `NodesRequest` message decode to the nodes** (messages below 2^64 bytes) -/
theorem nodes_bytes (withErr : Bool) (ns : List PbNode) (h : ∀ n ∈ ns, PbNodeOk n ∧ (encNode n).length < 18446744073709551616) :
    (parse (encNodes ns)).bind (decNodesRequest [] [] withErr) = some (ns, []) := by
  rw [encNodes_eq, parse_encFields _ (by
    intro f hf
    simp only [nodeFields, List.mem_map] at hf
    obtain ⟨n, hn, rfl⟩ := hf
    exact ⟨by decide, by decide, (h n hn).2⟩)]
  simp only [Option.bind_some]
  rw [decNodesRequest_fields withErr ns (fun n hn => (h n hn).1) []]
  simp

/-! ### serial points (the MCU link) -/
def optF32 (num : Nat) (v : Nat) : List Field := if v = 0 then [] else [(num, .fixed32 v)]

theorem encFixed32NZ_eq (num : Nat) (v : Nat) : encFixed32NZ num v = encFields (optF32 num v) := by
  unfold encFixed32NZ optF32
  split <;> simp [encFields, encField]

theorem optF32_ok (num : Nat) (v : Nat) (hn : 1 ≤ num ∧ num ≤ 536870911) (hv : v < 4294967296) :
    ∀ f ∈ optF32 num v, FieldOk f := by
  intro f hf
  unfold optF32 at hf
  split at hf
  · cases hf
  · simp only [List.mem_singleton] at hf; subst hf; exact ⟨hn.1, hn.2, hv⟩

def fieldsOfSerial (p : PbSerialPoint) : List Field :=
  optLen 2 p.type ++ (optF32 4 p.value ++ (optLen 8 p.text ++ (optLen 11 p.key ++ (optInt 12 p.tombstone ++
    (optLen 14 p.data ++ (optLen 15 p.origin ++ optInt 16 p.time))))))

theorem encSerialPoint_eq (p : PbSerialPoint) : encSerialPoint p = encFields (fieldsOfSerial p) := by
  unfold encSerialPoint fieldsOfSerial
  simp only [encFields_append, encLenNZ_eq, encFixed32NZ_eq, encIntNZ_eq, List.append_assoc]

structure PbSerialOk (p : PbSerialPoint) : Prop where
  type : utf8Valid p.type = true
  text : utf8Valid p.text = true
  key : utf8Valid p.key = true
  origin : utf8Valid p.origin = true
  value : p.value < 4294967296
  tomb : Int32 p.tombstone
  time : Int64 p.time
  lens : p.type.length < 18446744073709551616 ∧ p.text.length < 18446744073709551616 ∧ p.key.length < 18446744073709551616 ∧
         p.origin.length < 18446744073709551616 ∧ p.data.length < 18446744073709551616

theorem fieldsOfSerial_ok (p : PbSerialPoint) (h : PbSerialOk p) : ∀ f ∈ fieldsOfSerial p, FieldOk f := by
  intro f hf
  obtain ⟨l1, l2, l3, l4, l5⟩ := h.lens
  simp only [fieldsOfSerial, List.mem_append] at hf
  rcases hf with hf | hf | hf | hf | hf | hf | hf | hf
  · exact optLen_ok 2 _ (by decide) l1 f hf
  · exact optF32_ok 4 _ (by decide) h.value f hf
  · exact optLen_ok 8 _ (by decide) l2 f hf
  · exact optLen_ok 11 _ (by decide) l3 f hf
  · exact optInt_ok 12 _ (by decide) f hf
  · exact optLen_ok 14 _ (by decide) l5 f hf
  · exact optLen_ok 15 _ (by decide) l4 f hf
  · exact optInt_ok 16 _ (by decide) f hf

theorem decSerial_optLen2 (acc : PbSerialPoint) (s : Bytes) (hs : utf8Valid s = true) (h0 : acc.type = []) (rest : List Field) :
    decSerialPoint acc (optLen 2 s ++ rest) = decSerialPoint { acc with type := s } rest := by
  unfold optLen
  split
  · rename_i he
    have : s = [] := by simpa using he
    subst this
    simp only [List.nil_append]
    congr 1
    cases acc; simp_all
  · simp [decSerialPoint, str_valid s hs]

theorem decSerial_optF32 (acc : PbSerialPoint) (v : Nat) (h0 : acc.value = 0) (rest : List Field) :
    decSerialPoint acc (optF32 4 v ++ rest) = decSerialPoint { acc with value := v } rest := by
  unfold optF32
  split
  · rename_i he
    subst he
    simp only [List.nil_append]
    congr 1
    cases acc; simp_all
  · simp [decSerialPoint]

theorem decSerial_optLen8 (acc : PbSerialPoint) (s : Bytes) (hs : utf8Valid s = true) (h0 : acc.text = []) (rest : List Field) :
    decSerialPoint acc (optLen 8 s ++ rest) = decSerialPoint { acc with text := s } rest := by
  unfold optLen
  split
  · rename_i he
    have : s = [] := by simpa using he
    subst this
    simp only [List.nil_append]
    congr 1
    cases acc; simp_all
  · simp [decSerialPoint, str_valid s hs]

theorem decSerial_optLen11 (acc : PbSerialPoint) (s : Bytes) (hs : utf8Valid s = true) (h0 : acc.key = []) (rest : List Field) :
    decSerialPoint acc (optLen 11 s ++ rest) = decSerialPoint { acc with key := s } rest := by
  unfold optLen
  split
  · rename_i he
    have : s = [] := by simpa using he
    subst this
    simp only [List.nil_append]
    congr 1
    cases acc; simp_all
  · simp [decSerialPoint, str_valid s hs]

theorem decSerial_optInt12 (acc : PbSerialPoint) (i : Int) (hi : Int32 i) (h0 : acc.tombstone = 0) (rest : List Field) :
    decSerialPoint acc (optInt 12 i ++ rest) = decSerialPoint { acc with tombstone := i } rest := by
  unfold optInt
  split
  · rename_i he
    subst he
    simp only [List.nil_append]
    congr 1
    cases acc; simp_all
  · simp [decSerialPoint, toInt32_ofInt64 i hi]

theorem decSerial_optLen14 (acc : PbSerialPoint) (s : Bytes) (h0 : acc.data = []) (rest : List Field) :
    decSerialPoint acc (optLen 14 s ++ rest) = decSerialPoint { acc with data := s } rest := by
  unfold optLen
  split
  · rename_i he
    have : s = [] := by simpa using he
    subst this
    simp only [List.nil_append]
    congr 1
    cases acc; simp_all
  · simp [decSerialPoint]

theorem decSerial_optLen15 (acc : PbSerialPoint) (s : Bytes) (hs : utf8Valid s = true) (h0 : acc.origin = []) (rest : List Field) :
    decSerialPoint acc (optLen 15 s ++ rest) = decSerialPoint { acc with origin := s } rest := by
  unfold optLen
  split
  · rename_i he
    have : s = [] := by simpa using he
    subst this
    simp only [List.nil_append]
    congr 1
    cases acc; simp_all
  · simp [decSerialPoint, str_valid s hs]

theorem decSerial_optInt16 (acc : PbSerialPoint) (i : Int) (hi : Int64 i) (h0 : acc.time = 0) :
    decSerialPoint acc (optInt 16 i) = decSerialPoint { acc with time := i } [] := by
  unfold optInt
  split
  · rename_i he
    subst he
    congr 1
    cases acc; simp_all
  · simp [decSerialPoint, toInt64_ofInt64 i hi]

theorem decSerial_fields (p : PbSerialPoint) (h : PbSerialOk p) : decSerialPoint {} (fieldsOfSerial p) = some p := by
  unfold fieldsOfSerial
  rw [decSerial_optLen2 _ _ h.type rfl, decSerial_optF32 _ _ rfl, decSerial_optLen8 _ _ h.text rfl,
    decSerial_optLen11 _ _ h.key rfl, decSerial_optInt12 _ _ h.tomb rfl, decSerial_optLen14 _ _ rfl,
    decSerial_optLen15 _ _ h.origin rfl, decSerial_optInt16 _ _ h.time rfl]
  simp only [decSerialPoint]

/-- **the bytes of a serial point decode to the serial point** -/
theorem serial_bytes (p : PbSerialPoint) (h : PbSerialOk p) : (parse (encSerialPoint p)).bind (decSerialPoint {}) = some p := by
  rw [encSerialPoint_eq, parse_encFields _ (fieldsOfSerial_ok p h)]
  exact decSerial_fields p h

def serialFields (qs : List PbSerialPoint) : List Field := qs.map (fun q => (1, .len (encSerialPoint q)))

theorem encSerialPoints_eq (qs : List PbSerialPoint) : encSerialPoints qs = encFields (serialFields qs) := by
  unfold encSerialPoints
  induction qs with
  | nil => rfl
  | cons q qs ih =>
    show encLen 1 (encSerialPoint q) ++ qs.flatMap (fun p => encLen 1 (encSerialPoint p)) =
      encField (1, .len (encSerialPoint q)) ++ encFields (serialFields qs)
    rw [ih]; rfl

theorem decSerialPoints_fields (qs : List PbSerialPoint) (h : ∀ q ∈ qs, PbSerialOk q) (acc : List PbSerialPoint) :
    decSerialPoints acc (serialFields qs) = some (acc ++ qs) := by
  induction qs generalizing acc with
  | nil => simp [serialFields, decSerialPoints]
  | cons q qs ih =>
    have hq := serial_bytes q (h q (by simp))
    have := ih (fun x hx => h x (by simp [hx])) (acc ++ [q])
    simp only [serialFields] at this
    simp only [serialFields, List.map_cons, decSerialPoints, hq, Option.bind_some, this, List.append_assoc,
      List.cons_append, List.nil_append]

/-- **the bytes of a `SerialPoints` message decode to the serial points** (each point's encoding below 2^64 bytes) -/
theorem serial_points_bytes (qs : List PbSerialPoint)
    (h : ∀ q ∈ qs, PbSerialOk q ∧ (encSerialPoint q).length < 18446744073709551616) :
    (parse (encSerialPoints qs)).bind (decSerialPoints []) = some qs := by
  rw [encSerialPoints_eq, parse_encFields _ (by
    intro f hf
    simp only [serialFields, List.mem_map] at hf
    obtain ⟨q, hq, rfl⟩ := hf
    exact ⟨by decide, by decide, (h q hq).2⟩)]
  simp only [Option.bind_some]
  rw [decSerialPoints_fields qs (fun q hq => (h q hq).1) []]
  simp

end Siot.Pb
