import Siot.Lemmas.StoreBridge
namespace Siot.Store
open Siot

/-! ### identities and the merge loop -/

/-- no two rows of one owner share an identity -/
def IdUnique (l : List Point) : Prop := l.Pairwise (fun a b => sameId a b = false)

theorem beq_symm_bytes (x y : Bytes) : (x == y) = (y == x) := by
  by_cases h : x = y
  · subst h; rfl
  · have h2 : ¬ y = x := fun h' => h h'.symm
    have e1 : (x == y) = false := beq_false_of_ne h
    have e2 : (y == x) = false := beq_false_of_ne h2
    rw [e1, e2]

theorem sameId_symm (a b : Point) : sameId a b = sameId b a := by
  unfold sameId
  rw [beq_symm_bytes a.type b.type, beq_symm_bytes a.key b.key]

theorem xs_append_single (l : List Nat) (a : Nat) : xs (l ++ [a]) = xs l ^^^ a := by
  induction l with
  | nil => simp [xs]
  | cons x l ih => simp only [List.cons_append, xs_cons, ih]; ac_rfl

theorem sameId_trans (a b c : Point) (h1 : sameId a b = true) (h2 : sameId b c = true) : sameId a c = true := by
  unfold sameId at *
  simp only [Bool.and_eq_true, beq_iff_eq] at *
  exact ⟨h1.1.trans h2.1, h1.2.trans h2.2⟩

theorem sameId_refl (a : Point) : sameId a a = true := by simp [sameId]

/-- replacing the unique row of an identity changes the xor by old ^ new -/
theorem xs_replace (db : List Point) (p old : Point) (hu : IdUnique db) (hold : old ∈ db) (hs : sameId p old = true) :
    xs ((db.map (fun q => if sameId p q then p else q)).map pcrc) = xs (db.map pcrc) ^^^ pcrc old ^^^ pcrc p := by
  induction db with
  | nil => cases hold
  | cons x db ih =>
    simp only [IdUnique, List.pairwise_cons] at hu
    simp only [List.map_cons, xs_cons]
    simp only [List.mem_cons] at hold
    rcases hold with rfl | hold
    · -- old is the head; nothing else in db matches p
      simp only [hs, if_true]
      have hrest : db.map (fun q => if sameId p q then p else q) = db := by
        conv => rhs; rw [← List.map_id db]
        apply List.map_congr_left
        intro q hq
        have : sameId old q = false := hu.1 q hq
        have : sameId p q = false := by
          cases h : sameId p q with
          | false => rfl
          | true =>
            have := sameId_trans old p q (by rw [sameId_symm]; exact hs) h
            simp_all
        simp [this]
      rw [hrest]
      generalize pcrc p = a; generalize pcrc old = b; generalize xs (List.map pcrc db) = c
      have : b ^^^ c ^^^ b ^^^ a = b ^^^ (b ^^^ (a ^^^ c)) := by ac_rfl
      rw [this, xcancel]
    · have hx : sameId p x = false := by
        cases h : sameId p x with
        | false => rfl
        | true =>
          have h1 : sameId x old = true := sameId_trans x p old (by rw [sameId_symm]; exact h) hs
          have := hu.1 old hold
          simp_all
      simp only [hx, Bool.false_eq_true, if_false]
      rw [ih hu.2 hold]
      ac_rfl

theorem find_sameId (db : List Point) (p old : Point) (h : db.find? (sameId p) = some old) :
    old ∈ db ∧ sameId p old = true := ⟨List.mem_of_find?_eq_some h, List.find?_some h⟩

theorem idUnique_replace (db : List Point) (p : Point) (hu : IdUnique db) :
    IdUnique (db.map (fun q => if sameId p q then p else q)) := by
  unfold IdUnique at *
  rw [List.pairwise_map]
  apply hu.imp
  intro a b hab
  by_cases ha : sameId p a = true <;> by_cases hb : sameId p b = true
  · -- both match p: then a and b share an identity, contradiction
    have := sameId_trans a p b (by rw [sameId_symm]; exact ha) hb
    simp_all
  · simp only [ha, if_true, hb]
    cases h : sameId p b with
    | false => simp [h]
    | true => exact absurd h hb
  · simp only [hb, if_true, ha]
    cases h : sameId a p with
    | false => simp [h]
    | true => rw [sameId_symm] at h; exact absurd h ha
  · simp only [ha, hb]; simpa using hab

theorem idUnique_append (db : List Point) (p : Point) (hu : IdUnique db) (hn : db.find? (sameId p) = none) :
    IdUnique (db ++ [p]) := by
  unfold IdUnique at *
  rw [List.pairwise_append]
  refine ⟨hu, by simp, ?_⟩
  intro a ha b hb
  simp only [List.mem_singleton] at hb
  subst hb
  rw [List.find?_eq_none] at hn
  have := hn a ha
  rw [sameId_symm]
  simpa using this

/-- **the merge loop**: keeps identities unique and reports exactly the change of the xor of CRCs -/
theorem mergeBatch_spec : ∀ (batch db : List Point), IdUnique db →
    IdUnique (mergeBatch db batch).1 ∧
    xs ((mergeBatch db batch).1.map pcrc) = xs (db.map pcrc) ^^^ (mergeBatch db batch).2 := by
  intro batch
  induction batch with
  | nil => intro db hu; exact ⟨hu, by simp [mergeBatch]⟩
  | cons p ps ih =>
    intro db hu
    simp only [mergeBatch]
    cases hf : db.find? (sameId p) with
    | some old =>
      simp only []
      obtain ⟨hold, hs⟩ := find_sameId db p old hf
      split
      · obtain ⟨h1, h2⟩ := ih _ (idUnique_replace db p hu)
        refine ⟨h1, ?_⟩
        simp only []
        rw [h2, xs_replace db p old hu hold hs]
        ac_rfl
      · exact ih db hu
    | none =>
      simp only []
      obtain ⟨h1, h2⟩ := ih _ (idUnique_append db p hu hf)
      refine ⟨h1, ?_⟩
      rw [h2]
      simp only [List.map_append, List.map_cons, List.map_nil]
      have : xs (List.map pcrc db ++ [pcrc p]) = xs (List.map pcrc db) ^^^ pcrc p := xs_append_single _ _
      rw [this]; ac_rfl

end Siot.Store
