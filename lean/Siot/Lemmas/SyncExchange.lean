import Siot.Lemmas.Sync
/- C02: the point exchange of `syncExchange`, on the store model itself (lifting `syncPts` results to the two stores) -/
namespace Siot.Sync
open Siot Siot.Store

/-- stored points are normalised (key never empty, no -0.0) and never NaN -/
def StoredRows (rows : List Point) : Prop := ∀ p ∈ rows, normPoint p = p ∧ isNaN p.value = false

theorem tryNP_rows (st : St) (id : Bytes) (p : Point) (hp : isNaN p.value = false) (n : Bytes) :
    ptsOf (tryNP st id [p]) n = if n = id then (mergeBatch (ptsOf st id) (collapse ([p].map normPoint))).1 else ptsOf st n := by
  unfold tryNP
  cases h : nodePoints st id [p] with
  | ok st' => exact c01_nodePoints_rows st st' id [p] h n
  | err e =>
    exfalso
    unfold nodePoints at h
    simp [hp] at h
  | panic e =>
    exfalso
    unfold nodePoints at h
    simp [hp] at h

theorem foldl_tryNP_rows : ∀ (pts : List Point) (st : St) (id : Bytes), (∀ p ∈ pts, isNaN p.value = false) → ∀ n,
    ptsOf (pts.foldl (fun a p => tryNP a id [p]) st) n =
      if n = id then rowsAfter (ptsOf st id) (pts.map (fun q => [q])) else ptsOf st n := by
  intro pts
  induction pts with
  | nil => intro st id _ n; by_cases h : n = id <;> simp [rowsAfter, h]
  | cons p ps ih =>
    intro st id hn n
    simp only [List.foldl_cons, List.map_cons]
    rw [ih (tryNP st id [p]) id (fun q hq => hn q (by simp [hq])) n]
    have h1 := tryNP_rows st id p (hn p (by simp))
    by_cases h : n = id
    · subst h
      simp only [if_true]
      rw [h1 n]
      simp only [if_true, rowsAfter]
    · simp only [h, if_false]
      rw [h1 n]
      simp [h]

theorem edgePointsCore_nodePts (st st' : St) (node u : Bytes) (pts : List Point) (h : edgePointsCore st node u pts = .ok st') :
    st'.nodePts = st.nodePts := by
  unfold edgePointsCore at h
  simp only [] at h
  cases hfind : st.edges.find? (fun e => e.up == u && e.down == node) with
  | some e =>
    simp only [hfind] at h
    injection h with h
    rw [← h]; rfl
  | none =>
    simp only [hfind] at h
    split at h
    · cases h
    · split at h
      · cases h
      · injection h with h
        rw [← h]; rfl

theorem tryEP_nodePts (st : St) (id parent : Bytes) (pts : List Point) : (tryEP st id parent pts).nodePts = st.nodePts := by
  unfold tryEP
  cases h : edgePoints st id parent pts with
  | ok st' =>
    simp only []
    unfold edgePoints at h
    split at h
    · cases h
    · split at h
      · cases h
      · split at h
        · cases h
        · exact edgePointsCore_nodePts st st' id _ pts h
  | err e => rfl
  | panic e => rfl

theorem foldl_tryEP_ptsOf : ∀ (pts : List Point) (st : St) (id parent : Bytes) (n : Bytes),
    ptsOf (pts.foldl (fun a p => tryEP a id parent [p]) st) n = ptsOf st n := by
  intro pts
  induction pts with
  | nil => intro st id parent n; rfl
  | cons p ps ih =>
    intro st id parent n
    simp only [List.foldl_cons]
    rw [ih]
    unfold ptsOf
    rw [tryEP_nodePts]

/-- the node rows of the two stores after `syncExchange` -/
theorem syncExchange_node_rows (s : Pair) (nl nu : NE) (hid : nu.id = nl.id)
    (hl : nl.pts = ptsOf s.a nl.id) (hu : nu.pts = ptsOf s.b nl.id)
    (hsl : StoredRows (ptsOf s.a nl.id)) (hsu : StoredRows (ptsOf s.b nl.id)) :
    ptsOf (syncExchange s nl nu).a nl.id =
      rowsAfter (ptsOf s.a nl.id) ((syncPts (ptsOf s.a nl.id) (ptsOf s.b nl.id)).2.map (fun q => [q])) ∧
    ptsOf (syncExchange s nl nu).b nl.id =
      rowsAfter (ptsOf s.b nl.id) ((syncPts (ptsOf s.a nl.id) (ptsOf s.b nl.id)).1.map (fun q => [q])) := by
  unfold syncExchange
  simp only []
  rw [foldl_tryEP_ptsOf, foldl_tryEP_ptsOf, hid, hl, hu]
  have hdownNaN : ∀ p ∈ (syncPts (ptsOf s.a nl.id) (ptsOf s.b nl.id)).2, isNaN p.value = false := by
    intro p hp
    unfold syncPts at hp
    simp only [List.mem_append, List.mem_filterMap, List.mem_filter] at hp
    rcases hp with ⟨l, _, hq⟩ | ⟨hq, _⟩
    · cases hf : (ptsOf s.b nl.id).find? (fun q => q.type == l.type && q.key == l.key) with
      | none => simp [hf] at hq
      | some u =>
        simp only [hf] at hq
        split at hq
        · injection hq with hq
          rw [← hq]
          exact (hsu u (List.mem_of_find?_eq_some hf)).2
        · cases hq
    · exact (hsu p hq).2
  have hupNaN : ∀ p ∈ (syncPts (ptsOf s.a nl.id) (ptsOf s.b nl.id)).1, isNaN p.value = false := by
    intro p hp
    unfold syncPts at hp
    simp only [List.mem_filter] at hp
    exact (hsl p hp.1).2
  constructor
  · rw [foldl_tryNP_rows _ s.a nl.id hdownNaN nl.id]
    simp
  · rw [foldl_tryNP_rows _ s.b nl.id hupNaN nl.id]
    simp

end Siot.Sync

namespace Siot.Sync
open Siot Siot.Store

/-! ### the same for the edge points of an edge that exists -/

theorem collapse_single (q : Point) : collapse [q] = [q] := rfl

theorem tryEP_rows (st : St) (id parent : Bytes) (p : Point) (hp : parent ≠ []) (hne : id ≠ parent) (hr : id ≠ st.root)
    (hnan : isNaN p.value = false) (hty : p.type ≠ nodeTypeT)
    (hex : ∃ e ∈ st.edges, e.up = parent ∧ e.down = id) (u d : Bytes) :
    eptsOf (tryEP st id parent [p]) u d =
      if (u, d) = (parent, id) then (mergeBatch (eptsOf st parent id) (collapse ([p].map normPoint))).1 else eptsOf st u d := by
  obtain ⟨e, he, heu, hed⟩ := hex
  have hpe : parent.isEmpty = false := by
    cases parent with
    | nil => exact absurd rfl hp
    | cons _ _ => rfl
  have hfind : ∃ e0, st.edges.find? (fun e => e.up == parent && e.down == id) = some e0 := by
    cases hf : st.edges.find? (fun e => e.up == parent && e.down == id) with
    | some e0 => exact ⟨e0, rfl⟩
    | none =>
      exfalso
      have := List.find?_eq_none.mp hf e he
      simp [heu, hed] at this
  obtain ⟨e0, hf⟩ := hfind
  have hq : ((normPoint p).type != nodeTypeT) = true := by
    have : (normPoint p).type = p.type := rfl
    rw [this]; simpa using hty
  unfold tryEP edgePoints
  rw [if_neg hne, if_neg (fun h => hr h.1)]
  have hn : ([p].any (fun p => isNaN p.value)) = false := by simp [hnan]
  rw [if_neg (by rw [hn]; simp)]
  simp only [hpe, Bool.false_eq_true, if_false]
  unfold edgePointsCore
  simp only [List.map_cons, List.map_nil, collapse_single, List.filter_cons, hq, if_true, List.filter_nil, hf]
  unfold edgeWrite eptsOf
  simp only []
  exact eptsOf_write st (parent, id) _ (u, d)

theorem tryEP_frame_np (st : St) (id parent : Bytes) (pts : List Point) : (tryEP st id parent pts).nodePts = st.nodePts :=
  tryEP_nodePts st id parent pts

end Siot.Sync
