import Siot.Lemmas.Crc16
/-
The multiplicative order of x modulo the KERMIT polynomial is 32767: shifting the LFSR state
`poly` (the state after a single one-bit) by d zero bits does not return to `poly` for 0 < d < 32767.
Decided by kernel evaluation (`decide +kernel`) of a complete 32766-step loop, organised as
127 × 258 steps to keep the recursion shallow. No native_decide.
-/
namespace Siot.Crc16

def iterA (n : Nat) (s : Nat) : Nat := run s (List.replicate n false)

theorem iterA_succ (n s : Nat) : iterA (n + 1) s = iterA n (step s false) := by
  simp [iterA, List.replicate_succ, run]

theorem iterA_add (m n s : Nat) : iterA (m + n) s = iterA n (iterA m s) := by
  simp only [iterA, ← run_append, List.replicate_append_replicate]

def inner : Nat → Nat → Option Nat
  | 0, s => some s
  | k + 1, s => if step s false = poly then none else inner k (step s false)

def outer : Nat → Nat → Bool
  | 0, _ => true
  | j + 1, s => match inner 258 s with
    | none => false
    | some s' => outer j s'

theorem inner_spec : ∀ (k s s' : Nat), inner k s = some s' →
    s' = iterA k s ∧ ∀ i, 1 ≤ i → i ≤ k → iterA i s ≠ poly := by
  intro k
  induction k with
  | zero => intro s s' h; simp [inner] at h; subst h; exact ⟨rfl, by intro i h1 h2; omega⟩
  | succ k ih =>
    intro s s' h
    simp only [inner] at h
    split at h
    · cases h
    · rename_i hne
      obtain ⟨h1, h2⟩ := ih _ _ h
      refine ⟨by rw [iterA_succ]; exact h1, ?_⟩
      intro i hi1 hi2
      cases i with
      | zero => omega
      | succ i =>
        rw [iterA_succ]
        cases i with
        | zero => simpa [iterA, run] using hne
        | succ i => exact h2 (i + 1) (by omega) (by omega)

theorem outer_spec : ∀ (j s : Nat), outer j s = true → ∀ i, 1 ≤ i → i ≤ j * 258 → iterA i s ≠ poly := by
  intro j
  induction j with
  | zero => intro s _ i h1 h2; omega
  | succ j ih =>
    intro s h i h1 h2
    simp only [outer] at h
    cases hin : inner 258 s with
    | none => rw [hin] at h; cases h
    | some s' =>
      rw [hin] at h
      obtain ⟨hs', hlt⟩ := inner_spec 258 s s' hin
      by_cases hi : i ≤ 258
      · exact hlt i h1 hi
      · have : i = 258 + (i - 258) := by omega
        rw [this, iterA_add, ← hs']
        exact ih s' h (i - 258) (by omega) (by omega)

theorem order_table : outer 127 poly = true := by decide +kernel

/-- **T2.** x^d ≢ 1 for 0 < d < 32767 -/
theorem iterA_poly_ne (d : Nat) (h1 : 1 ≤ d) (h2 : d < 32767) : iterA d poly ≠ poly :=
  outer_spec 127 poly order_table d h1 (by omega)

end Siot.Crc16
