import Siot.Lemmas.StoreSteps
namespace Siot.Store
open Siot

/-- `x` can be reached from `n` by walking upstream (through any edges) -/
inductive Reach (ks : List EK) : Bytes → Bytes → Prop
  | refl (n : Bytes) : Reach ks n n
  | step (n x : Bytes) (k : EK) : k ∈ ks → k.2 = n → Reach ks k.1 x → Reach ks n x

theorem ancestors_sound (es : List Edge) : ∀ (fuel : Nat) (n x : Bytes),
    x ∈ ancestors fuel es n → Reach (keysOf es) n x := by
  intro fuel
  induction fuel with
  | zero => intro n x h; simp only [ancestors, List.mem_singleton] at h; subst h; exact .refl _
  | succ fuel ih =>
    intro n x h
    simp only [ancestors, List.mem_cons, List.mem_flatMap, List.mem_filter, beq_iff_eq] at h
    rcases h with rfl | ⟨e, ⟨he, hd⟩, hx⟩
    · exact .refl _
    · exact .step n x (keyOf e) (List.mem_map_of_mem (f := keyOf) he) hd (ih e.up x hx)

theorem ancestors_complete (es : List Edge) (r : Bytes → Nat) (hr : ∀ k ∈ keysOf es, r k.1 < r k.2) :
    ∀ (fuel : Nat) (n x : Bytes), r n < fuel → Reach (keysOf es) n x → x ∈ ancestors fuel es n := by
  intro fuel
  induction fuel with
  | zero => intro n x h; omega
  | succ fuel ih =>
    intro n x hlt hreach
    simp only [ancestors, List.mem_cons, List.mem_flatMap, List.mem_filter, beq_iff_eq]
    cases hreach with
    | refl => exact Or.inl rfl
    | step _ _ k hk hkn hrest =>
      right
      simp only [keysOf, List.mem_map] at hk
      obtain ⟨e, he, hek⟩ := hk
      have hup : e.up = k.1 := by rw [← hek]; rfl
      have hdown : e.down = n := by rw [← hkn, ← hek]; rfl
      refine ⟨e, ⟨he, hdown⟩, ?_⟩
      rw [hup]
      apply ih k.1 x _ hrest
      have := hr k (by rw [← hek]; exact List.mem_map_of_mem (f := keyOf) he)
      rw [hkn] at this
      omega

/-- **Acyclicity survives a checked insertion.** If the new edge (parent → node) passes the
ancestor check — `node` is not found walking upstream from `parent` — then the extended graph still
has a rank function, bounded by the fuel the model uses for one more edge. -/
theorem ranked_insert (es : List Edge) (r : Bytes → Nat) (hr : ∀ k ∈ keysOf es, r k.1 < r k.2)
    (hb : ∀ x, r x < 2 ^ es.length) (parent node : Bytes)
    (hchk : (ancestors (2 ^ es.length) es parent).contains node = false) :
    ∃ r' : Bytes → Nat, (∀ k ∈ keysOf es ++ [(parent, node)], r' k.1 < r' k.2) ∧ ∀ x, r' x < 2 ^ (es.length + 1) := by
  let A : Bytes → Bool := fun x => (ancestors (2 ^ es.length) es x).contains node
  refine ⟨fun x => if A x then r x + r parent + 1 else r x, ?_, ?_⟩
  · intro k hk
    simp only [List.mem_append, List.mem_singleton] at hk
    rcases hk with hk | rfl
    · have hlt := hr k hk
      simp only []
      by_cases ha : A k.1 = true
      · -- node is an ancestor of the upper end, hence of the lower end as well
        have hreach := ancestors_sound es _ k.1 node (by simpa [A] using ha)
        have hb2 : A k.2 = true := by
          simp only [A, List.contains_iff_mem] at *
          exact ancestors_complete es r hr _ k.2 node (hb k.2) (.step k.2 node k hk rfl hreach)
        simp only [ha, hb2, if_true]; omega
      · simp only [ha, Bool.false_eq_true, if_false]
        split <;> omega
    · have hn : A node = true := by
        simp only [A, List.contains_iff_mem]
        exact ancestors_complete es r hr _ node node (hb node) (.refl _)
      have hp : A parent = false := hchk
      simp only [hn, hp, if_true, Bool.false_eq_true, if_false]
      omega
  · intro x
    have h1 := hb x
    have h2 := hb parent
    simp only []
    rw [Nat.pow_succ]
    split <;> omega

end Siot.Store
