import Siot.Lemmas.StoreInv
/- last-write-wins: what the merge loop and Collapse compute, as a specification over the set of
   delivered points (property C01) -/
namespace Siot.Store
open Siot

/-- `p` is the newest delivered point of its identity -/
def Newest (ds : List Point) (p : Point) : Prop := p ∈ ds ∧ ∀ q ∈ ds, sameId q p = true → q.time ≤ p.time

/-- two different delivered points of one identity never share a timestamp -/
def Admissible (ds : List Point) : Prop :=
  ∀ p ∈ ds, ∀ q ∈ ds, sameId p q = true → p.time = q.time → p = q

/-- the rows of one owner are the last-write-wins summary of the deliveries `ds` -/
structure LWW (rows ds : List Point) : Prop where
  uniq : IdUnique rows
  newest : ∀ p ∈ rows, Newest ds p
  cover : ∀ d ∈ ds, ∃ p ∈ rows, sameId p d = true

theorem idUnique_eq (l : List Point) (hu : IdUnique l) (x y : Point) (hx : x ∈ l) (hy : y ∈ l)
    (hs : sameId x y = true) : x = y := by
  induction l with
  | nil => cases hx
  | cons a l ih =>
    unfold IdUnique at hu
    rw [List.pairwise_cons] at hu
    simp only [List.mem_cons] at hx hy
    rcases hx with rfl | hx <;> rcases hy with rfl | hy
    · rfl
    · have := hu.1 y hy; rw [hs] at this; cases this
    · have := hu.1 x hx; rw [sameId_symm, hs] at this; cases this
    · exact ih hu.2 hx hy

theorem find_none_no_same (db : List Point) (p : Point) (h : db.find? (sameId p) = none) : ∀ q ∈ db, sameId p q = false := by
  rw [List.find?_eq_none] at h
  intro q hq
  simpa using h q hq

theorem mem_replace (db : List Point) (p x : Point) (hx : x ∈ db.map (fun q => if sameId p q then p else q)) :
    x = p ∨ (x ∈ db ∧ sameId p x = false) := by
  simp only [List.mem_map] at hx
  obtain ⟨q, hq, rfl⟩ := hx
  by_cases h : sameId p q = true
  · left; simp [h]
  · right
    have : sameId p q = false := by simpa using h
    simp [this, hq]

/-- one delivery through the merge loop keeps the rows the last-write-wins summary -/
theorem lww_step (rows ds : List Point) (p : Point) (h : LWW rows ds) :
    LWW (match rows.find? (sameId p) with
      | some old => if old.time ≤ p.time then rows.map (fun q => if sameId p q then p else q) else rows
      | none => rows ++ [p]) (ds ++ [p]) := by
  cases hf : rows.find? (sameId p) with
  | some old =>
    obtain ⟨hold, hs⟩ := find_sameId rows p old hf
    have holdN := h.newest old hold
    simp only []
    split
    · rename_i hle
      refine ⟨idUnique_replace rows p h.uniq, ?_, ?_⟩
      · intro x hx
        rcases mem_replace rows p x hx with rfl | ⟨hxr, hxs⟩
        · refine ⟨by simp, ?_⟩
          intro q hq hqs
          simp only [List.mem_append, List.mem_singleton] at hq
          rcases hq with hq | rfl
          · have := holdN.2 q hq (sameId_trans q x old hqs hs)
            omega
          · exact Int.le_refl _
        · have hxN := h.newest x hxr
          refine ⟨by simp [hxN.1], ?_⟩
          intro q hq hqs
          simp only [List.mem_append, List.mem_singleton] at hq
          rcases hq with hq | rfl
          · exact hxN.2 q hq hqs
          · rw [hqs] at hxs; cases hxs
      · intro d hd
        simp only [List.mem_append, List.mem_singleton] at hd
        rcases hd with hd | rfl
        · obtain ⟨r, hr, hrs⟩ := h.cover d hd
          by_cases hpr : sameId p r = true
          · exact ⟨p, by simp only [List.mem_map]; exact ⟨r, hr, by simp [hpr]⟩, sameId_trans p r d hpr hrs⟩
          · have : sameId p r = false := by simpa using hpr
            exact ⟨r, by simp only [List.mem_map]; exact ⟨r, hr, by simp [this]⟩, hrs⟩
        · exact ⟨d, by simp only [List.mem_map]; exact ⟨old, hold, by simp [hs]⟩, sameId_refl d⟩
    · rename_i hgt
      refine ⟨h.uniq, ?_, ?_⟩
      · intro x hx
        have hxN := h.newest x hx
        refine ⟨by simp [hxN.1], ?_⟩
        intro q hq hqs
        simp only [List.mem_append, List.mem_singleton] at hq
        rcases hq with hq | rfl
        · exact hxN.2 q hq hqs
        · -- q = p has the identity of x, hence of old; rows are identity-unique, so x = old
          have hxo : sameId x old = true := sameId_trans x q old (by rw [sameId_symm]; exact hqs) hs
          have : x = old := idUnique_eq rows h.uniq x old hx hold hxo
          subst this
          omega
      · intro d hd
        simp only [List.mem_append, List.mem_singleton] at hd
        rcases hd with hd | rfl
        · exact h.cover d hd
        · exact ⟨old, hold, by rw [sameId_symm]; exact hs⟩
  | none =>
    have hno := find_none_no_same rows p hf
    simp only []
    refine ⟨idUnique_append rows p h.uniq hf, ?_, ?_⟩
    · intro x hx
      simp only [List.mem_append, List.mem_singleton] at hx
      rcases hx with hx | rfl
      · have hxN := h.newest x hx
        refine ⟨by simp [hxN.1], ?_⟩
        intro q hq hqs
        simp only [List.mem_append, List.mem_singleton] at hq
        rcases hq with hq | rfl
        · exact hxN.2 q hq hqs
        · have := hno x hx; rw [hqs] at this; cases this
      · refine ⟨by simp, ?_⟩
        intro q hq hqs
        simp only [List.mem_append, List.mem_singleton] at hq
        rcases hq with hq | rfl
        · obtain ⟨r, hr, hrs⟩ := h.cover q hq
          have := hno r hr
          have h2 : sameId x r = true := by
            rw [sameId_symm]; exact sameId_trans r q x hrs hqs
          rw [h2] at this; cases this
        · exact Int.le_refl _
    · intro d hd
      simp only [List.mem_append, List.mem_singleton] at hd
      rcases hd with hd | rfl
      · obtain ⟨r, hr, hrs⟩ := h.cover d hd
        exact ⟨r, by simp [hr], hrs⟩
      · exact ⟨d, by simp, sameId_refl d⟩

end Siot.Store

namespace Siot.Store
open Siot

theorem mergeBatch_cons (db : List Point) (p : Point) (ps : List Point) :
    (mergeBatch db (p :: ps)).1 = (mergeBatch (match db.find? (sameId p) with
      | some old => if old.time ≤ p.time then db.map (fun q => if sameId p q then p else q) else db
      | none => db ++ [p]) ps).1 := by
  simp only [mergeBatch]
  cases db.find? (sameId p) with
  | some old => simp only []; split <;> rfl
  | none => rfl

/-- the merge loop over a whole batch keeps the rows the last-write-wins summary -/
theorem mergeBatch_lww : ∀ (batch rows ds : List Point), LWW rows ds → LWW (mergeBatch rows batch).1 (ds ++ batch) := by
  intro batch
  induction batch with
  | nil => intro rows ds h; simpa [mergeBatch] using h
  | cons p ps ih =>
    intro rows ds h
    rw [mergeBatch_cons]
    have := ih _ (ds ++ [p]) (lww_step rows ds p h)
    simpa using this

/-- `Collapse` keeps, per identity, a newest point of the batch -/
theorem collapse_spec : ∀ (b : List Point),
    IdUnique (collapse b) ∧ (∀ p ∈ collapse b, p ∈ b) ∧
    (∀ x ∈ b, ∃ c ∈ collapse b, sameId c x = true ∧ x.time ≤ c.time) := by
  intro b
  induction b with
  | nil => exact ⟨by simp [collapse, IdUnique], by simp [collapse], by simp⟩
  | cons p ps ih =>
    obtain ⟨hu, hm, hc⟩ := ih
    simp only [collapse]
    cases hf : (collapse ps).find? (sameId p) with
    | none =>
      simp only []
      have hno := find_none_no_same _ p hf
      refine ⟨?_, ?_, ?_⟩
      · unfold IdUnique at hu ⊢
        rw [List.pairwise_cons]
        exact ⟨hno, hu⟩
      · intro x hx
        simp only [List.mem_cons] at hx ⊢
        rcases hx with rfl | hx
        · exact Or.inl rfl
        · exact Or.inr (hm x hx)
      · intro x hx
        simp only [List.mem_cons] at hx
        rcases hx with rfl | hx
        · exact ⟨x, by simp, sameId_refl x, Int.le_refl _⟩
        · obtain ⟨c, hc1, hc2, hc3⟩ := hc x hx
          exact ⟨c, by simp [hc1], hc2, hc3⟩
    | some q =>
      obtain ⟨hq, hs⟩ := find_sameId _ p q hf
      simp only []
      split
      · rename_i hlt
        refine ⟨?_, ?_, ?_⟩
        · unfold IdUnique at hu ⊢
          rw [List.pairwise_cons]
          refine ⟨?_, hu.filter _⟩
          intro a ha
          simp only [List.mem_filter, Bool.not_eq_true'] at ha
          exact ha.2
        · intro x hx
          simp only [List.mem_cons, List.mem_filter] at hx ⊢
          rcases hx with rfl | hx
          · exact Or.inl rfl
          · exact Or.inr (hm x hx.1)
        · intro x hx
          simp only [List.mem_cons] at hx
          rcases hx with rfl | hx
          · exact ⟨x, by simp, sameId_refl x, Int.le_refl _⟩
          · obtain ⟨c, hc1, hc2, hc3⟩ := hc x hx
            by_cases hpc : sameId p c = true
            · -- c has p's identity, so c = q, which is older than p
              have : c = q := idUnique_eq _ hu c q hc1 hq (sameId_trans c p q (by rw [sameId_symm]; exact hpc) hs)
              subst this
              exact ⟨p, by simp, sameId_trans p c x hpc hc2, by omega⟩
            · have : sameId p c = false := by simpa using hpc
              exact ⟨c, by simp [hc1, this], hc2, hc3⟩
      · rename_i hge
        refine ⟨hu, ?_, ?_⟩
        · intro x hx; exact List.mem_cons_of_mem _ (hm x hx)
        · intro x hx
          simp only [List.mem_cons] at hx
          rcases hx with rfl | hx
          · exact ⟨q, hq, by rw [sameId_symm]; exact hs, by omega⟩
          · exact hc x hx

/-- the summary of `A ++ collapse b` is the summary of `A ++ b` -/
theorem lww_uncollapse (rows A b : List Point) (h : LWW rows (A ++ collapse b)) : LWW rows (A ++ b) := by
  obtain ⟨_, hm, hc⟩ := collapse_spec b
  refine ⟨h.uniq, ?_, ?_⟩
  · intro p hp
    obtain ⟨hp1, hp2⟩ := h.newest p hp
    refine ⟨?_, ?_⟩
    · simp only [List.mem_append] at hp1 ⊢
      rcases hp1 with h1 | h1
      · exact Or.inl h1
      · exact Or.inr (hm p h1)
    · intro q hq hqs
      simp only [List.mem_append] at hq
      rcases hq with hq | hq
      · exact hp2 q (by simp [hq]) hqs
      · obtain ⟨c, hc1, hc2, hc3⟩ := hc q hq
        have := hp2 c (by simp [hc1]) (sameId_trans c q p hc2 hqs)
        omega
  · intro d hd
    simp only [List.mem_append] at hd
    rcases hd with hd | hd
    · exact h.cover d (by simp [hd])
    · obtain ⟨c, hc1, hc2, _⟩ := hc d hd
      obtain ⟨r, hr, hrs⟩ := h.cover c (by simp [hc1])
      exact ⟨r, hr, sameId_trans r c d hrs hc2⟩

/-- the rows of one owner after a list of batches (as `nodePoints` / `edgePoints` process them) -/
def rowsAfter (rows : List Point) : List (List Point) → List Point
  | [] => rows
  | b :: bs => rowsAfter (mergeBatch rows (collapse (b.map normPoint))).1 bs

/-- everything delivered, normalised as the store normalises it -/
def delivered (bs : List (List Point)) : List Point := (bs.flatten).map normPoint

theorem rowsAfter_lww : ∀ (bs : List (List Point)) (rows ds : List Point), LWW rows ds →
    LWW (rowsAfter rows bs) (ds ++ delivered bs) := by
  intro bs
  induction bs with
  | nil => intro rows ds h; simpa [rowsAfter, delivered] using h
  | cons b bs ih =>
    intro rows ds h
    have h1 := mergeBatch_lww (collapse (b.map normPoint)) rows ds h
    have h2 := lww_uncollapse _ ds (b.map normPoint) h1
    have := ih _ (ds ++ b.map normPoint) h2
    simpa [rowsAfter, delivered, List.append_assoc] using this

end Siot.Store
