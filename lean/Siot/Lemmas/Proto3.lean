import Siot.Model.Proto3
/- byte-level lemmas for the proto3 wire model: varints, fixed-width values, and parsing back what the
   canonical encoder wrote -/
namespace Siot.Proto3
open Siot

theorem u8_toNat_ofNat (n : Nat) (h : n < 256) : (UInt8.ofNat n).toNat = n := by
  simp [UInt8.toNat_ofNat, Nat.mod_eq_of_lt h]

/-- decoding what `encodeVarint` wrote, with `k` bytes of budget left: fine as long as `v < 2·128^(k-1)` -/
theorem varintAux_encode : ∀ (k : Nat) (v shift acc : Nat) (rest : Bytes), 0 < k → v < 2 * 128 ^ (k - 1) →
    varintAux k shift acc (encodeVarint v ++ rest) = some (acc + v * 2 ^ shift, rest) := by
  intro k
  induction k with
  | zero => intro v shift acc rest h; omega
  | succ k ih =>
    intro v shift acc rest _ hv
    rw [encodeVarint]
    by_cases hlt : v < 128
    · simp only [hlt, dite_true, List.cons_append, List.nil_append, varintAux]
      have hb : (UInt8.ofNat v).toNat = v := u8_toNat_ofNat v (by omega)
      rw [hb]
      simp only [hlt, if_true]
      have hk : ¬ (k = 0 ∧ v ≥ 2) := by
        rintro ⟨hk0, hv2⟩
        subst hk0
        simp at hv
        omega
      simp [hk]
    · simp only [hlt, dite_false, List.cons_append, varintAux]
      have hb : (UInt8.ofNat (v % 128 + 128)).toNat = v % 128 + 128 := u8_toNat_ofNat _ (by omega)
      rw [hb]
      have h1 : ¬ (v % 128 + 128 < 128) := by omega
      simp only [h1, if_false]
      have hk0 : k ≠ 0 := by
        intro hk0
        subst hk0
        simp at hv
        omega
      simp only [hk0, if_false]
      have hkpos : 0 < k := Nat.pos_of_ne_zero hk0
      have hdiv : v / 128 < 2 * 128 ^ (k - 1) := by
        have hpow : 128 ^ (k + 1 - 1) = 128 * 128 ^ (k - 1) := by
          have : k + 1 - 1 = (k - 1) + 1 := by omega
          rw [this, Nat.pow_succ, Nat.mul_comm]
        rw [hpow] at hv
        apply Nat.div_lt_of_lt_mul
        rw [Nat.mul_comm 128]
        calc v < 2 * (128 * 128 ^ (k - 1)) := hv
          _ = 2 * 128 ^ (k - 1) * 128 := by rw [Nat.mul_comm 128, Nat.mul_assoc]
      rw [ih (v / 128) (shift + 7) _ rest hkpos hdiv]
      congr 2
      have hsub : v % 128 + 128 - 128 = v % 128 := by omega
      rw [hsub, Nat.pow_add]
      have h128 : (2 : Nat) ^ 7 = 128 := rfl
      rw [h128]
      have e1 : v / 128 * (2 ^ shift * 128) = 128 * (v / 128) * 2 ^ shift := by
        rw [Nat.mul_comm (2 ^ shift) 128, ← Nat.mul_assoc, Nat.mul_comm (v / 128) 128]
      have e2 : (128 * (v / 128) + v % 128) * 2 ^ shift = v * 2 ^ shift := by rw [Nat.div_add_mod]
      rw [e1, ← e2, Nat.add_mul]
      ac_rfl

theorem decodeVarint_encode (v : Nat) (hv : v < 18446744073709551616) (rest : Bytes) :
    decodeVarint (encodeVarint v ++ rest) = some (v, rest) := by
  unfold decodeVarint
  have hb : 2 * 128 ^ (10 - 1) = 18446744073709551616 := rfl
  have := varintAux_encode 10 v 0 0 rest (by decide) (by rw [hb]; exact hv)
  simpa using this

theorem encodeVarint_ne_nil (v : Nat) : encodeVarint v ≠ [] := by
  rw [encodeVarint]
  split <;> simp

theorem takeN_append (x rest : Bytes) : takeN x.length (x ++ rest) = some (x, rest) := by
  unfold takeN
  simp

theorem leBytes_length : ∀ (n v : Nat), (leBytes n v).length = n := by
  intro n
  induction n with
  | zero => intro v; rfl
  | succ n ih => intro v; simp [leBytes, ih]

theorem leNat_leBytes : ∀ (n v : Nat), v < 256 ^ n → leNat (leBytes n v) = v := by
  intro n
  induction n with
  | zero => intro v h; simp at h; subst h; rfl
  | succ n ih =>
    intro v h
    simp only [leBytes, leNat]
    rw [u8_toNat_ofNat _ (Nat.mod_lt _ (by decide))]
    rw [ih (v / 256) (by
      rw [Nat.pow_succ] at h
      exact Nat.div_lt_of_lt_mul (by rw [Nat.mul_comm]; exact h))]
    have := Nat.div_add_mod v 256
    omega

/-! ## fields -/

/-- a field as the canonical encoder writes it -/
def encField : Field → Bytes
  | (num, .varint v) => tag num 0 ++ encodeVarint v
  | (num, .fixed64 v) => tag num 1 ++ leBytes 8 v
  | (num, .len b) => tag num 2 ++ encodeVarint b.length ++ b
  | (num, .fixed32 v) => tag num 5 ++ leBytes 4 v
  | (_, .group) => []

def encFields (fs : List Field) : Bytes := fs.flatMap encField

/-- what the encoders of this code base produce: a field number the parser accepts, values in range -/
def FieldOk : Field → Prop
  | (num, .varint v) => 1 ≤ num ∧ num ≤ 536870911 ∧ v < 18446744073709551616
  | (num, .fixed64 v) => 1 ≤ num ∧ num ≤ 536870911 ∧ v < 18446744073709551616
  | (num, .len b) => 1 ≤ num ∧ num ≤ 536870911 ∧ b.length < 18446744073709551616
  | (num, .fixed32 v) => 1 ≤ num ∧ num ≤ 536870911 ∧ v < 4294967296
  | (_, .group) => False

theorem tag_decode (num wt : Nat) (hn : num ≤ 536870911) (hw : wt < 8) (rest : Bytes) :
    decodeVarint (tag num wt ++ rest) = some (num * 8 + wt, rest) := by
  unfold tag
  exact decodeVarint_encode _ (by omega) rest

theorem parseFields_cons (fuel : Nat) (f : Field) (hf : FieldOk f) (rest : Bytes) :
    parseFields (fuel + 1) (encField f ++ rest) = (parseFields fuel rest).map (fun fs => f :: fs) := by
  obtain ⟨num, v⟩ := f
  cases v with
  | varint v =>
    obtain ⟨h1, h2, h3⟩ := hf
    have hne : encField (num, .varint v) ++ rest ≠ [] := by
      simp [encField, tag, encodeVarint_ne_nil]
    simp only [encField, List.append_assoc]
    cases hb : tag num 0 ++ (encodeVarint v ++ rest) with
    | nil => exfalso; simp [tag, encodeVarint_ne_nil] at hb
    | cons b0 bs =>
      simp only [parseFields]
      rw [← hb, tag_decode num 0 h2 (by decide)]
      simp only []
      have hnum : (num * 8 + 0) / 8 = num := by omega
      have hwt : (num * 8 + 0) % 8 = 0 := by omega
      simp only [hnum, hwt]
      have hr : ¬ (num < 1 ∨ num > 536870911) := by omega
      simp only [hr, if_false, Nat.reduceEqDiff, consumeScalar, decodeVarint_encode v h3]
      rfl
  | fixed64 v =>
    obtain ⟨h1, h2, h3⟩ := hf
    simp only [encField, List.append_assoc]
    cases hb : tag num 1 ++ (leBytes 8 v ++ rest) with
    | nil => exfalso; simp [tag, encodeVarint_ne_nil] at hb
    | cons b0 bs =>
      simp only [parseFields]
      rw [← hb, tag_decode num 1 h2 (by decide)]
      simp only []
      have hnum : (num * 8 + 1) / 8 = num := by omega
      have hwt : (num * 8 + 1) % 8 = 1 := by omega
      simp only [hnum, hwt]
      have hr : ¬ (num < 1 ∨ num > 536870911) := by omega
      have htk : takeN 8 (leBytes 8 v ++ rest) = some (leBytes 8 v, rest) := by
        have := takeN_append (leBytes 8 v) rest
        rw [leBytes_length] at this
        exact this
      simp only [hr, if_false, Nat.reduceEqDiff, consumeScalar, htk, Option.map_some]
      rw [leNat_leBytes 8 v (by rw [show (256 : Nat) ^ 8 = 18446744073709551616 from rfl]; exact h3)]
      try rfl
  | len b =>
    obtain ⟨h1, h2, h3⟩ := hf
    simp only [encField, List.append_assoc]
    cases hb : tag num 2 ++ (encodeVarint b.length ++ (b ++ rest)) with
    | nil => exfalso; simp [tag, encodeVarint_ne_nil] at hb
    | cons b0 bs =>
      simp only [parseFields]
      rw [← hb, tag_decode num 2 h2 (by decide)]
      simp only []
      have hnum : (num * 8 + 2) / 8 = num := by omega
      have hwt : (num * 8 + 2) % 8 = 2 := by omega
      simp only [hnum, hwt]
      have hr : ¬ (num < 1 ∨ num > 536870911) := by omega
      simp only [hr, if_false, Nat.reduceEqDiff, consumeScalar, decodeVarint_encode b.length h3, takeN_append, Option.map_some]
      try rfl
  | fixed32 v =>
    obtain ⟨h1, h2, h3⟩ := hf
    simp only [encField, List.append_assoc]
    cases hb : tag num 5 ++ (leBytes 4 v ++ rest) with
    | nil => exfalso; simp [tag, encodeVarint_ne_nil] at hb
    | cons b0 bs =>
      simp only [parseFields]
      rw [← hb, tag_decode num 5 h2 (by decide)]
      simp only []
      have hnum : (num * 8 + 5) / 8 = num := by omega
      have hwt : (num * 8 + 5) % 8 = 5 := by omega
      simp only [hnum, hwt]
      have hr : ¬ (num < 1 ∨ num > 536870911) := by omega
      have htk : takeN 4 (leBytes 4 v ++ rest) = some (leBytes 4 v, rest) := by
        have := takeN_append (leBytes 4 v) rest
        rw [leBytes_length] at this
        exact this
      simp only [hr, if_false, Nat.reduceEqDiff, consumeScalar, htk, Option.map_some]
      rw [leNat_leBytes 4 v (by rw [show (256 : Nat) ^ 4 = 4294967296 from rfl]; exact h3)]
      try rfl
  | group => exact False.elim hf

theorem parseFields_encFields : ∀ (fs : List Field) (fuel : Nat), (∀ f ∈ fs, FieldOk f) → fs.length ≤ fuel →
    parseFields fuel (encFields fs) = some fs := by
  intro fs
  induction fs with
  | nil => intro fuel _ _; cases fuel <;> rfl
  | cons f fs ih =>
    intro fuel hok hlen
    cases fuel with
    | zero => simp at hlen
    | succ fuel =>
      have : encFields (f :: fs) = encField f ++ encFields fs := by simp [encFields]
      rw [this, parseFields_cons fuel f (hok f (by simp)), ih fuel (fun g hg => hok g (by simp [hg])) (by simpa using hlen)]
      try rfl

theorem tag_length_pos (num wt : Nat) : 0 < (tag num wt).length := by
  unfold tag
  cases h : encodeVarint (num * 8 + wt) with
  | nil => exact absurd h (encodeVarint_ne_nil _)
  | cons a l => simp

theorem encField_length_pos (f : Field) (hf : FieldOk f) : 0 < (encField f).length := by
  obtain ⟨num, v⟩ := f
  cases v with
  | varint v => simp only [encField, List.length_append]; have := tag_length_pos num 0; omega
  | fixed64 v => simp only [encField, List.length_append]; have := tag_length_pos num 1; omega
  | len b => simp only [encField, List.length_append]; have := tag_length_pos num 2; omega
  | fixed32 v => simp only [encField, List.length_append]; have := tag_length_pos num 5; omega
  | group => exact False.elim hf

theorem encFields_length_ge : ∀ (fs : List Field), (∀ f ∈ fs, FieldOk f) → fs.length ≤ (encFields fs).length := by
  intro fs
  induction fs with
  | nil => intro _; simp [encFields]
  | cons f fs ih =>
    intro hok
    have : encFields (f :: fs) = encField f ++ encFields fs := by simp [encFields]
    rw [this, List.length_append, List.length_cons]
    have h1 := encField_length_pos f (hok f (by simp))
    have h2 := ih (fun g hg => hok g (by simp [hg]))
    omega

/-- **parsing what the encoder wrote gives back the fields**, for any list of well-formed fields -/
theorem parse_encFields (fs : List Field) (hok : ∀ f ∈ fs, FieldOk f) : parse (encFields fs) = some fs := by
  unfold parse
  exact parseFields_encFields fs _ hok (by have := encFields_length_ge fs hok; omega)

end Siot.Proto3
