import Siot.Lemmas.ConfigTotal
namespace Siot.Config
open Siot

/-- the laws of IEEE-754 / Go conversions that the round trip relies on (assumed of the real
    conversions, exercised by the correspondence run; every theorem states them as a hypothesis) -/
structure NumLaws (N : Num) : Prop where
  int_rt : ∀ i : Int, -maxSafeInteger ≤ i → i ≤ maxSafeInteger → N.toInt64 (N.ofInt i) = i
  uint_rt : ∀ n : Nat, (n : Int) ≤ maxSafeInteger → N.toUint64 (N.ofInt n) = n ∧ N.isNeg (N.ofInt n) = false
  one : N.isOne (N.ofInt 1) = true
  zero : N.isOne (N.ofInt 0) = false
  f32_rt : ∀ b : Nat, N.narrow (N.widen b) = b

/-- a scalar of kind `k` inside the supported universe: the Go type's range and the safe-integer limit -/
def SOk : SKind → SVal → Prop
  | .bool, .b _ => True
  | .int bits, .i x => fitsInt bits x = true ∧ -maxSafeInteger ≤ x ∧ x ≤ maxSafeInteger
  | .uint bits, .u x => fitsUint bits x = true ∧ (x : Int) ≤ maxSafeInteger
  | .f32, .f _ => True
  | .f64, .f _ => True
  | .str, .s _ => True
  | _, _ => False

theorem tombOdd_zero : tombOdd 0 = false := by decide
theorem tombOdd_one : tombOdd 1 = true := by decide

/-- **scalar round trip**: the point produced for a scalar sets that scalar back -/
theorem keyed_setScalar (N : Num) (hN : NumLaws N) (pt key : Bytes) (k : SKind) (v : SVal) (h : SOk k v) :
    ∃ p, keyed N pt k key v = .ok p ∧ p.type = pt ∧ p.key = key ∧ p.tomb = 0 ∧ setScalar N k p = .ok v := by
  cases k <;> cases v <;> simp only [SOk] at h
  case bool.b x =>
    refine ⟨{ type := pt, key := key, value := N.ofInt (if x then 1 else 0) }, by simp [keyed, pointFromScalar, widenS], rfl, rfl, rfl, ?_⟩
    simp only [setScalar, tombOdd_zero]
    cases x <;> simp [hN.one, hN.zero]
  case int.i bits x =>
    obtain ⟨hf, h1, h2⟩ := h
    refine ⟨{ type := pt, key := key, value := N.ofInt x }, ?_, rfl, rfl, rfl, ?_⟩
    · simp only [keyed, pointFromScalar, widenS]
      rw [if_neg (by omega)]
    · simp only [setScalar, tombOdd_zero, hN.int_rt x h1 h2, hf]; simp
  case uint.u bits x =>
    obtain ⟨hf, h1⟩ := h
    refine ⟨{ type := pt, key := key, value := N.ofInt x }, ?_, rfl, rfl, rfl, ?_⟩
    · simp only [keyed, pointFromScalar, widenS]
      rw [if_neg (by omega)]
    · simp only [setScalar, tombOdd_zero, (hN.uint_rt x h1).1, (hN.uint_rt x h1).2, hf]; simp
  case f32.f b =>
    exact ⟨{ type := pt, key := key, value := N.widen b }, by simp [keyed, pointFromScalar, widenS], rfl, rfl, rfl,
      by simp [setScalar, tombOdd_zero, hN.f32_rt]⟩
  case f64.f b =>
    exact ⟨{ type := pt, key := key, value := b }, by simp [keyed, pointFromScalar, widenS], rfl, rfl, rfl,
      by simp [setScalar, tombOdd_zero]⟩
  case str.s x =>
    exact ⟨{ type := pt, key := key, text := x }, by simp [keyed, pointFromScalar, widenS], rfl, rfl, rfl,
      by simp [setScalar, tombOdd_zero]⟩

/-! ### indexed containers -/

/-- the points of an indexed container starting at index `i`: keys `itoa i, itoa (i+1), …`, live,
    each setting its element back -/
inductive IdxPts (N : Num) (pt : Bytes) (k : SKind) : Nat → List Point → List SVal → Prop
  | nil (i : Nat) : IdxPts N pt k i [] []
  | cons (i : Nat) (p : Point) (ps : List Point) (v : SVal) (vs : List SVal) :
      p.type = pt → p.key = itoa i → p.tomb = 0 → setScalar N k p = .ok v →
      IdxPts N pt k (i + 1) ps vs → IdxPts N pt k i (p :: ps) (v :: vs)

theorem encIdx_spec (N : Num) (hN : NumLaws N) (pt : Bytes) (k : SKind) :
    ∀ (vs : List SVal) (i : Nat), (∀ v ∈ vs, SOk k v) →
      ∃ ps, encIdx N pt k i vs = .ok ps ∧ IdxPts N pt k i ps vs := by
  intro vs
  induction vs with
  | nil => intro i _; exact ⟨[], rfl, .nil i⟩
  | cons v vs ih =>
    intro i h
    obtain ⟨p, hp, ht, hk, htb, hs⟩ := keyed_setScalar N hN pt (itoa i) k v (h v (by simp))
    obtain ⟨ps, hps, hall⟩ := ih (i + 1) (fun x hx => h x (by simp [hx]))
    exact ⟨p :: ps, by simp [encIdx, hp, hps], .cons i p ps v vs ht hk htb hs hall⟩

theorem IdxPts.length_eq {N : Num} {pt : Bytes} {k : SKind} {i : Nat} {ps : List Point} {vs : List SVal}
    (h : IdxPts N pt k i ps vs) : ps.length = vs.length := by
  induction h with
  | nil => rfl
  | cons _ _ _ _ _ _ _ _ _ _ ih => simp [ih]

theorem IdxPts.types {N : Num} {pt : Bytes} {k : SKind} {i : Nat} {ps : List Point} {vs : List SVal}
    (h : IdxPts N pt k i ps vs) : ∀ p ∈ ps, p.type = pt := by
  induction h with
  | nil => intro p hp; cases hp
  | cons _ p _ _ _ ht _ _ _ _ ih =>
    intro q hq
    simp only [List.mem_cons] at hq
    rcases hq with rfl | hq
    · exact ht
    · exact ih q hq

theorem keyIdx_itoa (p : Point) (n : Nat) (hn : n ≤ 1000) (h : p.key = itoa n) : keyIdx p = some (n : Int) := by
  unfold keyIdx
  rw [h, itoa_nonempty]
  simp only [Bool.false_eq_true, if_false]
  exact atoi_itoa n (by omega)

/-- grouping the points of an indexed container: no bad key, the maximum index is the last one -/
theorem group_idx (N : Num) (pt : Bytes) (k : SKind) :
    ∀ (ps : List Point) (vs : List SVal) (i : Nat) (g : Group), IdxPts N pt k i ps vs → i + ps.length ≤ 1001 →
      g.keyNotIndex = [] → g.keyMaxInt = (i : Int) - 1 →
      let g' := ps.foldl groupStep g
      g'.keyNotIndex = [] ∧ g'.keyMaxInt = (i : Int) + ps.length - 1 ∧ g'.points = g.points ++ ps := by
  intro ps
  induction ps with
  | nil =>
    intro vs i g _ _ h1 h2
    simp only [List.foldl_nil, List.length_nil, List.append_nil]
    exact ⟨h1, by omega, trivial⟩
  | cons p ps ih =>
    intro vs i g h hlen h1 h2
    cases h with
    | cons _ _ _ v vs' ht hk htb hs hrest =>
      have hki : keyIdx p = some (i : Int) := keyIdx_itoa p i (by simp at hlen; omega) hk
      have hstep : groupStep g p = { g with keyMaxInt := i, points := g.points ++ [p] } := by
        unfold groupStep
        simp only [hki]
        rw [if_neg (by omega), if_pos ⟨by omega, by rw [htb]; decide⟩]
      simp only [List.foldl_cons, hstep]
      have := ih vs' (i + 1) { g with keyMaxInt := i, points := g.points ++ [p] } hrest
        (by simp at hlen ⊢; omega) h1 (by simp)
      simp only at this
      obtain ⟨a, b, c⟩ := this
      refine ⟨a, ?_, ?_⟩
      · rw [b]; simp; omega
      · rw [c]; simp

/-- the indexed loop writes exactly the encoded elements, in place, and deletes nothing -/
theorem setIndexed_idx (N : Num) (pt : Bytes) (k : SKind) :
    ∀ (ps : List Point) (vs : List SVal) (i : Nat), IdxPts N pt k i ps vs → i + ps.length ≤ 1001 →
      ∀ (pre post : List SVal) (del : List Int), pre.length = i → post.length = vs.length →
        setIndexed N k ps (pre ++ post) del = (pre ++ vs, del, .ok) := by
  intro ps
  induction ps with
  | nil =>
    intro vs i h _ pre post del _ hpost
    cases h
    have : post = [] := List.eq_nil_of_length_eq_zero (by simpa using hpost)
    subst this; rfl
  | cons p ps ih =>
    intro vs i h hlen pre post del hpre hpost
    cases h with
    | cons _ _ _ v vs' ht hk htb hs hrest =>
      cases post with
      | nil => simp at hpost
      | cons x post =>
        have hki : keyIdx p = some (i : Int) := keyIdx_itoa p i (by simp at hlen; omega) hk
        have hidx := indexOf_of_keyIdx p i hki
        simp only [setIndexed, hidx, htb, tombOdd_zero, Bool.false_eq_true, false_and, if_false]
        rw [if_neg (by simp [hpre]; omega)]
        simp only [hs, Int.toNat_natCast]
        have hset : (pre ++ x :: post).set i v = (pre ++ [v]) ++ post := by
          rw [← hpre, List.set_append_right _ _ (by omega)]; simp
        rw [hset]
        have := ih vs' (i + 1) hrest (by simp at hlen ⊢; omega) (pre ++ [v]) post del (by simp [hpre]) (by simpa using hpost)
        rw [this]; simp

theorem sortInts_nil : sortInts [] = [] := rfl

theorem trimLen_nil (n : Nat) : trimLen [] n = n := by
  simp [trimLen, sortInts]

end Siot.Config
