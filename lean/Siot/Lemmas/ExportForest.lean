import Siot.Lemmas.ExportTree
/-
On a store whose non-deleted edges form a forest (no node has two non-deleted parent edges — no mirrors — and there is
no cycle), the file `exportNodesHelper` writes from any non-deleted edge has distinct ids and its top node's parent is
not among them; with `rebuild_export` the file is then the traversal of its own parent-pointer tree.
-/
namespace Siot.Export
open Siot Siot.Store

/-- the non-deleted edges form a forest: acyclic (a rank grows along every edge) and no node below two edges -/
structure Forest (L : List Edge) : Prop where
  rank : ∃ r : Bytes → Nat, ∀ c ∈ L, r c.up < r c.down
  single : L.Pairwise (fun a b => a.down ≠ b.down)

/-- `y` is `a` or below it -/
inductive Desc (L : List Edge) (a : Bytes) : Bytes → Prop
  | refl : Desc L a a
  | step (c : Edge) : c ∈ L → Desc L a c.up → Desc L a c.down

theorem Desc.trans {L : List Edge} {a b y : Bytes} (h1 : Desc L a b) (h2 : Desc L b y) : Desc L a y := by
  induction h2 with
  | refl => exact h1
  | step c hc _ ih => exact Desc.step c hc ih

theorem Desc.rank_le {L : List Edge} (r : Bytes → Nat) (hr : ∀ c ∈ L, r c.up < r c.down) {a y : Bytes} (h : Desc L a y) : r a ≤ r y := by
  induction h with
  | refl => exact Nat.le_refl _
  | step c hc _ ih => exact Nat.le_of_lt (Nat.lt_of_le_of_lt ih (hr c hc))

theorem single_eq : ∀ (L : List Edge), L.Pairwise (fun a b => a.down ≠ b.down) → ∀ a b, a ∈ L → b ∈ L → a.down = b.down → a = b := by
  intro L
  induction L with
  | nil => intro _ a _ ha; cases ha
  | cons x l ih =>
    intro h a b ha hb hd
    rw [List.pairwise_cons] at h
    simp only [List.mem_cons] at ha hb
    rcases ha with rfl | ha <;> rcases hb with rfl | hb
    · rfl
    · exact absurd hd (h.1 b hb)
    · exact absurd hd.symm (h.1 a ha)
    · exact ih h.2 a b ha hb hd

theorem Desc.inv {L : List Edge} {a y : Bytes} (h : Desc L a y) : y = a ∨ ∃ c ∈ L, c.down = y ∧ Desc L a c.up := by
  cases h with
  | refl => exact Or.inl rfl
  | step c hc dc => exact Or.inr ⟨c, hc, rfl, dc⟩

/-- two different children of one node have nothing in common below them -/
theorem Desc.siblings {L : List Edge} (hf : Forest L) (c1 c2 : Edge) (h1 : c1 ∈ L) (h2 : c2 ∈ L) (hup : c1.up = c2.up) (hne : c1 ≠ c2)
    {y : Bytes} (d1 : Desc L c1.down y) : Desc L c2.down y → False := by
  obtain ⟨r, hr⟩ := hf.rank
  have hru := congrArg r hup
  induction d1 with
  | refl =>
    intro d2
    rcases d2.inv with h | ⟨c, hc, hd, dc⟩
    · exact hne (single_eq L hf.single c1 c2 h1 h2 h)
    · have : c = c1 := single_eq L hf.single c c1 hc h1 hd
      subst this
      have := Desc.rank_le r hr dc
      have := hr c2 h2
      omega
  | step c hc dc ih =>
    intro d2
    rcases d2.inv with h | ⟨c', hc', hd, dc'⟩
    · have : c = c2 := single_eq L hf.single c c2 hc h2 h
      subst this
      have := Desc.rank_le r hr dc
      have := hr c1 h1
      omega
    · have : c' = c := single_eq L hf.single c' c hc' hc hd
      subst this
      exact ih dc'

theorem nodup_flatMap' {α β} : ∀ (l : List α) (g : α → List β), (∀ a ∈ l, (g a).Nodup) →
    l.Pairwise (fun a b => ∀ x ∈ g a, ∀ y ∈ g b, x ≠ y) → (l.flatMap g).Nodup := by
  intro l
  induction l with
  | nil => intros; exact List.Pairwise.nil
  | cons a l ih =>
    intro g hn hp
    rw [List.pairwise_cons] at hp
    rw [List.flatMap_cons, List.nodup_append]
    refine ⟨hn a (List.mem_cons_self ..), ih g (fun b hb => hn b (List.mem_cons_of_mem _ hb)) hp.2, ?_⟩
    intro x hx y hy
    simp only [List.mem_flatMap] at hy
    obtain ⟨b, hb, hyb⟩ := hy
    exact hp.1 b hb x hx y hyb

theorem ids_flatMap {α} (l : List α) (g : α → Flat) : ids (l.flatMap g) = l.flatMap (fun a => ids (g a)) := by
  unfold ids
  rw [List.map_flatMap]

variable (isDel : Nat → Bool) (st : St)

/-- everything in an exported subtree is at or below its top node -/
theorem export_desc : ∀ (k d : Nat) (e : Edge), ∀ x ∈ exportFrom isDel st k d e, Desc (Auth.live isDel st) e.down x.2.id := by
  intro k
  induction k with
  | zero => intro d e x hx; simp [exportFrom] at hx
  | succ k ih =>
    intro d e x hx
    simp only [exportFrom, List.mem_cons, List.mem_flatMap, List.mem_filter] at hx
    rcases hx with rfl | ⟨c, ⟨hc, hcu⟩, hxc⟩
    · exact Desc.refl
    · have hcu' : c.up = e.down := by simpa using hcu
      have h1 : Desc (Auth.live isDel st) e.down c.down := Desc.step c hc (hcu' ▸ Desc.refl)
      exact h1.trans (ih (d + 1) c x hxc)

/-- on a forest, the exported file names every node once -/
theorem export_nodup (hf : Forest (Auth.live isDel st)) : ∀ (k d : Nat) (e : Edge), e ∈ Auth.live isDel st →
    (ids (exportFrom isDel st k d e)).Nodup := by
  obtain ⟨r, hr⟩ := hf.rank
  intro k
  induction k with
  | zero => intro d e _; exact List.Pairwise.nil
  | succ k ih =>
    intro d e he
    have hkidsL : ∀ c ∈ (Auth.live isDel st).filter (fun c => c.up == e.down), c ∈ Auth.live isDel st ∧ c.up = e.down := by
      intro c hc
      have := List.mem_filter.mp hc
      exact ⟨this.1, by simpa using this.2⟩
    simp only [exportFrom, ids_cons, List.nodup_cons]
    refine ⟨?_, ?_⟩
    · -- the top node is above everything in the subtrees
      intro hin
      rw [ids_flatMap] at hin
      simp only [List.mem_flatMap] at hin
      obtain ⟨c, hc, hy⟩ := hin
      unfold ids at hy
      simp only [List.mem_map] at hy
      obtain ⟨x, hx, hxe⟩ := hy
      have hd := export_desc isDel st k (d + 1) c x hx
      have h1 := Desc.rank_le r hr hd
      have h2 := hr c (hkidsL c hc).1
      rw [(hkidsL c hc).2] at h2
      have : (recOf st e).id = e.down := rfl
      rw [hxe, this] at h1
      omega
    · rw [ids_flatMap]
      apply nodup_flatMap'
      · intro c hc
        exact ih (d + 1) c (hkidsL c hc).1
      · -- different children: disjoint subtrees
        have hpw : ((Auth.live isDel st).filter (fun c => c.up == e.down)).Pairwise (fun a b => a.down ≠ b.down) :=
          List.Pairwise.sublist List.filter_sublist hf.single
        have hmem := hkidsL
        revert hmem
        generalize (Auth.live isDel st).filter (fun c => c.up == e.down) = kids at hpw
        intro hmem
        induction hpw with
        | nil => exact List.Pairwise.nil
        | @cons a l hab _ ih2 =>
          rw [List.pairwise_cons]
          refine ⟨?_, ih2 (fun c hc => hmem c (List.mem_cons_of_mem _ hc))⟩
          intro b hb x hx y hy hxy
          subst hxy
          unfold ids at hx hy
          simp only [List.mem_map] at hx hy
          obtain ⟨x1, hx1, rfl⟩ := hx
          obtain ⟨y1, hy1, hye⟩ := hy
          have da := export_desc isDel st k (d + 1) a x1 hx1
          have db := export_desc isDel st k (d + 1) b y1 hy1
          rw [hye] at db
          have ha := hmem a (List.mem_cons_self ..)
          have hb' := hmem b (List.mem_cons_of_mem _ hb)
          exact Desc.siblings hf a b ha.1 hb'.1 (ha.2.trans hb'.2.symm) (fun h => hab b hb (by rw [h])) da db

/-- on a forest, the parent of the top node is not in the file -/
theorem export_up_outside (hf : Forest (Auth.live isDel st)) (k d : Nat) (e : Edge) (he : e ∈ Auth.live isDel st) :
    e.up ∉ ids (exportFrom isDel st k d e) := by
  obtain ⟨r, hr⟩ := hf.rank
  intro hin
  unfold ids at hin
  simp only [List.mem_map] at hin
  obtain ⟨x, hx, hxe⟩ := hin
  have h1 := Desc.rank_le r hr (export_desc isDel st k d e x hx)
  have h2 := hr e he
  rw [hxe] at h1
  omega

/-- **on a forest, the exported file is the traversal of its own parent-pointer tree** -/
theorem export_self_rebuilding (hf : Forest (Auth.live isDel st)) (k d : Nat) (e : Edge) (he : e ∈ Auth.live isDel st) :
    rebuild (exportFrom isDel st k d e) k d (recOf st e) = exportFrom isDel st k d e := by
  have := rebuild_export isDel st k d e [] [] (export_nodup isDel st hf k d e he) (export_up_outside isDel st hf k d e he)
    (fun x hx => by cases hx)
  simpa using this

end Siot.Export
