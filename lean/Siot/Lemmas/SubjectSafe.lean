import Siot.Lemmas.Serial
/-
The `log` exemption: when can an error of the guaranteed classes rewrite the subject field of a
packet into (NUL-padded) "log"?  `SubjectSafe` is a decidable predicate on the 16-byte field; under
it no burst of ≤16 bits and no ≤2-bit error can.
-/
namespace Siot.Serial
open Siot Siot.Crc16

/-- indices of the true bits, in increasing order -/
def tIdx : Nat → List Bool → List Nat
  | _, [] => []
  | o, b :: bs => if b then o :: tIdx (o + 1) bs else tIdx (o + 1) bs

theorem tIdx_mem (bs : List Bool) : ∀ o q, q ∈ tIdx o bs → ∃ k, q = o + k ∧ IsTrue bs k := by
  induction bs with
  | nil => intro o q h; simp [tIdx] at h
  | cons b bs ih =>
    intro o q h
    simp only [tIdx] at h
    split at h
    · rename_i hb
      simp only [List.mem_cons] at h
      rcases h with rfl | h
      · exact ⟨0, rfl, by simp [IsTrue, hb]⟩
      · obtain ⟨k, rfl, hk⟩ := ih _ _ h
        exact ⟨k + 1, by omega, (isTrue_cons_succ _ _ _).mpr hk⟩
    · obtain ⟨k, rfl, hk⟩ := ih _ _ h
      exact ⟨k + 1, by omega, (isTrue_cons_succ _ _ _).mpr hk⟩

/-- at least three bits differ and the first and some later differing bit are ≥ 16 apart -/
def SafeAt (bits : List Bool) : Bool :=
  match tIdx 0 bits with
  | q1 :: q2 :: q3 :: rest => decide (q1 < q2) && decide (q2 < q3) && (q3 :: rest).any (fun ql => decide (q1 + 16 ≤ ql))
  | _ => false

theorem safeAt_spec (bits : List Bool) (h : SafeAt bits = true) :
    ∃ q1 q2 q3 ql, IsTrue bits q1 ∧ IsTrue bits q2 ∧ IsTrue bits q3 ∧ IsTrue bits ql ∧
      q1 < q2 ∧ q2 < q3 ∧ q1 + 16 ≤ ql := by
  unfold SafeAt at h
  split at h
  · rename_i q1 q2 q3 rest heq
    simp only [Bool.and_eq_true, decide_eq_true_eq, List.any_eq_true] at h
    obtain ⟨⟨h12, h23⟩, ql, hql, hfar⟩ := h
    have hm : ∀ q, q ∈ tIdx 0 bits → IsTrue bits q := by
      intro q hq
      obtain ⟨k, hk, hT⟩ := tIdx_mem bits 0 q hq
      simp at hk; subst hk; exact hT
    refine ⟨q1, q2, q3, ql, hm _ (by rw [heq]; simp), hm _ (by rw [heq]; simp), hm _ (by rw [heq]; simp),
      hm _ (by rw [heq]; simp only [List.mem_cons] at hql ⊢; exact Or.inr (Or.inr hql)), h12, h23, hfar⟩
  · cases h

/-- the 16-byte fields that `SerialDecode` reads as subject "log" -/
def target (a : Nat) : Bytes := List.replicate a 0 ++ logSubject ++ List.replicate (13 - a) 0

def SubjectSafe (F : Bytes) : Bool :=
  (List.range 14).all (fun a => SafeAt (bitsOf (xorBytes F (target a))))

theorem dwz_split (l : Bytes) : ∃ a, l = List.replicate a 0 ++ dropWhileZero l := by
  induction l with
  | nil => exact ⟨0, rfl⟩
  | cons x xs ih =>
    simp only [dropWhileZero]
    split
    · rename_i hx; subst hx
      obtain ⟨a, ha⟩ := ih
      exact ⟨a + 1, by rw [List.replicate_succ, List.cons_append, ← ha]⟩
    · exact ⟨0, rfl⟩

theorem trim_split (X : Bytes) : ∃ a b, X = List.replicate a 0 ++ trimNul X ++ List.replicate b 0 := by
  obtain ⟨a, ha⟩ := dwz_split X
  obtain ⟨b, hb⟩ := dwz_split (dropWhileZero X).reverse
  refine ⟨a, b, ?_⟩
  have : dropWhileZero X = trimNul X ++ List.replicate b 0 := by
    have := congrArg List.reverse hb
    rw [List.reverse_reverse, List.reverse_append, List.reverse_replicate] at this
    exact this
  rw [List.append_assoc, ← this]; exact ha

theorem trim_log (X : Bytes) (hl : X.length = 16) (h : trimNul X = logSubject) :
    ∃ a, a ≤ 13 ∧ X = target a := by
  obtain ⟨a, b, hX⟩ := trim_split X
  rw [h] at hX
  have : a + 3 + b = 16 := by
    have := congrArg List.length hX
    simp [logSubject] at this; omega
  refine ⟨a, by omega, ?_⟩
  have hb : b = 13 - a := by omega
  rw [hX, hb]; rfl

/-! ### xor on byte strings -/
theorem xorBytes_length (a : Bytes) : ∀ b : Bytes, a.length = b.length → (xorBytes a b).length = a.length := by
  induction a with
  | nil => intro b _; cases b <;> rfl
  | cons x a ih => intro b h; cases b with
    | nil => simp at h
    | cons y b => simp only [xorBytes, List.length_cons]; rw [ih b (by simpa using h)]

theorem xorBytes_cancel (a : Bytes) : ∀ b : Bytes, a.length = b.length → xorBytes a (xorBytes a b) = b := by
  induction a with
  | nil => intro b h; cases b with
    | nil => rfl
    | cons _ _ => simp at h
  | cons x a ih => intro b h; cases b with
    | nil => simp at h
    | cons y b =>
      simp only [xorBytes]
      rw [ih b (by simpa using h)]
      congr 1
      rw [← UInt8.xor_assoc, UInt8.xor_self, UInt8.zero_xor]

theorem xorBytes_drop (n : Nat) : ∀ a b : Bytes, (xorBytes a b).drop n = xorBytes (a.drop n) (b.drop n) := by
  induction n with
  | zero => intro a b; rfl
  | succ n ih => intro a b; cases a with
    | nil => cases b <;> simp [xorBytes]
    | cons x a => cases b with
      | nil => cases h : a.drop n <;> simp [xorBytes]
      | cons y b => simp only [xorBytes, List.drop_succ_cons]; exact ih a b

theorem xorBytes_take (n : Nat) : ∀ a b : Bytes, (xorBytes a b).take n = xorBytes (a.take n) (b.take n) := by
  induction n with
  | zero => intro a b; simp [xorBytes]
  | succ n ih => intro a b; cases a with
    | nil => cases b <;> simp [xorBytes]
    | cons x a => cases b with
      | nil => simp [xorBytes]
      | cons y b => simp only [xorBytes, List.take_succ_cons]; rw [ih a b]

theorem field_xor (p e : Bytes) : field (xorBytes p e) = xorBytes (field p) (field e) := by
  unfold field; rw [xorBytes_drop, xorBytes_take]

theorem field_length (d : Bytes) (h : 17 ≤ d.length) : (field d).length = 16 := by
  simp [field]; omega

/-- a true bit of the field's error pattern is a true bit of the whole error pattern, 8 bits later -/
theorem isTrue_field (e : Bytes) (q : Nat) (h : IsTrue (bitsOf (field e)) q) : IsTrue (bitsOf e) (8 + q) := by
  cases e with
  | nil => simp [field, bitsOf, IsTrue] at h
  | cons e0 rest =>
    have h1 : bitsOf (e0 :: rest) = bits8 e0 ++ bitsOf rest := rfl
    have h2 : field (e0 :: rest) = rest.take 16 := rfl
    have h3 : bitsOf rest = bitsOf (rest.take 16) ++ bitsOf (rest.drop 16) := by
      unfold bitsOf; rw [← List.flatMap_append, List.take_append_drop]
    rw [h2] at h
    rw [h1, h3]
    have hl : (bits8 e0).length = 8 := by simp [bits8]
    have := (isTrue_append_right (bits8 e0) (bitsOf (rest.take 16) ++ bitsOf (rest.drop 16)) q)
    rw [hl] at this
    apply this.mpr
    unfold IsTrue at h ⊢
    rw [List.getElem?_append_left]
    · exact h
    · have := (List.getElem?_eq_some_iff.mp h).1; exact this

end Siot.Serial
