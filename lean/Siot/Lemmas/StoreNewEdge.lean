import Siot.Lemmas.StoreEdge
namespace Siot.Store
open Siot

theorem hOf_append_new (es : List Edge) (e : Edge) (hnew : keyOf e ∉ keysOf es) (k : EK) :
    hOf (es ++ [e]) k = if k = keyOf e then e.hash else hOf es k := by
  unfold hOf
  rw [List.find?_append]
  cases hf : es.find? (fun x => keyOf x == k) with
  | some x =>
    have hxk := find_key es k x hf
    have : k ≠ keyOf e := by
      intro hk
      apply hnew
      rw [← hk, ← hxk]
      exact List.mem_map_of_mem (f := keyOf) (List.mem_of_find?_eq_some hf)
    simp [this]
  | none =>
    simp only [Option.none_or, List.find?_cons, List.find?_nil]
    by_cases hk : k = keyOf e
    · subst hk; simp
    · have : (keyOf e == k) = false := by simpa using fun h => hk h.symm
      simp [this, hk]

theorem kids_append_new (ks : List EK) (k0 : EK) (n : Bytes) :
    (ks ++ [k0]).filter (fun c => c.1 == n) = ks.filter (fun c => c.1 == n) ++ (if k0.1 = n then [k0] else []) := by
  rw [List.filter_append]
  congr 1
  by_cases h : k0.1 = n <;> simp [h]

theorem xs_nil : xs [] = 0 := rfl
theorem xs_single (a : Nat) : xs [a] = a := by simp [xs]

theorem xs_append (a b : List Nat) : xs (a ++ b) = xs a ^^^ xs b := by
  induction a with
  | nil => simp [xs]
  | cons x a ih => simp only [List.cons_append, xs_cons, ih]; ac_rfl

theorem map_congr_mem {α β : Type} (f g : α → β) (l : List α) (h : ∀ x ∈ l, f x = g x) : l.map f = l.map g :=
  List.map_congr_left h

/-- **inserting a new edge (after the ancestor check) preserves the invariant** -/
theorem edgePoints_new_inv (st st' : St) (u d typ : Bytes) (batch : List Point) (newRoot : Bytes) (hinv : Inv st)
    (hk0 : (u, d) ∉ keysOf st.edges) (hne : d ≠ u)
    (hchk : (ancestors (2 ^ st.edges.length) st.edges u).contains d = false)
    (rows : List Point) (δ : Nat) (hmb : mergeBatch [] batch = (rows, δ))
    (h0 : Nat) (hh0 : δ ^^^ xorAll ((ptsOf st d).map pcrc) ^^^ xorAll ((st.edges.filter (fun e => e.up == d)).map (·.hash)) = h0)
    (es1 : List Edge) (hes1 : st.edges ++ [({ up := u, down := d, typ := typ, hash := h0 } : Edge)] = es1)
    (h : st' = { st with edgePts := st.edgePts ++ rows.map (fun p => ((u, d), p)), edges := bump (2 ^ es1.length) es1 u h0, root := newRoot }) :
    Inv st' := by
  obtain ⟨hu, hδ⟩ := mergeBatch_spec batch [] (by simp [IdUnique])
  rw [hmb] at hu hδ
  simp only [List.map_nil, xs, List.foldr_nil, Nat.zero_xor] at hδ
  simp only [] at hu
  have hk1 : keysOf es1 = keysOf st.edges ++ [(u, d)] := by rw [← hes1]; simp [keysOf, keyOf]
  have hl1 : es1.length = st.edges.length + 1 := by rw [← hes1]; simp
  obtain ⟨r, hr1, hr2⟩ := hinv.ranked
  obtain ⟨r', hr1', hr2'⟩ := ranked_insert st.edges r hr1 hr2 u d hchk
  -- the abstract graph after inserting the edge (before the upstream update)
  let g1 : G := { keys := keysOf es1, nodeC := (gOf st).nodeC,
                  own := fun k => if k = (u, d) then δ else (gOf st).own k }
  have hbr := bump_bridge (2 ^ es1.length) es1 g1 rfl u h0
  have hkeys : keysOf st'.edges = keysOf st.edges ++ [(u, d)] := by rw [h]; simp only []; rw [hbr.1, hk1]
  have hlen : st'.edges.length = st.edges.length + 1 := by
    have := congrArg List.length hkeys
    simpa [keysOf] using this
  have hnd1 : (keysOf st.edges ++ [(u, d)]).Nodup := by
    rw [List.nodup_append]
    refine ⟨hinv.nodup, by simp, ?_⟩
    intro a ha b hb
    simp only [List.mem_singleton] at hb
    subst hb
    exact fun hab => hk0 (hab ▸ ha)
  have hpts : ∀ n, ptsOf st' n = ptsOf st n := by intro n; rw [h]; rfl
  have hempty : eptsOf st u d = [] := by
    unfold eptsOf
    rw [List.map_eq_nil_iff, List.filter_eq_nil_iff]
    intro row hrow
    simp only [beq_iff_eq]
    intro hk
    exact hk0 (hk ▸ hinv.epinv row hrow)
  have hepts : ∀ k : EK, eptsOf st' k.1 k.2 = if k = (u, d) then rows else eptsOf st k.1 k.2 := by
    intro k
    rw [h]
    simp only [eptsOf, List.filter_append, List.map_append]
    by_cases hk : k = (u, d)
    · subst hk
      simp only [if_true]
      have := hempty
      simp only [eptsOf] at this
      rw [this]
      simp only [List.nil_append]
      rw [List.filter_eq_self.mpr (by intro r hr; simp only [List.mem_map] at hr; obtain ⟨p, _, rfl⟩ := hr; simp)]
      simp only [List.map_map]
      conv => rhs; rw [← List.map_id rows]
      apply List.map_congr_left
      intro p _; rfl
    · simp only [hk, if_false]
      have hnil : List.filter (fun r => r.1 == k) (List.map (fun p => ((u, d), p)) rows) = [] := by
        apply List.filter_eq_nil_iff.mpr
        intro r hr
        simp only [List.mem_map] at hr
        obtain ⟨p, _, rfl⟩ := hr
        show ¬ (((u, d) : EK) == k) = true
        rw [beq_false_of_ne (fun h' => hk h'.symm)]; exact Bool.false_ne_true
      rw [hnil]
      simp
  have hg'keys : (gOf st').keys = g1.keys := by simp only [gOf, g1]; rw [hkeys, hk1]
  have hg'node : (gOf st').nodeC = g1.nodeC := by funext x; simp only [gOf, g1]; rw [hpts x]
  have hg'own : (gOf st').own = g1.own := by
    funext k
    simp only [gOf, g1]
    rw [hepts k]
    split
    · exact hδ
    · rfl
  have hh1 : ∀ k, hOf es1 k = if k = (u, d) then h0 else hOf st.edges k := by
    intro k
    rw [← hes1]
    exact hOf_append_new st.edges ({ up := u, down := d, typ := typ, hash := h0 } : Edge) hk0 k
  -- defects of the graph with the new edge, before the upstream update
  have hkidsum : xorAll ((st.edges.filter (fun e => e.up == d)).map (·.hash)) = xs ((kidsK (gOf st) d).map (hOf st.edges)) := by
    rw [xorAll_eq_xs]
    congr 1
    simp only [kidsK, gOf, keysOf, List.filter_map, List.map_map]
    apply List.map_congr_left
    intro e he
    simp only [Function.comp]
    exact (hOf_mem st.edges hinv.nodup e (List.mem_filter.mp he).1).symm
  have hold : ∀ n, List.map (hOf es1) (List.filter (fun c => c.1 == n) (keysOf st.edges)) =
      List.map (hOf st.edges) (List.filter (fun c => c.1 == n) (keysOf st.edges)) := by
    intro n
    apply List.map_congr_left
    intro c hc
    rw [hh1 c]
    have : c ≠ (u, d) := fun hcd => hk0 (hcd ▸ (List.mem_filter.mp hc).1)
    rw [if_neg this]
  have hd1_old : ∀ k ∈ keysOf st.edges, defect g1 (hOf es1) k = ite0 (k.2 = u) h0 := by
    intro k hk
    have hkne : k ≠ (u, d) := fun hkd => hk0 (hkd ▸ hk)
    have hdef := hinv.hash k hk
    unfold defect calcF kidsK at hdef ⊢
    simp only [g1]
    rw [hk1, kids_append_new, List.map_append, xs_append, hold k.2, hh1 k, if_neg hkne, if_neg hkne]
    simp only [gOf] at hdef ⊢
    generalize hOf st.edges k = a at hdef ⊢
    generalize xs (List.map pcrc (ptsOf st k.2)) = b at hdef ⊢
    generalize xs (List.map pcrc (eptsOf st k.1 k.2)) = c at hdef ⊢
    generalize xs (List.map (hOf st.edges) (List.filter (fun c => c.1 == k.2) (keysOf st.edges))) = e at hdef ⊢
    unfold ite0
    by_cases hku : u = k.2
    · rw [if_pos hku, if_pos hku.symm]
      simp only [List.map_cons, List.map_nil, xs_single]
      rw [hh1 (u, d), if_pos rfl]
      have : a ^^^ (b ^^^ c ^^^ (e ^^^ h0)) = (a ^^^ (b ^^^ c ^^^ e)) ^^^ h0 := by ac_rfl
      rw [this, hdef, Nat.zero_xor]
    · rw [if_neg hku, if_neg (fun hc => hku hc.symm)]
      simp only [List.map_nil, xs, List.foldr_nil, Nat.xor_zero]
      exact hdef
  have hd1_new : defect g1 (hOf es1) (u, d) = 0 := by
    unfold defect calcF kidsK
    simp only [g1]
    rw [hk1, kids_append_new, List.map_append, xs_append, hold d, hh1 (u, d), if_pos rfl]
    have hdu : ¬ u = d := fun hc => hne hc.symm
    simp only [if_true, hdu, if_false, List.map_nil, xs_nil, Nat.xor_zero]
    rw [← hh0, hkidsum, xorAll_eq_xs]
    simp only [gOf, kidsK]
    generalize xs (List.map pcrc (ptsOf st d)) = b
    generalize xs (List.map (hOf st.edges) (List.filter (fun c => c.1 == d) (keysOf st.edges))) = e
    have : δ ^^^ b ^^^ e ^^^ (b ^^^ δ ^^^ e) = δ ^^^ (δ ^^^ (b ^^^ (b ^^^ (e ^^^ (e ^^^ 0))))) := by
      simp only [Nat.xor_zero]; ac_rfl
    rw [this, xcancel, xcancel, xcancel]
  refine ⟨by rw [hkeys]; exact hnd1, ⟨r', by rw [hkeys]; exact hr1', by rw [hlen]; exact hr2'⟩, ?_, ?_, ?_, ?_⟩
  · intro row hrow
    rw [hkeys]
    rw [h] at hrow
    simp only [List.mem_append, List.mem_map] at hrow
    rcases hrow with hr | ⟨p, _, rfl⟩
    · exact List.mem_append_left _ (hinv.epinv row hr)
    · simp
  · intro n; rw [hpts n]; exact hinv.npu n
  · intro k
    rw [hepts k]
    split
    · exact hu
    · exact hinv.epu k
  · intro k hk
    rw [hkeys] at hk
    have hdefeq : defect (gOf st') (hOf st'.edges) k = defect g1 (hOf st'.edges) k := by
      unfold defect calcF kidsK
      rw [hg'keys, hg'node, hg'own]
    have hh : hOf st'.edges = bumpF g1 (2 ^ es1.length) u h0 (hOf es1) := by rw [h]; simp only []; exact hbr.2
    rw [hdefeq, hh]
    have hwf : WF g1 r' := ⟨by simp only [g1]; rw [hk1]; exact hnd1, by simp only [g1]; rw [hk1]; exact hr1'⟩
    rw [bumpF_defect g1 r' hwf h0 _ u (by rw [hl1]; exact hr2' u) (hOf es1) k (by simp only [g1]; rw [hk1]; exact hk)]
    simp only [List.mem_append, List.mem_singleton] at hk
    rcases hk with hk | rfl
    · rw [hd1_old k hk, Nat.xor_self]
    · rw [hd1_new]
      unfold ite0
      rw [if_neg hne]; rfl

end Siot.Store
