import Siot.Lemmas.SyncExchange
import Siot.Lemmas.ExportStore
/-
C02, a node that the upstream store does not know: what `SendNode` of the local copy leaves upstream. `Sync.sendNode`
is `Export.sendNode` on points that carry their time stamps (stored rows always do), so the store-level step of C15
(`sendNode_core`) gives the rows of the new node and of its edge.
-/
namespace Siot.Sync
open Siot Siot.Store Siot.Export

def recOfNE (n : NE) : NodeRec := { id := n.id, typ := n.typ, parent := n.parent, pts := n.pts, epts := n.epts }

theorem map_stamp_id (now : Int) (l : List Point) (h : ∀ p ∈ l, p.time ≠ 0) : l.map (stamp now) = l := by
  rw [List.map_congr_left (g := id) (fun p hp => by unfold stamp; rw [if_neg (h p hp)]; rfl)]
  exact List.map_id l

theorem export_sendNode_rec (st : St) (r : NodeRec) (now : Int) (hp : ∀ p ∈ r.pts, p.time ≠ 0) (he : ∀ p ∈ r.epts, p.time ≠ 0) :
    Export.sendNode st r now =
      if r.id = [] then .err "id" else if r.parent = [] ∨ r.parent = noneS then .err "parent"
      else match nodePoints st r.id r.pts with
        | .ok st1 => edgePoints st1 r.id r.parent (r.epts ++ (if hasTomb r.epts then [] else [({ type := tombstoneT, time := now } : Point)]) ++
            [({ type := nodeTypeT, text := r.typ, time := now } : Point)])
        | e => e := by
  unfold Export.sendNode
  simp only []
  have e1 : r.pts.map (fun (p : Point) => if p.time = 0 then { p with time := now } else p) = r.pts := map_stamp_id now r.pts hp
  have e2 : r.epts.map (fun (p : Point) => if p.time = 0 then { p with time := now } else p) = r.epts := map_stamp_id now r.epts he
  rw [e1, e2]
  by_cases h1 : r.id = []
  · rw [if_pos h1, if_pos h1]
  · rw [if_neg h1, if_neg h1]
    by_cases h2 : r.parent = [] ∨ r.parent = noneS
    · rw [if_pos h2, if_pos h2]
    · rw [if_neg h2, if_neg h2]
      cases nodePoints st r.id r.pts <;> rfl

theorem export_sendNode_ne (st : St) (n : NE) (now : Int) (hp : ∀ p ∈ n.pts, p.time ≠ 0) (he : ∀ p ∈ n.epts, p.time ≠ 0) :
    Export.sendNode st (recOfNE n) now =
      if n.id = [] then .err "id" else if n.parent = [] ∨ n.parent = noneS then .err "parent"
      else match nodePoints st n.id n.pts with
        | .ok st1 => edgePoints st1 n.id n.parent (n.epts ++ (if hasTomb n.epts then [] else [({ type := tombstoneT, time := now } : Point)]) ++
            [({ type := nodeTypeT, text := n.typ, time := now } : Point)])
        | e => e := export_sendNode_rec st (recOfNE n) now hp he

/-- `SendNode` of the sync pass is `SendNode` of the import on points that carry time stamps -/
theorem sendNode_eq_export (st : St) (n : NE) (now : Int) (hp : ∀ p ∈ n.pts, p.time ≠ 0) (he : ∀ p ∈ n.epts, p.time ≠ 0) :
    Sync.sendNode st n now = (match Export.sendNode st (recOfNE n) now with | .ok s => some s | _ => none) := by
  rw [export_sendNode_ne st n now hp he]
  unfold Sync.sendNode
  simp only []
  by_cases h1 : n.id = []
  · rw [if_pos (Or.inl h1), if_pos h1]
  · by_cases h2 : n.parent = [] ∨ n.parent = noneS
    · rw [if_pos (Or.inr h2), if_neg h1, if_pos h2]
    · have h3 : ¬ (n.id = [] ∨ n.parent = [] ∨ n.parent = noneS) := by
        intro h; rcases h with h | h; exact h1 h; exact h2 h
      rw [if_neg h1, if_neg h2, if_neg h3]
      cases nodePoints st n.id n.pts with
      | ok st1 =>
        simp only []
        cases edgePoints st1 n.id n.parent _ <;> rfl
      | err e => rfl
      | panic e => rfl

/-- stored rows, as the store keeps them for one owner -/
structure Rows (l : List Point) : Prop where
  st : StoredRows l
  uniq : IdUnique l
  time : ∀ p ∈ l, p.time ≠ 0

theorem storedRows_map_norm (l : List Point) (h : StoredRows l) : l.map normPoint = l := by
  rw [List.map_congr_left (g := id) (fun p hp => (h p hp).1)]
  exact List.map_id l

theorem storedRows_no_nan (l : List Point) (h : StoredRows l) : l.any (fun p => isNaN p.value) = false := by
  rw [List.any_eq_false]
  intro p hp
  rw [(h p hp).2]; simp

theorem stored_key_ne_nil (p : Point) (h : normPoint p = p) : p.key ≠ [] := by
  intro hk
  have : (normPoint p).key = p.key := by rw [h]
  unfold normPoint normKey at this
  simp only [hk, List.isEmpty_nil, if_true] at this
  exact absurd this (by decide)

/-- the edge rows upstream after `SendNode`: the local rows, and the deletion mark "not deleted, now" when they carry none -/
def sentE (eps : List Point) (now : Int) : List Point :=
  eps ++ (if hasTomb eps then [] else [({ type := tombstoneT, key := zeroKey, time := now } : Point)])


def tombNow (now : Int) : Point := { type := tombstoneT, key := zeroKey, time := now }
def ntNow (typ : Bytes) (now : Int) : Point := { type := nodeTypeT, key := zeroKey, text := typ, time := now }

theorem sentE_eq (eps : List Point) (now : Int) : sentE eps now = eps ++ (if hasTomb eps then [] else [tombNow now]) := rfl

theorem norm_tomb (now : Int) : normPoint ({ type := tombstoneT, time := now } : Point) = tombNow now := by
  unfold normPoint normKey tombNow; rfl
theorem norm_nt (typ : Bytes) (now : Int) : normPoint ({ type := nodeTypeT, text := typ, time := now } : Point) = ntNow typ now := by
  unfold normPoint normKey ntNow; rfl

theorem hasTomb_false (eps : List Point) (h : hasTomb eps = false) (now : Int) : ∀ p ∈ eps, sameId p (tombNow now) = false := by
  intro p hp
  unfold hasTomb at h
  rw [List.any_eq_false] at h
  have := h p hp
  unfold sameId tombNow
  simp only []
  cases h1 : p.type == tombstoneT with
  | false => rfl
  | true =>
    cases h2 : p.key == zeroKey with
    | false => rfl
    | true => exfalso; apply this; simp [h1, h2]

/-- **a node the upstream store does not know.** `SendNode` of its local copy (stored rows) succeeds; afterwards the
    upstream store has the edge, the node's points are exactly the local ones, and the edge's points are the local ones
    (plus the mark "not deleted, now" when the local edge carries no deletion mark); nothing else changes. -/
theorem sendNode_transfer (st : St) (n : NE) (now : Int) (hP : Rows n.pts) (hE : Rows n.epts)
    (hnt : ∀ p ∈ n.epts, p.type ≠ nodeTypeT)
    (hf : Fresh st n.id) (hid : n.id ≠ [])
    (hp : n.parent ≠ [] ∧ n.parent ≠ noneS ∧ n.parent ≠ rootS ∧ n.parent ≠ n.id) (ht : n.typ ≠ []) :
    ∃ st', Sync.sendNode st n now = some st' ∧
      st'.edges.map shape = st.edges.map shape ++ [(n.parent, n.id, n.typ)] ∧
      (∀ y, ptsOf st' y = if y = n.id then n.pts else ptsOf st y) ∧
      (∀ u d, eptsOf st' u d = if (u, d) = (n.parent, n.id) then sentE n.epts now else eptsOf st u d) ∧
      st'.root = st.root := by
  have hs1 : (recOfNE n).pts.map (stamp now) = n.pts := map_stamp_id now n.pts hP.time
  have hs2 : (recOfNE n).epts.map (stamp now) = n.epts := map_stamp_id now n.epts hE.time
  have hE' : (recOfNE n).epts = n.epts := rfl
  have hT' : (recOfNE n).typ = n.typ := rfl
  have hnn : isNaN (tombNow now).value = false := by show isNaN 0 = false; decide
  have hnn2 : isNaN (ntNow n.typ now).value = false := by show isNaN 0 = false; decide
  have hnn3 : isNaN ({ type := tombstoneT, time := now } : Point).value = false := by show isNaN 0 = false; decide
  have hnn4 : isNaN ({ type := nodeTypeT, text := n.typ, time := now } : Point).value = false := by show isNaN 0 = false; decide
  have hsnt : ∀ a ∈ sentE n.epts now, a.type ≠ nodeTypeT := by
    intro a ha
    rw [sentE_eq, List.mem_append] at ha
    rcases ha with ha | ha
    · exact hnt a ha
    · by_cases hh : hasTomb n.epts = true
      · rw [if_pos hh] at ha; exact absurd ha List.not_mem_nil
      · rw [if_neg hh, List.mem_singleton] at ha
        rw [ha]; show tombstoneT ≠ nodeTypeT; decide
  have hsuE : IdUnique (sentE n.epts now) := by
    rw [sentE_eq]
    by_cases hh : hasTomb n.epts = true
    · rw [if_pos hh, List.append_nil]; exact hE.uniq
    · rw [if_neg hh]
      unfold IdUnique
      rw [List.pairwise_append]
      refine ⟨hE.uniq, List.pairwise_singleton _ _, ?_⟩
      intro a ha b hb
      rw [List.mem_singleton] at hb
      rw [hb]
      exact hasTomb_false n.epts (by simpa using hh) now a ha
  obtain ⟨st', h1, h2, h3, h4, h5⟩ := sendNode_core st (recOfNE n) n.pts (sentE n.epts now) now
    (by rw [hs1]; exact storedRows_map_norm _ hP.st)
    (by rw [hs1]; exact storedRows_no_nan _ hP.st)
    hP.uniq
    (by
      rw [hs2, hE', hT', List.map_append, List.map_append, storedRows_map_norm _ hE.st, sentE_eq]
      by_cases hh : hasTomb n.epts = true
      · rw [if_pos hh, if_pos hh]; simp only [List.map_nil, List.map_cons, norm_nt]; rfl
      · rw [if_neg hh, if_neg hh]; simp only [List.map_nil, List.map_cons, norm_nt, norm_tomb]; rfl)
    hsnt
    (by
      unfold IdUnique
      rw [List.pairwise_append]
      refine ⟨hsuE, List.pairwise_singleton _ _, ?_⟩
      intro a ha b hb
      rw [List.mem_singleton] at hb
      rw [hb]
      unfold sameId
      have : (a.type == nodeTypeT) = false := beq_false_of_ne (hsnt a ha)
      simp only [this, Bool.false_and])
    (by
      rw [hs2, hE', hT', List.any_append, List.any_append, storedRows_no_nan _ hE.st]
      by_cases hh : hasTomb n.epts = true
      · rw [if_pos hh]; simp [hnn4]
      · rw [if_neg hh]; simp [hnn3, hnn4])
    hf hid hp ht
  refine ⟨st', ?_, h2, h3, h4, h5⟩
  rw [sendNode_eq_export st n now hP.time hE.time, h1]

end Siot.Sync
