import Siot.Lemmas.ModbusFraming
import Siot.Lemmas.ModbusConforms
namespace Siot.Modbus
open Siot Siot.Modbus.Spec

theorem word_put (v : Nat) (h : v < 65536) : word (u8 (v / 256 % 256)) (u8 (v % 256)) = v := by
  unfold word
  rw [u8_toNat _ (by omega), u8_toNat _ (by omega)]; omega

theorem reqRead_eq (a n : Nat) :
    reqRead a n = [u8 (a / 256 % 256), u8 (a % 256), u8 (n / 256 % 256), u8 (n % 256)] := rfl

/-- a lossless exchange: when both frames fit the buffers, the client sees exactly the server's
    normal response, over either framing -/
theorem exchange_normal (fr : Framing) (tx : Nat) (htx : tx < 65536) (id : UInt8) (rs rs' : Regs)
    (fc : Nat) (hfc : fc < 256) (d0 : UInt8) (drest : Bytes) (hdl : (d0 :: drest).length + 8 ≤ 260)
    (rfc : Nat) (hrfc : rfc < 256) (r0 : UInt8) (rrest : Bytes) (hrl : (r0 :: rrest).length + 8 ≤ 260)
    (hp : processRequest rs fc (d0 :: drest) = (.normal rfc (r0 :: rrest), rs')) :
    exchange fr 260 tx id rs fc (d0 :: drest) = (.ok (rfc, r0 :: rrest), rs') := by
  cases fr with
  | rtu =>
    unfold exchange
    simp only []
    have h1 : (rtuEncode id fc (d0 :: drest)).take 260 = rtuEncode id fc (d0 :: drest) := by
      apply List.take_of_length_le; simp [rtuEncode] at hdl ⊢; omega
    have h2 : (rtuEncode id rfc (r0 :: rrest)).take 260 = rtuEncode id rfc (r0 :: rrest) := by
      apply List.take_of_length_le; simp [rtuEncode] at hrl ⊢; omega
    rw [h1, rtu_roundtrip id fc hfc]
    simp only [hp, h2, rtu_roundtrip id rfc hrfc]
  | tcp =>
    unfold exchange
    simp only []
    have h1 : (tcpEncode tx id fc (d0 :: drest)).take 260 = tcpEncode tx id fc (d0 :: drest) := by
      apply List.take_of_length_le; simp [tcpEncode] at hdl ⊢; omega
    have h2 : (tcpEncode tx id rfc (r0 :: rrest)).take 260 = tcpEncode tx id rfc (r0 :: rrest) := by
      apply List.take_of_length_le; simp [tcpEncode] at hrl ⊢; omega
    rw [h1, tcp_server_roundtrip tx htx id fc hfc]
    simp only [hp, h2, tcp_roundtrip tx htx id rfc hrfc]

theorem exchange_exception (fr : Framing) (tx : Nat) (htx : tx < 65536) (id : UInt8) (rs rs' : Regs)
    (fc : Nat) (hfc : fc < 256) (d0 : UInt8) (drest : Bytes) (hdl : (d0 :: drest).length + 8 ≤ 260)
    (rfc : Nat) (hrfc : rfc < 256) (code : Nat)
    (hp : processRequest rs fc (d0 :: drest) = (.exception rfc code, rs')) :
    exchange fr 260 tx id rs fc (d0 :: drest) = (.ok (rfc, [u8 code]), rs') := by
  cases fr with
  | rtu =>
    unfold exchange
    simp only []
    have h1 : (rtuEncode id fc (d0 :: drest)).take 260 = rtuEncode id fc (d0 :: drest) := by
      apply List.take_of_length_le; simp [rtuEncode] at hdl ⊢; omega
    have h2 : (rtuEncode id rfc [u8 code]).take 260 = rtuEncode id rfc [u8 code] := by
      apply List.take_of_length_le; simp [rtuEncode]
    rw [h1, rtu_roundtrip id fc hfc]
    simp only [hp, h2, rtu_roundtrip id rfc hrfc]
  | tcp =>
    unfold exchange
    simp only []
    have h1 : (tcpEncode tx id fc (d0 :: drest)).take 260 = tcpEncode tx id fc (d0 :: drest) := by
      apply List.take_of_length_le; simp [tcpEncode] at hdl ⊢; omega
    have h2 : (tcpEncode tx id rfc [u8 code]).take 260 = tcpEncode tx id rfc [u8 code] := by
      apply List.take_of_length_le; simp [tcpEncode]
    rw [h1, tcp_server_roundtrip tx htx id fc hfc]
    simp only [hp, h2, tcp_roundtrip tx htx id rfc hrfc]

/-! ### register reads -/
theorem processRequest_readWords (rs : Regs) (fc : Nat) (hfc : fc = 3 ∨ fc = 4) (a n : Nat)
    (ha : a < 65536) (hn1 : 1 ≤ n) (hn : n ≤ 125) (hr : a + n ≤ 65536) (vals : List Nat)
    (hv : allSome ((List.range n).map (fun i => readReg rs (a + i))) = some vals) :
    processRequest rs fc (reqRead a n) = (.normal fc (u8 (n * 2 % 256) :: vals.flatMap be16), rs) := by
  have hmin : minRequestLen fc = 5 := by rcases hfc with rfl | rfl <;> rfl
  unfold processRequest
  rw [hmin, reqRead_eq]
  rw [if_neg (by simp), if_neg (by rcases hfc with rfl | rfl <;> omega), if_pos hfc]
  unfold reqReadWords
  simp only [word_put a ha, word_put n (by omega), maxReadRegs, addressSpace, readWords_eq, hv]
  rw [if_neg (by omega), if_neg (by omega)]

theorem words_be16 (vals : List Nat) (h : ∀ v ∈ vals, v < 65536) : words (vals.flatMap be16) = vals := by
  induction vals with
  | nil => rfl
  | cons v vs ih =>
    have hv := h v (by simp)
    simp only [List.flatMap_cons, be16, List.cons_append, List.nil_append, words]
    rw [u8_toNat _ (by omega), u8_toNat _ (by omega), ih (fun x hx => h x (by simp [hx]))]
    congr 1; omega

theorem flatMap_be16_length (vals : List Nat) : (vals.flatMap be16).length = 2 * vals.length := by
  induction vals with
  | nil => rfl
  | cons v vs ih => simp only [List.flatMap_cons, be16, List.length_append, ih]; simp; omega

theorem allSome_length {α : Type} : ∀ (l : List (Option α)) (r : List α), allSome l = some r → r.length = l.length := by
  intro l
  induction l with
  | nil => intro r h; simp [allSome] at h; subst h; rfl
  | cons x xs ih =>
    intro r h
    cases x with
    | none => simp [allSome] at h
    | some a =>
      simp only [allSome] at h
      cases hx : allSome xs with
      | none => rw [hx] at h; simp at h
      | some r' =>
        rw [hx] at h; simp at h; subst h
        simp [ih r' hx]

theorem allSome_mem {α : Type} : ∀ (l : List (Option α)) (r : List α), allSome l = some r → ∀ v ∈ r, some v ∈ l := by
  intro l
  induction l with
  | nil => intro r h v hv; simp [allSome] at h; subst h; cases hv
  | cons x xs ih =>
    intro r h v hv
    cases x with
    | none => simp [allSome] at h
    | some a =>
      simp only [allSome] at h
      cases hx : allSome xs with
      | none => rw [hx] at h; simp at h
      | some r' =>
        rw [hx] at h; simp at h; subst h
        simp only [List.mem_cons] at hv ⊢
        rcases hv with rfl | hv
        · exact Or.inl rfl
        · exact Or.inr (ih r' hx v hv)

/-- every stored value is a 16-bit value (Go: `uint16`) -/
def Regs16 (rs : Regs) : Prop := ∀ r ∈ rs, r.val < 65536

theorem readReg_lt (rs : Regs) (h : Regs16 rs) (a v : Nat) (hr : readReg rs a = some v) : v < 65536 := by
  induction rs with
  | nil => simp [readReg] at hr
  | cons r rs ih =>
    simp only [readReg] at hr
    split at hr
    · injection hr with hr; subst hr; exact h r (by simp)
    · exact ih (fun x hx => h x (by simp [hx])) hr

end Siot.Modbus
