import Siot.Model.Auth
import Siot.Lemmas.StoreReach
/- helper lemmas for C09 (Siot/Model/Auth.lean) -/
namespace Siot.Auth
open Siot Siot.Store

/-! ### strings.Fields -/

theorem fieldsAux_mem (s : Bytes) : ∀ (cur : Bytes), (∀ b ∈ cur, isSpace b = false) →
    ∀ f ∈ fieldsAux cur s, f ≠ [] ∧ ∀ b ∈ f, isSpace b = false := by
  induction s with
  | nil =>
    intro cur hc f hf
    simp only [fieldsAux] at hf
    split at hf
    · exact absurd hf List.not_mem_nil
    · rename_i hne
      simp only [List.mem_singleton] at hf
      subst hf
      refine ⟨?_, ?_⟩
      · intro h; apply hne; simpa using h
      · intro b hb; exact hc b (by simpa using hb)
  | cons x xs ih =>
    intro cur hc f hf
    simp only [fieldsAux] at hf
    split at hf
    · split at hf
      · exact ih [] (by simp) f hf
      · rename_i hne
        simp only [List.mem_cons] at hf
        rcases hf with hf | hf
        · subst hf
          refine ⟨?_, ?_⟩
          · intro h; apply hne; simpa using h
          · intro b hb; exact hc b (by simpa using hb)
        · exact ih [] (by simp) f hf
    · rename_i hns
      apply ih (x :: cur) _ f hf
      intro b hb
      simp only [List.mem_cons] at hb
      rcases hb with rfl | hb
      · simpa using hns
      · exact hc b hb

/-- every field is non-empty and free of white space -/
theorem fields_mem (s f : Bytes) (h : f ∈ fields s) : f ≠ [] ∧ ∀ b ∈ f, isSpace b = false :=
  fieldsAux_mem s [] (by simp) f h

theorem fieldsAux_nospace (t : Bytes) (ht : ∀ b ∈ t, isSpace b = false) : ∀ (cur : Bytes),
    fieldsAux cur t = if (cur.reverse ++ t).isEmpty then [] else [cur.reverse ++ t] := by
  induction t with
  | nil => intro cur; simp [fieldsAux]
  | cons x xs ih =>
    intro cur
    have hx : isSpace x = false := ht x (by simp)
    simp only [fieldsAux, hx, Bool.false_eq_true, if_false]
    rw [ih (fun b hb => ht b (by simp [hb]))]
    simp

theorem fieldsAux_word (w : Bytes) (hw : ∀ b ∈ w, isSpace b = false) (sp : UInt8) (hsp : isSpace sp = true) (rest : Bytes) :
    ∀ (cur : Bytes), (cur.reverse ++ w) ≠ [] → fieldsAux cur (w ++ sp :: rest) = (cur.reverse ++ w) :: fieldsAux [] rest := by
  induction w with
  | nil =>
    intro cur hne
    have : cur.isEmpty = false := by
      cases cur with
      | nil => simp at hne
      | cons a l => rfl
    simp [fieldsAux, hsp, this]
  | cons x xs ih =>
    intro cur _
    have hx : isSpace x = false := hw x (by simp)
    simp only [List.cons_append, fieldsAux, hx, Bool.false_eq_true, if_false]
    rw [ih (fun b hb => hw b (by simp [hb])) (x :: cur) (by simp)]
    simp

/-- "Bearer <token>" splits into exactly those two fields -/
theorem fields_bearer (t : Bytes) (hne : t ≠ []) (ht : ∀ b ∈ t, isSpace b = false) :
    fields (bearer ++ 32 :: t) = [bearer, t] := by
  unfold fields
  rw [fieldsAux_word bearer (by decide) 32 (by decide) t [] (by decide)]
  rw [fieldsAux_nospace t ht []]
  cases t with
  | nil => exact absurd rfl hne
  | cons a l => simp

/-! ### live path to the root sentinel -/

/-- `n` hangs off "root" through the edges `ks`, walking upward along at least one edge -/
inductive PathToRoot (ks : List EK) : Bytes → Prop
  | direct (n : Bytes) : (rootS, n) ∈ ks → PathToRoot ks n
  | via (n : Bytes) (k : EK) : k ∈ ks → k.2 = n → PathToRoot ks k.1 → PathToRoot ks n

theorem checkPath_sound (lv : List Edge) : ∀ (fuel : Nat) (id : Bytes),
    checkPath lv fuel id = true → PathToRoot (keysOf lv) id := by
  intro fuel
  induction fuel with
  | zero => intro id h; simp [checkPath] at h
  | succ fuel ih =>
    intro id h
    simp only [checkPath, List.any_eq_true, List.mem_filter, beq_iff_eq, Bool.or_eq_true] at h
    obtain ⟨e, ⟨he, hd⟩, hup | hrec⟩ := h
    · apply PathToRoot.direct
      simp only [keysOf, List.mem_map]
      exact ⟨e, he, by simp [keyOf, hup, hd]⟩
    · exact .via id (keyOf e) (List.mem_map_of_mem (f := keyOf) he) hd (ih e.up hrec)

theorem checkPath_complete (lv : List Edge) (r : Bytes → Nat) (hr : ∀ k ∈ keysOf lv, r k.1 < r k.2) :
    ∀ (fuel : Nat) (id : Bytes), r id < fuel → PathToRoot (keysOf lv) id → checkPath lv fuel id = true := by
  intro fuel
  induction fuel with
  | zero => intro id h; omega
  | succ fuel ih =>
    intro id hlt hp
    simp only [checkPath, List.any_eq_true, List.mem_filter, beq_iff_eq, Bool.or_eq_true]
    cases hp with
    | direct _ hk =>
      simp only [keysOf, List.mem_map] at hk
      obtain ⟨e, he, hek⟩ := hk
      have hup : e.up = rootS := by have := congrArg Prod.fst hek; simpa [keyOf] using this
      have hdown : e.down = id := by have := congrArg Prod.snd hek; simpa [keyOf] using this
      exact ⟨e, ⟨he, hdown⟩, Or.inl hup⟩
    | via _ k hk hkn hrest =>
      simp only [keysOf, List.mem_map] at hk
      obtain ⟨e, he, hek⟩ := hk
      have hup : e.up = k.1 := by rw [← hek]; rfl
      have hdown : e.down = id := by rw [← hkn, ← hek]; rfl
      refine ⟨e, ⟨he, hdown⟩, Or.inr ?_⟩
      rw [hup]
      apply ih k.1 _ hrest
      have := hr k (by rw [← hek]; exact List.mem_map_of_mem (f := keyOf) he)
      rw [hkn] at this
      omega

theorem keysOf_filter_sub' (es : List Edge) (p : Edge → Bool) : ∀ k ∈ keysOf (es.filter p), k ∈ keysOf es := by
  intro k hk
  simp only [keysOf, List.mem_map, List.mem_filter] at hk ⊢
  obtain ⟨e, ⟨he, _⟩, hek⟩ := hk
  exact ⟨e, he, hek⟩

/-! ### listing -/

/-- `x` lies below `top` through the edges `ks` (at least one edge) -/
inductive Below (ks : List EK) (top : Bytes) : Bytes → Prop
  | child (x : Bytes) : (top, x) ∈ ks → Below ks top x
  | deeper (x : Bytes) (k : EK) : k ∈ ks → k.2 = x → Below ks top k.1 → Below ks top x

theorem Below_trans_child (ks : List EK) (top mid x : Bytes) (h1 : (top, mid) ∈ ks) (h2 : Below ks mid x) : Below ks top x := by
  induction h2 with
  | child x hx => exact .deeper x (mid, x) hx rfl (.child mid h1)
  | deeper x k hk hkx _ ih => exact .deeper x k hk hkx ih

theorem getChildren_sound (lv : List Edge) : ∀ (fuel : Nat) (top : Bytes) (x : Bytes × Bytes),
    x ∈ getChildren lv fuel top → Below (keysOf lv) top x.1 ∧ (x.2, x.1) ∈ keysOf lv := by
  intro fuel
  induction fuel with
  | zero => intro top x h; simp [getChildren] at h
  | succ fuel ih =>
    intro top x h
    simp only [getChildren, List.mem_append, List.mem_flatMap, List.mem_filter, beq_iff_eq, List.mem_map] at h
    rcases h with ⟨c, ⟨hc, hup⟩, hx⟩ | ⟨e, ⟨he, hup⟩, hx⟩
    · obtain ⟨h1, h2⟩ := ih c.down x hx
      refine ⟨?_, h2⟩
      apply Below_trans_child _ top c.down x.1 _ h1
      simp only [keysOf, List.mem_map]
      exact ⟨c, hc, by simp [keyOf, hup]⟩
    · subst hx
      have hk : (top, e.down) ∈ keysOf lv := by
        simp only [keysOf, List.mem_map]
        exact ⟨e, he, by simp [keyOf, hup]⟩
      exact ⟨.child _ hk, by simpa [hup] using hk⟩

end Siot.Auth
