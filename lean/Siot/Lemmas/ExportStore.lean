import Siot.Lemmas.Export
import Siot.Lemmas.StoreReach
/-
C15 on the store model: what `SendNode` of an exported node leaves in the store, and that exporting it again gives
the node back (points, edge points, type, parent) — the step under `c15_import_stored`.
-/
namespace Siot.Export
open Siot Siot.Store

/-! ### edges: what `updateHash` cannot change -/
def shape (e : Edge) : Bytes × Bytes × Bytes := (e.up, e.down, e.typ)

theorem toggleList_shape (es : List Edge) (k : EK) (δ : Nat) : (toggleList es k δ).map shape = es.map shape := by
  unfold toggleList
  rw [List.map_map]
  apply List.map_congr_left
  intro x _
  simp only [Function.comp, shape]
  split <;> rfl

theorem bump_shape : ∀ (fuel : Nat) (es : List Edge) (n : Bytes) (δ : Nat), (bump fuel es n δ).map shape = es.map shape := by
  intro fuel
  induction fuel with
  | zero => intro es n δ; rfl
  | succ fuel ih =>
    intro es n δ
    rw [bump_succ]
    have key : ∀ (P : List Edge) (acc : List Edge), acc.map shape = es.map shape →
        (P.foldl (fun acc e => bump fuel (toggleList acc (keyOf e) δ) e.up δ) acc).map shape = es.map shape := by
      intro P
      induction P with
      | nil => intro acc h; exact h
      | cons e P ihP =>
        intro acc h
        simp only [List.foldl_cons]
        apply ihP
        rw [ih, toggleList_shape, h]
    exact key _ es rfl

theorem bump_no_parent (fuel : Nat) (es : List Edge) (n : Bytes) (δ : Nat) (h : ∀ e ∈ es, e.down ≠ n) :
    bump fuel es n δ = es := by
  cases fuel with
  | zero => rfl
  | succ fuel =>
    rw [bump_succ]
    have : es.filter (fun e => e.down == n) = [] := by
      rw [List.filter_eq_nil_iff]
      intro e he
      simpa using h e he
    rw [this]; rfl

theorem shape_keys (a b : List Edge) (h : a.map shape = b.map shape) : keysOf a = keysOf b := by
  have : ∀ l : List Edge, keysOf l = (l.map shape).map (fun s => (s.1, s.2.1)) := by
    intro l; unfold keysOf; rw [List.map_map]; rfl
  rw [this a, this b, h]

theorem shape_mem (a b : List Edge) (h : a.map shape = b.map shape) (e : Edge) (he : e ∈ a) : ∃ e' ∈ b, shape e' = shape e := by
  have : shape e ∈ b.map shape := by rw [← h]; exact List.mem_map_of_mem (f := shape) he
  simp only [List.mem_map] at this
  exact this

/-! ### stored rows -/
/-- a row as the store keeps it: key normalised, no -0, no NaN, stamped -/
def RowOk (p : Point) : Prop := p.key ≠ [] ∧ p.value ≠ negZero ∧ isNaN p.value = false ∧ p.time ≠ 0

theorem norm_blank (p : Point) (h : RowOk p) : normPoint (blankKey p) = p := by
  obtain ⟨hk, hv, _, _⟩ := h
  unfold blankKey normPoint
  by_cases hz : p.key = zeroKey
  · rw [if_pos hz]
    simp only [normKey, List.isEmpty_nil, if_true, hv, if_false]
    cases p
    simp_all
  · rw [if_neg hz]
    have : p.key.isEmpty = false := by
      cases hp : p.key with
      | nil => exact absurd hp hk
      | cons _ _ => rfl
    simp only [normKey, this, Bool.false_eq_true, if_false, hv]

theorem blankKey_time (p : Point) : (blankKey p).time = p.time := by unfold blankKey; split <;> rfl
theorem blankKey_type (p : Point) : (blankKey p).type = p.type := by unfold blankKey; split <;> rfl
theorem blankKey_value (p : Point) : (blankKey p).value = p.value := by unfold blankKey; split <;> rfl

def stamp (now : Int) (p : Point) : Point := if p.time = 0 then { p with time := now } else p

theorem stamp_blank (now : Int) (p : Point) (h : RowOk p) : stamp now (blankKey p) = blankKey p := by
  unfold stamp
  rw [if_neg (by rw [blankKey_time]; exact h.2.2.2)]

/-- what the store makes of the exported form of stored rows: the rows -/
theorem rows_back (now : Int) (ps : List Point) (h : ∀ p ∈ ps, RowOk p) :
    ((ps.map blankKey).map (stamp now)).map normPoint = ps := by
  rw [List.map_map, List.map_map]
  rw [List.map_congr_left (g := id) (fun p hp => by
    simp only [Function.comp, stamp_blank now p (h p hp), norm_blank p (h p hp), id])]
  simp

theorem rows_no_nan (now : Int) (ps : List Point) (h : ∀ p ∈ ps, RowOk p) :
    ((ps.map blankKey).map (stamp now)).any (fun p => isNaN p.value) = false := by
  rw [List.any_eq_false]
  intro q hq
  simp only [List.mem_map] at hq
  obtain ⟨q', ⟨p, hp, rfl⟩, rfl⟩ := hq
  rw [stamp_blank now p (h p hp), blankKey_value]
  simp [(h p hp).2.2.1]

theorem collapse_idUnique : ∀ (l : List Point), IdUnique l → collapse l = l := by
  intro l
  induction l with
  | nil => intro _; rfl
  | cons p ps ih =>
    intro h
    unfold IdUnique at h
    rw [List.pairwise_cons] at h
    simp only [collapse, ih h.2]
    have : ps.find? (sameId p) = none := by
      rw [List.find?_eq_none]
      intro q hq
      simp [h.1 q hq]
    rw [this]

theorem mergeBatch_fresh : ∀ (batch db : List Point), (∀ p ∈ batch, ∀ q ∈ db, sameId p q = false) → IdUnique batch →
    (mergeBatch db batch).1 = db ++ batch := by
  intro batch
  induction batch with
  | nil => intro db _ _; simp [mergeBatch]
  | cons p ps ih =>
    intro db hf hu
    unfold IdUnique at hu
    rw [List.pairwise_cons] at hu
    have hnone : db.find? (sameId p) = none := by
      rw [List.find?_eq_none]
      intro q hq
      simp [hf p (by simp) q hq]
    simp only [mergeBatch, hnone]
    rw [ih (db ++ [p]) ?_ hu.2]
    · simp
    · intro p' hp' q hq
      simp only [List.mem_append, List.mem_singleton] at hq
      rcases hq with hq | rfl
      · exact hf p' (by simp [hp']) q hq
      · rw [sameId_symm]; exact hu.1 p' hp'

/-! ### frames of the two writes -/
theorem ptsOf_write (st : St) (id : Bytes) (rows : List Point) (es : List Edge) (y : Bytes) :
    ptsOf { st with nodePts := st.nodePts.filter (fun r => r.1 != id) ++ rows.map (fun p => (id, p)), edges := es } y =
      if y = id then rows else ptsOf st y := by
  unfold ptsOf
  simp only [List.filter_append, List.map_append, List.filter_filter]
  by_cases hy : y = id
  · subst hy
    rw [if_pos rfl]
    have h1 : st.nodePts.filter (fun r => (r.1 == y && r.1 != y)) = [] := by
      rw [List.filter_eq_nil_iff]; intro r _; simp
    have h2 : (rows.map (fun p => (y, p))).filter (fun r => r.1 == y) = rows.map (fun p => (y, p)) := by
      rw [List.filter_eq_self]; intro r hr; simp only [List.mem_map] at hr; obtain ⟨_, _, rfl⟩ := hr; simp
    rw [h1, h2, List.map_nil, List.nil_append, List.map_map]
    have : ((fun (x : Bytes × Point) => x.snd) ∘ fun p => (y, p)) = id := rfl
    rw [this]; simp
  · rw [if_neg hy]
    have h1 : st.nodePts.filter (fun r => (r.1 == y && r.1 != id)) = st.nodePts.filter (fun r => r.1 == y) := by
      apply List.filter_congr
      intro r _
      by_cases hr : r.1 = y
      · simp [hr, hy]
      · simp [hr]
    have h2 : (rows.map (fun p => (id, p))).filter (fun r => r.1 == y) = [] := by
      rw [List.filter_eq_nil_iff]; intro r hr; simp only [List.mem_map] at hr; obtain ⟨_, _, rfl⟩ := hr
      simpa using fun h => hy h.symm
    rw [h1, h2]; simp

theorem reach_up (ks : List EK) (n x : Bytes) (h : Reach ks n x) : x = n ∨ ∃ k ∈ ks, k.1 = x := by
  induction h with
  | refl n => exact Or.inl rfl
  | step n x k hk _ _ ih =>
    rcases ih with rfl | h
    · exact Or.inr ⟨k, hk, rfl⟩
    · exact Or.inr h

theorem eptsOf_append (st st' : St) (k : EK) (rows : List Point) (u d : Bytes)
    (h : st'.edgePts = st.edgePts ++ rows.map (fun p => (k, p))) :
    eptsOf st' u d = eptsOf st u d ++ (if (u, d) = k then rows else []) := by
  unfold eptsOf
  rw [h]
  simp only [List.filter_append, List.map_append]
  congr 1
  by_cases hk : (u, d) = k
  · rw [if_pos hk]
    have : (rows.map (fun p => (k, p))).filter (fun r => r.1 == (u, d)) = rows.map (fun p => (k, p)) := by
      rw [List.filter_eq_self]; intro r hr; simp only [List.mem_map] at hr; obtain ⟨_, _, rfl⟩ := hr; simp [hk]
    rw [this, List.map_map]
    have : ((fun (x : EK × Point) => x.snd) ∘ fun p => (k, p)) = id := rfl
    rw [this]; simp
  · rw [if_neg hk]
    have : (rows.map (fun p => (k, p))).filter (fun r => r.1 == (u, d)) = [] := by
      rw [List.filter_eq_nil_iff]; intro r hr; simp only [List.mem_map] at hr; obtain ⟨_, _, rfl⟩ := hr
      simpa using fun h => hk h.symm
    rw [this]; rfl

/-! ### one exported node sent to a store that does not know it -/
def keepE (p : Point) : Bool := !(p.type == tombstoneT && (p.value == 0 || p.value == negZero))

theorem exportEdgePts_eq (eps : List Point) : exportEdgePts eps = (eps.filter keepE).map blankKey := by
  unfold exportEdgePts
  rw [List.filter_map]
  congr 1
  apply List.filter_congr
  intro p _
  simp only [Function.comp, keepE, blankKey_type, blankKey_value]

/-- the node is unknown to the store -/
structure Fresh (st : St) (x : Bytes) : Prop where
  edges : ∀ e ∈ st.edges, e.up ≠ x ∧ e.down ≠ x
  pts : ptsOf st x = []
  epts : ∀ u, eptsOf st u x = []
  root : x ≠ st.root

/-- a node as `exportNodesHelper` writes it: its points and edge points are stored rows (`ps`, `eps`) in exported form -/
structure Exported (n : NodeRec) (ps eps : List Point) : Prop where
  pts : n.pts = ps.map blankKey
  epts : n.epts = exportEdgePts eps
  pok : ∀ p ∈ ps, RowOk p
  pu : IdUnique ps
  eok : ∀ p ∈ eps, RowOk p ∧ p.type ≠ nodeTypeT
  eu : IdUnique eps

/-- stored edge rows carry the tombstone point (key "0") -/
def hasTombE (l : List Point) : Bool := l.any (fun p => p.type == tombstoneT && p.key == zeroKey)

/-- the edge rows the store holds after the import: the exported ones, plus a tombstone-0 point when they carry none -/
def storedE (eps : List Point) (now : Int) : List Point :=
  eps.filter keepE ++ (if hasTombE (eps.filter keepE) then [] else [{ type := tombstoneT, key := zeroKey, time := now }])

theorem export_storedE (eps : List Point) (now : Int) : exportEdgePts (storedE eps now) = exportEdgePts eps := by
  unfold storedE
  rw [exportEdgePts_eq, exportEdgePts_eq, List.filter_append, List.filter_filter]
  have h1 : (eps.filter (fun a => keepE a && keepE a)) = eps.filter keepE := by
    apply List.filter_congr; intro p _; simp
  have h2 : (if hasTombE (eps.filter keepE) then ([] : List Point) else [{ type := tombstoneT, key := zeroKey, time := now }]).filter keepE = [] := by
    split
    · rfl
    · rfl
  rw [h1, h2, List.append_nil]

theorem hasTomb_blank (k : List Point) (hk : ∀ p ∈ k, p.key ≠ []) : hasTomb (k.map blankKey) = hasTombE k := by
  induction k with
  | nil => rfl
  | cons p k ih =>
    have ihk := ih (fun q hq => hk q (List.mem_cons_of_mem _ hq))
    have hp := hk p (List.mem_cons_self ..)
    unfold hasTomb hasTombE at *
    simp only [List.map_cons, List.any_cons, ihk, blankKey_type]
    congr 1
    congr 1
    unfold blankKey
    by_cases hz : p.key = zeroKey
    · simp [hz]
    · rw [if_neg hz]
      have h1 : (p.key == []) = false := by simpa using hp
      have h2 : (p.key == zeroKey) = false := by simpa using hz
      rw [h1, h2]; rfl

theorem idUnique_sublist {a b : List Point} (h : a.Sublist b) (hu : IdUnique b) : IdUnique a := List.Pairwise.sublist h hu

/-- `SendNode` of a node unknown to the store, given only what the points sent amount to once the store has normalised
    them: the node rows `ps`, the edge rows `E` (the node type aside) -/
theorem sendNode_core (st : St) (n : NodeRec) (ps E : List Point) (now : Int)
    (hrows : ((n.pts.map (stamp now)).map normPoint) = ps)
    (hnan : (n.pts.map (stamp now)).any (fun p => isNaN p.value) = false) (hpu : IdUnique ps)
    (hsent : ((n.epts.map (stamp now) ++ (if hasTomb n.epts then [] else [({ type := tombstoneT, time := now } : Point)]) ++
      [({ type := nodeTypeT, text := n.typ, time := now } : Point)]).map normPoint) =
      E ++ [({ type := nodeTypeT, key := zeroKey, text := n.typ, time := now } : Point)])
    (hsnt : ∀ a ∈ E, a.type ≠ nodeTypeT)
    (hsu : IdUnique (E ++ [({ type := nodeTypeT, key := zeroKey, text := n.typ, time := now } : Point)]))
    (hnan2 : (n.epts.map (stamp now) ++ (if hasTomb n.epts then [] else [({ type := tombstoneT, time := now } : Point)]) ++
      [({ type := nodeTypeT, text := n.typ, time := now } : Point)]).any (fun p => isNaN p.value) = false)
    (hf : Fresh st n.id) (hid : n.id ≠ [])
    (hp : n.parent ≠ [] ∧ n.parent ≠ noneS ∧ n.parent ≠ rootS ∧ n.parent ≠ n.id) (ht : n.typ ≠ []) :
    ∃ st', sendNode st n now = .ok st' ∧
      st'.edges.map shape = st.edges.map shape ++ [(n.parent, n.id, n.typ)] ∧
      (∀ y, ptsOf st' y = if y = n.id then ps else ptsOf st y) ∧
      (∀ u d, eptsOf st' u d = if (u, d) = (n.parent, n.id) then E else eptsOf st u d) ∧
      st'.root = st.root := by
  obtain ⟨hp1, hp2, hp3, hp4⟩ := hp
  have hbump : ∀ δ, bump (2 ^ st.edges.length) st.edges n.id δ = st.edges :=
    fun δ => bump_no_parent _ _ _ _ (fun e he => (hf.edges e he).2)
  have hnp : nodePoints st n.id (n.pts.map (stamp now)) =
      .ok { st with nodePts := st.nodePts.filter (fun r => r.1 != n.id) ++ ps.map (fun p => (n.id, p)), edges := st.edges } := by
    unfold nodePoints
    rw [if_neg (by rw [hnan]; simp), hrows, collapse_idUnique ps hpu, hf.pts]
    simp only [hbump]
    rw [mergeBatch_fresh ps [] (fun _ _ q hq => absurd hq List.not_mem_nil) hpu]
    rfl
  have hf1 : (E ++ [({ type := nodeTypeT, key := zeroKey, text := n.typ, time := now } : Point)]).filter
      (fun p => p.type == nodeTypeT) = [({ type := nodeTypeT, key := zeroKey, text := n.typ, time := now } : Point)] := by
    rw [List.filter_append]
    have : (E).filter (fun p => p.type == nodeTypeT) = [] := by
      rw [List.filter_eq_nil_iff]; intro a ha; simpa using hsnt a ha
    rw [this]; simp
  have hf2 : (E ++ [({ type := nodeTypeT, key := zeroKey, text := n.typ, time := now } : Point)]).filter
      (fun p => p.type != nodeTypeT) = E := by
    rw [List.filter_append]
    have : (E).filter (fun p => p.type != nodeTypeT) = E := by
      rw [List.filter_eq_self]; intro a ha; simpa using hsnt a ha
    rw [this]; simp
  have hfind : st.edges.find? (fun e => e.up == n.parent && e.down == n.id) = none := by
    rw [List.find?_eq_none]
    intro e he
    have := (hf.edges e he).2
    simp [this]
  have hcyc : (ancestors (2 ^ st.edges.length) st.edges n.parent).contains n.id = false := by
    cases hc : (ancestors (2 ^ st.edges.length) st.edges n.parent).contains n.id with
    | false => rfl
    | true =>
      exfalso
      have hm : n.id ∈ ancestors (2 ^ st.edges.length) st.edges n.parent := by simpa using hc
      rcases reach_up _ _ _ (ancestors_sound st.edges _ _ _ hm) with h | ⟨k, hk, hk1⟩
      · exact hp4 h.symm
      · simp only [keysOf, List.mem_map] at hk
        obtain ⟨e, he, rfl⟩ := hk
        exact (hf.edges e he).1 hk1
  have hte : n.typ.isEmpty = false := by
    cases hc : n.typ with
    | nil => exact absurd hc ht
    | cons _ _ => rfl
  have hpe : n.parent.isEmpty = false := by
    cases hc : n.parent with
    | nil => exact absurd hc hp1
    | cons _ _ => rfl
  have hie : n.id.isEmpty = false := by
    cases hc : n.id with
    | nil => exact absurd hc hid
    | cons _ _ => rfl
  refine ⟨edgeInsert { st with nodePts := st.nodePts.filter (fun r => r.1 != n.id) ++ ps.map (fun p => (n.id, p)), edges := st.edges }
    n.parent n.id n.typ (E), ?_, ?_, ?_, ?_, ?_⟩
  · unfold sendNode
    simp only []
    rw [if_neg hid, if_neg (by intro h; rcases h with h | h; exact hp1 h; exact hp2 h)]
    show (match nodePoints st n.id (n.pts.map (stamp now)) with
      | .ok st1 => edgePoints st1 n.id n.parent (n.epts.map (stamp now) ++ (if hasTomb n.epts then [] else [({ type := tombstoneT, time := now } : Point)]) ++
          [({ type := nodeTypeT, text := n.typ, time := now } : Point)])
      | e => e) = _
    rw [hnp]
    simp only []
    unfold edgePoints
    rw [if_neg (fun h => hp4 h.symm), if_neg (fun h => hf.root h.1), if_neg (by rw [hnan2]; simp)]
    simp only [hpe, Bool.false_eq_true, if_false]
    unfold edgePointsCore
    simp only [hsent, collapse_idUnique _ hsu, hf1, hf2, hfind, List.getLast?_singleton, Option.map_some, Option.getD_some, hte,
      Bool.false_eq_true, if_false, hcyc]
  · simp only [edgeInsert]
    rw [bump_shape, List.map_append]
    rfl
  · intro y
    have : ptsOf (edgeInsert { st with nodePts := st.nodePts.filter (fun r => r.1 != n.id) ++ ps.map (fun p => (n.id, p)), edges := st.edges }
        n.parent n.id n.typ (E)) y =
        ptsOf { st with nodePts := st.nodePts.filter (fun r => r.1 != n.id) ++ ps.map (fun p => (n.id, p)), edges := st.edges } y := rfl
    rw [this, ptsOf_write]
  · intro u d
    have hsE : IdUnique (E) := by
      unfold IdUnique at hsu
      rw [List.pairwise_append] at hsu
      exact hsu.1
    have hmb : (mergeBatch [] (E)).1 = E := by
      rw [mergeBatch_fresh _ [] (fun _ _ q hq => absurd hq List.not_mem_nil) hsE]; rfl
    rw [eptsOf_append st _ (n.parent, n.id) (E) u d (by simp only [edgeInsert, hmb])]
    by_cases hk : (u, d) = (n.parent, n.id)
    · rw [if_pos hk, if_pos hk]
      injection hk with h1 h2
      subst h1; subst h2
      rw [hf.epts]; rfl
    · rw [if_neg hk, if_neg hk]; simp
  · simp only [edgeInsert]
    rw [if_neg hp3]


theorem sendNode_fresh (st : St) (n : NodeRec) (ps eps : List Point) (now : Int)
    (hex : Exported n ps eps) (hf : Fresh st n.id) (hid : n.id ≠ [])
    (hp : n.parent ≠ [] ∧ n.parent ≠ noneS ∧ n.parent ≠ rootS ∧ n.parent ≠ n.id) (ht : n.typ ≠ []) :
    ∃ st', sendNode st n now = .ok st' ∧
      st'.edges.map shape = st.edges.map shape ++ [(n.parent, n.id, n.typ)] ∧
      (∀ y, ptsOf st' y = if y = n.id then ps else ptsOf st y) ∧
      (∀ u d, eptsOf st' u d = if (u, d) = (n.parent, n.id) then storedE eps now else eptsOf st u d) ∧
      st'.root = st.root := by
  -- the node points
  have hrows : ((n.pts.map (stamp now)).map normPoint) = ps := by rw [hex.pts]; exact rows_back now ps hex.pok
  have hnan : (n.pts.map (stamp now)).any (fun p => isNaN p.value) = false := by rw [hex.pts]; exact rows_no_nan now ps hex.pok
  -- the edge points
  have hK : n.epts = (eps.filter keepE).map blankKey := by rw [hex.epts, exportEdgePts_eq]
  have hKok : ∀ p ∈ eps.filter keepE, RowOk p := fun p hp => (hex.eok p (List.mem_filter.mp hp).1).1
  have hK0 : ∀ p ∈ eps.filter keepE, p.key ≠ [] := fun p hp => (hKok p hp).1
  have hsent : ((n.epts.map (stamp now) ++ (if hasTomb n.epts then [] else [({ type := tombstoneT, time := now } : Point)]) ++
      [({ type := nodeTypeT, text := n.typ, time := now } : Point)]).map normPoint) =
      storedE eps now ++ [({ type := nodeTypeT, key := zeroKey, text := n.typ, time := now } : Point)] := by
    rw [List.map_append, List.map_append]
    congr 1
    unfold storedE
    rw [hK, hasTomb_blank _ hK0, rows_back now _ hKok]
    congr 1
    split <;> rfl
  have hsnt : ∀ a ∈ storedE eps now, a.type ≠ nodeTypeT := by
    intro a ha
    unfold storedE at ha
    rcases List.mem_append.mp ha with ha | ha
    · exact (hex.eok a (List.mem_filter.mp ha).1).2
    · split at ha
      · cases ha
      · simp only [List.mem_singleton] at ha; subst ha; show tombstoneT ≠ nodeTypeT; decide
  have hsu : IdUnique (storedE eps now ++ [({ type := nodeTypeT, key := zeroKey, text := n.typ, time := now } : Point)]) := by
    unfold IdUnique
    rw [List.pairwise_append]
    refine ⟨?_, List.pairwise_singleton _ _, ?_⟩
    · unfold storedE
      rw [List.pairwise_append]
      refine ⟨idUnique_sublist List.filter_sublist hex.eu, ?_, ?_⟩
      · split
        · exact List.Pairwise.nil
        · exact List.pairwise_singleton _ _
      · intro a ha b hb
        split at hb
        · cases hb
        · rename_i hnt
          simp only [List.mem_singleton] at hb
          subst hb
          have hnt' : hasTombE (eps.filter keepE) = false := by simpa using hnt
          unfold hasTombE at hnt'
          rw [List.any_eq_false] at hnt'
          have := hnt' a ha
          simpa [sameId] using this
    · intro a ha b hb
      simp only [List.mem_singleton] at hb
      subst hb
      have := hsnt a ha
      simp [sameId, this]
  have hnan2 : (n.epts.map (stamp now) ++ (if hasTomb n.epts then [] else [({ type := tombstoneT, time := now } : Point)]) ++
      [({ type := nodeTypeT, text := n.typ, time := now } : Point)]).any (fun p => isNaN p.value) = false := by
    rw [List.any_append, List.any_append, Bool.or_eq_false_iff, Bool.or_eq_false_iff]
    refine ⟨⟨?_, ?_⟩, by simp only [List.any_cons, List.any_nil, Bool.or_false]; decide⟩
    · rw [hK]; exact rows_no_nan now _ hKok
    · split
      · rfl
      · simp only [List.any_cons, List.any_nil, Bool.or_false]; decide
  exact sendNode_core st n ps (storedE eps now) now hrows hnan hex.pu hsent hsnt hsu hnan2 hf hid hp ht

/-! ### the deletion mark survives -/
/-- the tombstone value of stored edge rows (`Points.Find(tombstone, "")` on keys normalised to "0") -/
def tombE (l : List Point) : Nat :=
  match l.find? (fun p => p.type == tombstoneT && p.key == zeroKey) with
  | some p => p.value
  | none => 0

/-- the same on the exported form (key "0" written as "") -/
def tombX (l : List Point) : Nat :=
  match l.find? (fun p => p.type == tombstoneT && p.key == []) with
  | some p => p.value
  | none => 0

theorem edgeTomb_eq (st : St) (e : Edge) : edgeTomb st e = tombE (eptsOf st e.up e.down) := rfl

theorem find_congr' {α} (l : List α) (p q : α → Bool) (h : ∀ a ∈ l, p a = q a) : l.find? p = l.find? q := by
  induction l with
  | nil => rfl
  | cons a l ih =>
    simp only [List.find?_cons, h a (by simp)]
    rw [ih (fun b hb => h b (by simp [hb]))]

theorem blankKey_key_nil (p : Point) (h : p.key ≠ []) : ((blankKey p).key == []) = (p.key == zeroKey) := by
  unfold blankKey
  by_cases hz : p.key = zeroKey
  · simp [hz]
  · rw [if_neg hz]
    have h1 : (p.key == []) = false := by simpa using h
    have h2 : (p.key == zeroKey) = false := by simpa using hz
    rw [h1, h2]

theorem tombX_map_blank (l : List Point) (h : ∀ p ∈ l, p.key ≠ []) : tombX (l.map blankKey) = tombE l := by
  unfold tombX tombE
  rw [List.find?_map]
  rw [find_congr' l ((fun p => p.type == tombstoneT && p.key == []) ∘ blankKey) (fun p => p.type == tombstoneT && p.key == zeroKey)
    (fun p hp => by simp only [Function.comp, blankKey_type, blankKey_key_nil p (h p hp)])]
  cases l.find? (fun p => p.type == tombstoneT && p.key == zeroKey) with
  | none => rfl
  | some p => simp [blankKey_value]

theorem tombE_append_none (k : List Point) (now : Int) (h : hasTombE k = false) :
    tombE (k ++ [{ type := tombstoneT, key := zeroKey, time := now }]) = tombE k := by
  unfold tombE
  unfold hasTombE at h
  rw [List.any_eq_false] at h
  have hnone : k.find? (fun p => p.type == tombstoneT && p.key == zeroKey) = none := by
    rw [List.find?_eq_none]
    intro a ha
    simpa using h a ha
  rw [List.find?_append, hnone]
  rfl

theorem tomb_storedE (eps : List Point) (now : Int) (hok : ∀ p ∈ eps, RowOk p) :
    tombE (storedE eps now) = tombX (exportEdgePts eps) := by
  rw [exportEdgePts_eq, tombX_map_blank _ (fun p hp => (hok p (List.mem_filter.mp hp).1).1)]
  unfold storedE
  split
  · rw [List.append_nil]
  · rename_i h
    exact tombE_append_none _ now (by simpa using h)

/-! ### a whole exported tree, node after node -/
/-- what ImportNodes sends for one node: exported rows, an id, a type, a parent that is neither blank, "none", "root"
    nor the node itself -/
structure NodeOk (n : NodeRec) : Prop where
  exported : ∃ ps eps, Exported n ps eps
  id : n.id ≠ []
  typ : n.typ ≠ []
  parent : n.parent ≠ [] ∧ n.parent ≠ noneS ∧ n.parent ≠ rootS ∧ n.parent ≠ n.id

def shapeOf (x : Nat × NodeRec) : Bytes × Bytes × Bytes := (x.2.parent, x.2.id, x.2.typ)

theorem sendAll_fresh : ∀ (f : Flat) (st : St) (now : Int),
    (∀ x ∈ f, NodeOk x.2 ∧ Fresh st x.2.id) → f.Pairwise (fun a b => b.2.id ≠ a.2.id ∧ b.2.id ≠ a.2.parent) →
    ∃ st', sendAll st f now = .ok st' ∧
      st'.edges.map shape = st.edges.map shape ++ f.map shapeOf ∧
      (∀ x ∈ f, (ptsOf st' x.2.id).map blankKey = x.2.pts ∧ exportEdgePts (eptsOf st' x.2.parent x.2.id) = x.2.epts ∧
        tombE (eptsOf st' x.2.parent x.2.id) = tombX x.2.epts) ∧
      (∀ y, (∀ x ∈ f, x.2.id ≠ y) → ptsOf st' y = ptsOf st y) ∧
      (∀ u d, (∀ x ∈ f, x.2.id ≠ d) → eptsOf st' u d = eptsOf st u d) ∧
      st'.root = st.root := by
  intro f
  induction f with
  | nil =>
    intro st now _ _
    exact ⟨st, rfl, by simp, fun x hx => absurd hx List.not_mem_nil, fun _ _ => rfl, fun _ _ _ => rfl, rfl⟩
  | cons x rest ih =>
    intro st now hall hpw
    obtain ⟨d, n⟩ := x
    rw [List.pairwise_cons] at hpw
    obtain ⟨hok, hfr⟩ := hall (d, n) (by simp)
    obtain ⟨ps, eps, hex⟩ := hok.exported
    obtain ⟨st1, hs1, hsh1, hpt1, hep1, hr1⟩ := sendNode_fresh st n ps eps now hex hfr hok.id hok.parent hok.typ
    -- the remaining nodes are still unknown to the store
    have hall1 : ∀ y ∈ rest, NodeOk y.2 ∧ Fresh st1 y.2.id := by
      intro y hy
      obtain ⟨hoky, hfy⟩ := hall y (by simp [hy])
      obtain ⟨hne1, hne2⟩ := hpw.1 y hy
      refine ⟨hoky, ⟨?_, ?_, ?_, ?_⟩⟩
      · intro e he
        have hm : shape e ∈ st1.edges.map shape := List.mem_map_of_mem (f := shape) he
        rw [hsh1, List.mem_append] at hm
        rcases hm with hm | hm
        · simp only [List.mem_map] at hm
          obtain ⟨e', he', hse⟩ := hm
          have := hfy.edges e' he'
          simp only [shape, Prod.mk.injEq] at hse
          rw [← hse.1, ← hse.2.1]
          exact this
        · simp only [List.mem_singleton, shape, Prod.mk.injEq] at hm
          rw [hm.1, hm.2.1]
          exact ⟨fun h => hne2 h.symm, fun h => hne1 h.symm⟩
      · rw [hpt1, if_neg hne1]; exact hfy.pts
      · intro u
        rw [hep1, if_neg (by intro h; injection h with _ h2; exact hne1 h2)]
        exact hfy.epts u
      · rw [hr1]; exact hfy.root
    obtain ⟨st', hs', hsh', hrec', hpt', hep', hr'⟩ := ih st1 (now + 1) hall1 hpw.2
    refine ⟨st', by simp only [sendAll, hs1, hs'], ?_, ?_, ?_, ?_, by rw [hr', hr1]⟩
    · rw [hsh', hsh1]; simp [shapeOf]
    · intro y hy
      simp only [List.mem_cons] at hy
      rcases hy with rfl | hy
      · have hother : ∀ z ∈ rest, z.2.id ≠ n.id := fun z hz => (hpw.1 z hz).1
        simp only []
        rw [hpt' n.id hother, hpt1, if_pos rfl, hep' n.parent n.id hother, hep1, if_pos rfl, export_storedE,
          tomb_storedE eps now (fun p hp => (hex.eok p hp).1)]
        exact ⟨hex.pts.symm, hex.epts.symm, by rw [hex.epts]⟩
      · exact hrec' y hy
    · intro y hy
      rw [hpt' y (fun z hz => hy z (by simp [hz])), hpt1, if_neg (fun h => hy (d, n) (by simp) h.symm)]
    · intro u dd hy
      rw [hep' u dd (fun z hz => hy z (by simp [hz])), hep1,
        if_neg (by intro h; injection h with _ h2; exact hy (d, n) (by simp) h2.symm)]

/-! ### re-export: the traversal of the store follows the parent pointers of the file -/
theorem flatMap_congr_map {α β γ δ : Type} (g1 : α → γ) (g2 : β → γ) (F : α → List δ) (G : β → List δ) :
    ∀ (l1 : List α) (l2 : List β), l1.map g1 = l2.map g2 →
      (∀ a ∈ l1, ∀ b ∈ l2, g1 a = g2 b → F a = G b) → l1.flatMap F = l2.flatMap G := by
  intro l1
  induction l1 with
  | nil => intro l2 h _; cases l2 with
    | nil => rfl
    | cons _ _ => simp at h
  | cons a l1 ih =>
    intro l2 h hfg
    cases l2 with
    | nil => simp at h
    | cons b l2 =>
      simp only [List.map_cons, List.cons.injEq] at h
      simp only [List.flatMap_cons]
      rw [hfg a (by simp) b (by simp) h.1, ih l2 h.2 (fun a' ha b' hb => hfg a' (by simp [ha]) b' (by simp [hb]))]

theorem filter_up_shape (es : List Edge) (p : Bytes) :
    (es.filter (fun e => e.up == p)).map shape = (es.map shape).filter (fun s => s.1 == p) := by
  rw [List.filter_map]
  rfl

theorem filter_parent_shape (f : Flat) (p : Bytes) :
    (f.filter (fun x => x.2.parent == p)).map shapeOf = (f.map shapeOf).filter (fun s => s.1 == p) := by
  rw [List.filter_map]
  rfl

end Siot.Export
