import Siot.Lemmas.ConfigField
/-
C10, second half: the points `DiffPoints before after` produces, merged into `before`, give `after`.
Scalars, pointers and flat structs here; indexed containers in ConfigDiffIdx.lean, maps in ConfigDiffMap.lean.
-/
namespace Siot.Config
open Siot

/-- Go equality of the merged scalar `r` with the wanted scalar `a`: the same value, or two floats that Go's `==`
    calls equal (`DiffPoints` emits no point for a field whose old value is `==` to the new one, so the old value
    stays: +0 for -0). For every kind but the floats this is plain equality (`near_eq`). -/
def Near (N : Num) (k : SKind) (r a : SVal) : Prop := r = a ∨ sEq N k r a = true ∨ sEq N k a r = true

theorem Near.rfl' (N : Num) (k : SKind) (a : SVal) : Near N k a a := Or.inl rfl

theorem sEq_eq_of_not_float (N : Num) (k : SKind) (x y : SVal) (hx : ∀ b, x ≠ .f b) (h : sEq N k x y = true) : x = y := by
  unfold sEq at h
  cases x <;> cases y <;> simp_all

/-- outside the floats, `Near` is equality -/
theorem near_eq (N : Num) (k : SKind) (r a : SVal) (hr : ∀ b, r ≠ .f b) (ha : ∀ b, a ≠ .f b) (h : Near N k r a) : r = a := by
  rcases h with h | h | h
  · exact h
  · exact sEq_eq_of_not_float N k r a hr h
  · exact (sEq_eq_of_not_float N k a r ha h).symm

def NearL (N : Num) (k : SKind) : List SVal → List SVal → Prop
  | [], [] => True
  | r :: rs, a :: as => Near N k r a ∧ NearL N k rs as
  | _, _ => False

theorem NearL.refl (N : Num) (k : SKind) : ∀ l, NearL N k l l
  | [] => trivial
  | a :: l => ⟨Near.rfl' N k a, NearL.refl N k l⟩

theorem NearL.length_eq {N : Num} {k : SKind} : ∀ {r a : List SVal}, NearL N k r a → r.length = a.length
  | [], [], _ => rfl
  | _ :: rs, _ :: as, h => by simp [NearL.length_eq (r := rs) (a := as) h.2]
  | [], _ :: _, h => by simp [NearL] at h
  | _ :: _, [], h => by simp [NearL] at h

/-- field by field over a flat struct -/
def NearS (N : Num) : List (Bytes × SKind) → List SVal → List SVal → Prop
  | [], [], [] => True
  | f :: fs, r :: rs, a :: as => Near N f.2 r a ∧ NearS N fs rs as
  | _, _, _ => False

theorem NearS.refl (N : Num) : ∀ (fs : List (Bytes × SKind)) (l : List SVal), fs.length = l.length → NearS N fs l l
  | [], [], _ => trivial
  | f :: fs, a :: l, h => ⟨Near.rfl' N f.2 a, NearS.refl N fs l (by simpa using h)⟩
  | [], _ :: _, h => by simp at h
  | _ :: _, [], h => by simp at h

def lk (kvs : List (Bytes × SVal)) (key : Bytes) : Option SVal := (kvs.find? (fun kv => kv.1 == key)).map (·.2)

/-- two maps with the same keys and `Near` values (Go maps are unordered) -/
def NearM (N : Num) (k : SKind) (r a : List (Bytes × SVal)) : Prop :=
  (r.map (·.1)).Nodup ∧ ∀ key, match lk a key with
    | some v => ∃ w, lk r key = some w ∧ Near N k w v
    | none => lk r key = none

/-- the merged field value `r` is the wanted value `a` -/
def FNear (N : Num) : FieldTy → FVal → FVal → Prop
  | .scalar k, .scalar r, .scalar a => Near N k r a
  | .ptr _, .ptr r, .ptr a => r = a
  | .slice k, .slice r, .slice a => NearL N k r a
  | .array _ k, .array r, .array a => NearL N k r a
  | .map k, .map r, .map a => NearM N k r a
  | .struct fs, .struct r, .struct a => NearS N fs r a
  | .ptrStruct _, .ptrStruct none, .ptrStruct none => True
  | .ptrStruct fs, .ptrStruct (some r), .ptrStruct (some a) => NearS N fs r a
  | _, _, _ => False

/-- what merging one field's diff points into the old value gives -/
def DiffRT (N : Num) (ty : FieldTy) (b a : FVal) (ps : List Point) : Prop :=
  (ps = [] ∧ FNear N ty b a) ∨
  (ps ≠ [] ∧ ∃ r, setValue N (ps.foldl groupStep {}) ty b = (r, .ok) ∧ FNear N ty r a)

theorem setScalar_addNorm (N : Num) (k : SKind) (p : Point) : setScalar N k (addNorm p) = setScalar N k p := by
  unfold addNorm
  split <;> rfl

theorem addNorm_type (p : Point) : (addNorm p).type = p.type := by
  unfold addNorm; split <;> rfl

theorem addNorm_tomb (p : Point) : (addNorm p).tomb = p.tomb := by
  unfold addNorm; split <;> rfl

theorem addNorm_key (p : Point) (h : p.key ≠ []) : addNorm p = p := by
  unfold addNorm
  rw [if_neg]
  cases hk : p.key with
  | nil => exact absurd hk h
  | cons _ _ => simp

theorem addNorm_key_ne (p : Point) : (addNorm p).key ≠ [] := by
  unfold addNorm
  split
  · simp
  · rename_i h
    intro hc
    apply h
    rw [hc]; rfl

/-! ### scalars and pointers -/
theorem diff_scalar (N : Num) (hN : NumLaws N) (pt : Bytes) (k : SKind) (b a : SVal) (ha : SOk k a) :
    ∃ ps, diffField N pt (.scalar k) (.scalar b) (.scalar a) = .ok ps ∧ (∀ p ∈ ps, p.type = pt) ∧
      DiffRT N (.scalar k) (.scalar b) (.scalar a) ps := by
  by_cases he : sEq N k b a = true
  · exact ⟨[], by simp [diffField, he], by simp, Or.inl ⟨rfl, Or.inr (Or.inl he)⟩⟩
  · obtain ⟨p, hp, ht, _, htb, hs⟩ := keyed_setScalar N hN pt [] k a ha
    refine ⟨[addNorm p], by simp [diffField, he, hp, Res.map'], by simp [addNorm_type, ht], Or.inr ⟨by simp, .scalar a, ?_, Near.rfl' N k a⟩⟩
    simp only [setValue, foldl_groupStep_points, List.nil_append]
    simp [setScalars, setScalar_addNorm, hs]

theorem diff_ptr (N : Num) (hN : NumLaws N) (pt : Bytes) (k : SKind) (b a : Option SVal) (ha : ∀ x, a = some x → SOk k x) :
    ∃ ps, diffField N pt (.ptr k) (.ptr b) (.ptr a) = .ok ps ∧ (∀ p ∈ ps, p.type = pt) ∧
      DiffRT N (.ptr k) (.ptr b) (.ptr a) ps := by
  cases a with
  | none =>
    cases b with
    | none => exact ⟨[], rfl, by simp, Or.inl ⟨rfl, rfl⟩⟩
    | some y =>
      refine ⟨[addNorm { type := pt, tomb := 1 }], rfl, by simp [addNorm_type], Or.inr ⟨by simp, .ptr none, ?_, rfl⟩⟩
      simp only [setValue, foldl_groupStep_points, List.nil_append]
      simp [setPtrs, addNorm_tomb, tombOdd_one]
  | some x =>
    obtain ⟨p, hp, ht, _, htb, hs⟩ := keyed_setScalar N hN pt [] k x (ha x rfl)
    refine ⟨[addNorm p], by cases b <;> simp [diffField, hp, Res.map'], by simp [addNorm_type, ht],
      Or.inr ⟨by simp, .ptr (some x), ?_, rfl⟩⟩
    simp only [setValue, foldl_groupStep_points, List.nil_append]
    simp [setPtrs, addNorm_tomb, htb, tombOdd_zero, setScalar_addNorm, hs]

/-! ### flat structs -/

/-- the points `diffStruct` emits: for each declared field either nothing (old `==` new) or one live point with the
    field's key that sets the new value -/
theorem diffStruct_spec (N : Num) (hN : NumLaws N) (pt : Bytes) :
    ∀ (fs : List (Bytes × SKind)) (bs as : List SVal), fs.length = bs.length → fs.length = as.length →
      (∀ f ∈ fs, f.1 ≠ []) → (∀ fv ∈ fs.zip as, SOk fv.1.2 fv.2) →
      ∃ ps, diffStruct N pt fs bs as = .ok ps ∧
        (∀ p ∈ ps, p.type = pt ∧ p.tomb = 0 ∧ p.key ∈ fs.map (·.1)) ∧
        (ps.map (·.key)).Sublist (fs.map (·.1)) ∧
        (∀ all : List Point, (∀ p ∈ ps, p ∈ all) → (all.map (·.key)).Nodup → (∀ p ∈ all, p.key ∈ fs.map (·.1) → p ∈ ps) →
          (fs.map (·.1)).Nodup →
          ∃ r, setStruct N all fs bs = (r, .ok) ∧ NearS N fs r as) ∧
        (ps = [] → NearS N fs bs as) := by
  intro fs
  induction fs with
  | nil =>
    intro bs as hb ha _ _
    have : bs = [] := List.eq_nil_of_length_eq_zero (by simpa using hb.symm)
    subst this
    have : as = [] := List.eq_nil_of_length_eq_zero (by simpa using ha.symm)
    subst this
    exact ⟨[], rfl, by simp, List.Sublist.slnil, fun _ _ _ _ _ => ⟨[], rfl, trivial⟩, fun _ => trivial⟩
  | cons f fs ih =>
    intro bs as hb ha hkeys hok
    obtain ⟨key, k⟩ := f
    cases bs with
    | nil => simp at hb
    | cons b bs =>
      cases as with
      | nil => simp at ha
      | cons a as =>
        obtain ⟨ps, hps, hfacts, hsl, hset, hnil⟩ := ih bs as (by simpa using hb) (by simpa using ha)
          (fun f hf => hkeys f (by simp [hf])) (fun x hx => hok x (by simp [hx]))
        have hkne : key ≠ [] := hkeys (key, k) (by simp)
        by_cases he : sEq N k b a = true
        · refine ⟨ps, by simp [diffStruct, hps, he], ?_, List.Sublist.cons _ hsl, ?_, ?_⟩
          · intro p hp
            obtain ⟨h1, h2, h3⟩ := hfacts p hp
            exact ⟨h1, h2, by simp [h3]⟩
          · intro all hsub hnd hcl hfnd
            simp only [List.map_cons, List.nodup_cons] at hfnd
            have hnone : all.reverse.find? (fun p => p.key == key) = none := by
              rw [List.find?_eq_none]
              intro p hp hpk
              have hp' : p ∈ all := by simpa using hp
              have hk' : p.key = key := by simpa using hpk
              have := hcl p hp' (by simp [hk'])
              have := (hfacts p this).2.2
              rw [hk'] at this
              exact hfnd.1 this
            obtain ⟨r, hr, hnear⟩ := hset all hsub hnd (fun p hp hk' => by
              apply hcl p hp
              simp [hk']) hfnd.2
            refine ⟨b :: r, by simp only [setStruct, hnone, hr], Or.inr (Or.inl he), hnear⟩
          · intro h0
            exact ⟨Or.inr (Or.inl he), hnil h0⟩
        · obtain ⟨p, hp, ht, hk, htb, hs⟩ := keyed_setScalar N hN pt key k a (hok ((key, k), a) (by simp))
          have hpn : addNorm p = p := addNorm_key p (by rw [hk]; exact hkne)
          refine ⟨p :: ps, by simp [diffStruct, hps, he, hp, hpn], ?_, by simp only [List.map_cons, hk]; exact List.Sublist.cons_cons _ hsl, ?_, by simp⟩
          · intro q hq
            simp only [List.mem_cons] at hq
            rcases hq with rfl | hq
            · exact ⟨ht, htb, by simp [hk]⟩
            · obtain ⟨h1, h2, h3⟩ := hfacts q hq
              exact ⟨h1, h2, by simp [h3]⟩
          · intro all hsub hnd hcl hfnd
            simp only [List.map_cons, List.nodup_cons] at hfnd
            have hpall : p ∈ all := hsub p (by simp)
            have hfind : all.reverse.find? (fun q => q.key == key) = some p := by
              apply find_unique _ p _ (by simpa using hpall) (by simp [hk])
              intro y hy hyk
              have hy' : y ∈ all := by simpa using hy
              have hyk' : y.key = p.key := by rw [hk]; simpa using hyk
              exact eq_of_map_nodup (·.key) all hnd y p hy' hpall hyk'
            obtain ⟨r, hr, hnear⟩ := hset all (fun q hq => hsub q (by simp [hq])) hnd (fun q hq hk' => by
              have := hcl q hq (by simp [hk'])
              simp only [List.mem_cons] at this
              rcases this with rfl | h
              · exfalso
                rw [hk] at hk'
                exact hfnd.1 hk'
              · exact h) hfnd.2
            exact ⟨a :: r, by simp only [setStruct, hfind, hs, hr], Near.rfl' N k a, hnear⟩

theorem diff_struct (N : Num) (hN : NumLaws N) (pt : Bytes) (fs : List (Bytes × SKind)) (bs as : List SVal)
    (hb : FOk (.struct fs) (.struct bs)) (ha : FOk (.struct fs) (.struct as)) (hkeys : ∀ f ∈ fs, f.1 ≠ []) :
    ∃ ps, diffField N pt (.struct fs) (.struct bs) (.struct as) = .ok ps ∧ (∀ p ∈ ps, p.type = pt) ∧
      DiffRT N (.struct fs) (.struct bs) (.struct as) ps := by
  simp only [FOk] at hb ha
  obtain ⟨hlb, hsz, hnd, _⟩ := hb
  obtain ⟨hla, _, _, hoka⟩ := ha
  obtain ⟨ps, hps, hfacts, hsl, hset, hnil⟩ := diffStruct_spec N hN pt fs bs as hlb hla hkeys hoka
  refine ⟨ps, by simp only [diffField]; rw [if_neg (by unfold maxStructureSize; omega)]; exact hps, fun p hp => (hfacts p hp).1, ?_⟩
  by_cases h0 : ps = []
  · exact Or.inl ⟨h0, hnil h0⟩
  · obtain ⟨r, hr, hnear⟩ := hset ps (fun p hp => hp) (hsl.nodup hnd) (fun p hp _ => hp) hnd
    refine Or.inr ⟨h0, .struct r, ?_, hnear⟩
    simp only [setValue, foldl_groupStep_points, List.nil_append, hr]

theorem diff_ptrStruct (N : Num) (hN : NumLaws N) (pt : Bytes) (fs : List (Bytes × SKind)) (b a : Option (List SVal))
    (hb : FOk (.ptrStruct fs) (.ptrStruct b)) (ha : FOk (.ptrStruct fs) (.ptrStruct a)) (hkeys : ∀ f ∈ fs, f.1 ≠ []) :
    ∃ ps, diffField N pt (.ptrStruct fs) (.ptrStruct b) (.ptrStruct a) = .ok ps ∧ (∀ p ∈ ps, p.type = pt) ∧
      DiffRT N (.ptrStruct fs) (.ptrStruct b) (.ptrStruct a) ps := by
  cases a with
  | none =>
    cases b with
    | none => exact ⟨[], rfl, by simp, Or.inl ⟨rfl, trivial⟩⟩
    | some bs =>
      simp only [FOk] at hb
      obtain ⟨hne, hlb, hsz, hnd, _⟩ := hb
      have hmap : fs.map (fun f => addNorm ({ type := pt, key := f.1, tomb := 1 } : Point)) =
          fs.map (fun f => ({ type := pt, key := f.1, tomb := 1 } : Point)) := by
        apply List.map_congr_left
        intro f hf
        exact addNorm_key _ (hkeys f hf)
      refine ⟨fs.map (fun f => { type := pt, key := f.1, tomb := 1 }), ?_, ?_, Or.inr ⟨?_, .ptrStruct none, ?_, trivial⟩⟩
      · simp only [diffField]; rw [if_neg (by unfold maxStructureSize; omega), hmap]
      · intro p hp; simp only [List.mem_map] at hp; obtain ⟨f, _, rfl⟩ := hp; rfl
      · cases fs with
        | nil => exact absurd rfl hne
        | cons _ _ => simp
      · simp only [setValue, foldl_groupStep_points, List.nil_append]
        have hclear := tomb_fold_clears pt (fs.map (·.1)) (fs.map (·.1)) (fun a ha => ha)
        simp only [List.map_map] at hclear
        have hfun : (fun key => ({ type := pt, key := key, tomb := 1 } : Point)) ∘ (fun (x : Bytes × SKind) => x.1)
            = (fun (f : Bytes × SKind) => ({ type := pt, key := f.1, tomb := 1 } : Point)) := rfl
        rw [hfun] at hclear
        rw [hclear]; rfl
  | some as =>
    simp only [FOk] at ha
    obtain ⟨hne, hla, hsz, hnd, hoka⟩ := ha
    have hve : (fs.map (·.1)).isEmpty = false := by
      cases fs with
      | nil => exact absurd rfl hne
      | cons _ _ => rfl
    cases b with
    | none =>
      obtain ⟨ps, hps, hsp⟩ := encStruct_spec N hN pt fs as hla hoka
      obtain ⟨f1, f2, f3⟩ := hsp.facts
      have hpsne : ps ≠ [] := by
        intro h0; rw [h0] at f2
        exact hne (by simpa using f2.symm)
      refine ⟨ps, ?_, fun p hp => (f1 p hp).1, Or.inr ⟨hpsne, .ptrStruct (some as), ?_, NearS.refl N fs as hla⟩⟩
      · simp only [diffField, encodeField]; rw [if_neg (by unfold maxStructureSize; omega)]; exact hps
      · simp only [setValue, foldl_groupStep_points, List.nil_append]
        have hkeep := live_fold_keeps ps (fs.map (·.1)) (fun p hp => ⟨(f1 p hp).2, by
          rw [← f2]; exact List.mem_map_of_mem (f := (·.key)) hp⟩)
        rw [hkeep, hve]
        simp only [Bool.false_eq_true, if_false, Option.getD_none]
        rw [setStruct_enc N pt ps ps fs as hsp (fun p hp => hp) (by rw [f2]; exact hnd) _ (by simp)]
    | some bs =>
      simp only [FOk] at hb
      obtain ⟨_, hlb, _, _, _⟩ := hb
      obtain ⟨ps, hps, hfacts, hsl, hset, hnil⟩ := diffStruct_spec N hN pt fs bs as hlb hla hkeys hoka
      refine ⟨ps, by simp only [diffField]; rw [if_neg (by unfold maxStructureSize; omega)]; exact hps, fun p hp => (hfacts p hp).1, ?_⟩
      by_cases h0 : ps = []
      · exact Or.inl ⟨h0, hnil h0⟩
      · obtain ⟨r, hr, hnear⟩ := hset ps (fun p hp => hp) (hsl.nodup hnd) (fun p hp _ => hp) hnd
        refine Or.inr ⟨h0, .ptrStruct (some r), ?_, hnear⟩
        simp only [setValue, foldl_groupStep_points, List.nil_append]
        have hkeep := live_fold_keeps ps (fs.map (·.1)) (fun p hp => ⟨(hfacts p hp).2.1, (hfacts p hp).2.2⟩)
        rw [hkeep, hve]
        simp only [Bool.false_eq_true, if_false, Option.getD_some, hr]

end Siot.Config
