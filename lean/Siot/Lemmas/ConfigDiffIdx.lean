import Siot.Lemmas.ConfigDiff
/-
C10, Diff/Merge for slices and arrays: the points of `diffIndexed` (changed elements, then tombstones for the cut
tail, highest index first) grow, overwrite and trim the old slice into the new one.
-/
namespace Siot.Config
open Siot

def zipFrom : Nat → List SVal → List (Nat × SVal)
  | _, [] => []
  | i, a :: as => (i, a) :: zipFrom (i + 1) as

theorem zip_range'_eq : ∀ (as : List SVal) (i : Nat), List.zip (List.range' i as.length) as = zipFrom i as
  | [], i => by simp [zipFrom]
  | a :: as, i => by simp [zipFrom, List.range'_succ, zip_range'_eq as (i + 1)]

def chg (N : Num) (k : SKind) (bs : List SVal) (iv : Nat × SVal) : Bool :=
  match bs[iv.1]? with | some b => !sEq N k iv.2 b | none => true

def deadIdx (n : Nat) : Nat → List Nat
  | 0 => []
  | c + 1 => (n + c) :: deadIdx n c

theorem dead_eq (n : Nat) : ∀ m : Nat, ((List.range m).filter (fun i => decide (i ≥ n))).reverse = deadIdx n (m - n) := by
  intro m
  induction m with
  | zero => simp [deadIdx]
  | succ m ih =>
    rw [List.range_succ, List.filter_append, List.reverse_append, ih]
    by_cases h : m ≥ n
    · have : m + 1 - n = (m - n) + 1 := by omega
      rw [this]
      simp only [List.filter_cons, h, decide_true, if_true, List.filter_nil, List.reverse_cons, List.reverse_nil,
        List.nil_append, List.singleton_append, deadIdx]
      congr 1
      omega
    · have h1 : m + 1 - n = 0 := by omega
      have h2 : m - n = 0 := by omega
      rw [h1, h2]
      simp [h, deadIdx]

theorem deadIdx_mem (n : Nat) : ∀ c j, j ∈ deadIdx n c → n ≤ j ∧ j < n + c := by
  intro c
  induction c with
  | zero => intro j h; cases h
  | succ c ih =>
    intro j h
    simp only [deadIdx, List.mem_cons] at h
    rcases h with rfl | h
    · omega
    · have := ih j h; omega

def deadPts (pt : Bytes) (n c : Nat) : List Point :=
  (deadIdx n c).map (fun i => ({ type := pt, key := itoa i, tomb := 1 } : Point))

theorem diffIndexed_eq (N : Num) (pt : Bytes) (k : SKind) (bs as : List SVal) :
    diffIndexed N pt k bs as =
      if as.length > maxStructureSize then .err "size"
      else match mapM' (fun (iv : Nat × SVal) => keyed N pt k (itoa iv.1) iv.2) ((zipFrom 0 as).filter (chg N k bs)) with
        | .ok ps => .ok (ps.map addNorm ++ deadPts pt as.length (bs.length - as.length))
        | e => e := by
  unfold diffIndexed deadPts
  rw [List.range_eq_range', zip_range'_eq, dead_eq]
  rfl

/-! ### the grouping fold -/
theorem gInv_empty : GInv ({} : Group) := ⟨fun _ p hp => (by cases hp), (by decide)⟩

theorem group_bounds (hi : Int) : ∀ (ps : List Point) (g : Group), g.keyNotIndex = [] → g.keyMaxInt ≤ hi →
    (∀ p ∈ ps, ∃ j : Int, keyIdx p = some j ∧ 0 ≤ j ∧ (tombOdd p.tomb = false → j ≤ hi)) →
    (ps.foldl groupStep g).keyNotIndex = [] ∧ (ps.foldl groupStep g).keyMaxInt ≤ hi := by
  intro ps
  induction ps with
  | nil => intro g h1 h2 _; exact ⟨h1, h2⟩
  | cons p ps ih =>
    intro g h1 h2 h
    obtain ⟨j, hj, h0, hle⟩ := h p (by simp)
    simp only [List.foldl_cons]
    apply ih _ _ _ (fun q hq => h q (by simp [hq]))
    · unfold groupStep
      simp only [hj]
      rw [if_neg (by omega)]
      split <;> exact h1
    · unfold groupStep
      simp only [hj]
      rw [if_neg (by omega)]
      split
      · rename_i hc
        have : tombOdd p.tomb = false := by simpa using hc.2
        exact hle this
      · exact h2

/-- a live point of the group with index `j` pushes `keyMaxInt` to at least `j` -/
theorem group_lower (ps : List Point) (p : Point) (j : Int) (hp : p ∈ ps) (hj : keyIdx p = some j)
    (hl : tombOdd p.tomb = false) (hk : (ps.foldl groupStep {}).keyNotIndex = []) :
    j ≤ (ps.foldl groupStep {}).keyMaxInt := by
  have hinv := foldl_groupStep_inv ps {} gInv_empty
  obtain ⟨i, hi, _, hle⟩ := hinv.idx hk p (by rw [foldl_groupStep_points]; simpa using hp)
  rw [hj] at hi
  injection hi with hi
  subst hi
  exact hle hl

/-! ### the indexed loop -/
theorem setIndexed_append (N : Num) (k : SKind) : ∀ (l1 l2 : List Point) (vs : List SVal) (del : List Int)
    (vs' : List SVal) (del' : List Int),
    setIndexed N k l1 vs del = (vs', del', .ok) → setIndexed N k (l1 ++ l2) vs del = setIndexed N k l2 vs' del' := by
  intro l1
  induction l1 with
  | nil =>
    intro l2 vs del vs' del' h
    simp only [setIndexed, Prod.mk.injEq, and_true] at h
    obtain ⟨rfl, rfl⟩ := h
    rfl
  | cons p ps ih =>
    intro l2 vs del vs' del' h
    simp only [List.cons_append, setIndexed] at h ⊢
    by_cases hskip : tombOdd p.tomb = true ∧ indexOf p.key ≥ (vs.length : Int)
    · rw [if_pos hskip] at h ⊢
      exact ih _ _ _ _ _ h
    · rw [if_neg hskip] at h ⊢
      by_cases hr : indexOf p.key < 0 ∨ indexOf p.key ≥ (vs.length : Int)
      · rw [if_pos hr] at h
        simp at h
      · rw [if_neg hr] at h ⊢
        cases hs : setScalar N k p with
        | ok v =>
          rw [hs] at h
          simp only [] at h ⊢
          exact ih _ _ _ _ _ h
        | err e => rw [hs] at h; simp at h
        | panic m => rw [hs] at h; simp at h

/-- the changed elements: each emitted point is live, keyed by its index, and the loop writes the new elements in
    place — an element without a point keeps an old value that Go calls equal to the new one -/
theorem live_phase (N : Num) (hN : NumLaws N) (pt : Bytes) (k : SKind) (bs : List SVal) :
    ∀ (asuf : List SVal) (i : Nat) (pre post zs : List SVal),
      (∀ v ∈ asuf, SOk k v) → i + asuf.length ≤ 1000 → pre.length = i → asuf.length ≤ post.length →
      post = bs.drop i ++ zs →
      ∃ ps mid, mapM' (fun (iv : Nat × SVal) => keyed N pt k (itoa iv.1) iv.2) ((zipFrom i asuf).filter (chg N k bs)) = .ok ps ∧
        (∀ p ∈ ps, p.key ≠ [] ∧ p.type = pt ∧ p.tomb = 0 ∧ ∃ j : Nat, keyIdx p = some (j : Int) ∧ j < i + asuf.length) ∧
        (∀ del, setIndexed N k ps (pre ++ post) del = (pre ++ (mid ++ post.drop asuf.length), del, .ok)) ∧
        NearL N k mid asuf ∧
        (asuf ≠ [] → bs.length < i + asuf.length → ∃ p ∈ ps, keyIdx p = some ((i + asuf.length - 1 : Nat) : Int)) := by
  intro asuf
  induction asuf with
  | nil =>
    intro i pre post zs _ _ _ _ _
    exact ⟨[], [], rfl, by simp, fun del => by simp [setIndexed], trivial, fun h => absurd rfl h⟩
  | cons a as ih =>
    intro i pre post zs hok hlen hpre hpl hpost
    cases post with
    | nil => simp at hpl
    | cons x post' =>
      -- the tail of the current vector is again the old tail followed by something
      have htail : ∃ zs', post' = bs.drop (i + 1) ++ zs' ∧ (∀ h : i < bs.length, x = bs[i]) := by
        by_cases hi : i < bs.length
        · rw [List.drop_eq_getElem_cons hi] at hpost
          simp only [List.cons_append, List.cons.injEq] at hpost
          exact ⟨zs, hpost.2, fun _ => hpost.1⟩
        · have h1 : bs.drop i = [] := List.drop_eq_nil_of_le (by omega)
          have h2 : bs.drop (i + 1) = [] := List.drop_eq_nil_of_le (by omega)
          exact ⟨post', by rw [h2]; rfl, fun h => absurd h hi⟩
      obtain ⟨zs', hpost', hx⟩ := htail
      have hok' : ∀ v ∈ as, SOk k v := fun v hv => hok v (by simp [hv])
      have hlen' : i + 1 + as.length ≤ 1000 := by simp at hlen; omega
      have hpl' : as.length ≤ post'.length := by simpa using hpl
      by_cases hc : chg N k bs (i, a) = true
      · -- changed: a point for index i
        obtain ⟨p, hp, ht, hk, htb, hs⟩ := keyed_setScalar N hN pt (itoa i) k a (hok a (by simp))
        obtain ⟨ps, mid, hps, hfacts, hset, hnear, hlast⟩ := ih (i + 1) (pre ++ [a]) post' zs' hok' hlen' (by simp [hpre]) hpl' hpost'
        have hki : keyIdx p = some (i : Int) := keyIdx_itoa p i (by omega) hk
        refine ⟨p :: ps, a :: mid, ?_, ?_, ?_, ⟨Near.rfl' N k a, hnear⟩, ?_⟩
        · simp only [zipFrom, List.filter_cons, hc, if_true, mapM', hp, hps]
        · intro q hq
          simp only [List.mem_cons] at hq
          rcases hq with rfl | hq
          · refine ⟨?_, ht, htb, i, hki, by simp⟩
            intro h0
            have := itoa_nonempty i
            rw [← hk, h0] at this
            simp at this
          · obtain ⟨q1, q2, q3, j, q4, q5⟩ := hfacts q hq
            exact ⟨q1, q2, q3, j, q4, by simp only [List.length_cons]; omega⟩
        · intro del
          have hidx := indexOf_of_keyIdx p i hki
          simp only [setIndexed, hidx, htb, tombOdd_zero, Bool.false_eq_true, false_and, if_false]
          rw [if_neg (by simp [hpre]; omega)]
          simp only [hs, Int.toNat_natCast]
          have hsetl : (pre ++ x :: post').set i a = (pre ++ [a]) ++ post' := by
            rw [← hpre, List.set_append_right _ _ (by omega)]; simp
          rw [hsetl, hset del]
          simp
        · intro _ hbl
          by_cases has : as = []
          · refine ⟨p, by simp, ?_⟩
            subst has
            simpa using hki
          · have hpos : 0 < as.length := List.length_pos_iff.mpr has
            obtain ⟨q, hq, hqi⟩ := hlast has (by simp only [List.length_cons] at hbl; omega)
            refine ⟨q, by simp [hq], ?_⟩
            rw [hqi]
            simp only [List.length_cons]
            congr 2
            omega
      · -- unchanged: the old element is Go-equal to the new one and stays
        have hi : i < bs.length := by
          by_cases hi : i < bs.length
          · exact hi
          · exfalso
            apply hc
            unfold chg
            simp only []
            rw [List.getElem?_eq_none (by omega)]
        have hxb : x = bs[i] := hx hi
        have hseq : sEq N k a x = true := by
          unfold chg at hc
          simp only [List.getElem?_eq_getElem hi] at hc
          rw [hxb]
          simpa using hc
        obtain ⟨ps, mid, hps, hfacts, hset, hnear, hlast⟩ := ih (i + 1) (pre ++ [x]) post' zs' hok' hlen' (by simp [hpre]) hpl' hpost'
        have hc' : chg N k bs (i, a) = false := by simpa using hc
        refine ⟨ps, x :: mid, ?_, ?_, ?_, ⟨Or.inr (Or.inr hseq), hnear⟩, ?_⟩
        · simp only [zipFrom, List.filter_cons, hc', Bool.false_eq_true, if_false, hps]
        · intro q hq
          obtain ⟨q1, q2, q3, j, q4, q5⟩ := hfacts q hq
          exact ⟨q1, q2, q3, j, q4, by simp only [List.length_cons]; omega⟩
        · intro del
          have : pre ++ x :: post' = (pre ++ [x]) ++ post' := by simp
          rw [this, hset del]
          simp
        · intro _ hbl
          by_cases has : as = []
          · subst has
            simp only [List.length_cons, List.length_nil] at hbl; omega
          · have hpos : 0 < as.length := List.length_pos_iff.mpr has
            obtain ⟨q, hq, hqi⟩ := hlast has (by simp only [List.length_cons] at hbl; omega)
            refine ⟨q, hq, ?_⟩
            rw [hqi]
            simp only [List.length_cons]
            congr 2
            omega

/-! ### the tombstones of the cut tail -/
def descInts (n c : Nat) : List Int := (deadIdx n c).map (fun (i : Nat) => (i : Int))

theorem dead_facts (pt : Bytes) (n c : Nat) (h : n + c ≤ 1001) :
    ∀ p ∈ deadPts pt n c, p.key ≠ [] ∧ p.type = pt ∧ tombOdd p.tomb = true ∧ ∃ j : Nat, keyIdx p = some (j : Int) := by
  intro p hp
  simp only [deadPts, List.mem_map] at hp
  obtain ⟨j, hj, rfl⟩ := hp
  have := deadIdx_mem n c j hj
  refine ⟨?_, rfl, tombOdd_one, j, keyIdx_itoa _ j (by omega) rfl⟩
  intro h0
  have h1 := itoa_nonempty j
  simp only [] at h0
  rw [h0] at h1
  simp at h1

theorem dead_phase (N : Num) (k : SKind) (pt : Bytes) (n : Nat) :
    ∀ (c : Nat) (cur : List SVal) (del : List Int), n + c ≤ cur.length → n + c ≤ 1001 →
      ∃ cur', setIndexed N k (deadPts pt n c) cur del = (cur', del ++ descInts n c, .ok) ∧
        cur'.length = cur.length ∧ cur'.take n = cur.take n := by
  intro c
  induction c with
  | zero => intro cur del _ _; exact ⟨cur, by simp [deadPts, deadIdx, descInts, setIndexed], rfl, rfl⟩
  | succ c ih =>
    intro cur del hlen hb
    have hki : keyIdx ({ type := pt, key := itoa (n + c), tomb := 1 } : Point) = some ((n + c : Nat) : Int) :=
      keyIdx_itoa _ (n + c) (by omega) rfl
    have hidx := indexOf_of_keyIdx _ _ hki
    simp only [] at hidx
    obtain ⟨cur', h1, h2, h3⟩ := ih (cur.set (n + c) (zeroS k)) (del ++ [((n + c : Nat) : Int)]) (by simp; omega) (by omega)
    refine ⟨cur', ?_, by rw [h2]; simp, by rw [h3]; exact List.take_set_of_le (by omega)⟩
    simp only [deadPts, deadIdx, List.map_cons, setIndexed, hidx, tombOdd_one, if_true, true_and]
    rw [if_neg (by omega), if_neg (by omega)]
    simp only [setScalar, tombOdd_one, if_true, Int.toNat_natCast]
    simp only [deadPts] at h1
    rw [h1]
    simp [descInts, deadIdx]

theorem insertSorted_max (x : Int) : ∀ ys : List Int, (∀ y ∈ ys, y < x) → insertSorted x ys = ys ++ [x] := by
  intro ys
  induction ys with
  | nil => intro _; rfl
  | cons y ys ih =>
    intro h
    have hy := h y (by simp)
    simp only [insertSorted]
    rw [if_neg (by omega), ih (fun z hz => h z (by simp [hz]))]
    rfl

theorem sortInts_desc : ∀ l : List Int, l.Pairwise (· > ·) → sortInts l = l.reverse := by
  intro l
  induction l with
  | nil => intro _; rfl
  | cons x l ih =>
    intro h
    rw [List.pairwise_cons] at h
    have : sortInts (x :: l) = insertSorted x (sortInts l) := rfl
    rw [this, ih h.2, insertSorted_max x _ (by intro y hy; have := h.1 y (by simpa using hy); omega)]
    simp

theorem descInts_pairwise (n : Nat) : ∀ c, (descInts n c).Pairwise (· > ·) := by
  intro c
  induction c with
  | zero => simp [descInts, deadIdx]
  | succ c ih =>
    simp only [descInts, deadIdx, List.map_cons, List.pairwise_cons]
    refine ⟨?_, ih⟩
    intro y hy
    simp only [List.mem_map] at hy
    obtain ⟨j, hj, rfl⟩ := hy
    have := deadIdx_mem n c j hj
    omega

def trimStep (st : Int × Bool) (d : Int) : Int × Bool :=
  if st.2 then st
  else if d < st.1 then (st.1, true)
  else if d = st.1 then (st.1 - 1, false) else st

theorem trimLen_eq (del : List Int) (len : Nat) :
    trimLen del len = (((sortInts del).reverse.foldl trimStep ((len : Int) - 1, false)).1 + 1).toNat := rfl

theorem trim_fold (n : Nat) : ∀ c, (descInts n c).foldl trimStep (((n + c : Nat) : Int) - 1, false) = ((n : Int) - 1, false) := by
  intro c
  induction c with
  | zero => simp [descInts, deadIdx]
  | succ c ih =>
    simp only [descInts, deadIdx, List.map_cons, List.foldl_cons]
    have : trimStep (((n + (c + 1) : Nat) : Int) - 1, false) ((n + c : Nat) : Int) = (((n + c : Nat) : Int) - 1, false) := by
      unfold trimStep
      simp only [Bool.false_eq_true, if_false]
      rw [if_neg (by omega), if_pos (by omega)]
      congr 1
      omega
    rw [this]
    exact ih

theorem trimLen_desc (n c : Nat) : trimLen (descInts n c) (n + c) = n := by
  rw [trimLen_eq, sortInts_desc _ (descInts_pairwise n c), List.reverse_reverse, trim_fold]
  simp

/-! ### slices and arrays -/

/-- everything the two field theorems need about the points of `diffIndexed bs as` -/
theorem diff_indexed_core (N : Num) (hN : NumLaws N) (pt : Bytes) (k : SKind) (bs as : List SVal)
    (hlb : bs.length ≤ 1000) (hla : as.length ≤ 1000) (hoka : ∀ v ∈ as, SOk k v) :
    ∃ ps, diffIndexed N pt k bs as = .ok (ps ++ deadPts pt as.length (bs.length - as.length)) ∧
      (∀ p ∈ ps ++ deadPts pt as.length (bs.length - as.length), p.type = pt) ∧
      -- nothing to send: the old value is already (Go-)equal
      (ps ++ deadPts pt as.length (bs.length - as.length) = [] → NearL N k bs as) ∧
      -- the group
      (let G := (ps ++ deadPts pt as.length (bs.length - as.length)).foldl groupStep {}
       G.keyNotIndex = [] ∧ G.keyMaxInt ≤ (as.length : Int) - 1 ∧ -1 ≤ G.keyMaxInt ∧
       (bs.length < as.length → G.keyMaxInt = (as.length : Int) - 1) ∧
       G.points = ps ++ deadPts pt as.length (bs.length - as.length)) ∧
      -- the loop on the (grown) old slice
      (∃ cur', setIndexed N k (ps ++ deadPts pt as.length (bs.length - as.length))
            (bs ++ List.replicate (as.length - bs.length) (zeroS k)) [] =
          (cur', descInts as.length (bs.length - as.length), .ok) ∧
        cur'.length = as.length + (bs.length - as.length) ∧ NearL N k (cur'.take as.length) as) := by
  obtain ⟨ps, mid0, hps, hfacts, _, _, hlast⟩ := live_phase N hN pt k bs as 0 [] (bs ++ List.replicate as.length (zeroS k))
    (List.replicate as.length (zeroS k)) hoka (by omega) rfl (by simp) (by simp)
  have hnorm : ps.map addNorm = ps := by
    rw [List.map_congr_left (g := id) (fun p hp => addNorm_key p (hfacts p hp).1)]; simp
  have hDf := dead_facts pt as.length (bs.length - as.length) (by omega)
  have hdiff : diffIndexed N pt k bs as = .ok (ps ++ deadPts pt as.length (bs.length - as.length)) := by
    rw [diffIndexed_eq, if_neg (by unfold maxStructureSize; omega), hps]
    simp only [hnorm]
  refine ⟨ps, hdiff, ?_, ?_, ?_, ?_⟩
  · intro p hp
    rcases List.mem_append.mp hp with hp | hp
    · exact (hfacts p hp).2.1
    · exact (hDf p hp).2.1
  · intro h0
    have hps0 : ps = [] := (List.append_eq_nil_iff.mp h0).1
    have hD0 : deadPts pt as.length (bs.length - as.length) = [] := (List.append_eq_nil_iff.mp h0).2
    have hle : bs.length ≤ as.length := by
      cases hc : bs.length - as.length with
      | zero => omega
      | succ c => rw [hc] at hD0; simp [deadPts, deadIdx] at hD0
    have hge : ¬ bs.length < as.length := by
      intro hlt
      have hne : as ≠ [] := by intro h; rw [h] at hlt; simp at hlt
      obtain ⟨p, hp, _⟩ := hlast hne (by omega)
      rw [hps0] at hp; cases hp
    have heq : bs.length = as.length := by omega
    obtain ⟨ps2, mid, hps2, _, hset, hnear, _⟩ := live_phase N hN pt k bs as 0 [] bs [] hoka (by omega) rfl (by omega) (by simp)
    have : ps2 = ps := by
      have := hps2.symm.trans hps
      injection this
    rw [this, hps0] at hset
    have h1 := hset []
    simp only [setIndexed, List.nil_append, Prod.mk.injEq, and_true] at h1
    rw [← heq, List.drop_length, List.append_nil] at h1
    rw [h1]; exact hnear
  · have hb := group_bounds ((as.length : Int) - 1) (ps ++ deadPts pt as.length (bs.length - as.length)) {} rfl
      (by show (-1 : Int) ≤ _; omega) (by
        intro p hp
        rcases List.mem_append.mp hp with hp | hp
        · obtain ⟨_, _, htb, j, hj, hlt⟩ := hfacts p hp
          exact ⟨j, hj, by omega, fun _ => by omega⟩
        · obtain ⟨_, _, htb, j, hj⟩ := hDf p hp
          exact ⟨j, hj, by omega, fun h => by rw [htb] at h; cases h⟩)
    refine ⟨hb.1, hb.2, (foldl_groupStep_inv _ {} gInv_empty).low, ?_, by rw [foldl_groupStep_points]; rfl⟩
    intro hlt
    have hne : as ≠ [] := by intro h; rw [h] at hlt; simp at hlt
    obtain ⟨p, hp, hpi⟩ := hlast hne (by omega)
    have hpos : 0 < as.length := List.length_pos_iff.mpr hne
    have hlow := group_lower (ps ++ deadPts pt as.length (bs.length - as.length)) p _ (by simp [hp]) hpi
      (by rw [(hfacts p hp).2.2.1]; exact tombOdd_zero) hb.1
    have h2 := hb.2
    have : (((0 + as.length - 1 : Nat)) : Int) = (as.length : Int) - 1 := by omega
    rw [this] at hlow
    omega
  · obtain ⟨ps2, mid, hps2, _, hset, hnear, _⟩ := live_phase N hN pt k bs as 0 []
      (bs ++ List.replicate (as.length - bs.length) (zeroS k)) (List.replicate (as.length - bs.length) (zeroS k))
      hoka (by omega) rfl (by simp; omega) (by simp)
    have : ps2 = ps := by
      have := hps2.symm.trans hps
      injection this
    rw [this] at hset
    have h1 := hset []
    simp only [List.nil_append] at h1
    have hml := hnear.length_eq
    obtain ⟨cur', hd1, hd2, hd3⟩ := dead_phase N k pt as.length (bs.length - as.length)
      (mid ++ (bs ++ List.replicate (as.length - bs.length) (zeroS k)).drop as.length) [] (by simp; omega) (by omega)
    refine ⟨cur', ?_, ?_, ?_⟩
    · rw [setIndexed_append N k ps _ _ _ _ _ h1, hd1]; simp
    · rw [hd2]; simp; omega
    · rw [hd3, List.take_left' hml]; exact hnear

theorem diff_slice (N : Num) (hN : NumLaws N) (pt : Bytes) (k : SKind) (bs as : List SVal)
    (hb : FOk (.slice k) (.slice bs)) (ha : FOk (.slice k) (.slice as)) :
    ∃ ps, diffField N pt (.slice k) (.slice bs) (.slice as) = .ok ps ∧ (∀ p ∈ ps, p.type = pt) ∧
      DiffRT N (.slice k) (.slice bs) (.slice as) ps := by
  simp only [FOk] at hb ha
  obtain ⟨ps, hdiff, htypes, hnil, hG, cur', hloop, hlen, hnear⟩ := diff_indexed_core N hN pt k bs as hb.1 ha.1 ha.2
  refine ⟨_, by simp only [diffField]; exact hdiff, htypes, ?_⟩
  by_cases h0 : ps ++ deadPts pt as.length (bs.length - as.length) = []
  · exact Or.inl ⟨h0, hnil h0⟩
  · refine Or.inr ⟨h0, .slice (cur'.take as.length), ?_, hnear⟩
    obtain ⟨g1, g2, g3, g4, g5⟩ := hG
    generalize (ps ++ deadPts pt as.length (bs.length - as.length)).foldl groupStep {} = G at g1 g2 g3 g4 g5 ⊢
    have hms : (maxStructureSize : Int) = 1000 := rfl
    have hvs0 : (if G.keyMaxInt > (bs.length : Int) - 1
          then bs ++ List.replicate ((G.keyMaxInt + 1).toNat - bs.length) (zeroS k)
          else bs) = bs ++ List.replicate (as.length - bs.length) (zeroS k) := by
      by_cases hlt : bs.length < as.length
      · rw [g4 hlt, if_pos (by omega)]
        congr 2
        omega
      · rw [if_neg (by omega)]
        have : as.length - bs.length = 0 := by omega
        rw [this]; simp
    simp only [setValue, g1, List.isEmpty_nil, Bool.not_true, Bool.false_eq_true, if_false]
    rw [if_neg (show ¬ G.keyMaxInt > (maxStructureSize : Int) by omega), hvs0, g5, hloop]
    simp only []
    rw [hlen, trimLen_desc]

theorem diff_array (N : Num) (hN : NumLaws N) (pt : Bytes) (n : Nat) (k : SKind) (bs as : List SVal)
    (hb : FOk (.array n k) (.array bs)) (ha : FOk (.array n k) (.array as)) :
    ∃ ps, diffField N pt (.array n k) (.array bs) (.array as) = .ok ps ∧ (∀ p ∈ ps, p.type = pt) ∧
      DiffRT N (.array n k) (.array bs) (.array as) ps := by
  simp only [FOk] at hb ha
  obtain ⟨hbn, hn, _⟩ := hb
  obtain ⟨han, _, hoka⟩ := ha
  obtain ⟨ps, hdiff, htypes, hnil, hG, cur', hloop, hlen, hnear⟩ := diff_indexed_core N hN pt k bs as (by omega) (by omega) hoka
  refine ⟨_, by simp only [diffField]; exact hdiff, htypes, ?_⟩
  by_cases h0 : ps ++ deadPts pt as.length (bs.length - as.length) = []
  · exact Or.inl ⟨h0, hnil h0⟩
  · refine Or.inr ⟨h0, .array cur', ?_, ?_⟩
    · obtain ⟨g1, g2, g3, g4, g5⟩ := hG
      generalize (ps ++ deadPts pt as.length (bs.length - as.length)).foldl groupStep {} = G at g1 g2 g3 g4 g5 ⊢
      have hms : (maxStructureSize : Int) = 1000 := rfl
      have h00 : as.length - bs.length = 0 := by omega
      rw [h00] at hloop
      simp only [List.replicate_zero, List.append_nil] at hloop
      simp only [setValue, g1, List.isEmpty_nil, Bool.not_true, Bool.false_eq_true, if_false]
      rw [if_neg (show ¬ G.keyMaxInt > (maxStructureSize : Int) by omega),
        if_neg (show ¬ G.keyMaxInt > (n : Int) - 1 by omega), g5, hloop]
    · have : cur'.take as.length = cur' := List.take_of_length_le (by omega)
      rw [this] at hnear
      exact hnear

end Siot.Config
