import Siot.Lemmas.Hash
/-
Bridge between the executable store model (a list of edge records carrying their hash) and the
abstract hash algebra of Lemmas/Hash.lean (edge keys + a hash assignment).
-/
namespace Siot.Store
open Siot

def keyOf (e : Edge) : EK := (e.up, e.down)
def keysOf (es : List Edge) : List EK := es.map keyOf

def hOf (es : List Edge) (k : EK) : Nat :=
  match es.find? (fun e => keyOf e == k) with
  | some e => e.hash
  | none => 0

def toggleList (es : List Edge) (k : EK) (δ : Nat) : List Edge :=
  es.map (fun x => if x.up == k.1 && x.down == k.2 then { x with hash := x.hash ^^^ δ } else x)

theorem keysOf_toggleList (es : List Edge) (k : EK) (δ : Nat) : keysOf (toggleList es k δ) = keysOf es := by
  unfold keysOf toggleList
  rw [List.map_map]
  apply List.map_congr_left
  intro x _
  simp only [Function.comp, keyOf]
  split <;> rfl

theorem hOf_mem (es : List Edge) (hnd : (keysOf es).Nodup) (e : Edge) (he : e ∈ es) : hOf es (keyOf e) = e.hash := by
  induction es with
  | nil => cases he
  | cons x es ih =>
    simp only [keysOf, List.map_cons, List.nodup_cons] at hnd
    simp only [hOf, List.find?]
    by_cases hx : keyOf x = keyOf e
    · simp only [hx, beq_self_eq_true]
      simp only [List.mem_cons] at he
      rcases he with rfl | he
      · rfl
      · exact absurd (hx ▸ List.mem_map_of_mem (f := keyOf) he) hnd.1
    · have : (keyOf x == keyOf e) = false := by simpa using hx
      simp only [this]
      simp only [List.mem_cons] at he
      rcases he with rfl | he
      · exact absurd rfl hx
      · exact ih hnd.2 he

theorem hOf_notin (es : List Edge) (k : EK) (h : k ∉ keysOf es) : hOf es k = 0 := by
  unfold hOf
  have : es.find? (fun e => keyOf e == k) = none := by
    rw [List.find?_eq_none]
    intro e he
    simp only [beq_iff_eq]
    intro hk
    exact h (hk ▸ List.mem_map_of_mem (f := keyOf) he)
  rw [this]

theorem hOf_map (es : List Edge) (φ : Edge → Edge) (hφ : ∀ x, keyOf (φ x) = keyOf x) (j : EK) :
    hOf (es.map φ) j = match es.find? (fun e => keyOf e == j) with
      | some e => (φ e).hash
      | none => 0 := by
  unfold hOf
  induction es with
  | nil => rfl
  | cons x es ih =>
    simp only [List.map_cons, List.find?, hφ x]
    cases (keyOf x == j) with
    | true => rfl
    | false => exact ih

theorem find_key (es : List Edge) (j : EK) (e : Edge) (h : es.find? (fun e => keyOf e == j) = some e) : keyOf e = j := by
  have := List.find?_some h
  simpa using this

theorem hOf_toggleList (es : List Edge) (k : EK) (δ : Nat) (hk : k ∈ keysOf es) :
    hOf (toggleList es k δ) = toggle (hOf es) k δ := by
  funext j
  unfold toggleList
  rw [hOf_map es _ (by intro x; simp only [keyOf]; split <;> rfl) j]
  unfold toggle hOf
  cases hf : es.find? (fun e => keyOf e == j) with
  | none =>
    have hj : j ≠ k := by
      intro hjk; subst hjk
      rw [List.find?_eq_none] at hf
      simp only [keysOf, List.mem_map] at hk
      obtain ⟨e, he, hek⟩ := hk
      exact hf e he (by simp [hek])
    simp [hj]
  | some e =>
    have hek := find_key es j e hf
    simp only []
    by_cases hj : j = k
    · subst hj
      have : (e.up == j.1 && e.down == j.2) = true := by rw [← hek]; simp [keyOf]
      simp [this]
    · have : (e.up == k.1 && e.down == k.2) = false := by
        cases h : (e.up == k.1 && e.down == k.2) with
        | false => rfl
        | true =>
          simp only [Bool.and_eq_true, beq_iff_eq] at h
          exact absurd (hek.symm.trans (Prod.ext h.1 h.2)) hj
      simp [this, hj]

theorem bump_succ (fuel : Nat) (es : List Edge) (n : Bytes) (δ : Nat) :
    bump (fuel + 1) es n δ =
      (es.filter (fun e => e.down == n)).foldl (fun acc e => bump fuel (toggleList acc (keyOf e) δ) e.up δ) es := rfl

theorem parentsK_eq (g : G) (es : List Edge) (hg : g.keys = keysOf es) (n : Bytes) :
    parentsK g n = (es.filter (fun e => e.down == n)).map keyOf := by
  unfold parentsK
  rw [hg, keysOf, List.filter_map]
  rfl

/-- the list-based `bump` of the model is the function-based `bumpF` of the hash algebra -/
theorem bump_bridge : ∀ (fuel : Nat) (es : List Edge) (g : G), g.keys = keysOf es → ∀ (n : Bytes) (δ : Nat),
    keysOf (bump fuel es n δ) = keysOf es ∧ hOf (bump fuel es n δ) = bumpF g fuel n δ (hOf es) := by
  intro fuel
  induction fuel with
  | zero => intro es g _ n δ; exact ⟨rfl, rfl⟩
  | succ fuel ih =>
    intro es g hg n δ
    rw [bump_succ]
    simp only [bumpF, parentsK_eq g es hg n]
    -- generalise over the list of parents still to process and the accumulator
    have key : ∀ (P : List Edge), (∀ e ∈ P, keyOf e ∈ keysOf es) → ∀ (acc : List Edge), keysOf acc = keysOf es →
        keysOf (P.foldl (fun acc e => bump fuel (toggleList acc (keyOf e) δ) e.up δ) acc) = keysOf es ∧
        hOf (P.foldl (fun acc e => bump fuel (toggleList acc (keyOf e) δ) e.up δ) acc) =
          (P.map keyOf).foldl (fun h e => bumpF g fuel e.1 δ (toggle h e δ)) (hOf acc) := by
      intro P
      induction P with
      | nil => intro _ acc hacc; exact ⟨hacc, rfl⟩
      | cons e P ihP =>
        intro hP acc hacc
        simp only [List.foldl_cons, List.map_cons]
        have hk : keyOf e ∈ keysOf acc := by rw [hacc]; exact hP e (by simp)
        have hkt : keysOf (toggleList acc (keyOf e) δ) = keysOf es := by rw [keysOf_toggleList, hacc]
        obtain ⟨b1, b2⟩ := ih (toggleList acc (keyOf e) δ) g (by rw [hg, hkt]) e.up δ
        obtain ⟨c1, c2⟩ := ihP (fun x hx => hP x (by simp [hx])) (bump fuel (toggleList acc (keyOf e) δ) e.up δ) (by rw [b1, hkt])
        refine ⟨c1, ?_⟩
        rw [c2, b2, hOf_toggleList acc (keyOf e) δ hk]
        rfl
    exact key _ (fun e he => by
      simp only [List.mem_filter] at he
      exact List.mem_map_of_mem (f := keyOf) he.1) es rfl

/-- `xorAll` (a left fold) and `xs` (a right fold) agree -/
theorem xorAll_eq_xs (l : List Nat) : xorAll l = xs l := by
  unfold xorAll
  have : ∀ (l : List Nat) (a : Nat), l.foldl (· ^^^ ·) a = a ^^^ xs l := by
    intro l
    induction l with
    | nil => intro a; simp [xs]
    | cons x l ih => intro a; simp only [List.foldl_cons, ih, xs_cons]; ac_rfl
  rw [this l 0, Nat.zero_xor]

end Siot.Store
