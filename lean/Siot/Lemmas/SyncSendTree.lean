import Siot.Lemmas.SyncTree
import Siot.Lemmas.SyncSend
/-
C02, a subtree that the upstream store does not know: `sendNodesRemote` (the node, then — recursively — the children
the local store lists as not deleted) copies the whole live subtree, rows and all. Induction over the recursion with the
fold over the children inside (`foldl_each`), on top of the one-node step `sendNode_transfer`.
-/
namespace Siot.Sync
open Siot Siot.Store Siot.Export

/-- the edges of `src` that are not deleted: the ones `getNodes(…, includeDel = false)` lists -/
def liveEdges (src : St) : List Edge := src.edges.filter (fun e => !isTomb (eptsOf src e.up e.down))
def liveK (src : St) : List Sh := (liveEdges src).map shape

/-- the local store is a forest, and the live subtree below `x` consists of stored rows under ordinary ids (nothing is asked
    of the rest of the store) -/
structure SrcOk (src : St) (x : Bytes) : Prop where
  tree : TreeK (shapes src)
  rows : ∀ f ∈ src.edges, Below (liveK src) x f.down → Rows (ptsOf src f.down) ∧ Rows (eptsOf src f.up f.down) ∧
    (∀ p ∈ eptsOf src f.up f.down, p.type ≠ nodeTypeT) ∧ f.typ ≠ []
  names : ∀ f ∈ src.edges, Below (liveK src) x f.down → f.down ≠ [] ∧ f.down ≠ rootS ∧ f.down ≠ allS ∧ f.down ≠ noneS

theorem liveK_sub (src : St) : (liveK src).Sublist (shapes src) := (List.filter_sublist).map shape

theorem liveK_tree (src : St) (h : TreeK (shapes src)) : TreeK (liveK src) :=
  ⟨match h.rank with | ⟨r, hr⟩ => ⟨r, fun k hk => hr k ((liveK_sub src).subset hk)⟩, h.single.sublist (liveK_sub src)⟩

theorem liveEdges_mem (src : St) (c : Edge) (h : c ∈ liveEdges src) : c ∈ src.edges := (List.mem_filter.mp h).1

theorem liveK_mem (src : St) (c : Edge) (h : c ∈ liveEdges src) : shape c ∈ liveK src := List.mem_map_of_mem (f := shape) h

theorem mem_liveK (src : St) (k : Sh) (h : k ∈ liveK src) : ∃ c ∈ liveEdges src, shape c = k := by
  unfold liveK at h
  simpa only [List.mem_map] using h

theorem getNodes_live (src : St) (p : Bytes) (hp1 : p ≠ rootS) (hp2 : p ≠ allS) :
    getNodes src p allS false = ((liveEdges src).filter (fun e => e.up == p)).map (neOf src) := by
  unfold getNodes liveEdges
  simp only [hp1, hp2, if_false, if_true, Bool.false_or]
  rw [List.filter_map, List.filter_filter, List.filter_filter]
  congr 1
  apply List.filter_congr
  intro e _
  simp only [Function.comp, neOf, Bool.and_comm]

/-- what `sendNodes` of the edge `e` of `src` (sent below `P`) has done to the store `d0`: result `r` -/
structure Sent (wall : Int → Int) (src : St) (fuel : Nat) (d0 : St) (e : Edge) (P : Bytes) (r : St) : Prop where
  root : r.root = d0.root
  shp : ∃ L, shapes r = shapes d0 ++ L ∧ ∀ k ∈ L, Below (liveK src) e.down k.2.1 ∧ (k.1 = P ∨ Below (liveK src) e.down k.1)
  frame : ∀ y, ¬ Below (liveK src) e.down y → Same d0 r y
  pts : ∀ d m, d < fuel → BelowD (liveK src) e.down d m → ptsOf r m = ptsOf src m
  top : 0 < fuel → ∃ k, eptsOf r P e.down = sentE (eptsOf src e.up e.down) (wall k)
  kids : ∀ d c, c ∈ liveEdges src → d + 1 < fuel → BelowD (liveK src) e.down d c.up →
    ∃ k, eptsOf r c.up c.down = sentE (eptsOf src c.up c.down) (wall k)

theorem fresh_after {wall : Int → Int} {src : St} {fuel : Nat} {d0 : St} {e : Edge} {P : Bytes} {r : St}
    (h : Sent wall src fuel d0 e P r) (y : Bytes) (hf : Fresh d0 y)
    (hy : ¬ Below (liveK src) e.down y) (hyP : y ≠ P) : Fresh r y := by
  obtain ⟨L, hL, hLk⟩ := h.shp
  refine ⟨?_, ?_, ?_, ?_⟩
  · intro e' he'
    have hm : shape e' ∈ shapes r := mem_shapes r e' he'
    rw [hL, List.mem_append] at hm
    rcases hm with hm | hm
    · obtain ⟨e0, he0, hu, hd, _⟩ := shapes_mem d0 _ hm
      have := hf.edges e0 he0
      exact ⟨fun h => this.1 (hu.trans h), fun h => this.2 (hd.trans h)⟩
    · obtain ⟨hb, hup⟩ := hLk _ hm
      have hb' : Below (liveK src) e.down e'.down := hb
      refine ⟨?_, fun h => hy (h ▸ hb')⟩
      rcases hup with hup | hup
      · intro h
        have hup' : e'.up = P := hup
        exact hyP (h.symm.trans hup')
      · intro h
        have hup' : Below (liveK src) e.down e'.up := hup
        exact hy (h ▸ hup')
  · rw [(h.frame y hy).1]; exact hf.pts
  · intro u; rw [(h.frame y hy).2]; exact hf.epts u
  · rw [h.root]; exact hf.root


theorem below_child {src : St} {e c : Edge} (hc : c ∈ liveEdges src) (hu : c.up = e.down) {m : Bytes}
    (h : Below (liveK src) c.down m) : Below (liveK src) e.down m := by
  have h1 : Below (liveK src) e.down c.down :=
    Below.step (shape c) (liveK_mem src c hc) (by show Below (liveK src) e.down c.up; rw [hu]; exact Below.refl _ _)
  exact h1.trans h

theorem SrcOk.sub {src : St} {e c : Edge} (h : SrcOk src e.down) (hc : c ∈ liveEdges src) (hu : c.up = e.down) : SrcOk src c.down :=
  ⟨h.tree, fun f hf hb => h.rows f hf (below_child hc hu hb), fun f hf hb => h.names f hf (below_child hc hu hb)⟩

theorem belowD_child {src : St} {e c : Edge} (hc : c ∈ liveEdges src) (hu : c.up = e.down) {m : Bytes} {d : Nat}
    (h : BelowD (liveK src) c.down d m) : BelowD (liveK src) e.down (d + 1) m := by
  have h0 : BelowD (liveK src) e.down 0 c.up := by rw [hu]; exact .refl
  have h1 : BelowD (liveK src) e.down (0 + 1) c.down := BelowD.step (shape c) 0 (liveK_mem src c hc) h0
  have := h1.trans h
  have e : 0 + 1 + d = d + 1 := by omega
  rw [e] at this
  exact this

theorem belowD_zero {K : List Sh} {a y : Bytes} {d : Nat} (h : BelowD K a d y) (hd : d = 0) : y = a := by
  cases h with
  | refl => rfl
  | step k d hk _ => omega

/-- the step function of the fold over the children -/
def kidStep (wall : Int → Int) (src : St) (fuel : Nat) (acc : (St × Int) × Bool) (c : Edge) : (St × Int) × Bool :=
  if acc.2 then sendNodesAux wall src fuel acc.1 (neOf src c) else acc

theorem sendNodesAux_succ (wall : Int → Int) (src : St) (fuel : Nat) (dst : St × Int) (n : NE) (st1 : St)
    (h : sendNode dst.1 n (wall dst.2) = some st1) (hn2 : n.id ≠ rootS) (hn3 : n.id ≠ allS) :
    sendNodesAux wall src (fuel + 1) dst n =
      ((liveEdges src).filter (fun e => e.up == n.id)).foldl (kidStep wall src fuel) ((st1, dst.2 + 1), true) := by
  rw [sendNodesAux, h]
  simp only []
  rw [getNodes_live src n.id hn2 hn3, List.foldl_map]
  rfl


/-- the invariant of the fold over the children of `e` (everything about the top node, nothing about the children) -/
structure TopOk (wall : Int → Int) (src : St) (d0 : St) (e : Edge) (P : Bytes) (acc : (St × Int) × Bool) : Prop where
  ok : acc.2 = true
  root : acc.1.1.root = d0.root
  shp : ∃ L, shapes acc.1.1 = shapes d0 ++ L ∧ ∀ k ∈ L, Below (liveK src) e.down k.2.1 ∧ (k.1 = P ∨ Below (liveK src) e.down k.1)
  frame : ∀ y, ¬ Below (liveK src) e.down y → Same d0 acc.1.1 y
  tpts : ptsOf acc.1.1 e.down = ptsOf src e.down
  tepts : ∃ k, eptsOf acc.1.1 P e.down = sentE (eptsOf src e.up e.down) (wall k)

/-- what the fold has done for the child `c` -/
structure KidOk (wall : Int → Int) (src : St) (fuel : Nat) (c : Edge) (acc : (St × Int) × Bool) : Prop where
  pts : ∀ d m, d < fuel → BelowD (liveK src) c.down d m → ptsOf acc.1.1 m = ptsOf src m
  top : 0 < fuel → ∃ k, eptsOf acc.1.1 c.up c.down = sentE (eptsOf src c.up c.down) (wall k)
  kids : ∀ d c', c' ∈ liveEdges src → d + 1 < fuel → BelowD (liveK src) c.down d c'.up →
    ∃ k, eptsOf acc.1.1 c'.up c'.down = sentE (eptsOf src c'.up c'.down) (wall k)

theorem sendNodes_sent (wall : Int → Int) (src : St) (htree : TreeK (shapes src)) :
    ∀ (fuel : Nat) (dst : St × Int) (e : Edge) (P : Bytes), SrcOk src e.down → e ∈ src.edges →
    P ≠ [] → P ≠ noneS → P ≠ rootS → ¬ Below (liveK src) e.down P →
    (∀ m, Below (liveK src) e.down m → Fresh dst.1 m) →
    (sendNodesAux wall src fuel dst { neOf src e with parent := P }).2 = true ∧
      Sent wall src fuel dst.1 e P (sendNodesAux wall src fuel dst { neOf src e with parent := P }).1.1 := by
  have hLT := liveK_tree src htree
  intro fuel
  induction fuel with
  | zero =>
    intro dst e P _ _ _ _ _ _ _
    refine ⟨rfl, ⟨rfl, ⟨[], by rw [List.append_nil]; rfl, fun _ h => by cases h⟩, fun y _ => Same.refl _ _, fun d m h _ => absurd h (Nat.not_lt_zero _),
      fun h => absurd h (Nat.lt_irrefl 0), fun d c _ h _ => absurd h (Nat.not_lt_zero _)⟩⟩
  | succ fuel ih =>
    intro dst e P hs he hP1 hP2 hP3 hPb hfresh
    obtain ⟨hr1, hr2, hr3, hr4⟩ := hs.rows e he (Below.refl _ _)
    obtain ⟨hn1, hn2, hn3, hn4⟩ := hs.names e he (Below.refl _ _)
    have hPe : P ≠ e.down := fun h => hPb (h ▸ Below.refl _ _)
    obtain ⟨st1, h1, h2, h3, h4, h5⟩ := sendNode_transfer dst.1 { neOf src e with parent := P } (wall dst.2) hr1 hr2 hr3
      (hfresh e.down (Below.refl _ _)) hn1 ⟨hP1, hP2, hP3, hPe⟩ hr4
    rw [sendNodesAux_succ wall src fuel dst _ st1 h1 hn2 hn3]
    -- the fold
    have hstep : ∀ (b : (St × Int) × Bool) (c : Edge), b.2 = true → c ∈ liveEdges src → c.up = e.down →
        (∀ m, Below (liveK src) c.down m → Fresh b.1.1 m) →
        (kidStep wall src fuel b c).2 = true ∧ Sent wall src fuel b.1.1 c c.up (kidStep wall src fuel b c).1.1 := by
      intro b c hb hc hcu hU
      unfold kidStep
      rw [if_pos hb]
      have := ih b.1 c c.up (hs.sub hc hcu) (liveEdges_mem src c hc) (hcu ▸ hn1) (hcu ▸ hn4) (hcu ▸ hn2)
        (Below.not_up hLT (shape c) (liveK_mem src c hc)) hU
      exact this
    have hnotup : ∀ c, c ∈ liveEdges src → c.up = e.down → ¬ Below (liveK src) c.down e.down := by
      intro c hc hcu h
      exact Below.not_up hLT (shape c) (liveK_mem src c hc) (by show Below (liveK src) c.down c.up; rw [hcu]; exact h)
    have key := foldl_each (kidStep wall src fuel) (TopOk wall src dst.1 e P)
      (fun c b => c ∈ liveEdges src ∧ c.up = e.down ∧ ∀ m, Below (liveK src) c.down m → Fresh b.1.1 m)
      (fun c b => KidOk wall src fuel c b)
      (fun c1 c2 => shape c1 ≠ shape c2 ∧ c1 ∈ liveEdges src ∧ c2 ∈ liveEdges src ∧ c1.up = e.down ∧ c2.up = e.down)
      (by
        intro b c hI hU
        obtain ⟨hc, hcu, hUf⟩ := hU
        obtain ⟨hok, hS⟩ := hstep b c hI.ok hc hcu hUf
        refine ⟨⟨hok, hS.root.trans hI.root, ?_, ?_, ?_, ?_⟩, ⟨hS.pts, hS.top, hS.kids⟩⟩
        · obtain ⟨L, hL, hLk⟩ := hI.shp
          obtain ⟨L', hL', hLk'⟩ := hS.shp
          refine ⟨L ++ L', by rw [hL', hL, List.append_assoc], ?_⟩
          intro k hk
          rcases List.mem_append.mp hk with hk | hk
          · exact hLk k hk
          · obtain ⟨a1, a2⟩ := hLk' k hk
            refine ⟨below_child hc hcu a1, Or.inr ?_⟩
            rcases a2 with a2 | a2
            · rw [a2, hcu]; exact Below.refl _ _
            · exact below_child hc hcu a2
        · intro y hy
          exact (hI.frame y hy).trans (hS.frame y (fun h => hy (below_child hc hcu h)))
        · rw [(hS.frame e.down (hnotup c hc hcu)).1]; exact hI.tpts
        · obtain ⟨k, hk⟩ := hI.tepts
          exact ⟨k, by rw [(hS.frame e.down (hnotup c hc hcu)).2]; exact hk⟩)
      (by
        intro b a x hD hI hUa hUx
        obtain ⟨hne, ha, hx, hau, hxu⟩ := hD
        obtain ⟨_, hS⟩ := hstep b a hI.ok ha hau hUa.2.2
        refine ⟨hx, hxu, fun m hm => ?_⟩
        refine fresh_after hS m (hUx.2.2 m hm) ?_ ?_
        · intro h
          exact Below.siblings hLT (shape a) (shape x) (liveK_mem src a ha) (liveK_mem src x hx) (hau.trans hxu.symm) hne h hm
        · intro h
          rw [hau] at h
          exact hnotup x hx hxu (h ▸ hm))
      (by
        intro b a x hD hI hUa hQ
        obtain ⟨hne, hx, ha, hxu, hau⟩ := hD
        obtain ⟨_, hS⟩ := hstep b a hI.ok ha hau hUa.2.2
        have hsame : ∀ m, Below (liveK src) x.down m → Same b.1.1 (kidStep wall src fuel b a).1.1 m := by
          intro m hm
          apply hS.frame
          intro h
          exact Below.siblings hLT (shape a) (shape x) (liveK_mem src a ha) (liveK_mem src x hx) (hau.trans hxu.symm) (Ne.symm hne) h hm
        refine ⟨?_, ?_, ?_⟩
        · intro d m hd hm
          rw [(hsame m ⟨d, hm⟩).1]; exact hQ.pts d m hd hm
        · intro hf
          obtain ⟨k, hk⟩ := hQ.top hf
          exact ⟨k, by rw [(hsame x.down (Below.refl _ _)).2]; exact hk⟩
        · intro d c' hc' hd hm
          obtain ⟨k, hk⟩ := hQ.kids d c' hc' hd hm
          refine ⟨k, ?_⟩
          rw [(hsame c'.down (Below.step (shape c') (liveK_mem src c' hc') ⟨d, hm⟩)).2]; exact hk)
    have h3' : ∀ y, ptsOf st1 y = if y = e.down then ptsOf src e.down else ptsOf dst.1 y := h3
    have h4' : ∀ u d, eptsOf st1 u d = if (u, d) = (P, e.down) then sentE (eptsOf src e.up e.down) (wall dst.2) else eptsOf dst.1 u d := h4
    have h2' : shapes st1 = shapes dst.1 ++ [(P, e.down, e.typ)] := h2
    have hmeml : ∀ c, c ∈ (liveEdges src).filter (fun c => c.up == e.down) ↔ c ∈ liveEdges src ∧ c.up = e.down := by
      intro c; simp [List.mem_filter]
    have hpw : ((liveEdges src).filter (fun c => c.up == e.down)).Pairwise
        (fun c1 c2 => shape c1 ≠ shape c2 ∧ c1 ∈ liveEdges src ∧ c2 ∈ liveEdges src ∧ c1.up = e.down ∧ c2.up = e.down) := by
      have h0 : (liveEdges src).Pairwise (fun a b => (shape a).2.1 ≠ (shape b).2.1) := by
        have := hLT.single
        unfold liveK at this
        rw [List.pairwise_map] at this
        exact this
      have h1 := pairwise_filter_mem _ (fun c => c.up == e.down) (liveEdges src) h0
      exact h1.imp (fun ⟨a1, a2, a3, a4, a5⟩ => ⟨fun h => a5 (by rw [h]), a1, a3, by simpa using a2, by simpa using a4⟩)
    have hI0 : TopOk wall src dst.1 e P ((st1, dst.2 + 1), true) := by
      refine ⟨rfl, h5, ⟨[(P, e.down, e.typ)], h2', ?_⟩, ?_, ?_, ?_⟩
      · intro k hk; rw [List.mem_singleton] at hk; rw [hk]; exact ⟨Below.refl _ _, Or.inl rfl⟩
      · intro y hy
        have hye : y ≠ e.down := fun h => hy (h ▸ Below.refl _ _)
        exact ⟨by rw [h3' y, if_neg hye], fun u => by rw [h4' u y, if_neg (fun h => hye (by injection h))]⟩
      · show ptsOf st1 e.down = _
        rw [h3' e.down, if_pos rfl]
      · exact ⟨dst.2, by show eptsOf st1 P e.down = _; rw [h4' P e.down, if_pos rfl]⟩
    have hU0 : ∀ c ∈ (liveEdges src).filter (fun c => c.up == e.down),
        (c ∈ liveEdges src ∧ c.up = e.down ∧ ∀ m, Below (liveK src) c.down m → Fresh (((st1, dst.2 + 1), true) : (St × Int) × Bool).1.1 m) := by
      intro c hc
      obtain ⟨hc1, hc2⟩ := (hmeml c).mp hc
      refine ⟨hc1, hc2, fun m hm => ?_⟩
      have hmb := below_child hc1 hc2 hm
      have hf := hfresh m hmb
      have hme : m ≠ e.down := fun h => hnotup c hc1 hc2 (h ▸ hm)
      have hmP : m ≠ P := fun h => hPb (h ▸ hmb)
      show Fresh st1 m
      refine ⟨?_, ?_, ?_, ?_⟩
      · intro e' he'
        have hm' : shape e' ∈ shapes st1 := mem_shapes st1 e' he'
        rw [h2', List.mem_append] at hm'
        rcases hm' with hm' | hm'
        · obtain ⟨e0, he0, hu, hd, _⟩ := shapes_mem dst.1 _ hm'
          have := hf.edges e0 he0
          exact ⟨fun h => this.1 (hu.trans h), fun h => this.2 (hd.trans h)⟩
        · rw [List.mem_singleton] at hm'
          have hu : e'.up = P := congrArg (·.1) hm'
          have hd : e'.down = e.down := congrArg (·.2.1) hm'
          exact ⟨fun h => hmP (h.symm.trans hu), fun h => hme (h.symm.trans hd)⟩
      · rw [h3' m, if_neg hme]; exact hf.pts
      · intro u; rw [h4' u m, if_neg (fun h => hme (by injection h))]; exact hf.epts u
      · rw [h5]; exact hf.root
    obtain ⟨rI, _, rQ⟩ := key _ [] ((st1, dst.2 + 1), true) hpw (fun _ h => by cases h) hI0 hU0 (fun _ h => by cases h)
    refine ⟨rI.ok, ⟨rI.root, rI.shp, rI.frame, ?_, fun _ => rI.tepts, ?_⟩⟩
    · intro d m hd hm
      cases d with
      | zero => rw [belowD_zero hm rfl]; exact rI.tpts
      | succ d' =>
        obtain ⟨k, hk, hk1, hrest⟩ := hm.top
        obtain ⟨c, hc, rfl⟩ := mem_liveK src k hk
        exact (rQ c ((hmeml c).mpr ⟨hc, hk1⟩)).pts d' m (by omega) hrest
    · intro d c' hc' hd hm
      cases d with
      | zero =>
        have hcu : c'.up = e.down := belowD_zero hm rfl
        exact (rQ c' ((hmeml c').mpr ⟨hc', hcu⟩)).top (by omega)
      | succ d' =>
        obtain ⟨k, hk, hk1, hrest⟩ := hm.top
        obtain ⟨c, hc, rfl⟩ := mem_liveK src k hk
        exact (rQ c ((hmeml c).mpr ⟨hc, hk1⟩)).kids d' c' hc' (by omega) hrest


/-! ### the recursion budget reaches every node of a forest -/

theorem belowD_erase {K : List Sh} (r : Bytes → Nat) (hr : ∀ k ∈ K, r k.1 < r k.2.1) (k0 : Sh) {b y : Bytes} {d : Nat}
    (h : BelowD K b d y) (hb : r k0.1 < r b) : BelowD (K.erase k0) b d y := by
  induction h with
  | refl => exact .refl
  | step k d hk hprev ih =>
    have hle : r b ≤ r k.1 := Below.rank_le r hr ⟨d, hprev⟩
    have hne : k ≠ k0 := by
      intro h; rw [h] at hle; omega
    exact .step k d ((List.mem_erase_of_ne hne).mpr hk) ih

theorem belowD_depth : ∀ (n : Nat) (K : List Sh), K.length = n → TreeK K → ∀ (a y : Bytes) (d : Nat), BelowD K a d y → d ≤ n := by
  intro n
  induction n with
  | zero =>
    intro K hK _ a y d h
    cases d with
    | zero => exact Nat.le_refl _
    | succ d' =>
      obtain ⟨k, hk, _, _⟩ := h.top
      rw [List.length_eq_zero_iff.mp hK] at hk
      cases hk
  | succ n ih =>
    intro K hK ht a y d h
    cases d with
    | zero => omega
    | succ d' =>
      obtain ⟨k0, hk0, hka, hrest⟩ := h.top
      obtain ⟨r, hr⟩ := ht.rank
      have hsub : (K.erase k0).Sublist K := List.erase_sublist
      have ht' : TreeK (K.erase k0) := ⟨⟨r, fun k hk => hr k (hsub.subset hk)⟩, ht.single.sublist hsub⟩
      have hlen : (K.erase k0).length = n := by rw [List.length_erase_of_mem hk0, hK]; rfl
      have := ih (K.erase k0) hlen ht' k0.2.1 y d' (belowD_erase r hr k0 hrest (hr k0 hk0))
      omega

theorem liveK_length (src : St) : (liveK src).length ≤ src.edges.length := by
  unfold liveK liveEdges
  rw [List.length_map]
  exact List.length_filter_le _ _

/-- **a subtree the upstream store does not know** (`toRemote` = sendNodesRemote with the budget in use): every node of the
    live subtree arrives with exactly the local rows -/
theorem toRemote_sent (wall : Int → Int) (s : Pair) (e : Edge) (hs : SrcOk s.a e.down) (P : Bytes) (he : e ∈ s.a.edges)
    (hP1 : P ≠ []) (hP2 : P ≠ noneS) (hP3 : P ≠ rootS) (hPb : ¬ Below (liveK s.a) e.down P)
    (hfresh : ∀ m, Below (liveK s.a) e.down m → Fresh s.b m) :
    (toRemote wall s { neOf s.a e with parent := P }).a = s.a ∧
    (∀ m, Below (liveK s.a) e.down m → ptsOf (toRemote wall s { neOf s.a e with parent := P }).b m = ptsOf s.a m) ∧
    (∃ k, eptsOf (toRemote wall s { neOf s.a e with parent := P }).b P e.down = sentE (eptsOf s.a e.up e.down) (wall k)) ∧
    (∀ c ∈ liveEdges s.a, Below (liveK s.a) e.down c.up →
      ∃ k, eptsOf (toRemote wall s { neOf s.a e with parent := P }).b c.up c.down = sentE (eptsOf s.a c.up c.down) (wall k)) ∧
    (∀ y, ¬ Below (liveK s.a) e.down y → Same s.b (toRemote wall s { neOf s.a e with parent := P }).b y) := by
  obtain ⟨_, hS⟩ := sendNodes_sent wall s.a hs.tree (2 ^ s.a.edges.length + 1) (s.b, s.clk) e P hs he hP1 hP2 hP3 hPb hfresh
  have hdepth : ∀ a y d, BelowD (liveK s.a) a d y → d + 1 < 2 ^ s.a.edges.length + 1 := by
    intro a y d h
    have h1 := belowD_depth _ (liveK s.a) rfl (liveK_tree s.a hs.tree) a y d h
    have h2 := liveK_length s.a
    have h3 : s.a.edges.length < 2 ^ s.a.edges.length := Nat.lt_two_pow_self
    omega
  refine ⟨rfl, ?_, hS.top (Nat.succ_pos _), ?_, hS.frame⟩
  · intro m ⟨d, hm⟩
    exact hS.pts d m (by have := hdepth _ _ _ hm; omega) hm
  · intro c hc ⟨d, hm⟩
    exact hS.kids d c hc (hdepth _ _ _ hm) hm

/-! ### a node missing DOWNSTREAM: `sendNodesLocal` lists the children in the local store -/

theorem getNodes_no_kids (src : St) (p : Bytes) (hp1 : p ≠ rootS) (hp2 : p ≠ allS) (h : ∀ e ∈ src.edges, e.up ≠ p) :
    getNodes src p allS false = [] := by
  rw [getNodes_live src p hp1 hp2]
  have : (liveEdges src).filter (fun e => e.up == p) = [] := by
    rw [List.filter_eq_nil_iff]
    intro e he
    have := h e (liveEdges_mem src e he)
    simpa using this
  rw [this]; rfl

/-- `sendNodesLocal` of a node whose id has no children in the LOCAL store (it is being created there) is `SendNode` of
    that node alone: the children upstream are not looked at -/
theorem toLocal_one_level (wall : Int → Int) (s : Pair) (n : NE) (hn2 : n.id ≠ rootS) (hn3 : n.id ≠ allS)
    (h : ∀ e ∈ s.a.edges, e.up ≠ n.id) :
    toLocal wall s n = { s with a := sendNodeState s.a n (wall s.clk), clk := s.clk + 1 } := by
  unfold toLocal sendNodes
  simp only []
  rw [sendNodesAux]
  simp only []
  cases hsn : sendNode s.a n (wall s.clk) with
  | none => rfl
  | some st1 =>
    simp only []
    rw [getNodes_no_kids s.a n.id hn2 hn3 h]
    simp only [List.foldl_nil]
    have : sendNodeState s.a n (wall s.clk) = st1 := by unfold sendNodeState; rw [hsn]
    rw [this]

/-- … and that one node arrives with exactly the upstream rows -/
theorem toLocal_copies (wall : Int → Int) (s : Pair) (n : NE) (hn2 : n.id ≠ rootS) (hn3 : n.id ≠ allS)
    (hP : Rows n.pts) (hE : Rows n.epts) (hnt : ∀ p ∈ n.epts, p.type ≠ nodeTypeT)
    (hf : Fresh s.a n.id) (hid : n.id ≠ [])
    (hp : n.parent ≠ [] ∧ n.parent ≠ noneS ∧ n.parent ≠ rootS ∧ n.parent ≠ n.id) (ht : n.typ ≠ []) :
    (toLocal wall s n).b = s.b ∧
    shapes (toLocal wall s n).a = shapes s.a ++ [(n.parent, n.id, n.typ)] ∧
    (∀ y, ptsOf (toLocal wall s n).a y = if y = n.id then n.pts else ptsOf s.a y) ∧
    (∀ u d, eptsOf (toLocal wall s n).a u d = if (u, d) = (n.parent, n.id) then sentE n.epts (wall s.clk) else eptsOf s.a u d) := by
  obtain ⟨st', h1, h2, h3, h4, _⟩ := sendNode_transfer s.a n (wall s.clk) hP hE hnt hf hid hp ht
  rw [toLocal_one_level wall s n hn2 hn3 (fun e he => (hf.edges e he).1)]
  have : sendNodeState s.a n (wall s.clk) = st' := by unfold sendNodeState; rw [h1]
  rw [this]
  exact ⟨rfl, h2, h3, h4⟩

/-! ### the entry of the pass: a node that upstream lacks -/

theorem filter_unique {α β} [DecidableEq β] (f : α → β) (q : α → Bool) : ∀ (l : List α), l.Pairwise (fun a b => f a ≠ f b) →
    ∀ e ∈ l, q e = true → (∀ x ∈ l, q x = true → f x = f e) → l.filter q = [e] := by
  intro l
  induction l with
  | nil => intro _ e he; cases he
  | cons a l ih =>
    intro hp e he hq hall
    rw [List.pairwise_cons] at hp
    rcases List.mem_cons.mp he with rfl | he'
    · rw [List.filter_cons, if_pos hq]
      congr 1
      rw [List.filter_eq_nil_iff]
      intro x hx hqx
      exact hp.1 x hx (hall x (List.mem_cons_of_mem _ hx) hqx).symm
    · have hqa : q a = false := by
        cases h : q a with
        | false => rfl
        | true => exact absurd (hall a (List.mem_cons_self ..) h) (hp.1 e he')
      rw [List.filter_cons, hqa]
      exact ih hp.2 e he' hq (fun x hx => hall x (List.mem_cons_of_mem _ hx))

/-- `syncNode` for a local node (not the root device) that upstream has no edge into: the whole pass is `sendNodesRemote` -/
theorem syncNode_missing (wall : Int → Int) (fuel : Nat) (s : Pair) (e : Edge) (hs : SrcOk s.a e.down) (he : e ∈ s.a.edges)
    (hp1 : e.up ≠ rootS) (hp2 : e.up ≠ allS) (hfresh : Fresh s.b e.down) :
    syncNode wall (fuel + 1) s e.up e.down = toRemote wall s (neOf s.a e) := by
  obtain ⟨_, _, hn3, _⟩ := hs.names e he (Below.refl _ _)
  have hA : s.a.edges.filter (fun x => x.up == e.up && x.down == e.down) = [e] := by
    have hpw : s.a.edges.Pairwise (fun a b => a.down ≠ b.down) := by
      have := hs.tree.single
      unfold shapes at this
      rw [List.pairwise_map] at this
      exact this
    apply filter_unique (fun x : Edge => x.down) _ _ hpw e he (by simp)
    intro x _ hx
    simp only [Bool.and_eq_true, beq_iff_eq] at hx
    exact hx.2
  have hB : s.b.edges.filter (fun x => x.up == e.up && x.down == e.down) = [] := by
    rw [List.filter_eq_nil_iff]
    intro x hx hq
    simp only [Bool.and_eq_true, beq_iff_eq] at hq
    exact (hfresh.edges x hx).2 hq.2
  simp only [syncNode, hp1, if_false, getNodes_pair _ e.up e.down hp1 hp2 hn3, hA, hB, List.map_cons, List.map_nil]
  have : (neOf s.a e).parent = e.up := rfl
  rw [this, if_neg hp1]

end Siot.Sync
