import Siot.Lemmas.ExportStore
/-
The YAML file carries no time stamps: every point of an imported file has time 0 and is stamped by the store with the
clock of the import. Sending such a node is sending the node with all its times set to that clock — the form the
store-level theorems (`sendNode_fresh`, `sendAll_fresh`, `c15_import_stored`) speak about.
-/
namespace Siot.Export
open Siot Siot.Store

def zeroT (p : Point) : Point := { p with time := 0 }
def setT (t : Int) (p : Point) : Point := { p with time := t }

/-- a node as the file holds it: no time stamps -/
def zeroNode (n : NodeRec) : NodeRec := { n with pts := n.pts.map zeroT, epts := n.epts.map zeroT }
/-- the same node with every point stamped `t` -/
def stampNode (t : Int) (n : NodeRec) : NodeRec := { n with pts := n.pts.map (setT t), epts := n.epts.map (setT t) }

def zeroFlat (f : Flat) : Flat := f.map (fun x => (x.1, zeroNode x.2))
/-- the file as the import stamps it: node number i (in file order) at clock `t + i` -/
def stampFlat : Int → Flat → Flat
  | _, [] => []
  | t, (d, n) :: rest => (d, stampNode t n) :: stampFlat (t + 1) rest

theorem hasTomb_time (f : Point → Point) (hf : ∀ p, (f p).type = p.type ∧ (f p).key = p.key) (l : List Point) :
    hasTomb (l.map f) = hasTomb l := by
  unfold hasTomb
  rw [List.any_map]
  congr 1
  funext p
  simp only [Function.comp, (hf p).1, (hf p).2]

theorem sendNode_timeless (st : St) (n : NodeRec) (now : Int) (h0 : now ≠ 0) :
    sendNode st (zeroNode n) now = sendNode st (stampNode now n) now := by
  have hz : ∀ l : List Point, (l.map zeroT).map (fun (p : Point) => if p.time = 0 then { p with time := now } else p) = l.map (setT now) := by
    intro l
    rw [List.map_map]
    apply List.map_congr_left
    intro p _
    simp [Function.comp, zeroT, setT]
  have hs : ∀ l : List Point, (l.map (setT now)).map (fun (p : Point) => if p.time = 0 then { p with time := now } else p) = l.map (setT now) := by
    intro l
    rw [List.map_map]
    apply List.map_congr_left
    intro p _
    simp [Function.comp, setT, h0]
  have ht1 : hasTomb (n.epts.map zeroT) = hasTomb n.epts := hasTomb_time zeroT (fun _ => ⟨rfl, rfl⟩) _
  have ht2 : hasTomb (n.epts.map (setT now)) = hasTomb n.epts := hasTomb_time (setT now) (fun _ => ⟨rfl, rfl⟩) _
  unfold sendNode zeroNode stampNode
  simp only [hz, hs, ht1, ht2]

/-- importing a file without time stamps at clock `now` is importing the file stamped with the clocks of the import -/
theorem sendAll_timeless : ∀ (f : Flat) (st : St) (now : Int), 0 < now → sendAll st (zeroFlat f) now = sendAll st (stampFlat now f) now := by
  intro f
  induction f with
  | nil => intro st now _; rfl
  | cons x rest ih =>
    intro st now hpos
    obtain ⟨d, n⟩ := x
    show sendAll st ((d, zeroNode n) :: zeroFlat rest) now = sendAll st ((d, stampNode now n) :: stampFlat (now + 1) rest) now
    simp only [sendAll]
    rw [sendNode_timeless st n now (by omega)]
    cases sendNode st (stampNode now n) now with
    | ok st1 => exact ih st1 (now + 1) (by omega)
    | err e => rfl
    | panic e => rfl

end Siot.Export
