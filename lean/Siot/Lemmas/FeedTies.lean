import Siot.Lemmas.Feed
/- C08, the fold theorem at full strength: ties (equal time stamps on different points of one identity)
   allowed. Everything is phrased on look-ups by identity. -/
namespace Siot.Feed
open Siot Siot.Store

/-- look-up by identity -/
def lk (rows : List Point) (x : Point) : Option Point := rows.find? (sameId x)

/-- "the last delivery of x's identity wins" as a fold over deliveries -/
def lastStep (x : Point) (acc : Option Point) (q : Point) : Option Point := if sameId x q then some q else acc

theorem find_congr {α} (l : List α) (p q : α → Bool) (h : ∀ a ∈ l, p a = q a) : l.find? p = l.find? q := by
  induction l with
  | nil => rfl
  | cons a l ih =>
    simp only [List.find?_cons, h a (by simp)]
    rw [ih (fun b hb => h b (by simp [hb]))]

theorem mergeBatch_cons_accepted (rows : List Point) (p : Point) (ps : List Point)
    (hacc : ∀ old, rows.find? (sameId p) = some old → old.time ≤ p.time) :
    (mergeBatch rows (p :: ps)).1 = (mergeBatch (putN rows p) ps).1 := by
  simp only [mergeBatch, putN]
  cases hf : rows.find? (sameId p) with
  | none => rfl
  | some old => simp only [hacc old hf, if_true]

theorem lk_putN (rows : List Point) (hu : IdUnique rows) (q x : Point) :
    lk (putN rows q) x = if sameId x q then some q else lk rows x := by
  unfold lk putN
  cases hf : rows.find? (sameId q) with
  | none =>
    simp only []
    have hno := find_none_no_same rows q hf
    rw [List.find?_append]
    by_cases hx : sameId x q = true
    · have hnone : rows.find? (sameId x) = none := by
        rw [List.find?_eq_none]
        intro r hr hs
        have := sameId_trans q x r (by rw [sameId_symm]; exact hx) hs
        rw [hno r hr] at this; cases this
      simp [hnone, hx]
    · have hx' : sameId x q = false := by simpa using hx
      cases hr : rows.find? (sameId x) with
      | some r => simp [hx']
      | none => simp [hx']
  | some old =>
    simp only []
    obtain ⟨hold, hso⟩ := find_sameId rows q old hf
    rw [List.find?_map]
    by_cases hx : sameId x q = true
    · simp only [hx, if_true]
      have hfun : rows.find? ((sameId x) ∘ (fun r => if sameId q r then q else r)) = some old := by
        have : rows.find? ((sameId x) ∘ (fun r => if sameId q r then q else r)) = rows.find? (sameId q) := by
          apply find_congr
          intro r _
          simp only [Function.comp_apply]
          by_cases hqr : sameId q r = true
          · simp [hqr, hx]
          · have hqr' : sameId q r = false := by simpa using hqr
            simp only [hqr', Bool.false_eq_true, if_false]
            cases hxr : sameId x r with
            | false => rfl
            | true =>
              have := sameId_trans q x r (by rw [sameId_symm]; exact hx) hxr
              rw [hqr'] at this; cases this
        rw [this, hf]
      rw [hfun]
      simp [hso]
    · have hx' : sameId x q = false := by simpa using hx
      simp only [hx', Bool.false_eq_true, if_false]
      have hfun : rows.find? ((sameId x) ∘ (fun r => if sameId q r then q else r)) = rows.find? (sameId x) := by
        apply find_congr
        intro r _
        simp only [Function.comp_apply]
        by_cases hqr : sameId q r = true
        · simp only [hqr, if_true, hx']
          cases hxr : sameId x r with
          | false => rfl
          | true =>
            have := sameId_trans x r q hxr (by rw [sameId_symm]; exact hqr)
            rw [hx'] at this; cases this
        · have hqr' : sameId q r = false := by simpa using hqr
          simp [hqr']
      rw [hfun]
      cases hr : rows.find? (sameId x) with
      | none => rfl
      | some r =>
        have hxr := List.find?_some hr
        simp only [Option.map_some, Option.some.injEq]
        cases hqr : sameId q r with
        | false => simp
        | true =>
          have := sameId_trans x r q hxr (by rw [sameId_symm]; exact hqr)
          rw [hx'] at this; cases this

theorem putN_idUnique (rows : List Point) (hu : IdUnique rows) (q : Point) : IdUnique (putN rows q) := by
  unfold putN
  cases hf : rows.find? (sameId q) with
  | none => exact idUnique_append rows q hu hf
  | some old => exact idUnique_replace rows q hu

theorem putN_mem (rows : List Point) (q r : Point) (h : r ∈ putN rows q) : r ∈ rows ∨ r = q := by
  unfold putN at h
  cases hf : rows.find? (sameId q) with
  | none => simp only [hf, List.mem_append, List.mem_singleton] at h; exact h
  | some old =>
    simp only [hf] at h
    rcases mem_replace rows q r h with h | h
    · exact Or.inr h
    · exact Or.inl h.1

theorem foldPut_idUnique : ∀ (l rows : List Point), IdUnique rows → IdUnique (l.foldl putN rows) := by
  intro l
  induction l with
  | nil => intro rows h; exact h
  | cons q l ih => intro rows h; exact ih _ (putN_idUnique rows h q)

theorem foldPut_mem : ∀ (l rows : List Point) (r : Point), r ∈ l.foldl putN rows → r ∈ rows ∨ r ∈ l := by
  intro l
  induction l with
  | nil => intro rows r h; exact Or.inl h
  | cons q l ih =>
    intro rows r h
    rcases ih _ r h with h | h
    · rcases putN_mem rows q r h with h | h
      · exact Or.inl h
      · exact Or.inr (by simp [h])
    · exact Or.inr (by simp [h])

theorem lk_foldPut : ∀ (l rows : List Point), IdUnique rows → ∀ x,
    lk (l.foldl putN rows) x = l.foldl (lastStep x) (lk rows x) := by
  intro l
  induction l with
  | nil => intro rows _ x; rfl
  | cons q l ih =>
    intro rows hu x
    simp only [List.foldl_cons]
    rw [ih _ (putN_idUnique rows hu q) x, lk_putN rows hu q x]
    rfl

/-- every row is at most as new as any later delivery of its identity -/
def Below (rows ds : List Point) : Prop := ∀ r ∈ rows, ∀ d ∈ ds, sameId r d = true → r.time ≤ d.time

/-- when every delivery is accepted (nothing stored is newer), the merge loop IS the fold of `putN` -/
theorem mergeBatch_eq_fold : ∀ (l rows : List Point), Below rows l → Mono l → (mergeBatch rows l).1 = l.foldl putN rows := by
  intro l
  induction l with
  | nil => intro rows _ _; rfl
  | cons p ps ih =>
    intro rows hb hm
    rw [mergeBatch_cons_accepted rows p ps (by
      intro old hf
      obtain ⟨hold, hso⟩ := find_sameId rows p old hf
      exact hb old hold p (by simp) (by rw [sameId_symm]; exact hso))]
    simp only [List.foldl_cons]
    apply ih
    · intro r hr d hd hs
      rcases putN_mem rows p r hr with hr | rfl
      · exact hb r hr d (by simp [hd]) hs
      · obtain ⟨c1, c2, hc⟩ := List.append_of_mem hd
        exact hm [] r c1 d c2 (by simp [hc]) hs
    · intro a x b y c hl hs
      exact hm (p :: a) x b y c (by simp [hl]) hs

theorem lastStep_fold_indep (x : Point) : ∀ (l : List Point) (a b : Option Point), (∃ q ∈ l, sameId x q = true) →
    l.foldl (lastStep x) a = l.foldl (lastStep x) b := by
  intro l
  induction l with
  | nil => intro a b h; obtain ⟨q, hq, _⟩ := h; cases hq
  | cons p ps ih =>
    intro a b h
    simp only [List.foldl_cons]
    by_cases hp : sameId x p = true
    · simp [lastStep, hp]
    · have hp' : sameId x p = false := by simpa using hp
      obtain ⟨q, hq, hs⟩ := h
      simp only [List.mem_cons] at hq
      rcases hq with rfl | hq
      · rw [hs] at hp'; cases hp'
      · simp only [lastStep, hp', Bool.false_eq_true, if_false]
        exact ih a b ⟨q, hq, hs⟩

/-- under non-decreasing times, `Collapse` keeps for every identity its LAST point (ties included) -/
theorem collapse_last (x : Point) : ∀ (b : List Point), Mono b → ∀ init,
    (collapse b).foldl (lastStep x) init = b.foldl (lastStep x) init := by
  intro b
  induction b with
  | nil => intro _ init; rfl
  | cons p ps ih =>
    intro hm init
    have hmps : Mono ps := by
      intro a y c z d hl hs
      exact hm (p :: a) y c z d (by simp [hl]) hs
    obtain ⟨_, hsub, hcov⟩ := collapse_spec ps
    simp only [collapse, List.foldl_cons]
    cases hf : (collapse ps).find? (sameId p) with
    | none =>
      simp only [List.foldl_cons]
      exact ih hmps _
    | some q =>
      obtain ⟨hq, hs⟩ := find_sameId _ p q hf
      have hqps : q ∈ ps := hsub q hq
      have hle : p.time ≤ q.time := by
        obtain ⟨c1, c2, hc⟩ := List.append_of_mem hqps
        exact hm [] p c1 q c2 (by simp [hc]) hs
      have hnot : ¬ q.time < p.time := by omega
      simp only [hnot, if_false]
      rw [ih hmps init]
      by_cases hxp : sameId x p = true
      · -- the fold over ps does not depend on the start: ps holds q of x's identity
        apply lastStep_fold_indep x ps
        exact ⟨q, hqps, sameId_trans x p q hxp hs⟩
      · have : sameId x p = false := by simpa using hxp
        simp [lastStep, this]

end Siot.Feed

namespace Siot.Feed
open Siot Siot.Store

theorem idUnique_mono (l : List Point) (hu : IdUnique l) : Mono l := by
  intro a p b q c hl hs
  exfalso
  rw [hl] at hu
  unfold IdUnique at hu
  rw [List.pairwise_append] at hu
  have := hu.2.2 p (by simp) q (by simp)
  rw [hs] at this; cases this

theorem mono_tail (a b : List Point) (h : Mono (a ++ b)) : Mono b := by
  intro x p y q z hl hs
  exact h (a ++ x) p y q z (by simp [hl]) hs

theorem mono_head (a b : List Point) (h : Mono (a ++ b)) : Mono a := by
  intro x p y q z hl hs
  exact h x p y q (z ++ b) (by simp [hl]) hs

theorem mono_below (a b : List Point) (h : Mono (a ++ b)) : Below a b := by
  intro r hr d hd hs
  obtain ⟨a1, a2, ha⟩ := List.append_of_mem hr
  obtain ⟨b1, b2, hb⟩ := List.append_of_mem hd
  exact h a1 r (a2 ++ b1) d b2 (by simp [ha, hb]) hs

theorem foldView_eq (view : List Point) (pts : List Point) : foldView view pts = (pts.map normPoint).foldl putN view := by
  unfold foldView
  rw [List.foldl_map]
  rfl

theorem fold_step_general : ∀ (bs : List (List Point)) (rows view : List Point), IdUnique rows → IdUnique view →
    (∀ x, lk rows x = lk view x) → Below rows (delivered bs) → Mono (delivered bs) →
    ∀ x, lk (rowsAfter rows bs) x = lk (foldView view bs.flatten) x := by
  intro bs
  induction bs with
  | nil => intro rows view _ _ heq _ _ x; simpa [rowsAfter, foldView] using heq x
  | cons b rest ih =>
    intro rows view hur huv heq hbel hmono x
    have hdel : delivered (b :: rest) = b.map normPoint ++ delivered rest := by
      simp [delivered]
    rw [hdel] at hbel hmono
    obtain ⟨hcu, hcsub, _⟩ := collapse_spec (b.map normPoint)
    have hmb : Mono (b.map normPoint) := mono_head _ _ hmono
    -- the store's step is the fold of putN over the collapsed batch
    have hrows1 : (mergeBatch rows (collapse (b.map normPoint))).1 = (collapse (b.map normPoint)).foldl putN rows := by
      apply mergeBatch_eq_fold
      · intro r hr d hd hs
        exact hbel r hr d (by simp [hcsub d hd]) hs
      · exact idUnique_mono _ hcu
    simp only [rowsAfter, List.flatten_cons]
    rw [hrows1]
    have hview1 : foldView view (b ++ rest.flatten) = foldView ((b.map normPoint).foldl putN view) rest.flatten := by
      rw [foldView_eq, foldView_eq, List.map_append, List.foldl_append]
    rw [hview1]
    apply ih
    · exact foldPut_idUnique _ _ hur
    · exact foldPut_idUnique _ _ huv
    · intro y
      rw [lk_foldPut _ _ hur y, lk_foldPut _ _ huv y, collapse_last y _ hmb, heq y]
    · intro r hr d hd hs
      rcases foldPut_mem _ _ r hr with h | h
      · exact hbel r h d (by simp [hd]) hs
      · have hrb := hcsub r h
        obtain ⟨c1, c2, hc⟩ := List.append_of_mem hrb
        obtain ⟨d1, d2, hd2⟩ := List.append_of_mem hd
        exact hmono c1 r (c2 ++ d1) d d2 (by simp [hc, hd2]) hs
    · exact mono_tail _ _ hmono

end Siot.Feed
