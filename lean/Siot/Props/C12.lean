import Siot.Lemmas.Pb
import Siot.Gen.Pb
/-
C12 — Wire encodings are lossless and malformed bytes are rejected cleanly.
Model: Siot/Model/Proto3.lean (wire format as protobuf-go v1.27.1 implements it for these messages),
Siot/Model/Pb.lean (messages, conversions, decoders, high-rate payload, subject parsers).
-/
namespace Siot.Pb
open Siot Siot.Proto3

/-- Tie A: the message layouts of internal/pb/*.proto (field names, types, numbers), the offsets of
the high-rate payload parser, the chunk-count checks of the subject parsers and the nil check of
PbToNode as they are in the sources right now. -/
theorem gen_pb_pinned :
    Gen.pbPointProto = ["Point.data:bytes:14", "Point.key:string:11", "Point.origin:string:15", "Point.text:string:8",
      "Point.time:google.protobuf.Timestamp:5", "Point.tombstone:int32:12", "Point.type:string:2", "Point.value:double:4",
      "PointArray.key:string:3", "PointArray.samplerate:float:4", "PointArray.starttime:uint64:1", "PointArray.type:string:2",
      "PointArray.values:*float:5", "Points.points:*Point:1", "SerialPoint.data:bytes:14", "SerialPoint.key:string:11",
      "SerialPoint.origin:string:15", "SerialPoint.text:string:8", "SerialPoint.time:int64:16", "SerialPoint.tombstone:int32:12",
      "SerialPoint.type:string:2", "SerialPoint.value:float:4", "SerialPoints.points:*SerialPoint:1"] ∧
    Gen.pbNodeProto = ["Node.edgePoints:*Point:7", "Node.hash:int32:4", "Node.id:string:1", "Node.parent:string:6",
      "Node.points:*Point:3", "Node.type:string:2", "NodeRequest.error:string:2", "NodeRequest.node:Node:1",
      "Nodes.nodes:*Node:1", "NodesRequest.error:string:2", "NodesRequest.nodes:*Node:1"] ∧
    Gen.hrPayloadLits = ["16", "16", "8", "4", "4", "0", "16", "16", "32", "32", "40", "0", "40", "44", "16", "16", "8",
      "4", "4", "0", "0", "44", "4", "44", "4", "4"] ∧
    Gen.subjectParserCmps = ["<2", "<3", "<3", "<4"] ∧
    Gen.pbToNodeCmps = ["pbNode==nil", "err!=nil", "err!=nil"] := by
  decide

/-- **C12 point round trip (message level).** Every field of a point — type, key, value bits, text,
seconds and nanoseconds, tombstone, origin and binary data — survives `ToPb` / `PbToPoint`, for
every point whose time lies in the Timestamp range and whose tombstone count fits an int32. -/
theorem c12_point_roundtrip (p : Point) (ht : WireTime p) (hb : Int32 p.tomb) :
    ∃ q, toPb p = .ok q ∧ pbToPoint q = .ok p := by
  have hv := validTs_of_wire p ht
  refine ⟨{ type := p.type, key := p.key, value := p.value, text := p.text, time := some ⟨p.sec, p.nsec⟩,
            tombstone := toInt32 (ofInt64 p.tomb), data := p.data, origin := p.origin }, by simp [toPb, hv], ?_⟩
  simp only [pbToPoint, hv, if_true, toInt32_ofInt64 p.tomb hb]

/-- outside the Timestamp range the encoder reports an error instead of sending a wrong time -/
theorem c12_point_time_error (p : Point) (h : validTs ⟨p.sec, p.nsec⟩ = false) : toPb p = .err "timestamp" := by
  simp [toPb, h]

theorem toInt32_hash (h : Nat) (hh : h < 4294967296) : ((toInt32 h) % 4294967296).toNat = h := by
  unfold toInt32
  simp only []
  have : h % 4294967296 = h := Nat.mod_eq_of_lt hh
  rw [this]
  split <;> omega

/-- **C12 node round trip (message level).** id, type, parent, hash (through int32 and back) and both
point lists survive `ToPbNode` / `PbToNode`. -/
theorem c12_node_roundtrip (n : Node) (hh : n.hash < 4294967296)
    (hp : ∀ p ∈ n.points ++ n.edgePoints, WireTime p ∧ Int32 p.tomb) :
    ∃ q, toPbNode n = .ok q ∧ pbToNode (some q) = .ok n := by
  -- every point converts, and converts back
  have conv : ∀ l : List Point, (∀ p ∈ l, WireTime p ∧ Int32 p.tomb) →
      ∃ qs, mapRes toPb l = .ok qs ∧ mapRes pbToPoint qs = .ok l := by
    intro l
    induction l with
    | nil => intro _; exact ⟨[], rfl, rfl⟩
    | cons p ps ih =>
      intro h
      obtain ⟨q, hq1, hq2⟩ := c12_point_roundtrip p (h p (by simp)).1 (h p (by simp)).2
      obtain ⟨qs, hqs1, hqs2⟩ := ih (fun x hx => h x (by simp [hx]))
      exact ⟨q :: qs, by simp [mapRes, hq1, hqs1], by simp [mapRes, hq2, hqs2]⟩
  obtain ⟨ps, hps1, hps2⟩ := conv n.points (fun p hpm => hp p (by simp [hpm]))
  obtain ⟨es, hes1, hes2⟩ := conv n.edgePoints (fun p hpm => hp p (by simp [hpm]))
  refine ⟨{ id := n.id, type := n.type, hash := toInt32 n.hash, parent := n.parent, points := ps, edgePoints := es },
    by simp only [toPbNode, hps1, hes1], ?_⟩
  simp only [pbToNode, hps2, hes2, toInt32_hash n.hash hh]

/-- **C12 decoders are total.** Whatever bytes arrive — for points, a node, a node reply (with or
without a node), node lists, serial points — the decoder returns a value or an error; the outcome
`panic` (nil dereference, index out of range) is impossible. -/
theorem c12_decoders_total (widen : Nat → Nat) (b : Bytes) (m : String) :
    pbDecodePoints b ≠ .panic m ∧ pbDecodeNode b ≠ .panic m ∧ pbDecodeNodeRequest b ≠ .panic m ∧
    pbDecodeNodes false b ≠ .panic m ∧ pbDecodeNodes true b ≠ .panic m ∧ pbDecodeSerialPoints widen b ≠ .panic m := by
  refine ⟨?_, ?_, ?_, ?_, ?_, ?_⟩
  · unfold pbDecodePoints
    cases (parse b).bind (decPointsField 1 []) with
    | none => simp
    | some ps => exact mapRes_no_panic pbToPoint pbToPoint_no_panic ps m
  · unfold pbDecodeNode
    cases nodeOfBytes {} b with
    | none => simp
    | some n => exact pbToNode_no_panic _ m
  · unfold pbDecodeNodeRequest
    cases (parse b).bind (decNodeRequest none []) with
    | none => simp
    | some r =>
      obtain ⟨node, err⟩ := r
      simp only []
      split
      · simp
      · exact pbToNode_no_panic _ m
  · unfold pbDecodeNodes
    cases (parse b).bind (decNodesRequest [] [] false) with
    | none => simp
    | some r =>
      obtain ⟨nodes, err⟩ := r
      simp only []
      split
      · simp
      · exact mapRes_no_panic _ (fun n m' => pbToNode_no_panic (some n) m') nodes m
  · unfold pbDecodeNodes
    cases (parse b).bind (decNodesRequest [] [] true) with
    | none => simp
    | some r =>
      obtain ⟨nodes, err⟩ := r
      simp only []
      split
      · simp
      · exact mapRes_no_panic _ (fun n m' => pbToNode_no_panic (some n) m') nodes m
  · unfold pbDecodeSerialPoints
    cases (parse b).bind (decSerialPoints []) <;> simp

/-- every slice taken by the sample loop of the high-rate parser is inside the payload -/
theorem hrSamples_no_panic (widen : Nat → Nat) (payload typ key : Bytes) (s p : Int) :
    ∀ (n i : Nat), 44 + 4 * (i + n) ≤ payload.length → ∀ m, hrSamples widen payload typ key s p i n ≠ .panic m := by
  intro n
  induction n with
  | zero => intro i _ m; simp [hrSamples]
  | succ n ih =>
    intro i h m
    simp only [hrSamples]
    have hs : slice payload (44 + i * 4) (44 + 4 + i * 4) = .ok ((payload.take (44 + 4 + i * 4)).drop (44 + i * 4)) := by
      unfold slice; rw [if_pos (by omega)]
    rw [hs]
    simp only []
    have := ih (i + 1) (by omega)
    cases hr : hrSamples widen payload typ key s p (i + 1) n with
    | ok rest => simp
    | err e => simp
    | panic m' => exact absurd hr (this m')

/-- **C12 high-rate payload: all slice bounds are within the payload.** -/
theorem c12_hr_in_bounds (widen : Nat → Nat) (now : Int) (payload : Bytes) (m : String) :
    decodeHr widen now payload ≠ .panic m := by
  unfold decodeHr
  split
  · simp
  · rename_i hl
    have h1 : slice payload 0 16 = .ok ((payload.take 16).drop 0) := by unfold slice; rw [if_pos (by omega)]
    have h2 : slice payload 16 32 = .ok ((payload.take 32).drop 16) := by unfold slice; rw [if_pos (by omega)]
    have h3 : slice payload 32 40 = .ok ((payload.take 40).drop 32) := by unfold slice; rw [if_pos (by omega)]
    have h4 : slice payload 40 44 = .ok ((payload.take 44).drop 40) := by unfold slice; rw [if_pos (by omega)]
    rw [h1, h2, h3, h4]
    simp only []
    exact hrSamples_no_panic widen payload _ _ _ _ _ 0 (by omega) m

/-- **C12 subject parsers index only below the checked length.** -/
theorem c12_subjects_total (s : Bytes) (m : String) :
    parseSubject 2 [1] s ≠ .panic m ∧ parseSubject 3 [1, 2] s ≠ .panic m ∧ parseSubject 4 [1, 2, 3] s ≠ .panic m := by
  have key : ∀ (k : Nat) (pos : List Nat), (∀ i ∈ pos, i < k) → parseSubject k pos s ≠ .panic m := by
    intro k pos hpos
    unfold parseSubject
    simp only []
    split
    · simp
    · rename_i hl
      apply mapRes_no_panic_mem
      intro i hi m'
      unfold idx
      have : i < (chunks s).length := by have := hpos i hi; omega
      simp [List.getElem?_eq_getElem this]
  exact ⟨key 2 [1] (by simp), key 3 [1, 2] (by simp), key 4 [1, 2, 3] (by simp)⟩

end Siot.Pb
